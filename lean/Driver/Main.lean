import LivesimVerif.Model.ChunkParser
import LivesimVerif.Model.Limiter
import LivesimVerif.Model.Scte
import LivesimVerif.Model.Subs
import LivesimVerif.Model.Chunk
import LivesimVerif.Model.Patch
import LivesimVerif.Model.Myers
import LivesimVerif.Model.Ttml
import Driver.Util
import Driver.Recv
import Driver.Core
import Driver.Mpd
import Driver.Fault
import Driver.Cfg
import Driver.Keys
import Driver.Load
import Driver.Ingest
import Driver.Conc
/-! Line-protocol driver: one operation per input line, one canonical result per output line. -/
open Drv

def cbStr (c : CP.Cb) : String :=
  s!"({c.start},{boolStr c.isInit},{c.data.length},{rollHash c.data})"

def resStr (r : CP.Res) : String :=
  let k := match r with
    | .done _ => "done" | .readErr _ => "readerr" | .cbErr _ => "cberr" | .badSize _ => "badsize"
    | .outOfFuel _ => "SPIN"
  s!"{k} [{joinWith "," (r.cbs.map cbStr)}]"

def opParse (args : List String) : String :=
  match args with
  | [hex, sched, eof, fr, fc] =>
    match hexBytes hex, natList sched, optNat fr, optNat fc with
    | some bs, some sc, some fr, some fc => resStr (CP.run bs sc (eof = "1") fr fc)
    | _, _, _, _ => "bad-op"
  | _ => "bad-op"

/-! ### C20: `lim <max> <intervalMs> <cidr,..|-> <t@ip;t@ip;...>` -/

def parseCidr (s : String) : Option Lim.Block :=
  match s.splitOn "/" with
  | [a, n] => match Lim.parseV4 a, n.toNat? with
    | some v, some b => if b ≤ 32 then some ⟨v, b⟩ else none
    | _, _ => none
  | _ => none

def parseEv (s : String) : Option (Int × String) :=
  match s.splitOn "@" with
  | [t, ip] => t.toInt?.map (·, ip)
  | _ => none

def limRun (cfg : Lim.Cfg String) : Lim.St String → List (Int × String) → List String
  | _, [] => []
  | s, (now, ip) :: t =>
    let r := Lim.inc cfg s now ip
    let m := Lim.middleware cfg s now ip
    s!"{r.2.nr},{r.2.maxNr},{boolStr r.2.ok},{Lim.count r.1 ip},{Lim.endTime cfg r.1},{m.2.1}" :: limRun cfg r.1 t

def opLim (args : List String) : String :=
  match args with
  | [mx, itvl, bl, evs] =>
    let blocks := if bl = "-" then some [] else (bl.splitOn ",").mapM parseCidr
    let events := if evs = "-" then some [] else (evs.splitOn ";").mapM parseEv
    match mx.toInt?, itvl.toInt?, blocks, events with
    | some m, some i, some b, some e =>
      let cfg : Lim.Cfg String := { max := m, interval := i, wl := Lim.whitelistV4 b }
      joinWith ";" (limRun cfg { reset := 0, counters := [] } e)
    | _, _, _, _ => "bad-op"
  | _ => "bad-op"

/-! ### C13: `scte <segStart> <segEnd> <T> <N>` -/
def opScte (args : List String) : String :=
  match args.mapM (·.toNat?) with
  | some [s, e, t, n] =>
    if t = 0 then "bad-op" else
    match Scte.createEmsgAhead s e t n with
    | .invalid => "invalid"
    | .none => "none"
    | .ev x => s!"ev splice={x.splice} id={x.id} dur={x.dur} pts={x.pts} brk={x.brk} adj={x.adj}"
  | _ => "bad-op"

/-! ### C12: `cue <segStartMS> <segDurMS> <startTimeS> <cueDurMS>` -/
def opCue (args : List String) : String :=
  match args.mapM (·.toNat?) with
  | some [segStart, segDur, startS, cueDur] =>
    match Subs.calcCueItvls (segStart + startS * 1000) segDur cueDur with
    | none => "PANIC divzero"
    | some cues =>
      -- back to the media axis: subtract 1000·startTimeS
      "[" ++ joinWith "," (cues.map fun c => s!"({c.start - startS * 1000},{c.stop - startS * 1000},{c.utcS})") ++ "]"
  | _ => "bad-op"

/-! ### C09: `chunk <chunkDur> <newTime> <d,d,d,...>` → per chunk (samples, first decode time, dur field, styp) -/
def opChunk (args : List String) : String :=
  match args with
  | [cd, t0, ds] =>
    match cd.toNat?, t0.toNat?, natList ds with
    | some cd, some t0, some durs =>
      if cd = 0 then "PANIC divzero" else
      let cs := Chunk.chunkSegment durs cd
      let rec go : List Chunk.Ch → Nat → Bool → List String
        | [], _, _ => []
        | c :: rest, t, first => s!"({c.n},{t},{c.dur},{boolStr first})" :: go rest (t + c.real) false
      "[" ++ joinWith "," (go cs t0 true) ++ "]"
    | _, _, _ => "bad-op"
  | _ => "bad-op"

/-! ### C11: `leaf <xs> <ys> <script>` (script: d<p> | i<p>:<q>) -/
def parseEdit (s : String) : Option Patch.Edit :=
  if s.startsWith "d" then (s.drop 1).toString.toNat?.map .del
  else if s.startsWith "i" then
    match ((s.drop 1).toString.splitOn ":").mapM (·.toNat?) with
    | some [p, q] => some (.ins p q)
    | _ => none
  else none

def lopStr : Patch.LOp Nat → String
  | .remove k => s!"rm{k}"
  | .addAfter k x => s!"aa{k}:{x}"
  | .prepend x => s!"pp{x}"

def opLeaf (args : List String) : String :=
  match args with
  | [xs, ys, sc] =>
    let es := if sc = "-" then some [] else (sc.splitOn ",").mapM parseEdit
    match natList xs, natList ys, es with
    | some xs, some ys, some es =>
      match Patch.leafOps ys es 0 0 with
      | none => "PANIC index"
      | some ops =>
        let ok := match Patch.applyOps ops xs with | some r => r == ys | none => false
        s!"ops=[{joinWith ";" (ops.map lopStr)}] valid={boolStr (Patch.validB xs ys es 0 0)} applies={boolStr ok}"
    | _, _, _ => "bad-op"
  | _ => "bad-op"

def editStr : Patch.Edit → String
  | .del p => s!"d{p}"
  | .ins p q => s!"i{p}:{q}"

/-- `myers <xs> <ys>`: the edit script of the Lean model of `MyersDiff` -/
def opMyers (args : List String) : String :=
  match args with
  | [xs, ys] =>
    match natList xs, natList ys with
    | some xs, some ys =>
      match Myers.myers xs ys with
      | none => "PANIC"
      | some [] => "-"
      | some es => joinWith "," (es.map editStr)
    | _, _ => "bad-op"
  | _ => "bad-op"

/-! ### C01 (TTML clause): `ttml <doc-with-_-for-space> <shiftMS>`, `tshift <timeShift> <timescale>` -/
def opTtml (args : List String) : String :=
  match args with
  | [doc, sh] =>
    match sh.toNat? with
    | some sh => "ok " ++ Ttml.shiftTTML doc sh
    | none => "bad-op"
  | _ => "bad-op"

def opTshift (args : List String) : String :=
  match args.mapM (·.toNat?) with
  | some [ts, T] =>
    if T = 0 then "bad-op" else
    let v := Ttml.stppShiftMS ts T
    -- float tie zone: the exact value is within 10⁻³ of a half
    let rem := (2 * ts * 1000) % (2 * T)
    let d := if rem ≥ T then rem - T else T - rem
    if d * 1000 ≤ 2 * T then s!"ALT ms={(2 * ts * 1000) / (2 * T)} || ms={(2 * ts * 1000) / (2 * T) + 1}" else s!"ms={v}"
  | _ => "bad-op"

def step (st : DState2) (line : String) : DState2 × String :=
  match (line.trimAscii.toString.splitOn " ").filter (· ≠ "") with
  | "parse" :: args => (st, opParse args)
  | "lim" :: args => (st, opLim args)
  | "scte" :: args => (st, opScte args)
  | "cue" :: args => (st, opCue args)
  | "chunk" :: args => (st, opChunk args)
  | "leaf" :: args => (st, opLeaf args)
  | "myers" :: args => (st, opMyers args)
  | "ctr" :: args => (st, opCtr args)
  | "buf" :: args => (st, opBuf args)
  | "gen" :: args => (st, opGen args)
  | "renum" :: args => (st, opRenum args)
  | "asset" :: args => let r := defAsset st.core args; ({ st with core := r.1 }, r.2)
  | "rep" :: args => let r := defRep st.core args; ({ st with core := r.1 }, r.2)
  | "seg" :: args => (st, opSeg st.core args)
  | "mpddef" :: args => defMpd st args
  | "mpd" :: args => (st, opMpd st args)
  | "cfg" :: args => (st, opCfg args)
  | "cons" :: args => (st, opCons args)
  | "loadtab" :: args => (st, opLoadtab args)
  | "req" :: args => (st, opReq args)
  | "kid" :: args => (st, opKeys "kid" args)
  | "k2k" :: args => (st, opKeys "k2k" args)
  | "key2kid" :: args => (st, opKeys "key2kid" args)
  | "b64" :: args => (st, opKeys "b64" args)
  | "unb64" :: args => (st, opKeys "unb64" args)
  | "lic" :: args => (st, opKeys "lic" args)
  | "loss" :: args => (st, opLoss args)
  | "tdec" :: args => (st, opTdec args)
  | "stat" :: args => (st, opStat st.core args)
  | "sess" :: args => (st, opSess st.core args)
  | "csrc" :: args => (st, opCsrc args)
  | "chan" :: args => (st, opChan args)
  | "tracks" :: args => (st, opTracks args)
  | "ttml" :: args => (st, opTtml args)
  | "tshift" :: args => (st, opTshift args)
  | _ => (st, "bad-op")

partial def loop (h : IO.FS.Stream) (out : IO.FS.Stream) (st : DState2) : IO Unit := do
  let line ← h.getLine
  if line.isEmpty then return ()
  let (st', o) := step st line
  out.putStrLn o
  loop h out st'

def main : IO Unit := do
  let out ← IO.getStdout
  loop (← IO.getStdin) out {}
  out.flush
