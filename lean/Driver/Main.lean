import LivesimVerif.Model.ChunkParser
import Driver.Util
/-! Line-protocol driver: one operation per input line, one canonical result per output line. -/
open Drv

def cbStr (c : CP.Cb) : String :=
  s!"({c.start},{boolStr c.isInit},{c.data.length},{rollHash c.data})"

def resStr (r : CP.Res) : String :=
  let k := match r with
    | .done _ => "done" | .readErr _ => "readerr" | .cbErr _ => "cberr" | .badSize _ => "badsize"
    | .outOfFuel _ => "SPIN"
  s!"{k} [{joinWith "," (r.cbs.map cbStr)}]"

def opParse (args : List String) : String :=
  match args with
  | [hex, sched, eof, fr, fc] =>
    match hexBytes hex, natList sched, optNat fr, optNat fc with
    | some bs, some sc, some fr, some fc => resStr (CP.run bs sc (eof = "1") fr fc)
    | _, _, _, _ => "bad-op"
  | _ => "bad-op"

def step (line : String) : String :=
  match (line.trimAscii.toString.splitOn " ").filter (· ≠ "") with
  | "parse" :: args => opParse args
  | _ => "bad-op"

partial def loop (h : IO.FS.Stream) (out : IO.FS.Stream) : IO Unit := do
  let line ← h.getLine
  if line.isEmpty then return ()
  out.putStrLn (step line)
  loop h out

def main : IO Unit := do
  let out ← IO.getStdout
  loop (← IO.getStdin) out
  out.flush
