import LivesimVerif.Model.Audio
import Driver.Util
/-! Driver state (asset tables sent by the harness) and the `seg` op. -/
open Drv Core

structure DState where
  assets : List Asset := []

def parseKind : String → Option Kind
  | "video" => some .video | "audio" => some .audio | "text" => some .text | "image" => some .image
  | _ => none

def parseSegs (s : String) : Option (List Seg) :=
  if s = "-" then some [] else
  (s.splitOn ",").mapM fun t =>
    match (t.splitOn ":").mapM (·.toNat?) with
    | some [a, b, c] => some ⟨a, b, c⟩
    | _ => none

def defAsset (st : DState) (args : List String) : DState × String :=
  match args with
  | [name, loop, segDur, refId] =>
    match loop.toNat?, segDur.toNat? with
    | some l, some d =>
      ({ st with assets := st.assets.filter (·.name ≠ name) ++
          [{ name := name, loopMS := l, segDurMS := d, refId := refId, reps := [] }] }, "ok")
    | _, _ => (st, "bad-op")
  | _ => (st, "bad-op")

def defRep (st : DState) (args : List String) : DState × String :=
  match args with
  | [aname, id, kind, t, csd, sd, pre, stpp, segs] =>
    match parseKind kind, t.toNat?, csd.toNat?, sd.toNat?, parseSegs segs with
    | some k, some t, some csd, some sd, some segs =>
      let r : Rep := { id := id, kind := k, T := t, segs := segs, constSampleDur := csd, sampleDur := sd,
                       preEnc := pre = "1", stpp := stpp = "1" }
      ({ st with assets := st.assets.map fun a =>
          if a.name = aname then { a with reps := a.reps.filter (·.id ≠ id) ++ [r] } else a }, "ok")
    | _, _, _, _, _ => (st, "bad-op")
  | _ => (st, "bad-op")

/-- `start=61,tsbd=30,snr=5,ato=1500|inf,mode=n|tlt|tln` -/
def parseCfg (s : String) : Option Cfg :=
  if s = "-" then some Cfg.default else
  (s.splitOn ",").foldlM (fun (c : Cfg) kv =>
    match kv.splitOn "=" with
    | ["start", v] => v.toNat?.map fun n => { c with startS := n }
    | ["tsbd", v] => v.toNat?.map fun n => { c with tsbdS := n }
    | ["snr", v] => v.toNat?.map fun n => { c with startNr := n }
    | ["ato", "inf"] => some { c with ato := .inf }
    | ["ato", v] => v.toNat?.map fun n => { c with ato := .ms n }
    | ["mode", "n"] => some { c with mpdType := .number }
    | ["mode", "tlt"] => some { c with mpdType := .timelineTime }
    | ["mode", "tln"] => some { c with mpdType := .timelineNumber }
    | _ => none) Cfg.default

def statusStr : Status → String
  | .ok => "200" | .tooEarly ms => s!"425 ms={ms}" | .gone => "410" | .notFound => "404"
  | .internal => "500" | .panic => "PANIC"

/-- compress a frame list into ranges "a-b,c-d" (a padding frame repeats: "x,x") -/
def rangesStr (l : List Nat) : String :=
  let rec go : List Nat → Option (Nat × Nat) → List String → List String
    | [], none, acc => acc.reverse
    | [], some (a, b), acc => (s!"{a}-{b}" :: acc).reverse
    | x :: t, none, acc => go t (some (x, x)) acc
    | x :: t, some (a, b), acc => if x = b + 1 then go t (some (a, x)) acc else go t (some (x, x)) (s!"{a}-{b}" :: acc)
  joinWith "," (go l none [])

def metaStr (r : Rep) (m : Meta) : String :=
  if r.kind = .image then s!"200 img orig={m.origNr}"
  else if r.stpp then s!"200 nr={m.newNr} tfdt={m.newTime} dur={m.newDur} orig=stpp"
  else s!"200 nr={m.newNr} tfdt={m.newTime} dur={m.newDur} orig={m.origNr}"

/-- float tie zone at the *gone* boundary: at an exact tie the implementation may answer either way -/
def withGoneTie (a : Asset) (r : Rep) (cfg : Cfg) (m : Meta) (nowMS : Nat) (out : String) : String :=
  let wrapTime := m.newTime - m.origTime
  let availNum := (r.seg m.origIdx).stop + wrapTime + cfg.startS * r.T
  match goneSlack availNum r.T nowMS cfg.tsbdS cfg.ato with
  | some 0 => s!"ALT {out} || 410"
  | _ =>
    -- exact tie at the availability instant with a non-zero offset: the float subtraction may round up
    match cfg.ato with
    | .ms (a+1) => if (availNum : Int) * 1000 - ((a+1 : Nat) : Int) * r.T = (nowMS : Int) * r.T then s!"ALT {out} || 425 ms=0" else out
    | _ => out

def opSeg (st : DState) (args : List String) : String :=
  match args with
  | [aname, cfgS, repId, segId, now] =>
    match st.assets.find? (·.name = aname), parseCfg cfgS, segId.toNat?, now.toNat? with
    | some a, some cfg, some sid, some now =>
      if now < cfg.startS * 1000 then "425 pre-start" else
      match a.rep? repId with
      | none => "404"
      | some r =>
        if r.kind = .audio ∧ !r.preEnc then
          match audioSegment a r cfg sid now with
          | .inr s => statusStr s
          | .inl .panic => "PANIC"
          | .inl .err => "500"
          | .inl (.ok nr start frames) =>
            let ident := if aname.startsWith "gen_" then rangesStr frames else "?"
            let out := s!"200 nr={nr} tfdt={start} n={frames.length} frames={ident}"
            -- the availability test runs on the reference representation: same tie zones as there
            match a.ref? with
            | some ref => (match audioLookup a ref r cfg sid now with
                | .found m => withGoneTie a ref cfg m now out
                | _ => out)
            | none => out
        else
        match lookupVideo a r cfg sid now with
        | .found m => withGoneTie a r cfg m now (metaStr r m)
        | .status s => statusStr s
    | _, _, _, _ => "bad-op"
  | _ => "bad-op"
