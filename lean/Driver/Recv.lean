import LivesimVerif.Model.Receiver
import LivesimVerif.Model.Renum
import Driver.Util
/-! Driver ops for C17: `ctr`, `buf`, `gen`. -/
open Drv Recv

def ctrDump (c : Ctrs) : String :=
  s!"nr={c.nr} w={c.w} len={c.arr.length} [{joinWith "," (c.live.map fun x => s!"({x.seqNr},{x.count})")}]"

def bufDump (b : Buf) : String :=
  s!"nr={b.nr} size={b.size} len={b.items.length} [{joinWith "," (b.live.map fun x => s!"({x.seqNr},{x.dts},{x.dur},{boolStr x.shifted})")}]"

def nats (s : String) : Option (List Nat) := (s.splitOn ":").mapM (·.toNat?)

/-- one counters op; returns new state (none = panic) and the text printed -/
def ctrOp (c : Ctrs) (op : String) : Option Ctrs × String :=
  let k := op.take 1 |>.toString
  match k, nats (op.drop 1).toString with
  | "a", some [n] => match c.add n with | some c' => (some c', ctrDump c') | none => (none, "PANIC")
  | "r", some [n] => match c.resize n with | some c' => (some c', ctrDump c') | none => (none, "PANIC")
  | "d", some [n] => match c.drop n with | some c' => (some c', ctrDump c') | none => (none, "PANIC")
  | "f", some [t, m] => match c.newFullCounter t m with | some v => (some c, s!"full={v}") | none => (none, "PANIC")
  | "g", some [t] => match c.fullRange t with | some (a, b) => (some c, s!"range={a}..{b}") | none => (none, "PANIC")
  | _, _ => (some c, "bad-op")

def runOps {σ : Type} (step : σ → String → Option σ × String) : σ → List String → List String
  | _, [] => []
  | s, op :: t => match step s op with
    | (some s', out) => out :: runOps step s' t
    | (none, out) => [out]

def opCtr (args : List String) : String :=
  match args with
  | [w, ops] => match w.toNat? with
    | some w => joinWith ";" (runOps ctrOp (Ctrs.new w) (if ops = "-" then [] else ops.splitOn ","))
    | none => "bad-op"
  | _ => "bad-op"

def bufOp (b : Buf) (op : String) : Option Buf × String :=
  let k := op.take 1 |>.toString
  match k, nats (op.drop 1).toString with
  | "a", some [n, dts, dur, sh] =>
    match b.add ⟨n, dts, dur, sh = 1⟩ with
    | .ok b' => (some b', bufDump b') | .notIncreasing => (some b, "err") | .panic => (none, "PANIC")
  | "g", some [n] => match b.getItem n with
    | some it => (some b, s!"item=({it.seqNr},{it.dts},{it.dur})") | none => (some b, "item=-")
  | "r", some [n] => match b.resize n with | some b' => (some b', bufDump b') | none => (none, "PANIC")
  | "d", some [n] => match b.dropSeqNr n with | some b' => (some b', bufDump b') | none => (none, "PANIC")
  | "u", _ => match b.removeUnshifted with
    | some (b', un) => (some b', s!"un={un} " ++ bufDump b') | none => (none, "PANIC")
  | _, _ => (some b, "bad-op")

def opBuf (args : List String) : String :=
  match args with
  | [w, ops] => match w.toNat? with
    | some w => joinWith ";" (runOps bufOp (Buf.new w) (if ops = "-" then [] else ops.splitOn ","))
    | none => "bad-op"
  | _ => "bad-op"

/-- insertion sort of the buffers by track name for the dump (Go dumps the map sorted) -/
def sortBufs (l : List (String × Buf)) : List (String × Buf) :=
  l.foldl (fun acc p => (acc.filter (fun q => q.1 < p.1)) ++ [p] ++ (acc.filter (fun q => ¬ q.1 < p.1))) []

def genDump (g : Gen) : String :=
  s!"started={g.started} shifted={g.shifted} w={g.w} tracks={g.tracks} latest={g.latest} ctr\{{ctrDump g.ctrs}}" ++
  String.join ((sortBufs g.bufs).map fun p => s!" {p.1}\{{bufDump p.2}}")

def tlStr (first : Nat) (sets : List (List String)) (tls : List (List Item)) : String :=
  joinWith "|" ((sets.zip tls).map fun (reps, tl) =>
    -- as a client reads the written S list; the written Representations of the AdaptationSet first
    s!"sn={first}@{joinWith "+" reps}:" ++ String.join ((expandS (buildS tl) 0).map fun p => s!"({p.1},{p.2})"))

structure GSt where
  g : Gen
  ass : List (List String)

def genMpd (s : GSt) (n : Nat) : Option GSt × String :=
  match s.g.mpd n s.ass with
  | .ok g' first last tls => (some { s with g := g' }, s!"mpd={first}..{last} " ++ tlStr first (listedSets s.g.bufs s.ass) tls)
  | .err r => (some s, s!"mpderr={r}")
  | .panic => (none, "PANIC")

def genOp (s : GSt) (op : String) : Option GSt × String :=
  let k := op.take 1 |>.toString
  let rest := (op.drop 1).toString
  match k with
  | "a" =>
    match rest.splitOn ":" with
    | [name, n, dts, dur, sh] =>
      match n.toNat?, dts.toNat?, dur.toNat? with
      | some n, some dts, some dur =>
        match s.g.add name ⟨n, dts, dur, sh = "1"⟩ with
        | .panic => (none, "PANIC")
        | .err g' => (some { s with g := g' }, "err " ++ genDump g')
        | .ok g' newNr =>
          if newNr ≠ 0 then
            match genMpd { s with g := g' } newNr with
            | (some s', out) => (some s', s!"new={newNr} {out} " ++ genDump s'.g)
            | (none, out) => (none, out)
          else (some { s with g := g' }, "new=0 " ++ genDump g')
      | _, _, _ => (some s, "bad-op")
    | _ => (some s, "bad-op")
  | "s" => match nats rest with
    | some [w, sh] => match s.g.start w (sh = 1) with
      | some g' => (some { s with g := g' }, genDump g') | none => (none, "PANIC")
    | _ => (some s, "bad-op")
  | "d" => match nats rest with
    | some [n] => match s.g.dropSeqNr n with
      | some g' => (some { s with g := g' }, genDump g') | none => (none, "PANIC")
    | _ => (some s, "bad-op")
  | "m" => match nats rest with
    | some [n] => genMpd s n
    | _ => (some s, "bad-op")
  | _ => (some s, "bad-op")

def opGen (args : List String) : String :=
  match args with
  | [w, ass, ops] => match w.toNat? with
    | some w =>
      let sets := (ass.splitOn "|").map (fun a => a.splitOn "+")
      joinWith ";" (runOps genOp { g := Gen.new w, ass := sets } (if ops = "-" then [] else ops.splitOn ","))
    | none => "bad-op"
  | _ => "bad-op"

/-! op `renum <startNr> <track:seqIn:dts;…>`: uploads to a fresh receiver channel in the given order (`v` = the master
video track, 90 kHz, 2 s segments; `a` = audio, 48 kHz); the channel starts after the second master upload.  One item per
upload: the number it is stored under and the decode time written (`nr@dts`). -/
def opRenum (args : List String) : String :=
  match args with
  | [startNr, ups] =>
    match startNr.toNat?, (ups.splitOn ";").mapM (fun u =>
        match u.splitOn ":" with
        | [t, s, d] => match s.toNat?, d.toNat? with
          | some s, some d => if t = "v" ∨ t = "a" then some (t, s, d) else none
          | _, _ => none
        | _ => none) with
    | some startNr, some ups =>
      let step := fun (acc : (Option (Nat × Nat) × Option Renum.Start) × List String) (u : String × Nat × Nat) =>
        let ((first, st), outs) := acc
        let ts := if u.1 = "v" then 90000 else 48000
        let res := Renum.stored st startNr u.2.1 u.2.2 ts
        let out := match res with
          | some (nr, t) => s!"{nr}@{t}"
          | none => "PANIC"
        -- the channel start: the master's second consecutive upload
        let (first', st') :=
          if u.1 = "v" ∧ st.isNone then
            match first with
            | none => (some (u.2.1, u.2.2), st)
            | some (s0, d0) => if u.2.1 = s0 + 1 then (first, some (Renum.start s0 d0 180000 90000)) else (some (u.2.1, u.2.2), st)
          else (first, st)
        ((first', st'), outs ++ [out])
      " ".intercalate (ups.foldl step ((none, none), [])).2
    | _, _ => "bad-op"
  | _ => "bad-op"
