import LivesimVerif.Model.Fault
import LivesimVerif.Model.Traffic
import Driver.Core
/-! Driver ops `loss` and `stat` (C14). -/
open Drv Core

def opLoss (args : List String) : String :=
  match args with
  | [pat, now] =>
    match now.toNat? with
    | some n =>
      match parseLoss (if pat = "-" then "" else pat) with
      | none => "err"
      | some l => match stateAt l n with
        | some s => s!"state={s}"
        | none => "PANIC divzero"
    | none => "bad-op"
  | _ => "bad-op"

def parsePats (s : String) : Option (List Pat) :=
  (s.splitOn "|").mapM fun t =>
    match t.splitOn ":" with
    | [c, r, code, rep] =>
      match c.toNat?, r.toNat?, code.toNat? with
      | some c, some r, some code => some ⟨c, r, code, if rep = "*" then none else some rep⟩
      | _, _, _ => none
    | _ => none

def opStat (st : DState) (args : List String) : String :=
  match args with
  | [aname, cfgS, repId, segId, now, pats] =>
    match st.assets.find? (·.name = aname), parseCfg cfgS, segId.toNat?, now.toNat?, parsePats pats with
    | some a, some cfg, some sid, some now, some ps =>
      if now < cfg.startS * 1000 then "425" else
      match a.rep? repId with
      | none => "404"
      | some r =>
        match calcStatusCode a r cfg sid now ps with
        | .code c => s!"T{c}"
        | .status s => (statusStr s).takeWhile (· ≠ ' ') |>.toString
        | .normal =>
          if r.kind = .audio ∧ !r.preEnc then
            match audioSegment a r cfg sid now with
            | .inr s => (statusStr s).takeWhile (· ≠ ' ') |>.toString
            | .inl .panic => "PANIC"
            | .inl .err => "500"
            | .inl (.ok ..) => "200"
          else match lookupVideo a r cfg sid now with
            | .found _ => "200"
            | .status s => (statusStr s).takeWhile (· ≠ ' ') |>.toString
    | _, _, _, _, _ => "bad-op"
  | _ => "bad-op"

/-! op `tdec <traffic patterns> <directory> <nowMS>`: a video segment of testpic_2s (2 s segments, the newest complete one
at `nowMS`) requested through `<directory>/` with `traffic_<patterns>` configured: the HTTP status -/
def opTdec (args : List String) : String :=
  match args with
  | [tr, dir, now] =>
    match Cfg.parseTraffic tr, now.toNat? with
    | some pats, some nowMS =>
      let k := (nowMS - 2999) / 2000
      -- (the handler works on the query-unescaped path: a `+` arrives as a blank)
      let path := "/" ++ dir.replace "+" " " ++ "/V300/" ++ toString k ++ ".m4s"
      let (d, rest) := Traffic.route pats path.toList nowMS
      -- (`fix:` commit f0d9664) the part handed on must be the whole media path of a representation: a directory that
      -- is not `bu<n>` stays in front of it, and such a path addresses nothing
      if d == .crash then "PANIC"
      else if d == .noPattern ∧ rest ≠ ("/V300/" ++ toString k ++ ".m4s").toList then "404"
      else toString d.code
    | _, _ => "bad-op"
  | _ => "bad-op"
