import LivesimVerif.Model.AssetLoad
import Driver.Util
/-! Driver op `cons <id:type:dur:ts:pre> ...` (C15). -/
open Drv Load

def parseRepD (s : String) : Option RepD :=
  match s.splitOn ":" with
  | [id, kind, d, ts, pre] =>
    match d.toNat?, ts.toNat? with
    | some d, some ts => if ts = 0 then none else some ⟨id, kind, d, ts, pre = "1"⟩
    | _, _ => none
  | _ => none

def opCons (args : List String) : String :=
  match args.mapM parseRepD with
  | none => "bad-op"
  | some reps =>
    let sorted := reps.mergeSort (fun a b => decide (a.id ≤ b.id))
    match consolidate sorted with
    | none => "err"
    | some (loop, ref) => s!"ok loop={loop} ref={ref}"

/-! op `loadtab <asset> <rep> <s:e,s:e,…>`: the segment table `loadRep` builds for a `$Number$` representation from what
the harness read in the segment files (decode time and end of the last fragment of each file, in number order) -/
def opLoadtab (args : List String) : String :=
  match args with
  | [_, _, raw] =>
    match (raw.splitOn ",").mapM (fun p => match p.splitOn ":" with
        | [s, e] => match s.toNat?, e.toNat? with
          | some s, some e => some (s, e)
          | _, _ => none
        | _ => none) with
    | some files => ",".intercalate ((Load.loadByNumber files).map fun x => s!"{x.1}:{x.2}")
    | none => "bad-op"
  | _ => "bad-op"
