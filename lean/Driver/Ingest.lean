import LivesimVerif.Model.Ingest
import LivesimVerif.Model.ChunkSrc
import Driver.Core
/-! Driver op `sess <asset> <cfg> <nowMS> <dur|-> <events>` (C16). -/
open Drv Core Ingest

def sessCfg (s : String) : Option (Cfg × Bool) :=
  if s = "-" then some (Cfg.default, false) else
  (s.splitOn ",").foldlM (init := (Cfg.default, false)) fun (c, t) p =>
    match p.splitOn "_" with
    | ["start", v] => v.toNat?.map fun n => ({ c with startS := n }, t)
    | ["snr", v] => v.toNat?.map fun n => ({ c with startNr := n }, t)
    | ["segtimeline", _] => some (c, true)
    | [_, _] => some (c, t)
    | _ => none

def opSess (st : DState) (args : List String) : String :=
  match args with
  | [aname, cfgS, now, dur, evs] =>
    match st.assets.find? (·.name = aname), sessCfg cfgS, now.toNat? with
    | some a, some (cfg, timeAddr), some now =>
      match a.ref? with
      | none => "bad-op"
      | some ref =>
        let n : Option (Option Nat) := if dur = "-" then some none else dur.toNat?.map fun d => some (d * 1000 / a.segDurMS)
        match n with
        | none => "bad-op"
        | some n =>
          let first := firstNr a cfg now ref
          let events := evs.toList.filterMap fun ch => if ch = 's' then some Ev.step else if ch = 'd' then some Ev.del else none
          let outs := run (start first n) events
          " ".intercalate (outs.map fun o =>
            match o with
            | .deleted => "d:200"
            | .conflict => "s:409"
            | .sent nr l =>
              let id := if timeAddr then findSegStartTime a ref (nr - cfg.startNr) else nr
              s!"s:[{id}{if l then "L" else ""}]")
    | _, _, _ => "bad-op"
  | _ => "bad-op"

/-! op `csrc <cap> <w1,w2,…|-> <k1,k2,…>`: the chunked-transfer source with a buffer of `cap` bytes; the i-th byte written
is `i % 251`; one output item per `Read` up to and including the first EOF: hex of the bytes, `-` for none, `E` for EOF -/
def natList? (s : String) : Option (List Nat) :=
  if s = "-" then some [] else (s.splitOn ",").mapM (·.toNat?)

def hexByte (n : Nat) : String :=
  let d (x : Nat) : Char := if x < 10 then Char.ofNat (48 + x) else Char.ofNat (87 + x)
  String.ofList [d (n / 16 % 16), d (n % 16)]

def mkWrites : List Nat → Nat → List (List Nat)
  | [], _ => []
  | l :: ls, from_ => ((List.range l).map fun i => (from_ + i) % 251) :: mkWrites ls (from_ + l)

def untilEof : List (Option (List Nat)) → List (Option (List Nat))
  | [] => []
  | none :: _ => [none]
  | some o :: t => some o :: untilEof t

def opCsrc (args : List String) : String :=
  match args with
  | [cap, ws, ks] =>
    match cap.toNat?, natList? ws, natList? ks with
    | some cap, some ws, some ks =>
      if cap = 0 then "bad-op" else
      let tr := untilEof ((ChunkSrc.start cap (mkWrites ws 0)).trace ks)
      " ".intercalate (tr.map fun o =>
        match o with
        | none => "E"
        | some [] => "-"
        | some bs => String.join (bs.map hexByte))
    | _, _, _ => "bad-op"
  | _ => "bad-op"
