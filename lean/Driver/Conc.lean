import LivesimVerif.Model.Conc
import Driver.Util
/-! Driver ops `chan <name> ...` and `tracks <name:kind> ...` (C19): the atomic steps in a given (sequential) order. -/
open Drv Conc

def opChan (args : List String) : String :=
  let res := (runSched ⟨[], 0⟩ args).2
  ",".intercalate (res.map fun r => toString r.2)

def opTracks (args : List String) : String :=
  match args.mapM (fun (s : String) => match s.splitOn ":" with | [n, k] => some (n, k == "video") | _ => none) with
  | none => "bad-op"
  | some ts =>
    let r := regAll ts
    let names := (r.tracks.map (·.1)).mergeSort (fun a b => decide (a ≤ b))
    s!"names=[{",".intercalate names}] master={r.master.getD "-"}"
