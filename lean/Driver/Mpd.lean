import LivesimVerif.Model.Mpd
import Driver.Core
/-! Driver ops `mpddef` and `mpd`. -/
open Drv Core

structure MDef where
  asset : String
  name : String
  sets : List ASDef

structure DState2 where
  core : DState := {}
  mpds : List MDef := []

def optNatS (s : String) : Option (Option Nat) := if s = "-" then some none else s.toNat?.map some

/-- `mpddef <asset> <mpdName> <kind:rep:dur|-:ts;...>` -/
def defMpd (st : DState2) (args : List String) : DState2 × String :=
  match args with
  | [asset, name, sets] =>
    let ps := (sets.splitOn ";").mapM fun t =>
      match t.splitOn ":" with
      | [k, rep, dur, ts] =>
        match parseKind k, optNatS dur, ts.toNat? with
        | some k, some d, some ts => some ({ kind := k, rep := rep, vodDur := d, vodTs := ts } : ASDef)
        | _, _, _ => none
      | _ => none
    match ps with
    | some l => ({ st with mpds := st.mpds.filter (fun m => ¬ (m.asset = asset ∧ m.name = name)) ++ [⟨asset, name, l⟩] }, "ok")
    | none => (st, "bad-op")
  | _ => (st, "bad-op")

def parseMpdCfg (s : String) : Option MpdCfg :=
  let d : MpdCfg := { startS := 0, tsbdS := 60, startNr := 0, ato := .ms 0, mpdType := .number, stopS := none }
  if s = "-" then some d else
  (s.splitOn ",").foldlM (fun (c : MpdCfg) kv =>
    match kv.splitOn "=" with
    | ["start", v] => v.toNat?.map fun n => { c with startS := n }
    | ["tsbd", v] => v.toNat?.map fun n => { c with tsbdS := n }
    | ["snr", v] => v.toNat?.map fun n => { c with startNr := n }
    | ["stop", v] => v.toNat?.map fun n => { c with stopS := some n }
    | ["periods", v] => v.toNat?.map fun n => { c with periodsPerHour := some n }
    | ["continuous", _] => some { c with continuous := true }
    | ["ato", "inf"] => some { c with ato := .inf }
    | ["ato", v] => v.toNat?.map fun n => { c with ato := .ms n }
    | ["mode", "n"] => some { c with mpdType := .number }
    | ["mode", "tlt"] => some { c with mpdType := .timelineTime }
    | ["mode", "tln"] => some { c with mpdType := .timelineNumber }
    | _ => none) d

def kindStr : Kind → String
  | .video => "video" | .audio => "audio" | .text => "text" | .image => "image"

def optStr (o : Option Nat) : String := match o with | some v => toString v | none => "-"

def asStr (o : ASOut) : String :=
  let tl := match o.tl with
    | none => "-"
    | some l => "[" ++ String.join (l.map fun (p : Nat × Nat) => s!"({p.1},{p.2})") ++ "]"
  s!"{kindStr o.kind}:{o.rep} {if o.timeAddr then "time" else "nr"} sn={optStr o.startNr} ts={o.ts} dur={optStr o.dur} pto={optStr o.pto} cont={boolStr o.cont} tl={tl}"

def periodStr (p : PeriodOut) : String :=
  s!"P{p.id}@{p.startS}: " ++ joinWith " | " (p.sets.map asStr)

def mpdStr (m : MpdOut) : String :=
  s!"{if m.dynamic then "dynamic" else "static"} ast={m.astS} pt={m.ptMS} mpdur={optStr m.durS} || " ++
    joinWith " || " (m.periods.map periodStr)

def opMpd (st : DState2) (args : List String) : String :=
  match args with
  | [asset, cfgS, name, now] =>
    match st.core.assets.find? (·.name = asset), st.mpds.find? (fun m => m.asset = asset ∧ m.name = name),
          parseMpdCfg cfgS, now.toNat? with
    | some a, some md, some cfg, some now =>
      if (match cfg.periodsPerHour with | some p => decide (p < 1 ∨ p > 3600) | none => false) then "400" else   -- verifyAndFillConfig
      if now < cfg.startS * 1000 then "425 pre-start" else
      match liveMpd a md.sets cfg now with
      | .ok m => mpdStr m
      | .err => "400"   -- configuration not applicable to the asset (`fix:` f72acf3: 400 instead of 500)
      | .panic => "PANIC"
    | _, _, _, _ => "bad-op"
  | _ => "bad-op"
