import LivesimVerif.Model.Cfg
import Driver.Util
/-! Driver op `cfg <url-path> <nowMS>` (C08): URL configuration parser. -/
open Drv Cfg

/-- `strings.Cut(part, "_")` -/
def cutPart (s : String) : Cfg.Part :=
  match s.splitOn "_" with
  | [] => none
  | [_] => none
  | k :: rest => some (k, "_".intercalate rest)

def optI (o : Option Int) : String := match o with | none => "-" | some n => toString n

def fStr (f : F) : String :=
  match f with
  | .fin m => toString m
  | .pinf => "inf"
  | .ninf => "-inf"
  | .nan => "nan"

def optF (o : Option F) : String := match o with | none => "-" | some f => fStr f

def dumpCfg (c : C) (idx : Nat) : String :=
  let codes := c.codes.map fun k => s!"{k.cycle}:{k.rsq}:{k.code}:{"+".intercalate k.reps}"
  let traffic := c.traffic.map fun t => "+".intercalate (t.map fun iv => s!"{iv.1}:{iv.2}")
  let q := match c.query with | none => "-" | some r => "[" ++ r ++ "]"
  s!"ok idx={idx} start={c.start} stop={optI c.stop} tsbd={optI c.tsbd} mup={optI c.mup} periods={optI c.periods} snr={optI c.snr} ato={fStr c.ato} ltgt={optI c.ltgt} spd={optI c.spd} chunk={optF c.chunk}" ++
  s!" tsdur={c.tsdur} tsreg={c.tsreg} scte={optI c.scte} patch={c.patch} drm={if c.drm = "" then "-" else c.drm} init={optI c.init} peroff={optI c.peroff} xlink={optI c.xlink} etp={optI c.etp} etpdur={optI c.etpdur} toff={optF c.toff}" ++
  s!" flags={boolStr c.addLoc}{boolStr c.tfdt32}{boolStr c.contUpd}{boolStr c.insertAd}{boolStr c.contMP}{boolStr c.stl}{boolStr c.stlNr}{boolStr c.sidx}{boolStr c.stlLoss}{boolStr c.atc}" ++
  s!" durs=[{",".intercalate (c.durs.map toString)}] utc=[{",".intercalate c.utc}] stpp=[{",".intercalate c.stpp}] wvtt=[{",".intercalate c.wvtt}] codes=[{";".intercalate codes}] traffic=[{";".intercalate traffic}] query={q}"

def opCfg (args : List String) : String :=
  match args with
  | [url, now] =>
    match now.toInt? with
    | none => "bad-op"
    | some n =>
      let u := url.map fun ch => if ch = '+' then ' ' else ch      -- QueryUnescape ('%' escapes are not generated)
      let parts := (u.splitOn "/").drop 2
      match processParts n (parts.map cutPart) with
      | .err => "err"
      | .ok c idx => dumpCfg c idx
  | _ => "bad-op"

def opReq (args : List String) : String :=
  match args with
  | [url, now] =>
    match now.toInt? with
    | none => "bad-op"
    | some n =>
      let u := url.map fun ch => if ch = '+' then ' ' else ch
      let parts := (u.splitOn "/").drop 2
      match cfgFromRequest n (parts.map cutPart) with
      | .status c => toString c
      | .ok now' c idx => s!"ok now={now'} start={c.start} idx={idx}"
  | _ => "bad-op"
