/-! Line-protocol helpers for the driver (core Lean only). -/
namespace Drv

def hexVal (c : Char) : Option Nat :=
  if '0' ≤ c ∧ c ≤ '9' then some (c.toNat - '0'.toNat)
  else if 'a' ≤ c ∧ c ≤ 'f' then some (c.toNat - 'a'.toNat + 10)
  else if 'A' ≤ c ∧ c ≤ 'F' then some (c.toNat - 'A'.toNat + 10)
  else none

def hexBytes (s : String) : Option (List UInt8) :=
  let rec go : List Char → List UInt8 → Option (List UInt8)
    | [], acc => some acc.reverse
    | [_], _ => none
    | a :: b :: t, acc =>
      match hexVal a, hexVal b with
      | some x, some y => go t ((x * 16 + y).toUInt8 :: acc)
      | _, _ => none
  if s = "-" then some [] else go s.toList []

def natList (s : String) : Option (List Nat) :=
  if s = "-" ∨ s = "" then some [] else (s.splitOn ",").mapM (·.toNat?)

def intList (s : String) : Option (List Int) :=
  if s = "-" ∨ s = "" then some [] else (s.splitOn ",").mapM (·.toInt?)

def optNat (s : String) : Option (Option Nat) :=
  if s = "-" then some none else s.toNat?.map some

def rollHash (bs : List UInt8) : Nat := bs.foldl (fun h b => (h * 31 + b.toNat) % 4294967296) 7

def boolStr (b : Bool) : String := if b then "1" else "0"

def joinWith (sep : String) (xs : List String) : String := sep.intercalate xs

end Drv
