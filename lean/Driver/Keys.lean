import LivesimVerif.Model.Keys
import Driver.Util
/-! Driver ops for C10: `kid <md5zero-hex> <string>`, `k2k <hex>`, `key2kid <hex>`, `b64 <hex>`, `lic <b64>`. -/
open Drv Keys

def hexOf (bs : List Nat) : String :=
  String.ofList (bs.flatMap fun b => [Nat.digitChar (b / 16), Nat.digitChar (b % 16)])

def bytesOf (s : String) : Option (List Nat) := (hexBytes s).map (·.map UInt8.toNat)

def opKeys (op : String) (args : List String) : String :=
  match op, args with
  | "kid", [md5, s] =>
    match bytesOf md5 with
    | some m => "ok " ++ hexOf (kidFromString m s)
    | none => "bad-op"
  | "k2k", [h] =>
    match bytesOf h with
    | some k => (match kidToKey k with | some r => "ok " ++ hexOf r | none => "PANIC")
    | none => "bad-op"
  | "key2kid", [h] =>
    match bytesOf h with
    | some k => (match keyToKid k with | some r => "ok " ++ hexOf r | none => "PANIC")
    | none => "bad-op"
  | "b64", [h] =>
    match bytesOf h with
    | some k =>
      let p := pack k
      s!"ok {String.ofList p} {match id16FromBase64 (unpack p) with | some r => hexOf r | none => "err"}"
    | none => "bad-op"
  | "unb64", [s] =>
    (match id16FromBase64 (unpack (if s = "-" then [] else s.toList)) with | some r => "ok " ++ hexOf r | none => "err")
  | "lic", [s] =>
    (match licence (if s = "-" then [] else s.toList) with
     | .bad => "400"
     | .key k kid => s!"200 k={String.ofList k} kid={String.ofList kid}")
  | _, _ => "bad-op"
