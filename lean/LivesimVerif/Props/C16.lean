import LivesimVerif.Model.Ingest
import LivesimVerif.Lemmas.ChunkSrc
/-!
# C16 — The CMAF-ingest sender emits a complete, ordered and faithful stream

Proved here, for every sequence of step / delete calls (model `Model/Ingest.lean`, tied to the session loop by the op
`sess`, which runs real sessions against a scripted receiver): the segment numbers sent are consecutive, starting at the
number right after the live edge, without gap, duplicate or reordering; a session with a duration sends at most — and, if
stepped often enough, exactly — the corresponding number of segments, marks exactly the last of them, and answers later
steps with 409; nothing is sent after a delete.

Observed by the monitor, not proved: that every representation gets its init segment first and one segment per step,
that each body is byte-identical to what livesim2 serves for that segment, extension / content type / ingest header /
credentials, Streams() URLs, receivers that are slow or answer with errors.
-/
namespace Ingest

/-- invariant of the loop: a running session with a duration has not passed its last number -/
def Inv (s : Sess) : Prop := ∀ l, s.last = some l → s.alive = true → s.next ≤ l

theorem step_inv (s : Sess) (e : Ev) (h : Inv s) : Inv (step s e).1 := by
  cases e with
  | del => intro l _ ha; simp [step] at ha
  | step =>
    unfold step
    by_cases ha : s.alive = true
    · simp only [ha, Bool.not_true, Bool.false_eq_true, if_false]
      cases hl : s.last with
      | none => intro l hl2; simp at hl2
      | some l0 =>
        intro l hl2 ha2
        simp only at hl2 ha2
        injection hl2 with hl2; subst hl2
        simpa using ha2
    · simp only [Bool.not_eq_true] at ha
      simp only [ha, Bool.not_false, if_true]
      exact h

/-- **No gap, duplicate or reordering**: the numbers sent are `next, next+1, …` -/
theorem c16_consecutive (s : Sess) (evs : List Ev) :
    ∃ m, sentNrs (run s evs) = List.range' s.next m := by
  induction evs generalizing s with
  | nil => exact ⟨0, rfl⟩
  | cons e es ih =>
    cases e with
    | del =>
      obtain ⟨m, hm⟩ := ih (step s .del).1
      exact ⟨m, by simpa [run, step, sentNrs] using hm⟩
    | step =>
      by_cases ha : s.alive = true
      · cases hl : s.last with
        | none =>
          obtain ⟨m, hm⟩ := ih (step s .step).1
          refine ⟨m + 1, ?_⟩
          simp only [run, step, ha, hl, Bool.not_true, Bool.false_eq_true, if_false, sentNrs] at hm ⊢
          rw [hm, List.range'_succ]
        | some l =>
          obtain ⟨m, hm⟩ := ih (step s .step).1
          refine ⟨m + 1, ?_⟩
          simp only [run, step, ha, hl, Bool.not_true, Bool.false_eq_true, if_false, sentNrs] at hm ⊢
          rw [hm, List.range'_succ]
      · simp only [Bool.not_eq_true] at ha
        obtain ⟨m, hm⟩ := ih (step s .step).1
        refine ⟨m, ?_⟩
        simpa [run, step, ha, sentNrs] using hm

/-- the first number sent is the one right after the live edge -/
theorem c16_starts_after_live_edge (first : Nat) (n : Option Nat) (evs : List Ev) :
    ∃ m, sentNrs (run (start first n) evs) = List.range' first m := by
  have h := c16_consecutive (start first n) evs
  have hn : (start first n).next = first := by
    cases n with
    | none => rfl
    | some k => cases k <;> rfl
  rw [hn] at h
  exact h

/-- a stopped session sends nothing more -/
theorem dead_sends_nothing (s : Sess) (evs : List Ev) (h : s.alive = false) : sentNrs (run s evs) = [] := by
  induction evs generalizing s with
  | nil => rfl
  | cons e es ih =>
    cases e with
    | del => simpa [run, step, sentNrs] using ih { s with alive := false } rfl
    | step => simpa [run, step, h, sentNrs] using ih s h

/-- **Deleting the session stops it.** -/
theorem c16_delete_stops (s : Sess) (before after : List Ev) :
    sentNrs (run s (before ++ Ev.del :: after)) = sentNrs (run s before) := by
  induction before generalizing s with
  | nil => simpa [run, step, sentNrs] using dead_sends_nothing { s with alive := false } after rfl
  | cons e es ih =>
    cases e with
    | del => simpa [run, step, sentNrs] using ih (step s .del).1
    | step =>
      simp only [List.cons_append, run]
      cases h : (step s .step).2 with
      | sent n l => simp only [sentNrs, ih]
      | conflict => simp only [sentNrs, ih]
      | deleted => simp only [sentNrs, ih]

/-- **A session with a duration never sends a number beyond its last one.** -/
theorem c16_bounded (s : Sess) (l : Nat) (hl : s.last = some l) (hinv : Inv s) (evs : List Ev) :
    ∀ n ∈ sentNrs (run s evs), n ≤ l := by
  induction evs generalizing s with
  | nil => intro n hn; cases hn
  | cons e es ih =>
    have hlast : (step s e).1.last = some l := by
      cases e with
      | del => simpa [step] using hl
      | step =>
        by_cases ha : s.alive = true
        · simp [step, ha, hl]
        · simp only [Bool.not_eq_true] at ha
          simp [step, ha, hl]
    have ih' := ih (step s e).1 hlast (step_inv s e hinv)
    cases e with
    | del => simpa [run, step, sentNrs] using ih'
    | step =>
      by_cases ha : s.alive = true
      · intro n hn
        simp only [run, step, ha, hl, Bool.not_true, Bool.false_eq_true, if_false, sentNrs, List.mem_cons] at hn ih'
        rcases hn with rfl | hn
        · exact hinv l hl ha
        · exact ih' n hn
      · simp only [Bool.not_eq_true] at ha
        simpa [run, step, ha, sentNrs] using ih'

/-- hence at most `k+1` segments for a duration of `k+1` segments, none for a duration shorter than one -/
theorem c16_count (first k : Nat) (evs : List Ev) :
    (sentNrs (run (start first (some (k + 1))) evs)).length ≤ k + 1 ∧ sentNrs (run (start first (some 0)) evs) = [] := by
  constructor
  · obtain ⟨m, hm⟩ := c16_starts_after_live_edge first (some (k + 1)) evs
    have hb := c16_bounded (start first (some (k + 1))) (first + k) rfl
      (by intro l hl _; simp [start] at hl; subst hl; simp [start]) evs
    rw [hm] at hb ⊢
    simp only [List.length_range']
    by_cases hm0 : m = 0
    · omega
    · have := hb (first + (m - 1)) (by
        rw [List.mem_range'_1]
        omega)
      omega
  · exact dead_sends_nothing _ evs rfl

/-- **Stepping a fresh session `k+1` times delivers exactly the `k+1` segments, the last one marked, and the next
step is refused.** -/
theorem c16_exact (first k : Nat) :
    ∀ j, j ≤ k →
      run ⟨first + j, some (first + k), true⟩ (List.replicate (k + 1 - j) Ev.step ++ [Ev.step]) =
        (List.range' (first + j) (k - j)).map (fun n => Out.sent n false) ++ [Out.sent (first + k) true, Out.conflict] := by
  intro j hj
  induction h : k - j generalizing j with
  | zero =>
    have hjk : j = k := by omega
    subst hjk
    simp [run, step]
  | succ d ih =>
    have h1 : k + 1 - j = (k + 1 - (j + 1)) + 1 := by omega
    rw [h1, List.replicate_succ]
    simp only [List.cons_append, run, step, Bool.not_true, Bool.false_eq_true, if_false]
    have hne : (first + j == first + k) = false := by simp; omega
    have hal : decide (first + j + 1 ≤ first + k) = true := by simp; omega
    rw [hne, hal]
    have := ih (j + 1) (by omega) (by omega)
    rw [show first + j + 1 = first + (j + 1) by omega, this]
    rw [List.range'_succ]
    simp [Nat.add_assoc]

/-- non-vacuity: a 3-segment session stepped five times, with a delete in another run -/
example : run (start 7 (some 3)) [.step, .step, .step, .step, .step] =
    [.sent 7 false, .sent 8 false, .sent 9 true, .conflict, .conflict] := by decide
example : run (start 7 none) [.step, .del, .step] = [.sent 7 false, .deleted, .conflict] := by decide

end Ingest

/-! ## The chunked-transfer body (low-latency sessions): `cmafSource.Write / Read` (model `Model/ChunkSrc.lean`, op `csrc`) -/
namespace ChunkSrc

/-- **Faithful prefix**: whatever sizes the HTTP client reads with, and however the chunks are cut into rounds of the
fixed buffer, the body assembled so far is a prefix of the bytes written — nothing repeated, dropped or reordered. -/
theorem c16_chunked_body_prefix (s : Src) (ks : List Nat) : ∃ rest, s.stream = s.body ks ++ rest := by
  induction ks generalizing s with
  | nil => exact ⟨s.stream, by simp [Src.body]⟩
  | cons k ks ih =>
    unfold Src.body
    cases hr : s.read k with
    | mk s' o =>
      cases o with
      | none => exact ⟨s.stream, by simp⟩
      | some out =>
        obtain ⟨hs, _, _⟩ := read_stream s s' k out hr
        obtain ⟨rest, hrest⟩ := ih s'
        exact ⟨rest, by simp only [hs, hrest, List.append_assoc]⟩

/-- **Complete at EOF**: when the client has seen `io.EOF`, the body is exactly what was written. -/
theorem c16_chunked_body_complete (s : Src) (ks : List Nat) (h : none ∈ s.trace ks) : s.body ks = s.stream := by
  induction ks generalizing s with
  | nil => simp [Src.trace] at h
  | cons k ks ih =>
    unfold Src.body
    unfold Src.trace at h
    cases hr : s.read k with
    | mk s' o =>
      cases o with
      | none => simp [(read_eof s s' k hr).1]
      | some out =>
        simp only [hr, List.mem_cons] at h
        obtain ⟨hs, _, _⟩ := read_stream s s' k out hr
        have := ih s' (h.resolve_left (by simp))
        simp only [this, hs]

/-- what is left to do, counted in reads: the bytes, plus one (possibly empty) round per `Write` still to start -/
def Src.todo (s : Src) : Nat := s.stream.length + s.queue.length

/-- **Progress**: a `Read` into a non-empty client buffer (buffer size > 0) either returns EOF or strictly reduces what
is left — it never returns `(0, nil)` without having consumed a (then empty) `Write`. -/
theorem read_progress (s s' : Src) (k : Nat) (out : List Nat) (hk : 0 < k) (hc : 0 < s.cap)
    (h : s.read k = (s', some out)) : s'.todo < s.todo := by
  obtain ⟨hs, _, _⟩ := read_stream s s' k out h
  unfold Src.read at h
  split at h
  · next he =>
    have ha : s.avail = [] := by simpa using he
    cases hr : s.refill with
    | none => simp [hr] at h
    | some r =>
      simp only [hr] at h
      injection h with h1 h2; injection h2 with h2
      unfold Src.refill at hr
      cases hcur : s.cur with
      | nil =>
        cases hq : s.queue with
        | nil => simp [hcur, hq] at hr
        | cons w q =>
          simp only [hcur, hq] at hr
          injection hr with hr; subst hr; subst h1
          simp only [Src.todo, Src.stream, ha, hcur, hq, List.nil_append, List.flatten_cons, List.length_append,
            List.length_drop, List.length_take, List.length_cons]
          omega
      | cons x c =>
        simp only [hcur] at hr
        injection hr with hr; subst hr; subst h1
        simp only [Src.todo, Src.stream, ha, hcur, List.nil_append, List.length_append, List.length_drop,
          List.length_take, List.length_cons]
        omega
  · next he =>
    injection h with h1 h2; subst h1
    have hal : 0 < s.avail.length := by
      cases hav : s.avail with
      | nil => simp [hav] at he
      | cons _ _ => simp
    simp only [Src.todo, Src.stream, List.length_append, List.length_drop]
    omega

/-- **The whole body arrives**: with client buffers of positive size, `todo + 1` reads are enough to reach EOF, and the
body then equals the bytes written, for every buffer size `cap > 0`, every cut into `Write` calls and every read size. -/
theorem c16_chunked_body_whole (s : Src) (ks : List Nat) (hc : 0 < s.cap) (hk : ∀ k ∈ ks, 0 < k)
    (hlen : s.todo < ks.length) : s.body ks = s.stream := by
  apply c16_chunked_body_complete
  induction ks generalizing s with
  | nil => simp at hlen
  | cons k ks ih =>
    unfold Src.trace
    cases hr : s.read k with
    | mk s' o =>
      cases o with
      | none => simp
      | some out =>
        simp only [List.mem_cons]
        right
        have hp := read_progress s s' k out (hk k (by simp)) hc hr
        obtain ⟨_, _, hcap⟩ := read_stream s s' k out hr
        exact ih s' (by omega) (fun k' hk' => hk k' (by simp [hk'])) (by simp at hlen; omega)

/-- for a session: the body of the PUT request is the concatenation of the chunks written -/
theorem c16_chunked_upload (cap : Nat) (writes : List (List Nat)) (ks : List Nat) (hc : 0 < cap)
    (hk : ∀ k ∈ ks, 0 < k) (hlen : writes.flatten.length + writes.length < ks.length) :
    (start cap writes).body ks = writes.flatten := by
  have := c16_chunked_body_whole (start cap writes) ks hc hk (by simpa [start, Src.todo, Src.stream] using hlen)
  simpa [start, Src.stream] using this

/-- non-vacuity: three chunks (one larger than the buffer, one empty), read 3 bytes at a time through a 4-byte buffer -/
example : (start 4 [[1, 2, 3, 4, 5, 6], [], [7]]).body [3, 3, 3, 3, 3, 3, 3, 3, 3, 3] = [1, 2, 3, 4, 5, 6, 7] := by decide
example : (start 4 [[1, 2, 3, 4, 5, 6], [], [7]]).trace [3, 3, 3, 3, 3, 3, 3] =
    [some [1, 2, 3], some [4], some [5, 6], some [], some [7], none, none] := by decide

end ChunkSrc
