import LivesimVerif.Model.Fault
import LivesimVerif.Props.C02
import LivesimVerif.Lemmas.Traffic
/-!
# C14 — Fault-injection parameters hit exactly the scheduled requests

Traffic patterns: `parseLoss` (= `CreateLossItvls`, with the `fix:` commit rejecting empty patterns) and `stateAt`
(= `StateAt`).  Status-code patterns: `calcStatusCode` is modelled (`Model/Fault.lean`) and tied by the `stat` op swept
over whole cycles; its rank characterisation is checked by an independent monitor, not proved (partial).
-/
namespace Core

/-- every parsed interval has a positive duration and a real state -/
def GoodItvls (l : List LossItvl) : Prop := ∀ i ∈ l, 0 < i.2 ∧ 1 ≤ i.1 ∧ i.1 ≤ 4

theorem parseLossAux_good (cs : List Char) (st dur : Nat) (acc out : List LossItvl)
    (hacc : GoodItvls acc) (hst : st ≤ 4) (h : parseLossAux cs st dur acc = some out) : GoodItvls out := by
  induction cs generalizing st dur acc with
  | nil =>
    unfold parseLossAux at h
    by_cases h0 : st ≠ 0
    · rw [if_pos h0] at h
      by_cases hd : dur = 0
      · rw [if_pos hd] at h; cases h
      · rw [if_neg hd] at h
        injection h with h; subst h
        intro i hi
        rcases List.mem_append.mp hi with hi | hi
        · exact hacc i hi
        · simp at hi; subst hi; exact ⟨by omega, by omega, hst⟩
    · rw [if_neg h0] at h; injection h with h; subst h; exact hacc
  | cons c rest ih =>
    unfold parseLossAux at h
    simp only at h
    generalize hn : (if c = 'u' then some 1 else if c = 'd' then some 2 else if c = 's' then some 3
      else if c = 'h' then some 4 else (none : Option Nat)) = newSt at h
    cases newSt with
    | some n =>
      have hn4 : n ≤ 4 := by
        by_cases h1 : c = 'u'
        · simp [h1] at hn; omega
        · by_cases h2 : c = 'd'
          · simp [h1, h2] at hn; omega
          · by_cases h3 : c = 's'
            · simp [h1, h2, h3] at hn; omega
            · by_cases h4 : c = 'h'
              · simp [h1, h2, h3, h4] at hn; omega
              · simp [h1, h2, h3, h4] at hn
      simp only at h
      by_cases h0 : st ≠ 0
      · rw [if_pos h0] at h
        by_cases hd : dur = 0
        · rw [if_pos hd] at h; cases h
        · rw [if_neg hd] at h
          refine ih n 0 (acc ++ [(st, dur)]) ?_ hn4 h
          intro i hi
          rcases List.mem_append.mp hi with hi | hi
          · exact hacc i hi
          · simp at hi; subst hi; exact ⟨by omega, by omega, hst⟩
      · rw [if_neg h0] at h
        exact ih n 0 acc hacc hn4 h
    | none =>
      simp only at h
      by_cases hdg : c.isDigit = true
      · rw [if_pos hdg] at h
        by_cases hb : dur * 10 + (c.toNat - '0'.toNat) > maxLossDur
        · rw [if_pos hb] at h; cases h
        · rw [if_neg hb] at h; exact ih st _ acc hacc hst h
      · rw [if_neg hdg] at h; cases h

/-- **Accepted patterns are well-formed**: at least one interval, every duration positive — so the cycle
duration is positive and `StateAt` never divides by zero. -/
theorem c14_loss_parse (s : String) (l : List LossItvl) (h : parseLoss s = some l) : l ≠ [] ∧ GoodItvls l := by
  unfold parseLoss at h
  cases hp : parseLossAux s.toList 0 0 [] with
  | none => simp [hp] at h
  | some r =>
    cases r with
    | nil => simp [hp] at h
    | cons x t =>
      simp only [hp] at h
      injection h with h; subst h
      exact ⟨by simp, parseLossAux_good _ 0 0 [] _ (by intro i hi; simp at hi) (by omega) hp⟩

theorem foldl_add_ge (l : List Nat) (a : Nat) : a ≤ l.foldl (· + ·) a := by
  induction l generalizing a with
  | nil => simp
  | cons x t ih => exact Nat.le_trans (Nat.le_add_right a x) (ih (a + x))

theorem cycleDur_pos (l : List LossItvl) (hne : l ≠ []) (hg : GoodItvls l) : 0 < cycleDur l := by
  cases l with
  | nil => exact absurd rfl hne
  | cons x t =>
    have hx := (hg x (by simp)).1
    unfold cycleDur
    simp only [List.map_cons, List.foldl_cons, Nat.zero_add]
    exact Nat.lt_of_lt_of_le hx (foldl_add_ge _ _)

/-- `StateAt` is total on accepted patterns. -/
theorem c14_stateAt_total (s : String) (l : List LossItvl) (h : parseLoss s = some l) (nowS : Nat) :
    ∃ st, stateAt l nowS = some st := by
  obtain ⟨hne, hg⟩ := c14_loss_parse s l h
  have := cycleDur_pos l hne hg
  unfold stateAt
  exact ⟨_, by rw [if_neg (by omega)]⟩

/-- **Cyclic from the epoch**: the state only depends on the second modulo the cycle duration. -/
theorem c14_state_periodic (l : List LossItvl) (nowS k : Nat) : stateAt l (nowS + k * cycleDur l) = stateAt l nowS := by
  unfold stateAt
  by_cases h : cycleDur l = 0
  · simp [h]
  · simp only [h, ↓reduceIte]
    rw [Nat.add_mul_mod_self_right]

/-- **Interval semantics**: inside the cycle, the state at offset `Σ(durations before) + y` with `y` below the
interval's duration is that interval's state. -/
theorem c14_state_in_interval (pre post : List LossItvl) (st d y : Nat) (hy : y < d) :
    stateIn (pre ++ (st, d) :: post) ((pre.map (·.2)).foldl (· + ·) 0 + y) = st := by
  have gen : ∀ (pre : List LossItvl) (a : Nat), stateIn (pre ++ (st, d) :: post) ((pre.map (·.2)).foldl (· + ·) a - a + y) = st := by
    intro pre
    induction pre with
    | nil => intro a; simp [stateIn, hy]
    | cons x t ih =>
      intro a
      obtain ⟨xs, xd⟩ := x
      simp only [List.cons_append, List.map_cons, List.foldl_cons, stateIn]
      have hge := foldl_add_ge (t.map (·.2)) (a + xd)
      have hnot : ¬ (List.foldl (· + ·) (a + xd) (t.map (·.2)) - a + y < xd) := by omega
      rw [if_neg hnot]
      have := ih (a + xd)
      have e : List.foldl (· + ·) (a + xd) (t.map (·.2)) - a + y - xd = List.foldl (· + ·) (a + xd) (t.map (·.2)) - (a + xd) + y := by omega
      rw [e]; exact this
  have := gen pre 0
  simpa using this

/-- A pattern whose representation filter does not match is skipped: with no matching pattern the request is
answered normally. -/
theorem c14_other_reps_normal (a : Asset) (r : Rep) (cfg : Cfg) (segId nowMS : Nat) (pats : List Pat) (m : Meta) (mrep : Rep)
    (hf : findSegMeta a r cfg segId nowMS = (.found m, some mrep)) (hN : mrep.N ≠ 0)
    (hno : ∀ p ∈ pats, repInReps r.id p = false) :
    calcStatusCode a r cfg segId nowMS pats = .normal := by
  unfold calcStatusCode
  simp only [hf, hN, ↓reduceIte]
  induction pats with
  | nil => rfl
  | cons p rest ih =>
    unfold codeGo
    have := hno p (by simp)
    simp only [this, Bool.not_false, ↓reduceIte]
    exact ih (fun q hq => hno q (by simp [hq]))

/-! ## which segment of a cycle is hit -/

theorem S_lt_succ (a : Asset) (r : Rep) (h : Contig r) (hc : Closes a r) (k : Nat) : S a r k < S a r (k + 1) := by
  rw [c01_gap_free a r h hc k, E_eq_S_add a r h k]
  have := segDur_pos r h k
  omega

theorem S_strictMono (a : Asset) (r : Rep) (h : Contig r) (hc : Closes a r) (k k' : Nat) (hk : k < k') :
    S a r k < S a r k' := by
  induction k' with
  | zero => omega
  | succ n ih =>
    have hs := S_lt_succ a r h hc n
    by_cases he : k = n
    · subst he; exact hs
    · have := ih (by omega); omega

theorem findSegStartTime_eq (a : Asset) (r : Rep) (k : Nat) : findSegStartTime a r k = S a r k := by
  unfold findSegStartTime S
  have : k - k / r.N * r.N = k % r.N := by
    have := Nat.div_add_mod k r.N
    have hm : k / r.N * r.N = r.N * (k / r.N) := Nat.mul_comm _ _
    omega
  rw [this]

/-- **The first segment of a cycle.**  `cycleFirst` — what `calcStatusCode` subtracts from the request's index — is the
least segment index whose start lies at or after the start of the cycle (cycles of `cycle` seconds counted from the start
of the stream) that contains the requested segment's start `t`: cycles not divisible by the segment duration, loop
wraps and a non-zero stream start included. -/
theorem c14_cycle_first (a : Asset) (cfg : Cfg) (r : Rep) (h : Contig r) (hc : Closes a r)
    (hadm : a.loopMS * r.T = 1000 * r.dur) (hl : 0 < a.loopMS) (cycle t : Nat) :
    t / (cycle * r.T) * cycle * r.T ≤ S a r (cycleFirst a cfg r cycle r.T t) ∧
    ∀ j, j < cycleFirst a cfg r cycle r.T t → S a r j < t / (cycle * r.T) * cycle * r.T := by
  unfold cycleFirst
  simp only [findSegStartTime_eq]
  generalize hcn : t / (cycle * r.T) = c
  have hS0 : S a r 0 = 0 := by
    have := S_decomp a r 0 0 h.1
    simp only [Nat.mul_zero, Nat.zero_add, Nat.zero_mul] at this
    rw [this, hc.2]
  by_cases hc0 : c > 0
  · rw [if_pos hc0]
    unfold findLastSegNr
    have hnow : cfg.startS * 1000 ≤ (c * cycle + cfg.startS) * 1000 := by
      rw [Nat.add_mul]; omega
    have hτ : ((c * cycle + cfg.startS) * 1000 - cfg.startS * 1000 + 0) * r.T / 1000 = c * cycle * r.T := by
      have : (c * cycle + cfg.startS) * 1000 - cfg.startS * 1000 + 0 = c * cycle * 1000 := by
        rw [Nat.add_mul]; omega
      rw [this, Nat.mul_right_comm _ 1000 r.T, Nat.mul_div_cancel _ (by decide : 0 < 1000)]
    rcases genTimeline_last a r h hc hadm hl cfg.startS ((c * cycle + cfg.startS) * 1000) 60 0 hnow with
      ⟨hs, he, ht⟩ | ⟨k, hk, _, _, h1, h2⟩
    · -- nothing has ended at the cycle start: the first segment straddles it
      rw [hτ] at ht
      have hf0 : ((genTimeline r (calcWrapTimes a cfg.startS ((c * cycle + cfg.startS) * 1000) 60) 0).startNr +
          ((genTimeline r (calcWrapTimes a cfg.startS ((c * cycle + cfg.startS) * 1000) 60) 0).entries.length : Int)
          - 1 + 1).toNat = 0 := by
        rw [hs, he]; decide
      rw [hf0, hS0]
      have hE0 : S a r (0 + 1) = E a r 0 := c01_gap_free a r h hc 0
      by_cases hz : 0 < c * cycle * r.T
      · rw [if_pos hz]
        refine ⟨by omega, ?_⟩
        intro j hj
        have : j = 0 := by omega
        subst this; rw [hS0]; exact hz
      · rw [if_neg hz]
        exact ⟨by omega, fun j hj => by omega⟩
    · rw [hτ] at h1 h2
      rw [hk]
      have hf0 : ((k : Int) + 1).toNat = k + 1 := by omega
      rw [hf0]
      have hSk : S a r (k + 1) = E a r k := c01_gap_free a r h hc k
      have hSk2 : S a r (k + 1 + 1) = E a r (k + 1) := c01_gap_free a r h hc (k + 1)
      by_cases hz : S a r (k + 1) < c * cycle * r.T
      · rw [if_pos hz]
        refine ⟨by omega, ?_⟩
        intro j hj
        rcases Nat.lt_or_ge j (k + 1) with hjk | hjk
        · have := S_strictMono a r h hc j (k + 1) hjk; omega
        · have : j = k + 1 := by omega
          subst this; exact hz
      · rw [if_neg hz]
        refine ⟨by omega, ?_⟩
        intro j hj
        have := S_strictMono a r h hc j (k + 1) hj
        omega
  · rw [if_neg hc0]
    have : c = 0 := by omega
    subst this
    simp only [Nat.zero_mul, Int.toNat_zero, hS0, Nat.lt_irrefl, ↓reduceIte]
    exact ⟨Nat.le_refl _, fun j hj => by omega⟩

/-- … hence a requested segment `k` lies at or after the first of its cycle: the "internal error" branch of
`calcStatusCode` is dead, and `k − cycleFirst` is the 0-based rank of `k` among the segments starting in its cycle
(`cycleFirst … k` are exactly the segments of index ≤ k that start at or after the cycle start). -/
theorem c14_rank (a : Asset) (cfg : Cfg) (r : Rep) (h : Contig r) (hc : Closes a r)
    (hadm : a.loopMS * r.T = 1000 * r.dur) (hl : 0 < a.loopMS) (cycle k : Nat) (hcy : 0 < cycle * r.T) :
    cycleFirst a cfg r cycle r.T (S a r k) ≤ k ∧
    ∀ j, j ≤ k → (cycleFirst a cfg r cycle r.T (S a r k) ≤ j ↔ S a r k / (cycle * r.T) * cycle * r.T ≤ S a r j) := by
  obtain ⟨h1, h2⟩ := c14_cycle_first a cfg r h hc hadm hl cycle (S a r k)
  have hcs : S a r k / (cycle * r.T) * cycle * r.T ≤ S a r k := by
    rw [Nat.mul_assoc]; exact Nat.div_mul_le_self _ _
  have hle : cycleFirst a cfg r cycle r.T (S a r k) ≤ k := by
    rcases Nat.lt_or_ge k (cycleFirst a cfg r cycle r.T (S a r k)) with hlt | hge
    · have := h2 k hlt; omega
    · exact hge
  refine ⟨hle, ?_⟩
  intro j hj
  constructor
  · intro hfj
    rcases Nat.eq_or_lt_of_le hfj with he | hlt
    · rw [← he]; exact h1
    · have := S_strictMono a r h hc _ _ hlt; omega
  · intro hsj
    rcases Nat.lt_or_ge j (cycleFirst a cfg r cycle r.T (S a r k)) with hlt | hge
    · have := h2 j hlt; omega
    · exact hge

/-- **The configured code is returned iff the request is the configured relative number of its cycle** (first pattern
whose representation filter matches; every other request falls through to the remaining patterns / normal service). -/
theorem c14_code_iff (a : Asset) (r : Rep) (cfg : Cfg) (m : Meta) (mrep : Rep) (p : Pat) (rest : List Pat) (k : Nat)
    (h : Contig mrep) (hc : Closes a mrep) (hadm : a.loopMS * mrep.T = 1000 * mrep.dur) (hl : 0 < a.loopMS)
    (hT : m.T = mrep.T) (htime : m.newTime = S a mrep k) (hnr : m.newNr = cfg.startNr + k)
    (hrep : repInReps r.id p = true) (hcy : 0 < p.cycle * mrep.T) :
    codeGo a r cfg m mrep (p :: rest) =
      if k - cycleFirst a cfg mrep p.cycle mrep.T (S a mrep k) = p.rsq then .code p.code
      else codeGo a r cfg m mrep rest := by
  have hr := (c14_rank a cfg mrep h hc hadm hl p.cycle k hcy).1
  conv => lhs; unfold codeGo
  simp only [hrep, Bool.not_true, Bool.false_eq_true, ↓reduceIte, hT, htime, hnr]
  rw [if_neg (by omega), if_neg (by omega)]
  have : cfg.startNr + k - cfg.startNr - cycleFirst a cfg mrep p.cycle mrep.T (S a mrep k)
      = k - cycleFirst a cfg mrep p.cycle mrep.T (S a mrep k) := by omega
  rw [this]

/-- non-vacuity: `testpic_2s` (2 s segments), cycle 30 s (not a multiple of 2 s·k for the stream as a whole is not
needed; here 7 s below): segment 17 starts at 34 s, in the cycle starting at 30 s whose first segment is 15 → rank 2;
with a 7 s cycle, segment 17 lies in the cycle starting at 28 s, first segment 14 → rank 3; segment 4 (8 s) lies in
the cycle starting at 7 s whose first *starting* segment is 4 → rank 0. -/
example : cycleFirst exAsset Cfg.default exRep 30 90000 (S exAsset exRep 17) = 15 := by decide
example : cycleFirst exAsset Cfg.default exRep 7 90000 (S exAsset exRep 17) = 14 := by decide
example : cycleFirst exAsset Cfg.default exRep 7 90000 (S exAsset exRep 4) = 4 := by decide

/-- non-vacuity: `u20d3u12`: second 21 of the cycle is down, second 35 ≡ 0 is up -/
example : parseLoss "u20d3u12" = some [(1, 20), (2, 3), (1, 12)] := by decide
example : stateAt [(1, 20), (2, 3), (1, 12)] 21 = some 2 ∧ stateAt [(1, 20), (2, 3), (1, 12)] 35 = some 1 := by decide
example : parseLoss "" = none ∧ parseLoss "u0" = none ∧ parseLoss "u5d" = none := by decide

end Core

/-! ## Traffic patterns at the handler: the BaseURL directory selects the pattern (`Model/Traffic.lean`, op `tdec`) -/
namespace Traffic
open Core

/-- **The BaseURL the MPD offers comes back as its own index**, for every index (one digit or many): `extractPattern`
reads `/bu<n>/rest` as pattern `n` and hands on `/rest`. -/
theorem c14_baseurl_index (n : Nat) (rest : List Char) (hn : n ≤ 9223372036854775807) :
    extractPattern ('/' :: (baseURLDir n ++ '/' :: rest)) = some ((n : Int), '/' :: rest) := by
  unfold extractPattern baseURLDir
  have hns : ∀ c ∈ 'b' :: 'u' :: Nat.toDigits 10 n, c ≠ '/' := by
    intro c hc
    simp only [List.mem_cons] at hc
    rcases hc with h | h | h
    · rw [h]; decide
    · rw [h]; decide
    · exact toDigits_no_slash n c h
  obtain ⟨h1, h2⟩ := takeWhile_no_slash ('b' :: 'u' :: Nat.toDigits 10 n) rest hns
  simp only [h1, h2, atoiL_toDigits n hn]

/-- **Each BaseURL follows its own pattern**: a request through the `j`-th offered BaseURL is decided by the state of
pattern `j` at the whole second of the request, and the segment is then looked up without the directory. -/
theorem c14_traffic_route (pats : List (List LossItvl)) (j nowMS : Nat) (rest : List Char) (hj : j < pats.length)
    (hn : j ≤ 9223372036854775807) :
    route pats ('/' :: (baseURLDir j ++ '/' :: rest)) nowMS =
      (match stateAt (pats.getD j []) (nowMS / 1000) with
        | some s => Decision.state s
        | none => Decision.crash, '/' :: rest) := by
  unfold route
  rw [c14_baseurl_index j rest hn]
  have h1 : ¬ ((j : Int) ≥ (pats.length : Int)) := by omega
  have h2 : (j : Int) ≥ 0 := by omega
  simp only [h1, h2, if_false, if_true, Int.toNat_natCast]
  cases stateAt (pats.getD j []) (nowMS / 1000) <;> rfl

/-- with patterns as the URL parser admits them (`c14_loss_parse`), the state exists: the request never crashes and is
up, missing, slow or hanging exactly as `stateIn` walks the intervals of pattern `j` -/
theorem c14_traffic_route_state (pats : List (List LossItvl)) (j nowMS : Nat) (rest : List Char) (hj : j < pats.length)
    (hn : j ≤ 9223372036854775807) (hgood : ∀ l ∈ pats, l ≠ [] ∧ GoodItvls l) :
    route pats ('/' :: (baseURLDir j ++ '/' :: rest)) nowMS =
      (Decision.state (stateIn (pats.getD j []) (nowMS / 1000 % cycleDur (pats.getD j []))), '/' :: rest) := by
  rw [c14_traffic_route pats j nowMS rest hj hn]
  have hmem : pats.getD j [] ∈ pats := by
    rw [List.getD_eq_getElem?_getD, List.getElem?_eq_getElem hj]; simp
  obtain ⟨hne, hg⟩ := hgood _ hmem
  have hpos := cycleDur_pos _ hne hg
  simp only [stateAt, Nat.ne_of_gt hpos, if_false]

/-- **An index without pattern is no BaseURL**: 404, whatever the time -/
theorem c14_traffic_no_such (pats : List (List LossItvl)) (j nowMS : Nat) (rest : List Char) (hj : pats.length ≤ j)
    (hn : j ≤ 9223372036854775807) :
    (route pats ('/' :: (baseURLDir j ++ '/' :: rest)) nowMS).1 = Decision.noSuchBaseURL := by
  unfold route
  rw [c14_baseurl_index j rest hn]
  have h1 : (j : Int) ≥ (pats.length : Int) := by omega
  simp only [h1, if_true]

/-- non-vacuity: thirteen patterns, the request through `bu12` at second 100 meets `d7u2` (cycle 9, second 1: down) -/
example : route [[(1,3)],[(2,3)],[(1,2),(2,1)],[(2,1),(1,2)],[(1,5)],[(2,5)],[(1,1),(2,1)],[(2,2),(1,1)],[(1,4)],[(2,4)],
    [(2,3),(1,3)],[(1,2)],[(2,7),(1,2)]] "/bu12/V300/49.m4s".toList 100300 = (Decision.state 2, "/V300/49.m4s".toList) := by
  decide
example : baseURLDir 12 = "bu12".toList := by decide

end Traffic
