import LivesimVerif.Model.Fault
/-!
# C14 — Fault-injection parameters hit exactly the scheduled requests

Traffic patterns: `parseLoss` (= `CreateLossItvls`, with the `fix:` commit rejecting empty patterns) and `stateAt`
(= `StateAt`).  Status-code patterns: `calcStatusCode` is modelled (`Model/Fault.lean`) and tied by the `stat` op swept
over whole cycles; its rank characterisation is checked by an independent monitor, not proved (partial).
-/
namespace Core

/-- every parsed interval has a positive duration and a real state -/
def GoodItvls (l : List LossItvl) : Prop := ∀ i ∈ l, 0 < i.2 ∧ 1 ≤ i.1 ∧ i.1 ≤ 4

theorem parseLossAux_good (cs : List Char) (st dur : Nat) (acc out : List LossItvl)
    (hacc : GoodItvls acc) (hst : st ≤ 4) (h : parseLossAux cs st dur acc = some out) : GoodItvls out := by
  induction cs generalizing st dur acc with
  | nil =>
    unfold parseLossAux at h
    by_cases h0 : st ≠ 0
    · rw [if_pos h0] at h
      by_cases hd : dur = 0
      · rw [if_pos hd] at h; cases h
      · rw [if_neg hd] at h
        injection h with h; subst h
        intro i hi
        rcases List.mem_append.mp hi with hi | hi
        · exact hacc i hi
        · simp at hi; subst hi; exact ⟨by omega, by omega, hst⟩
    · rw [if_neg h0] at h; injection h with h; subst h; exact hacc
  | cons c rest ih =>
    unfold parseLossAux at h
    simp only at h
    generalize hn : (if c = 'u' then some 1 else if c = 'd' then some 2 else if c = 's' then some 3
      else if c = 'h' then some 4 else (none : Option Nat)) = newSt at h
    cases newSt with
    | some n =>
      have hn4 : n ≤ 4 := by
        by_cases h1 : c = 'u'
        · simp [h1] at hn; omega
        · by_cases h2 : c = 'd'
          · simp [h1, h2] at hn; omega
          · by_cases h3 : c = 's'
            · simp [h1, h2, h3] at hn; omega
            · by_cases h4 : c = 'h'
              · simp [h1, h2, h3, h4] at hn; omega
              · simp [h1, h2, h3, h4] at hn
      simp only at h
      by_cases h0 : st ≠ 0
      · rw [if_pos h0] at h
        by_cases hd : dur = 0
        · rw [if_pos hd] at h; cases h
        · rw [if_neg hd] at h
          refine ih n 0 (acc ++ [(st, dur)]) ?_ hn4 h
          intro i hi
          rcases List.mem_append.mp hi with hi | hi
          · exact hacc i hi
          · simp at hi; subst hi; exact ⟨by omega, by omega, hst⟩
      · rw [if_neg h0] at h
        exact ih n 0 acc hacc hn4 h
    | none =>
      simp only at h
      by_cases hdg : c.isDigit = true
      · rw [if_pos hdg] at h
        by_cases hb : dur * 10 + (c.toNat - '0'.toNat) > maxLossDur
        · rw [if_pos hb] at h; cases h
        · rw [if_neg hb] at h; exact ih st _ acc hacc hst h
      · rw [if_neg hdg] at h; cases h

/-- **Accepted patterns are well-formed**: at least one interval, every duration positive — so the cycle
duration is positive and `StateAt` never divides by zero. -/
theorem c14_loss_parse (s : String) (l : List LossItvl) (h : parseLoss s = some l) : l ≠ [] ∧ GoodItvls l := by
  unfold parseLoss at h
  cases hp : parseLossAux s.toList 0 0 [] with
  | none => simp [hp] at h
  | some r =>
    cases r with
    | nil => simp [hp] at h
    | cons x t =>
      simp only [hp] at h
      injection h with h; subst h
      exact ⟨by simp, parseLossAux_good _ 0 0 [] _ (by intro i hi; simp at hi) (by omega) hp⟩

theorem foldl_add_ge (l : List Nat) (a : Nat) : a ≤ l.foldl (· + ·) a := by
  induction l generalizing a with
  | nil => simp
  | cons x t ih => exact Nat.le_trans (Nat.le_add_right a x) (ih (a + x))

theorem cycleDur_pos (l : List LossItvl) (hne : l ≠ []) (hg : GoodItvls l) : 0 < cycleDur l := by
  cases l with
  | nil => exact absurd rfl hne
  | cons x t =>
    have hx := (hg x (by simp)).1
    unfold cycleDur
    simp only [List.map_cons, List.foldl_cons, Nat.zero_add]
    exact Nat.lt_of_lt_of_le hx (foldl_add_ge _ _)

/-- `StateAt` is total on accepted patterns. -/
theorem c14_stateAt_total (s : String) (l : List LossItvl) (h : parseLoss s = some l) (nowS : Nat) :
    ∃ st, stateAt l nowS = some st := by
  obtain ⟨hne, hg⟩ := c14_loss_parse s l h
  have := cycleDur_pos l hne hg
  unfold stateAt
  exact ⟨_, by rw [if_neg (by omega)]⟩

/-- **Cyclic from the epoch**: the state only depends on the second modulo the cycle duration. -/
theorem c14_state_periodic (l : List LossItvl) (nowS k : Nat) : stateAt l (nowS + k * cycleDur l) = stateAt l nowS := by
  unfold stateAt
  by_cases h : cycleDur l = 0
  · simp [h]
  · simp only [h, ↓reduceIte]
    rw [Nat.add_mul_mod_self_right]

/-- **Interval semantics**: inside the cycle, the state at offset `Σ(durations before) + y` with `y` below the
interval's duration is that interval's state. -/
theorem c14_state_in_interval (pre post : List LossItvl) (st d y : Nat) (hy : y < d) :
    stateIn (pre ++ (st, d) :: post) ((pre.map (·.2)).foldl (· + ·) 0 + y) = st := by
  have gen : ∀ (pre : List LossItvl) (a : Nat), stateIn (pre ++ (st, d) :: post) ((pre.map (·.2)).foldl (· + ·) a - a + y) = st := by
    intro pre
    induction pre with
    | nil => intro a; simp [stateIn, hy]
    | cons x t ih =>
      intro a
      obtain ⟨xs, xd⟩ := x
      simp only [List.cons_append, List.map_cons, List.foldl_cons, stateIn]
      have hge := foldl_add_ge (t.map (·.2)) (a + xd)
      have hnot : ¬ (List.foldl (· + ·) (a + xd) (t.map (·.2)) - a + y < xd) := by omega
      rw [if_neg hnot]
      have := ih (a + xd)
      have e : List.foldl (· + ·) (a + xd) (t.map (·.2)) - a + y - xd = List.foldl (· + ·) (a + xd) (t.map (·.2)) - (a + xd) + y := by omega
      rw [e]; exact this
  have := gen pre 0
  simpa using this

/-- A pattern whose representation filter does not match is skipped: with no matching pattern the request is
answered normally. -/
theorem c14_other_reps_normal (a : Asset) (r : Rep) (cfg : Cfg) (segId nowMS : Nat) (pats : List Pat) (m : Meta) (mrep : Rep)
    (hf : findSegMeta a r cfg segId nowMS = (.found m, some mrep)) (hN : mrep.N ≠ 0)
    (hno : ∀ p ∈ pats, repInReps r.id p = false) :
    calcStatusCode a r cfg segId nowMS pats = .normal := by
  unfold calcStatusCode
  simp only [hf, hN, ↓reduceIte]
  induction pats with
  | nil => rfl
  | cons p rest ih =>
    unfold calcStatusCode.go
    have := hno p (by simp)
    simp only [this, Bool.not_false, ↓reduceIte]
    exact ih (fun q hq => hno q (by simp [hq]))

/-- non-vacuity: `u20d3u12`: second 21 of the cycle is down, second 35 ≡ 0 is up -/
example : parseLoss "u20d3u12" = some [(1, 20), (2, 3), (1, 12)] := by decide
example : stateAt [(1, 20), (2, 3), (1, 12)] 21 = some 2 ∧ stateAt [(1, 20), (2, 3), (1, 12)] 35 = some 1 := by decide
example : parseLoss "" = none ∧ parseLoss "u0" = none ∧ parseLoss "u5d" = none := by decide

end Core
