import LivesimVerif.Lemmas.Core
import LivesimVerif.Model.Ttml
/-!
# C01 — Looped output is one gap-free, wall-clock-anchored media timeline

`S a r k` / `E a r k` are start and end of output segment `k` (counted from availabilityStartTime) of the spec;
`byNr` / `byTime` model `findSegMetaFromNr` / `findSegMetaFromTime`.  Hypotheses: `Contig r` (segment table
contiguous — proved for the `$Number$` loader in C15) and `Closes a r` (wrap duration in ticks equals the table
duration and the table starts at 0 — what `consolidateAsset` admits for the reference representation).
Payload identity / box rewriting are `mp4ff`'s and are tied by the `seg` correspondence (payload hashes) only.
-/
namespace Core

/-- **Gap-free across every wrap**: segment k+1 starts exactly where segment k ends, for every k. -/
theorem c01_gap_free (a : Asset) (r : Rep) (h : Contig r) (hc : Closes a r) (k : Nat) :
    S a r (k + 1) = E a r k := by
  obtain ⟨w, i, hi, rfl⟩ := decomp r.N k h.1
  by_cases hl : i + 1 < r.N
  · rw [show r.N * w + i + 1 = r.N * w + (i + 1) by omega, S_decomp a r w (i+1) hl, E_decomp a r w i hi,
      h.2.2 i hl]
  · have hi' : i = r.N - 1 := by omega
    rw [show r.N * w + i + 1 = r.N * (w + 1) + 0 by rw [Nat.mul_add]; omega,
      S_decomp a r (w+1) 0 h.1, E_decomp a r w i hi, hc.2]
    have hd : r.dur = (r.seg (r.N - 1)).stop - (r.seg 0).start := by
      unfold Rep.dur
      have : r.segs.isEmpty = false := by
        cases hs : r.segs with
        | nil => have := h.1; simp [Rep.N, hs] at this
        | cons _ _ => rfl
      simp [this]
    rw [hc.1, hd, hc.2, hi', Nat.add_mul]
    omega

/-- What a `$Number$` lookup returns: for segment `startNr + k` — if it is available at all — the source is
VoD segment `k mod N`, the sequence number is `startNr + k`, the decode time is
`⌊k/N⌋·loopDuration + VoD start` and the duration is the VoD segment's. -/
theorem c01_source (a : Asset) (r : Rep) (cfg : Cfg) (k nowMS : Nat) (m : Meta)
    (h : byNr a r cfg (cfg.startNr + k) nowMS = .found m) :
    m.origIdx = k % r.N ∧ m.origNr = (r.seg (k % r.N)).nr ∧ m.origTime = (r.seg (k % r.N)).start ∧
    m.newNr = (cfg.startNr + k) % 2^32 ∧ m.newTime = S a r k ∧
    m.newDur = ((r.seg (k % r.N)).stop - (r.seg (k % r.N)).start) % 2^32 := by
  unfold byNr at h
  by_cases hN : r.N = 0
  · simp [hN] at h
  · simp only [hN, ↓reduceIte, Nat.not_lt.mpr (Nat.le_add_right _ _), Nat.add_sub_cancel_left] at h
    have hrel : k - k / r.N * r.N = k % r.N := by
      have := Nat.div_add_mod k r.N
      rw [Nat.mul_comm] at this; omega
    rw [hrel] at h
    split at h
    · injection h with h; subst h
      exact ⟨rfl, rfl, rfl, rfl, rfl, rfl⟩
    · cases h

/-- Availability of a `$Number$` lookup is decided by the spec's segment end `E a r k` (plus stream start). -/
theorem c01_byNr_avail (a : Asset) (r : Rep) (cfg : Cfg) (k nowMS : Nat) (hN : 0 < r.N) :
    (∃ m, byNr a r cfg (cfg.startNr + k) nowMS = .found m) ↔
      checkTime (E a r k + cfg.startS * r.T) r.T nowMS cfg.tsbdS cfg.ato = .ok := by
  unfold byNr E
  have hN' : r.N ≠ 0 := by omega
  simp only [hN', ↓reduceIte, Nat.not_lt.mpr (Nat.le_add_right _ _), Nat.add_sub_cancel_left]
  have hrel : k - k / r.N * r.N = k % r.N := by
    have := Nat.div_add_mod k r.N
    rw [Nat.mul_comm] at this; omega
  rw [hrel, show (r.seg (k % r.N)).stop + k / r.N * wrapDur a r + cfg.startS * r.T =
      k / r.N * wrapDur a r + (r.seg (k % r.N)).stop + cfg.startS * r.T by omega]
  generalize checkTime _ r.T nowMS cfg.tsbdS cfg.ato = st
  cases st <;> simp

/-- **Same segment by `$Number$` and by `$Time$`**: addressing output segment k by its start time gives
exactly the lookup result of addressing it by its number. -/
theorem c01_time_eq_number (a : Asset) (r : Rep) (cfg : Cfg) (h : Contig r) (hc : Closes a r) (k nowMS : Nat) :
    byTime a r cfg (S a r k) nowMS = byNr a r cfg (cfg.startNr + k) nowMS := by
  obtain ⟨w, i, hi, rfl⟩ := decomp r.N k h.1
  have hb := contig_stop_le_dur a r h hc i hi
  have hwd : 0 < wrapDur a r := by omega
  unfold byTime byNr
  rw [S_decomp a r w i hi]
  have hN' : r.N ≠ 0 := by have := h.1; omega
  simp only [Nat.ne_of_gt hwd, hN', ↓reduceIte, Nat.not_lt.mpr (Nat.le_add_right _ _), Nat.add_sub_cancel_left]
  -- time side: wraps = w, after = start_i
  have hdiv : (w * wrapDur a r + (r.seg i).start) / wrapDur a r = w := by
    rw [Nat.mul_comm, Nat.mul_add_div hwd, Nat.div_eq_of_lt hb.2]; simp
  rw [hdiv, Nat.add_sub_cancel_left]
  have hidx : idxFromTime r.segs (r.seg i).start = i :=
    idxFromTime_start r.segs (fun x y hxy hy => contig_start_lt r h x y hxy hy) i hi
  rw [hidx]
  have hne : i ≠ r.N := by omega
  simp only [hne, ↓reduceIte, ne_eq, not_true_eq_false]
  -- number side: wraps = w, rel = i
  have hdiv2 : (r.N * w + i) / r.N = w := by
    rw [Nat.mul_add_div h.1, Nat.div_eq_of_lt hi]; simp
  rw [hdiv2]
  have hrel : r.N * w + i - w * r.N = i := by rw [Nat.mul_comm]; omega
  rw [hrel]
  have hnr : (cfg.startNr + i + w * r.N) % 4294967296 = (cfg.startNr + (r.N * w + i)) % 4294967296 := by
    congr 1; rw [Nat.mul_comm w]; omega
  rw [hnr]

/-- **No second URL for a segment**: a `$Time$` lookup succeeds only for the start time of an output segment,
and that segment is determined by the time. -/
theorem c01_time_unique (a : Asset) (r : Rep) (cfg : Cfg) (t nowMS : Nat) (m : Meta)
    (h : byTime a r cfg t nowMS = .found m) :
    m.origIdx < r.N ∧ t = (t / wrapDur a r) * wrapDur a r + (r.seg m.origIdx).start ∧ m.newTime = t := by
  unfold byTime at h
  by_cases hw : wrapDur a r = 0
  · simp [hw] at h
  · simp only [hw, ↓reduceIte] at h
    by_cases hidx : idxFromTime r.segs (t - t / wrapDur a r * wrapDur a r) = r.N
    · simp [hidx] at h
    · simp only [hidx, ↓reduceIte] at h
      by_cases hst : (r.seg (idxFromTime r.segs (t - t / wrapDur a r * wrapDur a r))).start ≠ t - t / wrapDur a r * wrapDur a r
      · simp [hst] at h
      · rw [if_neg hst] at h
        have hst' : (r.seg (idxFromTime r.segs (t - t / wrapDur a r * wrapDur a r))).start = t - t / wrapDur a r * wrapDur a r := by
          simpa using hst
        have hle : idxFromTime r.segs (t - t / wrapDur a r * wrapDur a r) ≤ r.N := by
          generalize (t - t / wrapDur a r * wrapDur a r) = x
          unfold Rep.N
          induction r.segs with
          | nil => simp [idxFromTime]
          | cons s rest ih => unfold idxFromTime; split <;> simp <;> omega
        have hdm := Nat.div_mul_le_self t (wrapDur a r)
        split at h
        · injection h with h
          rw [← h]
          exact ⟨Nat.lt_of_le_of_ne hle hidx, by rw [hst']; omega, rfl⟩
        · cases h

/-- non-vacuity: `testpic_2s` V300 (4 segments of 2 s at 90 kHz, loop 8 s) satisfies the hypotheses; segment 5
is VoD segment 1 shifted by one loop. -/
def exRep : Rep where
  id := "V300"
  kind := .video
  T := 90000
  segs := [⟨0, 180000, 1⟩, ⟨180000, 360000, 2⟩, ⟨360000, 540000, 3⟩, ⟨540000, 720000, 4⟩]
  constSampleDur := 3600
  sampleDur := 3600
  preEnc := false
  stpp := false

def exAsset : Asset where
  name := "testpic_2s"
  loopMS := 8000
  segDurMS := 2000
  refId := "V300"
  reps := [exRep]

example : Closes exAsset exRep := by
  simp [Closes, wrapDur, Rep.dur, exAsset, exRep, Rep.seg, Rep.N]
example : Contig exRep := by
  refine ⟨by simp [Rep.N, exRep], ?_, ?_⟩
  · intro i hi
    have : i = 0 ∨ i = 1 ∨ i = 2 ∨ i = 3 := by simp [Rep.N, exRep] at hi; omega
    rcases this with rfl | rfl | rfl | rfl <;> simp [Rep.seg, exRep]
  · intro i hi
    have : i = 0 ∨ i = 1 ∨ i = 2 := by simp [Rep.N, exRep] at hi; omega
    rcases this with rfl | rfl | rfl <;> simp [Rep.seg, exRep]
example : byNr exAsset exRep Cfg.default 5 20000 =
    .found { origIdx := 1, origNr := 2, origTime := 180000, newNr := 5, newTime := 900000, newDur := 180000, T := 90000 } := by
  decide
example : byTime exAsset exRep Cfg.default 900000 20000 = byNr exAsset exRep Cfg.default 5 20000 := by
  decide

end Core

/-! ## TTML clause: embedded timestamps move by the same offset as the decode time

`Model/Ttml.lean` models `shiftStppTimes`' conversion of the decode-time shift to milliseconds, the scan for timestamps
(`timeExp`, leftmost-first) and `shiftTimestamp`; ops `ttml` and `tshift` tie it to the code. -/
namespace Ttml

/-- **A rewritten timestamp denotes exactly the old instant plus the shift**: the four fields written for `x` ms
(`%02d:%02d:%02d.%03d`) read back as `x`, for every `x` (hours of any size). -/
theorem c01_ttml_fields_exact (x : Nat) : toMS (fields x) = x := by
  unfold toMS fields
  simp only
  omega

/-- … and they are a normal clock reading: minutes and seconds below 60, milliseconds below 1000. -/
theorem c01_ttml_fields_normal (x : Nat) :
    (fields x).2.1 < 60 ∧ (fields x).2.2.1 < 60 ∧ (fields x).2.2.2 < 1000 := by
  unfold fields
  simp only
  omega

/-- without `uint64` overflow (instants below 2⁶⁴ ms, i.e. 584 million years) the shifted value is the plain sum -/
theorem c01_ttml_no_wrap (v d : Nat) (h : v + d < 18446744073709551616) : wrap (wrap v + d) = v + d := by
  unfold wrap; omega

/-- **The shift applied to the text equals the shift applied to the decode time.**  The decode time of loop `w` moves
by `w · dur` ticks; for every asset that is admitted (`loopMS · T = 1000 · dur`) the millisecond shift computed by
`shiftStppTimes` is exactly `w · loopMS`, the same instant, for every loop count and timescale. -/
theorem c01_ttml_shift_is_decode_shift (w dur loopMS T : Nat) (hT : 0 < T) (hadm : loopMS * T = 1000 * dur) :
    stppShiftMS (w * dur) T = w * loopMS := by
  unfold stppShiftMS
  have e : 2 * (w * dur) * 1000 = 2 * T * (w * loopMS) := by
    have : w * (loopMS * T) = w * (1000 * dur) := by rw [hadm]
    calc 2 * (w * dur) * 1000 = 2 * (w * (1000 * dur)) := by
          rw [Nat.mul_assoc 2, Nat.mul_assoc w, Nat.mul_comm dur 1000]
      _ = 2 * (w * (loopMS * T)) := by rw [this]
      _ = 2 * T * (w * loopMS) := by
          rw [Nat.mul_assoc 2 T, ← Nat.mul_assoc w loopMS T, Nat.mul_comm T (w * loopMS)]
  rw [e, Nat.mul_add_div (by omega : 0 < 2 * T), Nat.div_eq_of_lt (by omega)]
  omega

/-- in general the shift is the decode-time shift rounded to the nearest millisecond -/
theorem c01_ttml_shift_rounds (ts T : Nat) (hT : 0 < T) :
    2 * T * stppShiftMS ts T ≤ 2 * ts * 1000 + T ∧ 2 * ts * 1000 + T < 2 * T * (stppShiftMS ts T + 1) := by
  unfold stppShiftMS
  have h1 := Nat.div_add_mod (2 * ts * 1000 + T) (2 * T)
  have h2 := Nat.mod_lt (2 * ts * 1000 + T) (by omega : 0 < 2 * T)
  constructor
  · omega
  · rw [Nat.mul_add]; omega

/-- non-vacuity: a document with two timestamps (one without fraction) shifted by one 8.008 s loop; text outside the
timestamps is untouched; a one-digit hour does not match (`1:02:03` → only `02:03:…` could, and does not) -/
example : shiftTTML "<p begin=\"00:00:01.500\" end=\"00:00:59\">1:02:03</p>" 8008
    = "<p begin=\"00:00:09.508\" end=\"00:01:07.008\">1:02:03</p>" := by decide
example : stppShiftMS 8008 1000 = 8008 ∧ stppShiftMS (3 * 720720) 90000 = 3 * 8008 := by decide

end Ttml
