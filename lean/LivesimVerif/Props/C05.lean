import LivesimVerif.Props.C02
/-!
# C05 — The MPD only moves forward, and publishTime identifies its content

Edge monotonicity / uniqueness are theorems about the characterisation `E k ≤ τ < E (k+1)` of the listed edge
(`edgeIdx_spec`, C02) and hold for every table, loop count and pair of instants.  The clause "same publishTime ⇒ same
content" did not hold for the code of the previous round (the first entry leaves the window at other instants than the last
one enters, F-C05-1); after the repair it is `c05_publish_identifies` below.
-/
namespace Core

/-- **The listed edge is determined by the instant** (it is *the* newest ended segment): two indices that both
satisfy `E k ≤ τ < E (k+1)` are equal.  Hence the edge is `k` exactly while `avail k ≤ now < avail (k+1)`: it
advances by one segment at the instant that segment becomes available. -/
theorem c05_edge_unique (a : Asset) (r : Rep) (h : Contig r) (hc : Closes a r) (τ k k' : Nat)
    (h1 : E a r k ≤ τ ∧ τ < E a r (k + 1)) (h2 : E a r k' ≤ τ ∧ τ < E a r (k' + 1)) : k = k' := by
  rcases Nat.lt_trichotomy k k' with hlt | heq | hgt
  · have : E a r (k + 1) ≤ E a r k' := by
      by_cases he : k + 1 = k'
      · rw [he]; exact Nat.le_refl _
      · exact Nat.le_of_lt (E_strictMono a r h hc (k+1) k' (by omega))
    omega
  · exact heq
  · have : E a r (k' + 1) ≤ E a r k := by
      by_cases he : k' + 1 = k
      · rw [he]; exact Nat.le_refl _
      · exact Nat.le_of_lt (E_strictMono a r h hc (k'+1) k (by omega))
    omega

/-- **The edge never moves backwards**: a later instant (more elapsed ticks) lists an edge that is not older. -/
theorem c05_edges_monotone (a : Asset) (r : Rep) (h : Contig r) (hc : Closes a r) (τ₁ τ₂ k₁ k₂ : Nat) (hτ : τ₁ ≤ τ₂)
    (h1 : E a r k₁ ≤ τ₁ ∧ τ₁ < E a r (k₁ + 1)) (h2 : E a r k₂ ≤ τ₂ ∧ τ₂ < E a r (k₂ + 1)) : k₁ ≤ k₂ := by
  rcases Nat.lt_or_ge k₂ k₁ with hlt | hge
  · have : E a r (k₂ + 1) ≤ E a r k₁ := by
      by_cases he : k₂ + 1 = k₁
      · rw [he]; exact Nat.le_refl _
      · exact Nat.le_of_lt (E_strictMono a r h hc (k₂+1) k₁ (by omega))
    omega
  · exact hge

theorem ceil_le (A T X : Nat) (h : A ≤ X * T) : (A + T - 1) / T ≤ X := by
  by_cases hT : T = 0
  · subst hT; simp
  · have : A + T - 1 < T * (X + 1) := by
      rw [Nat.mul_add, Nat.mul_one, Nat.mul_comm T X]; omega
    exact Nat.le_of_lt_succ (Nat.div_lt_of_lt_mul this)

/-- **publishTime is never later than the request instant**: the first whole millisecond at which the last listed
segment has ended, less the offset, plus the stream start, is ≤ now whenever that segment has ended (less the
offset) at now — which is what the edge search guarantees (`c02_edge_matches_server`). -/
theorem c05_pt_le_now (startS nowMS atoMS T : Nat) (lsi : LastSeg) (hnow : startS * 1000 ≤ nowMS)
    (hended : (lsi.start + lsi.dur) * 1000 ≤ (nowMS - startS * 1000 + atoMS) * T) :
    lastSegAvailMS startS atoMS T lsi ≤ nowMS := by
  unfold lastSegAvailMS
  by_cases hn : lsi.nr < 0
  · rw [if_pos hn]; exact hnow
  · rw [if_neg hn]
    have hceil := ceil_le _ T _ hended
    generalize ((lsi.start + lsi.dur) * 1000 + T - 1) / T = C at hceil ⊢
    show max (startS * 1000) (C + startS * 1000 - atoMS) ≤ nowMS
    exact Nat.max_le.mpr ⟨hnow, by omega⟩

/-- publishTime is not before the stream start. -/
theorem c05_pt_ge_start (startS atoMS T : Nat) (lsi : LastSeg) : startS * 1000 ≤ lastSegAvailMS startS atoMS T lsi := by
  unfold lastSegAvailMS
  split
  · exact Nat.le_refl _
  · exact Nat.le_max_left _ _

/-- publishTime does not decrease when the listed edge does not move back (later end ⇒ later publishTime). -/
theorem c05_pt_monotone (startS atoMS T : Nat) (l₁ l₂ : LastSeg) (hn₁ : 0 ≤ l₁.nr) (hn₂ : 0 ≤ l₂.nr)
    (h : l₁.start + l₁.dur ≤ l₂.start + l₂.dur) :
    lastSegAvailMS startS atoMS T l₁ ≤ lastSegAvailMS startS atoMS T l₂ := by
  have mono : ∀ C₁ C₂ : Nat, C₁ ≤ C₂ →
      max (startS * 1000) (C₁ + startS * 1000 - atoMS) ≤ max (startS * 1000) (C₂ + startS * 1000 - atoMS) := by
    intro C₁ C₂ hC
    exact Nat.max_le.mpr ⟨Nat.le_max_left _ _, Nat.le_trans (by omega) (Nat.le_max_right _ _)⟩
  unfold lastSegAvailMS
  have n1 : ¬ l₁.nr < 0 := by omega
  have n2 : ¬ l₂.nr < 0 := by omega
  rw [if_neg n1, if_neg n2]
  exact mono _ _ (Nat.div_le_div_right (by omega))

/-! ### publishTime with both ends of the timeline (`calcPublishTimeMS`, `fix:` commit) -/

theorem firstChange_le_now (startS atoMS tsbdMS nowMS T : Nat) (f : Nat × Nat) (hnow : startS * 1000 ≤ nowMS) :
    firstChangeMS startS atoMS tsbdMS nowMS T f ≤ nowMS := by
  unfold firstChangeMS
  simp only
  split
  · assumption
  · exact hnow

/-- **publishTime (both ends) is never later than the request instant.** -/
theorem c05_publish_le_now (startS nowMS atoMS tsbdMS T : Nat) (startNr : Int) (lsi : LastSeg) (entries : List (Nat × Nat))
    (hnow : startS * 1000 ≤ nowMS) (hended : (lsi.start + lsi.dur) * 1000 ≤ (nowMS - startS * 1000 + atoMS) * T) :
    publishMS startS atoMS tsbdMS nowMS T startNr lsi entries ≤ nowMS := by
  unfold publishMS
  have h1 := c05_pt_le_now startS nowMS atoMS T lsi hnow hended
  split
  · exact h1
  cases entries.head? with
  | none => exact h1
  | some f => exact Nat.max_le.mpr ⟨h1, firstChange_le_now startS atoMS tsbdMS nowMS T f hnow⟩

/-- … and not before the stream start. -/
theorem c05_publish_ge_start (startS nowMS atoMS tsbdMS T : Nat) (startNr : Int) (lsi : LastSeg) (entries : List (Nat × Nat)) :
    startS * 1000 ≤ publishMS startS atoMS tsbdMS nowMS T startNr lsi entries := by
  unfold publishMS
  have h1 := c05_pt_ge_start startS atoMS T lsi
  split
  · exact h1
  cases entries.head? with
  | none => exact h1
  | some f => exact Nat.le_trans h1 (Nat.le_max_left _ _)

/-- **publishTime identifies the content of the timeline.**  Take two instants `now₁ ≤ now₂`; `aL₁, aL₂` are the
availability instants of the last listed segments, `bF₁, bF₂` the instants at which the first listed entries became
first (as `publishMS` computes them).  What the edge search guarantees (`c05_edge_unique`, `c05_edges_monotone` for the
live edge; the same statements with `τ = now − tsbd + ato` for the window start): all four lie at or before their own
request instant, and an end that differs at `now₂` became what it is only after `now₁`.  Then equal publishTimes force
both ends to be equal — the timelines are the same; conversely different timelines have different publishTimes. -/
theorem c05_publish_identifies (now₁ aL₁ aL₂ bF₁ bF₂ : Nat)
    (h1 : aL₁ ≤ now₁) (h2 : bF₁ ≤ now₁)
    (hL : aL₁ ≠ aL₂ → now₁ < aL₂) (hF : bF₁ ≠ bF₂ → now₁ < bF₂)
    (hpt : max aL₁ bF₁ = max aL₂ bF₂) : aL₁ = aL₂ ∧ bF₁ = bF₂ := by
  by_cases ha : aL₁ = aL₂
  · by_cases hb : bF₁ = bF₂
    · exact ⟨ha, hb⟩
    · have := hF hb; omega
  · have := hL ha; omega

/-- the instants in `c05_publish_identifies` are strictly increasing in the segment end they belong to, so "equal
instant" is "equal segment": availability of the segment that ends at tick `e` -/
theorem avail_strict (startS atoMS T e₁ e₂ : Nat) (hT : 0 < T) (hlt : e₁ + T ≤ e₂)
    (hpos : atoMS ≤ (e₁ * 1000 + T - 1) / T) :
    (e₁ * 1000 + T - 1) / T + startS * 1000 - atoMS < (e₂ * 1000 + T - 1) / T + startS * 1000 - atoMS := by
  have : (e₁ * 1000 + T - 1) / T + 1000 ≤ (e₂ * 1000 + T - 1) / T := by
    have h : e₁ * 1000 + T - 1 + 1000 * T ≤ e₂ * 1000 + T - 1 := by
      have : e₁ * 1000 + 1000 * T ≤ e₂ * 1000 := by
        have := Nat.mul_le_mul_right 1000 hlt
        rw [Nat.add_mul] at this
        omega
      omega
    calc (e₁ * 1000 + T - 1) / T + 1000 = (e₁ * 1000 + T - 1 + 1000 * T) / T := by
          rw [Nat.add_mul_div_right _ _ hT]
      _ ≤ (e₂ * 1000 + T - 1) / T := Nat.div_le_div_right h
  omega

/-- non-vacuity: 2 s segments at 90 kHz, tsbd 5 s: at 11.3 s the first entry (ends at 6 s) became first at 11.0 s,
later than the last segment's availability at 10.0 s — the case in which the publishTime used to be stale -/
example : publishMS 0 0 5000 11300 90000 2 ⟨720000, 180000, 4⟩ [(360000, 180000), (540000, 180000), (720000, 180000)] = 11000 ∧
    lastSegAvailMS 0 0 90000 ⟨720000, 180000, 4⟩ = 10000 := by decide

/-- the first segment of the stream never replaced another entry (`fix:` commit 13d0447): while it is the first entry
(`startNr = 0`) only the last segment's availability counts — 2.002 s segments at 30 kHz, start 61 s, tsbd 10 s: at
73.002 s the window start reaches the end of segment 0, the list does not change and neither does publishTime -/
example : publishMS 61 0 10000 73002 30000 0 ⟨300300, 60060, 5⟩ [(0, 60060), (60060, 60060)] =
    lastSegAvailMS 61 0 30000 ⟨300300, 60060, 5⟩ := by decide

/-- After the configured stop time the MPD is static with the duration stop − start. -/
theorem c05_static_after_stop (a : Asset) (sets : List ASDef) (cfg : MpdCfg) (nowMS stop : Nat) (m : MpdOut)
    (hs : cfg.stopS = some stop) (hafter : stop * 1000 < nowMS) (h : liveMpd a sets cfg nowMS = .ok m) :
    m.dynamic = false ∧ m.durS = some (stop - cfg.startS) := by
  unfold liveMpd at h
  by_cases hl : a.loopMS = 0
  · simp [hl] at h
  · simp only [hl, ↓reduceIte, hs, hafter, decide_true, Option.getD_some] at h
    cases hb : liveMpdBody a sets cfg (stop * 1000) with
    | err => simp [hb] at h
    | panic => simp [hb] at h
    | ok outs pt =>
      simp only [hb] at h
      cases hp : cfg.periodsPerHour with
      | none => simp only [hp] at h; injection h with h; subst h; exact ⟨rfl, rfl⟩
      | some pph =>
        simp only [hp] at h
        split at h
        · cases h
        · split at h
          · cases h
          · cases h
          · injection h with h; subst h; exact ⟨rfl, rfl⟩

/-- non-vacuity: `testpic_2s`: E is strictly increasing across the wrap (segment 3 ends at 8 s, segment 4 at 10 s) -/
example : E exAsset exRep 3 = 720000 ∧ E exAsset exRep 4 = 900000 := by decide

end Core
