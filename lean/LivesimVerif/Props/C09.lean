import LivesimVerif.Model.Chunk
/-!
# C09 — Low-latency chunked delivery is the same media, never delivered early

`Chunk.chunkSegment` models the sample loop of `chunkSegment` for every list of sample durations and every positive
chunk duration.  The byte-level clause (same samples as the whole segment) is mp4ff's and is checked by parsing both
responses (monitor).  Timing: `pace` with an arbitrary clock; `sleep` returns after at least the requested time.
-/
namespace Chunk

/-- invariant of the loop -/
structure Inv (cd : Nat) (seen : List Nat) (s : St) : Prop where
  count : (s.done.map (·.n)).foldl (· + ·) 0 + s.curN = seen.length
  nonempty : ∀ c ∈ s.done, 0 < c.n
  open_pos : s.curDur > 0 → s.curN > 0
  open_dur : s.curN > 0 → s.curDur > 0
  total : s.total = (seen.foldl (· + ·) 0)
  realsum : (s.done.map (·.real)).foldl (· + ·) 0 + s.curDur = s.total
  closed : ∀ c ∈ s.done, c.dur = c.real

theorem foldl_add_shift (l : List Nat) (a b : Nat) : l.foldl (· + ·) (a + b) = l.foldl (· + ·) a + b := by
  induction l generalizing a with
  | nil => rfl
  | cons x t ih => simp only [List.foldl_cons]; rw [Nat.add_right_comm, ih]

theorem foldl_add_append (l : List Nat) (x : Nat) : (l ++ [x]).foldl (· + ·) 0 = l.foldl (· + ·) 0 + x := by
  simp [List.foldl_append]

theorem inv_step (cd : Nat) (seen : List Nat) (s : St) (d : Nat) (hd : 0 < d) (h : Inv cd seen s) :
    Inv cd (seen ++ [d]) (stepSample cd s d) := by
  unfold stepSample
  simp only
  by_cases hc : s.total + d ≥ cd * s.nr
  · rw [if_pos hc]
    refine ⟨?_, ?_, ?_, ?_, ?_, ?_, ?_⟩
    · simp only [List.map_append, List.map_cons, List.map_nil, foldl_add_append, List.length_append, List.length_cons,
        List.length_nil]
      have := h.count; omega
    · intro c hcm
      rcases List.mem_append.mp hcm with hcm | hcm
      · exact h.nonempty c hcm
      · simp at hcm; subst hcm; simp
    · intro hp; simp at hp
    · intro hp; simp at hp
    · simp only [foldl_add_append]; rw [h.total]
    · simp only [List.map_append, List.map_cons, List.map_nil, foldl_add_append]
      have := h.realsum; omega
    · intro c hcm
      rcases List.mem_append.mp hcm with hcm | hcm
      · exact h.closed c hcm
      · simp at hcm; subst hcm; rfl
  · rw [if_neg hc]
    refine ⟨?_, h.nonempty, ?_, ?_, ?_, ?_, h.closed⟩
    · simp only [List.length_append, List.length_cons, List.length_nil]
      have := h.count; omega
    · intro _; simp
    · intro _; simp only; omega
    · simp only [foldl_add_append]; rw [h.total]
    · have := h.realsum; simp only; omega

theorem inv_fold (cd : Nat) (seen durs : List Nat) (s : St) (hpos : ∀ d ∈ durs, 0 < d) (h : Inv cd seen s) :
    Inv cd (seen ++ durs) (durs.foldl (stepSample cd) s) := by
  induction durs generalizing seen s with
  | nil => simpa using h
  | cons d t ih =>
    simp only [List.foldl_cons]
    have := ih (seen ++ [d]) (stepSample cd s d) (fun x hx => hpos x (by simp [hx])) (inv_step cd seen s d (hpos d (by simp)) h)
    simpa [List.append_assoc] using this

theorem inv_init (cd : Nat) : Inv cd [] { done := [], curN := 0, curDur := 0, total := 0, nr := 1 } :=
  ⟨rfl, by intro c hc; simp at hc, by intro h; simp at h, by intro h; simp at h, rfl, rfl, by intro c hc; simp at hc⟩

/-- **Partition**: the chunks contain every sample exactly once, in order (sample counts add up to the number of
samples), no chunk is empty, and the real media durations of the chunks add up to the segment duration. -/
theorem c09_partition (durs : List Nat) (cd : Nat) (hpos : ∀ d ∈ durs, 0 < d) :
    ((chunkSegment durs cd).map (·.n)).foldl (· + ·) 0 = durs.length ∧
    (∀ c ∈ chunkSegment durs cd, 0 < c.n) ∧
    ((chunkSegment durs cd).map (·.real)).foldl (· + ·) 0 = durs.foldl (· + ·) 0 := by
  have inv := inv_fold cd [] durs _ hpos (inv_init cd)
  simp only [List.nil_append] at inv
  unfold chunkSegment
  simp only
  generalize durs.foldl (stepSample cd) { done := [], curN := 0, curDur := 0, total := 0, nr := 1 } = s at inv
  by_cases hp : s.curDur > 0
  · rw [if_pos hp]
    refine ⟨?_, ?_, ?_⟩
    · simp only [List.map_append, List.map_cons, List.map_nil, foldl_add_append]; exact inv.count
    · intro c hcm
      rcases List.mem_append.mp hcm with hcm | hcm
      · exact inv.nonempty c hcm
      · simp at hcm; subst hcm; exact inv.open_pos hp
    · simp only [List.map_append, List.map_cons, List.map_nil, foldl_add_append]
      rw [inv.realsum, inv.total]
  · rw [if_neg hp]
    have h0 : s.curDur = 0 := by omega
    have hn : s.curN = 0 := by
      by_cases hz : s.curN = 0
      · exact hz
      · have := inv.open_dur (by omega); omega
    refine ⟨by have := inv.count; omega, inv.nonempty, by have := inv.realsum; rw [← inv.total]; omega⟩

/-- second invariant: the open chunk starts at or after the previous multiple of `cd` and, when it is non-empty,
has not reached the next one; every closed chunk spans less than `cd` plus one sample -/
structure Inv2 (cd M : Nat) (s : St) : Prop where
  start_ge : cd * (s.nr - 1) ≤ s.total - s.curDur
  le_total : s.curDur ≤ s.total
  nr_pos : 1 ≤ s.nr
  open_lt : s.curN > 0 → s.total < cd * s.nr
  span : ∀ c ∈ s.done, c.real < cd + M

theorem inv2_step (cd M : Nat) (s : St) (d : Nat) (hd : 0 < d) (hM : d ≤ M) (hcd : 0 < cd)
    (hcur : s.curN = 0 → s.curDur = 0) (h : Inv2 cd M s) : Inv2 cd M (stepSample cd s d) := by
  unfold stepSample
  simp only
  have hnr := h.nr_pos
  have hmul : cd * s.nr = cd * (s.nr - 1) + cd := by
    rw [← Nat.mul_succ]; congr 1; omega
  by_cases hc : s.total + d ≥ cd * s.nr
  · rw [if_pos hc]
    refine ⟨?_, ?_, by simp, ?_, ?_⟩
    · simp only [Nat.add_sub_cancel, Nat.sub_zero]; omega
    · simp
    · intro hp; simp at hp
    · intro c hcm
      rcases List.mem_append.mp hcm with hcm | hcm
      · exact h.span c hcm
      · simp at hcm; subst hcm
        simp only
        by_cases hz : s.curN = 0
        · have := hcur hz; omega
        · have h1 := h.open_lt (by omega)
          have h2 := h.start_ge
          have h3 := h.le_total
          omega
  · rw [if_neg hc]
    refine ⟨?_, ?_, h.nr_pos, ?_, h.span⟩
    · simp only; have := h.start_ge; have := h.le_total; omega
    · simp only; have := h.le_total; omega
    · intro _; simp only; omega

/-- **No chunk spans more media time than the chunk duration plus one sample** (`M` bounds the sample durations). -/
theorem c09_span_bound (durs : List Nat) (cd M : Nat) (hcd : 0 < cd) (hpos : ∀ d ∈ durs, 0 < d) (hM : ∀ d ∈ durs, d ≤ M) :
    ∀ c ∈ chunkSegment durs cd, c.real < cd + M := by
  have key : ∀ (ds seen : List Nat) (s : St), Inv cd seen s → Inv2 cd M s → (∀ d ∈ ds, 0 < d) → (∀ d ∈ ds, d ≤ M) →
      Inv2 cd M (ds.foldl (stepSample cd) s) ∧ Inv cd (seen ++ ds) (ds.foldl (stepSample cd) s) := by
    intro ds
    induction ds with
    | nil => intro seen s h1 h2 _ _; exact ⟨h2, by simpa using h1⟩
    | cons d t ih =>
      intro seen s h1 h2 hp hm
      simp only [List.foldl_cons]
      have hcur : s.curN = 0 → s.curDur = 0 := by
        intro hz
        by_cases hdz : s.curDur = 0
        · exact hdz
        · have := h1.open_pos (by omega); omega
      have s1 := inv_step cd seen s d (hp d (by simp)) h1
      have s2 := inv2_step cd M s d (hp d (by simp)) (hm d (by simp)) hcd hcur h2
      have := ih (seen ++ [d]) _ s1 s2 (fun x hx => hp x (by simp [hx])) (fun x hx => hm x (by simp [hx]))
      exact ⟨this.1, by simpa [List.append_assoc] using this.2⟩
  have init2 : Inv2 cd M { done := [], curN := 0, curDur := 0, total := 0, nr := 1 } :=
    ⟨by simp, by simp, by simp, by intro h; simp at h, by intro c hc; simp at hc⟩
  obtain ⟨i2, i1⟩ := key durs [] _ (inv_init cd) init2 hpos hM
  unfold chunkSegment
  simp only
  generalize durs.foldl (stepSample cd) { done := [], curN := 0, curDur := 0, total := 0, nr := 1 } = s at i1 i2
  intro c hc
  by_cases hp : s.curDur > 0
  · rw [if_pos hp] at hc
    rcases List.mem_append.mp hc with hc | hc
    · exact i2.span c hc
    · simp at hc; subst hc
      simp only
      have h1 := i2.open_lt (i1.open_pos hp)
      have h2 := i2.start_ge
      have h3 := i2.le_total
      have hnr := i2.nr_pos
      have hmul : cd * s.nr = cd * (s.nr - 1) + cd := by
        rw [← Nat.mul_succ]; congr 1; omega
      omega
  · rw [if_neg hp] at hc; exact i2.span c hc


/-- **… than the advertised availabilityTimeOffset leaves**: with the chunk duration derived from the offset
(`chunkDurTicks`, tied by the handler-level monitor on real chunked responses), every chunk lasts less than
`(segment duration − offset)` in ticks plus one sample. -/
theorem c09_span_vs_offset (durs : List Nat) (segDurMS atoMS T M : Nat) (hcd : 0 < chunkDurTicks segDurMS atoMS T)
    (hpos : ∀ d ∈ durs, 0 < d) (hM : ∀ d ∈ durs, d ≤ M) :
    ∀ c ∈ chunkSegment durs (chunkDurTicks segDurMS atoMS T), c.real * 1000 < (segDurMS - atoMS) * T + M * 1000 := by
  intro c hc
  have h := c09_span_bound durs _ M hcd hpos hM c hc
  have hd : chunkDurTicks segDurMS atoMS T * 1000 ≤ (segDurMS - atoMS) * T := by
    unfold chunkDurTicks; exact Nat.div_mul_le_self _ _
  omega

/-- every closed chunk advances the pacing clock by its real duration; only the tail chunk by `chunkDur` (late, never early) -/
theorem c09_dur_field (durs : List Nat) (cd : Nat) (hpos : ∀ d ∈ durs, 0 < d) :
    ∀ c ∈ (chunkSegment durs cd).dropLast, c.dur = c.real := by
  have inv := inv_fold cd [] durs _ hpos (inv_init cd)
  simp only [List.nil_append] at inv
  unfold chunkSegment
  simp only
  generalize durs.foldl (stepSample cd) { done := [], curN := 0, curDur := 0, total := 0, nr := 1 } = s at inv
  intro c hc
  by_cases hp : s.curDur > 0
  · rw [if_pos hp] at hc
    rw [List.dropLast_concat] at hc
    exact inv.closed c hc
  · rw [if_neg hp] at hc
    exact inv.closed c (List.dropLast_subset _ hc)

/-- pointwise `≤` of two lists of the same length -/
def AllLe : List Nat → List Nat → Prop
  | [], [] => True
  | e :: es, w :: ws => e ≤ w ∧ AllLe es ws
  | _, _ => False

/-- **Never early**: whatever the clock readings, every chunk is written at a simulated instant that is not before
its availability instant (a sleep returns after at least the requested time). -/
theorem c09_not_early (now : Nat) (ends clk slack : List Nat) : AllLe ends (pace now ends clk slack) := by
  induction ends generalizing clk slack with
  | nil => exact trivial
  | cons e t ih =>
    unfold pace
    by_cases h1 : e < now
    · rw [if_pos h1]; exact ⟨by omega, ih clk slack⟩
    · rw [if_neg h1]
      simp only
      by_cases h2 : e < now + clk.headD 0
      · rw [if_pos h2]; exact ⟨by omega, ih _ _⟩
      · rw [if_neg h2]; exact ⟨by omega, ih _ _⟩

/-- non-vacuity: 60 samples of 3600 ticks (2 s at 90 kHz), chunk duration 0.5 s = 45000 ticks:
chunks of 13,12,13,12 samples …; AAC frames of 1024 ticks with chunk duration 2400: spans 3072,2048,… -/
example : (chunkSegment (List.replicate 10 1024) 2400).map (fun c => (c.n, c.dur)) = [(3, 3072), (2, 2048), (3, 3072), (2, 2048)] := by
  decide

example : (chunkSegment (List.replicate 5 1024) 2400).map (fun c => (c.n, c.dur, c.real)) = [(3, 3072, 3072), (2, 2048, 2048)] := by decide
example : (chunkSegment (List.replicate 4 1024) 2400).map (fun c => (c.n, c.dur, c.real)) = [(3, 3072, 3072), (1, 2400, 1024)] := by decide

end Chunk
