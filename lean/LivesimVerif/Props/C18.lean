import LivesimVerif.Lemmas.ChunkParser
/-!
# C18 — Chunk parser output does not depend on how the bytes arrive

Property theorems only (helper lemmas live in `Lemmas/ChunkParser.lean`).  The model is
`CP.parse` (`Model/ChunkParser.lean`), tied to `pkg/chunkparser` by the correspondence op `parse`.
Every theorem quantifies over every input byte string, every read schedule (`sched`, `eofWithData`),
every error-injection point and every fuel.
-/
namespace CP

/-- Whatever the partition of the stream into reads: if `Parse` returns nil, the data passed to the
callbacks, concatenated in order, equals the input (every byte once, in order). -/
theorem c18_concat (fuel : Nat) (input : List Byte) (sched : List Nat) (e : Bool) (fr fc : Option Nat)
    (cbs : List Cb) (hd : parse fuel (init input sched e fr fc) = .done cbs) : data cbs = input :=
  (parse_bytes fuel input _ (inv_init input sched e fr fc)).2 cbs hd

/-- On every other outcome (read error, callback error, refused box size) the callbacks made so far
carry a prefix of the input: nothing is invented, duplicated or reordered. -/
theorem c18_prefix (fuel : Nat) (input : List Byte) (sched : List Nat) (e : Bool) (fr fc : Option Nat) :
    ∃ t, data (parse fuel (init input sched e fr fc)).cbs ++ t = input :=
  (parse_bytes fuel input _ (inv_init input sched e fr fc)).1

/-- Parsing terminates for every input (truncated streams, impossible sizes), every schedule and every
error injection: `input.length / 8 + 2` rounds always suffice. -/
theorem c18_terminates (input : List Byte) (sched : List Nat) (e : Bool) (fr fc : Option Nat) :
    ∀ s, run input sched e fr fc ≠ .outOfFuel s :=
  run_terminates input sched e fr fc

/-- non-vacuity: a stream of init + two chunks + trailing bytes, fed 3 bytes at a time, ends with `done`
and three callbacks (after each mdat, and the trailing bytes). -/
def sample : List Byte :=
  box moovTag [1,2,3] ++ box [109,111,111,102] [4,5] ++ box mdatTag [6,7,8,9] ++
  box [109,111,111,102] [10] ++ box mdatTag [11,12] ++ [0,0]

example : (run sample (List.replicate 40 3) false none none).cbs.map (fun c => (c.start, c.isInit, c.data.length))
    = [(0, true, 33), (33, true, 19), (52, true, 2)] := by decide

example : (run sample [1,2,3,4,5] true none none).kind = 0 := by decide

/-- a size-0 box is refused (before the `fix:` commit the implementation looped forever here) -/
example : (run ([0,0,0,0] ++ [102,114,101,101] ++ [1,2,3]) [] false none none).kind = 3 := by decide

end CP
