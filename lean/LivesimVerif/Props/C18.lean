import LivesimVerif.Lemmas.ChunkParser
import LivesimVerif.Lemmas.ChunkSpec
/-!
# C18 — Chunk parser output does not depend on how the bytes arrive

Property theorems only (helper lemmas live in `Lemmas/ChunkParser.lean`).  The model is
`CP.parse` (`Model/ChunkParser.lean`), tied to `pkg/chunkparser` by the correspondence op `parse`.
Every theorem quantifies over every input byte string, every read schedule (`sched`, `eofWithData`),
every error-injection point and every fuel.
-/
namespace CP

/-- Whatever the partition of the stream into reads: if `Parse` returns nil, the data passed to the
callbacks, concatenated in order, equals the input (every byte once, in order). -/
theorem c18_concat (fuel : Nat) (input : List Byte) (sched : List Nat) (e : Bool) (fr fc : Option Nat)
    (cbs : List Cb) (hd : parse fuel (init input sched e fr fc) = .done cbs) : data cbs = input :=
  (parse_bytes fuel input _ (inv_init input sched e fr fc)).2 cbs hd

/-- On every other outcome (read error, callback error, refused box size) the callbacks made so far
carry a prefix of the input: nothing is invented, duplicated or reordered. -/
theorem c18_prefix (fuel : Nat) (input : List Byte) (sched : List Nat) (e : Bool) (fr fc : Option Nat) :
    ∃ t, data (parse fuel (init input sched e fr fc)).cbs ++ t = input :=
  (parse_bytes fuel input _ (inv_init input sched e fr fc)).1

/-- Parsing terminates for every input (truncated streams, impossible sizes), every schedule and every
error injection: `input.length / 8 + 2` rounds always suffice. -/
theorem c18_terminates (input : List Byte) (sched : List Nat) (e : Bool) (fr fc : Option Nat) :
    ∀ s, run input sched e fr fc ≠ .outOfFuel s :=
  run_terminates input sched e fr fc

/-- **The parser is a function of the byte string alone.**  Without injected errors, for every input, every read
schedule and both ways of signalling end of input, `Parse` makes exactly the callbacks of the schedule-free
specification `spec` (`Lemmas/ChunkSpec.lean`): one when a media-data box is complete, carrying everything since the
previous callback; one at the end for what is left (trailing bytes, a truncated box); the init flag from the first movie
box on; and it stops with the "bad box size" error exactly where `spec` does. -/
theorem c18_spec (input : List Byte) (sched : List Nat) (e : Bool) :
    (run input sched e none none).toS = spec input := by
  unfold run spec
  exact parse_eq_spec (fuelFor input) (init input sched e none none) ⟨rfl, rfl, rfl, rfl⟩

/-- **Schedule independence**: two ways of splitting the same stream into reads give the same callbacks and the same
outcome. -/
theorem c18_sched_indep (input : List Byte) (s1 s2 : List Nat) (e1 e2 : Bool) :
    (run input s1 e1 none none).toS = (run input s2 e2 none none).toS := by
  rw [c18_spec, c18_spec]

/-- non-vacuity: a stream of init + two chunks + trailing bytes, fed 3 bytes at a time, ends with `done`
and three callbacks (after each mdat, and the trailing bytes). -/
def sample : List Byte :=
  box moovTag [1,2,3] ++ box [109,111,111,102] [4,5] ++ box mdatTag [6,7,8,9] ++
  box [109,111,111,102] [10] ++ box mdatTag [11,12] ++ [0,0]

example : (run sample (List.replicate 40 3) false none none).cbs.map (fun c => (c.start, c.isInit, c.data.length))
    = [(0, true, 33), (33, true, 19), (52, true, 2)] := by decide

example : (run sample [1,2,3,4,5] true none none).kind = 0 := by decide

/-- a size-0 box is refused (before the `fix:` commit the implementation looped forever here) -/
example : (run ([0,0,0,0] ++ [102,114,101,101] ++ [1,2,3]) [] false none none).kind = 3 := by decide

/-- what `spec` says on a well-formed stream: init segment + two chunks + two trailing bytes -/
example : spec sample = .done [⟨0, true, sample.take 33⟩, ⟨33, true, (sample.drop 33).take 19⟩, ⟨52, true, sample.drop 52⟩] := by
  decide

/-- … and on a truncated media-data box: the incomplete box is delivered at the end, not earlier -/
example : spec (box moovTag [1] ++ (box mdatTag [2, 3, 4, 5]).take 10) =
    .done [⟨0, true, box moovTag [1] ++ (box mdatTag [2, 3, 4, 5]).take 10⟩] := by decide

end CP
