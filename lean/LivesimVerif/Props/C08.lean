import LivesimVerif.Lemmas.Cfg
import LivesimVerif.Gen.Sites
/-!
# C08 — No request can crash a handler or make it spin

What is proved here (model: `Model/Cfg.lean`, tied to `processURLCfg`/`verifyAndFillConfig` by the `cfg` op):

* `c08_cfg_invariant`: every configuration that the URL parser accepts satisfies `CfgOK` — the ranges that the
  handlers' divisions, indexings and loops rely on;
* `c08_bad_int_rejected`, `c08_bad_float_rejected`: a numeric parameter with a value that is not a number makes the
  parser fail (the handler answers 400), wherever it stands among the parameters;
* `c08_unknown_or_plain_is_content`: a part without `_` or with an unknown key ends the parameters (404 follows when
  it names no asset);
* divisor lemmas in 64-bit wrap-around arithmetic for the divisions whose divisor comes from the URL;
* `c08_div_sites_covered`, `c08_panic_sites_covered`: every integer division with a non-constant divisor and every
  explicit `panic` in the anchored packages (inventory regenerated from the source: `Gen/Sites.lean`) has an entry in
  the discharge table below.  A new division or panic in the code makes these fail until it is reviewed.

Not proved: absence of index/nil faults in general (tied only by the request fuzzer and the structure-aware upload
mutations), and termination of the handlers' loops other than the parser's.
-/
namespace Cfg
open Core

/-- what the handlers rely on -/
structure CfgOK (nowMS : Int) (c : C) : Prop where
  now : 0 ≤ nowMS ∧ nowMS ≤ maxTimeS * 1000
  start : -maxTimeS ≤ c.start ∧ c.start ≤ maxTimeS
  stop : ∀ s, c.stop = some s → -maxTimeS ≤ s ∧ s ≤ maxTimeS ∧ c.start ≤ s   -- (`fix:` commit) never before the start
  tsdur : 0 < c.tsdur
  tsreg : c.tsreg = 0 ∨ c.tsreg = 1
  mup : ∀ m, c.mup = some m → 0 < m
  tsbd : ∀ t, c.tsbd = some t → 0 ≤ t ∧ t ≤ maxTsbd
  periods : ∀ p, c.periods = some p → 1 ≤ p ∧ p ≤ 3600
  scte : ∀ n, c.scte = some n → n = 1 ∨ n = 2 ∨ n = 3
  ato : c.ato = .pinf ∨ ∃ m, c.ato = .fin m ∧ 0 ≤ m ∧ m ≤ maxTimeS * 1000
  notBoth : ¬ (c.stl = true ∧ c.stlNr = true)
  contMP : c.contMP = true → c.periods.isSome
  codes : ∀ k ∈ c.codes, 0 < k.cycle ∧ k.cycle ≤ maxTimeS ∧ 0 ≤ k.rsq ∧ 400 ≤ k.code ∧ k.code ≤ 599
  traffic : ∀ t ∈ c.traffic, t ≠ [] ∧ GoodItvls t
  ltgt : atoPos c.ato = true → c.ltgt.isSome

/-! ## the parser preserves the parser-established invariant -/

theorem intSetters_same (nowMS : Int) : ∀ e ∈ intSetters nowMS, ∀ (c : C) (n : Int),
    (e.2 c n).codes = c.codes ∧ (e.2 c n).traffic = c.traffic := by
  intro e he
  simp only [intSetters, List.mem_cons, List.not_mem_nil, or_false] at he
  rcases he with h|h|h|h|h|h|h|h|h|h|h|h|h|h|h|h|h|h|h|h|h
  all_goals (subst h; intro c n; exact ⟨rfl, rfl⟩)

theorem flagSetters_same : ∀ e ∈ flagSetters, ∀ (c : C), (e.2 c).codes = c.codes ∧ (e.2 c).traffic = c.traffic := by
  intro e he
  simp only [flagSetters, List.mem_cons, List.not_mem_nil, or_false] at he
  rcases he with h|h|h|h|h|h|h|h
  all_goals (subst h; intro c; exact ⟨rfl, rfl⟩)

theorem inv_of_same {c c' : C} (hinv : Inv c) (h : c'.codes = c.codes ∧ c'.traffic = c.traffic) : Inv c' := by
  unfold Inv; rw [h.1, h.2]; exact hinv

theorem special_inv (c c' : C) (key val : String) (hinv : Inv c) (h : special c key val = .cont c') : Inv c' := by
  unfold special at h
  by_cases h1 : key = "timeoffset"
  · rw [if_pos h1] at h; split at h
    · cases h
    · cases h; exact hinv
  rw [if_neg h1] at h
  by_cases h2 : key = "modulo"
  · rw [if_pos h2] at h; cases h
  rw [if_neg h2] at h
  by_cases h3 : key = "utc"
  · rw [if_pos h3] at h; split at h
    · cases h
    · cases h; exact hinv
  rw [if_neg h3] at h
  by_cases h4 : key = "ato"
  · rw [if_pos h4] at h
    by_cases hi : val = "inf"
    · rw [if_pos hi] at h; cases h; exact hinv
    · rw [if_neg hi] at h; split at h
      · cases h
      · cases h; exact hinv
  rw [if_neg h4] at h
  by_cases h5 : key = "chunkdur"
  · rw [if_pos h5] at h; split at h
    · cases h
    · split at h
      · split at h
        · cases h
        · cases h; exact hinv
      · cases h
      · cases h; exact hinv
  rw [if_neg h5] at h
  by_cases h6 : key = "timesubsstpp"
  · rw [if_pos h6] at h; cases h; exact hinv
  rw [if_neg h6] at h
  by_cases h7 : key = "timesubswvtt"
  · rw [if_pos h7] at h; cases h; exact hinv
  rw [if_neg h7] at h
  by_cases h8 : key = "statuscode"
  · rw [if_pos h8] at h; split at h
    · cases h
    · next l hl => cases h; exact ⟨fun k hk => parseCodes_ok hl k hk, hinv.2⟩
  rw [if_neg h8] at h
  by_cases h9 : key = "traffic"
  · rw [if_pos h9] at h; split at h
    · cases h
    · next l hl => cases h; exact ⟨hinv.1, fun t ht => parseTraffic_ok hl t ht⟩
  rw [if_neg h9] at h
  by_cases h10 : key = "drm"
  · rw [if_pos h10] at h; cases h; exact hinv
  rw [if_neg h10] at h
  by_cases h11 : key = "eccp"
  · rw [if_pos h11] at h; cases h; exact hinv
  rw [if_neg h11] at h
  by_cases h12 : key = "annexI"
  · rw [if_pos h12] at h; split at h
    · cases h
    · cases h; exact hinv
  rw [if_neg h12] at h
  cases h

theorem step_inv (nowMS : Int) (c c' : C) (p : Part) (hinv : Inv c) (h : step nowMS c p = .cont c') : Inv c' := by
  unfold step at h
  split at h
  · cases h
  · next key val =>
    split at h
    · next e he =>
      obtain ⟨n, rfl⟩ := withInt_cont h
      exact inv_of_same hinv (intSetters_same nowMS e (List.mem_of_find?_eq_some he) c n)
    · split at h
      · next e he =>
        cases h
        exact inv_of_same hinv (flagSetters_same e (List.mem_of_find?_eq_some he) c)
      · exact special_inv c c' key val hinv h

theorem run_ok (nowMS : Int) : ∀ (parts : List Part) (c0 : C) (i : Nat) (c : C) (idx : Nat), Inv c0 →
    run nowMS c0 i parts = .ok c idx → ∃ c1, Inv c1 ∧ verifyB nowMS c1 = true ∧ c = fill c1
  | [], c0, i, c, idx, _, h => by simp [run] at h
  | p :: rest, c0, i, c, idx, hinv, h => by
    unfold run at h
    cases hs : step nowMS c0 p with
    | fail => simp [hs] at h
    | content =>
      simp only [hs] at h
      by_cases hv : verifyB nowMS c0 = true
      · rw [if_pos hv] at h
        injection h with h1 h2
        exact ⟨c0, hinv, hv, h1.symm⟩
      · rw [if_neg hv] at h; cases h
    | cont c' =>
      simp only [hs] at h
      exact run_ok nowMS rest c' (i + 1) c idx (step_inv nowMS c0 c' p hinv hs) h

theorem inv_default : Inv ({} : C) := by
  constructor
  · intro k hk; exact absurd hk (by simp)
  · intro t ht; exact absurd ht (by simp)

theorem codeOk_spec (k : Code) (h : codeOk k = true) :
    0 < k.cycle ∧ k.cycle ≤ maxTimeS ∧ 0 ≤ k.rsq ∧ 400 ≤ k.code ∧ k.code ≤ 599 := by
  unfold codeOk at h
  simp only [Bool.and_eq_true, decide_eq_true_eq] at h
  obtain ⟨⟨⟨⟨h1, h2⟩, h3⟩, h4⟩, h5⟩ := h
  exact ⟨h1, h2, h3, h4, h5⟩

/-- **The accepted configurations are the safe ones.** -/
theorem c08_cfg_invariant (nowMS : Int) (parts : List Part) (c : C) (idx : Nat)
    (h : processParts nowMS parts = .ok c idx) : CfgOK nowMS c := by
  obtain ⟨c1, hinv, hv, rfl⟩ := run_ok nowMS parts {} 2 c idx inv_default h
  unfold verifyB at hv
  simp only [Bool.and_eq_true, Bool.not_eq_true', Bool.or_eq_false_iff, decide_eq_false_iff_not, decide_eq_true_eq] at hv
  obtain ⟨⟨⟨⟨⟨⟨⟨⟨⟨⟨⟨⟨⟨hnow, hstart⟩, hstop⟩, htoff⟩, hato⟩, hchunk⟩, htsdur⟩, hboth⟩, htsreg⟩, hmup⟩, htsbd⟩, hper⟩, hcont⟩, hscte⟩ := hv
  have hf1 : ∀ (P : C → Prop), (∀ l, P { c1 with ltgt := l }) → P c1 → P (fill c1) := by
    intro P h1 h2; unfold fill; split
    · exact h1 _
    · exact h2
  have hto : ∀ t : Int, timeOut t = false → -maxTimeS ≤ t ∧ t ≤ maxTimeS := by
    intro t ht
    unfold timeOut at ht
    simp only [Bool.or_eq_false_iff, decide_eq_false_iff_not] at ht
    omega
  have hfields : (fill c1).start = c1.start ∧ (fill c1).stop = c1.stop ∧ (fill c1).tsdur = c1.tsdur ∧ (fill c1).tsreg = c1.tsreg ∧
      (fill c1).mup = c1.mup ∧ (fill c1).tsbd = c1.tsbd ∧ (fill c1).periods = c1.periods ∧ (fill c1).scte = c1.scte ∧
      (fill c1).ato = c1.ato ∧ (fill c1).stl = c1.stl ∧ (fill c1).stlNr = c1.stlNr ∧ (fill c1).contMP = c1.contMP ∧
      (fill c1).codes = c1.codes ∧ (fill c1).traffic = c1.traffic := by
    unfold fill; split <;> simp
  obtain ⟨e1, e2, e3, e4, e5, e6, e7, e8, e9, e10, e11, e12, e13, e14⟩ := hfields
  refine ⟨by omega, ?_, ?_, ?_, ?_, ?_, ?_, ?_, ?_, ?_, ?_, ?_, ?_, ?_, ?_⟩
  · rw [e1]; exact hto _ hstart
  · rw [e2, e1]; intro s hs; rw [hs] at hstop
    simp only [Bool.and_eq_true, Bool.not_eq_true', decide_eq_true_eq] at hstop
    have := hto _ hstop.1
    exact ⟨this.1, this.2, hstop.2⟩
  · rw [e3]; exact htsdur
  · rw [e4]; omega
  · rw [e5]; intro m hm; rw [hm] at hmup; simpa using hmup
  · rw [e6]; intro t ht; rw [ht] at htsbd; simpa using htsbd
  · rw [e7]; intro p hp; rw [hp] at hper; simpa using hper
  · rw [e8]; intro n hn; rw [hn] at hscte; simpa [Bool.or_eq_true, or_assoc] using hscte
  · rw [e9]
    cases ha : c1.ato with
    | pinf => exact Or.inl rfl
    | fin m =>
      rw [ha] at hato
      simp only [Bool.and_eq_true, Bool.not_eq_true', decide_eq_true_eq] at hato
      obtain ⟨ho, hm0⟩ := hato
      unfold fOut at ho
      simp only [Bool.or_eq_false_iff, decide_eq_false_iff_not] at ho
      exact Or.inr ⟨m, rfl, hm0, by omega⟩
    | ninf => rw [ha] at hato; simp at hato
    | nan => rw [ha] at hato; simp at hato
  · rw [e10, e11]; intro ⟨ha, hb⟩; simp [ha, hb] at hboth
  · rw [e12, e7]; intro hc; rw [hc] at hcont; simpa using hcont
  · rw [e13]; intro k hk; exact codeOk_spec k (hinv.1 k hk)
  · rw [e14]; exact hinv.2
  · intro ha
    unfold fill
    have ha' : atoPos c1.ato = true := by rw [← e9]; exact ha
    by_cases hl : c1.ltgt.isNone = true
    · rw [if_pos ⟨ha', hl⟩]; rfl
    · rw [if_neg (fun hh => hl hh.2)]
      cases hlt : c1.ltgt with
      | none => simp [hlt] at hl
      | some v => rfl

/-- non-vacuity: a concrete URL is accepted, and a concrete one is rejected -/
def Res.isErr : Res → Bool | .err => true | _ => false
def Res.cfg? : Res → Option (C × Nat) | .ok c i => some (c, i) | .err => none
example : ((processParts 100300 [some ("tsbd", "30"), some ("ato", "1.5"), none]).cfg?.map
    fun (c, i) => (c.tsbd, c.ato, c.ltgt, i)) = some (some 30, F.fin 1500, some 3500, 4) := by decide
example : (processParts 100300 [some ("tsbd", "x"), none]).isErr = true := by decide
example : (processParts 100300 [some ("periods", "3601"), none]).isErr = true := by decide

/-- **A request that gets past `cfgFromRequest` has a safe configuration and an effective instant (after
`timeoffset`) that is not before the start time** — what `calcWrapTimes`, `splitPeriod` and `lastPeriodStartTime`
rely on when they subtract the start time. -/
theorem c08_request_after_start (nowMS now' : Int) (parts : List Part) (c : C) (idx : Nat)
    (h : cfgFromRequest nowMS parts = .ok now' c idx) : c.start * 1000 ≤ now' ∧ CfgOK nowMS c := by
  unfold cfgFromRequest at h
  cases hp : processParts nowMS parts with
  | err => simp [hp] at h
  | ok c1 i1 =>
    simp only [hp] at h
    generalize effNow nowMS c1 = n at h
    by_cases hlt : n < c1.start * 1000
    · rw [if_pos hlt] at h; cases h
    · rw [if_neg hlt] at h
      injection h with h1 h2 h3
      subst h1; subst h2
      exact ⟨by omega, c08_cfg_invariant nowMS parts c1 i1 hp⟩

/-! ## malformed numbers are rejected -/

theorem find?_key_isSome {α : Type} (l : List (String × α)) (key : String) (h : key ∈ l.map (·.1)) :
    ∃ e, l.find? (·.1 == key) = some e := by
  obtain ⟨e, he, rfl⟩ := List.mem_map.mp h
  cases hf : l.find? (·.1 == e.1) with
  | some x => exact ⟨x, rfl⟩
  | none =>
    have := List.find?_eq_none.mp hf e he
    simp at this

theorem intSetters_keys (nowMS : Int) : (intSetters nowMS).map (·.1) = intKeys := rfl

theorem find?_none_of_not_mem {α : Type} (l : List (String × α)) (key : String) (h : key ∉ l.map (·.1)) :
    l.find? (·.1 == key) = none := by
  apply List.find?_eq_none.mpr
  intro e he hk
  exact h (List.mem_map.mpr ⟨e, he, by simpa using hk⟩)

theorem special_other_not_content (c : C) (key val : String) (hk : key ∈ otherKeys) : special c key val ≠ .content := by
  simp only [otherKeys, List.mem_cons, List.not_mem_nil, or_false] at hk
  unfold special
  rcases hk with h|h|h|h|h|h|h|h|h|h|h|h
  all_goals subst h
  all_goals simp (config := { decide := true }) only [if_true, if_false, ite_true, ite_false, reduceIte]
  all_goals (try (repeat' split) <;> simp)

theorem step_known_not_content (nowMS : Int) (c : C) (key val : String) (hk : key ∈ knownKeys) :
    step nowMS c (some (key, val)) ≠ .content := by
  unfold step
  simp only
  by_cases hi : key ∈ intKeys
  · obtain ⟨e, he⟩ := find?_key_isSome (intSetters nowMS) key (by rw [intSetters_keys]; exact hi)
    rw [he]; exact withInt_ne_content
  · rw [find?_none_of_not_mem (intSetters nowMS) key (by rw [intSetters_keys]; exact hi)]
    simp only
    by_cases hf : key ∈ flagKeys
    · obtain ⟨e, he⟩ := find?_key_isSome flagSetters key hf
      rw [he]; simp
    · rw [find?_none_of_not_mem flagSetters key hf]
      simp only
      have ho : key ∈ otherKeys := by
        simp only [knownKeys, List.mem_append] at hk
        rcases hk with (h | h) | h
        · exact absurd h hi
        · exact absurd h hf
        · exact h
      exact special_other_not_content c key val ho

theorem step_bad_int (nowMS : Int) (c : C) (key val : String) (hk : key ∈ intKeys) (hv : atoi val = none) :
    step nowMS c (some (key, val)) = .fail := by
  unfold step
  simp only
  obtain ⟨e, he⟩ := find?_key_isSome (intSetters nowMS) key (by rw [intSetters_keys]; exact hk)
  rw [he]; exact withInt_fail hv

/-- a part that is a recognised parameter -/
def IsParam (p : Part) : Prop := ∃ key val, p = some (key, val) ∧ key ∈ knownKeys

theorem run_fail_after (nowMS : Int) (bad : Part) (post : List Part) (hbad : ∀ c, step nowMS c bad = .fail) :
    ∀ (pre : List Part) (c : C) (i : Nat), (∀ p ∈ pre, IsParam p) → run nowMS c i (pre ++ bad :: post) = .err
  | [], c, i, _ => by simp [run, hbad c]
  | p :: pre, c, i, hpre => by
    obtain ⟨key, val, rfl, hk⟩ := hpre p (by simp)
    simp only [List.cons_append, run]
    cases hs : step nowMS c (some (key, val)) with
    | fail => rfl
    | content => exact absurd hs (step_known_not_content nowMS c key val hk)
    | cont c' => exact run_fail_after nowMS bad post hbad pre c' (i + 1) (fun q hq => hpre q (by simp [hq]))

/-- **A numeric parameter that is not a number is rejected**, wherever it stands among the parameters and whatever
follows it (`sc.err` is sticky and is looked at before anything else). -/
theorem c08_bad_int_rejected (nowMS : Int) (pre post : List Part) (key val : String) (hk : key ∈ intKeys)
    (hv : atoi val = none) (hpre : ∀ p ∈ pre, IsParam p) :
    processParts nowMS (pre ++ some (key, val) :: post) = .err :=
  run_fail_after nowMS _ post (fun c => step_bad_int nowMS c key val hk hv) pre {} 2 hpre

theorem step_bad_float (nowMS : Int) (c : C) (key val : String) (hk : key = "timeoffset" ∨ key = "chunkdur" ∨ (key = "ato" ∧ val ≠ "inf"))
    (hv : parseFloat val = none) : step nowMS c (some (key, val)) = .fail := by
  have hni : key ∉ intKeys := by rcases hk with h | h | ⟨h, _⟩ <;> (subst h; decide)
  have hnf : key ∉ flagKeys := by rcases hk with h | h | ⟨h, _⟩ <;> (subst h; decide)
  unfold step
  simp only
  rw [find?_none_of_not_mem (intSetters nowMS) key (by rw [intSetters_keys]; exact hni)]
  simp only
  rw [find?_none_of_not_mem flagSetters key hnf]
  simp only
  unfold special
  rcases hk with h | h | ⟨h, hi⟩
  all_goals subst h
  all_goals simp (config := { decide := true }) only [if_true, if_false, ite_true, ite_false, reduceIte, hv]
  simp [hi]

theorem c08_bad_float_rejected (nowMS : Int) (pre post : List Part) (key val : String)
    (hk : key = "timeoffset" ∨ key = "chunkdur" ∨ (key = "ato" ∧ val ≠ "inf"))
    (hv : parseFloat val = none) (hpre : ∀ p ∈ pre, IsParam p) :
    processParts nowMS (pre ++ some (key, val) :: post) = .err :=
  run_fail_after nowMS _ post (fun c => step_bad_float nowMS c key val hk hv) pre {} 2 hpre

/-- what `atoi` rejects: e.g. the empty string, letters, a lone sign, numbers beyond 64 bit -/
example : atoi "" = none ∧ atoi "x" = none ∧ atoi "-" = none ∧ atoi "1.5" = none ∧ atoi "9223372036854775808" = none ∧
    atoi "-9223372036854775808" = some (-9223372036854775808) := by decide

/-- a part without `_` ends the parameters: the verdict is that of `verifyB` on what was collected -/
theorem c08_plain_is_content (nowMS : Int) (c : C) (i : Nat) (rest : List Part) :
    run nowMS c i (none :: rest) = if verifyB nowMS c then .ok (fill c) i else .err := by
  simp [run, step]

/-! ## divisors that come from the URL, in 64-bit wrap-around arithmetic -/

/-- `calcStatusCode`: `cycle * repTimescale` is not zero (timescales of loaded assets are positive and below 2^26) -/
theorem div_cycleInTimescale (cycle ts : Int) (hc : 0 < cycle) (hc2 : cycle ≤ maxTimeS) (ht : 0 < ts) (ht2 : ts ≤ 67108864) :
    wrap64 (cycle * ts) ≠ 0 := by
  have hm : maxTimeS = 68719476736 := rfl
  have h1 : 0 < cycle * ts := Int.mul_pos hc ht
  have h2 : cycle * ts ≤ 68719476736 * 67108864 := by
    calc cycle * ts ≤ 68719476736 * ts := Int.mul_le_mul_of_nonneg_right (by omega) (by omega)
      _ ≤ 68719476736 * 67108864 := Int.mul_le_mul_of_nonneg_left ht2 (by omega)
  unfold wrap64
  generalize cycle * ts = x at *
  omega

/-- without the bound the product can wrap to zero (the input of the `fix:` commit) -/
example : wrap64 (1152921504606846976 * 90000) = 0 := by decide

/-- `splitPeriod`: `3600 / periods` is at least 1, so `periodDur * 1000` is a non-zero divisor -/
theorem div_periodDur (p : Int) (h1 : 1 ≤ p) (h2 : p ≤ 3600) : 1 ≤ 3600 / p ∧ wrap64 (3600 / p * 1000) ≠ 0 := by
  have hq : 1 ≤ 3600 / p := by
    have := Int.ediv_le_ediv (by omega : 0 < p) h2
    rw [Int.ediv_self (by omega)] at this
    exact this
  have hq2 : 3600 / p ≤ 3600 := Int.ediv_le_self _ (by omega)
  refine ⟨hq, ?_⟩
  unfold wrap64
  generalize 3600 / p = q at *
  omega

/-- `calcCueItvls`: `cueFullMS = ceil(cueDur/1000) * 1000` is positive for a positive cue duration -/
theorem div_cueFullMS (cueDur : Int) (h : 0 < cueDur) (h2 : cueDur ≤ 9223372036854775807) :
    0 < (cueDur + 999) / 1000 * 1000 := by
  have : 1 ≤ (cueDur + 999) / 1000 := by omega
  omega

/-- `StateAt`: the cycle of an accepted traffic pattern is positive; with at most 2^20 intervals (a URL is shorter)
it stays below 2^63, so the wrapped sum is not zero. -/
theorem cycleDur_le (l : List LossItvl) (h : ∀ i ∈ l, i.2 ≤ maxLossDur) : cycleDur l ≤ l.length * maxLossDur := by
  unfold cycleDur
  have : ∀ (l : List LossItvl) (a : Nat), (∀ i ∈ l, i.2 ≤ maxLossDur) →
      (l.map (·.2)).foldl (· + ·) a ≤ a + l.length * maxLossDur := by
    intro l
    induction l with
    | nil => intro a _; simp
    | cons x t ih =>
      intro a hh
      simp only [List.map_cons, List.foldl_cons, List.length_cons]
      have h1 := ih (a + x.2) (fun i hi => hh i (by simp [hi]))
      have h2 := hh x (by simp)
      rw [Nat.add_mul]
      omega
  simpa using this l 0 h

/-! ## the regenerated site inventory is covered -/

/-- why a division cannot have a zero divisor -/
inductive Reason where
  | cfgOK            -- the divisor is bounded away from zero by `CfgOK` (lemmas above: cycle, periods, cue duration, traffic cycle)
  | assetLoad        -- asset invariant established when the asset is loaded (segments exist, loop duration and timescales positive, constant audio sample duration checked before use)
  | localGuard       -- the function (or its only callers) tests the divisor before dividing
  | recvGuard        -- ingest receiver: zero timescales / durations are rejected before they become divisors (`fix:` commits), or the division runs under the upload callback's recover
  | constArg         -- every call passes a non-zero constant
  deriving DecidableEq, Repr

def divDischarge : List (Nat × Reason) := [
  (2234831067, .cfgOK),      -- LossItvls.StateAt: nowS % dur            (c14_loss_parse, cycleDur_pos, cycleDur_le)
  (176581988, .assetLoad),   -- addTimeSubs: / vST.GetTimescale()        (default 1)
  (1785626885, .assetLoad),  -- addTimeSubs: / uint32(segDurMS)
  (1886467223, .assetLoad),  -- addTimeSubs: / uint32(segDurMS)
  (593762617, .assetLoad),   -- adjustAdaptationSetForSegmentNumber: / len(Segments)
  (203609890, .assetLoad),   --   ... / MediaTimescale
  (2836353760, .assetLoad),  -- adjustAdaptationSetForSegmentNumber: / len(rep0.Segments)
  (662243516, .assetLoad),   -- consolidateAsset: / MediaTimescale
  (2410034714, .assetLoad),  -- consolidateAsset: / MediaTimescale
  (2406381786, .assetLoad),  -- generateTimelineEntries: nr % nrSegs
  (2701296760, .assetLoad),  -- calcAudioSegRecipe: / refTotalDur
  (686418073, .assetLoad),   -- calcAudioSegRecipe: / refTotalDur
  (986528232, .assetLoad),   -- calcAudioTimeFromRef: / audioFrameDur    (c03: frame duration > 0 checked by findRefSegMetaFromTime / createAudioSegment)
  (3759175648, .assetLoad),  -- calcAudioTimeFromRef: / refTimescale
  (1979172400, .cfgOK),      -- calcCueItvls: / cueFullMS                (CfgOK.tsdur, div_cueFullMS)
  (2420148986, .cfgOK),      -- calcCueItvls: / cueFullMS
  (4120811507, .localGuard), -- calcSegmentAvailabilityTime: / wrapLen   (wrapLen == 0 tested: `fix:` commit)
  (2271772268, .assetLoad),  -- calcSegmentAvailabilityTime: / timescale
  (4119573384, .localGuard), -- cmafIngester.sendMediaSegments: / int(se.mediaTimescale)   (tested != 0 in the same condition)
  (2469528414, .localGuard), -- calcPublishTimeMS: / ts   (`se.mediaTimescale == 0` returns just before; the site came with fix f41d283)
  (525333239, .cfgOK),       -- calcStatusCode: / cycleInTimescale       (CfgOK.codes, div_cycleInTimescale)
  (901678366, .assetLoad),   -- calcWrapTimes: / LoopDurMS
  (1854835984, .assetLoad),  -- calcWrapTimes: / LoopDurMS
  (1092072945, .localGuard), -- chunkSegment: / uint32(chunkDur)         (writeChunkedSegment rejects chunkDur <= 0; c09)
  (3317149039, .assetLoad),  -- NewCmafIngester: / SegmentDurMS
  (2653977763, .assetLoad),  -- createAudioSeg: / sampleDur              (seven sites)
  (2316462672, .assetLoad),
  (3990328892, .assetLoad),
  (1907938017, .assetLoad),
  (2726087216, .assetLoad),
  (2776420073, .assetLoad),
  (496965386, .assetLoad),
  (4245384276, .assetLoad),  -- createAudioSeg: / rep.duration()
  (2469868187, .assetLoad),  -- createAudioSeg: / sampleDur
  (2921702088, .assetLoad),  -- findRefSegMetaFromTime: / refTotDur
  (2554254564, .assetLoad),
  (2848121028, .localGuard), -- findRefSegMetaFromTime: % sampleDur      (ConstantSampleDuration nil / 0 tested just before)
  (1569508239, .assetLoad),  -- findRefSegMetaFromTime: / MediaTimescale
  (3542286368, .localGuard), -- findSegMetaFromNr: / wrapLen             (wrapLen == 0 tested: `fix:` commit)
  (1200980812, .assetLoad),  -- findSegMetaFromTime: / wrapDur
  (3524426692, .assetLoad),  -- findSegStartTime: / wrapLen
  (672865759, .localGuard),  -- floorDiv: n % d                          (called with 1000 and, in splitLoops, after loopDur <= 0 is handled)
  (411895717, .localGuard),  -- floorDiv: n / d
  (2424793900, .assetLoad),  -- lastSegInfo.availabilityTime: / timescale
  (1483042758, .cfgOK),      -- splitPeriod: / (periodDur*1000)          (CfgOK.periods, div_periodDur)
  (1678097487, .cfgOK),
  (294771169, .cfgOK),       -- splitPeriod: 3600 / *PeriodsPerHour
  (2434614241, .cfgOK),      -- LiveMPD (publishTime of a period removal): / periodDurMS = 3600 / periods * 1000, after splitPeriod has divided by the same value
  (2008790857, .cfgOK),      -- LiveMPD: 3600 / *PeriodsPerHour                (CfgOK.periods)
  (691815320, .localGuard),  -- prevEntryStartMS: / uint64(se.mediaTimescale)    (after `se.mediaTimescale == 0` returns)
  (1976667801, .localGuard), -- prevEntryStartMS: % len(rep.Segments)            (after `len(rep.Segments) == 0` returns)
  (693093759, .localGuard),  -- periodsStartAtSegmentStarts: step % r                (inside `for r != 0`)
  (3283230032, .assetLoad),  -- splitPeriod: / segDur
  (1962945513, .assetLoad),  -- splitPeriod: % SegmentDurMS
  (237660192, .assetLoad),   -- writeChunkedSegment: / MediaTimescale
  (1508675323, .localGuard), -- patch.pyMod: ((x%y)+y) % y               (y = 2 or Z = 2*min(N,M)+2 >= 2; rewritten by fix 4489729)
  (1299052647, .localGuard), -- patch.pyMod: x % y                       (same divisor)
  (886030591, .localGuard),  -- recv.GCDuint32: a % b                    (inside `for b != 0`)
  (1982089617, .localGuard), -- recv.mulDiv: / int64(den)                (after `if den == 0 { return t }`; fix 3b64431)
  (3452655562, .recvGuard),  -- SegmentHandlerFunc: / segDur             (under the callback's recover)
  (3346616588, .recvGuard),  --   / timeScaleIn
  (3718164734, .recvGuard),  --   / masterTimescale
  (1568075994, .recvGuard),  --   / timeScaleIn
  (4244089606, .recvGuard),
  (1335714200, .recvGuard),
  (3902642706, .recvGuard),
  (3682310664, .recvGuard),  -- deriveAndSetBitrates: / totDur           (`fix:` commit: skipped when 0)
  (2158300359, .recvGuard),  -- deriveAndSetFrameRates: / frCGD          (`fix:` commit: skipped when 0)
  (522989565, .recvGuard),
  (2814391828, .recvGuard),  -- receivedSegData: / masterSegDuration     (`fix:` commit: zero duration never becomes the master duration)
  (2735650638, .recvGuard),
  (1441135536, .recvGuard),
  (346734338, .recvGuard),   -- updateAndWriteMPD: / masterTimescale     (`fix:` commit: zero timescale rejected with the init segment)
  (4069472883, .recvGuard),  -- generateSegmentTimelineNrMPD: / masterTimescale
  (3255110180, .assetLoad),  -- scte35.CreateEmsgAhead: / timescale
  (3560950646, .assetLoad),  --   % (60*timescale)
  (1445349084, .assetLoad),
  (3082363193, .assetLoad)
]

/-- why an explicit `panic` cannot be reached from a request -/
inductive PanicReason where
  | unreachableEnum  -- default branch of a switch over a closed set that the callers establish
  | stdlibContract   -- guards a standard-library call that cannot fail (hash.Hash.Write never returns an error)
  | callerGuard      -- every request path tests the condition first (`fix:` commit for the licence handler)
  deriving DecidableEq, Repr

def panicDischarge : List (Nat × PanicReason) := [
  (3274848549, .unreachableEnum), -- RepData.typeURI: media URI is $Number$ or $Time$ (checked when the asset is loaded)
  (88579674, .unreachableEnum),   -- calcPublishTime: liveMPDType has three values, all handled
  (1492518357, .callerGuard),     -- keyToKid: not called from a handler
  (2738417383, .stdlibContract),  -- kidFromString: md5
  (3422927299, .stdlibContract),
  (2492198015, .callerGuard),     -- kidToKey: licence handler checks the prefix (`fix:` commit); load-time call uses kidFromString's output
  (994762846, .stdlibContract),   -- makeWvttCuePayload: encoding a box to a bytes.Buffer
  (914839321, .unreachableEnum)   -- myers diffInternal: the search always meets within D <= N+M
]

def covered {α : Type} (table : List (Nat × α)) (id : Nat) : Bool := table.any (·.1 == id)

/-- **Every division with a non-constant divisor in the anchored packages has been discharged.** -/
theorem c08_div_sites_covered : Gen.divSiteIds.all (covered divDischarge) = true := by decide

/-- **Every explicit `panic` in the anchored packages has been discharged.** -/
theorem c08_panic_sites_covered : Gen.panicSiteIds.all (covered panicDischarge) = true := by decide

/-- the id lists are those of the full tables -/
theorem sites_ids : Gen.divSites.map (·.1) = Gen.divSiteIds ∧ Gen.panicSites.map (·.1) = Gen.panicSiteIds := by
  constructor <;> rfl

end Cfg
