import LivesimVerif.Model.Audio
import LivesimVerif.Lemmas.Trans
import LivesimVerif.Lemmas.AudioFrames
import LivesimVerif.Props.C01
import LivesimVerif.Props.C02
/-!
# C03 — Audio is re-segmented to follow video boundaries without loss or duplication

`audioTimeFromRef` (= `calcAudioTimeFromRef`) maps a video boundary to the audio grid.  Theorems: it is the *least*
frame boundary at or after the video instant (hence < one frame late), monotone, and consecutive audio segments abut
because they are cut at the images of the same video boundaries (`c01_gap_free`).  Which VoD frames fill a segment
(`createAudioSeg`) is modelled (`Model/Audio.lean`) and tied by the `seg` op with per-frame identity on generated
assets; its frame-level theorem is not proved (partial).
-/
namespace Core

/-- `⌊x/fd⌋·fd` facts with products as atoms -/
theorem floor_grid (q fd : Nat) (hf : 0 < fd) : q / fd * fd ≤ q ∧ q < q / fd * fd + fd ∧ fd ∣ q / fd * fd :=
  ⟨Nat.div_mul_le_self q fd, Nat.lt_div_mul_add hf, ⟨q / fd, Nat.mul_comm _ _⟩⟩

/-- **First frame boundary at or after**: the result is a multiple of the frame duration, not before the video
instant, and the previous frame boundary is before it. -/
theorem c03_ceil (r refT fd audT : Nat) (hT : 0 < refT) (hf : 0 < fd) :
    fd ∣ audioTimeFromRef r refT fd audT ∧ r * audT ≤ audioTimeFromRef r refT fd audT * refT ∧
    (fd ≤ audioTimeFromRef r refT fd audT → (audioTimeFromRef r refT fd audT - fd) * refT < r * audT) := by
  unfold audioTimeFromRef
  generalize hX : r * audT = X
  have hq1 : X / refT * refT ≤ X := Nat.div_mul_le_self _ _
  have hq2 : X < X / refT * refT + refT := Nat.lt_div_mul_add hT
  generalize hq : X / refT = q at hq1 hq2
  obtain ⟨g1, g2, g3⟩ := floor_grid q fd hf
  generalize ht : q / fd * fd = t at g1 g2 g3
  simp only
  by_cases hlt : t * refT < X
  · rw [if_pos hlt]
    refine ⟨(Nat.dvd_add_right g3).mpr (Nat.dvd_refl fd), ?_, ?_⟩
    · -- t + fd ≥ q + 1 ⇒ (t+fd)·refT ≥ (q+1)·refT > X
      have h1 : (q + 1) * refT ≤ (t + fd) * refT := Nat.mul_le_mul_right _ (by omega)
      rw [Nat.add_mul, Nat.one_mul] at h1
      omega
    · intro _
      rw [Nat.add_sub_cancel]; exact hlt
  · rw [if_neg hlt]
    refine ⟨g3, by omega, ?_⟩
    intro hle
    have h1 : (t - fd) * refT + fd * refT = t * refT := by
      rw [← Nat.add_mul]; congr 1; omega
    have h2 : 0 < fd * refT := Nat.mul_pos hf hT
    have h3 : t * refT ≤ q * refT := Nat.mul_le_mul_right _ g1
    omega

/-- **Less than one frame late**: `0 ≤ audio·refT − video·audT < frame·refT` (cross-multiplied). -/
theorem c03_late_lt_frame (r refT fd audT : Nat) (hT : 0 < refT) (hf : 0 < fd) :
    r * audT ≤ audioTimeFromRef r refT fd audT * refT ∧
    audioTimeFromRef r refT fd audT * refT < r * audT + fd * refT := by
  obtain ⟨_, h2, h3⟩ := c03_ceil r refT fd audT hT hf
  refine ⟨h2, ?_⟩
  by_cases hle : fd ≤ audioTimeFromRef r refT fd audT
  · have := h3 hle
    have h1 : (audioTimeFromRef r refT fd audT - fd) * refT + fd * refT = audioTimeFromRef r refT fd audT * refT := by
      rw [← Nat.add_mul]; congr 1; omega
    omega
  · have : audioTimeFromRef r refT fd audT * refT < fd * refT := Nat.mul_lt_mul_of_pos_right (by omega) hT
    omega

/-- **Least**: no earlier frame boundary is at or after the video instant. -/
theorem c03_least (r refT fd audT m : Nat) (hT : 0 < refT) (hf : 0 < fd) (hd : fd ∣ m) (hm : r * audT ≤ m * refT) :
    audioTimeFromRef r refT fd audT ≤ m := by
  obtain ⟨hdiv, _, h3⟩ := c03_ceil r refT fd audT hT hf
  rcases Nat.lt_or_ge m (audioTimeFromRef r refT fd audT) with hlt | hge
  · -- m < A, both multiples of fd ⇒ m ≤ A − fd ⇒ m·refT ≤ (A−fd)·refT < r·audT
    obtain ⟨a, ha⟩ := hdiv
    obtain ⟨b, hb⟩ := hd
    have hab : b < a := by
      rw [ha, hb] at hlt
      exact Nat.lt_of_mul_lt_mul_left hlt
    have hA : fd ≤ audioTimeFromRef r refT fd audT := by
      rw [ha]; exact Nat.le_mul_of_pos_right fd (by omega)
    have hle : m ≤ audioTimeFromRef r refT fd audT - fd := by
      rw [ha, hb]
      have : fd * b + fd ≤ fd * a := by
        rw [← Nat.mul_succ]; exact Nat.mul_le_mul_left fd hab
      omega
    have := h3 hA
    have h4 : m * refT ≤ (audioTimeFromRef r refT fd audT - fd) * refT := Nat.mul_le_mul_right _ hle
    omega
  · exact hge

/-- Monotone: a later video boundary never maps to an earlier audio boundary. -/
theorem c03_monotone (r₁ r₂ refT fd audT : Nat) (hT : 0 < refT) (hf : 0 < fd) (h : r₁ ≤ r₂) :
    audioTimeFromRef r₁ refT fd audT ≤ audioTimeFromRef r₂ refT fd audT := by
  obtain ⟨hd, hm, _⟩ := c03_ceil r₂ refT fd audT hT hf
  exact c03_least r₁ refT fd audT _ hT hf hd (Nat.le_trans (Nat.mul_le_mul_right _ h) hm)

/-- **Consecutive audio segments abut exactly**, also across every loop wrap: audio segment k ends at the image of
the end of video segment k, which is the start of video segment k+1, whose image is the start of audio segment k+1. -/
theorem c03_abut (a : Asset) (ref : Rep) (h : Contig ref) (hc : Closes a ref) (fd audT k : Nat) :
    audioTimeFromRef (E a ref k) ref.T fd audT = audioTimeFromRef (S a ref (k + 1)) ref.T fd audT := by
  rw [c01_gap_free a ref h hc k]

/-- The number of frames is `(end − start)/frameDuration` exactly: both ends are frame boundaries. -/
theorem c03_count (r₁ r₂ refT fd audT : Nat) (hT : 0 < refT) (hf : 0 < fd) :
    fd ∣ audioTimeFromRef r₂ refT fd audT - audioTimeFromRef r₁ refT fd audT :=
  Nat.dvd_sub (c03_ceil r₂ refT fd audT hT hf).1 (c03_ceil r₁ refT fd audT hT hf).1


/-- **The recipe accounts for the whole segment**: the part taken inside the loop plus the part after the wrap is
exactly the segment's duration `stop − start` (so that `(end − start)/frameDuration` frames are requested, no more, no
less), and the part inside the loop starts at the segment's offset from the loop start. -/
theorem c03_recipe_total (refNr refStart refEnd refTotalDur refT : Nat) (r : Rep) (hT : 0 < refT)
    (hf : 0 < r.constSampleDur) (hse : refStart ≤ refEnd) (hD : 0 < refTotalDur) :
    (audioRecipe refNr refStart refEnd refTotalDur refT r).inEnd - (audioRecipe refNr refStart refEnd refTotalDur refT r).inStart
        + (audioRecipe refNr refStart refEnd refTotalDur refT r).inEndAfterWrap
      = (audioRecipe refNr refStart refEnd refTotalDur refT r).stop - (audioRecipe refNr refStart refEnd refTotalDur refT r).start ∧
    (audioRecipe refNr refStart refEnd refTotalDur refT r).inStart ≤ (audioRecipe refNr refStart refEnd refTotalDur refT r).inEnd ∧
    (audioRecipe refNr refStart refEnd refTotalDur refT r).start = audioTimeFromRef refStart refT r.constSampleDur r.T ∧
    (audioRecipe refNr refStart refEnd refTotalDur refT r).stop = audioTimeFromRef refEnd refT r.constSampleDur r.T := by
  have hws : refStart / refTotalDur * refTotalDur ≤ refStart := Nat.div_mul_le_self _ _
  have hwe : refEnd / refTotalDur * refTotalDur ≤ refEnd := Nat.div_mul_le_self _ _
  have m1 := c03_monotone _ _ refT r.constSampleDur r.T hT hf hws
  have m2 := c03_monotone _ _ refT r.constSampleDur r.T hT hf hwe
  have m3 := c03_monotone _ _ refT r.constSampleDur r.T hT hf hse
  -- when the two ends lie in different loops, the start lies before the wrap point of the end
  have m4 : audioTimeFromRef (refEnd / refTotalDur * refTotalDur) refT r.constSampleDur r.T >
      audioTimeFromRef (refStart / refTotalDur * refTotalDur) refT r.constSampleDur r.T →
      audioTimeFromRef refStart refT r.constSampleDur r.T ≤ audioTimeFromRef (refEnd / refTotalDur * refTotalDur) refT r.constSampleDur r.T := by
    intro hgt
    apply c03_monotone _ _ refT r.constSampleDur r.T hT hf
    rcases Nat.lt_or_ge (refStart / refTotalDur) (refEnd / refTotalDur) with hq | hq
    · have h1 : refStart < (refStart / refTotalDur + 1) * refTotalDur := by
        have := Nat.div_add_mod refStart refTotalDur
        have := Nat.mod_lt refStart hD
        rw [Nat.add_mul, Nat.one_mul, Nat.mul_comm]; omega
      have h2 : (refStart / refTotalDur + 1) * refTotalDur ≤ refEnd / refTotalDur * refTotalDur :=
        Nat.mul_le_mul_right _ hq
      omega
    · exfalso
      have hle : refEnd / refTotalDur * refTotalDur ≤ refStart / refTotalDur * refTotalDur := Nat.mul_le_mul_right _ hq
      have := c03_monotone _ _ refT r.constSampleDur r.T hT hf hle
      omega
  unfold audioRecipe
  simp only
  generalize audioTimeFromRef refStart refT r.constSampleDur r.T = aS at *
  generalize audioTimeFromRef refEnd refT r.constSampleDur r.T = aE at *
  generalize audioTimeFromRef (refStart / refTotalDur * refTotalDur) refT r.constSampleDur r.T = wS at *
  generalize audioTimeFromRef (refEnd / refTotalDur * refTotalDur) refT r.constSampleDur r.T = wE at *
  by_cases h1 : wE > wS
  · rw [if_pos h1]
    by_cases h2 : aE < wE + r.constSampleDur
    · rw [if_pos h2]; exact ⟨by show aE - wS - (aS - wS) + 0 = aE - aS; omega, by show aS - wS ≤ aE - wS; omega, rfl, rfl⟩
    · rw [if_neg h2]; exact ⟨by show wE - wS - (aS - wS) + (aE - wE) = aE - aS; have := m4 h1; omega, by show aS - wS ≤ wE - wS; have := m4 h1; omega, rfl, rfl⟩
  · rw [if_neg h1]; exact ⟨by show aS - wS + (aE - aS) - (aS - wS) + 0 = aE - aS; omega, by show aS - wS ≤ aS - wS + (aE - aS); omega, rfl, rfl⟩

/-! ## The audio SegmentTimeline of the MPD -/

/-- a `(t, d)` list in which every entry starts where the previous one ended, the first one at `t` -/
def ContigFrom : Nat → List (Nat × Nat) → Prop
  | _, [] => True
  | t, e :: rest => e.1 = t ∧ ContigFrom (e.1 + e.2) rest

theorem listFrom_contigFrom (r : Rep) (first count t : Nat) : ContigFrom t (listFrom r first count t) := by
  induction count generalizing first t with
  | zero => simp [listFrom, ContigFrom]
  | succ c ih => simp only [listFrom, ContigFrom, true_and]; exact ih _ _

theorem fromBounds_map (A : Nat → Nat) (t0 : Nat) (es : List (Nat × Nat)) (hc : ContigFrom t0 es) :
    fromBounds ((t0 :: es.map (fun e => e.1 + e.2)).map A) = es.map (fun e => (A e.1, A (e.1 + e.2) - A e.1)) := by
  induction es generalizing t0 with
  | nil => simp [fromBounds]
  | cons e rest ih =>
    obtain ⟨h1, h2⟩ := hc
    have := ih (e.1 + e.2) h2
    simp only [List.map_cons] at this ⊢
    subst h1
    simp only [fromBounds, this]

/-- **The audio SegmentTimeline lists exactly the re-segmented audio segments.**  For every contiguous video timeline
(which `generateTimelineEntries` always produces, `listFrom_contigFrom`) the audio timeline derived from it has one
entry per video entry, starting at the image of the video start and lasting to the image of the video end — the tfdt
and duration the segment handler gives that audio segment (`audioRecipe`). -/
theorem c03_mpd_timeline (refSE : SegEntries) (r : Rep) (t0 d0 : Nat) (rest : List (Nat × Nat))
    (hs : 0 ≤ refSE.startNr) (he : refSE.entries = (t0, d0) :: rest) (hc : ContigFrom t0 refSE.entries) :
    (genTimelineFromRef refSE r).entries =
      refSE.entries.map (fun e => (audioTimeFromRef e.1 refSE.T r.sampleDur r.T,
        audioTimeFromRef (e.1 + e.2) refSE.T r.sampleDur r.T - audioTimeFromRef e.1 refSE.T r.sampleDur r.T)) := by
  unfold genTimelineFromRef
  rw [if_neg (by omega)]
  simp only [he]
  rw [he] at hc
  exact fromBounds_map (fun x => audioTimeFromRef x refSE.T r.sampleDur r.T) t0 ((t0, d0) :: rest) hc

/-- … and the video timeline being the segments `first … first+count−1` (C02), the audio timeline is the list of
`(image of S k, image of E k − image of S k)` over the same `k`, across loop wraps. -/
theorem c03_mpd_timeline_segments (a : Asset) (ref : Rep) (h : Contig ref) (hc : Closes a ref) (r : Rep)
    (first count : Nat) (se : SegEntries) (hs : 0 ≤ se.startNr) (hT : se.T = ref.T)
    (he : se.entries = listFrom ref first (count + 1) (S a ref first)) :
    (genTimelineFromRef se r).entries = (List.range' first (count + 1)).map (fun k =>
      (audioTimeFromRef (S a ref k) ref.T r.sampleDur r.T,
       audioTimeFromRef (S a ref k + segDur ref k) ref.T r.sampleDur r.T - audioTimeFromRef (S a ref k) ref.T r.sampleDur r.T)) := by
  have hl : se.entries = (S a ref first, (ref.seg (first % ref.N)).stop - (ref.seg (first % ref.N)).start) ::
      listFrom ref (first + 1) count (S a ref first + ((ref.seg (first % ref.N)).stop - (ref.seg (first % ref.N)).start)) := by
    rw [he]; rfl
  rw [c03_mpd_timeline se r _ _ _ hs hl (by rw [he]; exact listFrom_contigFrom _ _ _ _), he,
    c02_entries_are_segments a ref h hc, hT, List.map_map]
  rfl

/-- non-vacuity: video boundary 2 s at 90 kHz → AAC frame grid at 48 kHz: 96256 = 94·1024 (2.0053 s) -/
example : audioTimeFromRef 180000 90000 1024 48000 = 96256 := by decide
def exAudio : Rep where
  id := "A"
  kind := .audio
  T := 48000
  segs := [⟨0, 4096, 1⟩, ⟨4096, 8192, 2⟩]
  constSampleDur := 1024
  sampleDur := 1024
  preEnc := false
  stpp := false

/-- frames 3..7 of a two-segment VoD audio of 8 frames, plus one padding frame (the last one repeated) at the loop tail -/
example : createAudioSeg exAudio ⟨7, 3072, 9216, 3072, 9216, 0⟩ = .ok 7 3072 [3, 4, 5, 6, 7, 7] := by decide

end Core

/-! ## Frame identity: which source frames a re-segmented audio segment is made of (`createAudioSeg`) -/
namespace Core

theorem framesOf_some {r : Rep} {fd : Nat} {l : List Itvl} {X : List Nat} (h : framesOf r fd l = some X) :
    ∃ fs, l.mapM (itvlFrames r fd) = some fs ∧ fs.flatten = X := by
  unfold framesOf at h
  cases hm : l.mapM (itvlFrames r fd) with
  | none => simp [hm] at h
  | some fs => exact ⟨fs, rfl, by simpa [hm] using h⟩

/-- **Every frame of the output is the source frame at its position.**  For a source on a frame grid and a recipe in
whole frames — `a … b` inside the loop (starting inside the source), `w` frames after the wrap — `createAudioSeg`
delivers, in this order: the source frames `a … min(b, F) − 1`, the last source frame `F − 1` repeated for the positions
`F … b − 1` beyond the source, and the source frames `0 … w − 1`.  No panic, no error, for every grid and recipe. -/
theorem c03_frames (r : Rep) (rec : Recipe) (g : Grid r r.constSampleDur) (a b w : Nat)
    (ha : rec.inStart = a * r.constSampleDur) (hb : rec.inEnd = b * r.constSampleDur)
    (hw : rec.inEndAfterWrap = w * r.constSampleDur) (hab : a ≤ b)
    (haF : a < totalFrames r r.constSampleDur) (hwF : w < totalFrames r r.constSampleDur)
    (htot : rec.stop - rec.start = (b - a + w) * r.constSampleDur) :
    createAudioSeg r rec = .ok rec.segNr rec.start
      (List.range' a (min b (totalFrames r r.constSampleDur) - a) ++
        List.replicate (b - totalFrames r r.constSampleDur) (totalFrames r r.constSampleDur - 1) ++ List.range' 0 w) := by
  have hfd := g.pos
  have hdur := g.dur_eq
  have hF : 0 < totalFrames r r.constSampleDur := by omega
  have hdurpos : 0 < r.dur := by rw [hdur]; exact Nat.mul_pos hF hfd
  have hs0 : rec.inStart / r.dur = 0 := by
    apply Nat.div_eq_of_lt; rw [ha, hdur]; exact Nat.mul_lt_mul_of_pos_right haF hfd
  obtain ⟨its, col', ns', hrun, hfr, hcol⟩ :=
    collect_init g rec a b ha hb hab haF (r.N + 1) 0 g.ne (by omega) (by simp [frameBase])
  unfold createAudioSeg
  have c1 : ¬ (r.constSampleDur = 0 ∨ r.dur = 0) := by omega
  have c2 : ¬ (rec.inStart / r.dur ≥ r.N) := by rw [hs0]; have := g.ne; omega
  have c3 : ¬ (0 ≥ r.N) := by have := g.ne; omega
  simp only [c1, c2, c3, if_false, hs0]
  have hback : createAudioSeg.back r rec 0 (r.N + 1) = some 0 := by
    unfold createAudioSeg.back
    have : ¬ ((r.seg 0).start > rec.inStart) := by rw [g.start0]; omega
    simp [this]
  rw [hback]
  simp only [hrun]
  have hleft : rec.stop - rec.start - col' = rec.inEndAfterWrap := by
    rw [htot, hcol, hw, ← Nat.sub_mul]; congr 1; omega
  simp only [hleft, ne_eq, not_true_eq_false, if_false]
  by_cases hw0 : rec.inEndAfterWrap > 0
  · have hwpos : 0 < w := by
      rcases Nat.eq_zero_or_pos w with h | h
      · rw [hw, h] at hw0; simp at hw0
      · exact h
    simp only [hw0, if_true]
    obtain ⟨its2, hrun2, hfr2⟩ := afterWrap_from g w hwF (r.N + 1) 0 its g.ne (by omega) (by simp [frameBase])
    rw [hw, hrun2]
    have hall : framesOf r r.constSampleDur (its ++ its2) = some
        (List.range' a (min b (totalFrames r r.constSampleDur) - a) ++
          List.replicate (b - totalFrames r r.constSampleDur) (totalFrames r r.constSampleDur - 1) ++ List.range' 0 w) := by
      rw [framesOf_append, hfr, hfr2]; simp [frameBase]
    obtain ⟨fs, hm, hfl⟩ := framesOf_some hall
    simp only [hm, hfl]
  · have hw0' : w = 0 := by
      rcases Nat.eq_zero_or_pos w with h | h
      · exact h
      · exfalso; apply hw0; rw [hw]; exact Nat.mul_pos h hfd
    simp only [hw0, if_false]
    obtain ⟨fs, hm, hfl⟩ := framesOf_some hfr
    simp only [hm, hfl, hw0', List.range'_zero, List.append_nil]

/-- the bounds of every recipe `calcAudioSegRecipe` makes are whole frames -/
theorem recipe_whole_frames (refNr refStart refEnd refTotalDur refT : Nat) (r : Rep) (hT : 0 < refT)
    (hf : 0 < r.constSampleDur) :
    r.constSampleDur ∣ (audioRecipe refNr refStart refEnd refTotalDur refT r).inStart ∧
    r.constSampleDur ∣ (audioRecipe refNr refStart refEnd refTotalDur refT r).inEnd ∧
    r.constSampleDur ∣ (audioRecipe refNr refStart refEnd refTotalDur refT r).inEndAfterWrap := by
  have d1 := (c03_ceil refStart refT r.constSampleDur r.T hT hf).1
  have d2 := (c03_ceil refEnd refT r.constSampleDur r.T hT hf).1
  have d3 := (c03_ceil (refStart / refTotalDur * refTotalDur) refT r.constSampleDur r.T hT hf).1
  have d4 := (c03_ceil (refEnd / refTotalDur * refTotalDur) refT r.constSampleDur r.T hT hf).1
  unfold audioRecipe
  simp only
  generalize audioTimeFromRef refStart refT r.constSampleDur r.T = aS at *
  generalize audioTimeFromRef refEnd refT r.constSampleDur r.T = aE at *
  generalize audioTimeFromRef (refStart / refTotalDur * refTotalDur) refT r.constSampleDur r.T = wS at *
  generalize audioTimeFromRef (refEnd / refTotalDur * refTotalDur) refT r.constSampleDur r.T = wE at *
  have z : r.constSampleDur ∣ 0 := Nat.dvd_zero _
  split
  · split
    · exact ⟨Nat.dvd_sub d1 d3, Nat.dvd_sub d2 d3, z⟩
    · exact ⟨Nat.dvd_sub d1 d3, Nat.dvd_sub d4 d3, Nat.dvd_sub d2 d4⟩
  · exact ⟨Nat.dvd_sub d1 d3, Nat.dvd_add (Nat.dvd_sub d1 d3) (Nat.dvd_sub d2 d1), z⟩

/-- **Frame identity for the recipes the server makes**: for the recipe of a reference segment `[refStart, refEnd)`,
whenever the segment starts inside the source and the part after the wrap is shorter than the source, the output frames
are the source frames at the positions `inStart/fd …`, padded with the last one, followed by the source frames from 0. -/
theorem c03_frames_recipe (refNr refStart refEnd refTotalDur refT : Nat) (r : Rep) (g : Grid r r.constSampleDur)
    (hT : 0 < refT) (hse : refStart ≤ refEnd) (hD : 0 < refTotalDur)
    (hin : (audioRecipe refNr refStart refEnd refTotalDur refT r).inStart < r.dur)
    (hwr : (audioRecipe refNr refStart refEnd refTotalDur refT r).inEndAfterWrap < r.dur) :
    let rec_ := audioRecipe refNr refStart refEnd refTotalDur refT r
    let fd := r.constSampleDur
    let F := totalFrames r fd
    createAudioSeg r rec_ = .ok refNr (audioTimeFromRef refStart refT fd r.T)
      (List.range' (rec_.inStart / fd) (min (rec_.inEnd / fd) F - rec_.inStart / fd) ++
        List.replicate (rec_.inEnd / fd - F) (F - 1) ++ List.range' 0 (rec_.inEndAfterWrap / fd)) := by
  intro rec_ fd F
  have hf := g.pos
  obtain ⟨⟨a, ha⟩, ⟨b, hb⟩, ⟨w, hw⟩⟩ := recipe_whole_frames refNr refStart refEnd refTotalDur refT r hT hf
  obtain ⟨htot, hle, hst, _⟩ := c03_recipe_total refNr refStart refEnd refTotalDur refT r hT hf hse hD
  have ha' : rec_.inStart = a * fd := by show (audioRecipe _ _ _ _ _ _).inStart = _; rw [ha, Nat.mul_comm]
  have hb' : rec_.inEnd = b * fd := by show (audioRecipe _ _ _ _ _ _).inEnd = _; rw [hb, Nat.mul_comm]
  have hw' : rec_.inEndAfterWrap = w * fd := by show (audioRecipe _ _ _ _ _ _).inEndAfterWrap = _; rw [hw, Nat.mul_comm]
  have hab : a ≤ b := by
    have : a * fd ≤ b * fd := by rw [← ha', ← hb']; exact hle
    exact Nat.le_of_mul_le_mul_right this hf
  have hdur := g.dur_eq
  have haF : a < F := by
    have : a * fd < F * fd := by rw [← ha', ← hdur]; exact hin
    exact Nat.lt_of_mul_lt_mul_right this
  have hwF : w < F := by
    have : w * fd < F * fd := by rw [← hw', ← hdur]; exact hwr
    exact Nat.lt_of_mul_lt_mul_right this
  have htot' : rec_.stop - rec_.start = (b - a + w) * fd := by
    have h1 : rec_.inEnd - rec_.inStart + rec_.inEndAfterWrap = rec_.stop - rec_.start := htot
    rw [← h1, ha', hb', hw', ← Nat.sub_mul, ← Nat.add_mul]
  have key := c03_frames r rec_ g a b w ha' hb' hw' hab haF hwF htot'
  have e1 : rec_.inStart / fd = a := by rw [ha', Nat.mul_div_cancel _ hf]
  have e2 : rec_.inEnd / fd = b := by rw [hb', Nat.mul_div_cancel _ hf]
  have e3 : rec_.inEndAfterWrap / fd = w := by rw [hw', Nat.mul_div_cancel _ hf]
  have e4 : rec_.segNr = refNr := by
    show (audioRecipe _ _ _ _ _ _).segNr = _
    unfold audioRecipe; simp only; split <;> (try split) <;> rfl
  rw [e1, e2, e3, ← hst]
  rw [e4] at key
  exact key

/-- non-vacuity: a source of three segments of 4, 4 and 3 frames (11 frames, frame duration 1024); the recipe takes
frames 9 … 13 of the loop — two source frames, the last one repeated for two positions beyond the source — and 2 frames
after the wrap -/
def exGridRep : Rep where
  id := "A1"
  kind := .audio
  T := 48000
  segs := [⟨0, 4096, 1⟩, ⟨4096, 8192, 2⟩, ⟨8192, 11264, 3⟩]
  constSampleDur := 1024
  sampleDur := 1024
  preEnc := false
  stpp := false

example : createAudioSeg exGridRep ⟨7, 100 * 1024, 106 * 1024, 9 * 1024, 13 * 1024, 2 * 1024⟩ =
    .ok 7 (100 * 1024) [9, 10, 10, 10, 0, 1] := by decide

/-- **tie by translation**: the model's `audioTimeFromRef` is the Go function `calcAudioTimeFromRef`, translated
statement by statement from the current source (`Gen/Trans.lean`, regenerated on every run), on natural numbers -/
theorem c03_trans_audioTimeFromRef (refTime refT frameDur audT : Nat) :
    Gen.Trans.calcAudioTimeFromRef refTime refT frameDur audT = ((audioTimeFromRef refTime refT frameDur audT : Nat) : Int) :=
  TransTie.audioTimeFromRef_eq refTime refT frameDur audT

end Core
