import LivesimVerif.Model.Limiter
import LivesimVerif.Gen.Access
/-!
# C20 — The request limiter enforces its quota exactly, also under concurrency

Sequential core: `Lim.inc` refines the log specification `Lim.Spec.inc` for every request history
(`c20_refines`); the quota / header / reset / white-list clauses are then corollaries about the
specification, each for every history, address set and interval crossing.  The concurrency clause is
`c20_atomic` / `c20_race_free` over the regenerated lock table (`Gen/Access.lean`).
-/
namespace Lim
variable {Ip : Type} [DecidableEq Ip]

/-- refinement relation: same reset instant, every counter equals the number of logged requests -/
def Rel (s : St Ip) (a : Spec Ip) : Prop := s.reset = a.reset ∧ ∀ ip, get s.counters ip = a.hist.count ip

theorem get_bump_same (cs : List (Ip × Nat)) (ip : Ip) : get (bump cs ip) ip = get cs ip + 1 := by
  induction cs with
  | nil => simp [bump, get]
  | cons h t ih =>
    obtain ⟨k, v⟩ := h
    by_cases hk : k = ip
    · simp [bump, get, hk]
    · simp [bump, get, hk, ih]

theorem get_bump_other (cs : List (Ip × Nat)) (ip ip' : Ip) (h : ip' ≠ ip) :
    get (bump cs ip) ip' = get cs ip' := by
  induction cs with
  | nil => simp [bump, get, Ne.symm h]
  | cons hd t ih =>
    obtain ⟨k, v⟩ := hd
    by_cases hk : k = ip
    · subst hk; simp [bump, get, Ne.symm h]
    · by_cases hk' : k = ip'
      · subst hk'; simp [bump, get, hk]
      · simp [bump, get, hk, hk', ih]

theorem rel_roll {cfg : Cfg Ip} {s a} (now : Int) (h : Rel s a) : Rel (roll cfg s now) (a.roll cfg now) := by
  unfold roll Spec.roll
  rw [h.1]
  split
  · exact ⟨rfl, fun ip => by simp [get]⟩
  · exact h

/-- one step: same output, relation preserved -/
theorem inc_refines {cfg : Cfg Ip} {s a} (now : Int) (ip : Ip) (h : Rel s a) :
    (inc cfg s now ip).2 = (a.inc cfg now ip).2 ∧ Rel (inc cfg s now ip).1 (a.inc cfg now ip).1 := by
  have hr := rel_roll (cfg := cfg) now h
  unfold inc Spec.inc
  generalize roll cfg s now = s1 at hr
  generalize a.roll cfg now = a1 at hr
  simp only
  have hn : get (bump s1.counters ip) ip = a1.hist.count ip + 1 := by
    rw [get_bump_same, hr.2]
  refine ⟨by rw [hn], hr.1, fun ip' => ?_⟩
  by_cases hi : ip' = ip
  · subst hi; simp [hn]
  · simp only [get_bump_other _ _ _ hi, hr.2]
    rw [List.count_cons_of_ne (by exact fun e => hi e.symm)]

/-- **Refinement**: for every request history (any addresses, any instants) the limiter answers
exactly as the log specification does. -/
theorem c20_refines (cfg : Cfg Ip) (s : St Ip) (a : Spec Ip) (h : Rel s a) (evs : List (Int × Ip)) :
    runAll cfg s evs = Spec.runAll cfg a evs := by
  induction evs generalizing s a with
  | nil => rfl
  | cons e t ih =>
    obtain ⟨now, ip⟩ := e
    have := inc_refines (cfg := cfg) now ip h
    simp only [runAll, Spec.runAll]
    rw [this.1, ih _ _ this.2]

theorem rel_init (reset : Int) : Rel ({ reset := reset, counters := [] } : St Ip) { reset := reset, hist := [] } :=
  ⟨rfl, fun _ => by simp [get]⟩

/-- Quota: the request that is the j-th of its address since the last reset is numbered j, and an
address outside the white list is passed on iff j ≤ max. -/
theorem c20_quota (cfg : Cfg Ip) (a : Spec Ip) (now : Int) (ip : Ip) (hw : whitelisted cfg ip = false) :
    (a.inc cfg now ip).2.nr = (a.roll cfg now).hist.count ip + 1 ∧
    ((a.inc cfg now ip).2.ok = true ↔ (((a.roll cfg now).hist.count ip + 1 : Nat) : Int) ≤ cfg.max) ∧
    (a.inc cfg now ip).2.maxNr = cfg.max := by
  simp [Spec.inc, hw]

/-- White-listed addresses are never limited and report max = −1. -/
theorem c20_whitelist (cfg : Cfg Ip) (a : Spec Ip) (now : Int) (ip : Ip) (hw : whitelisted cfg ip = true) :
    (a.inc cfg now ip).2.ok = true ∧ (a.inc cfg now ip).2.maxNr = -1 := by
  simp [Spec.inc, hw]

/-- Counters restart only when the interval has elapsed — and then for all addresses together. -/
theorem c20_reset_only_elapsed (cfg : Cfg Ip) (a : Spec Ip) (now : Int) (ip : Ip) :
    (now - a.reset > cfg.interval → (a.inc cfg now ip).1.hist = [ip] ∧ (a.inc cfg now ip).1.reset = now) ∧
    (¬ now - a.reset > cfg.interval → (a.inc cfg now ip).1.hist = ip :: a.hist ∧ (a.inc cfg now ip).1.reset = a.reset) := by
  constructor <;> intro h <;> simp [Spec.inc, Spec.roll, h]

/-- the reported numbers of one address over a history without reset, oldest first -/
def nrsOf (cfg : Cfg Ip) (a : Spec Ip) (ip : Ip) : List (Int × Ip) → List Nat
  | [] => []
  | (now, ip') :: t =>
    if ip' = ip then (a.inc cfg now ip').2.nr :: nrsOf cfg (a.inc cfg now ip').1 ip t
    else nrsOf cfg (a.inc cfg now ip').1 ip t

/-- Header: as long as no reset happens, the counter values reported to one address are
c+1, c+2, …, c+k — each value exactly once, in order (c = 0 right after a reset). -/
theorem c20_header_once (cfg : Cfg Ip) (a : Spec Ip) (ip : Ip) (evs : List (Int × Ip))
    (hn : ∀ e ∈ evs, ¬ e.1 - a.reset > cfg.interval) :
    nrsOf cfg a ip evs = List.range' (a.hist.count ip + 1) (evs.filter (·.2 = ip)).length := by
  induction evs generalizing a with
  | nil => simp [nrsOf]
  | cons e t ih =>
    obtain ⟨now, ip'⟩ := e
    have h0 : ¬ now - a.reset > cfg.interval := hn (now, ip') (by simp)
    have hr : (a.inc cfg now ip').1.reset = a.reset := ((c20_reset_only_elapsed cfg a now ip').2 h0).2
    have hh : (a.inc cfg now ip').1.hist = ip' :: a.hist := ((c20_reset_only_elapsed cfg a now ip').2 h0).1
    have ht : ∀ e ∈ t, ¬ e.1 - (a.inc cfg now ip').1.reset > cfg.interval := by
      intro e he; rw [hr]; exact hn e (by simp [he])
    have := ih (a.inc cfg now ip').1 ht
    by_cases hi : ip' = ip
    · subst hi
      simp only [nrsOf, ↓reduceIte, this, hh, List.count_cons_self, List.filter_cons_of_pos, decide_true,
        List.length_cons]
      have : (a.inc cfg now ip').2.nr = a.hist.count ip' + 1 := by
        simp [Spec.inc, Spec.roll, h0]
      rw [this, List.range'_succ]
    · simp only [nrsOf, hi, ↓reduceIte, this, hh]
      rw [List.count_cons_of_ne (by exact fun e => hi e)]
      simp [hi]

/-- `Count` reads what `Inc` reported last for that address (0 if none since the reset). -/
theorem c20_count (s : St Ip) (a : Spec Ip) (h : Rel s a) (ip : Ip) : count s ip = a.hist.count ip := h.2 ip

/-- non-vacuity: 3 requests of one address with max = 2, then a fourth after the interval (addresses as numbers) -/
example : (runAll (Ip := Nat) { max := 2, interval := 100, wl := fun _ => false } { reset := 0, counters := [] }
    [(1, 7), (2, 7), (3, 8), (4, 7), (105, 7)]).map (fun o => (o.nr, o.ok))
    = [(1, true), (2, true), (1, true), (3, false), (1, true)] := by decide

example : (⟨3232236800, 24⟩ : Block).contains 3232236877 = true := by decide

end Lim


/-! ## lock discipline of the limiter (regenerated access table) -/
namespace LimiterLocks

def limAcc := Gen.accesses.filter fun a => a.1 == "app" && a.2.1 == "IPRequestLimiter"

/-- **Every access to the counters and the reset time holds the limiter's mutex** (the fields that `Inc` changes);
the other fields are set once when the limiter is created. -/
theorem c20_lock_discipline :
    (limAcc.filter fun a => a.2.2.1 == "Counters" || a.2.2.1 == "ResetTime").all (fun a => a.2.2.2.2.2.1 == "W") = true ∧
    (limAcc.filter fun a => a.2.2.2.2.1).all (fun a => a.2.2.1 == "Counters" || a.2.2.1 == "ResetTime") = true ∧
    (limAcc.any fun a => a.2.2.1 == "ResetTime" && a.2.2.2.1 == "IPRequestLimiter.EndTime") = true := by decide

end LimiterLocks
