import LivesimVerif.Model.Patch
import LivesimVerif.Lemmas.Trans
import LivesimVerif.Lemmas.Myers
/-!
# C11 — Applying a served MPD patch to the old MPD yields the new MPD

Proved here: the SegmentTimeline (leaf-list) part.  For every element type, every pair of lists and every edit script
that is *valid* (`Patch.Valid`: deletions/insertions in position order, kept stretches equal), the operations emitted by
the loop of `addLeafListChanges`, applied in order with RFC 5261 semantics, turn the old list into the new list.
Validity of the `MyersDiff` output is a theorem as well: `Model/Myers.lean` models the linear-space Myers search and
the recursion of `diffInternal` statement by statement (tied by the op `myers`, which compares the model's script with
the real one), and `c11_myers_sound` shows that whatever it returns is a valid script — for every pair of lists, from
the equality of the snake the search hands to the recursion and, for the branches taken when `D ≤ 1`, from a symbolic
execution of the first two rounds of the search (`Lemmas/Myers.lean`).  `c11_myers_patch` composes the two.  That
`MyersDiff` returns at all (no index panic, recursion terminates) is not proved; the op `myers` and the fuzzing monitor
observe it.  The run-time certificate `validB` stays in the `leaf` op as a cross-check.  The element-level recursion
(`addElemChanges`, `calcAddr`) and the served patch flow are covered by the harness' own RFC 5261 applier (monitors).
Partial with respect to element addressing and to termination of Myers.
-/
namespace Patch

theorem take_append_len {α : Type} (A B : List α) : (A ++ B).take A.length = A := by simp
theorem drop_append_len {α : Type} (A B : List α) (n : Nat) : (A ++ B).drop (A.length + n) = B.drop n := by
  simp [List.drop_append]

/-- the document list can be re-split at the next edit position -/
theorem resplit {α : Type} (xs ys : List α) (i j p : Nat) (hip : i ≤ p) (hp : p ≤ xs.length)
    (hk : (xs.drop i).take (p - i) = (ys.drop j).take (p - i)) :
    ys.take j ++ xs.drop i = ys.take (j + (p - i)) ++ xs.drop p ∧ (ys.take (j + (p - i))).length = j + (p - i) ∨
    j > ys.length := by
  by_cases hj : j > ys.length
  · right; exact hj
  · left
    have hlen : ((xs.drop i).take (p - i)).length = p - i := by simp; omega
    rw [hk] at hlen
    have hy : p - i ≤ ys.length - j := by simp at hlen; omega
    constructor
    · have h1 : xs.drop i = (xs.drop i).take (p - i) ++ xs.drop p := by
        have := (List.take_append_drop (p - i) (xs.drop i)).symm
        rw [List.drop_drop] at this
        rw [show i + (p - i) = p by omega] at this
        exact this
      rw [h1, hk, ← List.append_assoc, ← List.take_add]
    · simp; omega

/-- **Leaf-list correctness**: a valid edit script yields operations whose in-order application to the old list
(document state `ys.take j ++ xs.drop i`) produces the new list. -/
theorem c11_leaflist {α : Type} (xs ys : List α) (es : List Edit) (i j : Nat) (hj : j ≤ ys.length)
    (hv : Valid xs ys es i j) :
    ∃ ops, leafOps ys es i j = some ops ∧ applyOps ops (ys.take j ++ xs.drop i) = some ys := by
  induction es generalizing i j with
  | nil =>
    refine ⟨[], rfl, ?_⟩
    simp only [Valid] at hv
    simp [applyOps, hv]
  | cons e rest ih =>
    cases e with
    | del p =>
      simp only [Valid] at hv
      obtain ⟨hip, hp, hk, hrest⟩ := hv
      rcases resplit xs ys i j p hip (Nat.le_of_lt hp) hk with ⟨hsplit, hlen⟩ | hbad
      · have hj' : j + (p - i) ≤ ys.length := by
          have h1 : (ys.take (j + (p - i))).length = min (j + (p - i)) ys.length := List.length_take
          rw [hlen] at h1; omega
        obtain ⟨ops, ho, ha⟩ := ih (p + 1) (j + (p - i)) hj' hrest
        refine ⟨.remove (j + (p - i)) :: ops, ?_, ?_⟩
        · simp only [leafOps, Nat.not_lt.mpr hip, ↓reduceIte, ho, Option.map_some]
        · simp only [applyOps, applyOp, removeAt]
          rw [hsplit]
          have hdl : (xs.drop p).length > 0 := by simp; omega
          have hlt : j + (p - i) < (ys.take (j + (p - i)) ++ xs.drop p).length := by
            rw [List.length_append, hlen]; omega
          rw [if_pos hlt]
          simp only [Option.bind_some]
          have t1 : (ys.take (j + (p - i)) ++ xs.drop p).take (j + (p - i)) = ys.take (j + (p - i)) := by
            have := take_append_len (ys.take (j + (p - i))) (xs.drop p)
            rw [hlen] at this; exact this
          have t2 : (ys.take (j + (p - i)) ++ xs.drop p).drop (j + (p - i) + 1) = xs.drop (p + 1) := by
            have := drop_append_len (ys.take (j + (p - i))) (xs.drop p) 1
            rw [hlen] at this
            rw [this, List.drop_drop]
          rw [t1, t2]; exact ha
      · omega
    | ins p q =>
      simp only [Valid] at hv
      obtain ⟨hip, hp, hq, hql, hk, hrest⟩ := hv
      rcases resplit xs ys i j p hip hp hk with ⟨hsplit, hlen⟩ | hbad
      · obtain ⟨ops, ho, ha⟩ := ih p (q + 1) (by omega) hrest
        have hyq : ys[q]? = some ys[q] := List.getElem?_eq_getElem hql
        refine ⟨(if j + (p - i) = 0 then .prepend ys[q] else .addAfter (j + (p - i) - 1) ys[q]) :: ops, ?_, ?_⟩
        · simp only [leafOps, Nat.not_lt.mpr hip, ↓reduceIte, hyq]
          rw [← hq, ho]; simp
        · rw [hsplit, ← hq]
          rw [← hq] at hlen
          have tk : ys.take (q + 1) = ys.take q ++ [ys[q]] := by
            rw [List.take_add_one, hyq]; rfl
          by_cases hq0 : q = 0
          · subst hq0
            simp only [↓reduceIte, applyOps, applyOp, Option.bind_some]
            have : (ys[0] :: (List.take 0 ys ++ xs.drop p)) = ys.take (0 + 1) ++ xs.drop p := by
              rw [tk]; simp
            rw [this]; exact ha
          · simp only [hq0, ↓reduceIte, applyOps, applyOp, insertAt]
            have hlt : q - 1 < (ys.take q ++ xs.drop p).length := by rw [List.length_append, hlen]; omega
            rw [if_pos hlt]
            have hle : q - 1 + 1 ≤ (ys.take q ++ xs.drop p).length := by rw [List.length_append, hlen]; omega
            rw [if_pos hle]
            simp only [Option.bind_some]
            have e1 : q - 1 + 1 = q := by omega
            rw [e1]
            have t1 : (ys.take q ++ xs.drop p).take q = ys.take q := by
              have := take_append_len (ys.take q) (xs.drop p); rw [hlen] at this; exact this
            have t2 : (ys.take q ++ xs.drop p).drop q = xs.drop p := by
              have := drop_append_len (ys.take q) (xs.drop p) 0; rw [hlen] at this; simpa using this
            rw [t1, t2, ← tk]; exact ha
      · omega

/-- the whole list: from the initial state `(0, 0)` the patch turns `xs` into `ys` -/
theorem c11_leaflist_whole {α : Type} (xs ys : List α) (es : List Edit) (hv : Valid xs ys es 0 0) :
    ∃ ops, leafOps ys es 0 0 = some ops ∧ applyOps ops xs = some ys := by
  have := c11_leaflist xs ys es 0 0 (Nat.zero_le _) hv
  simpa using this

/-- the executable certificate implies validity -/
theorem validB_sound {α : Type} [DecidableEq α] (xs ys : List α) (es : List Edit) (i j : Nat)
    (h : validB xs ys es i j = true) : Valid xs ys es i j := by
  induction es generalizing i j with
  | nil => simpa [validB, Valid] using h
  | cons e rest ih =>
    cases e with
    | del p =>
      simp only [validB, Bool.and_eq_true, decide_eq_true_eq, beq_iff_eq] at h
      exact ⟨h.1.1.1, h.1.1.2, h.1.2, ih _ _ h.2⟩
    | ins p q =>
      simp only [validB, Bool.and_eq_true, decide_eq_true_eq, beq_iff_eq] at h
      exact ⟨h.1.1.1.1.1, h.1.1.1.1.2, h.1.1.1.2, h.1.1.2, h.1.2, ih _ _ h.2⟩

/-- **Myers soundness**: every script the model of `MyersDiff` returns is valid, for all lists over any element type -/
theorem c11_myers_sound {α : Type} [DecidableEq α] (xs ys : List α) (es : List Edit)
    (h : Myers.myers xs ys = some es) : Valid xs ys es 0 0 := Myers.myers_valid xs ys es h

/-- **Leaf list, end to end**: the operations `addLeafListChanges` emits for the script of `MyersDiff`, applied in
order, turn the old `S` list into the new one. -/
theorem c11_myers_patch {α : Type} [DecidableEq α] (xs ys : List α) (es : List Edit)
    (h : Myers.myers xs ys = some es) :
    ∃ ops, leafOps ys es 0 0 = some ops ∧ applyOps ops xs = some ys :=
  c11_leaflist_whole xs ys es (c11_myers_sound xs ys es h)

/-- non-vacuity: the model returns scripts (window slide, `D ≤ 1` branches, one list empty) -/
example : Myers.myers [1, 2, 3, 4] [2, 3, 4, 5] = some [.del 0, .ins 4 3] := by decide
example : Myers.myers [1, 2, 3] [1, 2, 3, 4] = some [.ins 3 3] := by decide
example : Myers.myers [1, 2, 3] [1, 2] = some [.del 2] := by decide
example : Myers.myers [7, 8] [7, 8] = some [] := by decide
example : Myers.myers ([] : List Nat) [5, 6] = some [.ins 0 0, .ins 0 1] := by decide

/-- non-vacuity: timeline `[a,b,c,d]` → `[b,c,d,e]` (oldest segment leaves, a new one is appended) -/
example : validB [1, 2, 3, 4] [2, 3, 4, 5] [.del 0, .ins 4 3] 0 0 = true := by decide
example : (leafOps [2, 3, 4, 5] [.del 0, .ins 4 3] 0 0) = some [.remove 0, .addAfter 2 5] := by decide
example : applyOps [.remove 0, .addAfter 2 5] [1, 2, 3, 4] = some [2, 3, 4, 5] := by decide

/-- **tie by translation**: the `pyMod` of the Myers model is the Go function, translated statement by statement from
the current source (`Gen/Trans.lean`, regenerated on every run) -/
theorem c11_trans_pyMod (x y : Int) : Gen.Trans.pyMod x y = Myers.pyMod x y := TransTie.pyMod_eq x y

/-- the `V` arrays of the Myers search are only indexed through `pyMod _ Z`, which lies in `[0, Z)` for every diagonal:
the reads and writes of the model never fall back to a default, and the Go code cannot index them out of range -/
theorem c11_myers_vindex_in_range (x : Int) (Z : Nat) (hZ : 0 < Z) :
    0 ≤ Myers.pyMod x Z ∧ (Myers.pyMod x Z).toNat < Z :=
  ⟨(Myers.pyMod_range x Z (by omega)).1, Myers.pyMod_index x Z hZ⟩

/-- the snake loop of the Myers search, started at non-negative coordinates with the fuel `kStep` gives it, never
indexes the element lists out of range and never runs out of fuel (both directions) -/
theorem c11_myers_snake_total {α : Type} [DecidableEq α] (e f : List α) (o m : Int)
    (hom : (o = 1 ∧ m = 1) ∨ (o = 0 ∧ m = -1)) (a b : Int) (ha : 0 ≤ a) (hb : 0 ≤ b) :
    ∃ r, Myers.snake e f o m (e.length + 1) a b = some r :=
  Myers.snake_total e f o m hom (e.length + 1) a b ha hb (by push_cast; omega) (by omega)

end Patch
