import LivesimVerif.Model.AssetLoad
import LivesimVerif.Gen.Tables
/-!
# C15 — The representation-metadata cache never changes what is served

Proved here:

* admission (`consolidateAsset`, model `Model/AssetLoad.lean`, tied by the op `cons`): an admitted asset has a reference
  representation whose duration is *exactly* the loop duration, and so has every other representation that is looped
  as it is (all but re-segmented audio): the wrap offset the segment handlers compute equals its real duration (no gap or
  overlap at a loop wrap); an asset whose reference duration is not a whole number of milliseconds is left out;
* persistence (regenerated `Gen/Tables.lean`): every field of `RepData` is either written to the metadata file or
  assigned again by the functions that run after a cache load, and the only `Segment` field that is not persisted is
  mentioned by the scanning functions only — so a cache-loaded representation has every field a scanned one has.

That a server started from the files answers every request as the scanning server does — also when files are missing,
truncated or corrupt — and that writing is idempotent, is checked by the monitor on real server instances.
-/
namespace Load

theorem pickRef_mem (reps : List RepD) (r : RepD) (h : pickRef reps = some r) : r ∈ reps := by
  unfold pickRef at h
  split at h
  · next x hx => injection h with h; subst h; exact List.mem_of_find?_eq_some hx
  · exact List.mem_of_find?_eq_some h

/-- **The reference representation's duration is exactly the loop duration**, and the wrap offset computed from the
loop duration is that duration. -/
theorem c15_ref_exact (reps : List RepD) (loop : Nat) (id : String) (h : consolidate reps = some (loop, id)) :
    ∃ ref ∈ reps, ref.id = id ∧ loop * ref.ts = 1000 * ref.dur ∧ (0 < ref.ts → wrapDur loop ref = ref.dur) := by
  unfold consolidate at h
  split at h
  · cases h
  · next ref href =>
    simp only at h
    split at h
    · cases h
    · next hex =>
      split at h
      · cases h
      · injection h with h
        injection h with h1 h2
        refine ⟨ref, pickRef_mem reps ref href, h2, ?_, ?_⟩
        · rw [← h1]; exact Decidable.of_not_not hex
        · intro _
          unfold wrapDur
          rw [← h1, Decidable.of_not_not hex]
          exact Nat.mul_div_cancel_left _ (by omega)

/-- **Every representation that is looped as it is (all but re-segmented audio) has exactly the loop duration**, so
its wrap offset equals its real duration: no gap or overlap at a loop wrap. -/
theorem c15_compared_exact (reps : List RepD) (loop : Nat) (id : String) (h : consolidate reps = some (loop, id))
    (r : RepD) (hr : r ∈ reps) (hts : 0 < r.ts) :
    ∃ ref ∈ reps, ref.id = id ∧ (compared ref r = true → loop * r.ts = 1000 * r.dur ∧ wrapDur loop r = r.dur) := by
  unfold consolidate at h
  split at h
  · cases h
  · next ref href =>
    simp only at h
    split at h
    · cases h
    · split at h
      · cases h
      · next hany =>
        injection h with h
        injection h with h1 h2
        refine ⟨ref, pickRef_mem reps ref href, h2, ?_⟩
        intro hc
        have hall : ∀ x ∈ reps, compared ref x = true → durMS x = durMS ref ∧ durMS x * x.ts = 1000 * x.dur := by
          simpa using hany
        obtain ⟨hd, hx⟩ := hall r hr hc
        rw [h1] at hd
        rw [hd] at hx
        refine ⟨hx, ?_⟩
        unfold wrapDur
        rw [hx]
        exact Nat.mul_div_cancel_left _ (by omega)

/-- which representations that covers: everything that is not audio, the reference itself, and pre-encrypted audio -/
theorem compared_iff (ref r : RepD) : compared ref r = true ↔ (r.kind ≠ "audio" ∨ r.kind = ref.kind ∨ r.preEnc = true) := by
  unfold compared
  by_cases h1 : r.kind = "audio" <;> by_cases h2 : r.kind = ref.kind <;> cases r.preEnc <;> simp [h1, h2]

/-- **A reference duration that is not a whole number of milliseconds is refused.** -/
theorem c15_fractional_refused (reps : List RepD) (ref : RepD) (href : pickRef reps = some ref)
    (hfrac : (1000 * ref.dur) % ref.ts ≠ 0) : consolidate reps = none := by
  unfold consolidate
  simp only [href]
  have : durMS ref * ref.ts ≠ 1000 * ref.dur := by
    unfold durMS
    intro he
    apply hfrac
    rw [← he]
    exact Nat.mul_mod_left _ _
  simp [this]

/-- non-vacuity: the bundled 8 s layout is admitted; a 90 kHz loop of 8 s + 200 ticks is refused -/
example : consolidate [⟨"A48", "audio", 384000, 48000, false⟩, ⟨"V300", "video", 720000, 90000, false⟩] = some (8000, "V300") := by decide
example : consolidate [⟨"V1", "video", 720200, 90000, false⟩] = none := by decide

/-- the inputs that were admitted before the `fix:` commit are now left out: a second video representation half a
millisecond longer than the loop, and a text representation shorter than the loop -/
example : consolidate [⟨"V1", "video", 720000, 90000, false⟩, ⟨"V2", "video", 720045, 90000, false⟩] = none ∧
    consolidate [⟨"T1", "text", 5000, 1000, false⟩, ⟨"V1", "video", 720000, 90000, false⟩] = none ∧
    consolidate [⟨"A1", "audio", 385024, 48000, false⟩, ⟨"V1", "video", 720000, 90000, false⟩] = some (8000, "V1") := by decide

/-! ## persistence table (regenerated from the struct definitions and the rebuild functions) -/

def persisted (f : String × String × Bool) : Bool := f.2.2 && f.2.1 != "-"

/-- **Every `RepData` field is written to the file or assigned again after a load.** -/
theorem c15_repdata_fields_covered :
    Gen.fields_RepData.all (fun f => persisted f || Gen.rebuilt_RepData.contains f.1) = true := by decide

/-- **The only `Segment` field that is not persisted is used by the scanning functions only.** -/
theorem c15_segment_fields_covered :
    Gen.fields_Segment.all (fun f => persisted f || f.1 == "CommonSampleDur") = true ∧
    Gen.users_CommonSampleDur.all (fun fn => fn == "loadRep" || fn == "readMP4Segment") = true := by decide

/-! ## The loaded segment table is contiguous -/

/-- **`$Number$` representations**: whatever the files say about their own ends (audio frames that overlap the next
segment's start, rounding in the packager), the loaded table is contiguous, keeps every start time, and ends where the
last file ends. -/
theorem c15_table_contiguous (files : List (Nat × Nat)) : ContigTable (loadByNumber files) := by
  induction files with
  | nil => simp [loadByNumber, ContigTable]
  | cons a rest ih =>
    cases rest with
    | nil => simp [loadByNumber, ContigTable]
    | cons b rest' =>
      cases rest' with
      | nil => simp [loadByNumber, ContigTable]
      | cons c rest'' =>
        simp only [loadByNumber, ContigTable] at ih ⊢
        exact ⟨trivial, ih⟩

theorem c15_table_starts (files : List (Nat × Nat)) : (loadByNumber files).map (·.1) = files.map (·.1) := by
  induction files with
  | nil => rfl
  | cons a rest ih =>
    cases rest with
    | nil => rfl
    | cons b rest' => simp only [loadByNumber, List.map_cons] at ih ⊢; rw [ih]

theorem c15_table_last (files : List (Nat × Nat)) : (loadByNumber files).getLast? = files.getLast? := by
  induction files with
  | nil => rfl
  | cons a rest ih =>
    cases rest with
    | nil => rfl
    | cons b rest' =>
      simp only [loadByNumber]
      rw [List.getLast?_cons_cons] at *
      cases hl : loadByNumber (b :: rest') with
      | nil => cases rest' <;> simp [loadByNumber] at hl
      | cons x xs => rw [List.getLast?_cons_cons, ← hl, ih]

/-- thumbnails -/
theorem c15_thumbs_contiguous (n dur : Nat) : ContigTable (loadThumbs n dur) := by
  unfold loadThumbs
  induction n with
  | zero => simp [ContigTable]
  | succ n ih =>
    rw [List.range_succ, List.map_append]
    cases n with
    | zero => simp [ContigTable]
    | succ m =>
      rw [List.range_succ, List.map_append] at ih ⊢
      have key : ∀ (l : List (Nat × Nat)) (a b : Nat × Nat), ContigTable (l ++ [a]) → a.2 = b.1 → ContigTable (l ++ [a] ++ [b]) := by
        intro l
        induction l with
        | nil => intro a b _ h; simp [ContigTable, h]
        | cons x t iht =>
          intro a b hc h
          cases t with
          | nil => simp only [List.cons_append, List.nil_append, ContigTable] at hc ⊢; exact ⟨hc.1, h, trivial⟩
          | cons y t' =>
            simp only [List.cons_append, ContigTable] at hc ⊢
            exact ⟨hc.1, by simpa using iht a b (by simpa using hc.2) h⟩
      exact key _ _ _ ih (by simp [Nat.add_mul])

example : loadByNumber [(0, 96256), (96000, 192512), (192000, 288000)] = [(0, 96000), (96000, 192000), (192000, 288000)] := by decide

end Load
