import LivesimVerif.Model.Core
/-!
# C04 — Each segment goes too-early → available → gone, at exactly the right instants

`Core.checkTime` is `CheckTimeValidity` in exact arithmetic; `availNum / T` seconds is the availability instant
*before* the offset (segment end + wraps + availabilityStartTime, in ticks).  All theorems quantify over every
tick count, timescale, instant, buffer depth and offset.
-/
namespace Core

/-- the phase of an answer: 0 = 425, 1 = 200, 2 = 410 -/
def phase : Status → Nat
  | .tooEarly _ => 0
  | .ok => 1
  | .gone => 2
  | _ => 3

/-- availability instant minus offset, scaled by 1000·T (exact) -/
def availScaled (availNum T a : Nat) : Int := (availNum : Int) * 1000 - (a : Int) * T
/-- request instant scaled by 1000·T -/
def nowScaled (nowMS T : Nat) : Int := (nowMS : Int) * T
/-- window length (tsbd + margin) scaled by 1000·T -/
def windowScaled (tsbdS T : Nat) : Int := ((tsbdS + marginS : Nat) : Int) * 1000 * T

theorem checkTime_cases (availNum T nowMS tsbdS a : Nat) :
    (availScaled availNum T a > nowScaled nowMS T ∧ phase (checkTime availNum T nowMS tsbdS (.ms a)) = 0) ∨
    (availScaled availNum T a ≤ nowScaled nowMS T ∧
      nowScaled nowMS T ≤ availScaled availNum T a + windowScaled tsbdS T ∧
      checkTime availNum T nowMS tsbdS (.ms a) = .ok) ∨
    (nowScaled nowMS T > availScaled availNum T a + windowScaled tsbdS T ∧
      checkTime availNum T nowMS tsbdS (.ms a) = .gone) := by
  unfold checkTime availScaled nowScaled windowScaled
  simp only
  by_cases h1 : (availNum : Int) * 1000 - (a : Int) * T > (nowMS : Int) * T
  · left; simp [h1, phase]
  · simp only [h1, ↓reduceIte]
    by_cases h2 : (availNum : Int) * 1000 - (a : Int) * T < (nowMS : Int) * T - ((tsbdS + marginS : Nat) : Int) * 1000 * T
    · right; right; simp only [h2, ↓reduceIte, and_true]; omega
    · right; left; simp only [h2, ↓reduceIte, and_true]; omega

/-- **Exact availability**: with a finite offset the answer is 200 iff
`avail − ato ≤ now ≤ avail − ato + tsbd + margin` (all in exact arithmetic). -/
theorem c04_available_iff (availNum T nowMS tsbdS a : Nat) :
    checkTime availNum T nowMS tsbdS (.ms a) = .ok ↔
      availScaled availNum T a ≤ nowScaled nowMS T ∧
      nowScaled nowMS T ≤ availScaled availNum T a + windowScaled tsbdS T := by
  rcases checkTime_cases availNum T nowMS tsbdS a with h | h | h
  · constructor
    · intro hc; rw [hc] at h; simp [phase] at h
    · intro hc; omega
  · exact ⟨fun _ => ⟨h.1, h.2.1⟩, fun _ => h.2.2⟩
  · constructor
    · intro hc; rw [hc] at h; exact absurd h.2 (by simp)
    · intro hc; omega

/-- 425 exactly before the availability instant, 410 exactly after the window. -/
theorem c04_too_early_iff (availNum T nowMS tsbdS a : Nat) :
    phase (checkTime availNum T nowMS tsbdS (.ms a)) = 0 ↔ nowScaled nowMS T < availScaled availNum T a := by
  rcases checkTime_cases availNum T nowMS tsbdS a with h | h | h
  · exact ⟨fun _ => h.1, fun _ => h.2⟩
  · constructor
    · intro hc; rw [h.2.2] at hc; simp [phase] at hc
    · intro hc; omega
  · constructor
    · intro hc; rw [h.2] at hc; simp [phase] at hc
    · intro hc
      have : windowScaled tsbdS T ≥ 0 := by
        unfold windowScaled; exact Int.mul_nonneg (Int.mul_nonneg (Int.natCast_nonneg _) (by decide)) (Int.natCast_nonneg _)
      omega

theorem windowScaled_nonneg (tsbdS T : Nat) : 0 ≤ windowScaled tsbdS T := by
  unfold windowScaled
  exact Int.mul_nonneg (Int.mul_nonneg (Int.natCast_nonneg _) (by decide)) (Int.natCast_nonneg _)

/-- **Monotone phases**: for a fixed segment, as wall-clock time increases the answer only moves
425 → 200 → 410 and never back. -/
theorem c04_monotone (availNum T tsbdS : Nat) (ato : Ato) (now₁ now₂ : Nat) (h : now₁ ≤ now₂) :
    phase (checkTime availNum T now₁ tsbdS ato) ≤ phase (checkTime availNum T now₂ tsbdS ato) := by
  cases ato with
  | inf => simp [checkTime]
  | ms a =>
    have hn : nowScaled now₁ T ≤ nowScaled now₂ T := by
      unfold nowScaled
      exact Int.mul_le_mul_of_nonneg_right (Int.ofNat_le.mpr h) (Int.natCast_nonneg _)
    have hw := windowScaled_nonneg tsbdS T
    rcases checkTime_cases availNum T now₁ tsbdS a with h1 | h1 | h1 <;>
    rcases checkTime_cases availNum T now₂ tsbdS a with h2 | h2 | h2
    · rw [h1.2, h2.2]; exact Nat.le_refl _
    · rw [h1.2, h2.2.2]; simp [phase]
    · rw [h1.2, h2.2]; simp [phase]
    · omega
    · rw [h1.2.2, h2.2.2]; exact Nat.le_refl _
    · rw [h1.2.2, h2.2]; simp [phase]
    · omega
    · omega
    · rw [h1.2, h2.2]; exact Nat.le_refl _

/-- Available for at least timeShiftBufferDepth after the availability instant. -/
theorem c04_at_least_tsbd (availNum T nowMS tsbdS a : Nat)
    (h1 : availScaled availNum T a ≤ nowScaled nowMS T)
    (h2 : nowScaled nowMS T ≤ availScaled availNum T a + (tsbdS : Int) * 1000 * T) :
    checkTime availNum T nowMS tsbdS (.ms a) = .ok := by
  rw [c04_available_iff]
  refine ⟨h1, ?_⟩
  unfold windowScaled
  have : (tsbdS : Int) * 1000 * T ≤ ((tsbdS + marginS : Nat) : Int) * 1000 * T := by
    apply Int.mul_le_mul_of_nonneg_right _ (Int.natCast_nonneg _)
    apply Int.mul_le_mul_of_nonneg_right _ (by decide)
    exact Int.ofNat_le.mpr (Nat.le_add_right _ _)
  omega

/-- An infinite offset makes the segment available at any instant (from stream start: the pre-check of the
handler refuses requests before availabilityStartTime). -/
theorem c04_inf_ato (availNum T nowMS tsbdS : Nat) : checkTime availNum T nowMS tsbdS .inf = .ok := rfl

/-- The 425 body states the remaining time rounded to the nearest millisecond:
`|ms·T − (avail − now)·1000·T| ≤ T/2` in the scaled units. -/
theorem c04_remaining_ms (availNum T nowMS tsbdS a ms : Nat) (hT : 0 < T)
    (h : checkTime availNum T nowMS tsbdS (.ms a) = .tooEarly ms) :
    let d := availScaled availNum T a - nowScaled nowMS T
    2 * ((ms : Int) * T) ≤ 2 * d + T ∧ 2 * d + T < 2 * ((ms : Int) * T) + 2 * T := by
  unfold checkTime at h
  simp only at h
  unfold availScaled nowScaled
  by_cases h1 : (availNum : Int) * 1000 - (a : Int) * T > (nowMS : Int) * T
  · simp only [h1, ↓reduceIte] at h
    injection h with h
    generalize hd : (availNum : Int) * 1000 - (a : Int) * T - (nowMS : Int) * T = d at h ⊢
    have hdpos : 0 < d := by omega
    have hT' : (0 : Int) < 2 * T := by omega
    have hq := Int.mul_ediv_add_emod (2 * d + T) (2 * T)
    have hr := Int.emod_nonneg (2 * d + T) (show (2 * (T : Int)) ≠ 0 by omega)
    have hr2 := Int.emod_lt_of_pos (2 * d + T) hT'
    have hnn : 0 ≤ (2 * d + T) / (2 * T) := Int.ediv_nonneg (by omega) (by omega)
    have hms : (ms : Int) = (2 * d + T) / (2 * T) := by
      rw [← h]; exact (Int.toNat_of_nonneg hnn)
    simp only
    rw [hms]
    generalize (2 * d + ↑T) / (2 * ↑T) = q at *
    generalize (2 * d + ↑T) % (2 * ↑T) = rr at *
    have e : 2 * ↑T * q = 2 * (q * ↑T) := by rw [Int.mul_assoc, Int.mul_comm (T : Int) q]
    omega
  · simp only [h1, ↓reduceIte] at h
    split at h <;> cases h

/-- 404: a number below startNumber is refused before any table lookup (video/text/image path). -/
theorem c04_404_below_startnr (a : Asset) (r : Rep) (cfg : Cfg) (segId nowMS : Nat)
    (hm : cfg.mpdType ≠ .timelineTime ∨ r.kind = .image)
    (h : segId % 4294967296 < cfg.startNr % 4294967296) :
    lookupVideo a r cfg segId nowMS = .status .notFound := by
  unfold lookupVideo
  by_cases hi : r.kind = .image
  · simp [hi, h]
  · simp only [hi, ↓reduceIte]
    cases hty : cfg.mpdType with
    | timelineTime => rcases hm with hm | hm <;> simp_all
    | number => simp [h]
    | timelineNumber => simp [h]

/-- non-vacuity: a 2 s segment ending at 4 s, 90 kHz, tsbd 60: too early by 1 ms at 3999, 200 at 4000 and
at 74000, gone at 74001. -/
example : checkTime 360000 90000 3999 60 (.ms 0) = .tooEarly 1 := by decide
example : checkTime 360000 90000 4000 60 (.ms 0) = .ok := by decide
example : checkTime 360000 90000 74000 60 (.ms 0) = .ok := by decide
example : checkTime 360000 90000 74001 60 (.ms 0) = .gone := by decide

end Core
