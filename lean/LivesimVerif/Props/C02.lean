import LivesimVerif.Lemmas.Mpd
import LivesimVerif.Props.C04
/-!
# C02 — The live MPD and the segment server agree on what is available

`genTimeline` models `generateTimelineEntries` (with the `fix:` commits: one floor conversion, carry into the next
loop), `checkTime` the segment handler's availability test.  Hypotheses: `Contig r`, `Closes a r` (C01) and
`a.loopMS * r.T = 1000 * r.dur` (what `consolidateAsset` admits).  `x = nowMS − 1000·startS`.
Partial: the *first* listed entry is proved to be a real output segment, but "served (not yet Gone)" for it needs
`segment duration ≤ 10 s` and is covered by the correspondence/monitors only (known finding F-C02-1 for 12 s segments).
-/
namespace Core

/-- The SegmentTimeline is contiguous: every entry starts where the previous one ends. -/
theorem c02_timeline_contiguous (r : Rep) (first count t i : Nat) (hi : i + 1 < (listFrom r first count t).length) :
    ((listFrom r first count t).getD (i+1) (0,0)).1 =
      ((listFrom r first count t).getD i (0,0)).1 + ((listFrom r first count t).getD i (0,0)).2 :=
  listFrom_contiguous r first count t i hi

/-- The listed entries are exactly the output segments `first … first+count−1` of the looped timeline: the j-th
entry has the decode time `S (first+j)` and the duration of its VoD source — the values the segment handler
returns for these segments (C01). -/
theorem c02_entries_are_segments (a : Asset) (r : Rep) (h : Contig r) (hc : Closes a r) (first count : Nat) :
    listFrom r first count (S a r first) = (List.range' first count).map (fun k => (S a r k, segDur r k)) :=
  listFrom_spec a r h hc first count

/-- ticks elapsed (plus offset) at the instant `x` ms after stream start: the argument of the edge search after the
carry into the wrap count -/
theorem edge_instant (a : Asset) (r : Rep) (hadm : a.loopMS * r.T = 1000 * r.dur) (hc : Closes a r)
    (x atoMS : Nat) (hl : 0 < a.loopMS) (hD : 0 < r.dur) :
    let relNow := (x % a.loopMS + atoMS) * r.T / 1000
    (x / a.loopMS + relNow / r.dur) * wrapDur a r + relNow % r.dur = (x + atoMS) * r.T / 1000 := by
  intro relNow
  rw [hc.1]
  have e1 : (x / a.loopMS + relNow / r.dur) * r.dur + relNow % r.dur = x / a.loopMS * r.dur + relNow := by
    rw [Nat.add_mul]
    have := Nat.div_add_mod relNow r.dur
    rw [Nat.mul_comm] at this
    omega
  rw [e1]
  have hx := Nat.div_add_mod x a.loopMS
  have e2 : (x + atoMS) * r.T = 1000 * (x / a.loopMS * r.dur) + (x % a.loopMS + atoMS) * r.T := by
    have : 1000 * (x / a.loopMS * r.dur) = x / a.loopMS * (a.loopMS * r.T) := by
      rw [hadm, Nat.mul_left_comm]
    rw [this, ← Nat.mul_assoc, ← Nat.add_mul, Nat.mul_comm (x / a.loopMS) a.loopMS]
    congr 1; omega
  rw [e2, Nat.mul_add_div (by decide : 0 < 1000)]

/-- **The MPD's live edge is the segment handler's live edge.**  If the edge search returns segment `k` for the
instant `x` ms after stream start and offset `atoMS`, then segment `k` is *not too early* for the handler at that
instant and segment `k+1` *is* too early: the last SegmentTimeline entry is the newest segment that has ended (less
availabilityTimeOffset), and the one just after it is refused with 425. -/
theorem c02_edge_matches_server (a : Asset) (r : Rep) (h : Contig r) (hc : Closes a r)
    (hadm : a.loopMS * r.T = 1000 * r.dur) (hl : 0 < a.loopMS)
    (startS nowMS tsbdS atoMS : Nat) (hnow : startS * 1000 ≤ nowMS) (w' i : Nat)
    (he : let x := nowMS - startS * 1000
          let relNow := (x % a.loopMS + atoMS) * r.T / 1000
          edgeIdx r (x / a.loopMS + relNow / r.dur) (relNow % r.dur) = some (w', i)) :
    phase (checkTime (E a r (r.N * w' + i) + startS * r.T) r.T nowMS tsbdS (.ms atoMS)) ≥ 1 ∧
    phase (checkTime (E a r (r.N * w' + i + 1) + startS * r.T) r.T nowMS tsbdS (.ms atoMS)) = 0 := by
  simp only at he
  have hb := contig_stop_le_dur a r h hc 0 h.1
  have hD : 0 < r.dur := by rw [← hc.1]; omega
  have hmod : ((nowMS - startS * 1000) % a.loopMS + atoMS) * r.T / 1000 % r.dur < wrapDur a r := by
    rw [hc.1]; exact Nat.mod_lt _ hD
  have sp := edgeIdx_spec a r h hc _ _ w' i hmod he
  have ei := edge_instant a r hadm hc (nowMS - startS * 1000) atoMS hl hD
  simp only at ei
  rw [ei] at sp
  -- τ = ⌊(x+ato)·T/1000⌋ : E k ≤ τ < E (k+1)
  generalize hτ : (nowMS - startS * 1000 + atoMS) * r.T / 1000 = τ at sp
  have hdm := Nat.div_add_mod ((nowMS - startS * 1000 + atoMS) * r.T) 1000
  have hml := Nat.mod_lt ((nowMS - startS * 1000 + atoMS) * r.T) (by decide : 0 < 1000)
  rw [hτ] at hdm
  constructor
  · have : ¬ phase (checkTime (E a r (r.N * w' + i) + startS * r.T) r.T nowMS tsbdS (.ms atoMS)) = 0 := by
      rw [c04_too_early_iff]
      unfold nowScaled availScaled
      have := notEarly_of (E a r (r.N * w' + i)) startS r.T nowMS atoMS τ sp.2.1 (by omega) hnow
      omega
    omega
  · rw [c04_too_early_iff]
    unfold nowScaled availScaled
    exact early_of (E a r (r.N * w' + i + 1)) startS r.T nowMS atoMS τ sp.2.2 (by omega) hnow

/-- non-vacuity: testpic_2s V300 at 100.3 s after start, no offset: the edge search returns segment 49
(`w' = 12, i = 1`): `[98 s, 100 s)` has ended, `[100 s, 102 s)` has not. -/
example : edgeIdx exRep (100300 / 8000) ((100300 % 8000) * 90000 / 1000 % 720000) = some (12, 1) := by decide

end Core
