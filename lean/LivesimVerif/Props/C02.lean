import LivesimVerif.Lemmas.Mpd
import LivesimVerif.Props.C04
/-!
# C02 — The live MPD and the segment server agree on what is available

`genTimeline` models `generateTimelineEntries` (with the `fix:` commits: one floor conversion, carry into the next
loop), `checkTime` the segment handler's availability test.  Hypotheses: `Contig r`, `Closes a r` (C01) and
`a.loopMS * r.T = 1000 * r.dur` (what `consolidateAsset` admits).  `x = nowMS − 1000·startS`.
Partial: the *first* listed entry is proved to be a real output segment, but "served (not yet Gone)" for it needs
`segment duration ≤ 10 s` and is covered by the correspondence/monitors only (known finding F-C02-1 for 12 s segments).
-/
namespace Core

/-- The SegmentTimeline is contiguous: every entry starts where the previous one ends. -/
theorem c02_timeline_contiguous (r : Rep) (first count t i : Nat) (hi : i + 1 < (listFrom r first count t).length) :
    ((listFrom r first count t).getD (i+1) (0,0)).1 =
      ((listFrom r first count t).getD i (0,0)).1 + ((listFrom r first count t).getD i (0,0)).2 :=
  listFrom_contiguous r first count t i hi

/-- The listed entries are exactly the output segments `first … first+count−1` of the looped timeline: the j-th
entry has the decode time `S (first+j)` and the duration of its VoD source — the values the segment handler
returns for these segments (C01). -/
theorem c02_entries_are_segments (a : Asset) (r : Rep) (h : Contig r) (hc : Closes a r) (first count : Nat) :
    listFrom r first count (S a r first) = (List.range' first count).map (fun k => (S a r k, segDur r k)) :=
  listFrom_spec a r h hc first count

/-- **The MPD's live edge is the segment handler's live edge.**  If the edge search returns segment `k` for the
instant `x` ms after stream start and offset `atoMS`, then segment `k` is *not too early* for the handler at that
instant and segment `k+1` *is* too early: the last SegmentTimeline entry is the newest segment that has ended (less
availabilityTimeOffset), and the one just after it is refused with 425. -/
theorem c02_edge_matches_server (a : Asset) (r : Rep) (h : Contig r) (hc : Closes a r)
    (hadm : a.loopMS * r.T = 1000 * r.dur) (hl : 0 < a.loopMS)
    (startS nowMS tsbdS atoMS : Nat) (hnow : startS * 1000 ≤ nowMS) (w' i : Nat)
    (he : let x := nowMS - startS * 1000
          let relNow := (x % a.loopMS + atoMS) * r.T / 1000
          edgeIdx r (x / a.loopMS + relNow / r.dur) (relNow % r.dur) = some (w', i)) :
    phase (checkTime (E a r (r.N * w' + i) + startS * r.T) r.T nowMS tsbdS (.ms atoMS)) ≥ 1 ∧
    phase (checkTime (E a r (r.N * w' + i + 1) + startS * r.T) r.T nowMS tsbdS (.ms atoMS)) = 0 := by
  simp only at he
  have hb := contig_stop_le_dur a r h hc 0 h.1
  have hD : 0 < r.dur := by rw [← hc.1]; omega
  have hmod : ((nowMS - startS * 1000) % a.loopMS + atoMS) * r.T / 1000 % r.dur < wrapDur a r := by
    rw [hc.1]; exact Nat.mod_lt _ hD
  have sp := edgeIdx_spec a r h hc _ _ w' i hmod he
  have ei := edge_instant a r hadm hc (nowMS - startS * 1000) atoMS hl hD
  simp only at ei
  rw [ei] at sp
  -- τ = ⌊(x+ato)·T/1000⌋ : E k ≤ τ < E (k+1)
  generalize hτ : (nowMS - startS * 1000 + atoMS) * r.T / 1000 = τ at sp
  have hdm := Nat.div_add_mod ((nowMS - startS * 1000 + atoMS) * r.T) 1000
  have hml := Nat.mod_lt ((nowMS - startS * 1000 + atoMS) * r.T) (by decide : 0 < 1000)
  rw [hτ] at hdm
  constructor
  · have : ¬ phase (checkTime (E a r (r.N * w' + i) + startS * r.T) r.T nowMS tsbdS (.ms atoMS)) = 0 := by
      rw [c04_too_early_iff]
      unfold nowScaled availScaled
      have := notEarly_of (E a r (r.N * w' + i)) startS r.T nowMS atoMS τ sp.2.1 (by omega) hnow
      omega
    omega
  · rw [c04_too_early_iff]
    unfold nowScaled availScaled
    exact early_of (E a r (r.N * w' + i + 1)) startS r.T nowMS atoMS τ sp.2.2 (by omega) hnow

/-- from the tick comparison to the handler's decision -/
theorem tau_not_early (a : Asset) (r : Rep) (startS nowMS tsbdS atoMS k : Nat) (hnow : startS * 1000 ≤ nowMS)
    (h : E a r k ≤ (nowMS - startS * 1000 + atoMS) * r.T / 1000) :
    phase (checkTime (E a r k + startS * r.T) r.T nowMS tsbdS (.ms atoMS)) ≥ 1 := by
  generalize hτ : (nowMS - startS * 1000 + atoMS) * r.T / 1000 = τ at h
  have hdm := Nat.div_add_mod ((nowMS - startS * 1000 + atoMS) * r.T) 1000
  rw [hτ] at hdm
  have : ¬ phase (checkTime (E a r k + startS * r.T) r.T nowMS tsbdS (.ms atoMS)) = 0 := by
    rw [c04_too_early_iff]
    unfold nowScaled availScaled
    have := notEarly_of (E a r k) startS r.T nowMS atoMS τ h (by omega) hnow
    omega
  omega

theorem tau_early (a : Asset) (r : Rep) (startS nowMS tsbdS atoMS k : Nat) (hnow : startS * 1000 ≤ nowMS)
    (h : (nowMS - startS * 1000 + atoMS) * r.T / 1000 < E a r k) :
    phase (checkTime (E a r k + startS * r.T) r.T nowMS tsbdS (.ms atoMS)) = 0 := by
  generalize hτ : (nowMS - startS * 1000 + atoMS) * r.T / 1000 = τ at h
  have hdm := Nat.div_add_mod ((nowMS - startS * 1000 + atoMS) * r.T) 1000
  have hml := Nat.mod_lt ((nowMS - startS * 1000 + atoMS) * r.T) (by decide : 0 < 1000)
  rw [hτ] at hdm
  rw [c04_too_early_iff]
  unfold nowScaled availScaled
  exact early_of (E a r k) startS r.T nowMS atoMS τ h (by omega) hnow

/-- **The last SegmentTimeline entry is the newest segment that has ended (less availabilityTimeOffset)** — stated on
what `generateTimelineEntries` returns, not only on its edge search: either nothing is listed and the handler refuses
even segment 0 as too early, or the list is not empty, its last number `startNr + length − 1` is a segment the handler
does not refuse as too early, and the next number is refused with 425. -/
theorem c02_last_entry_newest_ended (a : Asset) (r : Rep) (h : Contig r) (hc : Closes a r)
    (hadm : a.loopMS * r.T = 1000 * r.dur) (hl : 0 < a.loopMS)
    (startS nowMS tsbdS atoMS : Nat) (hnow : startS * 1000 ≤ nowMS) :
    ((genTimeline r (calcWrapTimes a startS nowMS tsbdS) atoMS).entries = [] ∧
      phase (checkTime (E a r 0 + startS * r.T) r.T nowMS tsbdS (.ms atoMS)) = 0) ∨
    (∃ k : Nat, (genTimeline r (calcWrapTimes a startS nowMS tsbdS) atoMS).startNr +
        ((genTimeline r (calcWrapTimes a startS nowMS tsbdS) atoMS).entries.length : Int) - 1 = (k : Int) ∧
      (genTimeline r (calcWrapTimes a startS nowMS tsbdS) atoMS).entries ≠ [] ∧
      phase (checkTime (E a r k + startS * r.T) r.T nowMS tsbdS (.ms atoMS)) ≥ 1 ∧
      phase (checkTime (E a r (k + 1) + startS * r.T) r.T nowMS tsbdS (.ms atoMS)) = 0) := by
  rcases genTimeline_last a r h hc hadm hl startS nowMS tsbdS atoMS hnow with ⟨_, he, ht⟩ | ⟨k, hk, _, hne, h1, h2⟩
  · exact Or.inl ⟨he, tau_early a r startS nowMS tsbdS atoMS 0 hnow ht⟩
  · exact Or.inr ⟨k, hk, hne, tau_not_early a r startS nowMS tsbdS atoMS k hnow h1,
      tau_early a r startS nowMS tsbdS atoMS (k + 1) hnow h2⟩

/-- non-vacuity: testpic_2s V300 at 100.3 s after start, no offset: the edge search returns segment 49
(`w' = 12, i = 1`): `[98 s, 100 s)` has ended, `[100 s, 102 s)` has not. -/
example : edgeIdx exRep (100300 / 8000) ((100300 % 8000) * 90000 / 1000 % 720000) = some (12, 1) := by decide

end Core
