import LivesimVerif.Lemmas.Mpd
import LivesimVerif.Lemmas.Trans
import LivesimVerif.Props.C04
/-!
# C02 — The live MPD and the segment server agree on what is available

`genTimeline` models `generateTimelineEntries` (with the `fix:` commits: one floor conversion, carry into the next
loop), `checkTime` the segment handler's availability test.  Hypotheses: `Contig r`, `Closes a r` (C01) and
`a.loopMS * r.T = 1000 * r.dur` (what `consolidateAsset` admits).  `x = nowMS − 1000·startS`.
The last listed entry is the newest ended segment (`c02_last_entry_newest_ended`); the first listed entry is not yet
Gone when no segment is longer than the handler's 10 s margin (`c02_first_entry_not_gone`), and the hypothesis is
needed: `c02_first_entry_gone_counterexample` is known finding F-C02-1 (12 s segments), decided in the model and
reproduced on the implementation by the monitor.
-/
namespace Core

/-- The SegmentTimeline is contiguous: every entry starts where the previous one ends. -/
theorem c02_timeline_contiguous (r : Rep) (first count t i : Nat) (hi : i + 1 < (listFrom r first count t).length) :
    ((listFrom r first count t).getD (i+1) (0,0)).1 =
      ((listFrom r first count t).getD i (0,0)).1 + ((listFrom r first count t).getD i (0,0)).2 :=
  listFrom_contiguous r first count t i hi

/-- The listed entries are exactly the output segments `first … first+count−1` of the looped timeline: the j-th
entry has the decode time `S (first+j)` and the duration of its VoD source — the values the segment handler
returns for these segments (C01). -/
theorem c02_entries_are_segments (a : Asset) (r : Rep) (h : Contig r) (hc : Closes a r) (first count : Nat) :
    listFrom r first count (S a r first) = (List.range' first count).map (fun k => (S a r k, segDur r k)) :=
  listFrom_spec a r h hc first count

/-- **The MPD's live edge is the segment handler's live edge.**  If the edge search returns segment `k` for the
instant `x` ms after stream start and offset `atoMS`, then segment `k` is *not too early* for the handler at that
instant and segment `k+1` *is* too early: the last SegmentTimeline entry is the newest segment that has ended (less
availabilityTimeOffset), and the one just after it is refused with 425. -/
theorem c02_edge_matches_server (a : Asset) (r : Rep) (h : Contig r) (hc : Closes a r)
    (hadm : a.loopMS * r.T = 1000 * r.dur) (hl : 0 < a.loopMS)
    (startS nowMS tsbdS atoMS : Nat) (hnow : startS * 1000 ≤ nowMS) (w' i : Nat)
    (he : let x := nowMS - startS * 1000
          let relNow := (x % a.loopMS + atoMS) * r.T / 1000
          edgeIdx r (x / a.loopMS + relNow / r.dur) (relNow % r.dur) = some (w', i)) :
    phase (checkTime (E a r (r.N * w' + i) + startS * r.T) r.T nowMS tsbdS (.ms atoMS)) ≥ 1 ∧
    phase (checkTime (E a r (r.N * w' + i + 1) + startS * r.T) r.T nowMS tsbdS (.ms atoMS)) = 0 := by
  simp only at he
  have hb := contig_stop_le_dur a r h hc 0 h.1
  have hD : 0 < r.dur := by rw [← hc.1]; omega
  have hmod : ((nowMS - startS * 1000) % a.loopMS + atoMS) * r.T / 1000 % r.dur < wrapDur a r := by
    rw [hc.1]; exact Nat.mod_lt _ hD
  have sp := edgeIdx_spec a r h hc _ _ w' i hmod he
  have ei := edge_instant a r hadm hc (nowMS - startS * 1000) atoMS hl hD
  simp only at ei
  rw [ei] at sp
  -- τ = ⌊(x+ato)·T/1000⌋ : E k ≤ τ < E (k+1)
  generalize hτ : (nowMS - startS * 1000 + atoMS) * r.T / 1000 = τ at sp
  have hdm := Nat.div_add_mod ((nowMS - startS * 1000 + atoMS) * r.T) 1000
  have hml := Nat.mod_lt ((nowMS - startS * 1000 + atoMS) * r.T) (by decide : 0 < 1000)
  rw [hτ] at hdm
  constructor
  · have : ¬ phase (checkTime (E a r (r.N * w' + i) + startS * r.T) r.T nowMS tsbdS (.ms atoMS)) = 0 := by
      rw [c04_too_early_iff]
      unfold nowScaled availScaled
      have := notEarly_of (E a r (r.N * w' + i)) startS r.T nowMS atoMS τ sp.2.1 (by omega) hnow
      omega
    omega
  · rw [c04_too_early_iff]
    unfold nowScaled availScaled
    exact early_of (E a r (r.N * w' + i + 1)) startS r.T nowMS atoMS τ sp.2.2 (by omega) hnow

/-- from the tick comparison to the handler's decision -/
theorem tau_not_early (a : Asset) (r : Rep) (startS nowMS tsbdS atoMS k : Nat) (hnow : startS * 1000 ≤ nowMS)
    (h : E a r k ≤ (nowMS - startS * 1000 + atoMS) * r.T / 1000) :
    phase (checkTime (E a r k + startS * r.T) r.T nowMS tsbdS (.ms atoMS)) ≥ 1 := by
  generalize hτ : (nowMS - startS * 1000 + atoMS) * r.T / 1000 = τ at h
  have hdm := Nat.div_add_mod ((nowMS - startS * 1000 + atoMS) * r.T) 1000
  rw [hτ] at hdm
  have : ¬ phase (checkTime (E a r k + startS * r.T) r.T nowMS tsbdS (.ms atoMS)) = 0 := by
    rw [c04_too_early_iff]
    unfold nowScaled availScaled
    have := notEarly_of (E a r k) startS r.T nowMS atoMS τ h (by omega) hnow
    omega
  omega

theorem tau_early (a : Asset) (r : Rep) (startS nowMS tsbdS atoMS k : Nat) (hnow : startS * 1000 ≤ nowMS)
    (h : (nowMS - startS * 1000 + atoMS) * r.T / 1000 < E a r k) :
    phase (checkTime (E a r k + startS * r.T) r.T nowMS tsbdS (.ms atoMS)) = 0 := by
  generalize hτ : (nowMS - startS * 1000 + atoMS) * r.T / 1000 = τ at h
  have hdm := Nat.div_add_mod ((nowMS - startS * 1000 + atoMS) * r.T) 1000
  have hml := Nat.mod_lt ((nowMS - startS * 1000 + atoMS) * r.T) (by decide : 0 < 1000)
  rw [hτ] at hdm
  rw [c04_too_early_iff]
  unfold nowScaled availScaled
  exact early_of (E a r k) startS r.T nowMS atoMS τ h (by omega) hnow

/-- **The last SegmentTimeline entry is the newest segment that has ended (less availabilityTimeOffset)** — stated on
what `generateTimelineEntries` returns, not only on its edge search: either nothing is listed and the handler refuses
even segment 0 as too early, or the list is not empty, its last number `startNr + length − 1` is a segment the handler
does not refuse as too early, and the next number is refused with 425. -/
theorem c02_last_entry_newest_ended (a : Asset) (r : Rep) (h : Contig r) (hc : Closes a r)
    (hadm : a.loopMS * r.T = 1000 * r.dur) (hl : 0 < a.loopMS)
    (startS nowMS tsbdS atoMS : Nat) (hnow : startS * 1000 ≤ nowMS) :
    ((genTimeline r (calcWrapTimes a startS nowMS tsbdS) atoMS).entries = [] ∧
      phase (checkTime (E a r 0 + startS * r.T) r.T nowMS tsbdS (.ms atoMS)) = 0) ∨
    (∃ k : Nat, (genTimeline r (calcWrapTimes a startS nowMS tsbdS) atoMS).startNr +
        ((genTimeline r (calcWrapTimes a startS nowMS tsbdS) atoMS).entries.length : Int) - 1 = (k : Int) ∧
      (genTimeline r (calcWrapTimes a startS nowMS tsbdS) atoMS).entries ≠ [] ∧
      phase (checkTime (E a r k + startS * r.T) r.T nowMS tsbdS (.ms atoMS)) ≥ 1 ∧
      phase (checkTime (E a r (k + 1) + startS * r.T) r.T nowMS tsbdS (.ms atoMS)) = 0) := by
  rcases genTimeline_last a r h hc hadm hl startS nowMS tsbdS atoMS hnow with ⟨_, he, ht⟩ | ⟨k, hk, _, hne, h1, h2⟩
  · exact Or.inl ⟨he, tau_early a r startS nowMS tsbdS atoMS 0 hnow ht⟩
  · exact Or.inr ⟨k, hk, hne, tau_not_early a r startS nowMS tsbdS atoMS k hnow h1,
      tau_early a r startS nowMS tsbdS atoMS (k + 1) hnow h2⟩

def now_bound (now tsbd startS ato T Es : Nat) : Prop :=
  now * T + ato * T < (Es + startS * T) * 1000 + (tsbd * T + 10 * T) * 1000

theorem first_bound (now xs tsbd startS ato T Es D : Nat) (h1 : now ≤ xs + tsbd * 1000 + startS * 1000)
    (h2 : (xs + ato) * T < (Es + D) * 1000) (hD : D ≤ 10 * T) : now_bound now tsbd startS ato T Es := by
  unfold now_bound
  have h3 : now * T ≤ xs * T + tsbd * T * 1000 + startS * T * 1000 := by
    have := Nat.mul_le_mul_right T h1
    have e : (xs + tsbd * 1000 + startS * 1000) * T = xs * T + tsbd * T * 1000 + startS * T * 1000 := by
      rw [Nat.add_mul, Nat.add_mul, Nat.mul_right_comm tsbd, Nat.mul_right_comm startS]
    omega
  rw [Nat.add_mul] at h2
  generalize now * T = A at *
  generalize xs * T = B at *
  generalize ato * T = C at *
  generalize tsbd * T = F at *
  generalize startS * T = G at *
  omega

theorem not_gone_of_bound (avail now tsbd startS ato T : Nat) (hb : now_bound now tsbd startS ato T avail) :
    ¬ nowScaled now T > availScaled (avail + startS * T) T ato + windowScaled tsbd T := by
  unfold now_bound at hb
  unfold nowScaled availScaled windowScaled marginS
  rw [Int.mul_right_comm (((tsbd + 10 : Nat) : Int)) 1000 (T : Int), ← Int.natCast_mul (tsbd + 10) T, ← Int.natCast_mul now T,
    ← Int.natCast_mul ato T, Nat.add_mul tsbd 10 T]
  generalize now * T = A at *
  generalize ato * T = C at *
  generalize tsbd * T = F at *
  generalize startS * T = G at *
  omega

/-- **The first SegmentTimeline entry is not older than the time-shift window allows**: when no segment of the
representation is longer than the handler's margin (`timeShiftBufferDepthMarginS` = 10 s), the first listed number is a
segment the handler does not answer with 410 at that instant.  (For longer segments the statement is false: known
finding F-C02-1, 12 s segments.) -/
theorem c02_first_entry_not_gone (a : Asset) (r : Rep) (h : Contig r) (hc : Closes a r)
    (hadm : a.loopMS * r.T = 1000 * r.dur) (hl : 0 < a.loopMS)
    (startS nowMS tsbdS atoMS : Nat) (hnow : startS * 1000 ≤ nowMS)
    (hdur : ∀ k, segDur r k ≤ marginS * r.T)
    (hne : (genTimeline r (calcWrapTimes a startS nowMS tsbdS) atoMS).entries ≠ []) :
    ∃ s : Nat, (genTimeline r (calcWrapTimes a startS nowMS tsbdS) atoMS).startNr = (s : Int) ∧
      checkTime (E a r s + startS * r.T) r.T nowMS tsbdS (.ms atoMS) ≠ .gone := by
  obtain ⟨s, xs, hs, hlo, hedge⟩ := genTimeline_first a r h hc hadm hl startS nowMS tsbdS atoMS hnow hne
  refine ⟨s, hs, ?_⟩
  have hdm := Nat.div_add_mod ((xs + atoMS) * r.T) 1000
  have hml := Nat.mod_lt ((xs + atoMS) * r.T) (by decide : 0 < 1000)
  have hb : now_bound nowMS tsbdS startS atoMS r.T (E a r s) := by
    rcases hedge with ⟨h0, hs0⟩ | ⟨_, h2⟩
    · subst hs0
      exact first_bound nowMS xs tsbdS startS atoMS r.T (E a r 0) 0 hlo (by omega) (by omega)
    · have hd := hdur (s + 1)
      have hE : E a r (s + 1) = E a r s + segDur r (s + 1) := E_succ a r h hc s
      unfold marginS at hd
      exact first_bound nowMS xs tsbdS startS atoMS r.T (E a r s) (segDur r (s + 1)) hlo (by omega) hd
  have hng := not_gone_of_bound (E a r s) nowMS tsbdS startS atoMS r.T hb
  intro hg
  rcases checkTime_cases (E a r s + startS * r.T) r.T nowMS tsbdS atoMS with ⟨_, hp⟩ | ⟨_, _, hp⟩ | ⟨hgt, _⟩
  · rw [hg] at hp; simp [phase] at hp
  · rw [hg] at hp; cases hp
  · exact hng hgt

/-- a representation with 12 s segments (the generated asset `gen_12s`: 25 Hz, two segments of 300 ticks) -/
def ex12Rep : Rep where
  id := "V"
  kind := .video
  T := 25
  segs := [⟨0, 300, 1⟩, ⟨300, 600, 2⟩]
  constSampleDur := 1
  sampleDur := 1
  preEnc := false
  stpp := false

def ex12Asset : Asset where
  name := "gen_12s"
  loopMS := 24000
  segDurMS := 12000
  refId := "V"
  reps := [ex12Rep]

/-- **The hypothesis of `c02_first_entry_not_gone` is needed** (known finding F-C02-1): with 12 s segments, at
131.9 s with a 60 s window the first listed number is 4 — the segment [48 s, 60 s) — which the handler answers with
410 (it ended more than 60 + 10 s ago), while the next segment has not ended at the window start 71.9 s. -/
theorem c02_first_entry_gone_counterexample :
    (genTimeline ex12Rep (calcWrapTimes ex12Asset 0 131900 60) 0).startNr = 4 ∧
    checkTime (E ex12Asset ex12Rep 4 + 0 * ex12Rep.T) ex12Rep.T 131900 60 (.ms 0) = .gone := by decide

/-- non-vacuity: testpic_2s V300 at 100.3 s after start, no offset: the edge search returns segment 49
(`w' = 12, i = 1`): `[98 s, 100 s)` has ended, `[100 s, 102 s)` has not. -/
example : edgeIdx exRep (100300 / 8000) ((100300 % 8000) * 90000 / 1000 % 720000) = some (12, 1) := by decide

/-! ## Implicit timelines: `SegmentTemplate@duration` + `startNumber` -/

/-- every segment of the table has the duration `d` -/
def Uniform (r : Rep) (d : Nat) : Prop := ∀ i, i < r.N → (r.seg i).stop = (r.seg i).start + d

theorem uniform_start (r : Rep) (d : Nat) (h : Contig r) (hu : Uniform r d) (h0 : (r.seg 0).start = 0) :
    ∀ i, i < r.N → (r.seg i).start = i * d
  | 0, _ => by simp [h0]
  | i + 1, hi => by
    have := h.2.2 i hi
    rw [← this, hu i (by omega), uniform_start r d h hu h0 i (by omega), Nat.add_mul, Nat.one_mul]

/-- **A duration template describes the served segments exactly** when all segments have the same duration `d`: the
`k`-th segment of the looped stream (number `startNumber + k` in the MPD) starts at `k·d` and ends at `(k+1)·d` on the
media timeline — the times a DASH client derives from `@duration`, `@startNumber` and the number — for every `k`, across
every loop wrap. -/
theorem c02_template_uniform (a : Asset) (r : Rep) (d : Nat) (h : Contig r) (hc : Closes a r) (hu : Uniform r d) (k : Nat) :
    S a r k = k * d ∧ E a r k = (k + 1) * d := by
  have hN := h.1
  have hstart := uniform_start r d h hu hc.2
  have hdur : r.dur = r.N * d := by
    have hne : r.segs.isEmpty = false := by
      unfold Rep.N at hN
      cases hs : r.segs with
      | nil => simp [hs] at hN
      | cons _ _ => simp
    unfold Rep.dur
    simp only [hne, Bool.false_eq_true, if_false]
    rw [hu (r.N - 1) (by omega), hstart (r.N - 1) (by omega), hc.2]
    have : (r.N - 1) * d + d = r.N * d := by
      have : r.N = r.N - 1 + 1 := by omega
      conv => rhs; rw [this, Nat.add_mul, Nat.one_mul]
    omega
  have hm : k % r.N < r.N := Nat.mod_lt _ hN
  have hsplit : k / r.N * (r.N * d) + k % r.N * d = k * d := by
    have := Nat.div_add_mod k r.N
    calc k / r.N * (r.N * d) + k % r.N * d = (r.N * (k / r.N) + k % r.N) * d := by
          rw [Nat.add_mul, Nat.mul_comm (k / r.N) (r.N * d), Nat.mul_assoc, Nat.mul_comm d (k / r.N), ← Nat.mul_assoc]
      _ = k * d := by rw [this]
  unfold S E
  rw [hc.1, hdur, hu (k % r.N) hm, hstart (k % r.N) hm]
  refine ⟨hsplit, ?_⟩
  rw [← Nat.add_assoc, hsplit, Nat.add_mul, Nat.one_mul]

/-- non-vacuity: `testpic_2s` video (4 segments of 180000 ticks, loop 8 s): segment 17 spans [17, 18)·180000 -/
example : S exAsset exRep 17 = 17 * 180000 ∧ E exAsset exRep 17 = 18 * 180000 := by decide

/-- **tie by translation**: `splitLoops` / `floorDiv`, translated from the current source (`Gen/Trans.lean`, regenerated
on every run), are the whole loops and the rest that `genTimeline` carries into its wrap counts (`rel / dur`, `rel % dur`;
everything stays in the rest for a loop of duration 0) -/
theorem c02_trans_splitLoops (rel L : Nat) :
    Gen.Trans.splitLoops (rel : Int) (L : Int) =
      if L = 0 then ((0 : Int), (rel : Int)) else (((rel / L : Nat) : Int), ((rel % L : Nat) : Int)) :=
  TransTie.splitLoops_eq rel L

theorem c02_trans_floorDiv (n d : Int) (hd : 0 < d) : Gen.Trans.floorDiv n d = n / d := TransTie.floorDiv_eq n d hd

end Core
