import LivesimVerif.Gen.Access
import LivesimVerif.Model.Conc
/-!
# C19 — The ingest receiver tolerates concurrent uploads

Three layers:

1. **Lock discipline, regenerated from the source** (`Gen/Access.lean`: every access to a field of `ChannelMgr`,
   `channel` and `Receiver`, with the lock mode of the field's mutex at that point).  `c19_lock_discipline` is the
   Eraser-style lockset rule, decided over that table: a field that is written after construction is either confined
   to the channel goroutine, or every write holds the write lock and every access from another goroutine holds the lock.
   `c19_atomic_sections`: the check-then-act functions (`GetOrAddChannel`, `addTrData`, `getOrAddRawTrData`) have exactly
   one critical section, write-locked.  A change that drops, narrows or splits a lock changes the table and breaks these.
2. **Protocol models over atomic steps** (what the lock discipline buys): for every schedule of concurrent first
   uploads, exactly one channel object per name exists and all uploads of a name get the same object
   (`c19_one_object_per_name`); every track is registered once and the master track is the first video track of the
   linearisation (`c19_tracks_registered`, `c19_master_first_video`).  The two-step variants that the code had (lookup
   then unconditional add; check under a read lock then act under a second lock) have schedules that break this:
   `two_step_makes_two_objects`, `split_lock_wrong_master`.
3. The real handler under real goroutine schedules (and under the race detector) is exercised by the monitor.

The models in (2) are abstractions of three small functions; their tie to the code is (1) plus the monitor, not a
differential op stream — goroutine schedules cannot be replayed line by line.
-/
namespace Conc

/-! ## 1. lock discipline over the regenerated access table -/

abbrev Acc := String × String × String × String × Bool × String × Nat

def Acc.pkg (a : Acc) : String := a.1
def Acc.strct (a : Acc) : String := a.2.1
def Acc.field (a : Acc) : String := a.2.2.1
def Acc.fn (a : Acc) : String := a.2.2.2.1
def Acc.isWrite (a : Acc) : Bool := a.2.2.2.2.1
def Acc.mode (a : Acc) : String := a.2.2.2.2.2.1
def Acc.section (a : Acc) : Nat := a.2.2.2.2.2.2

/-- constructors run before the object is shared -/
def ctors : List String := ["newChannel", "NewChannelMgr", "NewReceiver", "setupRouter"]

/-- functions that only run in a channel's own goroutine (`channel.run` and what it calls) -/
def chanGoroutine : List String := ["channel.run", "channel.receivedSegData", "channel.deriveAndSetBitrates",
  "channel.deriveAndSetFrameRates", "channel.updateAndWriteMPD", "channel.isShifted",
  "segmentTimelineGenerator.generateSegmentTimelineNrMPD", "segmentTimelineGenerator.modifySegmentTemplate"]

def recvAccesses : List Acc := Gen.accesses.filter fun a => a.pkg == "recv" && !ctors.contains a.fn

def locked (a : Acc) : Bool := a.mode == "R" || a.mode == "W"

/-- the lockset rule for one field -/
def fieldOk (s f : String) : Bool :=
  let l := recvAccesses.filter fun a => a.strct == s && a.field == f
  let writes := l.filter (·.isWrite)
  if writes.isEmpty then true                                       -- never written after construction
  else if writes.all (fun a => chanGoroutine.contains a.fn) then
    -- single writer: the channel goroutine; it may read its own data freely
    let others := l.filter fun a => !chanGoroutine.contains a.fn
    others.isEmpty || (others.all locked && writes.all (·.mode == "W"))
  else
    -- written by upload requests (many goroutines): everything under the lock
    l.all fun a => if a.isWrite then a.mode == "W" else locked a

def fieldsOf : List (String × String) := (recvAccesses.map fun a => (a.strct, a.field)).eraseDups

set_option maxRecDepth 100000 in
/-- **Every shared field of the receiver obeys the lockset rule** (regenerated table). -/
theorem c19_lock_discipline : fieldsOf.all (fun sf => fieldOk sf.1 sf.2) = true := by decide

/-- the table is not empty and contains the fields the property names -/
example : (fieldsOf.contains ("Receiver", "streams") && fieldsOf.contains ("channel", "trDatas") &&
    fieldsOf.contains ("ChannelMgr", "channels")) = true := by decide

/-- number of read- and write-locked critical sections of a function on a mutex -/
def sectionsOf (key : String) : Option (Nat × Nat) := (Gen.lockSections.find? (·.1 == key)).map (·.2)

/-- **The check-then-act functions are one write-locked critical section each.** -/
theorem c19_atomic_sections :
    sectionsOf "recv|ChannelMgr.GetOrAddChannel|cm.mu" = some (0, 1) ∧
    sectionsOf "recv|channel.addTrData|ch.mu" = some (0, 1) ∧
    sectionsOf "recv|channel.getOrAddRawTrData|ch.mu" = some (0, 1) ∧
    sectionsOf "recv|channel.addInitDataAndUpdateTimescale|ch.mpdMu" = some (0, 1) := by decide

/-! ## 2a. channel table: lookup-or-create as one atomic step -/

/-- invariant: names are unique and every id is below `next` -/
def TInv (t : Tbl) : Prop := (t.objs.map (·.1)).Nodup ∧ ∀ p ∈ t.objs, p.2 < t.next

theorem lookup_some_mem (t : Tbl) (n : String) (id : Nat) (h : t.lookup n = some id) : (n, id) ∈ t.objs := by
  unfold Tbl.lookup at h
  cases hf : t.objs.find? (·.1 == n) with
  | none => simp [hf] at h
  | some p =>
    simp [hf] at h
    have hm := List.mem_of_find?_eq_some hf
    have hp := List.find?_some hf
    have : p.1 = n := by simpa using hp
    cases p with
    | mk a b => simp at this h; subst this; subst h; exact hm

theorem lookup_none_not_mem (t : Tbl) (n : String) (h : t.lookup n = none) : n ∉ t.objs.map (·.1) := by
  unfold Tbl.lookup at h
  intro hm
  obtain ⟨p, hp, hpn⟩ := List.mem_map.mp hm
  cases hf : t.objs.find? (·.1 == n) with
  | some q => simp [hf] at h
  | none =>
    have := List.find?_eq_none.mp hf p hp
    simp [hpn] at this

theorem getOrAdd_inv (t : Tbl) (n : String) (h : TInv t) : TInv (getOrAdd t n).1 := by
  unfold getOrAdd
  cases hl : t.lookup n with
  | some id => exact h
  | none =>
    refine ⟨?_, ?_⟩
    · simp only [List.map_cons, List.nodup_cons]
      exact ⟨lookup_none_not_mem t n hl, h.1⟩
    · intro p hp
      simp only [List.mem_cons] at hp
      rcases hp with rfl | hp
      · simp
      · exact Nat.lt_succ_of_lt (h.2 p hp)

/-- entries are never removed or changed -/
theorem getOrAdd_mono (t : Tbl) (n : String) (p : String × Nat) (hp : p ∈ t.objs) : p ∈ (getOrAdd t n).1.objs := by
  unfold getOrAdd
  cases t.lookup n <;> simp [hp]

theorem getOrAdd_result (t : Tbl) (n : String) : (n, (getOrAdd t n).2) ∈ (getOrAdd t n).1.objs := by
  unfold getOrAdd
  cases hl : t.lookup n with
  | some id => exact lookup_some_mem t n id hl
  | none => simp

theorem runSched_spec (t : Tbl) (ns : List String) (h : TInv t) :
    TInv (runSched t ns).1 ∧ (∀ p ∈ t.objs, p ∈ (runSched t ns).1.objs) ∧
    ∀ r ∈ (runSched t ns).2, r ∈ (runSched t ns).1.objs := by
  induction ns generalizing t with
  | nil => exact ⟨h, fun p hp => hp, fun r hr => by simp [runSched] at hr⟩
  | cons n ns ih =>
    have h1 := getOrAdd_inv t n h
    obtain ⟨i1, i2, i3⟩ := ih (getOrAdd t n).1 h1
    simp only [runSched]
    refine ⟨i1, fun p hp => i2 p (getOrAdd_mono t n p hp), ?_⟩
    intro r hr
    simp only [List.mem_cons] at hr
    rcases hr with rfl | hr
    · exact i2 _ (getOrAdd_result t n)
    · exact i3 r hr

/-- **Exactly one channel object per name, whatever the schedule**: the final table has no duplicate name, and two
requests for the same name got the same object. -/
theorem c19_one_object_per_name (ns : List String) :
    let res := runSched ⟨[], 0⟩ ns
    (res.1.objs.map (·.1)).Nodup ∧
    ∀ r1 ∈ res.2, ∀ r2 ∈ res.2, r1.1 = r2.1 → r1.2 = r2.2 := by
  have hinv : TInv ⟨[], 0⟩ := ⟨by simp, by intro p hp; cases hp⟩
  obtain ⟨i1, _, i3⟩ := runSched_spec ⟨[], 0⟩ ns hinv
  refine ⟨i1.1, ?_⟩
  intro r1 h1 r2 h2 hn
  have m1 := i3 r1 h1
  have m2 := i3 r2 h2
  -- unique names in a list of pairs make the pair unique
  have huniq : ∀ (l : List (String × Nat)), (l.map (·.1)).Nodup → ∀ a ∈ l, ∀ b ∈ l, a.1 = b.1 → a = b := by
    intro l
    induction l with
    | nil => intro _ a ha; cases ha
    | cons x xs ih =>
      intro hnd a ha b hb hab
      simp only [List.map_cons, List.nodup_cons] at hnd
      simp only [List.mem_cons] at ha hb
      rcases ha with rfl | ha <;> rcases hb with rfl | hb
      · rfl
      · exact absurd (List.mem_map.mpr ⟨b, hb, hab.symm⟩) hnd.1
      · exact absurd (List.mem_map.mpr ⟨a, ha, hab⟩) hnd.1
      · exact ih hnd.2 a ha b hb hab
  have := huniq _ i1.1 r1 m1 r2 m2 hn
  rw [this]

/-- the code before the `fix:` commit: `GetChannel` and an unconditional `AddChannel` as two separate atomic steps -/
inductive Step2 | get (req : Nat) (name : String) | add (req : Nat) (name : String)
  deriving DecidableEq

/-- number of channel objects created by a two-step schedule (each request adds iff its own lookup missed) -/
def objectsCreated2 : List Step2 → List String → List (Nat × Bool) → Nat
  | [], _, _ => 0
  | .get r n :: rest, tbl, seen => objectsCreated2 rest tbl ((r, tbl.contains n) :: seen)
  | .add r n :: rest, tbl, seen =>
    match seen.find? (·.1 == r) with
    | some (_, true) => objectsCreated2 rest tbl seen
    | _ => 1 + objectsCreated2 rest (n :: tbl) seen

/-- **Why it has to be one step**: two first uploads of one channel, interleaved, create two objects. -/
theorem two_step_makes_two_objects :
    objectsCreated2 [.get 1 "ch", .get 2 "ch", .add 1 "ch", .add 2 "ch"] [] [] = 2 := by decide

/-! ## 2b. track registration (`addTrData`) -/

theorem foldl_addTr_tracks (r : Reg) (ts : List (String × Bool)) : (ts.foldl addTr r).tracks = r.tracks ++ ts := by
  induction ts generalizing r with
  | nil => simp
  | cons t ts ih => simp [List.foldl_cons, ih, addTr, List.append_assoc]

/-- **Every track is registered, exactly once and in order, whatever the schedule** -/
theorem c19_tracks_registered (ts : List (String × Bool)) : (regAll ts).tracks = ts := by
  simp [regAll, foldl_addTr_tracks]

theorem foldl_addTr_master_keep (r : Reg) (ts : List (String × Bool)) (hv : r.tracks.any (·.2) = true) :
    (ts.foldl addTr r).master = r.master := by
  induction ts generalizing r with
  | nil => rfl
  | cons t ts ih =>
    simp only [List.foldl_cons]
    have h1 : (addTr r t).tracks.any (·.2) = true := by simp [addTr, List.any_append, hv]
    rw [ih (addTr r t) h1]
    simp [addTr, hv]

/-- **The master track is the first video track of the linearisation** (if there is one). -/
theorem c19_master_first_video (pre post : List (String × Bool)) (v : String) (hpre : pre.all (fun t => !t.2) = true) :
    (regAll (pre ++ (v, true) :: post)).master = some v := by
  unfold regAll
  rw [List.foldl_append, List.foldl_cons]
  have hnov : ((pre.foldl addTr ⟨[], none⟩).tracks.any (·.2)) = false := by
    rw [foldl_addTr_tracks]
    simp only [List.nil_append]
    rw [List.any_eq_false]
    intro t ht
    have := List.all_eq_true.mp hpre t ht
    simpa using this
  have hm : (addTr (pre.foldl addTr ⟨[], none⟩) (v, true)).master = some v := by simp [addTr, hnov]
  rw [foldl_addTr_master_keep _ post (by simp [addTr, List.any_append])]
  exact hm

/-- the seeded variant: the check runs under a read lock, the update under a second lock -/
inductive StepS | check (req : Nat) | act (req : Nat) (name : String) (isVideo : Bool)
  deriving DecidableEq

def runSplit : List StepS → Reg → List (Nat × Bool) → Reg
  | [], r, _ => r
  | .check q :: rest, r, seen => runSplit rest r ((q, r.tracks.any (·.2)) :: seen)
  | .act q n v :: rest, r, seen =>
    let sawVideo := match seen.find? (·.1 == q) with | some (_, b) => b | none => false
    runSplit rest { tracks := r.tracks ++ [(n, v)], master := if sawVideo then r.master else some n } seen

/-- **Why check and act must share one critical section**: a text track that checked before the video track
registered overwrites the master afterwards — no sequential order gives this. -/
theorem split_lock_wrong_master :
    (runSplit [.check 1, .check 2, .act 2 "video" true, .act 1 "text" false] ⟨[], none⟩ []).master = some "text" ∧
    (regAll [("video", true), ("text", false)]).master = some "video" ∧
    (regAll [("text", false), ("video", true)]).master = some "video" := by decide

end Conc
