import LivesimVerif.Model.Keys
/-!
# C10 — Advertised key ids, init segments, licences and ciphertext agree

Proved here (model `Model/Keys.lean`, tied to `keys.go` / `handler_laurl.go` by the ops `kid`, `k2k`, `key2kid`, `b64`,
`unb64`, `lic`): the key-id ↔ key derivation is a bijection between the two prefixed families and never panics on what
livesim2 itself announces; the base64url transport used between MPD, player and licence endpoint is lossless for
every 16-byte value; the licence endpoint answers exactly the key derived from the requested id, echoes that id, and
refuses ids it did not issue.

Not proved (runtime, cryptography and container code of mp4ff): that the served ciphertext decrypts to the clear
segment.  That clause — and the agreement of MPD default_KID, init `tenc`, licence and CPIX data — is checked for every
asset × DRM mode × representation × segment (whole and chunked) by the round-trip monitor of the harness.
-/
namespace Keys

def Bytes (l : List Nat) : Prop := ∀ b ∈ l, b < 256

/-! ## alphabet facts (finite: decided over all 64 sextets) -/

set_option maxRecDepth 20000 in
theorem dec_enc : ∀ n : Fin 64, decChar (encChar n.val) = some n.val := by decide

set_option maxRecDepth 20000 in
theorem enc_not_special : ∀ n : Fin 64, encChar n.val ≠ '=' ∧ fromUrl (toUrl (encChar n.val)) = encChar n.val ∧
    toUrl (encChar n.val) ≠ '=' := by decide

theorem dec_enc' (n : Nat) (h : n < 64) : decChar (encChar n) = some n := dec_enc ⟨n, h⟩
theorem enc_ne_eq (n : Nat) (h : n < 64) : encChar n ≠ '=' := (enc_not_special ⟨n, h⟩).1
theorem from_to (n : Nat) (h : n < 64) : fromUrl (toUrl (encChar n)) = encChar n := (enc_not_special ⟨n, h⟩).2.1

/-! ## base64: decoding inverts encoding -/

theorem decode_encode : ∀ (bs : List Nat), Bytes bs → decode (encode bs) = some bs
  | [], _ => by simp [encode, decode]
  | [a], h => by
    have ha : a < 256 := h a (by simp)
    simp only [encode, decode]
    simp only [true_and, if_true, dec_enc' (a / 4) (by omega), dec_enc' (a % 4 * 16) (by omega)]
    simp
    omega
  | [a, b], h => by
    have ha : a < 256 := h a (by simp)
    have hb : b < 256 := h b (by simp)
    simp only [encode, decode]
    simp only [true_and, if_true, if_neg (enc_ne_eq (b % 16 * 4) (by omega)),
      dec_enc' (a / 4) (by omega), dec_enc' (a % 4 * 16 + b / 16) (by omega), dec_enc' (b % 16 * 4) (by omega)]
    simp
    omega
  | a :: b :: c :: t, h => by
    have ha : a < 256 := h a (by simp)
    have hb : b < 256 := h b (by simp)
    have hc : c < 256 := h c (by simp)
    have ht : Bytes t := fun x hx => h x (by simp [hx])
    have ih := decode_encode t ht
    simp only [encode, decode]
    have hne : ¬ (encode t = [] ∧ encChar (c % 64) = '=') := fun hh => enc_ne_eq (c % 64) (by omega) hh.2
    rw [if_neg hne]
    simp only [dec_enc' (a / 4) (by omega), dec_enc' (a % 4 * 16 + b / 16) (by omega),
      dec_enc' (b % 16 * 4 + c / 64) (by omega), dec_enc' (c % 64) (by omega), ih]
    simp
    omega

/-! ## the URL-safe packing is undone by `unpackBase64` -/

theorem unpack_cons4 (x1 x2 x3 x4 : Char) (ys : List Char) :
    unpack (x1 :: x2 :: x3 :: x4 :: ys) = fromUrl x1 :: fromUrl x2 :: fromUrl x3 :: fromUrl x4 :: unpack ys := by
  simp only [unpack, List.map_cons, List.length_cons, List.cons_append]
  have : (ys.map fromUrl).length + 1 + 1 + 1 + 1 = (ys.map fromUrl).length + 4 := by omega
  rw [this, Nat.add_mod_right]

theorem urlSafe_cons (x : Char) (xs : List Char) (h : x ≠ '=') : urlSafe (x :: xs) = toUrl x :: urlSafe xs := by
  simp [urlSafe, List.filter_cons, h]

theorem unpack_pack : ∀ (bs : List Nat), Bytes bs → unpack (pack bs) = encode bs
  | [], _ => by simp [pack, encode, urlSafe, unpack]
  | [a], h => by
    have ha : a < 256 := h a (by simp)
    simp only [pack, encode]
    rw [urlSafe_cons _ _ (enc_ne_eq (a / 4) (by omega)), urlSafe_cons _ _ (enc_ne_eq (a % 4 * 16) (by omega))]
    simp [urlSafe, unpack, from_to (a / 4) (by omega), from_to (a % 4 * 16) (by omega)]
  | [a, b], h => by
    have ha : a < 256 := h a (by simp)
    have hb : b < 256 := h b (by simp)
    simp only [pack, encode]
    rw [urlSafe_cons _ _ (enc_ne_eq (a / 4) (by omega)), urlSafe_cons _ _ (enc_ne_eq (a % 4 * 16 + b / 16) (by omega)),
      urlSafe_cons _ _ (enc_ne_eq (b % 16 * 4) (by omega))]
    simp [urlSafe, unpack, from_to (a / 4) (by omega), from_to (a % 4 * 16 + b / 16) (by omega), from_to (b % 16 * 4) (by omega)]
  | a :: b :: c :: t, h => by
    have ha : a < 256 := h a (by simp)
    have hb : b < 256 := h b (by simp)
    have hc : c < 256 := h c (by simp)
    have ht : Bytes t := fun x hx => h x (by simp [hx])
    have ih := unpack_pack t ht
    simp only [pack, encode] at ih ⊢
    rw [urlSafe_cons _ _ (enc_ne_eq (a / 4) (by omega)), urlSafe_cons _ _ (enc_ne_eq (a % 4 * 16 + b / 16) (by omega)),
      urlSafe_cons _ _ (enc_ne_eq (b % 16 * 4 + c / 64) (by omega)), urlSafe_cons _ _ (enc_ne_eq (c % 64) (by omega)),
      unpack_cons4, ih, from_to (a / 4) (by omega), from_to (a % 4 * 16 + b / 16) (by omega),
      from_to (b % 16 * 4 + c / 64) (by omega), from_to (c % 64) (by omega)]

/-- **The key-id transport is lossless**: what `PackBase64` writes into MPD / JSON, the licence handler reads back. -/
theorem c10_transport (k : List Nat) (hb : Bytes k) (hl : k.length = 16) : id16FromBase64 (unpack (pack k)) = some k := by
  unfold id16FromBase64
  rw [unpack_pack k hb, decode_encode k hb]
  simp [hl]

/-! ## key id ↔ key -/

/-- a key id as livesim2 issues them -/
def IsKid (k : List Nat) : Prop := k.length = 16 ∧ k.take 3 = kidStart
def IsKey (k : List Nat) : Prop := k.length = 16 ∧ k.take 3 = keyStart

theorem take_drop3 (k : List Nat) : k.take 3 ++ k.drop 3 = k := List.take_append_drop 3 k

/-- **`kidToKey` never panics on an issued id, yields a key of the other family, and `keyToKid` inverts it.** -/
theorem c10_key_roundtrip (kid : List Nat) (h : IsKid kid) :
    ∃ key, kidToKey kid = some key ∧ IsKey key ∧ keyToKid key = some kid ∧ key ≠ kid := by
  obtain ⟨hl, hp⟩ := h
  refine ⟨keyStart ++ kid.drop 3, by simp [kidToKey, hp], ⟨?_, ?_⟩, ?_, ?_⟩
  · simp [keyStart, hl]
  · simp [keyStart]
  · have : (keyStart ++ kid.drop 3).take 3 = keyStart := by simp [keyStart]
    simp only [keyToKid, this, if_true]
    have hd : (keyStart ++ kid.drop 3).drop 3 = kid.drop 3 := by simp [keyStart]
    rw [hd, ← hp, take_drop3]
  · intro he
    have h1 : (keyStart ++ kid.drop 3).take 3 = kid.take 3 := by rw [he]
    rw [hp] at h1
    simp [keyStart, kidStart] at h1

/-- different ids have different keys -/
theorem c10_key_injective (k1 k2 key : List Nat) (h1 : kidToKey k1 = some key) (h2 : kidToKey k2 = some key) : k1 = k2 := by
  unfold kidToKey at h1 h2
  split at h1
  · next p1 =>
    split at h2
    · next p2 =>
      injection h1 with h1; injection h2 with h2
      have hd : k1.drop 3 = k2.drop 3 := by
        have := h1.trans h2.symm
        simpa [keyStart] using this
      rw [← take_drop3 k1, ← take_drop3 k2, p1, p2, hd]
    · cases h2
  · cases h1

/-- ids of other families are refused (panic in `kidToKey`; the licence handler answers 400 first) -/
theorem c10_foreign_refused (k : List Nat) (h : k.take 3 ≠ kidStart) : kidToKey k = none := by
  simp [kidToKey, h]

/-- **`kidFromString` ignores its argument** (the md5 state never sees the string): every asset and every licence URL
gets the same key id, which is why the MPD's default_KID (from the licence URL) and the init segment's (from the asset
name) agree; and the result is always an issued id, so `kidToKey` cannot panic when assets are loaded. -/
theorem c10_kid_constant (md5zero : List Nat) (s1 s2 : String) (hl : md5zero.length = 16) :
    kidFromString md5zero s1 = kidFromString md5zero s2 ∧ IsKid (kidFromString md5zero s1) := by
  refine ⟨rfl, ?_, ?_⟩
  · simp [kidFromString, kidStart, hl]
  · simp [kidFromString, kidStart]

/-! ## licence endpoint -/

/-- **For an issued id the licence carries exactly its key and echoes the id.** -/
theorem c10_licence_correct (kid : List Nat) (hb : Bytes kid) (h : IsKid kid) :
    ∃ key, kidToKey kid = some key ∧ licence (pack kid) = .key (pack key) (pack kid) := by
  obtain ⟨key, hk, _, _, _⟩ := c10_key_roundtrip kid h
  refine ⟨key, hk, ?_⟩
  unfold licence
  simp only [c10_transport kid hb h.1, hk]
  rw [unpack_pack kid hb]
  rfl

/-- **Anything else is refused**: a string that is not the transport form of 16 bytes, or an id of another family. -/
theorem c10_licence_refuses (s : List Char) (h : ∀ kid, id16FromBase64 (unpack s) = some kid → kid.take 3 ≠ kidStart) :
    licence s = .bad := by
  simp only [licence]
  cases hd : id16FromBase64 (unpack s) with
  | none => rfl
  | some kid => simp only [c10_foreign_refused kid (h kid hd)]

/-- non-vacuity -/
example : IsKid [0x28, 0x80, 0xfe, 1, 2, 3, 4, 5, 6, 7, 8, 9, 10, 11, 12, 13] ∧
    licence (pack [0x28, 0x80, 0xfe, 1, 2, 3, 4, 5, 6, 7, 8, 9, 10, 11, 12, 13]) =
      .key "KEY-AQIDBAUGBwgJCgsMDQ".toList "KID-AQIDBAUGBwgJCgsMDQ".toList := by
  refine ⟨⟨rfl, rfl⟩, ?_⟩
  decide

end Keys
