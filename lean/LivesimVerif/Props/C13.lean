import LivesimVerif.Lemmas.Scte
/-!
# C13 — SCTE-35 events follow the per-minute schedule, each announced exactly once

Model: `Scte.createEmsgAhead` (`Model/Scte.lean`, with the `fix:` commit that also looks at the next minute's
first splice).  Spec: event j of minute m is announced at `announce T n m j = (60m + off_j − 7)·T` and must be
carried by the segment `(S, E]` that contains that instant.
-/
namespace Scte

/-- **Soundness**: an event is carried only by a segment whose interval `(s, e]` contains the announce
instant of a scheduled splice (offset 10/36/40/46 s of this minute, or 10 s of the next), and the event's
fields are those of that splice. -/
theorem c13_sound (s e T n : Nat) (x : Ev) (h : createEmsgAhead s e T n = .ev x) :
    ∃ sit, x = mkEv sit T n ∧ s < sit - lead * T ∧ sit - lead * T ≤ e ∧
      ((∃ o ∈ offsets n, sit = (s - s % (60 * T)) + o * T) ∨ sit = (s - s % (60 * T)) + 70 * T) := by
  unfold createEmsgAhead at h
  split at h
  · cases h
  · split at h
    · rename_i sit hs
      injection h with h
      have := firstHit_sound _ _ _ _ _ hs
      exact ⟨sit, h.symm, this.2.1, this.2.2, (mem_candidates s T n sit).mp this.1⟩
    · cases h

/-- **Completeness** (segments of at most 10 s, as the property quantifies): if the announce instant of a
candidate splice lies in the segment's interval `(s, e]`, the segment carries exactly that event. -/
theorem c13_complete (s e T n sit : Nat) (hn : validN n = true) (hd : e ≤ s + 10 * T)
    (hm : sit ∈ candidates s T n) (hin : s < sit - lead * T ∧ sit - lead * T ≤ e) :
    createEmsgAhead s e T n = .ev (mkEv sit T n) := by
  unfold createEmsgAhead
  simp only [hn, Bool.not_true, Bool.false_eq_true, ↓reduceIte]
  rw [firstHit_unique s e T _ sit hm hin]
  intro y hy hyin
  by_cases hxy : y = sit
  · exact hxy
  · rcases candidates_spaced s T n y sit hy hm hxy with h | h <;> (unfold lead at *; omega)

/-- every scheduled announce instant inside `(s, e]` of a ≤ 10 s segment is that of a candidate:
the candidate list looks far enough (this is what the pre-fix code got wrong for the next minute). -/
theorem c13_schedule_covered (s e T n m o : Nat) (hT : 0 < T) (ho : o ∈ offsets n)
    (hd : e ≤ s + 10 * T) (hin : s < announce T m o ∧ announce T m o ≤ e) :
    spliceAt T m o ∈ candidates s T n := by
  rw [mem_candidates]
  -- s = 60T·M + r
  have hdm := Nat.div_add_mod s (60 * T)
  have hr : s % (60 * T) < 60 * T := Nat.mod_lt _ (by omega)
  generalize s / (60 * T) = M at hdm
  generalize s % (60 * T) = r at hdm hr
  have hms : s - r = 60 * T * M := by omega
  rw [hms]
  have hov := offsets_mem n _ ho
  unfold announce spliceAt lead at *
  -- products as atoms
  have e1 : (60 * m + o - 7) * T = 60 * (m * T) + o * T - 7 * T := by
    rw [Nat.sub_mul, Nat.add_mul, Nat.mul_assoc]
  have e2 : (60 * m + o) * T = 60 * (m * T) + o * T := by rw [Nat.add_mul, Nat.mul_assoc]
  have e3 : 60 * T * M = 60 * (M * T) := by rw [Nat.mul_assoc, Nat.mul_comm T M]
  rw [e1] at hin
  rw [e2, e3]
  rw [e3] at hdm
  have hoT : o * T ≥ 10 * T := Nat.mul_le_mul_right T (by omega)
  have hoT' : o * T ≤ 46 * T := Nat.mul_le_mul_right T (by omega)
  rcases Nat.lt_trichotomy m M with hlt | heq | hgt
  · -- m < M: announce is before the minute of s … impossible
    have : m * T + T ≤ M * T := by
      have := Nat.mul_le_mul_right T (Nat.succ_le_of_lt hlt); rwa [Nat.succ_mul] at this
    omega
  · subst heq; left; exact ⟨o, ho, by omega⟩
  · by_cases h1 : m = M + 1
    · subst h1
      have e4 : (M + 1) * T = M * T + T := by rw [Nat.add_mul]; omega
      rw [e4] at hin ⊢
      -- only the first event (offset 10) can be that close
      have : o = 10 := by
        rcases hov with h | h | h | h
        · exact h
        all_goals (subst h; omega)
      subst this
      right; omega
    · have : M * T + 2 * T ≤ m * T := by
        have := Nat.mul_le_mul_right T (show M + 2 ≤ m by omega); rwa [Nat.add_mul] at this
      omega

/-- Each announce instant is carried by exactly one segment of a gap-free segment sequence
(`S (k+1)` = end of segment k = start of segment k+1, from C01). -/
theorem c13_exactly_once (S : Nat → Nat) (hmono : ∀ k, S k < S (k+1)) (A : Nat) (h0 : S 0 < A) :
    ∃ k, (S k < A ∧ A ≤ S (k+1)) ∧ ∀ k', (S k' < A ∧ A ≤ S (k'+1)) → k' = k := by
  have hle : ∀ a b, a ≤ b → S a ≤ S b := by
    intro a b hab
    induction hab with
    | refl => exact Nat.le_refl _
    | step _ ih => exact Nat.le_trans ih (Nat.le_of_lt (hmono _))
  have hgrow : ∀ n, S 0 + n ≤ S n := by
    intro n; induction n with
    | zero => simp
    | succ n ih => have := hmono n; omega
  have ex : ∀ n, A ≤ S n → ∃ k, S k < A ∧ A ≤ S (k+1) := by
    intro n
    induction n with
    | zero => intro h; omega
    | succ n ih =>
      intro h
      by_cases hn : A ≤ S n
      · exact ih hn
      · exact ⟨n, by omega, h⟩
  obtain ⟨k, hk⟩ := ex A (by have := hgrow A; omega)
  refine ⟨k, hk, ?_⟩
  intro k' hk'
  rcases Nat.lt_trichotomy k' k with h | h | h
  · have := hle (k'+1) k h; omega
  · exact h
  · have := hle (k+1) k' h; omega

/-- Field consistency (the 64-bit product `splice·90000` must not overflow — at 90 kHz that is until year 2042):
id = splice second, event duration = ad duration, PTS = splice at 90 kHz mod 2^33,
break duration = ad duration at 90 kHz. -/
theorem c13_fields (sit T n : Nat) (hT : 0 < T) (hov : sit * 90000 < 2^64) :
    (mkEv sit T n).splice = sit ∧ (mkEv sit T n).id = (sit / T) % 2^32 ∧
    (mkEv sit T n).pts = (sit * 90000 / T) % 2^33 ∧ (mkEv sit T n).brk = adDurS n * 90000 ∧
    (mkEv sit T n).dur = (adDurS n * T) % 2^32 := by
  refine ⟨rfl, rfl, ?_, ?_, rfl⟩
  · show (sit * 90000) % 18446744073709551616 / T % 8589934592 = sit * 90000 / T % 2^33
    have h64 : (2:Nat)^64 = 18446744073709551616 := by decide
    have h33 : (2:Nat)^33 = 8589934592 := by decide
    have hm : sit * 90000 % 18446744073709551616 = sit * 90000 := Nat.mod_eq_of_lt (by omega)
    rw [hm, h33]
  show adDurS n * T * 90000 / T = adDurS n * 90000
  rw [Nat.mul_right_comm, Nat.mul_div_cancel _ hT]

/-- Only N ∈ {1,2,3} is accepted. -/
theorem c13_other_N_rejected (s e T n : Nat) : createEmsgAhead s e T n = .invalid ↔ ¬ (n = 1 ∨ n = 2 ∨ n = 3) := by
  unfold createEmsgAhead validN
  constructor
  · intro h
    split at h
    · rename_i hv; simp at hv; omega
    · split at h <;> cases h
  · intro h
    have : (n == 1 || n == 2 || n == 3) = false := by simp; omega
    simp [this]

/-- non-vacuity: 8 s segments at 90 kHz, N = 1: the segment [56 s, 64 s] carries the event of minute 1
(splice at 70 s) — the case the pre-fix code missed; [0 s, 8 s] carries minute 0's. -/
example : createEmsgAhead (56 * 90000) (64 * 90000) 90000 1 = .ev (mkEv (70 * 90000) 90000 1) := by decide
example : createEmsgAhead 0 (8 * 90000) 90000 1 = .ev (mkEv (10 * 90000) 90000 1) := by decide
example : createEmsgAhead (8 * 90000) (16 * 90000) 90000 1 = .none := by decide

end Scte
