import LivesimVerif.Lemmas.Receiver
import LivesimVerif.Lemmas.Trans
import LivesimVerif.Lemmas.RecvInv
import LivesimVerif.Lemmas.RecvShape
import LivesimVerif.Model.Renum
/-!
# C17 — Ingest receiver: stored media and timeline MPD agree for any arrival order

Upload handlers only enqueue on `recSegCh`; the single channel goroutine applies the events one by
one, so "any interleaving of uploads" is "any event list" and every theorem below holds for every
reachable *and unreachable* generator state (no bound).  Model: `Model/Receiver.lean` (with the
`fix:` commits of this round), tied to the Go code by the ops `ctr`, `buf`, `gen`.
-/
namespace Recv

/-- The written SegmentTimeline, read back the way a DASH client expands it (explicit `@t`, implicit
continuation, `@r` repeats), gives exactly the decode time and duration of every listed stored segment —
for every list of stored segments, including discontinuities and duration changes. -/
theorem c17_listed_times (l : List Item) (t0 : Nat) :
    expandS (buildS l) t0 = l.map (fun it => (it.dts, it.dur)) :=
  buildS_spec l t0

theorem mapM_getItem_spec (b : Buf) (ns : List Nat) (tl : List Item) (h : ns.mapM b.getItem = some tl) :
    tl.length = ns.length ∧ ∀ i (hi : i < ns.length) (hj : i < tl.length), b.getItem ns[i] = some tl[i] := by
  induction ns generalizing tl with
  | nil => simp at h; subst h; simp
  | cons n ns ih =>
    rw [List.mapM_cons] at h
    cases hn : b.getItem n with
    | none => simp [hn] at h
    | some it =>
      cases hr : ns.mapM b.getItem with
      | none => simp [hn, hr] at h
      | some tl' =>
        simp [hn, hr] at h
        subst h
        have := ih tl' hr
        refine ⟨by simp [this.1], ?_⟩
        intro i hi hj
        cases i with
        | zero => simpa using hn
        | succ j => simpa using this.2 j (by simpa using hi) (by simpa using hj)

/-- When an MPD is written with range `[first,last]`: the newest listed number does not go backwards
(it is ≥ the triggering number, which is > the previous newest), the state changes in nothing but
`latest`, and for every AdaptationSet the listed entries are exactly the numbers first, first+1, …, last —
each one the segment stored in that AdaptationSet's first representation buffer under that number. -/
theorem c17_mpd_written (g g' : Gen) (newSeqNr first last : Nat) (ass : List String) (tls : List (List Item))
    (h : g.mpdOn newSeqNr ass = .ok g' first last tls) :
    g.latest < newSeqNr ∧ newSeqNr ≤ last ∧ g'.latest = last ∧ g' = { g with latest := last } ∧
    tls.length = ass.length ∧
    ∀ a (ha : a < ass.length) (ht : a < tls.length), ∃ b, lookupBuf g.bufs ass[a] = some b ∧
      tls[a].length = last + 1 - first ∧
      ∀ k (hk : k < tls[a].length), b.getItem (first + k) = some (tls[a][k]) := by
  unfold Gen.mpdOn at h
  cases hr : g.ctrs.fullRange g.tracks with
  | none => simp [hr] at h
  | some fl =>
    obtain ⟨f, l⟩ := fl
    simp only [hr] at h
    by_cases h1 : newSeqNr ≤ g.latest
    · simp [h1] at h
    · simp only [h1, ↓reduceIte] at h
      by_cases h2 : newSeqNr > l
      · simp [h2] at h
      · simp only [h2, ↓reduceIte] at h
        cases hm : ass.mapM (fun rep => (lookupBuf g.bufs rep).bind (fun b => timelineFor b f l)) with
        | none => simp [hm] at h
        | some tls' =>
          simp only [hm] at h
          injection h with hg hf hl ht
          subst hg hf hl ht
          refine ⟨by omega, by omega, rfl, rfl, ?_⟩
          -- per AdaptationSet
          have key : ∀ (ass : List String) (tls' : List (List Item)),
              ass.mapM (fun rep => (lookupBuf g.bufs rep).bind (fun b => timelineFor b f l)) = some tls' →
              tls'.length = ass.length ∧ ∀ a (ha : a < ass.length) (ht : a < tls'.length),
                (lookupBuf g.bufs ass[a]).bind (fun b => timelineFor b f l) = some tls'[a] := by
            intro ass
            induction ass with
            | nil => intro tls' h; simp at h; subst h; simp
            | cons r rs ih =>
              intro tls' h
              rw [List.mapM_cons] at h
              cases h0 : (lookupBuf g.bufs r).bind (fun b => timelineFor b f l) with
              | none => simp [h0] at h
              | some t0 =>
                cases hrs : rs.mapM (fun rep => (lookupBuf g.bufs rep).bind (fun b => timelineFor b f l)) with
                | none => simp [h0, hrs] at h
                | some ts =>
                  simp [h0, hrs] at h
                  subst h
                  have := ih ts hrs
                  refine ⟨by simp [this.1], ?_⟩
                  intro a ha ht
                  cases a with
                  | zero => simpa using h0
                  | succ j => simpa using this.2 j (by simpa using ha) (by simpa using ht)
          have k := key ass tls' hm
          refine ⟨k.1, ?_⟩
          intro a ha ht
          have ka := k.2 a ha ht
          cases hb : lookupBuf g.bufs ass[a] with
          | none => simp [hb] at ka
          | some b =>
            simp only [hb, Option.bind_some, timelineFor] at ka
            have sp := mapM_getItem_spec b _ _ ka
            refine ⟨b, rfl, by simpa using sp.1, ?_⟩
            intro k hk
            have := sp.2 k (by rw [← sp.1]; exact hk) hk
            simpa [List.getElem_range'] using this

/-! ## The counters never count more than the buffers hold: invariant over every arrival order

`GInv` (Lemmas/RecvInv.lean): window and array sizes agree, track names are distinct, every buffer is strictly
increasing, and **a live counter inside the current window counts at most as many tracks as there are buffers holding
that number**.  It holds initially, every `addSegmentData` preserves it — any track, any number below 2³², any order,
duplicates, gaps — and under it no add can index out of range. -/

theorem c17_inv_init (w : Nat) (h0 : 0 < w) (hw : w < U32) : GInv (Gen.new w) := by
  refine ⟨h0, hw, ⟨rfl, by simp [Gen.new, Ctrs.new], by simp [Gen.new, Ctrs.new]⟩, by simp [Gen.new], by simp [Gen.new], ?_, by simp [Gen.new]⟩
  intro c hc; simp [Gen.new, Ctrs.new, Ctrs.live] at hc

/-- **No arrival order stops the receiver, and the invariant survives every upload.** -/
theorem c17_add_preserves (g : Gen) (name : String) (it : Item) (hg : GInv g) (hn : it.seqNr < U32) :
    match g.add name it with
    | .panic => False
    | .err g' => GInv g'
    | .ok g' _ => GInv g' :=
  gen_add_inv g name it hg hn

/-- the state a `Gen.add` leaves behind, whatever the outcome (`none` = panic) -/
def Gen.addState (g : Gen) (name : String) (it : Item) : Option Gen :=
  match g.add name it with
  | .panic => none
  | .err g' => some g'
  | .ok g' _ => some g'

/-- … hence for **every finite sequence of uploads**: no panic, and the invariant at the end. -/
theorem c17_adds_preserve (evs : List (String × Item)) (g : Gen) (hg : GInv g) (hn : ∀ e ∈ evs, e.2.seqNr < U32) :
    ∃ g', evs.foldlM (fun g e => g.addState e.1 e.2) g = some g' ∧ GInv g' := by
  induction evs generalizing g with
  | nil => exact ⟨g, rfl, hg⟩
  | cons e t ih =>
    have h1 := gen_add_inv g e.1 e.2 hg (hn e (by simp))
    simp only [List.foldlM_cons]
    unfold Gen.addState
    cases ha : g.add e.1 e.2 with
    | panic => rw [ha] at h1; exact h1.elim
    | err g1 => rw [ha] at h1; exact ih g1 h1 (fun e' he' => hn e' (by simp [he']))
    | ok g1 n => rw [ha] at h1; exact ih g1 h1 (fun e' he' => hn e' (by simp [he']))

/-- MPD generation changes nothing but `latest`, never panics, and keeps the invariant. -/
theorem c17_mpd_preserves (g : Gen) (newSeqNr : Nat) (ass : List String) (hg : GInv g) :
    match g.mpdOn newSeqNr ass with
    | .panic => False
    | .err _ => True
    | .ok g' _ _ _ => GInv g' := by
  unfold Gen.mpdOn
  have hfr : g.ctrs.fullRange g.tracks ≠ none := by
    unfold Ctrs.fullRange
    rw [if_neg (by have := hg.cw; rw [this.len]; have := this.nr; omega)]
    simp
  cases hr : g.ctrs.fullRange g.tracks with
  | none => exact hfr hr
  | some fl =>
    obtain ⟨f, l⟩ := fl
    simp only []
    by_cases h1 : newSeqNr ≤ g.latest
    · rw [if_pos h1]; trivial
    · rw [if_neg h1]
      by_cases h2 : newSeqNr > l
      · rw [if_pos h2]; trivial
      · rw [if_neg h2]
        cases ass.mapM (fun rep => (lookupBuf g.bufs rep).bind (fun b => timelineFor b f l)) with
        | none => trivial
        | some tls => exact ⟨hg.wpos, hg.wlt, hg.cw, hg.nodup, hg.bw, hg.win, hg.tr⟩

/-- **Every listed number is held by every track.**  When an MPD is written with range `[first,last]` in a started
generator satisfying the invariant, every track buffer — not only the first representation of each AdaptationSet that
`c17_mpd_written` speaks of — holds a segment for every listed number inside the current window
(`newest counted number < k + windowSize`). -/
theorem c17_listed_every_track (g g' : Gen) (newSeqNr first last : Nat) (ass : List String) (tls : List (List Item))
    (hg : GInv g) (hst : g.started = true) (h : g.mpdOn newSeqNr ass = .ok g' first last tls) :
    ∀ k, first ≤ k → k ≤ last → mxOf g.ctrs < k + g.w → ∀ p ∈ g.bufs, (p.2.getItem k).isSome = true := by
  intro k hk1 hk2 hwin
  have hw := c17_mpd_written g g' newSeqNr first last ass tls h
  unfold Gen.mpdOn at h
  cases hr : g.ctrs.fullRange g.tracks with
  | none => simp [hr] at h
  | some fl =>
    obtain ⟨f, l⟩ := fl
    simp only [hr] at h
    by_cases h1 : newSeqNr ≤ g.latest
    · simp [h1] at h
    · simp only [h1, ↓reduceIte] at h
      by_cases h2 : newSeqNr > l
      · simp [h2] at h
      · simp only [h2, ↓reduceIte] at h
        cases hm : ass.mapM (fun rep => (lookupBuf g.bufs rep).bind (fun b => timelineFor b f l)) with
        | none => simp [hm] at h
        | some tls' =>
          simp only [hm] at h
          injection h with _ hf hl _
          subst hf hl
          obtain ⟨x, hx, hxk, hxc⟩ := fullRange_spec g.ctrs g.tracks f l hr (by omega) k hk1 hk2
          have hcnt := hg.win x hx (by rw [hxk]; exact hwin)
          rw [hxk] at hcnt
          have hall := filter_length_all g.bufs (fun p => holdsB p.2 k) (by
            have := hg.tr hst; unfold holders at hcnt; omega)
          intro p hp
          rw [getItem_isSome]; exact hall p hp

/-! ## The whole life cycle: uploads, start, uploads

`GSorted` adds sorted counters and "no buffer holds a number above the newest counted one"; `GFresh` adds "every live
counter is inside the window".  Before start every state is fresh; `start` (not shifted) keeps `GSorted` for any new
window and `GFresh` when the window does not shrink; a shrink can leave counters outside the smaller window (they are
swept by the next upload above the newest number, `ctr_add_sorted`). -/

theorem c17_fresh_init (w : Nat) (h0 : 0 < w) (hw : w < U32) : GFresh (Gen.new w) := by
  refine ⟨⟨c17_inv_init w h0 hw, ?_, ?_⟩, ?_⟩
  · intro j1 j2 _ _ _ h2; simp [Gen.new, Ctrs.new] at h2
  · intro p hp; simp [Gen.new] at hp
  · intro x hx; simp [Gen.new, Ctrs.new, Ctrs.live] at hx

theorem addState_fields (g g' : Gen) (name : String) (it : Item) (h : g.addState name it = some g') :
    g'.w = g.w ∧ g'.started = g.started := by
  unfold Gen.addState Gen.add at h
  by_cases hs : (g.shifted && !it.shifted) = true
  · rw [if_pos hs] at h; simp at h; subst h; exact ⟨rfl, rfl⟩
  · rw [if_neg hs] at h
    simp only [] at h
    cases hadd : ((lookupBuf g.bufs name).getD (Buf.new g.w)).add it with
    | panic => rw [hadd] at h; simp at h
    | notIncreasing => rw [hadd] at h; simp at h; subst h; exact ⟨rfl, rfl⟩
    | ok b1 =>
      rw [hadd] at h
      simp only [] at h
      cases hca : g.ctrs.add it.seqNr with
      | none => rw [hca] at h; simp at h
      | some c1 =>
        rw [hca] at h
        simp only [] at h
        by_cases hst : g.started = true
        · rw [if_pos hst] at h
          cases hnf : c1.newFullCounter (if ((lookupBuf g.bufs name).isNone && g.started) = true then g.bufs.length + 1 else g.tracks) g.latest with
          | none => rw [hnf] at h; simp at h
          | some nn => rw [hnf] at h; simp at h; subst h; exact ⟨rfl, rfl⟩
        · rw [if_neg hst] at h; simp at h; subst h; exact ⟨rfl, rfl⟩

/-- every finite sequence of uploads from a sorted state: no panic, `GSorted` at the end, window and started flag
unchanged, freshness kept -/
theorem c17_adds_sorted (evs : List (String × Item)) (g : Gen) (hg : GSorted g) (hn : ∀ e ∈ evs, e.2.seqNr < U32) :
    ∃ g', evs.foldlM (fun g e => g.addState e.1 e.2) g = some g' ∧ GSorted g' ∧ g'.w = g.w ∧ g'.started = g.started ∧
      (Fresh g.ctrs g.w → Fresh g'.ctrs g'.w) := by
  induction evs generalizing g with
  | nil => exact ⟨g, rfl, hg, rfl, rfl, fun h => h⟩
  | cons e t ih =>
    have h1 := gen_add_sorted g e.1 e.2 hg (hn e (by simp))
    simp only [List.foldlM_cons]
    have hst : ∃ g1, g.addState e.1 e.2 = some g1 ∧ GSorted g1 ∧ (Fresh g.ctrs g.w → Fresh g1.ctrs g1.w) := by
      unfold Gen.addState
      cases ha : g.add e.1 e.2 with
      | panic => rw [ha] at h1; exact h1.elim
      | err g1 => rw [ha] at h1; exact ⟨g1, rfl, h1⟩
      | ok g1 n => rw [ha] at h1; exact ⟨g1, rfl, h1⟩
    obtain ⟨g1, ha, hg1, hf1⟩ := hst
    obtain ⟨hw1, hs1⟩ := addState_fields g g1 e.1 e.2 ha
    obtain ⟨g', hfold, hg', hw', hs', hf'⟩ := ih g1 hg1 (fun e' he' => hn e' (by simp [he']))
    refine ⟨g', ?_, hg', by rw [hw', hw1], by rw [hs', hs1], fun hf => hf' (hf1 hf)⟩
    rw [ha]; exact hfold

/-- **Life cycle.**  Any uploads before start, `start` to any window `0 < w < 2³²`, any uploads after: nothing panics,
the generator is started, the invariant holds at the end, and all counters are inside the window if the window did not
shrink. -/
theorem c17_lifecycle (w0 w : Nat) (evs1 evs2 : List (String × Item)) (h0 : 0 < w0) (hw0 : w0 < U32)
    (h1 : 0 < w) (hw1 : w < U32) (hn1 : ∀ e ∈ evs1, e.2.seqNr < U32) (hn2 : ∀ e ∈ evs2, e.2.seqNr < U32) :
    ∃ g1 g2 g3, evs1.foldlM (fun g e => g.addState e.1 e.2) (Gen.new w0) = some g1 ∧
      g1.start w false = some g2 ∧ evs2.foldlM (fun g e => g.addState e.1 e.2) g2 = some g3 ∧
      GSorted g3 ∧ g3.started = true ∧ g3.w = w ∧ (w0 ≤ w → GFresh g3) := by
  have hi := c17_fresh_init w0 h0 hw0
  obtain ⟨g1, hf1, hg1, hw, _, hfr1⟩ := c17_adds_sorted evs1 (Gen.new w0) hi.base hn1
  have hfresh1 : GFresh g1 := ⟨hg1, hfr1 hi.fresh⟩
  obtain ⟨g2, hs2, hg2, hst2, hw2, hfr2⟩ := start_spec g1 w hfresh1 h1 hw1
  obtain ⟨g3, hf3, hg3, hw3, hst3, hfr3⟩ := c17_adds_sorted evs2 g2 hg2 hn2
  refine ⟨g1, g2, g3, hf1, hs2, hf3, hg3, by rw [hst3, hst2], by rw [hw3, hw2], ?_⟩
  intro hle
  refine ⟨hg3, hfr3 ?_⟩
  rw [hw2]; exact hfr2 (by rw [hw]; exact hle)

/-- **Every listed number is held by every track** — without the window side condition when all counters are fresh. -/
theorem c17_listed_every_track_fresh (g g' : Gen) (newSeqNr first last : Nat) (ass : List String) (tls : List (List Item))
    (hg : GFresh g) (hst : g.started = true) (h : g.mpdOn newSeqNr ass = .ok g' first last tls) :
    ∀ k, first ≤ k → k ≤ last → ∀ p ∈ g.bufs, (p.2.getItem k).isSome = true := by
  intro k hk1 hk2
  have hrange : ∃ x ∈ g.ctrs.live, x.seqNr = k := by
    unfold Gen.mpdOn at h
    cases hr : g.ctrs.fullRange g.tracks with
    | none => simp [hr] at h
    | some fl =>
      obtain ⟨f, l⟩ := fl
      simp only [hr] at h
      by_cases h1 : newSeqNr ≤ g.latest
      · simp [h1] at h
      · simp only [h1, ↓reduceIte] at h
        by_cases h2 : newSeqNr > l
        · simp [h2] at h
        · simp only [h2, ↓reduceIte] at h
          cases hm : ass.mapM (fun rep => (lookupBuf g.bufs rep).bind (fun b => timelineFor b f l)) with
          | none => simp [hm] at h
          | some tls' =>
            simp only [hm] at h
            injection h with _ hf hl _
            subst hf hl
            obtain ⟨x, hx, hxk, _⟩ := fullRange_spec g.ctrs g.tracks f l hr (by omega) k hk1 hk2
            exact ⟨x, hx, hxk⟩
  obtain ⟨x, hx, hxk⟩ := hrange
  have := hg.fresh x hx
  rw [hxk] at this
  exact c17_listed_every_track g g' newSeqNr first last ass tls hg.base.inv hst h k hk1 hk2 this

/-- **Only representations that have delivered media are written** (`fix:` commit; the late-track finding): the
AdaptationSets of the written MPD are those with at least one delivering Representation, each keeps exactly its
delivering Representations, and the timeline is taken from the first of them — so every written Representation has a
buffer with items, and with `c17_listed_every_track` holds every listed number. -/
theorem c17_written_reps_deliver (bufs : List (String × Buf)) (ass : List (List String)) :
    ∀ reps ∈ listedSets bufs ass, reps ≠ [] ∧ (∀ r ∈ reps, delivering bufs r = true) ∧
      ∃ all ∈ ass, reps = all.filter (delivering bufs) := by
  intro reps hr
  unfold listedSets at hr
  rw [List.mem_filter, List.mem_map] at hr
  obtain ⟨⟨all, hall, rfl⟩, hne⟩ := hr
  refine ⟨?_, ?_, all, hall, rfl⟩
  · intro h; simp [h] at hne
  · intro r hr; exact (List.mem_filter.mp hr).2

/-- **Counters and buffers stay within the window**: never more than `windowSize` live entries, in arrays of exactly
that length. -/
theorem c17_bounded (g : Gen) (hg : GInv g) :
    g.ctrs.nr ≤ g.w ∧ g.ctrs.arr.length = g.w ∧ ∀ p ∈ g.bufs, p.2.nr ≤ g.w ∧ p.2.items.length = g.w :=
  ⟨hg.cw.nr, hg.cw.len, fun p hp => ⟨(hg.bw p hp).nr, (hg.bw p hp).len⟩⟩

/-- the range an MPD generation writes, if it writes -/
def Gen.mpdRange (g : Gen) (n : Nat) (ass : List (List String)) : Option (Nat × Nat) :=
  match g.mpd n ass with
  | .ok _ f l _ => some (f, l)
  | _ => none

def exEvs1 : List (String × Item) := [("v", ⟨1, 10, 10, false⟩), ("a", ⟨1, 10, 10, false⟩), ("v", ⟨2, 20, 10, false⟩)]
def exEvs2 : List (String × Item) := [("a", ⟨2, 20, 10, false⟩)]
def exRun : Option Gen := do
  let g1 ← exEvs1.foldlM (fun g e => g.addState e.1 e.2) (Gen.new 8)
  let g2 ← g1.start 8 false
  exEvs2.foldlM (fun g e => g.addState e.1 e.2) g2

/-- non-vacuity of `c17_listed_every_track_fresh`: a concrete run (two tracks, start, the late track catches up) ends in
a started state that satisfies `GFresh` and writes an MPD listing 1..2 -/
example : ∃ g, exRun = some g ∧ GFresh g ∧ g.started = true ∧ g.mpdRange 2 [["v"], ["a"]] = some (1, 2) := by
  obtain ⟨g1, g2, g3, h1, h2, h3, _, hst, _, hf⟩ := c17_lifecycle 8 8 exEvs1 exEvs2 (by decide) (by decide) (by decide) (by decide)
    (by decide) (by decide)
  have hrun : exRun = some g3 := by
    unfold exRun; rw [h1]; simp only [Option.bind_eq_bind, Option.bind_some]; rw [h2]; simp only [Option.bind_some]; exact h3
  refine ⟨g3, hrun, hf (Nat.le_refl _), hst, ?_⟩
  have hc : (exRun.bind (fun g => g.mpdRange 2 [["v"], ["a"]])) = some (1, 2) := by decide
  rw [hrun] at hc
  simpa using hc

/-- non-vacuity: two tracks, three rounds, started after the second master segment; the third round
produces an MPD listing 1..3 -/
example :
    (match (Gen.new 8).add "v" ⟨1, 10, 10, false⟩ with
     | .ok g _ => match g.add "a" ⟨1, 10, 10, false⟩ with
       | .ok g _ => match g.add "v" ⟨2, 20, 10, false⟩ with
         | .ok g _ => match g.start 4 false with
           | some g => match g.add "a" ⟨2, 20, 10, false⟩ with
             | .ok g n => (n, match g.mpd n [["v"], ["a"]] with | .ok _ f l _ => (f, l) | _ => (0, 0))
             | _ => (0, (0, 0))
           | none => (0, (0, 0))
         | _ => (0, (0, 0))
       | _ => (0, (0, 0))
     | _ => (0, (0, 0))) = (2, (1, 2)) := by decide

example : expandS (buildS [⟨5, 100, 10, false⟩, ⟨6, 110, 10, false⟩, ⟨7, 121, 9, false⟩, ⟨8, 130, 10, false⟩]) 0
    = [(100, 10), (110, 10), (121, 9), (130, 10)] := by decide

/-! ## Every operation of the generator, in any order -/

/-- the operations the channel goroutine applies to the generator -/
inductive GOp
  | add (name : String) (it : Item)      -- `addSegmentData`
  | drop (n : Nat)                       -- `dropSeqNr` (a non-consecutive first pair of the master track)
  | start (w : Nat) (shifted : Bool)     -- `start` (resize; for a shifted channel `removeUnshifted` + `drop`s)

/-- what the callers guarantee: sequence numbers are `uint32`, the window is positive -/
def GOp.wf : GOp → Prop
  | .add _ it => it.seqNr < U32
  | .drop _ => True
  | .start w _ => 0 < w ∧ w < U32

/-- one operation; `none` = an index out of range, which would kill the channel goroutine -/
def runOp (g : Gen) : GOp → Option Gen
  | .add name it => match g.add name it with
    | .ok g' _ => some g'
    | .err g' => some g'
    | .panic => none
  | .drop n => g.dropSeqNr n
  | .start w sh => g.start w sh

def runOps (g : Gen) : List GOp → Option Gen
  | [] => some g
  | op :: rest => (runOp g op).bind (fun g' => runOps g' rest)

theorem runOp_shape (g : Gen) (op : GOp) (hg : GShape g) (hop : op.wf) : ∃ g', runOp g op = some g' ∧ GShape g' := by
  cases op with
  | add name it =>
    have h := gen_add_shape g name it hg hop
    simp only [runOp]
    cases hr : g.add name it with
    | ok g' n => rw [hr] at h; exact ⟨g', rfl, h⟩
    | err g' => rw [hr] at h; exact ⟨g', rfl, h⟩
    | panic => rw [hr] at h; exact h.elim
  | drop n => exact gen_drop_shape g n hg
  | start w sh =>
    obtain ⟨g', h1, h2, _⟩ := gen_start_shape g w sh hg hop.1 hop.2
    exact ⟨g', h1, h2⟩

/-- **No sequence of operations stops the receiver**: uploads of any track and number in any order, repairs of the
first pair (`dropSeqNr`), starts with or without the shift to any window — interleaved arbitrarily, from a new
generator — never index out of range, and the state stays well-formed (sizes, fill counters, distinct track names,
strictly increasing buffers), so the next operation is safe again. -/
theorem c17_any_ops_no_panic (w : Nat) (h0 : 0 < w) (hw : w < U32) (ops : List GOp) (hwf : ∀ op ∈ ops, op.wf) :
    ∃ g', runOps (Gen.new w) ops = some g' ∧ GShape g' := by
  suffices H : ∀ g, GShape g → ∃ g', runOps g ops = some g' ∧ GShape g' from H _ (gshape_new w h0 hw)
  induction ops with
  | nil => intro g hg; exact ⟨g, rfl, hg⟩
  | cons op rest ih =>
    intro g hg
    obtain ⟨g1, h1, hg1⟩ := runOp_shape g op hg (hwf op (by simp))
    obtain ⟨g2, h2, hg2⟩ := ih (fun o ho => hwf o (by simp [ho])) g1 hg1
    exact ⟨g2, by simp only [runOps, h1, Option.bind_some, h2], hg2⟩

/-- non-vacuity: a shifted start after unshifted uploads with a gap, a repair and further uploads -/
example : (runOps (Gen.new 3) [.add "v" ⟨5, 500, 100, false⟩, .add "v" ⟨7, 700, 100, false⟩, .drop 5,
    .add "a" ⟨7, 700, 100, false⟩, .start 4 true, .add "v" ⟨8, 800, 100, true⟩, .add "a" ⟨8, 800, 100, true⟩]).isSome = true := by
  decide

/-- **tie by translation**: the window start `minFromMax` of the counter model is the Go method, translated from the
current source (`Gen/Trans.lean`, regenerated on every run; the receiver field `windowSize` is a parameter) -/
theorem c17_trans_minFromMax (c : Ctrs) (mx : Nat) :
    Gen.Trans.minFromMax (c.w : Int) (mx : Int) = ((c.minFromMax mx : Nat) : Int) := TransTie.minFromMax_eq c mx

end Recv

/-!
## Renumbered channels — the stored stream satisfies `number = time / duration` again

Model `Model/Renum.lean`, tied to the receiver by the op `renum` (a real receiver is fed the uploads and the stored files
are listed with their decode times).
-/
namespace Renum

/-- the index the master's first segment gets: its time rounded *up* to the segment grid -/
def firstIdx (dts0 dur : Nat) : Nat := dts0 / dur + (if dts0 % dur ≠ 0 then 1 else 0)

theorem start_dur (seq0 dts0 dur mTS : Nat) : (start seq0 dts0 dur mTS).dur = dur ∧ (start seq0 dts0 dur mTS).mTS = mTS := by
  unfold start; simp only []; split <;> simp

/-- **The master track lands on the grid**: after the start, the master's `j`-th segment (decode time `dts0 + j·dur`) is
stored with decode time `(firstIdx + j)·dur`. -/
theorem c17_master_time (seq0 dts0 dur mTS j : Nat) (hd : 0 < dur) (hT : 0 < mTS) :
    (start seq0 dts0 dur mTS).outTime (dts0 + j * dur) mTS = (firstIdx dts0 dur + j) * dur := by
  unfold start firstIdx Start.outTime
  by_cases ho : dts0 % dur = 0
  · have hdiv : dts0 = dts0 / dur * dur := by
      have := Nat.div_add_mod dts0 dur; rw [ho] at this; rw [Nat.mul_comm]; omega
    simp only [ho, ne_eq, not_true_eq_false, if_false, Nat.add_zero]
    rw [Nat.add_mul]; omega
  · simp only [ho, ne_eq, not_false_eq_true, if_true]
    have hlt : dts0 % dur < dur := Nat.mod_lt _ hd
    have hne : dur - dts0 % dur ≠ 0 := by omega
    simp only [hne, not_false_eq_true, if_true, not_true_eq_false, if_false]
    have hsplit := Nat.div_add_mod dts0 dur
    have : dts0 + j * dur + (dur - dts0 % dur) = (dts0 / dur + 1 + j) * dur := by
      rw [Nat.add_mul, Nat.add_mul, Nat.one_mul, Nat.mul_comm (dts0 / dur) dur]; omega
    rw [this, Nat.mul_div_cancel _ hT]

/-- **… and is numbered by its time**: its number is `firstIdx + j − startNr` (in `uint32` arithmetic), so consecutive
master segments get consecutive numbers and `number + startNr = time / duration` holds for what is stored. -/
theorem c17_master_number (seq0 dts0 dur mTS j startNr : Nat) (hd : 0 < dur) (hT : 0 < mTS) :
    (start seq0 dts0 dur mTS).renumber startNr (dts0 + j * dur) mTS =
      some (((firstIdx dts0 dur + j) % 4294967296 + 4294967296 - startNr % 4294967296) % 4294967296,
            (firstIdx dts0 dur + j) * dur) := by
  unfold Start.renumber
  rw [c17_master_time seq0 dts0 dur mTS j hd hT]
  have hsd : (start seq0 dts0 dur mTS).segDur mTS = dur := by
    unfold Start.segDur; rw [(start_dur seq0 dts0 dur mTS).1, (start_dur seq0 dts0 dur mTS).2, Nat.mul_div_cancel _ hT]
  rw [hsd]
  have hne : dur ≠ 0 := by omega
  simp only [hne, if_false]
  have : ((firstIdx dts0 dur + j) * dur + dur / 2) / dur = firstIdx dts0 dur + j := by
    rw [Nat.mul_comm, Nat.mul_add_div hd]
    have : dur / 2 / dur = 0 := Nat.div_eq_of_lt (by omega)
    omega
  rw [this]

/-- **Every other track follows the nearest grid point**: an upload whose shifted time lies within half a segment
duration of `k·segDur` (before or after — audio cut at frame boundaries starts a little early or late) gets number
`k − startNr`, the number of the master segment it belongs to. -/
theorem c17_track_number (s : Start) (startNr inTime tsIn k : Nat) (hsd : 0 < s.segDur tsIn)
    (hlo : k * s.segDur tsIn ≤ s.outTime inTime tsIn + s.segDur tsIn / 2)
    (hhi : s.outTime inTime tsIn + s.segDur tsIn / 2 < (k + 1) * s.segDur tsIn) :
    s.renumber startNr inTime tsIn =
      some ((k % 4294967296 + 4294967296 - startNr % 4294967296) % 4294967296, s.outTime inTime tsIn) := by
  unfold Start.renumber
  have hne : s.segDur tsIn ≠ 0 := by omega
  simp only [hne, if_false]
  have : (s.outTime inTime tsIn + s.segDur tsIn / 2) / s.segDur tsIn = k := by
    apply Nat.div_eq_of_lt_le
    · exact hlo
    · exact hhi
  rw [this]

/-- an upload that starts *before* its grid point by less than half a segment is not counted to the previous number
(the floor a careless rewrite would take) -/
theorem c17_early_start_same_number (s : Start) (startNr inTime tsIn k e : Nat) (hsd : 0 < s.segDur tsIn)
    (ht : s.outTime inTime tsIn + e = k * s.segDur tsIn) (he : e ≤ s.segDur tsIn / 2) :
    s.renumber startNr inTime tsIn =
      some ((k % 4294967296 + 4294967296 - startNr % 4294967296) % 4294967296, s.outTime inTime tsIn) := by
  apply c17_track_number s startNr inTime tsIn k hsd
  · omega
  · have : (k + 1) * s.segDur tsIn = k * s.segDur tsIn + s.segDur tsIn := by rw [Nat.add_mul, Nat.one_mul]
    have h2 : s.segDur tsIn / 2 < s.segDur tsIn := Nat.div_lt_self hsd (by decide)
    omega

/-- non-vacuity: 2 s segments at 90 kHz, first master segment number 8090 at 10 s + 0.5 s: index 6, time shift 1.5 s;
audio (48 kHz) of the next round starting one AAC frame early is numbered with it -/
example : start 8090 945000 180000 90000 = ⟨180000, 90000, -8085 + 1, 135000⟩ := by decide
example : (start 8090 945000 180000 90000).renumber 0 (945000 + 180000) 90000 = some (7, 1260000) := by decide
example : (start 8090 945000 180000 90000).renumber 0 (504000 + 96000 - 1024) 48000 = some (7, 670976) := by decide

end Renum
