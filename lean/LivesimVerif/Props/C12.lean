import LivesimVerif.Lemmas.Subs
/-!
# C12 — Generated time subtitles show the right UTC second at the right media time

`Subs.calcCueItvls` is `calcCueItvls` on the UTC axis (`u0 = segment start + 1000·startTimeS`, `d` = segment
duration in ms).  For cue durations `0 < cueDur ≤ 1000` it equals the specification `specCues` (one cue per UTC
second whose display interval meets the segment); the clauses of the property are then theorems about `specCues`.
Cue durations above one second are a recorded finding (`c12_long_cues_counterexample`).
-/
namespace Subs

/-- **The code is the specification** for cue durations up to one second, for every segment position. -/
theorem c12_model_eq_spec (u0 d cueDur : Nat) (h0 : 0 < cueDur) (h1 : cueDur ≤ 1000) :
    calcCueItvls u0 d cueDur = some (specCues u0 d cueDur) := by
  unfold calcCueItvls specCues
  have hf : (cueDur + 999) / 1000 = 1 := by omega
  simp only [hf, Nat.one_ne_zero, ↓reduceIte, Nat.one_mul, Nat.mul_one, Nat.div_one]
  have hle : u0 / 1000 ≤ (u0 + d) / 1000 := Nat.div_le_div_right (Nat.le_add_right _ _)
  simp only [Nat.not_lt.mpr hle, ↓reduceIte]
  have hfun : cueOf u0 (u0 + d) cueDur = specCue u0 (u0 + d) cueDur := by
    funext s
    unfold cueOf specCue
    simp only
    by_cases he : s * 1000 = u0 + d
    · simp only [he, ↓reduceIte]
      have : ¬ max (u0 + d) u0 < min (u0 + d + cueDur) (u0 + d) := by omega
      simp [this]
    · simp only [he, ↓reduceIte]
      by_cases hc : min (s * 1000 + cueDur) (u0 + d) ≤ max (s * 1000) u0
      · simp [hc, Nat.not_lt.mpr hc]
      · simp [hc, Nat.lt_of_not_le hc]
  rw [hfun]

/-- Every cue lies inside the segment, is non-empty, starts at its UTC second or at the segment start, ends after
the cue duration or at the segment end, and shows that second. -/
theorem c12_cue_inside (u0 d cueDur : Nat) (c : Cue) (h : c ∈ specCues u0 d cueDur) :
    u0 ≤ c.start ∧ c.start < c.stop ∧ c.stop ≤ u0 + d ∧
    c.start = max (c.utcS * 1000) u0 ∧ c.stop = min (c.utcS * 1000 + cueDur) (u0 + d) := by
  obtain ⟨s, _, _, hc⟩ := (mem_specCues u0 d cueDur c).mp h
  unfold specCue at hc
  split at hc
  · rename_i hlt
    injection hc with hc; subst hc
    exact ⟨Nat.le_max_right _ _, hlt, Nat.min_le_right _ _, rfl, rfl⟩
  · cases hc

/-- **Exactly one cue per UTC second** whose display interval `[1000s, 1000s+cueDur)` meets the segment — and
none for any other second. -/
theorem c12_one_per_second (u0 d cueDur : Nat) (h1 : cueDur ≤ 1000) (s : Nat) :
    (max (s * 1000) u0 < min (s * 1000 + cueDur) (u0 + d) →
      (specCues u0 d cueDur).filter (·.utcS = s) = [⟨max (s * 1000) u0, min (s * 1000 + cueDur) (u0 + d), s⟩]) ∧
    (¬ max (s * 1000) u0 < min (s * 1000 + cueDur) (u0 + d) →
      (specCues u0 d cueDur).filter (·.utcS = s) = []) := by
  have hutc : ∀ a c, specCue u0 (u0 + d) cueDur a = some c → c.utcS = a := by
    intro a c hsp
    unfold specCue at hsp; split at hsp
    · injection hsp with hsp; subst hsp; rfl
    · cases hsp
  have key : ∀ (l : List Nat), l.Pairwise (· < ·) →
      ((l.filterMap (specCue u0 (u0 + d) cueDur)).filter (·.utcS = s)) =
        if s ∈ l then (specCue u0 (u0 + d) cueDur s).toList else [] := by
    intro l hp
    induction l with
    | nil => simp
    | cons a t ih =>
      have hpt := (List.pairwise_cons.mp hp).2
      have hat := (List.pairwise_cons.mp hp).1
      have iht := ih hpt
      by_cases has : a = s
      · subst has
        have hnot : a ∉ t := fun hm => Nat.lt_irrefl _ (hat a hm)
        rw [if_neg hnot] at iht
        cases hsp : specCue u0 (u0 + d) cueDur a with
        | none => rw [List.filterMap_cons_none hsp, iht]; simp [hsp]
        | some c =>
          rw [List.filterMap_cons_some hsp, List.filter_cons]
          simp [hutc a c hsp, iht, hsp]
      · have hiff : s ∈ a :: t ↔ s ∈ t := by
          simp [List.mem_cons, Ne.symm has]
        simp only [hiff]
        cases hsp : specCue u0 (u0 + d) cueDur a with
        | none => rw [List.filterMap_cons_none hsp]; exact iht
        | some c =>
          rw [List.filterMap_cons_some hsp, List.filter_cons]
          have : ¬ c.utcS = s := by rw [hutc a c hsp]; exact has
          simp only [this, decide_false, Bool.false_eq_true, ↓reduceIte]
          exact iht
  have hk := key _ (List.pairwise_lt_range' (s := u0 / 1000) (n := (u0 + d) / 1000 - u0 / 1000 + 1))
  have hle : u0 / 1000 ≤ (u0 + d) / 1000 := Nat.div_le_div_right (Nat.le_add_right _ _)
  unfold specCues
  rw [hk]
  constructor
  · intro hin
    have hmem : s ∈ List.range' (u0 / 1000) ((u0 + d) / 1000 - u0 / 1000 + 1) := by
      rw [List.mem_range'_1]; omega
    simp [hmem, specCue, hin]
  · intro hout
    simp [specCue, hout]

/-- Cues are in the order of their seconds and never overlap. -/
theorem c12_ordered_disjoint (u0 d cueDur : Nat) (h1 : cueDur ≤ 1000) :
    (specCues u0 d cueDur).Pairwise (fun a b => a.utcS < b.utcS ∧ a.stop ≤ b.start) := by
  unfold specCues
  apply List.Pairwise.filterMap (R := (· < ·)) _ _ (List.pairwise_lt_range' ..)
  intro s s' hlt b hb b' hb'
  unfold specCue at hb hb'
  split at hb <;> split at hb'
  · injection hb with hb; injection hb' with hb'; subst hb hb'; simp only; omega
  all_goals simp_all

/-! ## wvtt samples tile the segment -/

/-- **wvtt samples tile the segment exactly**: they are contiguous from the segment start to the segment end
(cue samples at the cue intervals, `vtte` fillers elsewhere). -/
theorem c12_wvtt_tiles (u0 d cueDur : Nat) (h1 : cueDur ≤ 1000) :
    chainEnd (wvttSamples (specCues u0 d cueDur) u0 d) u0 = some (u0 + d) := by
  have hin := c12_cue_inside u0 d cueDur
  have hord := c12_ordered_disjoint u0 d cueDur h1
  have hchain := wvttAux_chain (specCues u0 d cueDur) u0
    (fun c hc => by have := hin c hc; omega)
    (fun c hc => by
      have : c ∈ specCues u0 d cueDur := by
        cases hs : specCues u0 d cueDur with
        | nil => simp [hs] at hc
        | cons y t => simp [hs] at hc; subst hc; simp
      exact (hin c this).1)
    (hord.imp (fun h => h.2))
  have hle := lastEnd_le (specCues u0 d cueDur) u0 (u0 + d) (Nat.le_add_right _ _) (fun c hc => (hin c hc).2.2.1)
  unfold wvttSamples
  rw [chainEnd_append _ _ _ _ hchain]
  by_cases hl : lastEnd (specCues u0 d cueDur) u0 < u0 + d
  · simp [hl, chainEnd]; omega
  · simp only [hl, ↓reduceIte, chainEnd]; congr 1; omega

/-- `msToTTMLTime`: the printed fields recombine to the input and are in range. -/
theorem c12_ttml_time (ms : Nat) :
    let f := ttmlFields ms
    f.1 * 3600000 + f.2.1 * 60000 + f.2.2.1 * 1000 + f.2.2.2 = ms ∧ f.2.1 < 60 ∧ f.2.2.1 < 60 ∧ f.2.2.2 < 1000 := by
  simp only [ttmlFields]; omega

/-- **Finding** (cue durations above one second): there is only one cue every `ceil(cueDur/1000)` seconds (the
repository's own test `TestCalcCueItvls/long_cue` fixes this design).  Segment `[98 s, 100 s)`, `timesubsdur_1500`: a
single cue showing second 98; second 99 intersects the segment but has no cue, so "exactly one cue for each UTC second"
does not hold for such durations.  (Before the `fix:` commit the loop mixed units and this segment had no cue at all.) -/
theorem c12_long_cues_counterexample :
    calcCueItvls 98000 2000 1500 = some [⟨98000, 99500, 98⟩] ∧
    (specCues 98000 2000 1000).map (·.utcS) = [98, 99] := by decide

/-- non-vacuity: segment [12.9 s, 14.9 s), cue 800 ms: the cue of second 12 ended before the segment (skipped),
seconds 13 and 14 are shown. -/
example : calcCueItvls 12900 2000 800 = some [⟨13000, 13800, 13⟩, ⟨14000, 14800, 14⟩] := by decide
example : calcCueItvls 0 1000 0 = none := by decide

end Subs
