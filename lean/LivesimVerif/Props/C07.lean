import LivesimVerif.Gen.Access
/-!
# C07 — livesim2 responses are a pure function of (URL, time) and race-free

In the Lean models of the request handlers (`Model/Core`, `Mpd`, `Audio`, `Chunk`, `Patch`, `Cfg`, …) a response *is* a
function of the configuration, the instant and the loaded asset tables: there is nothing else it could depend on.  What
ties that to the Go code for this property is a frame condition — serving requests does not change the state the
handlers read — decided here over tables regenerated from the source on every run (`Gen/Access.lean`):

* `c07_asset_state_written_only_at_load`: every assignment to a field of `assetMgr`, `asset`, `RepData`, `repEncData`
  and `Server` is in a function that runs while the server is set up (listed), none in a request path;
* `c07_globals_reviewed`: the package-level variables of all anchored packages are exactly the reviewed set, and the only
  functions that assign to one are `init` functions — a new global (a cache, a scratch buffer) breaks this until reviewed;
* `c07_ingester_tables_locked`: the ingest manager's session tables and a session's state and report, the only
  state that API requests do change, are reached only under their mutex.

Not proved: that the libraries (mp4ff, dash-mpd, etree) and the values reached through pointers stay unchanged, and
race-freedom of the real executions: the history-independence and concurrency monitor (also run under the race detector)
observes those.
-/
namespace Pure

abbrev Acc := String × String × String × String × Bool × String × Nat

def appAcc : List Acc := Gen.accesses.filter fun a => a.1 == "app"

/-- functions that run only while the server is being set up (asset discovery and loading, template compilation) -/
def loadTime : List String := ["assetMgr.addAsset", "assetMgr.discoverAssets", "assetMgr.loadAsset", "assetMgr.loadRep",
  "RepData.readInit", "RepData.readMP4Segment", "RepData.readThumbSegment", "RepData.addEncryption", "RepData.addRegExpAndInit",
  "RepData.loadFromJSON", "asset.consolidateAsset", "asset.setReferenceRep", "newAssetMgr", "SetupServer",
  "Server.compileTemplates", "fillContentTypes"]

def readOnlyStructs : List String := ["assetMgr", "asset", "RepData", "repEncData", "Server"]

/-- **Nothing that a request handler reads from the asset tables is assigned outside server set-up.** -/
theorem c07_asset_state_written_only_at_load :
    (appAcc.filter fun a => readOnlyStructs.contains a.2.1 && a.2.2.2.2.1).all (fun a => loadTime.contains a.2.2.2.1) = true := by
  decide

/-- the table does contain those structures (non-vacuity) -/
example : (appAcc.any fun a => a.2.1 == "RepData" && a.2.2.1 == "Segments" && a.2.2.2.2.1) = true ∧
    (appAcc.any fun a => a.2.1 == "asset" && a.2.2.1 == "Reps" && !a.2.2.2.2.1) = true := by decide

/-- the reviewed package-level variables: error sentinels, compiled regular expressions, constant tables and byte
prefixes, the embedded file system, defaults copied by value, and the two values built in `init` functions -/
def reviewedGlobals : List (String × String) := [
  ("app", "DefaultConfig"), ("app", "ErrAtoInfTimeline"), ("app", "audioCodecPrefixes"), ("app", "content"),
  ("app", "defaultBuckets"), ("app", "defaultIV"), ("app", "errBadConfig"), ("app", "errGone"), ("app", "errNotFound"), ("app", "errUploadAborted"),
  ("app", "initData"), ("app", "keyStart"), ("app", "kidStart"), ("app", "prometheusMW"), ("app", "textCodecPrefixes"),
  ("app", "timeExp"), ("app", "videoCodecPrefixes"),
  ("patch", "ErrPatchSamePublishTime"), ("patch", "ErrPatchTooLate"),
  ("recv", "extFromMediaType"), ("recv", "mimeTypeFromMediaType"), ("recv", "mpdRegexp"), ("recv", "segmentRegexp"),
  ("recv", "streamsRegexp"), ("recv", "usg")]

def globalsSeen : List (String × String) := (Gen.globalRefs.map fun g => (g.1, g.2.1)).eraseDups

/-- **The package-level variables are exactly the reviewed ones, and only `init` functions assign to them.** -/
theorem c07_globals_reviewed :
    globalsSeen.all (fun g => reviewedGlobals.contains g) = true ∧
    (Gen.globalRefs.filter fun g => g.2.2.2.2).all (fun g => g.2.2.2.1 == "init") = true := by decide

/-- **The ingest tables, the only state API requests change, are reached only under their mutex.** -/
theorem c07_ingester_tables_locked :
    (appAcc.filter fun a => (a.2.1 == "cmafIngesterMgr" && (a.2.2.1 == "ingesters" || a.2.2.1 == "cancels")) ||
        (a.2.1 == "cmafIngester" && (a.2.2.1 == "state" || a.2.2.1 == "report"))).all
      (fun a => a.2.2.2.2.2.1 == "W") = true := by decide

end Pure
