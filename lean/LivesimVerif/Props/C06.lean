import LivesimVerif.Model.Mpd
/-!
# C06 — Splitting into periods preserves the timeline and the segment identities

`splitPeriod` / `reduceS` of the model (`Model/Mpd.lean`).  Periods `startP … endP` are the half-open tick
intervals `[p·pd·ts, (p+1)·pd·ts)`; `reduceS` keeps the single-period entries whose start lies in the interval.
-/
namespace Core

/-- **Tiling, stable ids**: the generated periods are `startP, startP+1, …, endP`, period `p` starts at
`p · periodDuration` and has id `P{p}` — a function of `p` only, not of the instant. -/
theorem c06_tile (a : Asset) (cfg : MpdCfg) (wt : WrapTimes) (sets : List ASOut) (pph : Nat) (ps : List PeriodOut)
    (h : splitPeriod a cfg wt sets pph = .ok ps) :
    ps.map (fun p => (p.id, p.startS)) =
      (List.range' ((wt.startTimeMS - cfg.startS * 1000) / (3600 / pph * 1000))
        ((wt.nowMS - cfg.startS * 1000) / (3600 / pph * 1000) + 1 - (wt.startTimeMS - cfg.startS * 1000) / (3600 / pph * 1000))).map
        (fun p => (p, p * (3600 / pph))) := by
  unfold splitPeriod at h
  by_cases h0 : pph = 0
  · simp [h0] at h
  by_cases h1 : a.segDurMS = 0
  · simp [h0, h1] at h
  by_cases h2 : 3600 / pph * 1000 % a.segDurMS = 0
  · by_cases h3 : 3600 / pph = 0
    · simp [h0, h1, h2, h3] at h
    · simp only [h0, h1, h2, h3, ↓reduceIte, ne_eq, not_true_eq_false] at h
      injection h with h
      subst h
      simp [List.map_map, Function.comp_def]
  · simp [h0, h1, h2] at h

/-- **presentationTimeOffset is the period start in the AdaptationSet's timescale**, for every period and every
AdaptationSet (timeline or `$Number$`), whatever the number of periods per hour: a segment with media time `t` is
presented at `Period@start + (t − PTO)/timescale = t/timescale`, its time in the single-period presentation. -/
theorem c06_pto (a : Asset) (cfg : MpdCfg) (wt : WrapTimes) (sets : List ASOut) (pph : Nat) (ps : List PeriodOut)
    (h : splitPeriod a cfg wt sets pph = .ok ps) :
    ∀ p ∈ ps, p.sets.map (fun o => (o.pto, o.ts)) = sets.map (fun o => (some (p.startS * o.ts), o.ts)) := by
  unfold splitPeriod at h
  by_cases h0 : pph = 0
  · simp [h0] at h
  by_cases h1 : a.segDurMS = 0
  · simp [h0, h1] at h
  by_cases h2 : 3600 / pph * 1000 % a.segDurMS = 0
  · by_cases h3 : 3600 / pph = 0
    · simp [h0, h1, h2, h3] at h
    · simp only [h0, h1, h2, h3, ↓reduceIte, ne_eq, not_true_eq_false] at h
      injection h with h
      subst h
      intro p hp
      rw [List.mem_map] at hp
      obtain ⟨k, _, rfl⟩ := hp
      simp only [List.map_map]
      apply List.map_congr_left
      intro o _
      simp only [Function.comp]
      cases o.tl <;> rfl
  · simp [h0, h1, h2] at h

/-- **Identity**: an entry kept in a period is an entry of the single-period timeline, unchanged, and its start
lies in that period's interval. -/
theorem c06_kept_is_original (entries : List (Nat × Nat)) (startNr pStart pEnd : Nat) (e : Nat × Nat)
    (h : e ∈ (reduceS entries startNr pStart pEnd).1) : e ∈ entries ∧ pStart ≤ e.1 ∧ e.1 < pEnd := by
  simp only [reduceS, List.mem_filter, decide_eq_true_eq] at h
  exact ⟨h.1, h.2.1, h.2.2⟩

/-- **Partition**: every entry of the single-period timeline whose start lies in a period's interval is kept in that
period — and (by `c06_kept_is_original`, the intervals being disjoint) in no other. -/
theorem c06_partition (entries : List (Nat × Nat)) (startNr pStart pEnd : Nat) (e : Nat × Nat)
    (he : e ∈ entries) (h1 : pStart ≤ e.1) (h2 : e.1 < pEnd) : e ∈ (reduceS entries startNr pStart pEnd).1 := by
  simp only [reduceS, List.mem_filter, decide_eq_true_eq]
  exact ⟨he, h1, h2⟩

/-- consecutive period intervals are disjoint and adjacent: a tick belongs to exactly one of them -/
theorem c06_interval_unique (pd ts t p q : Nat) (hp : p * pd * ts ≤ t ∧ t < (p + 1) * pd * ts)
    (hq : q * pd * ts ≤ t ∧ t < (q + 1) * pd * ts) : p = q := by
  rcases Nat.lt_trichotomy p q with h | h | h
  · have : (p + 1) * pd * ts ≤ q * pd * ts := Nat.mul_le_mul_right _ (Nat.mul_le_mul_right _ h)
    omega
  · exact h
  · have : (q + 1) * pd * ts ≤ p * pd * ts := Nat.mul_le_mul_right _ (Nat.mul_le_mul_right _ h)
    omega

/-- **Numbers are preserved** on a sorted timeline: the first kept entry keeps the number it has in the
single-period MPD (`startNr` + its index), because exactly the entries before it start before the period. -/
theorem c06_first_number (pre kept post : List (Nat × Nat)) (startNr pStart pEnd : Nat)
    (hpre : ∀ e ∈ pre, e.1 < pStart) (hk : ∀ e ∈ kept, pStart ≤ e.1 ∧ e.1 < pEnd) (hpost : ∀ e ∈ post, pEnd ≤ e.1)
    (hne : kept ≠ []) (hlt : pStart ≤ pEnd) :
    reduceS (pre ++ kept ++ post) startNr pStart pEnd = (kept, startNr + pre.length) := by
  unfold reduceS
  have f1 : (pre ++ kept ++ post).filter (fun e => decide (pStart ≤ e.1 ∧ e.1 < pEnd)) = kept := by
    rw [List.filter_append, List.filter_append]
    have a1 : pre.filter (fun e => decide (pStart ≤ e.1 ∧ e.1 < pEnd)) = [] := by
      rw [List.filter_eq_nil_iff]; intro e he; have := hpre e he; simp; omega
    have a2 : kept.filter (fun e => decide (pStart ≤ e.1 ∧ e.1 < pEnd)) = kept := by
      rw [List.filter_eq_self]; intro e he; have := hk e he; simp; omega
    have a3 : post.filter (fun e => decide (pStart ≤ e.1 ∧ e.1 < pEnd)) = [] := by
      rw [List.filter_eq_nil_iff]; intro e he; have := hpost e he; simp; omega
    rw [a1, a2, a3]; simp
  have f2 : (pre ++ kept ++ post).filter (fun e => decide (e.1 < pStart)) = pre := by
    rw [List.filter_append, List.filter_append]
    have a1 : pre.filter (fun e => decide (e.1 < pStart)) = pre := by
      rw [List.filter_eq_self]; intro e he; have := hpre e he; simpa
    have a2 : kept.filter (fun e => decide (e.1 < pStart)) = [] := by
      rw [List.filter_eq_nil_iff]; intro e he; have := hk e he; simp; omega
    have a3 : post.filter (fun e => decide (e.1 < pStart)) = [] := by
      rw [List.filter_eq_nil_iff]; intro e he; have := hpost e he; simp; omega
    rw [a1, a2, a3]; simp
  simp only [f1, f2]
  have : kept.isEmpty = false := by cases kept with | nil => exact absurd rfl hne | cons _ _ => rfl
  simp [this]

/-- **Rejection**: a period duration that is not a multiple of the segment duration is refused (error, not a crash);
values 0 and > 3600 of periods-per-hour are refused by the configuration check (`fix:` commit; driver/`cfg` op). -/
theorem c06_reject (a : Asset) (cfg : MpdCfg) (wt : WrapTimes) (sets : List ASOut) (pph : Nat)
    (hp : 0 < pph) (hs : 0 < a.segDurMS) (hn : (3600 / pph) * 1000 % a.segDurMS ≠ 0) :
    splitPeriod a cfg wt sets pph = .err := by
  unfold splitPeriod
  have h1 : ¬ pph = 0 := by omega
  have h2 : ¬ a.segDurMS = 0 := by omega
  simp [h1, h2, hn]

/-- Continuity is signalled in every AdaptationSet of every period exactly when requested. -/
theorem c06_continuity (a : Asset) (cfg : MpdCfg) (wt : WrapTimes) (sets : List ASOut) (pph : Nat) (ps : List PeriodOut)
    (h : splitPeriod a cfg wt sets pph = .ok ps) : ∀ p ∈ ps, ∀ o ∈ p.sets, o.cont = cfg.continuous := by
  unfold splitPeriod at h
  by_cases h0 : pph = 0
  · simp [h0] at h
  by_cases h1 : a.segDurMS = 0
  · simp [h0, h1] at h
  by_cases h2 : 3600 / pph * 1000 % a.segDurMS = 0
  · by_cases h3 : 3600 / pph = 0
    · simp [h0, h1, h2, h3] at h
    · simp only [h0, h1, h2, h3, ↓reduceIte, ne_eq, not_true_eq_false] at h
      injection h with h
      subst h
      intro p hp o ho
      simp only [List.mem_map] at hp
      obtain ⟨q, _, rfl⟩ := hp
      simp only [List.mem_map] at ho
      obtain ⟨o', _, rfl⟩ := ho
      cases o'.tl <;> rfl
  · simp [h0, h1, h2] at h

/-- non-vacuity: a 6-entry timeline of 2 s segments at 90 kHz split at 60 s -/
example : reduceS [(5040000, 180000), (5220000, 180000), (5400000, 180000), (5580000, 180000)] 28 (60 * 90000) (120 * 90000)
    = ([(5400000, 180000), (5580000, 180000)], 30) := by decide

end Core
