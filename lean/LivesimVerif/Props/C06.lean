import LivesimVerif.Model.Mpd
/-!
# C06 — Splitting into periods preserves the timeline and the segment identities

`splitPeriod` / `reduceS` of the model (`Model/Mpd.lean`).  Periods `startP … endP` are the half-open tick
intervals `[p·pd·ts, (p+1)·pd·ts)`; `reduceS` keeps the single-period entries whose start lies in the interval.
-/
namespace Core

/-- an accepted split is the split without the alignment check, and the periods are aligned -/
theorem splitPeriod_ok (a : Asset) (cfg : MpdCfg) (wt : WrapTimes) (sets : List ASOut) (pph : Nat) (ps : List PeriodOut)
    (h : splitPeriod a cfg wt sets pph = .ok ps) : splitPeriodCore a cfg wt sets pph = .ok ps := by
  unfold splitPeriod at h
  split at h
  · simp at h
  · exact h

/-- **Tiling, stable ids**: the generated periods are `startP, startP+1, …, endP`, period `p` starts at
`p · periodDuration` and has id `P{p}` — a function of `p` only, not of the instant. -/
theorem c06_tile (a : Asset) (cfg : MpdCfg) (wt : WrapTimes) (sets : List ASOut) (pph : Nat) (ps : List PeriodOut)
    (h : splitPeriod a cfg wt sets pph = .ok ps) :
    ps.map (fun p => (p.id, p.startS)) =
      (List.range' ((wt.startTimeMS - cfg.startS * 1000) / (3600 / pph * 1000))
        ((wt.nowMS - cfg.startS * 1000) / (3600 / pph * 1000) + 1 - (wt.startTimeMS - cfg.startS * 1000) / (3600 / pph * 1000))).map
        (fun p => (p, p * (3600 / pph))) := by
  have h := splitPeriod_ok a cfg wt sets pph ps h
  unfold splitPeriodCore at h
  by_cases h0 : pph = 0
  · simp [h0] at h
  by_cases h1 : a.segDurMS = 0
  · simp [h0, h1] at h
  by_cases h2 : 3600 / pph * 1000 % a.segDurMS = 0
  · by_cases h3 : 3600 / pph = 0
    · simp [h0, h1, h2, h3] at h
    · simp only [h0, h1, h2, h3, ↓reduceIte, ne_eq, not_true_eq_false] at h
      injection h with h
      subst h
      simp [List.map_map, Function.comp_def]
  · simp [h0, h1, h2] at h

/-- **presentationTimeOffset is the period start in the AdaptationSet's timescale**, for every period and every
AdaptationSet (timeline or `$Number$`), whatever the number of periods per hour: a segment with media time `t` is
presented at `Period@start + (t − PTO)/timescale = t/timescale`, its time in the single-period presentation. -/
theorem c06_pto (a : Asset) (cfg : MpdCfg) (wt : WrapTimes) (sets : List ASOut) (pph : Nat) (ps : List PeriodOut)
    (h : splitPeriod a cfg wt sets pph = .ok ps) :
    ∀ p ∈ ps, p.sets.map (fun o => (o.pto, o.ts)) = sets.map (fun o => (some (p.startS * o.ts), o.ts)) := by
  have h := splitPeriod_ok a cfg wt sets pph ps h
  unfold splitPeriodCore at h
  by_cases h0 : pph = 0
  · simp [h0] at h
  by_cases h1 : a.segDurMS = 0
  · simp [h0, h1] at h
  by_cases h2 : 3600 / pph * 1000 % a.segDurMS = 0
  · by_cases h3 : 3600 / pph = 0
    · simp [h0, h1, h2, h3] at h
    · simp only [h0, h1, h2, h3, ↓reduceIte, ne_eq, not_true_eq_false] at h
      injection h with h
      subst h
      intro p hp
      rw [List.mem_map] at hp
      obtain ⟨k, _, rfl⟩ := hp
      simp only [List.map_map]
      apply List.map_congr_left
      intro o _
      simp only [Function.comp]
      cases o.tl <;> rfl
  · simp [h0, h1, h2] at h

/-- **Identity**: an entry kept in a period is an entry of the single-period timeline, unchanged, and its start
lies in that period's interval. -/
theorem c06_kept_is_original (entries : List (Nat × Nat)) (startNr pStart pEnd : Nat) (e : Nat × Nat)
    (h : e ∈ (reduceS entries startNr pStart pEnd).1) : e ∈ entries ∧ pStart ≤ e.1 ∧ e.1 < pEnd := by
  simp only [reduceS, List.mem_filter, decide_eq_true_eq] at h
  exact ⟨h.1, h.2.1, h.2.2⟩

/-- **Partition**: every entry of the single-period timeline whose start lies in a period's interval is kept in that
period — and (by `c06_kept_is_original`, the intervals being disjoint) in no other. -/
theorem c06_partition (entries : List (Nat × Nat)) (startNr pStart pEnd : Nat) (e : Nat × Nat)
    (he : e ∈ entries) (h1 : pStart ≤ e.1) (h2 : e.1 < pEnd) : e ∈ (reduceS entries startNr pStart pEnd).1 := by
  simp only [reduceS, List.mem_filter, decide_eq_true_eq]
  exact ⟨he, h1, h2⟩

/-- consecutive period intervals are disjoint and adjacent: a tick belongs to exactly one of them -/
theorem c06_interval_unique (pd ts t p q : Nat) (hp : p * pd * ts ≤ t ∧ t < (p + 1) * pd * ts)
    (hq : q * pd * ts ≤ t ∧ t < (q + 1) * pd * ts) : p = q := by
  rcases Nat.lt_trichotomy p q with h | h | h
  · have : (p + 1) * pd * ts ≤ q * pd * ts := Nat.mul_le_mul_right _ (Nat.mul_le_mul_right _ h)
    omega
  · exact h
  · have : (q + 1) * pd * ts ≤ p * pd * ts := Nat.mul_le_mul_right _ (Nat.mul_le_mul_right _ h)
    omega

/-- **Numbers are preserved** on a sorted timeline: the first kept entry keeps the number it has in the
single-period MPD (`startNr` + its index), because exactly the entries before it start before the period. -/
theorem c06_first_number (pre kept post : List (Nat × Nat)) (startNr pStart pEnd : Nat)
    (hpre : ∀ e ∈ pre, e.1 < pStart) (hk : ∀ e ∈ kept, pStart ≤ e.1 ∧ e.1 < pEnd) (hpost : ∀ e ∈ post, pEnd ≤ e.1)
    (hne : kept ≠ []) (hlt : pStart ≤ pEnd) :
    reduceS (pre ++ kept ++ post) startNr pStart pEnd = (kept, startNr + pre.length) := by
  unfold reduceS
  have f1 : (pre ++ kept ++ post).filter (fun e => decide (pStart ≤ e.1 ∧ e.1 < pEnd)) = kept := by
    rw [List.filter_append, List.filter_append]
    have a1 : pre.filter (fun e => decide (pStart ≤ e.1 ∧ e.1 < pEnd)) = [] := by
      rw [List.filter_eq_nil_iff]; intro e he; have := hpre e he; simp; omega
    have a2 : kept.filter (fun e => decide (pStart ≤ e.1 ∧ e.1 < pEnd)) = kept := by
      rw [List.filter_eq_self]; intro e he; have := hk e he; simp; omega
    have a3 : post.filter (fun e => decide (pStart ≤ e.1 ∧ e.1 < pEnd)) = [] := by
      rw [List.filter_eq_nil_iff]; intro e he; have := hpost e he; simp; omega
    rw [a1, a2, a3]; simp
  have f2 : (pre ++ kept ++ post).filter (fun e => decide (e.1 < pStart)) = pre := by
    rw [List.filter_append, List.filter_append]
    have a1 : pre.filter (fun e => decide (e.1 < pStart)) = pre := by
      rw [List.filter_eq_self]; intro e he; have := hpre e he; simpa
    have a2 : kept.filter (fun e => decide (e.1 < pStart)) = [] := by
      rw [List.filter_eq_nil_iff]; intro e he; have := hk e he; simp; omega
    have a3 : post.filter (fun e => decide (e.1 < pStart)) = [] := by
      rw [List.filter_eq_nil_iff]; intro e he; have := hpost e he; simp; omega
    rw [a1, a2, a3]; simp
  simp only [f1, f2]
  have : kept.isEmpty = false := by cases kept with | nil => exact absurd rfl hne | cons _ _ => rfl
  simp [this]

/-- **Rejection**: a period duration that is not a multiple of the segment duration is refused (error, not a crash);
values 0 and > 3600 of periods-per-hour are refused by the configuration check (`fix:` commit; driver/`cfg` op). -/
theorem c06_reject (a : Asset) (cfg : MpdCfg) (wt : WrapTimes) (sets : List ASOut) (pph : Nat)
    (hp : 0 < pph) (hs : 0 < a.segDurMS) (hn : (3600 / pph) * 1000 % a.segDurMS ≠ 0) :
    splitPeriod a cfg wt sets pph = .err := by
  unfold splitPeriod
  have h1 : ¬ pph = 0 := by omega
  have h2 : ¬ a.segDurMS = 0 := by omega
  rw [if_neg (fun hc => hn hc.2.2.1)]
  unfold splitPeriodCore
  simp [h1, h2, hn]

/-- Continuity is signalled in every AdaptationSet of every period exactly when requested. -/
theorem c06_continuity (a : Asset) (cfg : MpdCfg) (wt : WrapTimes) (sets : List ASOut) (pph : Nat) (ps : List PeriodOut)
    (h : splitPeriod a cfg wt sets pph = .ok ps) : ∀ p ∈ ps, ∀ o ∈ p.sets, o.cont = cfg.continuous := by
  have h := splitPeriod_ok a cfg wt sets pph ps h
  unfold splitPeriodCore at h
  by_cases h0 : pph = 0
  · simp [h0] at h
  by_cases h1 : a.segDurMS = 0
  · simp [h0, h1] at h
  by_cases h2 : 3600 / pph * 1000 % a.segDurMS = 0
  · by_cases h3 : 3600 / pph = 0
    · simp [h0, h1, h2, h3] at h
    · simp only [h0, h1, h2, h3, ↓reduceIte, ne_eq, not_true_eq_false] at h
      injection h with h
      subst h
      intro p hp o ho
      simp only [List.mem_map] at hp
      obtain ⟨q, _, rfl⟩ := hp
      simp only [List.mem_map] at ho
      obtain ⟨o', _, rfl⟩ := ho
      cases o'.tl <;> rfl
  · simp [h0, h1, h2] at h

/-- non-vacuity: a 6-entry timeline of 2 s segments at 90 kHz split at 60 s -/
example : reduceS [(5040000, 180000), (5220000, 180000), (5400000, 180000), (5580000, 180000)] 28 (60 * 90000) (120 * 90000)
    = ([(5400000, 180000), (5580000, 180000)], 30) := by decide

/-- **Period starts are segment starts**: when the alignment check passes, every multiple of the period duration,
taken relative to the loop, is the start of a segment of the reference representation — for every period number `k`,
i.e. in every loop of the stream. -/
theorem c06_aligned_starts (r : Rep) (pd : Nat) (h : periodsOnStarts r pd = true) (k : Nat) :
    ∃ s ∈ r.segs, s.start = (r.seg 0).start + (k * (pd * r.T)) % r.dur := by
  unfold periodsOnStarts at h
  simp only at h
  split at h
  · simp at h
  · rename_i hc
    have hL : r.dur ≠ 0 := fun e => hc (Or.inl e)
    have hP : pd * r.T ≠ 0 := fun e => hc (Or.inr (Or.inl e))
    have hg : 0 < Nat.gcd (pd * r.T) r.dur := Nat.gcd_pos_of_pos_right _ (Nat.pos_of_ne_zero hL)
    have d1 : Nat.gcd (pd * r.T) r.dur ∣ pd * r.T := Nat.gcd_dvd_left _ _
    have d2 : Nat.gcd (pd * r.T) r.dur ∣ r.dur := Nat.gcd_dvd_right _ _
    have d3 : Nat.gcd (pd * r.T) r.dur ∣ (k * (pd * r.T)) % r.dur :=
      (Nat.dvd_mod_iff d2).2 (Nat.dvd_trans d1 (Nat.dvd_mul_left _ _))
    obtain ⟨j, hj⟩ := d3
    have hlt : (k * (pd * r.T)) % r.dur < r.dur := Nat.mod_lt _ (Nat.pos_of_ne_zero hL)
    have hjr : j < (r.dur + Nat.gcd (pd * r.T) r.dur - 1) / Nat.gcd (pd * r.T) r.dur := by
      rw [Nat.lt_div_iff_mul_lt hg]
      have : j * Nat.gcd (pd * r.T) r.dur < r.dur := by rw [Nat.mul_comm]; omega
      omega
    rw [List.all_eq_true] at h
    have := h j (List.mem_range.2 hjr)
    rw [List.any_eq_true] at this
    obtain ⟨s, hs, he⟩ := this
    refine ⟨s, hs, ?_⟩
    rw [hj, Nat.mul_comm]
    simpa using he

/-- **Rejection of unaligned periods**: when the average segment duration divides the period but the period starts do
not fall on segment starts of the reference track (2.002 s video with slightly shorter audio), the request is refused -/
theorem c06_reject_unaligned (a : Asset) (cfg : MpdCfg) (wt : WrapTimes) (sets : List ASOut) (pph : Nat)
    (hp : pph ≠ 0) (hs : a.segDurMS ≠ 0) (hd : 3600 / pph * 1000 % a.segDurMS = 0) (hn : periodsAligned a pph = false) :
    splitPeriod a cfg wt sets pph = .err := by
  unfold splitPeriod
  rw [if_pos ⟨hp, hs, hd, hn⟩]

/-- an accepted split is aligned -/
theorem c06_accepted_aligned (a : Asset) (cfg : MpdCfg) (wt : WrapTimes) (sets : List ASOut) (pph : Nat) (ps : List PeriodOut)
    (h : splitPeriod a cfg wt sets pph = .ok ps) : periodsAligned a pph = true := by
  unfold splitPeriod at h
  split at h
  · simp at h
  · rename_i hc
    unfold splitPeriodCore at h
    by_cases h0 : pph = 0
    · simp [h0] at h
    by_cases h1 : a.segDurMS = 0
    · simp [h0, h1] at h
    by_cases h2 : 3600 / pph * 1000 % a.segDurMS = 0
    · cases hA : periodsAligned a pph with
      | true => rfl
      | false => exact absurd ⟨h0, h1, h2, hA⟩ hc
    · simp [h0, h1, h2] at h

/-- non-vacuity: one 8 s segment per loop against 60 s periods (period starts at loop offset 4 s): not aligned, against
120 s periods: aligned; a loop of 3.5 + 6.4 + 0.1 s against 60 s periods: aligned (the periods start with the loop) -/
example : periodsOnStarts (Rep.mk "V" .video 1 [⟨0, 8, 1⟩] 0 0 false false) 60 = false := by decide
example : periodsOnStarts (Rep.mk "V" .video 1 [⟨0, 8, 1⟩] 0 0 false false) 120 = true := by decide
example : periodsOnStarts (Rep.mk "V" .video 10 [⟨0, 35, 1⟩, ⟨35, 99, 2⟩, ⟨99, 100, 3⟩] 0 0 false false) 60 = true := by decide


end Core
