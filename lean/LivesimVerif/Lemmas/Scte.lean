import LivesimVerif.Model.Scte
/-! Helper lemmas for C13 (candidate search, spacing). Core Lean only. -/
namespace Scte

theorem firstHit_sound (s e T : Nat) (l : List Nat) (x : Nat) (h : firstHit s e T l = some x) :
    x ∈ l ∧ s < x - lead * T ∧ x - lead * T ≤ e := by
  induction l with
  | nil => simp [firstHit] at h
  | cons y t ih =>
    unfold firstHit at h
    split at h
    · injection h with h; subst h; rename_i hc; exact ⟨by simp, hc.1, hc.2⟩
    · have := ih h; exact ⟨by simp [this.1], this.2⟩

/-- if exactly one candidate's announce instant lies in the interval, it is the one returned -/
theorem firstHit_unique (s e T : Nat) (l : List Nat) (x : Nat) (hx : x ∈ l)
    (hc : s < x - lead * T ∧ x - lead * T ≤ e)
    (hu : ∀ y ∈ l, (s < y - lead * T ∧ y - lead * T ≤ e) → y = x) : firstHit s e T l = some x := by
  induction l with
  | nil => simp at hx
  | cons y t ih =>
    unfold firstHit
    by_cases hy : s < y - lead * T ∧ y - lead * T ≤ e
    · simp only [hy, and_self, ↓reduceIte]; rw [hu y (by simp) hy]
    · rw [if_neg hy]
      have hxt : x ∈ t := by
        rcases List.mem_cons.mp hx with h | h
        · subst h; exact absurd hc hy
        · exact h
      exact ih hxt (fun z hz => hu z (by simp [hz]))

/-- membership in the candidate list, spelled out -/
theorem mem_candidates (s T n x : Nat) :
    x ∈ candidates s T n ↔ (∃ o ∈ offsets n, x = (s - s % (60 * T)) + o * T) ∨ x = (s - s % (60 * T)) + 70 * T := by
  simp [candidates]
  constructor
  · rintro (⟨o, ho, rfl⟩ | h)
    · exact Or.inl ⟨o, ho, rfl⟩
    · exact Or.inr h
  · rintro (⟨o, ho, rfl⟩ | h)
    · exact Or.inl ⟨o, ho, rfl⟩
    · exact Or.inr h

theorem offsets_mem (n o : Nat) (h : o ∈ offsets n) : o = 10 ∨ o = 36 ∨ o = 40 ∨ o = 46 := by
  unfold offsets at h
  split at h <;> simp at h <;> omega

theorem offsets_spaced (n o o' : Nat) (ho : o ∈ offsets n) (ho' : o' ∈ offsets n) (hne : o ≠ o') :
    o + 10 ≤ o' ∨ o' + 10 ≤ o := by
  unfold offsets at ho ho'
  split at ho <;> simp at ho ho' <;> omega

/-- distinct candidates are at least 10 s apart -/
theorem candidates_spaced (s T n x y : Nat) (hx : x ∈ candidates s T n) (hy : y ∈ candidates s T n)
    (hne : x ≠ y) : x + 10 * T ≤ y ∨ y + 10 * T ≤ x := by
  rw [mem_candidates] at hx hy
  generalize s - s % (60 * T) = ms at hx hy
  have mulmono : ∀ a b : Nat, a + 10 ≤ b → a * T + 10 * T ≤ b * T := by
    intro a b h
    have := Nat.mul_le_mul_right T h
    rw [Nat.add_mul] at this; exact this
  rcases hx with ⟨o, ho, rfl⟩ | rfl <;> rcases hy with ⟨o', ho', rfl⟩ | rfl
  · have hoo : o ≠ o' := fun h => hne (by rw [h])
    rcases offsets_spaced n o o' ho ho' hoo with h | h
    · left; have := mulmono _ _ h; omega
    · right; have := mulmono _ _ h; omega
  · left
    have h46 : o + 10 ≤ 70 := by rcases offsets_mem n o ho with h | h | h | h <;> omega
    have := mulmono _ _ h46; omega
  · right
    have h46 : o' + 10 ≤ 70 := by rcases offsets_mem n o' ho' with h | h | h | h <;> omega
    have := mulmono _ _ h46; omega
  · exact absurd rfl hne


end Scte
