import LivesimVerif.Model.Audio
/-!
# Which VoD frames make up a re-segmented audio segment (`createAudioSeg`)

For a VoD audio representation on a *frame grid* (the first segment starts at 0, every segment is a positive whole number
of frames long, and the segments follow each other without gap), the frames `createAudioSeg` collects for a recipe whose
bounds are whole frames are exactly the frames at those positions of the source — with the last frame repeated where the
recipe reaches beyond the source, and the frames from the start of the source for the part after the loop wrap.
-/
namespace Core

/-- the audio representation is on a frame grid of frame duration `fd` -/
structure Grid (r : Rep) (fd : Nat) : Prop where
  pos : 0 < fd
  ne : 0 < r.N
  start0 : (r.seg 0).start = 0
  len : ∀ i, i < r.N → (r.seg i).stop = (r.seg i).start + segFrames r fd i * fd
  nonempty : ∀ i, i < r.N → 0 < segFrames r fd i
  next : ∀ i, i + 1 < r.N → (r.seg (i + 1)).start = (r.seg i).stop

theorem Grid.start_eq {r : Rep} {fd : Nat} (g : Grid r fd) : ∀ i, i < r.N → (r.seg i).start = frameBase r fd i * fd
  | 0, _ => by simp [frameBase, g.start0]
  | i + 1, h => by
    rw [g.next i h, g.len i (by omega), g.start_eq i (by omega)]
    simp [frameBase, Nat.add_mul]

theorem Grid.stop_eq {r : Rep} {fd : Nat} (g : Grid r fd) (i : Nat) (h : i < r.N) :
    (r.seg i).stop = frameBase r fd (i + 1) * fd := by
  rw [g.len i h, g.start_eq i h]; simp [frameBase, Nat.add_mul]

theorem frameBase_mono (r : Rep) (fd : Nat) : ∀ i j, i ≤ j → frameBase r fd i ≤ frameBase r fd j := by
  intro i j h
  induction j with
  | zero => have : i = 0 := by omega
            subst this; exact Nat.le_refl _
  | succ j ih =>
    rcases Nat.lt_or_ge i (j + 1) with h1 | h1
    · have := ih (by omega); simp only [frameBase]; omega
    · have : i = j + 1 := by omega
      subst this; exact Nat.le_refl _

/-- total number of frames of the source -/
def totalFrames (r : Rep) (fd : Nat) : Nat := frameBase r fd r.N

theorem Grid.dur_eq {r : Rep} {fd : Nat} (g : Grid r fd) : r.dur = totalFrames r fd * fd := by
  have hne : r.segs.isEmpty = false := by
    have := g.ne; unfold Rep.N at this
    cases h : r.segs with
    | nil => simp [h] at this
    | cons _ _ => simp
  unfold Rep.dur
  simp only [hne, Bool.false_eq_true, if_false]
  have h1 := g.stop_eq (r.N - 1) (by have := g.ne; omega)
  have : r.N - 1 + 1 = r.N := by have := g.ne; omega
  rw [this] at h1
  rw [h1, g.start0]; rfl

/-! ## interval lists -/

theorem setLastEnd_append (pre : List Itvl) (x : Itvl) (e : Nat) :
    setLastEnd (pre ++ [x]) e = pre ++ [{ x with endIdx := e }] := by
  simp [setLastEnd, List.reverse_append]

theorem setLastFill_append (pre : List Itvl) (x : Itvl) (f : Nat) :
    setLastFill (pre ++ [x]) f = pre ++ [{ x with fill := f }] := by
  simp [setLastFill, List.reverse_append]

theorem lastDur_append (pre : List Itvl) (x : Itvl) (fd : Nat) :
    lastDur (pre ++ [x]) fd = (x.endIdx - x.startIdx) * fd := by
  simp [lastDur]

/-- the frames of a list of intervals -/
def framesOf (r : Rep) (fd : Nat) (l : List Itvl) : Option (List Nat) := (l.mapM (itvlFrames r fd)).map List.flatten

theorem framesOf_nil (r : Rep) (fd : Nat) : framesOf r fd [] = some [] := by simp [framesOf]

theorem framesOf_cons (r : Rep) (fd : Nat) (x : Itvl) (l : List Itvl) :
    framesOf r fd (x :: l) = (itvlFrames r fd x).bind fun a => (framesOf r fd l).map fun b => a ++ b := by
  unfold framesOf
  rw [List.mapM_cons]
  cases itvlFrames r fd x with
  | none => simp
  | some a =>
    cases l.mapM (itvlFrames r fd) with
    | none => simp
    | some bs => simp

theorem framesOf_append (r : Rep) (fd : Nat) (l₁ l₂ : List Itvl) :
    framesOf r fd (l₁ ++ l₂) = (framesOf r fd l₁).bind fun a => (framesOf r fd l₂).map fun b => a ++ b := by
  induction l₁ with
  | nil => simp [framesOf_nil]
  | cons x t ih =>
    rw [List.cons_append, framesOf_cons, framesOf_cons, ih]
    cases itvlFrames r fd x with
    | none => simp
    | some a =>
      cases framesOf r fd t with
      | none => simp
      | some b =>
        cases framesOf r fd l₂ with
        | none => simp
        | some c => simp [List.append_assoc]

theorem range'_append_range' (x m k : Nat) : List.range' x m ++ List.range' (x + m) k = List.range' x (m + k) := by
  induction m generalizing x with
  | zero => simp
  | succ m ih =>
    have : x + (m + 1) = x + 1 + m := by omega
    rw [List.range'_succ, List.cons_append, this, ih (x + 1)]
    have : m + 1 + k = (m + k) + 1 := by omega
    rw [this, List.range'_succ]

/-! ## the collecting loop -/

theorem itvlFrames_eq {r : Rep} {fd : Nat} (g : Grid r fd) (j s0 e fill : Nat) (hj : j < r.N) (hse : s0 ≤ e)
    (hen : e ≤ segFrames r fd j) :
    itvlFrames r fd ⟨j, s0, e, fill⟩ =
      some (List.range' (frameBase r fd j + s0) (e - s0) ++ List.replicate fill (frameBase r fd j + segFrames r fd j - 1)) := by
  unfold itvlFrames
  have h1 : ¬ (j ≥ r.N) := by omega
  have h2 : ¬ (s0 > e ∨ e > segFrames r fd j) := by omega
  have h3 : ¬ (fill > 0 ∧ segFrames r fd j = 0) := by have := g.nonempty j hj; omega
  simp only [h1, h2, h3, if_false]

/-- one round of the loop when an interval is already open -/
theorem collectLoop_step (r : Rep) (rec : Recipe) (fd fuel j : Nat) (pre : List Itvl) (x : Itvl) (col ns : Nat)
    (hj : j < r.N) (hin : rec.inStart < (r.seg j).stop) :
    collectLoop r rec fd (fuel + 1) j ⟨pre ++ [x], col, ns⟩ =
      if rec.inEnd ≥ (r.seg j).stop then
        if (r.seg j).stop = rec.inEnd then
          some ⟨pre ++ [{ x with endIdx := ((r.seg j).stop - (r.seg j).start) / fd }],
                col + (((r.seg j).stop - (r.seg j).start) / fd - x.startIdx) * fd, (r.seg j).stop⟩
        else if j < r.N - 1 then
          collectLoop r rec fd fuel (j + 1)
            ⟨(pre ++ [{ x with endIdx := ((r.seg j).stop - (r.seg j).start) / fd }]) ++ [⟨j + 1, 0, 0, 0⟩],
             col + (((r.seg j).stop - (r.seg j).start) / fd - x.startIdx) * fd, (r.seg j).stop⟩
        else
          some ⟨pre ++ [{ x with endIdx := ((r.seg j).stop - (r.seg j).start) / fd, fill := (rec.inEnd - (r.seg j).stop) / fd }],
                col + (((r.seg j).stop - (r.seg j).start) / fd - x.startIdx) * fd + (rec.inEnd - (r.seg j).stop), (r.seg j).stop⟩
      else
        some ⟨pre ++ [{ x with endIdx := (rec.inEnd - (r.seg j).start) / fd }],
              col + ((rec.inEnd - (r.seg j).start) / fd - x.startIdx) * fd, ns⟩ := by
  have hne : (pre ++ [x]).isEmpty = false := by simp
  have h1 : ¬ (j ≥ r.N) := by omega
  have h2 : ¬ ((r.seg j).stop ≤ rec.inStart) := by omega
  conv => lhs; unfold collectLoop
  simp only [h1, h2, if_false, hne, Bool.false_eq_true, and_false, setLastEnd_append, lastDur_append,
    setLastFill_append]

theorem mul_sub_div (b a fd : Nat) (hfd : 0 < fd) : (b * fd - a * fd) / fd = b - a := by
  rw [← Nat.sub_mul, Nat.mul_div_cancel _ hfd]

/-- **The collecting loop takes the source frames in order**, from frame `fb j + s0` up to frame `b` (exclusive), the
last source frame repeated for what lies beyond the source. -/
theorem collect_from {r : Rep} {fd : Nat} (g : Grid r fd) (rec : Recipe) (b : Nat) (hb : rec.inEnd = b * fd) :
    ∀ (fuel j s0 : Nat) (pre : List Itvl) (col ns : Nat), j < r.N → r.N - j ≤ fuel → s0 ≤ segFrames r fd j →
      frameBase r fd j + s0 ≤ b → rec.inStart < (r.seg j).stop →
      ∃ its col' ns', collectLoop r rec fd fuel j ⟨pre ++ [⟨j, s0, 0, 0⟩], col, ns⟩ = some ⟨pre ++ its, col', ns'⟩ ∧
        framesOf r fd its = some (List.range' (frameBase r fd j + s0) (min b (totalFrames r fd) - (frameBase r fd j + s0)) ++
          List.replicate (b - totalFrames r fd) (totalFrames r fd - 1)) ∧
        col' = col + (b - (frameBase r fd j + s0)) * fd := by
  intro fuel
  induction fuel with
  | zero => intro j s0 pre col ns hj hf; omega
  | succ fuel ih =>
    intro j s0 pre col ns hj hf hs0 hlo hin
    have hfd := g.pos
    have hstart := g.start_eq j hj
    have hstop := g.stop_eq j hj
    have hfb1 : frameBase r fd (j + 1) = frameBase r fd j + segFrames r fd j := rfl
    have hF : frameBase r fd (j + 1) ≤ totalFrames r fd := frameBase_mono r fd (j + 1) r.N (by omega)
    have hn : ((r.seg j).stop - (r.seg j).start) / fd = segFrames r fd j := rfl
    rw [collectLoop_step r rec fd fuel j pre ⟨j, s0, 0, 0⟩ col ns hj hin]
    simp only [hn]
    by_cases hge : rec.inEnd ≥ (r.seg j).stop
    · have hge' : frameBase r fd (j + 1) ≤ b := by
        rw [hb, hstop] at hge; exact Nat.le_of_mul_le_mul_right hge hfd
      simp only [hge, if_true]
      by_cases heq : (r.seg j).stop = rec.inEnd
      · -- the recipe ends with this segment
        have heq' : frameBase r fd (j + 1) = b := by
          rw [hb, hstop] at heq; exact Nat.eq_of_mul_eq_mul_right hfd heq
        simp only [heq, if_true]
        refine ⟨[⟨j, s0, segFrames r fd j, 0⟩], _, _, rfl, ?_, ?_⟩
        · rw [framesOf_cons, framesOf_nil, itvlFrames_eq g j s0 _ 0 hj hs0 (Nat.le_refl _)]
          have h1 : min b (totalFrames r fd) = b := by omega
          have h2 : b - totalFrames r fd = 0 := by omega
          simp only [h1, h2, List.replicate_zero, List.append_nil, Option.bind, Option.map]
          congr 2; omega
        · have : b - (frameBase r fd j + s0) = segFrames r fd j - s0 := by omega
          rw [this]
      · simp only [heq, if_false]
        have hgt : frameBase r fd (j + 1) < b := by
          rcases Nat.lt_or_ge (frameBase r fd (j + 1)) b with h | h
          · exact h
          · exfalso; apply heq; rw [hb, hstop]; congr 1; omega
        by_cases hlt : j < r.N - 1
        · -- go on with the next source segment
          simp only [hlt, if_true]
          have hin' : rec.inStart < (r.seg (j + 1)).stop := by
            have h1 := g.stop_eq (j + 1) (by omega)
            have h2 : frameBase r fd (j + 1) ≤ frameBase r fd (j + 1 + 1) := frameBase_mono _ _ _ _ (by omega)
            have := Nat.mul_le_mul_right fd h2
            omega
          obtain ⟨its, col', ns', hrun, hfr, hcol⟩ :=
            ih (j + 1) 0 (pre ++ [⟨j, s0, segFrames r fd j, 0⟩]) (col + (segFrames r fd j - s0) * fd) (r.seg j).stop
              (by omega) (by omega) (Nat.zero_le _) (by omega) hin'
          refine ⟨⟨j, s0, segFrames r fd j, 0⟩ :: its, col', ns', ?_, ?_, ?_⟩
          · rw [hrun]; simp [List.append_assoc]
          · rw [framesOf_cons, hfr, itvlFrames_eq g j s0 _ 0 hj hs0 (Nat.le_refl _)]
            simp only [List.replicate_zero, List.append_nil, Option.bind, Option.map, Nat.add_zero]
            have hm : frameBase r fd (j + 1) ≤ min b (totalFrames r fd) := by omega
            rw [← List.append_assoc]
            have e1 : frameBase r fd (j + 1) = frameBase r fd j + s0 + (segFrames r fd j - s0) := by omega
            rw [e1, range'_append_range']
            congr 3; omega
          · rw [hcol, Nat.add_zero, Nat.add_assoc, ← Nat.add_mul]; congr 2; omega
        · -- the last source segment: pad with its last frame
          simp only [hlt, if_false]
          have hjN : j + 1 = r.N := by omega
          have hFeq : totalFrames r fd = frameBase r fd (j + 1) := by unfold totalFrames; rw [hjN]
          have hfill : (rec.inEnd - (r.seg j).stop) / fd = b - totalFrames r fd := by
            rw [hb, hstop, hFeq]; exact mul_sub_div _ _ _ hfd
          refine ⟨[⟨j, s0, segFrames r fd j, b - totalFrames r fd⟩],
            col + (segFrames r fd j - s0) * fd + (rec.inEnd - (r.seg j).stop), (r.seg j).stop, ?_, ?_, ?_⟩
          · rw [hfill]
          · rw [framesOf_cons, framesOf_nil, itvlFrames_eq g j s0 _ _ hj hs0 (Nat.le_refl _)]
            have h1 : min b (totalFrames r fd) = totalFrames r fd := by omega
            simp only [h1, List.append_nil, Option.bind, Option.map]
            congr 3
            · omega
            · omega
          · rw [hb, hstop, ← Nat.sub_mul, Nat.add_assoc, ← Nat.add_mul]; congr 2; omega
    · -- the recipe ends inside this segment
      simp only [hge, if_false]
      have hlt' : b < frameBase r fd (j + 1) := by
        rcases Nat.lt_or_ge b (frameBase r fd (j + 1)) with h | h
        · exact h
        · exfalso; apply hge; rw [hb, hstop]; exact Nat.mul_le_mul_right fd h
      have hend : (rec.inEnd - (r.seg j).start) / fd = b - frameBase r fd j := by
        rw [hb, hstart]; exact mul_sub_div _ _ _ hfd
      refine ⟨[⟨j, s0, b - frameBase r fd j, 0⟩], col + ((rec.inEnd - (r.seg j).start) / fd - s0) * fd, ns, ?_, ?_, ?_⟩
      · rw [hend]
      · rw [framesOf_cons, framesOf_nil, itvlFrames_eq g j s0 _ 0 hj (by omega) (by omega)]
        have h1 : min b (totalFrames r fd) = b := by omega
        have h2 : b - totalFrames r fd = 0 := by omega
        simp only [h1, h2, List.replicate_zero, List.append_nil, Option.bind, Option.map]
        congr 2; omega
      · rw [hend]; congr 2; omega

/-- entering a source segment with no interval open yet opens one at the current position -/
theorem collectLoop_open (r : Rep) (rec : Recipe) (fd fuel j col ns : Nat) (hj : j < r.N)
    (hin : rec.inStart < (r.seg j).stop) (hns : ns < (r.seg j).stop) :
    collectLoop r rec fd (fuel + 1) j ⟨[], col, ns⟩ =
      collectLoop r rec fd (fuel + 1) j ⟨[] ++ [⟨j, (ns - (r.seg j).start) / fd, 0, 0⟩], col, ns⟩ := by
  have h1 : ¬ (j ≥ r.N) := by omega
  have h2 : ¬ ((r.seg j).stop ≤ rec.inStart) := by omega
  unfold collectLoop
  simp [h1, h2, hns]

/-- the loop from the first source segment: skip what lies before the start, then collect -/
theorem collect_init {r : Rep} {fd : Nat} (g : Grid r fd) (rec : Recipe) (a b : Nat) (ha : rec.inStart = a * fd)
    (hb : rec.inEnd = b * fd) (hab : a ≤ b) (haF : a < totalFrames r fd) :
    ∀ (fuel i : Nat), i < r.N → r.N - i ≤ fuel → frameBase r fd i ≤ a →
      ∃ its col' ns', collectLoop r rec fd fuel i ⟨[], 0, rec.inStart⟩ = some ⟨its, col', ns'⟩ ∧
        framesOf r fd its = some (List.range' a (min b (totalFrames r fd) - a) ++
          List.replicate (b - totalFrames r fd) (totalFrames r fd - 1)) ∧
        col' = (b - a) * fd := by
  intro fuel
  induction fuel with
  | zero => intro i hi hf; omega
  | succ fuel ih =>
    intro i hi hf hlo
    have hfd := g.pos
    have hstop := g.stop_eq i hi
    have hstart := g.start_eq i hi
    by_cases hskip : (r.seg i).stop ≤ rec.inStart
    · -- this source segment ends before the start
      have hle : frameBase r fd (i + 1) ≤ a := by
        rw [ha, hstop] at hskip; exact Nat.le_of_mul_le_mul_right hskip hfd
      have hi1 : i + 1 < r.N := by
        rcases Nat.lt_or_ge (i + 1) r.N with h | h
        · exact h
        · exfalso
          have : i + 1 = r.N := by omega
          unfold totalFrames at haF; rw [← this] at haF; omega
      have hstep : collectLoop r rec fd (fuel + 1) i ⟨[], 0, rec.inStart⟩ = collectLoop r rec fd fuel (i + 1) ⟨[], 0, rec.inStart⟩ := by
        have h1 : ¬ (i ≥ r.N) := by omega
        conv => lhs; unfold collectLoop
        simp [h1, hskip]
      rw [hstep]
      exact ih (i + 1) hi1 (by omega) hle
    · have hin : rec.inStart < (r.seg i).stop := by omega
      have hlt : a < frameBase r fd (i + 1) := by
        rcases Nat.lt_or_ge a (frameBase r fd (i + 1)) with h | h
        · exact h
        · exfalso; apply hskip; rw [ha, hstop]; exact Nat.mul_le_mul_right fd h
      rw [collectLoop_open r rec fd fuel i 0 rec.inStart hi hin hin]
      have hs0 : (rec.inStart - (r.seg i).start) / fd = a - frameBase r fd i := by
        rw [ha, hstart]; exact mul_sub_div _ _ _ hfd
      rw [hs0]
      have hfb1 : frameBase r fd (i + 1) = frameBase r fd i + segFrames r fd i := rfl
      obtain ⟨its, col', ns', hrun, hfr, hcol⟩ :=
        collect_from g rec b hb (fuel + 1) i (a - frameBase r fd i) [] 0 rec.inStart hi hf (by omega) (by omega) hin
      have e : frameBase r fd i + (a - frameBase r fd i) = a := by omega
      rw [e] at hfr hcol
      exact ⟨its, col', ns', by simpa using hrun, hfr, by omega⟩

/-- **The part after the loop wrap takes the frames from the start of the source**, `0 … w − 1`. -/
theorem afterWrap_from {r : Rep} {fd : Nat} (g : Grid r fd) (w : Nat) (hw : w < totalFrames r fd) :
    ∀ (fuel i : Nat) (pre : List Itvl), i < r.N → r.N - i ≤ fuel → frameBase r fd i ≤ w →
      ∃ its, afterWrapLoop r (w * fd) fd fuel i (pre ++ [⟨i, 0, 0, 0⟩]) = pre ++ its ∧
        framesOf r fd its = some (List.range' (frameBase r fd i) (w - frameBase r fd i)) := by
  intro fuel
  induction fuel with
  | zero => intro i pre hi hf; omega
  | succ fuel ih =>
    intro i pre hi hf hlo
    have hfd := g.pos
    have hstop := g.stop_eq i hi
    have hstart := g.start_eq i hi
    have hfb1 : frameBase r fd (i + 1) = frameBase r fd i + segFrames r fd i := rfl
    have h1 : ¬ (i ≥ r.N) := by omega
    conv => enter [1, its, 1, 1]; unfold afterWrapLoop
    simp only [h1, if_false, setLastEnd_append]
    by_cases hlt : w * fd < (r.seg i).stop
    · have hlt' : w < frameBase r fd (i + 1) := by
        rw [hstop] at hlt; exact Nat.lt_of_mul_lt_mul_right hlt
      simp only [hlt, if_true]
      have hend : (w * fd - (r.seg i).start) / fd = w - frameBase r fd i := by
        rw [hstart]; exact mul_sub_div _ _ _ hfd
      refine ⟨[⟨i, 0, w - frameBase r fd i, 0⟩], by rw [hend], ?_⟩
      rw [framesOf_cons, framesOf_nil, itvlFrames_eq g i 0 _ 0 hi (Nat.zero_le _) (by omega)]
      simp
    · have hge : frameBase r fd (i + 1) ≤ w := by
        rcases Nat.lt_or_ge w (frameBase r fd (i + 1)) with h | h
        · exfalso; apply hlt; rw [hstop]; exact Nat.mul_lt_mul_of_pos_right h hfd
        · exact h
      have hi1 : i + 1 < r.N := by
        rcases Nat.lt_or_ge (i + 1) r.N with h | h
        · exact h
        · exfalso
          have : i + 1 = r.N := by omega
          unfold totalFrames at hw; rw [← this] at hw; omega
      simp only [hlt, if_false]
      have hn : ((r.seg i).stop - (r.seg i).start) / fd = segFrames r fd i := rfl
      rw [hn]
      obtain ⟨its, hrun, hfr⟩ := ih (i + 1) (pre ++ [⟨i, 0, segFrames r fd i, 0⟩]) hi1 (by omega) hge
      refine ⟨⟨i, 0, segFrames r fd i, 0⟩ :: its, by rw [hrun]; simp [List.append_assoc], ?_⟩
      rw [framesOf_cons, hfr, itvlFrames_eq g i 0 _ 0 hi (Nat.zero_le _) (Nat.le_refl _)]
      simp only [List.replicate_zero, List.append_nil, Option.bind, Option.map, Nat.add_zero, Nat.sub_zero]
      rw [hfb1, range'_append_range']
      congr 2; omega

end Core
