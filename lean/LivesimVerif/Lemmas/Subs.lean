import LivesimVerif.Model.Subs
/-! Helper lemmas for C12. Core Lean only. -/
namespace Subs

theorem mem_specCues (u0 d cueDur : Nat) (c : Cue) :
    c ∈ specCues u0 d cueDur ↔ ∃ s, u0 / 1000 ≤ s ∧ s ≤ (u0 + d) / 1000 ∧ specCue u0 (u0 + d) cueDur s = some c := by
  unfold specCues
  simp only [List.mem_filterMap, List.mem_range'_1]
  have hle : u0 / 1000 ≤ (u0 + d) / 1000 := Nat.div_le_div_right (Nat.le_add_right _ _)
  constructor
  · rintro ⟨s, hs, hc⟩; exact ⟨s, hs.1, by omega, hc⟩
  · rintro ⟨s, h1, h2, hc⟩; exact ⟨s, ⟨h1, by omega⟩, hc⟩

theorem chainEnd_append (l1 l2 : List Sample) (a m : Nat) (h : chainEnd l1 a = some m) :
    chainEnd (l1 ++ l2) a = chainEnd l2 m := by
  induction l1 generalizing a with
  | nil => simp [chainEnd] at h; subst h; rfl
  | cons s rest ih =>
    simp only [List.cons_append, chainEnd] at h ⊢
    by_cases hc : s.start = a ∧ s.start ≤ s.stop
    · rw [if_pos hc] at h ⊢; exact ih _ h
    · rw [if_neg hc] at h; cases h

theorem wvttAux_chain (cues : List Cue) (a : Nat)
    (hs : ∀ c ∈ cues, c.start ≤ c.stop) (hfirst : ∀ c ∈ cues.head?, a ≤ c.start)
    (hp : cues.Pairwise (fun x y => x.stop ≤ y.start)) :
    chainEnd (wvttAux cues a) a = some (lastEnd cues a) := by
  induction cues generalizing a with
  | nil => simp [wvttAux, chainEnd, lastEnd]
  | cons c rest ih =>
    have hc := hs c (by simp)
    have ha : a ≤ c.start := hfirst c (by simp)
    have hrest := ih c.stop (fun x hx => hs x (by simp [hx]))
      (fun x hx => by
        cases rest with
        | nil => simp at hx
        | cons y t => simp at hx; subst hx; exact (List.pairwise_cons.mp hp).1 y (by simp))
      (List.pairwise_cons.mp hp).2
    unfold wvttAux lastEnd
    by_cases hg : c.start > a
    · rw [if_pos hg]
      show chainEnd (⟨a, c.start, none⟩ :: ⟨c.start, c.stop, some c.utcS⟩ :: wvttAux rest c.stop) a = _
      unfold chainEnd
      rw [if_pos ⟨rfl, ha⟩]
      unfold chainEnd
      rw [if_pos ⟨rfl, hc⟩]
      exact hrest
    · have he : c.start = a := by omega
      rw [if_neg hg]
      show chainEnd (⟨c.start, c.stop, some c.utcS⟩ :: wvttAux rest c.stop) a = _
      unfold chainEnd
      rw [if_pos ⟨he, hc⟩]
      exact hrest

theorem lastEnd_le (cues : List Cue) (a z : Nat) (ha : a ≤ z) (h : ∀ c ∈ cues, c.stop ≤ z) : lastEnd cues a ≤ z := by
  induction cues generalizing a with
  | nil => simpa [lastEnd]
  | cons c rest ih => unfold lastEnd; exact ih _ (h c (by simp)) (fun x hx => h x (by simp [hx]))


end Subs
