import LivesimVerif.Model.Myers
/-!
# Lemmas for the Myers model: segment validity of edit scripts and its composition
-/
namespace Myers
open Patch

/-- `es` is a valid script between the reading positions `(i, j)` and `(i₁, j₁)`: positions in order, kept stretches
equal, and after the last edit the rest up to `(i₁, j₁)` is an equal stretch. -/
def SegValid {α : Type} (xs ys : List α) : List Edit → Nat → Nat → Nat → Nat → Prop
  | [], i, j, i₁, j₁ =>
    i ≤ i₁ ∧ j₁ = j + (i₁ - i) ∧ i₁ ≤ xs.length ∧ j₁ ≤ ys.length ∧
      (xs.drop i).take (i₁ - i) = (ys.drop j).take (i₁ - i)
  | .del p :: es, i, j, i₁, j₁ =>
    i ≤ p ∧ p < xs.length ∧ (xs.drop i).take (p - i) = (ys.drop j).take (p - i) ∧
      SegValid xs ys es (p + 1) (j + (p - i)) i₁ j₁
  | .ins p q :: es, i, j, i₁, j₁ =>
    i ≤ p ∧ p ≤ xs.length ∧ q = j + (p - i) ∧ q < ys.length ∧
      (xs.drop i).take (p - i) = (ys.drop j).take (p - i) ∧ SegValid xs ys es p (q + 1) i₁ j₁

/-- two adjacent equal stretches are one equal stretch -/
theorem stretch_concat {α : Type} (xs ys : List α) (i j i₁ p : Nat) (h1 : i ≤ i₁) (h2 : i₁ ≤ p)
    (ha : (xs.drop i).take (i₁ - i) = (ys.drop j).take (i₁ - i))
    (hb : (xs.drop i₁).take (p - i₁) = (ys.drop (j + (i₁ - i))).take (p - i₁)) :
    (xs.drop i).take (p - i) = (ys.drop j).take (p - i) := by
  have e : p - i = (i₁ - i) + (p - i₁) := by omega
  rw [e, List.take_add, List.take_add, ha, List.drop_drop, List.drop_drop]
  rw [show i + (i₁ - i) = i₁ by omega, hb]

/-- an equal stretch in front of a segment-valid script -/
theorem seg_prepend {α : Type} (xs ys : List α) (es : List Edit) (i j i₁ j₁ i₂ j₂ : Nat)
    (h0 : SegValid xs ys [] i j i₁ j₁) (h : SegValid xs ys es i₁ j₁ i₂ j₂) : SegValid xs ys es i j i₂ j₂ := by
  simp only [SegValid] at h0
  obtain ⟨h1, hj, hx, hy, hs⟩ := h0
  subst hj
  cases es with
  | nil =>
    simp only [SegValid] at h ⊢
    obtain ⟨g1, gj, gx, gy, gs⟩ := h
    refine ⟨by omega, by omega, gx, gy, ?_⟩
    exact stretch_concat xs ys i j i₁ i₂ h1 g1 hs gs
  | cons e rest =>
    cases e with
    | del p =>
      simp only [SegValid] at h ⊢
      obtain ⟨g1, gp, gs, gr⟩ := h
      refine ⟨by omega, gp, stretch_concat xs ys i j i₁ p h1 g1 hs gs, ?_⟩
      rw [show j + (p - i) = j + (i₁ - i) + (p - i₁) by omega]; exact gr
    | ins p q =>
      simp only [SegValid] at h ⊢
      obtain ⟨g1, gp, gq, gql, gs, gr⟩ := h
      exact ⟨by omega, gp, by omega, gql, stretch_concat xs ys i j i₁ p h1 g1 hs gs, gr⟩

/-- scripts of adjacent segments concatenate -/
theorem seg_append {α : Type} (xs ys : List α) (es₁ es₂ : List Edit) (i j i₁ j₁ i₂ j₂ : Nat)
    (h1 : SegValid xs ys es₁ i j i₁ j₁) (h2 : SegValid xs ys es₂ i₁ j₁ i₂ j₂) :
    SegValid xs ys (es₁ ++ es₂) i j i₂ j₂ := by
  induction es₁ generalizing i j with
  | nil => exact seg_prepend xs ys es₂ i j i₁ j₁ i₂ j₂ h1 h2
  | cons e rest ih =>
    cases e with
    | del p =>
      simp only [SegValid, List.cons_append] at h1 ⊢
      exact ⟨h1.1, h1.2.1, h1.2.2.1, ih _ _ h1.2.2.2⟩
    | ins p q =>
      simp only [SegValid, List.cons_append] at h1 ⊢
      exact ⟨h1.1, h1.2.1, h1.2.2.1, h1.2.2.2.1, h1.2.2.2.2.1, ih _ _ h1.2.2.2.2.2⟩

/-- a script that is segment-valid up to the ends of both lists is valid -/
theorem seg_valid {α : Type} (xs ys : List α) (es : List Edit) (i j : Nat)
    (h : SegValid xs ys es i j xs.length ys.length) : Valid xs ys es i j := by
  induction es generalizing i j with
  | nil =>
    simp only [SegValid] at h
    obtain ⟨h1, hj, _, _, hs⟩ := h
    simp only [Valid]
    have a : (xs.drop i).take (xs.length - i) = xs.drop i := List.take_of_length_le (by simp)
    have b : (ys.drop j).take (xs.length - i) = ys.drop j := List.take_of_length_le (by simp; omega)
    rw [a, b] at hs; exact hs
  | cons e rest ih =>
    cases e with
    | del p => simp only [SegValid, Valid] at h ⊢; exact ⟨h.1, h.2.1, h.2.2.1, ih _ _ h.2.2.2⟩
    | ins p q =>
      simp only [SegValid, Valid] at h ⊢
      exact ⟨h.1, h.2.1, h.2.2.1, h.2.2.2.1, h.2.2.2.2.1, ih _ _ h.2.2.2.2.2⟩

theorem seg_nil_refl {α : Type} (xs ys : List α) (i j : Nat) (hi : i ≤ xs.length) (hj : j ≤ ys.length) :
    SegValid xs ys [] i j i j := by
  simp [SegValid, hi, hj]

/-- the deletions of a whole segment -/
theorem dels_seg {α : Type} (xs ys : List α) (n i j : Nat) (hi : i + n ≤ xs.length) (hj : j ≤ ys.length) :
    SegValid xs ys (dels i n) i j (i + n) j := by
  induction n generalizing i with
  | zero => simpa [dels] using seg_nil_refl xs ys i j hi hj
  | succ n ih =>
    simp only [dels, SegValid]
    refine ⟨Nat.le_refl _, by omega, by simp, ?_⟩
    have := ih (i + 1) (by omega)
    simpa [Nat.add_assoc, Nat.add_comm 1 n] using this

/-- the insertions of a whole segment -/
theorem inss_seg {α : Type} (xs ys : List α) (n i j : Nat) (hi : i ≤ xs.length) (hj : j + n ≤ ys.length) :
    SegValid xs ys (inss i j n) i j i (j + n) := by
  induction n generalizing j with
  | zero => simpa [inss] using seg_nil_refl xs ys i j hi hj
  | succ n ih =>
    simp only [inss, SegValid]
    refine ⟨Nat.le_refl _, hi, by simp, by omega, by simp, ?_⟩
    have := ih (j + 1) (by omega)
    simpa [Nat.add_assoc, Nat.add_comm 1 n] using this

end Myers

namespace Myers
open Patch

/-! ## The snake loop -/

/-- `n` consecutive elements from `x` in `e` equal those from `y` in `f` (and exist) -/
def RunEq {α : Type} (e f : List α) (x y n : Nat) : Prop :=
  ∀ s, s < n → ∃ v, e[x + s]? = some v ∧ f[y + s]? = some v

theorem runEq_take {α : Type} (e f : List α) (x y n : Nat) (h : RunEq e f x y n) :
    (e.drop x).take n = (f.drop y).take n := by
  apply List.ext_getElem?
  intro s
  by_cases hs : s < n
  · obtain ⟨v, h1, h2⟩ := h s hs
    simp [hs, h1, h2]
  · simp [List.getElem?_take, hs]

/-- the element index the snake loop uses -/
def idx (o m N t : Int) : Int := (1 - o) * N + m * t + (o - 1)

theorem idx_fwd (N t : Int) : idx 1 1 N t = t := by unfold idx; omega
theorem idx_rev (N t : Int) : idx 0 (-1) N t = N - t - 1 := by unfold idx; omega

theorem snake_succ {α : Type} [DecidableEq α] (e f : List α) (o m : Int) (fuel : Nat) (a b : Int) :
    snake e f o m (fuel + 1) a b =
      if a < (e.length : Int) ∧ b < (f.length : Int) then
        match elemAt e (idx o m e.length a), elemAt f (idx o m f.length b) with
        | some x, some y => if x = y then snake e f o m fuel (a+1) (b+1) else some (a, b)
        | _, _ => none
      else some (a, b) := rfl

/-- what the snake loop guarantees, for either direction -/
theorem snake_spec {α : Type} [DecidableEq α] (e f : List α) (o m : Int) (fuel : Nat) (a b a' b' : Int)
    (h : snake e f o m fuel a b = some (a', b')) :
    a ≤ a' ∧ b' - b = a' - a ∧
    (∀ t : Int, a ≤ t → t < a' → t < (e.length : Int) ∧ b + (t - a) < (f.length : Int) ∧
        ∃ v, elemAt e (idx o m e.length t) = some v ∧ elemAt f (idx o m f.length (b + (t - a))) = some v) ∧
    (a' < (e.length : Int) → b' < (f.length : Int) →
        ∃ x y, elemAt e (idx o m e.length a') = some x ∧ elemAt f (idx o m f.length b') = some y ∧ x ≠ y) := by
  induction fuel generalizing a b with
  | zero => simp [snake] at h
  | succ fuel ih =>
    rw [snake_succ] at h
    by_cases hc : a < (e.length : Int) ∧ b < (f.length : Int)
    · rw [if_pos hc] at h
      cases hx : elemAt e (idx o m e.length a) with
      | none => simp [hx] at h
      | some x =>
        cases hy : elemAt f (idx o m f.length b) with
        | none => simp [hx, hy] at h
        | some y =>
          simp only [hx, hy] at h
          by_cases hxy : x = y
          · rw [if_pos hxy] at h
            obtain ⟨i1, i2, i3, i4⟩ := ih (a+1) (b+1) h
            refine ⟨by omega, by omega, ?_, i4⟩
            intro t ht1 ht2
            by_cases hta : t = a
            · subst hta
              refine ⟨hc.1, by omega, x, hx, ?_⟩
              rw [show b + (t - t) = b by omega, hy, hxy]
            · obtain ⟨j1, j2, v, j3, j4⟩ := i3 t (by omega) ht2
              refine ⟨j1, by omega, v, j3, ?_⟩
              rw [show b + (t - a) = b + 1 + (t - (a + 1)) by omega]; exact j4
          · rw [if_neg hxy] at h
            simp only [Option.some.injEq, Prod.mk.injEq] at h
            obtain ⟨rfl, rfl⟩ := h
            refine ⟨by omega, by omega, ?_, ?_⟩
            · intro t h1 h2; omega
            · intro _ _; exact ⟨x, y, hx, hy, hxy⟩
    · rw [if_neg hc] at h
      simp only [Option.some.injEq, Prod.mk.injEq] at h
      obtain ⟨rfl, rfl⟩ := h
      refine ⟨by omega, by omega, ?_, ?_⟩
      · intro t h1 h2; omega
      · intro h1 h2; exact absurd ⟨h1, h2⟩ hc

theorem elemAt_some {α : Type} (l : List α) (i : Int) (v : α) (h : elemAt l i = some v) :
    0 ≤ i ∧ l[i.toNat]? = some v := by
  unfold elemAt at h
  by_cases hi : i < 0
  · simp [hi] at h
  · simp [hi] at h; exact ⟨by omega, h⟩

/-- forward snake: the run from `(a, b)` to `(a', b')` is elementwise equal -/
theorem snake_fwd_run {α : Type} [DecidableEq α] (e f : List α) (fuel : Nat) (a b a' b' : Int)
    (h : snake e f 1 1 fuel a b = some (a', b')) (ha : 0 ≤ a) (hb : 0 ≤ b) :
    RunEq e f a.toNat b.toNat (a' - a).toNat := by
  obtain ⟨h1, _, h3, _⟩ := snake_spec e f 1 1 fuel a b a' b' h
  intro s hs
  have hn : (((a' - a).toNat : Nat) : Int) = a' - a := Int.toNat_of_nonneg (by omega)
  obtain ⟨_, _, v, hv1, hv2⟩ := h3 (a + s) (by omega) (by omega)
  rw [idx_fwd] at hv1 hv2
  obtain ⟨_, g1⟩ := elemAt_some e _ v hv1
  obtain ⟨_, g2⟩ := elemAt_some f _ v hv2
  refine ⟨v, ?_, ?_⟩
  · rw [show a.toNat + s = (a + s).toNat by omega]; exact g1
  · rw [show b.toNat + s = (b + (a + ↑s - a)).toNat by omega]; exact g2

/-- reverse snake: in list coordinates the run from `(N - a', M - b')` to `(N - a, M - b)` is elementwise equal -/
theorem snake_rev_run {α : Type} [DecidableEq α] (e f : List α) (fuel : Nat) (a b a' b' : Int)
    (h : snake e f 0 (-1) fuel a b = some (a', b')) (ha : 0 ≤ a) (hb : 0 ≤ b) :
    RunEq e f ((e.length : Int) - a').toNat ((f.length : Int) - b').toNat (a' - a).toNat := by
  obtain ⟨h1, h2, h3, _⟩ := snake_spec e f 0 (-1) fuel a b a' b' h
  intro s hs
  have hn : (((a' - a).toNat : Nat) : Int) = a' - a := Int.toNat_of_nonneg (by omega)
  obtain ⟨k1, k2, v, hv1, hv2⟩ := h3 (a' - 1 - s) (by omega) (by omega)
  obtain ⟨q1, q2, _⟩ := h3 (a' - 1) (by omega) (by omega)
  rw [idx_rev] at hv1 hv2
  obtain ⟨p1, g1⟩ := elemAt_some e _ v hv1
  obtain ⟨p2, g2⟩ := elemAt_some f _ v hv2
  refine ⟨v, ?_, ?_⟩
  · rw [show ((e.length : Int) - a').toNat + s = ((e.length : Int) - (a' - 1 - ↑s) - 1).toNat by omega]; exact g1
  · rw [show ((f.length : Int) - b').toNat + s = ((f.length : Int) - (b + (a' - 1 - ↑s - a)) - 1).toNat by omega]
    exact g2

end Myers

namespace Myers
open Patch

/-! ## Hits of the search -/

/-- the facts about a hit that the recursion of `diffInternal` relies on -/
def HitOK {α : Type} (e f : List α) (r : Hit) : Prop :=
  r.x ≤ r.u ∧ r.v - r.y = r.u - r.x ∧
  (0 ≤ r.x → 0 ≤ r.y → r.u ≤ (e.length : Int) → r.v ≤ (f.length : Int) →
    RunEq e f r.x.toNat r.y.toNat (r.u - r.x).toNat)

/-- shape of a hit of the `k` loop body -/
theorem kStep_hit {α : Type} [DecidableEq α] (e f : List α) (h o m : Int) (c d : List Int) (k : Int) (r : Hit)
    (hk : kStep e f h o m c d k = .hit r) :
    ∃ a a' b', a = startA c h k (2 * min (e.length : Int) f.length + 2) ∧
      snake e f o m (e.length + 1) a (a - k) = some (a', b') ∧
      pyMod ((e.length : Int) + f.length) 2 = o ∧ -(k - ((e.length : Int) - f.length)) ≥ -(h - o) ∧
      -(k - ((e.length : Int) - f.length)) ≤ h - o ∧
      getI (setI c (pyMod k (2 * min (e.length : Int) f.length + 2)) a') (pyMod k (2 * min (e.length : Int) f.length + 2)) +
        getI d (pyMod (-(k - ((e.length : Int) - f.length))) (2 * min (e.length : Int) f.length + 2)) ≥ e.length ∧
      ((o = 1 ∧ r = ⟨2*h-1, a, a - k, a', b'⟩) ∨
       (o ≠ 1 ∧ r = ⟨2*h, (e.length : Int) - a', (f.length : Int) - b', (e.length : Int) - a, (f.length : Int) - (a - k)⟩)) := by
  unfold kStep at hk
  simp only at hk
  cases hs : snake e f o m (e.length + 1) (startA c h k (2 * min (e.length : Int) f.length + 2))
      (startA c h k (2 * min (e.length : Int) f.length + 2) - k) with
  | none => simp [hs] at hk
  | some ab =>
    obtain ⟨a', b'⟩ := ab
    simp only [hs] at hk
    split at hk
    · rename_i hc
      refine ⟨_, a', b', rfl, hs, hc.1, hc.2.1, hc.2.2.1, hc.2.2.2, ?_⟩
      by_cases ho : o = 1
      · rw [if_pos ho] at hk; left; exact ⟨ho, by injection hk with hk; exact hk.symm⟩
      · rw [if_neg ho] at hk; right; exact ⟨ho, by injection hk with hk; exact hk.symm⟩
    · simp at hk

theorem kStep_hit_ok {α : Type} [DecidableEq α] (e f : List α) (h o m : Int) (c d : List Int) (k : Int) (r : Hit)
    (hom : (o = 1 ∧ m = 1) ∨ (o = 0 ∧ m = -1)) (hk : kStep e f h o m c d k = .hit r) : HitOK e f r := by
  obtain ⟨a, a', b', _, hs, _, _, _, _, hr⟩ := kStep_hit e f h o m c d k r hk
  rcases hom with ⟨rfl, rfl⟩ | ⟨rfl, rfl⟩
  · rcases hr with ⟨_, rfl⟩ | ⟨ho, _⟩
    · obtain ⟨s1, s2, _, _⟩ := snake_spec e f 1 1 _ a (a - k) a' b' hs
      refine ⟨s1, by simp only; omega, ?_⟩
      intro hx hy _ _
      exact snake_fwd_run e f _ a (a - k) a' b' hs hx hy
    · exact absurd rfl ho
  · rcases hr with ⟨ho, _⟩ | ⟨_, rfl⟩
    · omega
    · obtain ⟨s1, s2, _, _⟩ := snake_spec e f 0 (-1) _ a (a - k) a' b' hs
      refine ⟨by simp only; omega, by simp only; omega, ?_⟩
      intro _ _ hu hv
      simp only at hu hv
      have := snake_rev_run e f _ a (a - k) a' b' hs (by omega) (by omega)
      simp only
      rw [show (e.length : Int) - a - (↑e.length - a') = a' - a by omega]; exact this

theorem kLoop_hit {α : Type} [DecidableEq α] (e f : List α) (h o m : Int) (d : List Int) (kMax : Int)
    (fuel : Nat) (k : Int) (c : List Int) (r : Hit) (hk : kLoop e f h o m d kMax fuel k c = .hit r) :
    ∃ c' k', k ≤ k' ∧ kStep e f h o m c' d k' = .hit r := by
  induction fuel generalizing k c with
  | zero => simp [kLoop] at hk
  | succ fuel ih =>
    simp only [kLoop] at hk
    split at hk
    · cases hst : kStep e f h o m c d k with
      | hit r' => rw [hst] at hk; simp only at hk; exact ⟨c, k, by omega, by rw [hst, hk]⟩
      | cont c' =>
        rw [hst] at hk; simp only at hk
        obtain ⟨c'', k', h1, h2⟩ := ih _ _ hk
        exact ⟨c'', k', by omega, h2⟩
      | panic => rw [hst] at hk; simp at hk
    · simp at hk

theorem hStep_hit {α : Type} [DecidableEq α] (e f : List α) (h : Int) (g p : List Int) (r : Hit)
    (hh : hStep e f h g p = .hit r) :
    ∃ o m c d k, ((o = 1 ∧ m = 1) ∨ (o = 0 ∧ m = -1)) ∧ kStep e f h o m c d k = .hit r := by
  unfold hStep at hh
  simp only at hh
  split at hh
  · rename_i r' hk
    obtain ⟨c, k, _, h2⟩ := kLoop_hit _ _ _ _ _ _ _ _ _ _ _ hk
    injection hh with hh; subst hh
    exact ⟨1, 1, c, p, k, Or.inl ⟨rfl, rfl⟩, h2⟩
  · simp at hh
  · split at hh
    · rename_i r' hk
      obtain ⟨c, k, _, h2⟩ := kLoop_hit _ _ _ _ _ _ _ _ _ _ _ hk
      injection hh with hh; subst hh
      exact ⟨0, -1, c, _, k, Or.inr ⟨rfl, rfl⟩, h2⟩
    · simp at hh
    · simp at hh

theorem hLoop_hit {α : Type} [DecidableEq α] (e f : List α) (hMax : Int) (fuel : Nat) (h : Int) (g p : List Int)
    (r : Hit) (hh : hLoop e f hMax fuel h g p = some r) :
    ∃ h' g' p', h ≤ h' ∧ hStep e f h' g' p' = .hit r := by
  induction fuel generalizing h g p with
  | zero => simp [hLoop] at hh
  | succ fuel ih =>
    simp only [hLoop] at hh
    split at hh
    · cases hst : hStep e f h g p with
      | hit r' => rw [hst] at hh; simp only [Option.some.injEq] at hh; exact ⟨h, g, p, by omega, by rw [hst, hh]⟩
      | cont g' p' =>
        rw [hst] at hh; simp only at hh
        obtain ⟨h', g'', p'', h1, h2⟩ := ih _ _ _ hh
        exact ⟨h', g'', p'', by omega, h2⟩
      | panic => rw [hst] at hh; simp at hh
    · simp at hh

/-- every hit of the search satisfies `HitOK` -/
theorem search_ok {α : Type} [DecidableEq α] (e f : List α) (r : Hit) (h : search e f = some r) : HitOK e f r := by
  unfold search at h
  obtain ⟨h', g', p', _, hh⟩ := hLoop_hit _ _ _ _ _ _ _ _ h
  obtain ⟨o, m, c, d, k, hom, hk⟩ := hStep_hit _ _ _ _ _ _ hh
  exact kStep_hit_ok e f h' o m c d k r hom hk

end Myers

namespace Myers
open Patch

/-! ## The recursion of `diffInternal` -/

/-- what the branches for `D ≤ 1` with an empty snake assume about the two lists -/
def SmallOK {α : Type} (e f : List α) : Prop :=
  (f.length > e.length → e = f.take e.length) ∧ (f.length < e.length → f = e.take f.length) ∧
  (f.length = e.length → e = f)

theorem seg_of_eq {α : Type} (xs ys : List α) (i j n : Nat) (hi : i + n ≤ xs.length) (hj : j + n ≤ ys.length)
    (h : (xs.drop i).take n = (ys.drop j).take n) : SegValid xs ys [] i j (i + n) (j + n) := by
  simp only [SegValid]
  refine ⟨by omega, by omega, hi, hj, ?_⟩
  rw [show i + n - i = n by omega]; exact h

/-- **Soundness of the recursion**, given the two facts about the search (`HitOK` for every hit, `SmallOK` for the
hits with `D ≤ 1` and an empty snake): whatever `diffInternal` returns for the segments `e = xs[i : i+N]` and
`f = ys[j : j+M]` is a segment-valid script between `(i, j)` and `(i+N, j+M)`. -/
theorem diff_seg {α : Type} [DecidableEq α]
    (hsmall : ∀ (e f : List α) (r : Hit), search e f = some r → 0 < e.length → 0 < f.length →
      ¬ (r.D > 1 ∨ (r.x ≠ r.u ∧ r.y ≠ r.v)) → SmallOK e f)
    (xs ys : List α) (fuel : Nat) (e f : List α) (i j : Nat) (es : List Edit)
    (he : (xs.drop i).take e.length = e) (hf : (ys.drop j).take f.length = f)
    (hi : i + e.length ≤ xs.length) (hj : j + f.length ≤ ys.length)
    (h : diff fuel e f i j = some es) : SegValid xs ys es i j (i + e.length) (j + f.length) := by
  induction fuel generalizing e f i j es with
  | zero => simp [diff] at h
  | succ fuel ih =>
    simp only [diff] at h
    by_cases hNM : e.length > 0 ∧ f.length > 0
    · rw [if_pos hNM] at h
      cases hs : search e f with
      | none => simp [hs] at h
      | some r =>
        simp only [hs] at h
        by_cases hD : r.D > 1 ∨ (r.x ≠ r.u ∧ r.y ≠ r.v)
        · rw [if_pos hD] at h
          split at h
          · rename_i hb
            obtain ⟨bx0, bx, by0, byy, bu0, bu, bv0, bv⟩ := hb
            obtain ⟨k1, k2, k3⟩ := search_ok e f r hs
            have hrun := runEq_take _ _ _ _ _ (k3 bx0 by0 bu bv)
            generalize hx : r.x.toNat = x at *
            generalize hy : r.y.toNat = y at *
            generalize hu : r.u.toNat = u at *
            generalize hv : r.v.toNat = v at *
            have hn : (r.u - r.x).toNat = u - x := by omega
            rw [hn] at hrun
            cases h1 : diff fuel (e.take x) (f.take y) i j with
            | none => simp [h1] at h
            | some s1 =>
              cases h2 : diff fuel (e.drop u) (f.drop v) (i + u) (j + v) with
              | none => simp [h1, h2] at h
              | some s2 =>
                simp only [h1, h2, Option.some.injEq] at h
                subst h
                have lx : (e.take x).length = x := by simp; omega
                have ly : (f.take y).length = y := by simp; omega
                have lu : (e.drop u).length = e.length - u := by simp
                have lv : (f.drop v).length = f.length - v := by simp
                have a1 := ih (e.take x) (f.take y) i j s1
                  (by rw [lx, ← he, List.take_take, Nat.min_eq_left (by omega)])
                  (by rw [ly, ← hf, List.take_take, Nat.min_eq_left (by omega)])
                  (by omega) (by omega) h1
                have a2 := ih (e.drop u) (f.drop v) (i + u) (j + v) s2
                  (by rw [lu, ← he, List.drop_take, List.drop_drop]; rw [he])
                  (by rw [lv, ← hf, List.drop_take, List.drop_drop]; rw [hf])
                  (by omega) (by omega) h2
                rw [lx, ly] at a1
                rw [lu, lv, show i + u + (e.length - u) = i + e.length by omega,
                  show j + v + (f.length - v) = j + f.length by omega] at a2
                have mid : SegValid xs ys [] (i + x) (j + y) (i + u) (j + v) := by
                  have hh := seg_of_eq xs ys (i + x) (j + y) (u - x) (by omega) (by omega) (by
                    have ex : (xs.drop (i + x)).take (u - x) = (e.drop x).take (u - x) := by
                      rw [← he, List.drop_take, List.drop_drop, List.take_take, Nat.min_eq_left (by omega)]
                    have ey : (ys.drop (j + y)).take (u - x) = (f.drop y).take (u - x) := by
                      rw [← hf, List.drop_take, List.drop_drop, List.take_take, Nat.min_eq_left (by omega)]
                    rw [ex, ey]; exact hrun)
                  rw [show i + x + (u - x) = i + u by omega, show j + y + (u - x) = j + v by omega] at hh
                  exact hh
                exact seg_append xs ys s1 s2 _ _ _ _ _ _ a1 (seg_prepend xs ys s2 _ _ _ _ _ _ mid a2)
          · simp at h
        · rw [if_neg hD] at h
          obtain ⟨c1, c2, c3⟩ := hsmall e f r hs hNM.1 hNM.2 hD
          by_cases hgt : f.length > e.length
          · rw [if_pos hgt] at h
            have a := ih [] (f.drop e.length) (i + e.length) (j + e.length) es (by simp)
              (by rw [← hf]; simp [List.drop_take]) (by simp; omega) (by simp; omega) h
            simp only [List.length_nil, Nat.add_zero, List.length_drop] at a
            rw [show j + e.length + (f.length - e.length) = j + f.length by omega] at a
            have hft : f.take e.length = (ys.drop j).take e.length := by
              have := congrArg (List.take e.length) hf
              rw [List.take_take, Nat.min_eq_left (by omega)] at this; exact this.symm
            have pre := seg_of_eq xs ys i j e.length (by omega) (by omega) (by
              rw [he, ← hft]; exact c1 hgt)
            exact seg_prepend xs ys es _ _ _ _ _ _ pre a
          · rw [if_neg hgt] at h
            by_cases hlt : f.length < e.length
            · rw [if_pos hlt] at h
              have a := ih (e.drop f.length) [] (i + f.length) (j + f.length) es
                (by rw [← he]; simp [List.drop_take]) (by simp) (by simp; omega) (by simp; omega) h
              simp only [List.length_nil, Nat.add_zero, List.length_drop] at a
              rw [show i + f.length + (e.length - f.length) = i + e.length by omega] at a
              have het : e.take f.length = (xs.drop i).take f.length := by
                have := congrArg (List.take f.length) he
                rw [List.take_take, Nat.min_eq_left (by omega)] at this; exact this.symm
              have pre := seg_of_eq xs ys i j f.length (by omega) (by omega) (by
                rw [hf, ← het]; exact (c2 hlt).symm)
              exact seg_prepend xs ys es _ _ _ _ _ _ pre a
            · rw [if_neg hlt] at h
              simp only [Option.some.injEq] at h
              subst h
              have hl : f.length = e.length := by omega
              have := seg_of_eq xs ys i j e.length (by omega) (by omega) (by
                rw [he]; rw [hl] at hf; rw [hf]; exact c3 hl)
              rw [hl]; exact this
    · rw [if_neg hNM] at h
      by_cases hN : e.length > 0
      · rw [if_pos hN] at h
        simp only [Option.some.injEq] at h
        subst h
        have : f.length = 0 := by omega
        rw [this]
        exact dels_seg xs ys e.length i j hi (by omega)
      · rw [if_neg hN] at h
        simp only [Option.some.injEq] at h
        subst h
        have : e.length = 0 := by omega
        rw [this]
        exact inss_seg xs ys f.length i j (by omega) hj

end Myers

namespace Myers
open Patch

/-! ## The first two rounds of the search, executed symbolically -/

theorem pyMod_of_nonneg (x y : Int) (h0 : 0 ≤ x) (h1 : x < y) : pyMod x y = x := by
  unfold pyMod
  rw [Int.tmod_eq_of_lt h0 h1, Int.tmod_eq_emod_of_nonneg (by omega), Int.add_emod_right, Int.emod_eq_of_lt h0 h1]

theorem pyMod_neg_one (y : Int) (h : 2 ≤ y) : pyMod (-1) y = y - 1 := by
  unfold pyMod
  have h1 : Int.tmod 1 y = 1 := Int.tmod_eq_of_lt (by omega) (by omega)
  rw [Int.neg_tmod, h1, Int.tmod_eq_of_lt (by omega) (by omega)]
  omega

theorem getI_zeros (n : Nat) (i : Int) : getI (List.replicate n 0) i = 0 := by
  unfold getI
  by_cases h : i.toNat < n
  · simp [List.getD, h]
  · simp [List.getD, h]

theorem getI_setI_same (l : List Int) (i v : Int) (h : i.toNat < l.length) : getI (setI l i v) i = v := by
  unfold getI setI
  simp [List.getD, h]

theorem getI_setI_ne (l : List Int) (i j v : Int) (hi : 0 ≤ i) (hj : 0 ≤ j) (h : i ≠ j) : getI (setI l i v) j = getI l j := by
  unfold getI setI
  have : i.toNat ≠ j.toNat := by omega
  simp [List.getD, List.getElem?_set_ne this]

theorem kLoop_single {α : Type} [DecidableEq α] (e f : List α) (h o m : Int) (d : List Int) (kMax : Int)
    (n : Nat) (k : Int) (c : List Int) (h1 : k < kMax) (h2 : kMax ≤ k + 2) :
    kLoop e f h o m d kMax (n + 2) k c =
      match kStep e f h o m c d k with
      | .cont c' => .cont c'
      | r => r := by
  rw [kLoop, if_pos h1]
  cases kStep e f h o m c d k with
  | hit r => rfl
  | panic => rfl
  | cont c' =>
    simp only
    rw [kLoop, if_neg (by omega)]

theorem kLoop_double {α : Type} [DecidableEq α] (e f : List α) (h o m : Int) (d : List Int) (kMax : Int)
    (n : Nat) (k : Int) (c : List Int) (h1 : k + 2 < kMax) (h2 : kMax ≤ k + 4) :
    kLoop e f h o m d kMax (n + 3) k c =
      match kStep e f h o m c d k with
      | .cont c' =>
        (match kStep e f h o m c' d (k + 2) with
         | .cont c'' => .cont c''
         | r => r)
      | r => r := by
  rw [kLoop, if_pos (by omega)]
  cases kStep e f h o m c d k with
  | hit r => rfl
  | panic => rfl
  | cont c' =>
    simp only
    exact kLoop_single e f h o m d kMax n (k + 2) c' h1 (by omega)


theorem startA_neg {c : List Int} {h k Z : Int} (hk : k = -h) : startA c h k Z = getI c (pyMod (k+1) Z) := by
  unfold startA; rw [if_pos (Or.inl hk)]

theorem kStep_eval {α : Type} [DecidableEq α] (e f : List α) (h o m : Int) (c d : List Int) (k a : Int)
    (ha : startA c h k (2 * min (e.length : Int) f.length + 2) = a) :
    kStep e f h o m c d k =
      match snake e f o m (e.length + 1) a (a - k) with
      | none => .panic
      | some (a', b') =>
        if pyMod ((e.length : Int) + f.length) 2 = o ∧ -(k - ((e.length : Int) - f.length)) ≥ -(h-o) ∧
            -(k - ((e.length : Int) - f.length)) ≤ h-o ∧
            getI (setI c (pyMod k (2 * min (e.length : Int) f.length + 2)) a') (pyMod k (2 * min (e.length : Int) f.length + 2)) +
              getI d (pyMod (-(k - ((e.length : Int) - f.length))) (2 * min (e.length : Int) f.length + 2)) ≥ e.length then
          if o = 1 then .hit ⟨2*h-1, a, a - k, a', b'⟩
          else .hit ⟨2*h, (e.length : Int) - a', (f.length : Int) - b', (e.length : Int) - a, (f.length : Int) - (a - k)⟩
        else .cont (setI c (pyMod k (2 * min (e.length : Int) f.length + 2)) a') := by
  unfold kStep
  simp only [ha]
  rfl


theorem hStep_zero {α : Type} [DecidableEq α] (e f : List α) (hN : 0 < e.length) (hM : 0 < f.length)
    (Z0 : List Int) (hZ0 : Z0 = List.replicate (2 * min (e.length : Int) f.length + 2).toNat 0) :
    hStep e f 0 Z0 Z0 =
      match snake e f 1 1 (e.length + 1) 0 0 with
      | none => .panic
      | some (a0, _) =>
        match snake e f 0 (-1) (e.length + 1) 0 0 with
        | none => .panic
        | some (r0, s0) =>
          if pyMod ((e.length : Int) + f.length) 2 = 0 ∧ (e.length : Int) = f.length ∧ r0 + a0 ≥ e.length then
            .hit ⟨0, (e.length : Int) - r0, (f.length : Int) - s0, e.length, f.length⟩
          else .cont (setI Z0 0 a0) (setI Z0 0 r0) := by
  have hZ : (2 * min (e.length : Int) f.length + 2) ≥ 4 := by omega
  have hlen : Z0.length = (2 * min (e.length : Int) f.length + 2).toNat := by rw [hZ0]; simp
  have p0 : pyMod 0 (2 * min (e.length : Int) f.length + 2) = 0 := pyMod_of_nonneg _ _ (by omega) (by omega)
  unfold hStep
  have k1 : -((0:Int) - 2 * max 0 (0 - (f.length : Int))) = 0 := by omega
  have k2 : (0:Int) - 2 * max 0 (0 - (e.length : Int)) + 1 = 1 := by omega
  simp only [k1, k2]
  rw [show ((1:Int) - 0).toNat + 1 = 0 + 2 by decide]
  rw [kLoop_single e f 0 1 1 Z0 1 0 0 Z0 (by omega) (by omega)]
  have sa : startA Z0 0 0 (2 * min (e.length : Int) f.length + 2) = 0 := by
    rw [startA_neg (by omega), hZ0, getI_zeros]
  rw [kStep_eval e f 0 1 1 Z0 Z0 0 0 sa]
  rw [show (0:Int) - 0 = 0 by omega]
  cases hf : snake e f 1 1 (e.length + 1) 0 0 with
  | none => rfl
  | some ab =>
    obtain ⟨a0, b0⟩ := ab
    simp only
    have c1 : ¬ (pyMod ((e.length : Int) + f.length) 2 = 1 ∧ -((0:Int) - ((e.length : Int) - f.length)) ≥ -(0-1) ∧
            -((0:Int) - ((e.length : Int) - f.length)) ≤ 0-1 ∧
            getI (setI Z0 (pyMod 0 (2 * min (e.length : Int) f.length + 2)) a0) (pyMod 0 (2 * min (e.length : Int) f.length + 2)) +
              getI Z0 (pyMod (-((0:Int) - ((e.length : Int) - f.length))) (2 * min (e.length : Int) f.length + 2)) ≥ e.length) := by
      intro hc; omega
    rw [if_neg c1]
    simp only [p0]
    rw [kLoop_single e f 0 0 (-1) (setI Z0 0 a0) 1 0 0 Z0 (by omega) (by omega)]
    rw [kStep_eval e f 0 0 (-1) Z0 (setI Z0 0 a0) 0 0 sa]
    rw [show (0:Int) - 0 = 0 by omega]
    cases hr : snake e f 0 (-1) (e.length + 1) 0 0 with
    | none => rfl
    | some rs =>
      obtain ⟨r0, s0⟩ := rs
      simp only [p0]
      have g1 : getI (setI Z0 0 r0) 0 = r0 := getI_setI_same _ _ _ (by rw [hlen]; simp; omega)
      have g2 : getI (setI Z0 0 a0) 0 = a0 := getI_setI_same _ _ _ (by rw [hlen]; simp; omega)
      by_cases hc : pyMod ((e.length : Int) + f.length) 2 = 0 ∧ (e.length : Int) = f.length ∧ r0 + a0 ≥ e.length
      · have hw : -((0:Int) - ((e.length : Int) - f.length)) = 0 := by omega
        rw [if_pos hc, hw, p0, g1, g2, if_pos ⟨hc.1, by omega, by omega, hc.2.2⟩]
        simp
      · have hl : ¬ (pyMod ((e.length : Int) + f.length) 2 = 0 ∧
                -((0:Int) - ((e.length : Int) - f.length)) ≥ -0 ∧
                  -((0:Int) - ((e.length : Int) - f.length)) ≤ 0 ∧
                    getI (setI Z0 0 r0) 0 +
                        getI (setI Z0 0 a0) (pyMod (-((0:Int) - ((e.length : Int) - f.length))) (2 * min (e.length : Int) f.length + 2)) ≥
                      e.length) := by
          intro ⟨q1, q2, q3, q4⟩
          have hw : -((0:Int) - ((e.length : Int) - f.length)) = 0 := by omega
          rw [hw, p0, g1, g2] at q4
          exact hc ⟨q1, by omega, q4⟩
        rw [if_neg hc, if_neg hl]

/-- a hit of the reverse pass in round `h` has `D = 2h` -/
theorem kLoop_rev_D {α : Type} [DecidableEq α] (e f : List α) (h : Int) (d : List Int) (kMax : Int)
    (fuel : Nat) (k : Int) (c : List Int) (r : Hit) (hk : kLoop e f h 0 (-1) d kMax fuel k c = .hit r) :
    r.D = 2 * h := by
  obtain ⟨c', k', _, h2⟩ := kLoop_hit _ _ _ _ _ _ _ _ _ _ _ hk
  obtain ⟨a, a', b', _, _, _, _, _, _, hr⟩ := kStep_hit _ _ _ _ _ _ _ _ _ h2
  rcases hr with ⟨ho, _⟩ | ⟨_, rfl⟩
  · omega
  · rfl

theorem kLoop_fwd_D {α : Type} [DecidableEq α] (e f : List α) (h : Int) (d : List Int) (kMax : Int)
    (fuel : Nat) (k : Int) (c : List Int) (r : Hit) (hk : kLoop e f h 1 1 d kMax fuel k c = .hit r) :
    r.D = 2 * h - 1 := by
  obtain ⟨c', k', _, h2⟩ := kLoop_hit _ _ _ _ _ _ _ _ _ _ _ hk
  obtain ⟨a, a', b', _, _, _, _, _, _, hr⟩ := kStep_hit _ _ _ _ _ _ _ _ _ h2
  rcases hr with ⟨_, rfl⟩ | ⟨ho, _⟩
  · rfl
  · omega

theorem hStep_D {α : Type} [DecidableEq α] (e f : List α) (h : Int) (g p : List Int) (r : Hit)
    (hh : hStep e f h g p = .hit r) : r.D = 2 * h - 1 ∨ r.D = 2 * h := by
  unfold hStep at hh
  simp only at hh
  split at hh
  · rename_i r' hk
    injection hh with hh; subst hh
    exact Or.inl (kLoop_fwd_D _ _ _ _ _ _ _ _ _ hk)
  · simp at hh
  · split at hh
    · rename_i r' hk
      injection hh with hh; subst hh
      exact Or.inr (kLoop_rev_D _ _ _ _ _ _ _ _ _ hk)
    · simp at hh
    · simp at hh

theorem kStep_cont {α : Type} [DecidableEq α] (e f : List α) (h o m : Int) (c d : List Int) (k : Int) (c' : List Int)
    (hk : kStep e f h o m c d k = .cont c') :
    ∃ a' b', snake e f o m (e.length + 1) (startA c h k (2 * min (e.length : Int) f.length + 2))
        (startA c h k (2 * min (e.length : Int) f.length + 2) - k) = some (a', b') ∧
      c' = setI c (pyMod k (2 * min (e.length : Int) f.length + 2)) a' := by
  unfold kStep at hk
  simp only at hk
  cases hs : snake e f o m (e.length + 1) (startA c h k (2 * min (e.length : Int) f.length + 2))
      (startA c h k (2 * min (e.length : Int) f.length + 2) - k) with
  | none => simp [hs] at hk
  | some ab =>
    obtain ⟨a', b'⟩ := ab
    simp only [hs] at hk
    split at hk
    · split at hk <;> simp at hk
    · injection hk with hk
      exact ⟨a', b', rfl, hk.symm⟩

theorem kLoop_double_hit {α : Type} [DecidableEq α] (e f : List α) (h o m : Int) (d : List Int) (kMax : Int)
    (n : Nat) (k : Int) (c : List Int) (r : Hit) (h1 : k + 2 < kMax) (h2 : kMax ≤ k + 4)
    (hk : kLoop e f h o m d kMax (n + 3) k c = .hit r) :
    kStep e f h o m c d k = .hit r ∨ ∃ c', kStep e f h o m c d k = .cont c' ∧ kStep e f h o m c' d (k + 2) = .hit r := by
  rw [kLoop_double e f h o m d kMax n k c h1 h2] at hk
  cases hs : kStep e f h o m c d k with
  | hit r' => rw [hs] at hk; simp only at hk; left; rw [hk]
  | panic => rw [hs] at hk; simp at hk
  | cont c' =>
    rw [hs] at hk; simp only at hk
    right
    refine ⟨c', rfl, ?_⟩
    cases hs2 : kStep e f h o m c' d (k + 2) with
    | hit r' => rw [hs2] at hk; simp only at hk; rw [hk]
    | panic => rw [hs2] at hk; simp at hk
    | cont c'' => rw [hs2] at hk; simp at hk

/-- round `h = 1` on the arrays left by round 0: the hits with `D ≤ 1` -/
theorem hStep_one {α : Type} [DecidableEq α] (e f : List α) (hN : 0 < e.length) (hM : 0 < f.length)
    (Z0 : List Int) (hZ0 : Z0 = List.replicate (2 * min (e.length : Int) f.length + 2).toNat 0)
    (a0 r0 : Int) (r : Hit) (hh : hStep e f 1 (setI Z0 0 a0) (setI Z0 0 r0) = .hit r) (hD : r.D ≤ 1) :
    (∃ a1 b1, snake e f 1 1 (e.length + 1) a0 (a0 + 1) = some (a1, b1) ∧ (f.length : Int) = e.length + 1 ∧
        a1 + r0 ≥ e.length ∧ r = ⟨1, a0, a0 + 1, a1, b1⟩) ∨
    (∃ a2 b2, snake e f 1 1 (e.length + 1) (a0 + 1) a0 = some (a2, b2) ∧ (e.length : Int) = f.length + 1 ∧
        a2 + r0 ≥ e.length ∧ r = ⟨1, a0 + 1, a0, a2, b2⟩) := by
  have hZ : (2 * min (e.length : Int) f.length + 2) ≥ 4 := by omega
  have hlen : Z0.length = (2 * min (e.length : Int) f.length + 2).toNat := by rw [hZ0]; simp
  have p0 : pyMod 0 (2 * min (e.length : Int) f.length + 2) = 0 := pyMod_of_nonneg _ _ (by omega) (by omega)
  have p1 : pyMod 1 (2 * min (e.length : Int) f.length + 2) = 1 := pyMod_of_nonneg _ _ (by omega) (by omega)
  have pm : pyMod (-1) (2 * min (e.length : Int) f.length + 2) = 2 * min (e.length : Int) f.length + 2 - 1 :=
    pyMod_neg_one _ (by omega)
  have gr0 : getI (setI Z0 0 r0) 0 = r0 := getI_setI_same _ _ _ (by rw [hlen]; simp; omega)
  have ga0 : getI (setI Z0 0 a0) 0 = a0 := getI_setI_same _ _ _ (by rw [hlen]; simp; omega)
  unfold hStep at hh
  have k1 : -((1:Int) - 2 * max 0 (1 - (f.length : Int))) = -1 := by omega
  have k2 : (1:Int) - 2 * max 0 (1 - (e.length : Int)) + 1 = 2 := by omega
  simp only [k1, k2] at hh
  rw [show ((2:Int) - -1).toNat + 1 = 1 + 3 by decide] at hh
  split at hh
  · rename_i r' hk
    injection hh with hh; subst hh
    have sa : startA (setI Z0 0 a0) 1 (-1) (2 * min (e.length : Int) f.length + 2) = a0 := by
      rw [startA_neg (by omega), show (-1:Int) + 1 = 0 by omega, p0]; exact ga0
    rcases kLoop_double_hit e f 1 1 1 (setI Z0 0 r0) 2 1 (-1) (setI Z0 0 a0) r' (by omega) (by omega) hk with
      h1 | ⟨c', hc1, h2⟩
    · left
      obtain ⟨a, a', b', ha, hs, _, q2, q3, q4, hr⟩ := kStep_hit _ _ _ _ _ _ _ _ _ h1
      rw [sa] at ha; subst ha
      rcases hr with ⟨_, rfl⟩ | ⟨ho, _⟩
      · have hw : -((-1:Int) - ((e.length : Int) - f.length)) = 0 := by omega
        rw [hw, p0, gr0, getI_setI_same _ _ _ (by rw [pm]; simp [setI, hlen]; omega)] at q4
        rw [show a - -1 = a + 1 by omega] at hs ⊢
        exact ⟨a', b', hs, by omega, q4, by simp⟩
      · exact absurd rfl ho
    · right
      obtain ⟨a1, b1, _, hc'⟩ := kStep_cont _ _ _ _ _ _ _ _ _ hc1
      rw [pm] at hc'
      have sb : startA c' 1 (-1 + 2) (2 * min (e.length : Int) f.length + 2) = a0 + 1 := by
        unfold startA
        rw [if_neg (by omega), show (-1:Int) + 2 - 1 = 0 by omega, p0, hc',
          getI_setI_ne _ _ _ _ (by omega) (by omega) (by omega), ga0]
      obtain ⟨a, a', b', ha, hs, _, q2, q3, q4, hr⟩ := kStep_hit _ _ _ _ _ _ _ _ _ h2
      rw [sb] at ha; subst ha
      rcases hr with ⟨_, rfl⟩ | ⟨ho, _⟩
      · have hw : -((-1:Int) + 2 - ((e.length : Int) - f.length)) = 0 := by omega
        rw [hw, p0, gr0, getI_setI_same _ _ _ (by
          rw [show (-1:Int) + 2 = 1 by omega, p1, hc']; simp [setI, hlen]; omega)] at q4
        rw [show a0 + 1 - (-1 + 2) = a0 by omega] at hs ⊢
        exact ⟨a', b', hs, by omega, q4, by simp⟩
      · exact absurd rfl ho
  · simp at hh
  · split at hh
    · rename_i r' hk
      injection hh with hh; subst hh
      have := kLoop_rev_D _ _ _ _ _ _ _ _ _ hk
      omega
    · simp at hh
    · simp at hh


end Myers

namespace Myers
open Patch

/-! ## The branches for `D ≤ 1` -/


theorem elemAt_nat {α : Type} (l : List α) (i : Nat) : elemAt l (i : Int) = l[i]? := by
  unfold elemAt
  rw [if_neg (by omega)]; simp

/-- the forward snake from `(0, 0)`: a common prefix of length `a0` -/
theorem fwd0_prefix {α : Type} [DecidableEq α] (e f : List α) (fuel : Nat) (a0 b0 : Int)
    (h : snake e f 1 1 fuel 0 0 = some (a0, b0)) :
    0 ≤ a0 ∧ b0 = a0 ∧ a0 ≤ e.length ∧ a0 ≤ f.length ∧ ∀ i : Nat, (i : Int) < a0 → e[i]? = f[i]? := by
  obtain ⟨h1, h2, h3, _⟩ := snake_spec e f 1 1 fuel 0 0 a0 b0 h
  refine ⟨h1, by omega, ?_, ?_, ?_⟩
  · by_cases hc : a0 ≤ e.length
    · exact hc
    · have := (h3 e.length (by omega) (by omega)).1; omega
  · by_cases hc : a0 ≤ f.length
    · exact hc
    · have := (h3 f.length (by omega) (by omega)).2.1; omega
  · intro i hi
    obtain ⟨_, _, v, hv1, hv2⟩ := h3 i (by omega) hi
    rw [idx_fwd, elemAt_nat] at hv1
    rw [idx_fwd, show (0:Int) + (↑i - 0) = ↑i by omega, elemAt_nat] at hv2
    rw [hv1, hv2]

/-- the reverse snake from `(0, 0)`: a common suffix of length `r0` -/
theorem rev0_suffix {α : Type} [DecidableEq α] (e f : List α) (fuel : Nat) (r0 s0 : Int)
    (h : snake e f 0 (-1) fuel 0 0 = some (r0, s0)) :
    0 ≤ r0 ∧ s0 = r0 ∧ ∀ t : Nat, (t : Int) < r0 → t < e.length ∧ t < f.length ∧
      e[e.length - 1 - t]? = f[f.length - 1 - t]? := by
  obtain ⟨h1, h2, h3, _⟩ := snake_spec e f 0 (-1) fuel 0 0 r0 s0 h
  refine ⟨h1, by omega, ?_⟩
  intro t ht
  obtain ⟨q1, q2, v, hv1, hv2⟩ := h3 t (by omega) ht
  rw [idx_rev] at hv1 hv2
  rw [show (e.length : Int) - ↑t - 1 = ((e.length - 1 - t : Nat) : Int) by omega, elemAt_nat] at hv1
  rw [show (f.length : Int) - ((0:Int) + (↑t - 0)) - 1 = ((f.length - 1 - t : Nat) : Int) by omega, elemAt_nat] at hv2
  exact ⟨by omega, by omega, by rw [hv1, hv2]⟩

theorem ext_of_prefix {α : Type} (e f : List α) (n : Nat) (hn : e.length = n) (hf : n ≤ f.length)
    (h : ∀ i : Nat, i < n → e[i]? = f[i]?) : e = f.take n := by
  apply List.ext_getElem?
  intro i
  by_cases hi : i < n
  · rw [h i hi, List.getElem?_take, if_pos hi]
  · rw [List.getElem?_take, if_neg hi, List.getElem?_eq_none (by omega)]

/-- hit in round 0 (`D = 0`) with an empty snake: the lists are equal -/
theorem small0 {α : Type} [DecidableEq α] (e f : List α) (a0 b0 r0 s0 : Int)
    (hf : snake e f 1 1 (e.length + 1) 0 0 = some (a0, b0))
    (hr : snake e f 0 (-1) (e.length + 1) 0 0 = some (r0, s0))
    (hNM : (e.length : Int) = f.length) (hov : r0 + a0 ≥ e.length)
    (hemp : ¬ ((e.length : Int) - r0 ≠ e.length ∧ (f.length : Int) - s0 ≠ f.length)) : SmallOK e f := by
  obtain ⟨p1, p2, p3, p4, p5⟩ := fwd0_prefix e f _ a0 b0 hf
  obtain ⟨q1, q2, _⟩ := rev0_suffix e f _ r0 s0 hr
  have hr0 : r0 = 0 := by
    by_cases h : r0 = 0
    · exact h
    · exact absurd ⟨by omega, by omega⟩ hemp
  have hl : e.length = f.length := by omega
  refine ⟨by omega, by omega, fun _ => ?_⟩
  have := ext_of_prefix e f e.length rfl (by omega) (fun i hi => p5 i (by omega))
  rw [this, hl, List.take_length]

/-- hit in round 1 on diagonal −1 with an empty snake: `e` is `f` without its last element -/
theorem small1 {α : Type} [DecidableEq α] (e f : List α) (a0 b0 r0 s0 a1 b1 : Int)
    (hf : snake e f 1 1 (e.length + 1) 0 0 = some (a0, b0))
    (hr : snake e f 0 (-1) (e.length + 1) 0 0 = some (r0, s0))
    (hs : snake e f 1 1 (e.length + 1) a0 (a0 + 1) = some (a1, b1))
    (hNM : (f.length : Int) = e.length + 1) (hov : a1 + r0 ≥ e.length)
    (hemp : ¬ (a0 ≠ a1 ∧ a0 + 1 ≠ b1)) : SmallOK e f := by
  obtain ⟨p1, p2, p3, p4, p5⟩ := fwd0_prefix e f _ a0 b0 hf
  obtain ⟨q1, q2, q3⟩ := rev0_suffix e f _ r0 s0 hr
  obtain ⟨s1, s2, _, s4⟩ := snake_spec e f 1 1 _ a0 (a0 + 1) a1 b1 hs
  have ha1 : a1 = a0 := by
    by_cases h : a1 = a0
    · exact h
    · exact absurd ⟨by omega, by omega⟩ hemp
  subst ha1
  have hb1 : b1 = a1 + 1 := by omega
  subst hb1
  refine ⟨fun _ => ?_, by omega, by omega⟩
  by_cases hfull : a1 = e.length
  · exact ext_of_prefix e f e.length rfl (by omega) (fun i hi => p5 i (by omega))
  · exfalso
    obtain ⟨x, y, hx, hy, hxy⟩ := s4 (by omega) (by omega)
    rw [idx_fwd] at hx hy
    obtain ⟨_, _, hq⟩ := q3 (e.length - 1 - a1.toNat) (by omega)
    obtain ⟨_, gx⟩ := elemAt_some e _ x hx
    obtain ⟨_, gy⟩ := elemAt_some f _ y hy
    rw [show e.length - 1 - (e.length - 1 - a1.toNat) = a1.toNat by omega,
      show f.length - 1 - (e.length - 1 - a1.toNat) = (a1 + 1).toNat by omega, gx, gy] at hq
    injection hq with hq
    exact hxy hq

/-- hit in round 1 on diagonal +1 with an empty snake: `f` is `e` without its last element -/
theorem small2 {α : Type} [DecidableEq α] (e f : List α) (a0 b0 r0 s0 a2 b2 : Int)
    (hf : snake e f 1 1 (e.length + 1) 0 0 = some (a0, b0))
    (hr : snake e f 0 (-1) (e.length + 1) 0 0 = some (r0, s0))
    (hs : snake e f 1 1 (e.length + 1) (a0 + 1) a0 = some (a2, b2))
    (hNM : (e.length : Int) = f.length + 1) (hov : a2 + r0 ≥ e.length)
    (hemp : ¬ (a0 + 1 ≠ a2 ∧ a0 ≠ b2)) : SmallOK e f := by
  obtain ⟨p1, p2, p3, p4, p5⟩ := fwd0_prefix e f _ a0 b0 hf
  obtain ⟨q1, q2, q3⟩ := rev0_suffix e f _ r0 s0 hr
  obtain ⟨s1, s2, _, s4⟩ := snake_spec e f 1 1 _ (a0 + 1) a0 a2 b2 hs
  have ha2 : a2 = a0 + 1 := by
    by_cases h : a2 = a0 + 1
    · exact h
    · exact absurd ⟨by omega, by omega⟩ hemp
  subst ha2
  have hb2 : b2 = a0 := by omega
  subst hb2
  refine ⟨by omega, fun _ => ?_, by omega⟩
  by_cases hfull : b2 = f.length
  · exact ext_of_prefix f e f.length rfl (by omega) (fun i hi => (p5 i (by omega)).symm)
  · exfalso
    obtain ⟨x, y, hx, hy, hxy⟩ := s4 (by omega) (by omega)
    rw [idx_fwd] at hx hy
    obtain ⟨_, _, hq⟩ := q3 (e.length - 2 - b2.toNat) (by omega)
    obtain ⟨_, gx⟩ := elemAt_some e _ x hx
    obtain ⟨_, gy⟩ := elemAt_some f _ y hy
    rw [show e.length - 1 - (e.length - 2 - b2.toNat) = (b2 + 1).toNat by omega,
      show f.length - 1 - (e.length - 2 - b2.toNat) = b2.toNat by omega, gx, gy] at hq
    injection hq with hq
    exact hxy hq

theorem hLoop_succ {α : Type} [DecidableEq α] (e f : List α) (hMax : Int) (fuel : Nat) (h : Int) (g p : List Int) :
    hLoop e f hMax (fuel + 1) h g p =
      if h < hMax then
        match hStep e f h g p with
        | .hit r => some r
        | .panic => none
        | .cont g' p' => hLoop e f hMax fuel (h+1) g' p'
      else none := rfl

/-- **The `D ≤ 1` branches are justified**: a hit with `D ≤ 1` and an empty snake occurs only when the two lists are
equal, or one is the other without its last element. -/
theorem search_small {α : Type} [DecidableEq α] (e f : List α) (r : Hit) (h : search e f = some r)
    (hN : 0 < e.length) (hM : 0 < f.length) (hD : ¬ (r.D > 1 ∨ (r.x ≠ r.u ∧ r.y ≠ r.v))) : SmallOK e f := by
  have hD1 : r.D ≤ 1 := by
    by_cases hc : r.D > 1
    · exact absurd (Or.inl hc) hD
    · omega
  have hE : ¬ (r.x ≠ r.u ∧ r.y ≠ r.v) := fun hc => hD (Or.inr hc)
  unfold search at h
  simp only at h
  have hmax : ((e.length : Int) + f.length) / 2 + ((e.length : Int) + f.length) % 2 + 1 ≥ 2 := by omega
  generalize hZ0 : List.replicate (2 * min (e.length : Int) f.length + 2).toNat (0:Int) = Z0 at h
  generalize hMx : ((e.length : Int) + f.length) / 2 + ((e.length : Int) + f.length) % 2 + 1 = hMax at h hmax
  obtain ⟨n, hn⟩ : ∃ n, hMax.toNat + 1 = n + 3 := ⟨hMax.toNat - 2, by omega⟩
  rw [hn, hLoop_succ, if_pos (by omega), hStep_zero e f hN hM Z0 hZ0.symm] at h
  cases hf : snake e f 1 1 (e.length + 1) 0 0 with
  | none => rw [hf] at h; simp at h
  | some ab =>
    obtain ⟨a0, b0⟩ := ab
    rw [hf] at h
    simp only at h
    cases hr : snake e f 0 (-1) (e.length + 1) 0 0 with
    | none => rw [hr] at h; simp at h
    | some rs =>
      obtain ⟨r0, s0⟩ := rs
      rw [hr] at h
      simp only at h
      by_cases hc : pyMod ((e.length : Int) + f.length) 2 = 0 ∧ (e.length : Int) = f.length ∧ r0 + a0 ≥ e.length
      · rw [if_pos hc] at h
        simp only [Option.some.injEq] at h
        subst h
        exact small0 e f a0 b0 r0 s0 hf hr hc.2.1 hc.2.2 hE
      · rw [if_neg hc] at h
        simp only at h
        rw [hLoop_succ, if_pos (by omega)] at h
        cases hs1 : hStep e f (0 + 1) (setI Z0 0 a0) (setI Z0 0 r0) with
        | hit r' =>
          rw [hs1] at h
          simp only [Option.some.injEq] at h
          subst h
          rcases hStep_one e f hN hM Z0 hZ0.symm a0 r0 r' hs1 hD1 with
            ⟨a1, b1, k1, k2, k3, rfl⟩ | ⟨a2, b2, k1, k2, k3, rfl⟩
          · exact small1 e f a0 b0 r0 s0 a1 b1 hf hr k1 k2 k3 hE
          · exact small2 e f a0 b0 r0 s0 a2 b2 hf hr k1 k2 k3 hE
        | panic => rw [hs1] at h; simp at h
        | cont g2 p2 =>
          rw [hs1] at h
          simp only at h
          obtain ⟨h', g', p', hh1, hh2⟩ := hLoop_hit _ _ _ _ _ _ _ _ h
          rcases hStep_D _ _ _ _ _ _ hh2 with hd | hd <;> omega


/-- **Soundness of `MyersDiff`**: whatever the model of `MyersDiff` returns (no panic, fuel not exhausted) is a valid
edit script from `xs` to `ys`. -/
theorem myers_valid {α : Type} [DecidableEq α] (xs ys : List α) (es : List Edit)
    (h : myers xs ys = some es) : Valid xs ys es 0 0 := by
  unfold myers at h
  have := diff_seg (fun e f r hs hN hM hD => search_small e f r hs hN hM hD) xs ys _ xs ys 0 0 es
    (by simp) (by simp) (by simp) (by simp) h
  simp only [Nat.zero_add] at this
  exact seg_valid xs ys es 0 0 this

/-- the `V` arrays are only indexed through `pyMod _ Z`: for a positive modulus that index is in `[0, Z)`, whatever the
diagonal (also for diagonals below `-Z`, where `(x + y) % y` alone would be negative) -/
theorem pyMod_range (x y : Int) (hy : 0 < y) : 0 ≤ pyMod x y ∧ pyMod x y < y := by
  unfold pyMod
  have h1 : -y < Int.tmod x y := by
    have := Int.tmod_lt_of_pos (-x) hy
    rw [Int.neg_tmod] at this
    omega
  have h2 : Int.tmod x y < y := Int.tmod_lt_of_pos x hy
  have h3 : 0 ≤ Int.tmod x y + y := by omega
  rw [Int.tmod_eq_emod_of_nonneg h3]
  exact ⟨Int.emod_nonneg _ (by omega), Int.emod_lt_of_pos _ hy⟩

/-- so `getI` / `setI` on an array of length `Z` never fall back to their default -/
theorem pyMod_index (x : Int) (Z : Nat) (hZ : 0 < Z) : (pyMod x Z).toNat < Z := by
  have := pyMod_range x Z (by omega)
  omega


theorem elemAt_lt {α : Type} (l : List α) (i : Int) (h0 : 0 ≤ i) (h1 : i < l.length) : ∃ v, elemAt l i = some v := by
  unfold elemAt
  rw [if_neg (by omega)]
  have : i.toNat < l.length := by omega
  exact ⟨l[i.toNat], List.getElem?_eq_getElem this⟩

/-- **The snake loop cannot panic or run out of fuel from a non-negative start**, in either direction: every element
it compares exists, and it stops after at most `N − a` steps. -/
theorem snake_total {α : Type} [DecidableEq α] (e f : List α) (o m : Int)
    (hom : (o = 1 ∧ m = 1) ∨ (o = 0 ∧ m = -1)) (fuel : Nat) (a b : Int) (ha : 0 ≤ a) (hb : 0 ≤ b)
    (hfuel : (e.length : Int) - a < fuel) (hpos : 0 < fuel) : ∃ r, snake e f o m fuel a b = some r := by
  induction fuel generalizing a b with
  | zero => omega
  | succ fuel ih =>
    rw [snake_succ]
    by_cases hc : a < (e.length : Int) ∧ b < (f.length : Int)
    · rw [if_pos hc]
      have hi : ∃ x, elemAt e (idx o m e.length a) = some x := by
        rcases hom with ⟨rfl, rfl⟩ | ⟨rfl, rfl⟩
        · rw [idx_fwd]; exact elemAt_lt e a ha hc.1
        · rw [idx_rev]; exact elemAt_lt e _ (by omega) (by omega)
      have hj : ∃ y, elemAt f (idx o m f.length b) = some y := by
        rcases hom with ⟨rfl, rfl⟩ | ⟨rfl, rfl⟩
        · rw [idx_fwd]; exact elemAt_lt f b hb hc.2
        · rw [idx_rev]; exact elemAt_lt f _ (by omega) (by omega)
      obtain ⟨x, hx⟩ := hi
      obtain ⟨y, hy⟩ := hj
      rw [hx, hy]
      simp only
      by_cases hxy : x = y
      · rw [if_pos hxy]; exact ih (a + 1) (b + 1) (by omega) (by omega) (by omega) (by omega)
      · rw [if_neg hxy]; exact ⟨_, rfl⟩
    · rw [if_neg hc]; exact ⟨_, rfl⟩


end Myers
