import LivesimVerif.Model.ChunkParser
/-! Helper lemmas for the chunk-parser model (C18). Core Lean only. -/
namespace CP

def data (cbs : List Cb) : List Byte := (cbs.map (·.data)).flatten

theorem data_append (a b : List Cb) : data (a ++ b) = data a ++ data b := by
  simp [data]

theorem data_single (c : Cb) : data [c] = c.data := by simp [data]

/-! ## the reader -/

theorem read_bytes (r : Rd) (cap : Nat) : (r.read cap).got ++ (r.read cap).rd.rest = r.rest := by
  unfold Rd.read
  by_cases hf : r.failRead = some 0
  · simp [hf]
  · simp only [hf, ↓reduceIte]
    cases hr : r.rest with
    | nil => simp
    | cons a as => simp

theorem read_eof_rest (r : Rd) (cap : Nat) (h : (r.read cap).err = .eof) : (r.read cap).rd.rest = [] := by
  unfold Rd.read at *
  by_cases hf : r.failRead = some 0
  · simp [hf] at h
  · simp only [hf, ↓reduceIte] at h ⊢
    cases hr : r.rest with
    | nil => simp
    | cons a as =>
      simp only [hr] at h ⊢
      split at h
      · rename_i hc; simp at hc; simpa using hc.1
      · simp at h

theorem read_progress (r : Rd) (cap : Nat) (hc : 0 < cap) (he : (r.read cap).err = .none) :
    (r.read cap).rd.rest.length < r.rest.length := by
  unfold Rd.read at *
  by_cases hf : r.failRead = some 0
  · simp [hf] at he
  · simp only [hf, ↓reduceIte] at he ⊢
    cases hr : r.rest with
    | nil => simp [hr] at he
    | cons a as =>
      have : 0 < r.n cap := by
        unfold Rd.n; simp [hr]; omega
      simp only [List.length_drop, List.length_cons]
      omega

/-- what `readUntil` leaves alone -/
structure Same (a b : St) : Prop where
  bytes : a.content ++ a.rd.rest = b.content ++ b.rd.rest
  out : a.out = b.out
  next : a.next = b.next
  mdatEnd : a.mdatEnd = b.mdatEnd
  start : a.start = b.start
  isInit : a.isInit = b.isInit
  failCb : a.failCb = b.failCb

theorem Same.rfl' (a : St) : Same a a := ⟨rfl, rfl, rfl, rfl, rfl, rfl, rfl⟩

theorem readUntil_succ (fuel : Nat) (st : St) (target : Nat) : readUntil (fuel+1) st target =
    (if st.content.length ≥ target then { st := st, err := .none } else
     let rr := st.rd.read (target - st.content.length)
     let st' := { st with content := st.content ++ rr.got, rd := rr.rd }
     if st'.content.length ≥ target then { st := st', err := .none }
     else if rr.err ≠ .none then { st := st', err := rr.err }
     else readUntil fuel st' target) := rfl

/-- frame + EOF facts of `readUntil`, for every fuel -/
theorem readUntil_spec (fuel : Nat) (st : St) (target : Nat) :
    Same (readUntil fuel st target).st st ∧
    ((readUntil fuel st target).err = .eof → (readUntil fuel st target).st.rd.rest = []) := by
  induction fuel generalizing st with
  | zero => exact ⟨Same.rfl' _, by simp [readUntil]⟩
  | succ n ih =>
    rw [readUntil_succ]
    by_cases h : st.content.length ≥ target
    · simp only [h, ↓reduceIte]; exact ⟨Same.rfl' _, by simp⟩
    · simp only [h, ↓reduceIte]
      have hb := read_bytes st.rd (target - st.content.length)
      have he := read_eof_rest st.rd (target - st.content.length)
      generalize st.rd.read (target - st.content.length) = rr at hb he
      by_cases h2 : (st.content ++ rr.got).length ≥ target
      · simp only [h2, ↓reduceIte]
        exact ⟨⟨by simp [List.append_assoc, hb], rfl, rfl, rfl, rfl, rfl, rfl⟩, by simp⟩
      · simp only [h2, ↓reduceIte]
        by_cases hn : rr.err = .none
        · simp only [hn, ne_eq, not_true_eq_false, ↓reduceIte]
          have := ih { st with content := st.content ++ rr.got, rd := rr.rd }
          refine ⟨⟨?_, this.1.out, this.1.next, this.1.mdatEnd, this.1.start, this.1.isInit,
            this.1.failCb⟩, this.2⟩
          rw [this.1.bytes]; simp [List.append_assoc, hb]
        · simp only [ne_eq, hn, not_false_eq_true, ↓reduceIte]
          exact ⟨⟨by simp [List.append_assoc, hb], rfl, rfl, rfl, rfl, rfl, rfl⟩, fun h => he h⟩

/-- with enough fuel, a `readUntil` that reports no error has reached its target -/
theorem readUntil_reaches (fuel : Nat) (st : St) (target : Nat) (hf : st.rd.rest.length < fuel)
    (he : (readUntil fuel st target).err = .none) :
    target ≤ (readUntil fuel st target).st.content.length := by
  induction fuel generalizing st with
  | zero => omega
  | succ n ih =>
    rw [readUntil_succ] at he ⊢
    by_cases h : st.content.length ≥ target
    · simp only [h, ↓reduceIte]
    · simp only [h, ↓reduceIte] at he ⊢
      have hp := read_progress st.rd (target - st.content.length) (by omega)
      generalize st.rd.read (target - st.content.length) = rr at hp he ⊢
      by_cases h2 : (st.content ++ rr.got).length ≥ target
      · simp only [h2, ↓reduceIte]
      · simp only [h2, ↓reduceIte] at he ⊢
        by_cases hn : rr.err = .none
        · simp only [hn, ne_eq, not_true_eq_false, ↓reduceIte] at he ⊢
          have hp := hp hn
          exact ih { st with content := st.content ++ rr.got, rd := rr.rd } (by simp; omega) he
        · simp only [ne_eq, hn, not_false_eq_true, ↓reduceIte] at he

/-! ## the byte-conservation invariant -/

def Inv (input : List Byte) (st : St) : Prop := data st.out ++ st.content ++ st.rd.rest = input

theorem inv_readUntil {input st} (fuel target) (h : Inv input st) :
    Inv input (readUntil fuel st target).st := by
  have := (readUntil_spec fuel st target).1
  unfold Inv at *
  rw [this.out, List.append_assoc, this.bytes, ← List.append_assoc]; exact h

theorem inv_hdrStep {input st} (h : Inv input st) : Inv input (hdrStep st) := by
  unfold Inv hdrStep at *; simpa using h

theorem hdrStep_rd (st : St) : (hdrStep st).rd = st.rd := rfl
theorem hdrStep_content (st : St) : (hdrStep st).content = st.content := rfl
theorem hdrStep_out (st : St) : (hdrStep st).out = st.out := rfl

theorem callBack_out (st : St) (d : List Byte) :
    (callBack st d).st.out = st.out ++ [{ start := st.start, isInit := st.isInit, data := d }] := rfl

theorem inv_flush {input st} (h : Inv input st) : Inv input (flush st).st := by
  unfold Inv flush at *
  split
  · simp only [callBack, data_append, data_single]
    rw [List.append_assoc, List.append_assoc, ← List.append_assoc (List.take _ _), List.take_append_drop,
      ← List.append_assoc]
    exact h
  · exact h

theorem flush_rd (st : St) : (flush st).st.rd = st.rd := by
  unfold flush; split <;> rfl

/-- every result's callbacks carry a prefix of the input; a `done` carries all of it -/
theorem deliverAll_data {input st} (h : Inv input st) :
    (∃ t, data (deliverAll st).cbs ++ t = input) ∧
    (st.rd.rest = [] → ∀ cbs, deliverAll st = .done cbs → data cbs = input) := by
  unfold Inv at h; unfold deliverAll
  by_cases hl : st.content.length > 0
  · simp only [hl, ↓reduceIte, callBack]
    by_cases hfc : st.failCb = some 0
    · simp only [hfc, decide_true, ↓reduceIte]
      refine ⟨⟨st.rd.rest, ?_⟩, ?_⟩
      · simp only [Res.cbs, data_append, data_single]; simpa [List.append_assoc] using h
      · intro _ cbs hc; simp at hc
    · simp only [hfc, decide_false, Bool.false_eq_true, ↓reduceIte]
      refine ⟨⟨st.rd.rest, ?_⟩, ?_⟩
      · simp only [Res.cbs, data_append, data_single]; simpa [List.append_assoc] using h
      · intro hr cbs hc
        injection hc with hc; subst hc
        rw [hr, List.append_nil] at h
        simpa [data_append, data_single] using h
  · simp only [hl, ↓reduceIte]
    have hc : st.content = [] := by
      cases hc : st.content with
      | nil => rfl
      | cons a as => simp [hc] at hl
    refine ⟨⟨st.rd.rest, ?_⟩, ?_⟩
    · simpa [Res.cbs, hc] using h
    · intro hr cbs hd
      injection hd with hd; subst hd
      simpa [hc, hr] using h

theorem parse_succ (fuel : Nat) (st : St) : parse (fuel+1) st =
    (let r1 := readUntil (st.rd.rest.length + 1) st (st.next + 8)
     match r1.err with
     | .fail => .readErr r1.st.out
     | .eof => deliverAll r1.st
     | .none =>
       if !sizeOk r1.st then .badSize r1.st.out else
       let st2 := hdrStep r1.st
       let r3 := readUntil (st2.rd.rest.length + 1) st2 st2.next
       if r3.err = .fail then .readErr r3.st.out else
       let f := flush r3.st
       if f.failed then .cbErr f.st.out else
       if r3.err = .eof then deliverAll f.st else parse fuel f.st) := rfl

theorem inv_prefix {input st} (h : Inv input st) : ∃ t, data st.out ++ t = input :=
  ⟨st.content ++ st.rd.rest, by unfold Inv at h; simpa [List.append_assoc] using h⟩

/-- C18 core: whatever the schedule, error injection and fuel: the callbacks carry a prefix of the
input in order, and when `Parse` returns nil they carry exactly the input. -/
theorem parse_bytes (fuel : Nat) (input : List Byte) (st : St) (h : Inv input st) :
    (∃ t, data (parse fuel st).cbs ++ t = input) ∧
    (∀ cbs, parse fuel st = .done cbs → data cbs = input) := by
  induction fuel generalizing st with
  | zero => exact ⟨by simpa [parse, Res.cbs] using inv_prefix h, by simp [parse]⟩
  | succ n ih =>
    rw [parse_succ]
    have s1 := (readUntil_spec (st.rd.rest.length + 1) st (st.next + 8)).2
    have i1 := inv_readUntil (st.rd.rest.length + 1) (st.next + 8) h
    generalize readUntil (st.rd.rest.length + 1) st (st.next + 8) = r1 at s1 i1
    simp only
    cases he : r1.err with
    | fail => simp only; exact ⟨by simpa [Res.cbs] using inv_prefix i1, by simp⟩
    | eof =>
      simp only
      have := deliverAll_data i1
      exact ⟨this.1, this.2 (s1 he)⟩
    | none =>
      simp only
      by_cases hs : sizeOk r1.st
      · simp only [hs, Bool.not_true, Bool.false_eq_true, ↓reduceIte]
        have i2 := inv_hdrStep i1
        generalize hdrStep r1.st = st2 at i2
        have s3 := (readUntil_spec (st2.rd.rest.length + 1) st2 st2.next).2
        have i3 := inv_readUntil (st2.rd.rest.length + 1) st2.next i2
        generalize readUntil (st2.rd.rest.length + 1) st2 st2.next = r3 at s3 i3
        have i4 := inv_flush i3
        have r4 := flush_rd r3.st
        generalize flush r3.st = f at i4 r4
        by_cases hf : r3.err = .fail
        · simp only [hf, ↓reduceIte]; exact ⟨by simpa [Res.cbs] using inv_prefix i3, by simp⟩
        · simp only [hf, ↓reduceIte]
          by_cases hcb : f.failed
          · simp only [hcb, ↓reduceIte]; exact ⟨by simpa [Res.cbs] using inv_prefix i4, by simp⟩
          · simp only [hcb, Bool.false_eq_true, ↓reduceIte]
            by_cases he3 : r3.err = .eof
            · simp only [he3, ↓reduceIte]
              have := deliverAll_data i4
              exact ⟨this.1, this.2 (by rw [r4]; exact s3 he3)⟩
            · simp only [he3, ↓reduceIte]
              exact ih _ i4
      · simp only [hs, Bool.not_false, ↓reduceIte]
        exact ⟨by simpa [Res.cbs] using inv_prefix i1, by simp⟩

theorem inv_init (input sched e fr fc) : Inv input (init input sched e fr fc) := by
  simp [Inv, init, data]

end CP

namespace CP
/-! ## termination (with the size guard of the fix) -/

/-- bytes not yet walked over: buffered + unread − nextBoxStart -/
def M (st : St) : Nat := st.content.length + st.rd.rest.length - st.next

theorem same_total {a b : St} (h : Same a b) :
    a.content.length + a.rd.rest.length = b.content.length + b.rd.rest.length := by
  have := congrArg List.length h.bytes
  simpa using this

theorem flush_measure (st : St) (hw : st.mdatEnd ≤ st.next) :
    M (flush st).st = M st ∧ (flush st).st.mdatEnd ≤ (flush st).st.next := by
  unfold flush
  by_cases h : st.mdatEnd = st.content.length
  · simp only [h, ↓reduceIte, callBack, M, List.length_drop]
    constructor
    · rw [h] at hw; omega
    · omega
  · simp only [h, ↓reduceIte]; exact ⟨trivial, hw⟩

theorem isOutOfFuel_deliverAll (st : St) : ∀ s, deliverAll st ≠ .outOfFuel s := by
  intro s; unfold deliverAll
  by_cases h : st.content.length > 0
  · simp only [h, ↓reduceIte]
    by_cases h2 : (callBack st st.content).failed = true <;> simp [h2]
  · simp [h]

/-- no input makes the (fixed) parser spin: the measure drops by ≥ 8 per round -/
theorem parse_terminates (fuel : Nat) (st : St) (hw : st.mdatEnd ≤ st.next) (hm : M st < 8 * fuel) :
    ∀ s, parse fuel st ≠ .outOfFuel s := by
  induction fuel generalizing st with
  | zero => omega
  | succ n ih =>
    intro s
    rw [parse_succ]
    have q1 := (readUntil_spec (st.rd.rest.length + 1) st (st.next + 8)).1
    have t1 := readUntil_reaches (st.rd.rest.length + 1) st (st.next + 8) (by omega)
    generalize readUntil (st.rd.rest.length + 1) st (st.next + 8) = r1 at q1 t1
    simp only
    cases he : r1.err with
    | fail => simp
    | eof => simp only; exact isOutOfFuel_deliverAll _ s
    | none =>
      simp only
      by_cases hs : sizeOk r1.st
      · simp only [hs, Bool.not_true, Bool.false_eq_true, ↓reduceIte]
        have t1 := t1 he
        have hsz : 8 ≤ hdrSize r1.st := by
          unfold sizeOk at hs; simp at hs; exact hs.1
        have n2 : (hdrStep r1.st).next = r1.st.next + hdrSize r1.st := rfl
        have m2 : (hdrStep r1.st).mdatEnd ≤ (hdrStep r1.st).next := by
          unfold hdrStep; simp only
          split
          · omega
          · rw [q1.mdatEnd, q1.next]; omega
        have c2 : (hdrStep r1.st).content = r1.st.content := rfl
        have d2 : (hdrStep r1.st).rd = r1.st.rd := rfl
        generalize hdrStep r1.st = st2 at n2 m2 c2 d2
        have q3 := (readUntil_spec (st2.rd.rest.length + 1) st2 st2.next).1
        generalize readUntil (st2.rd.rest.length + 1) st2 st2.next = r3 at q3
        have f4 := flush_measure r3.st (by rw [q3.mdatEnd, q3.next]; exact m2)
        generalize flush r3.st = f at f4
        by_cases hf : r3.err = .fail
        · simp [hf]
        · simp only [hf, ↓reduceIte]
          by_cases hcb : f.failed
          · simp [hcb]
          · simp only [hcb, Bool.false_eq_true, ↓reduceIte]
            by_cases he3 : r3.err = .eof
            · simp only [he3, ↓reduceIte]; exact isOutOfFuel_deliverAll _ s
            · simp only [he3, ↓reduceIte]
              refine ih f.st f4.2 ?_ s
              rw [f4.1]
              have e1 := same_total q1
              have e3 := same_total q3
              unfold M at *
              rw [q3.next, n2, q1.next, e3, c2, d2, e1]
              omega
      · simp [hs]

theorem init_M (input sched e fr fc) : M (init input sched e fr fc) = input.length := by
  simp [M, init]

theorem run_terminates (input sched e fr fc) : ∀ s, run input sched e fr fc ≠ .outOfFuel s := by
  unfold run
  apply parse_terminates
  · simp [init]
  · rw [init_M]; unfold fuelFor; omega

end CP
