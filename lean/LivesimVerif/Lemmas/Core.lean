import LivesimVerif.Model.Core
/-! Helper lemmas for the core model: wrap arithmetic and table lookups. Core Lean only. -/
namespace Core

/-! ## index normal form `N·w + i` (DESIGN.md §3.6) -/

theorem S_decomp (a : Asset) (r : Rep) (w i : Nat) (hi : i < r.N) :
    S a r (r.N * w + i) = w * wrapDur a r + (r.seg i).start := by
  unfold S
  have hN : 0 < r.N := by omega
  rw [Nat.mul_add_div hN, Nat.mul_add_mod, Nat.div_eq_of_lt hi, Nat.mod_eq_of_lt hi]
  simp

theorem E_decomp (a : Asset) (r : Rep) (w i : Nat) (hi : i < r.N) :
    E a r (r.N * w + i) = w * wrapDur a r + (r.seg i).stop := by
  unfold E
  have hN : 0 < r.N := by omega
  rw [Nat.mul_add_div hN, Nat.mul_add_mod, Nat.div_eq_of_lt hi, Nat.mod_eq_of_lt hi]
  simp

theorem decomp (N k : Nat) (hN : 0 < N) : ∃ w i, i < N ∧ k = N * w + i :=
  ⟨k / N, k % N, Nat.mod_lt _ hN, (Nat.div_add_mod k N).symm⟩

/-! ## contiguous tables -/

theorem contig_start_le (r : Rep) (h : Contig r) (i j : Nat) (hij : i ≤ j) (hj : j < r.N) :
    (r.seg i).start ≤ (r.seg j).start := by
  induction j with
  | zero => have : i = 0 := by omega
            subst this; exact Nat.le_refl _
  | succ j ih =>
    by_cases he : i = j + 1
    · subst he; exact Nat.le_refl _
    · have h1 := ih (by omega) (by omega)
      have h2 := h.2.1 j (by omega)
      have h3 := h.2.2 j hj
      omega

theorem contig_start_lt (r : Rep) (h : Contig r) (i j : Nat) (hij : i < j) (hj : j < r.N) :
    (r.seg i).start < (r.seg j).start := by
  have h1 := contig_start_le r h (i+1) j (by omega) hj
  have h2 := h.2.1 i (by omega)
  have h3 := h.2.2 i (by omega)
  omega

theorem contig_stop_le_dur (a : Asset) (r : Rep) (h : Contig r) (hc : Closes a r) (i : Nat) (hi : i < r.N) :
    (r.seg i).stop ≤ wrapDur a r ∧ (r.seg i).start < wrapDur a r := by
  have hN := h.1
  have hd : r.dur = (r.seg (r.N - 1)).stop - (r.seg 0).start := by
    unfold Rep.dur
    have : r.segs.isEmpty = false := by
      cases hs : r.segs with
      | nil => simp [Rep.N, hs] at hN
      | cons _ _ => rfl
    simp [this]
  have hl := contig_start_le r h i (r.N - 1) (by omega) (by omega)
  have hlast := h.2.1 (r.N - 1) (by omega)
  have hi2 := h.2.1 i hi
  rw [hc.1, hd, hc.2]
  by_cases he : i = r.N - 1
  · subst he; omega
  · have h3 := h.2.2 i (by omega)
    have h4 := contig_start_le r h (i+1) (r.N - 1) (by omega) (by omega)
    omega

/-- `idxFromTime` finds the segment whose start is exactly `t` in a table with increasing starts -/
theorem idxFromTime_start (l : List Seg)
    (hinc : ∀ i j, i < j → j < l.length → (l.getD i default).start < (l.getD j default).start)
    (i : Nat) (hi : i < l.length) : idxFromTime l (l.getD i default).start = i := by
  induction l generalizing i with
  | nil => simp at hi
  | cons s rest ih =>
    unfold idxFromTime
    cases i with
    | zero => simp
    | succ j =>
      have hlt := hinc 0 (j+1) (by omega) hi
      simp only [List.getD_cons_zero, List.getD_cons_succ] at hlt ⊢
      have : ¬ s.start ≥ (rest.getD j default).start := by omega
      simp only [this, ↓reduceIte]
      rw [ih (fun a b hab hb => by
        have := hinc (a+1) (b+1) (by omega) (by simp; omega)
        simpa using this) j (by simpa using hi)]

end Core
