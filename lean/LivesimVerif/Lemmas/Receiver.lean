import LivesimVerif.Model.Receiver
/-! Helper lemmas for the receiver model (C17). Core Lean only. -/
namespace Recv

/-! ## S-list construction vs. expansion -/

/-- implicit time after an S list -/
def endT : List SElem → Nat → Nat
  | [], t => t
  | s :: rest, t => endT rest (s.t.getD t + (s.r + 1) * s.d)

theorem expandS_append (a b : List SElem) (t : Nat) :
    expandS (a ++ b) t = expandS a t ++ expandS b (endT a t) := by
  induction a generalizing t with
  | nil => simp [expandS, endT]
  | cons s rest ih => simp [expandS, endT, ih, List.append_assoc]

theorem endT_append (a b : List SElem) (t : Nat) : endT (a ++ b) t = endT b (endT a t) := by
  induction a generalizing t with
  | nil => simp [endT]
  | cons s rest ih => simp [endT, ih]

theorem expandOne_snoc (t d k : Nat) : expandOne t d (k+1) = expandOne t d k ++ [(t + (k+1) * d, d)] := by
  induction k generalizing t with
  | zero => simp [expandOne]
  | succ k ih =>
    rw [expandOne, ih (t + d)]
    simp only [expandOne, List.cons_append, List.cons.injEq, true_and]
    have : t + d + (k + 1) * d = t + (k + 1 + 1) * d := by
      rw [Nat.add_mul (k+1) 1 d]; omega
    rw [this]

def pairs (l : List Item) : List (Nat × Nat) := l.map (fun it => (it.dts, it.dur))

theorem buildSAux_spec (rest : List Item) (acc : List SElem) (cur : SElem) (nextT t0 : Nat)
    (hinv : endT (acc ++ [cur]) t0 = nextT) :
    expandS (buildSAux rest acc cur nextT) t0 = expandS (acc ++ [cur]) t0 ++ pairs rest := by
  induction rest generalizing acc cur nextT with
  | nil => simp [buildSAux, pairs]
  | cons it rest ih =>
    unfold buildSAux
    by_cases h1 : it.dts ≠ nextT
    · rw [if_pos h1]
      rw [ih (acc ++ [cur]) ⟨some it.dts, it.dur, 0⟩ (it.dts + it.dur)]
      · rw [expandS_append (acc ++ [cur])]
        simp [expandS, expandOne, pairs, List.append_assoc]
      · rw [endT_append]; simp [endT]
    · have h1' : it.dts = nextT := by simpa using h1
      rw [if_neg h1]
      by_cases h2 : it.dur = cur.d
      · rw [if_pos h2, h2]
        rw [ih acc { cur with r := cur.r + 1 } (nextT + cur.d)]
        · rw [expandS_append acc, expandS_append acc]
          simp only [expandS, List.append_nil, List.append_assoc]
          rw [expandOne_snoc]
          rw [endT_append] at hinv
          simp only [endT] at hinv
          simp only [pairs, List.map_cons, List.append_assoc, List.cons_append, List.nil_append, h1', h2]
          rw [hinv]
        · rw [endT_append] at hinv ⊢
          simp only [endT] at hinv ⊢
          rw [← hinv, Nat.add_mul (cur.r + 1) 1]; omega
      · rw [if_neg h2]
        rw [ih (acc ++ [cur]) ⟨none, it.dur, 0⟩ (nextT + it.dur)]
        · rw [expandS_append (acc ++ [cur])]
          simp [expandS, expandOne, pairs, List.append_assoc, hinv, h1']
        · rw [endT_append]; simp [endT, hinv]

theorem buildS_spec (l : List Item) (t0 : Nat) : expandS (buildS l) t0 = pairs l := by
  cases l with
  | nil => simp [buildS, expandS, pairs]
  | cons it rest =>
    unfold buildS
    rw [buildSAux_spec rest [] ⟨some it.dts, it.dur, 0⟩ (it.dts + it.dur) t0 (by simp [endT])]
    simp [expandS, expandOne, pairs]

end Recv
