import LivesimVerif.Gen.Trans
import LivesimVerif.Model.Myers
import LivesimVerif.Model.Receiver
import LivesimVerif.Model.Mpd
/-!
# The regenerated definitions equal the hand-written model

`Gen/Trans.lean` is produced on every run from the Go source by `extract/translate.go`.  Each theorem here states that a
translated function is the model function the property theorems are about, on the domain the code calls it with.  When the
Go function changes, the regenerated definition changes and the equality has to be proved again: the check reports the
broken obligation.
-/
namespace TransTie

theorem pyMod_eq (x y : Int) : Gen.Trans.pyMod x y = Myers.pyMod x y := rfl

theorem minFromMax_eq (c : Recv.Ctrs) (mx : Nat) :
    Gen.Trans.minFromMax (c.w : Int) (mx : Int) = ((c.minFromMax mx : Nat) : Int) := by
  unfold Gen.Trans.minFromMax Recv.Ctrs.minFromMax
  split <;> split <;> omega

theorem tdiv_nat (a b : Nat) : Int.tdiv (a : Int) (b : Int) = ((a / b : Nat) : Int) := by
  rw [Int.tdiv_eq_ediv_of_nonneg (by omega)]; exact (Int.natCast_ediv a b).symm

theorem floorDiv_eq (n d : Int) (hd : 0 < d) : Gen.Trans.floorDiv n d = n / d := by
  unfold Gen.Trans.floorDiv
  simp only
  rw [Int.tdiv_eq_ediv, Int.tmod_eq_emod]
  have h1 : 0 ≤ n % d := Int.emod_nonneg _ (by omega)
  have h2 : n % d < d := Int.emod_lt_of_pos _ hd
  have hs : d.sign = 1 := Int.sign_eq_one_of_pos hd
  have hn : (d.natAbs : Int) = d := Int.natAbs_of_nonneg (by omega)
  by_cases hc : 0 ≤ n ∨ d ∣ n
  · simp only [hc, ↓reduceIte]; split <;> omega
  · simp only [hc, ↓reduceIte, hs, hn]; split <;> omega


theorem tmod_nat (a b : Nat) : Int.tmod (a : Int) (b : Int) = ((a % b : Nat) : Int) := (Int.ofNat_tmod a b).symm

/-- `splitLoops` on the domain `generateTimelineEntries` uses it in (a time that is not negative): whole loops and rest
are `/` and `%` of natural numbers, and a loop of duration 0 leaves everything in the rest -/
theorem splitLoops_eq (rel L : Nat) :
    Gen.Trans.splitLoops (rel : Int) (L : Int) = if L = 0 then ((0 : Int), (rel : Int)) else (((rel / L : Nat) : Int), ((rel % L : Nat) : Int)) := by
  unfold Gen.Trans.splitLoops
  simp only
  by_cases hL : L = 0
  · subst hL; simp
  · have hl : ¬ ((L : Int) ≤ 0) := by omega
    rw [if_neg hl, if_neg hL, floorDiv_eq _ _ (by omega)]
    have h1 : ((rel : Int) / (L : Int)) = ((rel / L : Nat) : Int) := (Int.natCast_ediv rel L).symm
    rw [h1]
    congr 1
    have := Nat.div_add_mod rel L
    have h2 : ((rel / L * L : Nat) : Int) = ((rel / L : Nat) : Int) * (L : Int) := by push_cast; rfl
    have h3 : rel / L * L + rel % L = rel := by rw [Nat.mul_comm]; exact this
    omega

/-- `calcAudioTimeFromRef` equals the model's `audioTimeFromRef` on natural numbers -/
theorem audioTimeFromRef_eq (refTime refT frameDur audT : Nat) :
    Gen.Trans.calcAudioTimeFromRef refTime refT frameDur audT = ((Core.audioTimeFromRef refTime refT frameDur audT : Nat) : Int) := by
  unfold Gen.Trans.calcAudioTimeFromRef Core.audioTimeFromRef
  simp only
  have e1 : Int.tdiv ((refTime : Int) * (audT : Int)) (refT : Int) = ((refTime * audT / refT : Nat) : Int) := by
    rw [← Int.natCast_mul]; exact tdiv_nat _ _
  rw [e1, tdiv_nat]
  have e2 : (((refTime * audT / refT / frameDur : Nat) : Int) * (frameDur : Int)) = ((refTime * audT / refT / frameDur * frameDur : Nat) : Int) := by
    push_cast; rfl
  rw [e2]
  generalize refTime * audT / refT / frameDur * frameDur = t
  have e3 : ((t : Int) * (refT : Int) < (refTime : Int) * (audT : Int)) ↔ (t * refT < refTime * audT) := by
    rw [← Int.natCast_mul, ← Int.natCast_mul]; exact Int.ofNat_lt
  by_cases h : t * refT < refTime * audT
  · rw [if_pos (e3.mpr h), if_pos h]; push_cast; rfl
  · rw [if_neg (fun hc => h (e3.mp hc)), if_neg h]

end TransTie
