import LivesimVerif.Lemmas.ChunkParser
/-!
# The chunk parser against a schedule-free specification (C18)

`readUntil_exact`: with a reader that does not fail, `readUntil` delivers exactly the next
`target - |content|` bytes of the stream (or all that is left), whatever the read schedule.
`specGo`: the parser as a pure function of the byte string.  `parse_eq_spec`: they agree.
-/
namespace CP

theorem n_le_cap (r : Rd) (cap : Nat) : r.n cap ≤ cap := by unfold Rd.n; omega
theorem n_le_rest (r : Rd) (cap : Nat) : r.n cap ≤ r.rest.length := by unfold Rd.n; omega
theorem n_pos (r : Rd) (cap : Nat) (hc : 0 < cap) (hr : 0 < r.rest.length) : 0 < r.n cap := by unfold Rd.n; omega

/-- one `Read` of a reader that never fails -/
structure ReadNF (r : Rd) (cap : Nat) : Prop where
  got : (r.read cap).got = r.rest.take (r.n cap)
  rest : (r.read cap).rd.rest = r.rest.drop (r.n cap)
  nofail : (r.read cap).rd.failRead = none
  err : (r.read cap).err ≠ .fail
  eof : (r.read cap).err = .eof → (r.read cap).rd.rest = []
  none : (r.read cap).err = .none → r.rest ≠ []

theorem read_nofail (r : Rd) (cap : Nat) (hf : r.failRead = none) : ReadNF r cap := by
  cases hr : r.rest with
  | nil =>
    constructor <;> unfold Rd.read <;> simp [hf, hr, decr, Rd.n]
  | cons a as =>
    constructor
    · unfold Rd.read; simp [hf, hr]
    · unfold Rd.read; simp [hf, hr]
    · unfold Rd.read; simp [hf, hr, decr]
    · unfold Rd.read; simp only [hf, hr, reduceCtorEq, ↓reduceIte]; split <;> simp
    · unfold Rd.read
      simp only [hf, hr, reduceCtorEq, ↓reduceIte]
      intro h
      split at h
      · rename_i hc
        simp only [Bool.and_eq_true, List.isEmpty_iff] at hc
        exact hc.1
      · simp at h
    · intro _; simp [hr]

/-- what `readUntil` does with a reader that never fails, for every schedule -/
structure RUExact (fuel : Nat) (st : St) (target : Nat) : Prop where
  content : (readUntil fuel st target).st.content = st.content ++ st.rd.rest.take (target - st.content.length)
  rest : (readUntil fuel st target).st.rd.rest = st.rd.rest.drop (target - st.content.length)
  nofail : (readUntil fuel st target).st.rd.failRead = none
  out : (readUntil fuel st target).st.out = st.out
  next : (readUntil fuel st target).st.next = st.next
  mdatEnd : (readUntil fuel st target).st.mdatEnd = st.mdatEnd
  start : (readUntil fuel st target).st.start = st.start
  isInit : (readUntil fuel st target).st.isInit = st.isInit
  failCb : (readUntil fuel st target).st.failCb = st.failCb
  notFail : (readUntil fuel st target).err ≠ .fail
  reached : (readUntil fuel st target).err = .none ↔ target ≤ st.content.length + st.rd.rest.length

theorem readUntil_exact (fuel : Nat) (st : St) (target : Nat) (hf : st.rd.failRead = none)
    (hfuel : st.rd.rest.length < fuel) (hle : st.content.length ≤ target) : RUExact fuel st target := by
  induction fuel generalizing st with
  | zero => omega
  | succ n ih =>
    by_cases h : st.content.length ≥ target
    · have h0 : target - st.content.length = 0 := by omega
      have hr : readUntil (n + 1) st target = { st := st, err := .none } := by
        rw [readUntil_succ]; simp only [h, ↓reduceIte]
      constructor <;> rw [hr] <;> simp [h0, hf]
      omega
    · have hcap : 0 < target - st.content.length := by omega
      have R := read_nofail st.rd (target - st.content.length) hf
      have hncap := n_le_cap st.rd (target - st.content.length)
      have hnrest := n_le_rest st.rd (target - st.content.length)
      have hlen : (st.rd.read (target - st.content.length)).got.length = st.rd.n (target - st.content.length) := by
        rw [R.got, List.length_take]; omega
      by_cases h2 : (st.content ++ (st.rd.read (target - st.content.length)).got).length ≥ target
      · -- target reached with this read
        have hr : readUntil (n + 1) st target =
            { st := { st with content := st.content ++ (st.rd.read (target - st.content.length)).got,
                              rd := (st.rd.read (target - st.content.length)).rd }, err := .none } := by
          rw [readUntil_succ]; simp only [h, ↓reduceIte, h2]
        have hk : st.rd.n (target - st.content.length) = target - st.content.length := by
          simp only [List.length_append] at h2; omega
        constructor <;> rw [hr] <;> simp only
        · rw [R.got, hk]
        · rw [R.rest, hk]
        · exact R.nofail
        · simp
        · simp only [true_iff]; omega
      · have hk2 : st.content.length + st.rd.n (target - st.content.length) < target := by
          simp only [List.length_append, ge_iff_le, Nat.not_le] at h2; omega
        by_cases hn : (st.rd.read (target - st.content.length)).err = .none
        · -- continue reading
          have hne := R.none hn
          have hpos : 0 < st.rd.n (target - st.content.length) :=
            n_pos _ _ hcap (by cases hl : st.rd.rest with | nil => exact absurd hl hne | cons a t => simp)
          generalize hst' : ({ st with content := st.content ++ (st.rd.read (target - st.content.length)).got,
                                       rd := (st.rd.read (target - st.content.length)).rd } : St) = st'
          have hr : readUntil (n + 1) st target = readUntil n st' target := by
            rw [readUntil_succ]
            simp only [h, ↓reduceIte]
            rw [if_neg h2]
            simp only [hn, ne_eq, not_true_eq_false, ↓reduceIte, hst']
          have hst'c : st'.content = st.content ++ (st.rd.read (target - st.content.length)).got := by rw [← hst']
          have hst'r : st'.rd = (st.rd.read (target - st.content.length)).rd := by rw [← hst']
          have hst'o : st'.out = st.out ∧ st'.next = st.next ∧ st'.mdatEnd = st.mdatEnd ∧ st'.start = st.start ∧
              st'.isInit = st.isInit ∧ st'.failCb = st.failCb := by rw [← hst']; exact ⟨rfl, rfl, rfl, rfl, rfl, rfl⟩
          have hc' : st'.content = st.content ++ st.rd.rest.take (st.rd.n (target - st.content.length)) := by
            rw [hst'c, R.got]
          have hr' : st'.rd.rest = st.rd.rest.drop (st.rd.n (target - st.content.length)) := by
            rw [hst'r, R.rest]
          have hcl : st'.content.length = st.content.length + st.rd.n (target - st.content.length) := by
            rw [hst'c, List.length_append, hlen]
          have I := ih st' (by rw [hst'r]; exact R.nofail) (by rw [hr', List.length_drop]; omega) (by rw [hcl]; omega)
          constructor <;> rw [hr]
          · rw [I.content, hr', hcl, hc', List.append_assoc]
            congr 1
            have : target - st.content.length = st.rd.n (target - st.content.length) +
                (target - (st.content.length + st.rd.n (target - st.content.length))) := by omega
            conv => rhs; rw [this, List.take_add]
          · rw [I.rest, hr', hcl, List.drop_drop]
            congr 1; omega
          · exact I.nofail
          · rw [I.out, hst'o.1]
          · rw [I.next, hst'o.2.1]
          · rw [I.mdatEnd, hst'o.2.2.1]
          · rw [I.start, hst'o.2.2.2.1]
          · rw [I.isInit, hst'o.2.2.2.2.1]
          · rw [I.failCb, hst'o.2.2.2.2.2]
          · exact I.notFail
          · rw [I.reached, hcl, hr', List.length_drop]; omega
        · -- the read ended the stream (EOF): everything that was left has been appended
          have heof : (st.rd.read (target - st.content.length)).err = .eof := by
            cases he : (st.rd.read (target - st.content.length)).err with
            | none => exact absurd he hn
            | eof => rfl
            | fail => exact absurd he R.err
          have hrest0 := R.eof heof
          have hr : readUntil (n + 1) st target =
              { st := { st with content := st.content ++ (st.rd.read (target - st.content.length)).got,
                                rd := (st.rd.read (target - st.content.length)).rd }, err := .eof } := by
            rw [readUntil_succ]
            simp only [h, ↓reduceIte]
            rw [if_neg h2]
            simp only [heof, ne_eq, reduceCtorEq, not_false_eq_true, ↓reduceIte]
          have hall : st.rd.rest.length = st.rd.n (target - st.content.length) := by
            have := congrArg List.length hrest0
            rw [R.rest, List.length_drop] at this
            simp at this; omega
          constructor <;> rw [hr] <;> simp only
          · rw [R.got]; congr 1
            rw [List.take_of_length_le (by omega), List.take_of_length_le (by omega)]
          · rw [hrest0]; symm; apply List.drop_eq_nil_of_le; omega
          · exact R.nofail
          · simp
          · constructor
            · intro hh; cases hh
            · intro hh; omega

/-! ## the specification -/

inductive SRes
  | done (cbs : List Cb)
  | badSize (cbs : List Cb)
  | other (cbs : List Cb)     -- read / callback error (not possible without error injection)
  | fuel
  deriving Repr, DecidableEq

def Res.toS : Res → SRes
  | .done c => .done c
  | .badSize c => .badSize c
  | .readErr c => .other c
  | .cbErr c => .other c
  | .outOfFuel _ => .fuel

/-- The parser as a function of the byte string alone.  `acc` are the complete boxes seen since the last callback,
`rest` the bytes not yet looked at.  A callback is made when a media-data box is complete (with everything since the
previous callback), and once more at the end for whatever is left (also a truncated box); `isInit` is set from the
first movie box on; a size below 8 or one that overflows the 32-bit offset ends parsing. -/
def specGo : Nat → List Byte → List Byte → Nat → Bool → List Cb → SRes
  | 0, _, _, _, _, _ => .fuel
  | fuel+1, rest, acc, start, isInit, out =>
    if rest.length < 8 then
      (if (acc ++ rest).length > 0 then .done (out ++ [⟨start, isInit, acc ++ rest⟩]) else .done out)
    else
      let size := be32 (rest.take 4)
      let typ := (rest.take 8).drop 4
      if !(decide (8 ≤ size) && decide (acc.length + size < U32)) then .badSize out
      else
        let isInit' := isInit || typ == moovTag
        if rest.length < size then .done (out ++ [⟨start, isInit', acc ++ rest⟩])
        else if typ == mdatTag then
          specGo fuel (rest.drop size) [] ((start + (acc.length + size)) % U32) isInit'
            (out ++ [⟨start, isInit', acc ++ rest.take size⟩])
        else specGo fuel (rest.drop size) (acc ++ rest.take size) start isInit' out

def spec (input : List Byte) : SRes := specGo (fuelFor input) input [] 0 false []

/-- loop-head invariant of `Parse` without error injection -/
structure LH (st : St) : Prop where
  nofail : st.rd.failRead = none
  nocb : st.failCb = none
  next : st.next = st.content.length
  mdat : st.mdatEnd = 0

theorem deliverAll_nocb (st : St) (h : st.failCb = none) :
    (deliverAll st).toS = if st.content.length > 0 then .done (st.out ++ [⟨st.start, st.isInit, st.content⟩]) else .done st.out := by
  unfold deliverAll
  by_cases hl : st.content.length > 0
  · simp [hl, callBack, h, Res.toS]
  · simp [hl, Res.toS]

theorem hdr_at (acc hdr : List Byte) (h8 : hdr.length = 8) (st : St) (hc : st.content = acc ++ hdr) (hn : st.next = acc.length) :
    hdrSize st = be32 (hdr.take 4) ∧ hdrType st = hdr.drop 4 := by
  have hd : st.content.drop st.next = hdr := by rw [hc, hn]; simp
  have ht : hdr.take 8 = hdr := List.take_of_length_le (by omega)
  unfold hdrSize hdrType
  rw [hd, ht]
  exact ⟨rfl, rfl⟩

theorem parse_eq_spec (fuel : Nat) (st : St) (h : LH st) :
    (parse fuel st).toS = specGo fuel st.rd.rest st.content st.start st.isInit st.out := by
  induction fuel generalizing st with
  | zero => simp [parse, specGo, Res.toS]
  | succ n ih =>
    rw [parse_succ]
    obtain ⟨R1content, R1rest, R1nofail, R1out, R1next, R1mdatEnd, R1start, R1isInit, R1failCb, R1notFail, R1reached⟩ :=
      readUntil_exact (st.rd.rest.length + 1) st (st.next + 8) h.nofail (by omega) (by rw [h.next]; omega)
    generalize hr1 : readUntil (st.rd.rest.length + 1) st (st.next + 8) = r1 at *
    have hsub : st.next + 8 - st.content.length = 8 := by rw [h.next]; omega
    rw [hsub] at R1content R1rest
    simp only
    by_cases hshort : st.rd.rest.length < 8
    · -- the header is incomplete: end of input
      have herr : r1.err = .eof := by
        cases he : r1.err with
        | none => have := R1reached.mp he; rw [h.next] at this; omega
        | eof => rfl
        | fail => exact absurd he R1notFail
      rw [herr]
      simp only
      rw [deliverAll_nocb _ (by rw [R1failCb]; exact h.nocb)]
      have hc : r1.st.content = st.content ++ st.rd.rest := by
        rw [R1content, List.take_of_length_le (by omega)]
      unfold specGo
      simp only [hshort, ↓reduceIte, hc, R1out, R1start, R1isInit]
    · -- a complete header
      have hlen8 : (st.rd.rest.take 8).length = 8 := by rw [List.length_take]; omega
      have herr : r1.err = .none := R1reached.mpr (by rw [h.next]; omega)
      rw [herr]
      simp only
      obtain ⟨hsz, hty⟩ := hdr_at st.content (st.rd.rest.take 8) hlen8 r1.st R1content (by rw [R1next, h.next])
      have hsz' : hdrSize r1.st = be32 (st.rd.rest.take 4) := by
        rw [hsz, List.take_take]; simp
      have hok : sizeOk r1.st = (decide (8 ≤ be32 (st.rd.rest.take 4)) && decide (st.content.length + be32 (st.rd.rest.take 4) < U32)) := by
        unfold sizeOk; rw [hsz', R1next, h.next]
      unfold specGo
      simp only [hshort, ↓reduceIte]
      rw [hok]
      generalize hsize : be32 (st.rd.rest.take 4) = size at *
      by_cases hbad : (decide (8 ≤ size) && decide (st.content.length + size < U32)) = true
      · simp only [hbad, Bool.not_true, Bool.false_eq_true, ↓reduceIte]
        have h8 : 8 ≤ size := by simp only [Bool.and_eq_true, decide_eq_true_eq] at hbad; exact hbad.1
        -- after the header step
        generalize hst2 : hdrStep r1.st = st2
        have s2c : st2.content = st.content ++ st.rd.rest.take 8 := by rw [← hst2, hdrStep_content, R1content]
        have s2r : st2.rd.rest = st.rd.rest.drop 8 := by rw [← hst2, hdrStep_rd, R1rest]
        have s2f : st2.rd.failRead = none := by rw [← hst2, hdrStep_rd, R1nofail]
        have s2n : st2.next = st.content.length + size := by rw [← hst2]; simp only [hdrStep, R1next, h.next, hsz']
        have s2i : st2.isInit = (st.isInit || (st.rd.rest.take 8).drop 4 == moovTag) := by
          rw [← hst2]; simp only [hdrStep, R1isInit, hty]
        have s2m : st2.mdatEnd = if (st.rd.rest.take 8).drop 4 == mdatTag then st.content.length + size else 0 := by
          rw [← hst2]; simp only [hdrStep, hty, R1next, h.next, hsz', R1mdatEnd, h.mdat]
        have s2o : st2.out = st.out ∧ st2.start = st.start ∧ st2.failCb = none := by
          rw [← hst2]; exact ⟨by rw [hdrStep_out, R1out], by simp only [hdrStep, R1start], by simp only [hdrStep, R1failCb, h.nocb]⟩
        have s2cl : st2.content.length = st.content.length + 8 := by rw [s2c, List.length_append, hlen8]
        obtain ⟨R3content, R3rest, R3nofail, R3out, R3next, R3mdatEnd, R3start, R3isInit, R3failCb, R3notFail, R3reached⟩ :=
          readUntil_exact (st2.rd.rest.length + 1) st2 st2.next s2f (by omega) (by rw [s2cl, s2n]; omega)
        generalize hr3 : readUntil (st2.rd.rest.length + 1) st2 st2.next = r3 at *
        have hsub3 : st2.next - st2.content.length = size - 8 := by rw [s2n, s2cl]; omega
        rw [hsub3] at R3content R3rest
        have r3c : r3.st.content = st.content ++ st.rd.rest.take size := by
          rw [R3content, s2c, s2r, List.append_assoc]
          congr 1
          have : size = 8 + (size - 8) := by omega
          conv => rhs; rw [this, List.take_add]
        have r3r : r3.st.rd.rest = st.rd.rest.drop size := by
          rw [R3rest, s2r, List.drop_drop]; congr 1; omega
        have hnf : ¬ (r3.err = .fail) := R3notFail
        simp only [hnf, ↓reduceIte]
        by_cases htr : st.rd.rest.length < size
        · -- truncated box: no flush, everything is delivered
          simp only [htr, ↓reduceIte]
          have herr3 : r3.err = .eof := by
            cases he : r3.err with
            | none => have := R3reached.mp he; rw [s2n, s2cl, s2r, List.length_drop] at this; omega
            | eof => rfl
            | fail => exact absurd he R3notFail
          have r3cl : r3.st.content.length = st.content.length + st.rd.rest.length := by
            rw [r3c, List.length_append, List.length_take]; omega
          have hnoflush : flush r3.st = { st := r3.st, failed := false } := by
            unfold flush
            have : r3.st.mdatEnd ≠ r3.st.content.length := by
              rw [R3mdatEnd, s2m, r3cl]; split <;> omega
            simp only [this, ↓reduceIte]
          rw [hnoflush]
          simp only [Bool.false_eq_true, ↓reduceIte, herr3]
          rw [deliverAll_nocb _ (by rw [R3failCb]; exact s2o.2.2)]
          have r3c' : r3.st.content = st.content ++ st.rd.rest := by
            rw [r3c, List.take_of_length_le (by omega)]
          have hpos : (st.content ++ st.rd.rest).length > 0 := by rw [List.length_append]; omega
          simp only [R3out, s2o.1, R3start, s2o.2.1, R3isInit, s2i, r3c', hpos, ↓reduceIte]
        · -- the whole box is there
          simp only [htr, ↓reduceIte]
          have hge : size ≤ st.rd.rest.length := by omega
          have herr3 : r3.err = .none := R3reached.mpr (by rw [s2n, s2cl, s2r, List.length_drop]; omega)
          have r3cl : r3.st.content.length = st.content.length + size := by
            rw [r3c, List.length_append, List.length_take]; omega
          by_cases hmd : ((st.rd.rest.take 8).drop 4 == mdatTag) = true
          · -- media data complete: callback and reset
            simp only [hmd, ↓reduceIte]
            have hm3 : r3.st.mdatEnd = r3.st.content.length := by rw [R3mdatEnd, s2m, r3cl]; simp [hmd]
            have hfl : flush r3.st =
                { st := { (callBack r3.st (r3.st.content.take r3.st.mdatEnd)).st with
                            start := (r3.st.start + r3.st.mdatEnd) % U32, content := r3.st.content.drop r3.st.mdatEnd,
                            next := r3.st.next - r3.st.mdatEnd, mdatEnd := 0 },
                  failed := (callBack r3.st (r3.st.content.take r3.st.mdatEnd)).failed } := by
              unfold flush; simp only [hm3, ↓reduceIte]
            rw [hfl]
            have hnf3 : r3.st.failCb = none := by rw [R3failCb]; exact s2o.2.2
            simp only [callBack, hnf3, reduceCtorEq, decide_false, Bool.false_eq_true, ↓reduceIte, herr3]
            rw [ih]
            · simp only [hm3, List.take_length, List.drop_length, r3r, R3out, s2o.1, R3start, s2o.2.1, R3isInit, s2i,
                r3c]
              have : (st.content ++ List.take size st.rd.rest).length = st.content.length + size := by
                rw [← r3c]; exact r3cl
              rw [this]
            · exact ⟨by simp only [r3r]; exact R3nofail, by simp [decr], by simp [hm3, R3next, s2n, r3cl], rfl⟩
          · -- another box: keep collecting
            simp only [hmd, Bool.false_eq_true, ↓reduceIte]
            have hnoflush : flush r3.st = { st := r3.st, failed := false } := by
              unfold flush
              have : r3.st.mdatEnd ≠ r3.st.content.length := by
                rw [R3mdatEnd, s2m, r3cl]; simp only [hmd, Bool.false_eq_true, ↓reduceIte]; omega
              simp only [this, ↓reduceIte]
            rw [hnoflush]
            simp only [Bool.false_eq_true, ↓reduceIte, herr3, reduceCtorEq]
            rw [ih]
            · simp only [r3r, r3c, R3out, s2o.1, R3start, s2o.2.1, R3isInit, s2i]
            · exact ⟨R3nofail, by rw [R3failCb]; exact s2o.2.2, by rw [R3next, s2n, r3cl],
                by rw [R3mdatEnd, s2m]; simp [hmd]⟩
      · simp only [hbad, Bool.not_false, ↓reduceIte, Res.toS, R1out]
