import LivesimVerif.Model.Traffic
/-! Lemmas: `strconv.Atoi` reads back what `strconv.Itoa` (decimal digits) wrote; `takeWhile` up to the next slash. -/
namespace Traffic
open Core

theorem digitsVal_append_one (l : List Char) (c : Char) (acc : Nat) :
    Cfg.digitsVal (l ++ [c]) acc =
      (Cfg.digitsVal l acc).bind fun v => if c.isDigit then some (v * 10 + (c.toNat - '0'.toNat)) else none := by
  induction l generalizing acc with
  | nil => simp [Cfg.digitsVal]
  | cons d t ih =>
    simp only [List.cons_append, Cfg.digitsVal]
    by_cases hd : d.isDigit = true
    · simp only [hd, if_true]; exact ih _
    · simp [hd]

theorem digitsVal_digitChar (n : Nat) (h : n < 10) :
    (if (Nat.digitChar n).isDigit then some (0 * 10 + ((Nat.digitChar n).toNat - '0'.toNat)) else none) = some n := by
  have h1 : (Nat.digitChar n).isDigit = true := by rw [Nat.isDigit_digitChar]; simpa using h
  have h2 := Nat.toNat_digitChar_sub_48_of_lt_ten h
  simp only [h1, if_true]
  have : '0'.toNat = 48 := by decide
  rw [this, h2]; simp

/-- `Atoi(Itoa(n))` on the digit level -/
theorem digitsVal_toDigits (n : Nat) : Cfg.digitsVal (Nat.toDigits 10 n) 0 = some n := by
  induction n using Nat.strongRecOn with
  | _ n ih =>
    rw [Nat.toDigits_eq_if (by decide : 1 < 10)]
    by_cases h : n < 10
    · simp only [h, if_true, Cfg.digitsVal]
      have := digitsVal_digitChar n h
      simpa using this
    · simp only [h, if_false]
      rw [digitsVal_append_one, ih (n / 10) (by omega)]
      have hm : n % 10 < 10 := Nat.mod_lt _ (by decide)
      have h1 : (Nat.digitChar (n % 10)).isDigit = true := by rw [Nat.isDigit_digitChar]; simpa using hm
      have h2 := Nat.toNat_digitChar_sub_48_of_lt_ten hm
      have h48 : '0'.toNat = 48 := by decide
      simp only [Option.bind, h1, if_true, h48, h2]
      congr 1; omega

theorem toDigits_head_digit (n : Nat) : ∃ c t, Nat.toDigits 10 n = c :: t ∧ c.isDigit = true := by
  cases h : Nat.toDigits 10 n with
  | nil => exact absurd h Nat.toDigits_ne_nil
  | cons c t =>
    refine ⟨c, t, rfl, ?_⟩
    exact Nat.isDigit_of_mem_toDigits (b := 10) (n := n) (by decide) (by decide) (by rw [h]; simp)

/-- `strconv.Atoi` of the decimal digits of `n` is `n` (inside int64) -/
theorem atoiL_toDigits (n : Nat) (h : n ≤ 9223372036854775807) : Cfg.atoiL (Nat.toDigits 10 n) = some (n : Int) := by
  obtain ⟨c, t, hct, hc⟩ := toDigits_head_digit n
  have hm : c ≠ '-' := by intro e; rw [e] at hc; exact absurd hc (by decide)
  have hp : c ≠ '+' := by intro e; rw [e] at hc; exact absurd hc (by decide)
  have hv := digitsVal_toDigits n
  rw [hct] at hv
  unfold Cfg.atoiL
  rw [hct]
  split
  next neg ds heq =>
    split at heq
    · next t' hpat => injection hpat with h1 _; exact absurd h1 hm
    · next t' hpat => injection hpat with h1 _; exact absurd h1 hp
    · injection heq with h1 h2
      subst h1; subst h2
      simp only [hv, List.cons_ne_nil, if_false, reduceCtorEq, Bool.false_eq_true]
      have : ¬ ((n : Int) < -9223372036854775808 ∨ (n : Int) > 9223372036854775807) := by omega
      simp [this]

theorem takeWhile_no_slash (ds rest : List Char) (h : ∀ c ∈ ds, c ≠ '/') :
    (ds ++ '/' :: rest).takeWhile (· ≠ '/') = ds ∧ (ds ++ '/' :: rest).dropWhile (· ≠ '/') = '/' :: rest := by
  induction ds with
  | nil => simp
  | cons d t ih =>
    have hd : (decide (d ≠ '/')) = true := by simpa using h d (by simp)
    have := ih (fun c hc => h c (by simp [hc]))
    simp only [List.cons_append, List.takeWhile_cons, List.dropWhile_cons, hd, if_true]
    exact ⟨by rw [this.1], this.2⟩

theorem toDigits_no_slash (n : Nat) : ∀ c ∈ Nat.toDigits 10 n, c ≠ '/' := by
  intro c hc e
  have := Nat.isDigit_of_mem_toDigits (b := 10) (n := n) (by decide) (by decide) hc
  rw [e] at this
  exact absurd this (by decide)

end Traffic
