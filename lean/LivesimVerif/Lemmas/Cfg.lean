import LivesimVerif.Model.Cfg
import LivesimVerif.Props.C14
/-!
# Lemmas about the URL configuration model (`Model/Cfg.lean`)
-/
namespace Cfg
open Core

/-- the part of the configuration that `verifyAndFillConfig` does not re-check: it is established by the parsers -/
def Inv (c : C) : Prop :=
  (∀ k ∈ c.codes, codeOk k = true) ∧ (∀ t ∈ c.traffic, t ≠ [] ∧ GoodItvls t)

theorem withInt_cont {val : String} {f : Int → C} {c' : C} (h : withInt val f = .cont c') : ∃ n, c' = f n := by
  unfold withInt at h
  cases ha : atoi val with
  | none => simp [ha] at h
  | some n => simp [ha] at h; exact ⟨n, h.symm⟩

theorem withInt_fail {val : String} {f : Int → C} (h : atoi val = none) : withInt val f = .fail := by
  unfold withInt; simp [h]

theorem withInt_ne_content {val : String} {f : Int → C} : withInt val f ≠ .content := by
  unfold withInt; cases atoi val <;> simp

theorem parseCodes_ok {val : String} {l : List Code} (h : parseCodes val = some l) : ∀ k ∈ l, codeOk k = true := by
  unfold parseCodes at h
  simp only at h
  split at h
  · cases h
  · split at h
    · cases h
    · next cs _ =>
      split at h
      · next hall =>
        injection h with h; subst h
        exact fun k hk => List.all_eq_true.mp hall k hk
      · cases h

theorem mapM_parseLoss_ok : ∀ (xs : List String) (l : List (List LossItvl)), xs.mapM parseLoss = some l →
    ∀ t ∈ l, t ≠ [] ∧ GoodItvls t
  | [], l, h => by simp at h; subst h; intro t ht; cases ht
  | x :: xs, l, h => by
    simp only [List.mapM_cons] at h
    cases hx : parseLoss x with
    | none => simp [hx] at h
    | some y =>
      cases hr : xs.mapM parseLoss with
      | none => simp [hx, hr] at h
      | some ys =>
        simp [hx, hr] at h
        subst h
        intro t ht
        rcases List.mem_cons.mp ht with rfl | ht
        · exact c14_loss_parse x _ hx
        · exact mapM_parseLoss_ok xs ys hr t ht

theorem parseTraffic_ok {val : String} {l : List (List LossItvl)} (h : parseTraffic val = some l) :
    ∀ t ∈ l, t ≠ [] ∧ GoodItvls t := by
  unfold parseTraffic at h
  split at h
  · injection h with h; subst h; intro t ht; cases ht
  · exact mapM_parseLoss_ok _ _ h

end Cfg
