import LivesimVerif.Lemmas.RecvInv
/-!
# The receiver's bookkeeping never indexes out of range — for the whole operation set

`Lemmas/RecvInv.lean` proves the full bookkeeping invariant for uploads and the unshifted `start`.  This file proves the
weaker *shape* invariant (sizes agree, fill counters within the arrays, track names distinct, buffers strictly
increasing) for **every** operation of `segmentTimelineGenerator`: `addSegmentData`, `dropSeqNr` (the repair of a
non-consecutive first pair before the channel starts), `start` with and without the shift (`resize`, `removeUnshifted`,
`seqCounters.drop` for every removed number).  The shape is all that `segDataBuffer.add` and `seqCounters.add` need in
order not to index out of range, so no sequence of these operations can kill the channel goroutine.
-/
namespace Recv

structure GShape (g : Gen) : Prop where
  wpos : 0 < g.w
  wlt : g.w < U32
  cw : CW g.ctrs g.w
  nodup : (g.bufs.map (·.1)).Nodup
  bw : ∀ p ∈ g.bufs, BW p.2 g.w

theorem GInv.shape {g : Gen} (h : GInv g) : GShape g := ⟨h.wpos, h.wlt, h.cw, h.nodup, h.bw⟩

theorem gshape_new (w : Nat) (h0 : 0 < w) (h1 : w < U32) : GShape (Gen.new w) :=
  ⟨h0, h1, ⟨rfl, by simp [Gen.new, Ctrs.new], by simp [Gen.new, Ctrs.new]⟩, by simp [Gen.new], by simp [Gen.new]⟩

theorem b0_shape (g : Gen) (name : String) (hg : GShape g) :
    BW ((lookupBuf g.bufs name).getD (Buf.new g.w)) g.w := by
  cases h : lookupBuf g.bufs name with
  | none => exact bw_new _
  | some b => exact hg.bw _ (lookupBuf_some_mem _ _ _ h)

/-- **`addSegmentData` keeps the shape and cannot panic** -/
theorem gen_add_shape (g : Gen) (name : String) (it : Item) (hg : GShape g) (hn : it.seqNr < U32) :
    match g.add name it with
    | .panic => False
    | .err g' => GShape g'
    | .ok g' _ => GShape g' := by
  unfold Gen.add
  by_cases hs : (g.shifted && !it.shifted) = true
  · rw [if_pos hs]; exact hg
  · rw [if_neg hs]
    simp only []
    have hbw0 := b0_shape g name hg
    generalize hb0 : (lookupBuf g.bufs name).getD (Buf.new g.w) = b0 at *
    generalize (if ((lookupBuf g.bufs name).isNone && g.started) = true then g.bufs.length + 1 else g.tracks) = tracks
    have hspec := buf_add_spec b0 g.w it hbw0 hg.wpos hg.wlt hn
    have hset : ∀ b, BW b g.w → ∀ p ∈ setBuf g.bufs name b, BW p.2 g.w := by
      intro b hb p hp
      rcases mem_setBuf_cases _ _ _ _ hp with rfl | h
      · exact hb
      · exact hg.bw p h
    cases hadd : b0.add it with
    | panic => rw [hadd] at hspec; exact hspec
    | notIncreasing =>
      exact ⟨hg.wpos, hg.wlt, hg.cw, setBuf_nodup _ _ _ hg.nodup, hset b0 hbw0⟩
    | ok b1 =>
      rw [hadd] at hspec
      simp only []
      have hcs := ctr_add_spec g.ctrs g.w it.seqNr hg.cw hg.wpos
      cases hca : g.ctrs.add it.seqNr with
      | none => rw [hca] at hcs; exact hcs
      | some c1 =>
        rw [hca] at hcs
        simp only []
        have hsh : GShape { g with bufs := setBuf g.bufs name b1, ctrs := c1, tracks := tracks } :=
          ⟨hg.wpos, hg.wlt, hcs.cw, setBuf_nodup _ _ _ hg.nodup, hset b1 hspec.bw⟩
        by_cases hst : g.started = true
        · rw [if_pos hst]
          have hnf : c1.newFullCounter tracks g.latest = some (newFullAux c1.live.reverse tracks g.latest) := by
            unfold Ctrs.newFullCounter
            rw [if_neg]; have := hcs.cw; rw [this.len]; have := this.nr; omega
          rw [hnf]; exact hsh
        · rw [if_neg hst]; exact hsh

/-! ## removing one element: `copy(l[i:], l[i+1:])` -/

theorem copyWithin_erase {α} (l : List α) (i nr : Nat) (hi : i < nr) (hnr : nr ≤ l.length) :
    (copyWithin l i (i + 1) l.length).take (nr - 1) = (l.take nr).eraseIdx i := by
  apply List.ext_getElem?
  intro j
  rw [List.getElem?_take, List.getElem?_eraseIdx, copyWithin_getElem? l i (i + 1) l.length j (by omega)]
  by_cases hj : j < nr - 1
  · rw [if_pos hj]
    by_cases hji : j < i
    · rw [if_neg (by omega), if_pos hji, List.getElem?_take, if_pos (by omega)]
    · rw [if_pos (by omega), if_neg hji, List.getElem?_take, if_pos (by omega)]
      congr 1; omega
  · rw [if_neg hj]
    by_cases hji : j < i
    · omega
    · rw [if_neg hji, List.getElem?_take, if_neg (by omega)]

theorem sortedI_eraseIdx (l : List Item) (i : Nat) (h : SortedI l) : SortedI (l.eraseIdx i) :=
  List.Pairwise.sublist (List.eraseIdx_sublist l i) h

/-- **`segDataBuffer.dropSeqNr`** keeps a well-formed buffer well-formed -/
theorem buf_drop_spec (b : Buf) (w n : Nat) (hb : BW b w) : ∃ b', b.dropSeqNr n = some b' ∧ BW b' w := by
  obtain ⟨hsize, hlen, hnr, hsorted⟩ := hb
  unfold Buf.dropSeqNr
  rw [if_neg (by omega)]
  cases hf : b.live.findIdx? (·.seqNr = n) with
  | none => exact ⟨b, rfl, ⟨hsize, hlen, hnr, hsorted⟩⟩
  | some i =>
    have hil : i < b.live.length := (List.findIdx?_eq_some_iff_getElem.mp hf).1
    have hll : b.live.length = b.nr := by simp only [Buf.live, List.length_take]; omega
    refine ⟨_, rfl, ⟨hsize, ?_, by show b.nr - 1 ≤ w; omega, ?_⟩⟩
    · show (copyWithin b.items i (i + 1) b.items.length).length = w
      rw [copyWithin_length _ _ _ _ (by omega)]; exact hlen
    · show SortedI ((copyWithin b.items i (i + 1) b.items.length).take (b.nr - 1))
      rw [copyWithin_erase b.items i b.nr (by omega) (by omega)]
      exact sortedI_eraseIdx _ _ hsorted

/-- **`seqCounters.drop`** keeps the counter array well-formed -/
theorem ctr_drop_spec (c : Ctrs) (w n : Nat) (hc : CW c w) : ∃ c', c.drop n = some c' ∧ CW c' w := by
  obtain ⟨hweq, hlen, hnr⟩ := hc
  unfold Ctrs.drop
  rw [if_neg (by omega)]
  cases hf : findIdx c.live n with
  | none => exact ⟨c, rfl, ⟨hweq, hlen, hnr⟩⟩
  | some i =>
    refine ⟨_, rfl, ⟨hweq, ?_, by show c.nr - 1 ≤ w; omega⟩⟩
    show (if i + 1 < c.w then copyWithin c.arr i (i + 1) c.arr.length else c.arr).length = w
    split
    · obtain ⟨y, hy, _⟩ := findIdx_some _ _ _ hf
      have : i < c.live.length := by
        by_cases h : i < c.live.length
        · exact h
        · rw [List.getElem?_eq_none (by omega)] at hy; cases hy
      have hll : c.live.length ≤ c.arr.length := by simp only [Ctrs.live, List.length_take]; omega
      rw [copyWithin_length _ _ _ _ (by omega)]; exact hlen
    · exact hlen

theorem mapBufs_shape (f : Buf → Option Buf) (w : Nat) (bufs : List (String × Buf))
    (h : ∀ p ∈ bufs, ∃ b', f p.2 = some b' ∧ BW b' w) :
    ∃ bufs', mapBufs f bufs = some bufs' ∧ bufs'.map (·.1) = bufs.map (·.1) ∧ ∀ p' ∈ bufs', BW p'.2 w := by
  obtain ⟨bufs', h1, h2, h3, _⟩ := mapBufs_spec f (fun _ b' => BW b' w) bufs h
  refine ⟨bufs', h1, h2, ?_⟩
  intro p' hp'
  obtain ⟨_, _, hr⟩ := h3 p' hp'
  exact hr

/-- **`dropSeqNr` of the generator keeps the shape and cannot panic** -/
theorem gen_drop_shape (g : Gen) (n : Nat) (hg : GShape g) : ∃ g', g.dropSeqNr n = some g' ∧ GShape g' := by
  obtain ⟨bufs', hb, hnames, hbw⟩ := mapBufs_shape (·.dropSeqNr n) g.w g.bufs (fun p hp => buf_drop_spec p.2 g.w n (hg.bw p hp))
  obtain ⟨c', hc, hcw⟩ := ctr_drop_spec g.ctrs g.w n hg.cw
  refine ⟨{ g with bufs := bufs', ctrs := c' }, ?_, ⟨hg.wpos, hg.wlt, hcw, ?_, hbw⟩⟩
  · unfold Gen.dropSeqNr; simp only [hb, hc]
  · show (bufs'.map (·.1)).Nodup; rw [hnames]; exact hg.nodup

/-! ## the shifted start -/

theorem takeWhile_length_le_nr (b : Buf) : (b.live.takeWhile (fun it => !it.shifted)).length ≤ b.live.length :=
  List.Sublist.length_le (List.takeWhile_sublist _)

/-- **`segDataBuffer.removeUnshifted`** keeps a well-formed buffer well-formed -/
theorem buf_removeUnshifted_spec (b : Buf) (w : Nat) (hb : BW b w) :
    ∃ b' un, b.removeUnshifted = some (b', un) ∧ BW b' w := by
  obtain ⟨hsize, hlen, hnr, hsorted⟩ := hb
  unfold Buf.removeUnshifted
  rw [if_neg (by omega)]
  simp only
  split
  · exact ⟨b, [], rfl, ⟨hsize, hlen, hnr, hsorted⟩⟩
  · have hll : b.live.length = b.nr := by simp only [Buf.live, List.length_take]; omega
    have hk := takeWhile_length_le_nr b
    generalize hkk : (b.live.takeWhile (fun it => !it.shifted)).length = k at *
    refine ⟨_, _, rfl, ⟨hsize, ?_, by show b.nr - k ≤ w; omega, ?_⟩⟩
    · show (copyWithin b.items 0 k b.items.length).length = w
      rw [copyWithin_length _ _ _ _ (by omega)]; exact hlen
    · show SortedI ((copyWithin b.items 0 k b.items.length).take (b.nr - k))
      rw [copyWithin_zero _ _ (by omega)]
      have e : (b.items.drop k ++ b.items.drop (b.items.length - k)).take (b.nr - k) = (b.items.take b.nr).drop k := by
        rw [List.take_append_of_le_length (by simp; omega), List.drop_take]
      rw [e]
      exact List.Pairwise.sublist (List.drop_sublist _ _) hsorted

theorem dropAll_spec (c : Ctrs) (w : Nat) (l : List Nat) (hc : CW c w) : ∃ c', dropAll c l = some c' ∧ CW c' w := by
  induction l generalizing c with
  | nil => exact ⟨c, rfl, hc⟩
  | cons n t ih =>
    obtain ⟨c1, h1, hc1⟩ := ctr_drop_spec c w n hc
    obtain ⟨c2, h2, hc2⟩ := ih c1 hc1
    exact ⟨c2, by simp only [dropAll, h1, h2], hc2⟩

theorem startShift_spec (bufs : List (String × Buf)) (c : Ctrs) (w : Nat) (hb : ∀ p ∈ bufs, BW p.2 w) (hc : CW c w) :
    ∃ bs' c', startShift bufs c = some (bs', c') ∧ bs'.map (·.1) = bufs.map (·.1) ∧ (∀ p ∈ bs', BW p.2 w) ∧ CW c' w := by
  induction bufs generalizing c with
  | nil => exact ⟨[], c, rfl, rfl, by simp, hc⟩
  | cons q t ih =>
    obtain ⟨name, b⟩ := q
    obtain ⟨b', un, hr, hbw⟩ := buf_removeUnshifted_spec b w (hb (name, b) (by simp))
    obtain ⟨c1, h1, hc1⟩ := dropAll_spec c w un hc
    obtain ⟨t', c2, h2, hn, hbt, hc2⟩ := ih c1 (fun p hp => hb p (by simp [hp])) hc1
    refine ⟨(name, b') :: t', c2, ?_, by simp [hn], ?_, hc2⟩
    · simp only [startShift, hr, h1, h2]
    · intro p hp
      rcases List.mem_cons.mp hp with rfl | hp
      · exact hbw
      · exact hbt p hp

/-- **`start`, shifted or not, to any window keeps the shape and cannot panic** -/
theorem gen_start_shape (g : Gen) (w : Nat) (sh : Bool) (hg : GShape g) (hw0 : 0 < w) (hw : w < U32) :
    ∃ g', g.start w sh = some g' ∧ GShape g' ∧ g'.w = w := by
  obtain ⟨c', hc', hcw', _⟩ := ctr_resize_spec g.ctrs g.w w hg.cw
  obtain ⟨bufs', hb', hnames, hbw'⟩ := mapBufs_shape (·.resize w) w g.bufs
    (fun p hp => by
      obtain ⟨b', h1, h2, _⟩ := buf_resize_spec p.2 g.w w (hg.bw p hp)
      exact ⟨b', h1, h2⟩)
  have hnd : (bufs'.map (·.1)).Nodup := by rw [hnames]; exact hg.nodup
  cases sh with
  | false =>
    refine ⟨{ bufs := bufs', ctrs := c', latest := g.latest, w := w, tracks := bufs'.length, started := true, shifted := false }, ?_,
      ⟨hw0, hw, hcw', hnd, hbw'⟩, rfl⟩
    unfold Gen.start Gen.resize
    simp only [hb', hc']
    rfl
  | true =>
    obtain ⟨bs2, c2, hs, hn2, hb2, hc2⟩ := startShift_spec bufs' c' w hbw' hcw'
    refine ⟨{ bufs := bs2, ctrs := c2, latest := g.latest, w := w, tracks := bs2.length, started := true, shifted := true }, ?_,
      ⟨hw0, hw, hc2, by show (bs2.map (·.1)).Nodup; rw [hn2]; exact hnd, hb2⟩, rfl⟩
    unfold Gen.start Gen.resize
    simp only [hb', hc', hs]
    rfl

end Recv
