import LivesimVerif.Model.ChunkSrc
/-! Lemmas about the chunked-transfer source: every `Read` hands out the next bytes of the stream, in order. -/
namespace ChunkSrc

theorem refill_stream (s s' : Src) (ha : s.avail = []) (h : s.refill = some s') :
    s'.stream = s.stream ∧ s'.cap = s.cap := by
  unfold Src.refill at h
  cases hc : s.cur with
  | nil =>
    cases hq : s.queue with
    | nil => simp [hc, hq] at h
    | cons w q =>
      simp only [hc, hq] at h
      injection h with h; subst h
      simp [Src.stream, ha, hc, hq, List.take_append_drop]
  | cons x c =>
    simp only [hc] at h
    injection h with h; subst h
    simp only [Src.stream, ha, hc, List.nil_append, and_true]
    rw [List.take_append_drop]

theorem refill_none (s : Src) (ha : s.avail = []) (h : s.refill = none) : s.stream = [] := by
  unfold Src.refill at h
  cases hc : s.cur with
  | nil =>
    cases hq : s.queue with
    | nil => simp [Src.stream, ha, hc, hq]
    | cons w q => simp [hc, hq] at h
  | cons x c => simp [hc] at h

/-- one `Read`: the bytes returned are the head of the stream, at most `k` of them, and the rest is still to come -/
theorem read_stream (s s' : Src) (k : Nat) (out : List Nat) (h : s.read k = (s', some out)) :
    s.stream = out ++ s'.stream ∧ out.length ≤ k ∧ s'.cap = s.cap := by
  unfold Src.read at h
  split at h
  · next he =>
    have ha : s.avail = [] := by simpa using he
    cases hr : s.refill with
    | none => simp [hr] at h
    | some r =>
      simp only [hr] at h
      injection h with h1 h2; injection h2 with h2; subst h1; subst h2
      obtain ⟨hs, hc⟩ := refill_stream s r ha hr
      refine ⟨?_, by simp [List.length_take]; omega, hc⟩
      rw [← hs]; simp [Src.stream, List.take_append_drop, ← List.append_assoc]
  · injection h with h1 h2; injection h2 with h2; subst h1; subst h2
    refine ⟨?_, by simp [List.length_take]; omega, rfl⟩
    simp [Src.stream, List.take_append_drop, ← List.append_assoc]

/-- `io.EOF` is returned only when nothing is left, and it leaves the source as it is -/
theorem read_eof (s s' : Src) (k : Nat) (h : s.read k = (s', none)) : s.stream = [] ∧ s' = s := by
  unfold Src.read at h
  split at h
  · next he =>
    have ha : s.avail = [] := by simpa using he
    cases hr : s.refill with
    | none =>
      simp only [hr] at h
      injection h with h1 _; exact ⟨refill_none s ha hr, h1.symm⟩
    | some r => simp [hr] at h
  · simp at h

end ChunkSrc
