import LivesimVerif.Model.Receiver
/-!
# The receiver's bookkeeping invariant (C17)

`GInv` relates the per-number counters to the per-track buffers: a live counter inside the current window never counts
more tracks than there are buffers holding that number.  It is preserved by every `addSegmentData`, whatever the
arrival order, and under it neither `segDataBuffer.add` nor `seqCounters.add` can index out of range (the run-time
panic that would stop the channel goroutine).  Core Lean only.
-/
namespace Recv

/-! ## list facts -/

theorem take_set_succ {α} (l : List α) (i : Nat) (x : α) (h : i < l.length) :
    (l.set i x).take (i + 1) = l.take i ++ [x] := by
  induction l generalizing i with
  | nil => simp at h
  | cons a t ih =>
    cases i with
    | zero => simp
    | succ j => simp [ih j (by simpa using h)]

theorem take_set_ge {α} (l : List α) (i k : Nat) (x : α) (h : k ≤ i) : (l.set i x).take k = l.take k := by
  induction l generalizing i k with
  | nil => simp
  | cons a t ih =>
    cases k with
    | zero => simp
    | succ k' =>
      cases i with
      | zero => omega
      | succ j => simp [ih j k' (by omega)]

theorem copyWithin_length {α} (l : List α) (d s e : Nat) (hd : d ≤ l.length) :
    (copyWithin l d s e).length = l.length := by
  unfold copyWithin
  simp only [List.length_append, List.length_take, List.length_drop]
  omega

/-- `copy(l, l[d:])` -/
theorem copyWithin_zero {α} (l : List α) (d : Nat) (hd : d ≤ l.length) :
    copyWithin l 0 d l.length = l.drop d ++ l.drop (l.length - d) := by
  unfold copyWithin
  have h1 : ((l.drop d).take (l.length - d)) = l.drop d := by
    apply List.take_of_length_le; simp
  simp only [h1, List.take_zero, List.nil_append, List.length_drop, Nat.sub_zero, Nat.zero_add]
  have h2 : min (l.length - d) l.length = l.length - d := by omega
  rw [h2]
  have h3 : (l.drop d).take (l.length - d) = l.drop d := h1
  rw [h3]

/-! ## sorted item lists -/

def SortedI (l : List Item) : Prop := l.Pairwise (fun a b => a.seqNr < b.seqNr)

/-- a strictly increasing list with all numbers in `[a, b)` has at most `b - a` elements (pigeonhole) -/
theorem sorted_length_le (l : List Item) (a b : Nat) (hs : SortedI l) (hr : ∀ x ∈ l, a ≤ x.seqNr ∧ x.seqNr < b) :
    l.length ≤ b - a := by
  induction l generalizing a with
  | nil => simp
  | cons h t ih =>
    have hh := hr h (by simp)
    have hs' := List.pairwise_cons.mp hs
    have := ih (h.seqNr + 1) hs'.2 (fun x hx => ⟨hs'.1 x hx, (hr x (by simp [hx])).2⟩)
    simp only [List.length_cons]
    omega

/-- the elements not above a threshold form a prefix -/
theorem sorted_drop_filter (l : List Item) (thr : Nat) (hs : SortedI l) :
    ∀ x ∈ l, thr < x.seqNr → x ∈ l.drop (l.filter (·.seqNr ≤ thr)).length := by
  induction l with
  | nil => simp
  | cons h t ih =>
    have hs' := List.pairwise_cons.mp hs
    intro x hx hgt
    by_cases hh : h.seqNr ≤ thr
    · have : (List.filter (fun y => decide (y.seqNr ≤ thr)) (h :: t)) = h :: List.filter (fun y => decide (y.seqNr ≤ thr)) t := by
        simp [List.filter_cons, hh]
      rw [this]
      simp only [List.length_cons, List.drop_succ_cons]
      rcases List.mem_cons.mp hx with rfl | hx'
      · omega
      · exact ih hs'.2 x hx' hgt
    · have : (List.filter (fun y => decide (y.seqNr ≤ thr)) (h :: t)) = [] := by
        rw [List.filter_eq_nil_iff]
        intro y hy
        rcases List.mem_cons.mp hy with rfl | hy'
        · simpa using hh
        · have := hs'.1 y hy'; simp; omega
      rw [this]; simpa using hx

theorem sorted_lt_of_last (l : List Item) (hs : SortedI l) (hne : l ≠ []) :
    ∀ x ∈ l, x.seqNr ≤ (l.getLast hne).seqNr := by
  induction l with
  | nil => exact absurd rfl hne
  | cons h t ih =>
    have hs' := List.pairwise_cons.mp hs
    intro x hx
    cases t with
    | nil => simp at hx; subst hx; simp
    | cons h2 t2 =>
      rw [List.getLast_cons (by simp)]
      rcases List.mem_cons.mp hx with rfl | hx'
      · have := hs'.1 _ (List.getLast_mem (by simp : h2 :: t2 ≠ [])); omega
      · exact ih hs'.2 (by simp) x hx'

theorem sorted_append_one (l : List Item) (it : Item) (hs : SortedI l) (h : ∀ x ∈ l, x.seqNr < it.seqNr) :
    SortedI (l ++ [it]) := by
  unfold SortedI at *
  rw [List.pairwise_append]
  refine ⟨hs, by simp, ?_⟩
  intro a ha b hb
  simp at hb; subst hb; exact h a ha

/-! ## segDataBuffer -/

structure BW (b : Buf) (w : Nat) : Prop where
  size : b.size = w
  len : b.items.length = w
  nr : b.nr ≤ w
  sorted : SortedI b.live

/-- `getD` at the last live index is the last live element -/
theorem live_getLast (b : Buf) (h0 : b.nr ≠ 0) (hle : b.nr ≤ b.items.length) (hne : b.live ≠ []) :
    b.items.getD (b.nr - 1) default = b.live.getLast hne := by
  unfold Buf.live at *
  rw [List.getLast_eq_getElem]
  simp only [List.length_take, List.getElem_take]
  have : min b.nr b.items.length = b.nr := by omega
  simp only [this]
  rw [List.getD_eq_getElem?_getD, List.getElem?_eq_getElem (by omega)]
  rfl

/-- what a successful `segDataBuffer.add` does to the live items -/
structure BufAdded (b b' : Buf) (w : Nat) (it : Item) : Prop where
  bw : BW b' w
  live : ∃ d, b'.live = b.live.drop d ++ [it] ∧ ∀ x ∈ b.live, it.seqNr < x.seqNr + w → x ∈ b.live.drop d
  below : ∀ x ∈ b.live, x.seqNr < it.seqNr

/-- **`segDataBuffer.add` never indexes out of range** on a well-formed buffer, and a successful add appends the item,
discarding only numbers at least a window older than the new one. -/
theorem buf_add_spec (b : Buf) (w : Nat) (it : Item) (hb : BW b w) (hw0 : 0 < w) (hw : w < U32) (hn : it.seqNr < U32) :
    match b.add it with
    | .panic => False
    | .notIncreasing => True
    | .ok b' => BufAdded b b' w it := by
  obtain ⟨hsize, hlen, hnr, hsorted⟩ := hb
  unfold Buf.add
  by_cases h0 : b.nr = 0
  · simp only [h0, ↓reduceIte]
    have : 0 < b.items.length := by omega
    simp only [this, ↓reduceIte]
    have hl : b.live = [] := by simp [Buf.live, h0]
    refine ⟨⟨hsize, by simpa using hlen, by simp; omega, ?_⟩, ⟨0, ?_, ?_⟩, ?_⟩
    · have := take_set_succ b.items 0 it this
      simp [Buf.live, SortedI] at this ⊢
      rw [this]; simp
    · show (b.items.set 0 it).take (0 + 1) = b.live.drop 0 ++ [it]
      rw [hl, take_set_succ b.items 0 it this]; simp
    · simp [hl]
    · simp [hl]
  · simp only [h0, ↓reduceIte]
    have hlt : ¬ b.items.length < b.nr := by omega
    simp only [hlt, ↓reduceIte]
    have hne : b.live ≠ [] := by
      have hll : b.live.length = b.nr := by simp only [Buf.live, List.length_take]; omega
      intro h; rw [h] at hll; simp at hll; omega
    have hlast := live_getLast b h0 (by omega) hne
    have hmax := sorted_lt_of_last b.live hsorted hne
    by_cases hinc : it.seqNr ≤ (b.items.getD (b.nr - 1) default).seqNr
    · rw [if_pos hinc]; trivial
    · rw [if_neg hinc]
      have hbelow : ∀ x ∈ b.live, x.seqNr < it.seqNr := by
        intro x hx; have := hmax x hx; rw [← hlast] at this; omega
      by_cases hfull : b.nr < b.size
      · simp only [hfull, ↓reduceIte]
        have h2 : b.nr < b.items.length := by omega
        simp only [h2, ↓reduceIte]
        have hl' : (b.items.set b.nr it).take (b.nr + 1) = b.live ++ [it] := take_set_succ b.items b.nr it h2
        refine ⟨⟨hsize, by simpa using hlen, by simp; omega, ?_⟩, ⟨0, ?_, ?_⟩, hbelow⟩
        · show SortedI ((b.items.set b.nr it).take (b.nr + 1))
          rw [hl']; exact sorted_append_one _ _ hsorted hbelow
        · show (b.items.set b.nr it).take (b.nr + 1) = _
          rw [hl']; simp
        · intro x hx _; simpa using hx
      · simp only [hfull, ↓reduceIte]
        have hnrw : b.nr = w := by omega
        have h3 : ¬ b.items.length < b.size := by omega
        simp only [h3, ↓reduceIte]
        -- all items are live
        have hall : b.items.take b.size = b.live := by simp [Buf.live, hnrw, hsize]
        have hlive_all : b.live = b.items := by
          simp [Buf.live, hnrw, ← hlen]
        -- the new number is at least a window
        have hnw : w ≤ it.seqNr := by
          by_cases hc : w ≤ it.seqNr
          · exact hc
          · have := sorted_length_le b.live 0 it.seqNr hsorted (fun x hx => ⟨by omega, hbelow x hx⟩)
            rw [hlive_all, hlen] at this; omega
        have hthr : (it.seqNr + U32 - b.size % U32) % U32 = it.seqNr - w := by
          rw [hsize]; unfold U32 at *; omega
        rw [hthr, hall]
        generalize hd : (b.live.filter (fun x => decide (x.seqNr ≤ it.seqNr - w))).length = disc
        have hdle : disc ≤ w := by
          rw [← hd]; have := List.length_filter_le (fun x : Item => decide (x.seqNr ≤ it.seqNr - w)) b.live
          rw [hlive_all, hlen] at this; rw [hlive_all]; exact this
        have hd0 : disc ≠ 0 := by
          intro hz
          rw [hz, List.length_eq_zero_iff, List.filter_eq_nil_iff] at hd
          have := sorted_length_le b.live (it.seqNr - w + 1) it.seqNr hsorted (fun x hx => by
            have h1 := hd x hx; have h2 := hbelow x hx; simp at h1; omega)
          rw [hlive_all, hlen] at this; omega
        simp only [hd0, ↓reduceIte]
        have hcl : (copyWithin b.items 0 disc b.items.length).length = w := by
          rw [copyWithin_length _ _ _ _ (by omega)]; exact hlen
        have hcond : ¬ (b.nr - (disc - 1) = 0 ∨ b.nr - (disc - 1) > (copyWithin b.items 0 disc b.items.length).length) := by
          rw [hcl]; omega
        simp only [hcond, ↓reduceIte]
        have hidx : b.nr - (disc - 1) - 1 = w - disc := by omega
        have hlive' : ((copyWithin b.items 0 disc b.items.length).set (b.nr - (disc - 1) - 1) it).take (b.nr - (disc - 1))
            = b.live.drop disc ++ [it] := by
          have e1 : b.nr - (disc - 1) = (w - disc) + 1 := by omega
          rw [hidx, e1, take_set_succ _ _ _ (by rw [hcl]; omega), copyWithin_zero _ _ (by omega), hlive_all]
          congr 1
          rw [List.take_append_of_le_length (by simp; omega)]
          apply List.take_of_length_le; simp; omega
        refine ⟨⟨hsize, by simpa using hcl, by simp; omega, ?_⟩, ⟨disc, hlive', ?_⟩, hbelow⟩
        · show SortedI (((copyWithin b.items 0 disc b.items.length).set (b.nr - (disc - 1) - 1) it).take (b.nr - (disc - 1)))
          rw [hlive']
          exact sorted_append_one _ _ (List.Pairwise.sublist (List.drop_sublist _ _) hsorted)
            (fun x hx => hbelow x (List.mem_of_mem_drop hx))
        · intro x hx hwin
          rw [← hd]
          exact sorted_drop_filter b.live (it.seqNr - w) hsorted x hx (by omega)

/-! ## seqCounters -/

/-- index-wise description of Go's `copy` inside one array -/
theorem copyWithin_getElem? {α} (l : List α) (d s e j : Nat) (hd : d ≤ l.length) :
    (copyWithin l d s e)[j]? =
      if d ≤ j ∧ j < d + min (min (e - s) (l.length - s)) (l.length - d) then l[s + (j - d)]? else l[j]? := by
  unfold copyWithin
  simp only [List.length_take, List.length_drop]
  generalize hn : min (min (e - s) (l.length - s)) (l.length - d) = n
  by_cases h1 : j < d
  · rw [if_neg (by omega), List.append_assoc, List.getElem?_append_left (by simp; omega)]
    simp [List.getElem?_take, h1]
  · by_cases h2 : j < d + n
    · rw [if_pos (by omega), List.append_assoc, List.getElem?_append_right (by simp; omega)]
      simp only [List.length_take]
      have e1 : min d l.length = d := by omega
      rw [e1, List.getElem?_append_left (by simp; omega)]
      simp only [List.getElem?_take, List.getElem?_drop]
      rw [if_pos (by omega), if_pos (by omega)]
    · rw [if_neg (by omega), List.getElem?_append_right (by simp; omega)]
      simp only [List.length_append, List.length_take, List.length_drop, List.getElem?_drop]
      congr 1; omega

theorem mem_take_iff {α} (l : List α) (k : Nat) (x : α) : x ∈ l.take k ↔ ∃ j, j < k ∧ l[j]? = some x := by
  rw [List.mem_iff_getElem?]
  constructor
  · rintro ⟨i, hi⟩
    rw [List.getElem?_take] at hi
    by_cases h : i < k
    · exact ⟨i, h, by simpa [h] using hi⟩
    · simp [h] at hi
  · rintro ⟨j, hj, h⟩
    exact ⟨j, by rw [List.getElem?_take, if_pos hj]; exact h⟩

def mxOf (c : Ctrs) : Nat := (c.arr.getD (c.nr - 1) default).seqNr

structure CW (c : Ctrs) (w : Nat) : Prop where
  weq : c.w = w
  len : c.arr.length = w
  nr : c.nr ≤ w

theorem findIdx_some (l : List Ctr) (n i : Nat) (h : findIdx l n = some i) : ∃ y, l[i]? = some y ∧ y.seqNr = n := by
  induction l generalizing i with
  | nil => simp [findIdx] at h
  | cons c t ih =>
    unfold findIdx at h
    by_cases hc : c.seqNr = n
    · simp [hc] at h; subst h; exact ⟨c, by simp, hc⟩
    · simp only [hc, ↓reduceIte, Option.map_eq_some_iff] at h
      obtain ⟨j, hj, rfl⟩ := h
      obtain ⟨y, hy, hn⟩ := ih j hj
      exact ⟨y, by simpa using hy, hn⟩

theorem insPos_some (l : List Ctr) (n k i : Nat) (h : insPos l n k = some i) : 1 ≤ i ∧ i ≤ k ∧ i < l.length := by
  induction k with
  | zero => simp [insPos] at h
  | succ k ih =>
    unfold insPos at h
    by_cases hc : k + 1 < l.length ∧ (l.getD k default).seqNr < n
    · rw [if_pos hc] at h; injection h with h; subst h; omega
    · rw [if_neg hc] at h; have := ih h; omega

/-- what a `seqCounters.add` does to the live counters -/
structure CtrAdded (c c' : Ctrs) (w n : Nat) : Prop where
  cw : CW c' w
  nrpos : c'.nr ≠ 0
  mx_ge : n ≤ mxOf c'
  mx_mono : c.nr ≠ 0 → mxOf c ≤ mxOf c'
  mem : ∀ x ∈ c'.live, x ∈ c.live ∨ (x.seqNr = n ∧ x.count = 1) ∨
          (∃ y ∈ c.live, y.seqNr = n ∧ x.seqNr = n ∧ x.count = y.count + 1)

theorem mxOf_eq (c : Ctrs) : mxOf c = ((c.arr[c.nr - 1]?).getD default).seqNr := by
  simp [mxOf, List.getD_eq_getElem?_getD]

theorem live_mem (c : Ctrs) (x : Ctr) : x ∈ c.live ↔ ∃ j, j < c.nr ∧ c.arr[j]? = some x := mem_take_iff _ _ _

theorem ctr_addAbove_spec (c : Ctrs) (w n : Nat) (hc : CW c w) (h0 : c.nr ≠ 0) (hn : mxOf c < n) :
    match c.addAbove n with
    | none => False
    | some c' => CtrAdded c c' w n := by
  obtain ⟨hweq, hlen, hnr⟩ := hc
  unfold Ctrs.addAbove
  simp only []
  generalize hcb : countBelow c.live (c.minFromMax n) = cb
  have hcble : cb ≤ c.nr := by
    rw [← hcb]; unfold countBelow
    have := List.length_filter_le (fun x : Ctr => decide (x.seqNr < c.minFromMax n)) c.live
    have h2 : c.live.length ≤ c.nr := by simp [Ctrs.live]; omega
    omega
  generalize hdr : (if cb = 0 ∧ c.nr = c.w then 1 else cb) = drop
  have hdle : drop ≤ c.nr := by
    rw [← hdr]; split <;> omega
  have hd0 : drop = 0 → c.nr < w := by
    intro hz; rw [hz] at hdr
    split at hdr
    · omega
    · rename_i hh; omega
  rw [if_neg (by omega)]
  generalize harr : (if drop > 0 then copyWithin c.arr 0 drop c.arr.length else c.arr) = arr1
  have hl1 : arr1.length = w := by
    rw [← harr]; split
    · rw [copyWithin_length _ _ _ _ (by omega)]; exact hlen
    · exact hlen
  have hidx : ∀ j, j < c.nr - drop → arr1[j]? = c.arr[drop + j]? := by
    intro j hj
    rw [← harr]; split
    · rw [copyWithin_getElem? _ _ _ _ _ (by omega), if_pos (by omega)]; simp
    · have : drop = 0 := by omega
      simp [this]
  have hnr1 : c.nr - drop < arr1.length := by
    rw [hl1]; by_cases hz : drop = 0
    · have := hd0 hz; omega
    · omega
  rw [if_pos hnr1]
  show CtrAdded c { c with arr := arr1.set (c.nr - drop) ⟨n, 1⟩, nr := c.nr - drop + 1 } w n
  refine ⟨⟨hweq, by simpa using hl1, by simp; omega⟩, by simp, ?_, ?_, ?_⟩
  · rw [mxOf_eq]; simp [List.getElem?_set, hnr1]
  · intro _; rw [mxOf_eq (c := { c with arr := arr1.set (c.nr - drop) ⟨n, 1⟩, nr := c.nr - drop + 1 })]
    simp [List.getElem?_set, hnr1]; omega
  · intro x hx
    rw [live_mem] at hx
    obtain ⟨j, hj, hx⟩ := hx
    simp only [List.getElem?_set] at hx
    by_cases hjn : c.nr - drop = j
    · rw [if_pos hjn, if_pos hnr1] at hx
      injection hx with hx; subst hx
      right; left; simp
    · rw [if_neg hjn] at hx
      have hj' : j < c.nr - drop := by simp at hj; omega
      rw [hidx j hj'] at hx
      left; rw [live_mem]; exact ⟨drop + j, by omega, hx⟩

theorem ctr_addInside_spec (c : Ctrs) (w n : Nat) (hc : CW c w) (h0 : c.nr ≠ 0) (hn : n ≤ mxOf c) :
    match c.addInside n with
    | none => False
    | some c' => CtrAdded c c' w n ∧ mxOf c' = mxOf c := by
  obtain ⟨hweq, hlen, hnr⟩ := hc
  have hll : c.live.length = c.nr := by simp only [Ctrs.live, List.length_take]; omega
  unfold Ctrs.addInside
  cases hf : findIdx c.live n with
  | some i =>
    obtain ⟨y, hy, hyn⟩ := findIdx_some _ _ _ hf
    have hi : i < c.nr ∧ c.arr[i]? = some y := by
      unfold Ctrs.live at hy
      rw [List.getElem?_take] at hy
      by_cases h : i < c.nr
      · rw [if_pos h] at hy; exact ⟨h, hy⟩
      · rw [if_neg h] at hy; cases hy
    have hgd : c.arr.getD i default = y := by simp [List.getD_eq_getElem?_getD, hi.2]
    show CtrAdded c { c with arr := c.arr.set i ⟨n, (c.arr.getD i default).count + 1⟩ } w n ∧ _
    have hmx : mxOf { c with arr := c.arr.set i ⟨n, (c.arr.getD i default).count + 1⟩ } = mxOf c := by
      rw [mxOf_eq, mxOf_eq]
      simp only [List.getElem?_set]
      by_cases h : i = c.nr - 1
      · rw [if_pos h, if_pos (by omega)]
        rw [← h, hi.2]; simp [hyn]
      · rw [if_neg h]
    refine ⟨⟨⟨hweq, by simpa using hlen, hnr⟩, h0, by rw [hmx]; exact hn, by intro _; rw [hmx]; exact Nat.le_refl _, ?_⟩, hmx⟩
    intro x hx
    rw [live_mem] at hx
    obtain ⟨j, hj, hx⟩ := hx
    simp only [List.getElem?_set] at hx
    by_cases hij : i = j
    · rw [if_pos hij, if_pos (by omega)] at hx
      injection hx with hx; subst hx
      right; right
      exact ⟨y, by rw [live_mem]; exact ⟨i, hi.1, hi.2⟩, hyn, rfl, by show (c.arr.getD i default).count + 1 = y.count + 1; rw [hgd]⟩
    · rw [if_neg hij] at hx
      left; rw [live_mem]; exact ⟨j, hj, hx⟩
  | none =>
    simp only []
    cases hp : insPos c.live n (c.nr - 1) with
    | none =>
      exact ⟨⟨⟨hweq, hlen, hnr⟩, h0, hn, fun _ => Nat.le_refl _, fun x hx => Or.inl hx⟩, rfl⟩
    | some i =>
      obtain ⟨hi1, hi2, hi3⟩ := insPos_some _ _ _ _ hp
      rw [hll] at hi3
      simp only []
      by_cases hw : c.nr < c.w
      · rw [if_pos hw, if_pos (by omega)]
        show CtrAdded c { c with arr := (copyWithin c.arr (i+1) i c.nr).set i ⟨n, 1⟩, nr := c.nr + 1 } w n ∧ _
        have hidx : ∀ j, j ≤ c.nr → j ≠ i → ∃ j', j' < c.nr ∧ (j = c.nr → j' = c.nr - 1) ∧
            (copyWithin c.arr (i+1) i c.nr)[j]? = c.arr[j']? := by
          intro j hj hji
          rw [copyWithin_getElem? _ _ _ _ _ (by omega)]
          by_cases h : i + 1 ≤ j
          · rw [if_pos (by omega)]
            exact ⟨i + (j - (i + 1)), by omega, by omega, rfl⟩
          · rw [if_neg (by omega)]
            exact ⟨j, by omega, by omega, rfl⟩
        have hmx : mxOf { c with arr := (copyWithin c.arr (i+1) i c.nr).set i ⟨n, 1⟩, nr := c.nr + 1 } = mxOf c := by
          rw [mxOf_eq, mxOf_eq]
          simp only [List.getElem?_set, Nat.add_sub_cancel]
          rw [if_neg (by omega)]
          obtain ⟨j', _, h2, h3⟩ := hidx c.nr (Nat.le_refl _) (by omega)
          rw [h3, h2 rfl]
        refine ⟨⟨⟨hweq, ?_, by simp; omega⟩, by simp, by rw [hmx]; exact hn, by intro _; rw [hmx]; exact Nat.le_refl _, ?_⟩, hmx⟩
        · simp only [List.length_set]; rw [copyWithin_length _ _ _ _ (by omega)]; exact hlen
        · intro x hx
          rw [live_mem] at hx
          obtain ⟨j, hj, hx⟩ := hx
          simp only [List.getElem?_set] at hx
          by_cases hij : i = j
          · rw [if_pos hij, if_pos (by rw [copyWithin_length _ _ _ _ (by omega)]; omega)] at hx
            injection hx with hx; subst hx
            right; left; simp
          · rw [if_neg hij] at hx
            obtain ⟨j', h1, _, h3⟩ := hidx j (by simp at hj; omega) (by omega)
            rw [h3] at hx
            left; rw [live_mem]; exact ⟨j', h1, hx⟩
      · rw [if_neg hw, if_pos (by omega)]
        show CtrAdded c { c with arr := (copyWithin c.arr 0 1 i).set (i-1) ⟨n, 1⟩ } w n ∧ _
        have hidx : ∀ j, j < c.nr → j ≠ i - 1 → ∃ j', j' < c.nr ∧ (j = c.nr - 1 → j' = c.nr - 1) ∧
            (copyWithin c.arr 0 1 i)[j]? = c.arr[j']? := by
          intro j hj hji
          rw [copyWithin_getElem? _ _ _ _ _ (by omega)]
          by_cases h : j < i - 1
          · rw [if_pos (by omega)]
            exact ⟨1 + (j - 0), by omega, by omega, rfl⟩
          · rw [if_neg (by omega)]
            exact ⟨j, by omega, by omega, rfl⟩
        have hmx : mxOf { c with arr := (copyWithin c.arr 0 1 i).set (i-1) ⟨n, 1⟩ } = mxOf c := by
          rw [mxOf_eq, mxOf_eq]
          simp only [List.getElem?_set]
          rw [if_neg (by omega)]
          obtain ⟨j', _, h2, h3⟩ := hidx (c.nr - 1) (by omega) (by omega)
          rw [h3, h2 rfl]
        refine ⟨⟨⟨hweq, ?_, hnr⟩, h0, by rw [hmx]; exact hn, by intro _; rw [hmx]; exact Nat.le_refl _, ?_⟩, hmx⟩
        · simp only [List.length_set]; rw [copyWithin_length _ _ _ _ (by omega)]; exact hlen
        · intro x hx
          rw [live_mem] at hx
          obtain ⟨j, hj, hx⟩ := hx
          simp only [List.getElem?_set] at hx
          by_cases hij : i - 1 = j
          · rw [if_pos hij, if_pos (by rw [copyWithin_length _ _ _ _ (by omega)]; omega)] at hx
            injection hx with hx; subst hx
            right; left; simp
          · rw [if_neg hij] at hx
            obtain ⟨j', h1, _, h3⟩ := hidx j hj (by omega)
            rw [h3] at hx
            left; rw [live_mem]; exact ⟨j', h1, hx⟩

/-- **`seqCounters.add` never indexes out of range** on a well-formed counter array, and every live counter afterwards
is an old one, a fresh one for `n` with count 1, or the old counter of `n` incremented. -/
theorem ctr_add_spec (c : Ctrs) (w n : Nat) (hc : CW c w) (hw0 : 0 < w) :
    match c.add n with
    | none => False
    | some c' => CtrAdded c c' w n := by
  have hc' := hc
  obtain ⟨hweq, hlen, hnr⟩ := hc
  unfold Ctrs.add
  by_cases h0 : c.nr = 0
  · rw [if_pos h0, if_pos (by omega)]
    show CtrAdded c { c with arr := c.arr.set 0 ⟨n, 1⟩, nr := 1 } w n
    refine ⟨⟨hweq, by simpa using hlen, by simp; omega⟩, by simp, ?_, fun h => absurd h0 h, ?_⟩
    · have hp : 0 < c.arr.length := by omega
      rw [mxOf_eq]; simp [List.getElem?_set, hp]
    · intro x hx
      rw [live_mem] at hx
      obtain ⟨j, hj, hx⟩ := hx
      have : j = 0 := by simp at hj; omega
      subst this
      have hp : 0 < c.arr.length := by omega
      simp only [List.getElem?_set, hp, if_true] at hx
      injection hx with hx; subst hx
      right; left; simp
  · rw [if_neg h0, if_neg (by omega)]
    simp only []
    by_cases h1 : n < c.minFromMax (c.arr.getD (c.nr - 1) default).seqNr
    · rw [if_pos h1]
      refine ⟨hc', h0, ?_, fun _ => Nat.le_refl _, fun x hx => Or.inl hx⟩
      unfold Ctrs.minFromMax at h1
      unfold mxOf
      split at h1 <;> omega
    · rw [if_neg h1]
      by_cases h2 : n > (c.arr.getD (c.nr - 1) default).seqNr
      · rw [if_pos h2]
        exact ctr_addAbove_spec c w n hc' h0 h2
      · rw [if_neg h2]
        have := ctr_addInside_spec c w n hc' h0 (by unfold mxOf; omega)
        cases h : c.addInside n with
        | none => rw [h] at this; exact this
        | some c' => rw [h] at this; exact this.1

/-! ## the counters stay sorted, and fresh (all inside the window) -/

/-- live counters strictly increasing (index form) -/
def CSorted (c : Ctrs) : Prop :=
  ∀ j1 j2 x1 x2, j1 < j2 → j2 < c.nr → c.arr[j1]? = some x1 → c.arr[j2]? = some x2 → x1.seqNr < x2.seqNr

/-- every live counter is inside the window below the newest one -/
def Fresh (c : Ctrs) (w : Nat) : Prop := ∀ x ∈ c.live, mxOf c < x.seqNr + w

theorem csorted_le_mx (c : Ctrs) (hs : CSorted c) (hle : c.nr ≤ c.arr.length) : ∀ x ∈ c.live, x.seqNr ≤ mxOf c := by
  intro x hx
  rw [live_mem] at hx
  obtain ⟨j, hj, hx⟩ := hx
  have hlast : ∃ y, c.arr[c.nr - 1]? = some y := ⟨c.arr[c.nr - 1]'(by omega), List.getElem?_eq_getElem (by omega)⟩
  obtain ⟨y, hy⟩ := hlast
  rw [mxOf_eq, hy]
  by_cases h : j = c.nr - 1
  · subst h; rw [hy] at hx; injection hx with hx; subst hx; exact Nat.le_refl _
  · exact Nat.le_of_lt (hs j (c.nr - 1) x y (by omega) (by omega) hx hy)

theorem filter_take_le {α} (l : List α) (P : α → Bool) (m : Nat) : ((l.take m).filter P).length ≤ (l.filter P).length := by
  conv => rhs; rw [← List.take_append_drop m l]
  rw [List.filter_append, List.length_append]; omega

/-- in a sorted array the counters below a threshold form a prefix: one at index `m` means at least `m+1` of them -/
theorem count_prefix (c : Ctrs) (hs : CSorted c) (m t : Nat) (x : Ctr) (hm : m < c.nr) (hx : c.arr[m]? = some x)
    (hxt : x.seqNr < t) : m + 1 ≤ countBelow c.live t := by
  unfold countBelow Ctrs.live
  have h1 := filter_take_le (c.arr.take c.nr) (fun y => decide (y.seqNr < t)) (m + 1)
  have h2 : ((c.arr.take c.nr).take (m + 1)).filter (fun y => decide (y.seqNr < t)) = (c.arr.take c.nr).take (m + 1) := by
    rw [List.filter_eq_self]
    intro y hy
    rw [List.take_take, mem_take_iff] at hy
    obtain ⟨j, hj, hy⟩ := hy
    have hj' : j < m + 1 := by omega
    by_cases hjm : j = m
    · subst hjm; rw [hx] at hy; injection hy with hy; subst hy; simpa using hxt
    · have := hs j m y x (by omega) hm hy hx; simp; omega
  rw [h2] at h1
  have h3 : ((c.arr.take c.nr).take (m + 1)).length = m + 1 := by
    have : m < c.arr.length := by
      rcases Nat.lt_or_ge m c.arr.length with h | h
      · exact h
      · rw [List.getElem?_eq_none h] at hx; cases hx
    simp only [List.length_take]; omega
  omega

theorem findIdx_none (l : List Ctr) (n : Nat) (h : findIdx l n = none) : ∀ x ∈ l, x.seqNr ≠ n := by
  induction l with
  | nil => simp
  | cons c t ih =>
    unfold findIdx at h
    by_cases hc : c.seqNr = n
    · simp [hc] at h
    · simp only [hc, ↓reduceIte, Option.map_eq_none_iff] at h
      intro x hx
      rcases List.mem_cons.mp hx with rfl | hx'
      · exact hc
      · exact ih h x hx'

theorem insPos_max (l : List Ctr) (n k i : Nat) (h : insPos l n k = some i) :
    (l.getD (i - 1) default).seqNr < n ∧
    ∀ i', i < i' → i' ≤ k → i' < l.length → n ≤ (l.getD (i' - 1) default).seqNr := by
  induction k with
  | zero => simp [insPos] at h
  | succ k ih =>
    unfold insPos at h
    by_cases hc : k + 1 < l.length ∧ (l.getD k default).seqNr < n
    · rw [if_pos hc] at h; injection h with h; subst h
      exact ⟨by simpa using hc.2, fun i' h1 h2 _ => by omega⟩
    · rw [if_neg hc] at h
      obtain ⟨h1, h2⟩ := ih h
      refine ⟨h1, ?_⟩
      intro i' hi1 hi2 hi3
      by_cases he : i' = k + 1
      · subst he
        simp only [Nat.add_sub_cancel]
        have : ¬ (l.getD k default).seqNr < n := fun hh => hc ⟨hi3, hh⟩
        omega
      · exact h2 i' hi1 (by omega) hi3

theorem live_getD (c : Ctrs) (j : Nat) (hj : j < c.nr) : c.live.getD j default = c.arr.getD j default := by
  simp only [List.getD_eq_getElem?_getD, Ctrs.live, List.getElem?_take, hj, if_true]

/-- explicit result of the `seqNr > max` branch -/
theorem addAbove_shape (c : Ctrs) (w n : Nat) (hc : CW c w) (h0 : c.nr ≠ 0) :
    ∃ (drop : Nat) (arr1 : List Ctr), c.addAbove n = some { c with arr := arr1.set (c.nr - drop) ⟨n, 1⟩, nr := c.nr - drop + 1 } ∧
      drop ≤ c.nr ∧ countBelow c.live (c.minFromMax n) ≤ drop ∧ c.nr - drop < arr1.length ∧
      ∀ j, j < c.nr - drop → arr1[j]? = c.arr[drop + j]? := by
  obtain ⟨hweq, hlen, hnr⟩ := hc
  unfold Ctrs.addAbove
  simp only []
  generalize hcb : countBelow c.live (c.minFromMax n) = cb
  have hcble : cb ≤ c.nr := by
    rw [← hcb]; unfold countBelow
    have := List.length_filter_le (fun x : Ctr => decide (x.seqNr < c.minFromMax n)) c.live
    have h2 : c.live.length ≤ c.nr := by simp [Ctrs.live]; omega
    omega
  generalize hdr : (if cb = 0 ∧ c.nr = c.w then 1 else cb) = drop
  have hdle : drop ≤ c.nr := by
    rw [← hdr]; split <;> omega
  have hcbd : cb ≤ drop := by
    rw [← hdr]; split <;> omega
  have hd0 : drop = 0 → c.nr < w := by
    intro hz; rw [hz] at hdr
    split at hdr
    · omega
    · rename_i hh; omega
  rw [if_neg (by omega)]
  generalize harr : (if drop > 0 then copyWithin c.arr 0 drop c.arr.length else c.arr) = arr1
  have hl1 : arr1.length = w := by
    rw [← harr]; split
    · rw [copyWithin_length _ _ _ _ (by omega)]; exact hlen
    · exact hlen
  have hidx : ∀ j, j < c.nr - drop → arr1[j]? = c.arr[drop + j]? := by
    intro j hj
    rw [← harr]; split
    · rw [copyWithin_getElem? _ _ _ _ _ (by omega), if_pos (by omega)]; simp
    · have : drop = 0 := by omega
      simp [this]
  have hnr1 : c.nr - drop < arr1.length := by
    rw [hl1]; by_cases hz : drop = 0
    · have := hd0 hz; omega
    · omega
  rw [if_pos hnr1]
  exact ⟨drop, arr1, rfl, hdle, hcbd, hnr1, hidx⟩

theorem ctr_addAbove_sorted (c : Ctrs) (w n : Nat) (hc : CW c w) (hw0 : 0 < w) (h0 : c.nr ≠ 0) (hn : mxOf c < n)
    (hs : CSorted c) : ∀ c', c.addAbove n = some c' → CSorted c' ∧ Fresh c' w := by
  intro c' hc'
  obtain ⟨drop, arr1, hsh, hdle, hcbd, hnr1, hidx⟩ := addAbove_shape c w n hc h0
  rw [hsh] at hc'; injection hc' with hc'; subst hc'
  have hmax := csorted_le_mx c hs (by rw [hc.len]; exact hc.nr)
  constructor
  · intro j1 j2 x1 x2 h12 h2 e1 e2
    simp only [List.getElem?_set] at e1 e2
    have h2' : j2 < c.nr - drop + 1 := h2
    rw [if_neg (by omega)] at e1
    rw [hidx j1 (by omega)] at e1
    by_cases hj2 : c.nr - drop = j2
    · rw [if_pos hj2, if_pos hnr1] at e2
      injection e2 with e2; subst e2
      have := hmax x1 (by rw [live_mem]; exact ⟨drop + j1, by omega, e1⟩)
      show x1.seqNr < n; omega
    · rw [if_neg hj2, hidx j2 (by omega)] at e2
      exact hs (drop + j1) (drop + j2) x1 x2 (by omega) (by omega) e1 e2
  · intro x hx
    have hmxn : mxOf { c with arr := arr1.set (c.nr - drop) ⟨n, 1⟩, nr := c.nr - drop + 1 } = n := by
      rw [mxOf_eq]; simp [List.getElem?_set, hnr1]
    rw [hmxn]
    rw [live_mem] at hx
    obtain ⟨j, hj, hx⟩ := hx
    simp only [List.getElem?_set] at hx
    have hj' : j < c.nr - drop + 1 := hj
    by_cases hjn : c.nr - drop = j
    · rw [if_pos hjn, if_pos hnr1] at hx
      injection hx with hx; subst hx; show n < n + w; omega
    · rw [if_neg hjn, hidx j (by omega)] at hx
      -- not below the new minimum: otherwise more than `drop` counters would be below it
      by_cases hlt : n < x.seqNr + w
      · exact hlt
      · exfalso
        have hb : x.seqNr < c.minFromMax n := by
          unfold Ctrs.minFromMax; rw [hc.weq]; split <;> omega
        have := count_prefix c hs (drop + j) _ x (by omega) hx hb
        omega

theorem ctr_addInside_sorted (c : Ctrs) (w n : Nat) (hc : CW c w) (hw0 : 0 < w) (h0 : c.nr ≠ 0) (hn : n ≤ mxOf c)
    (hmn : ¬ n < c.minFromMax (mxOf c)) (hs : CSorted c) :
    ∀ c', c.addInside n = some c' → CSorted c' ∧ (Fresh c w → Fresh c' w) := by
  intro c' hc'
  have hspec := ctr_addInside_spec c w n hc h0 hn
  rw [hc'] at hspec
  obtain ⟨_, hmx⟩ := hspec
  obtain ⟨hweq, hlen, hnr⟩ := hc
  have hll : c.live.length = c.nr := by simp only [Ctrs.live, List.length_take]; omega
  have hnew : mxOf c < n + w := by
    unfold Ctrs.minFromMax at hmn; rw [hweq] at hmn; split at hmn <;> omega
  unfold Ctrs.addInside at hc'
  cases hfi : findIdx c.live n with
  | some i =>
    rw [hfi] at hc'
    simp only [Option.some.injEq] at hc'
    obtain ⟨y, hy, hyn⟩ := findIdx_some _ _ _ hfi
    have hi : i < c.nr ∧ c.arr[i]? = some y := by
      unfold Ctrs.live at hy
      rw [List.getElem?_take] at hy
      by_cases h : i < c.nr
      · rw [if_pos h] at hy; exact ⟨h, hy⟩
      · rw [if_neg h] at hy; cases hy
    have hsame : ∀ (j : Nat) (z : Ctr), c'.arr[j]? = some z → ∃ z0 : Ctr, c.arr[j]? = some z0 ∧ z0.seqNr = z.seqNr := by
      intro j z hz
      rw [← hc'] at hz
      simp only [List.getElem?_set] at hz
      by_cases hij : i = j
      · rw [if_pos hij, if_pos (by omega)] at hz
        injection hz with hz; subst hz; subst hij
        exact ⟨y, hi.2, hyn⟩
      · rw [if_neg hij] at hz; exact ⟨z, hz, rfl⟩
    have hnr' : c'.nr = c.nr := by rw [← hc']
    constructor
    · intro j1 j2 x1 x2 h12 h2 e1 e2
      obtain ⟨z1, hz1, hs1⟩ := hsame j1 x1 e1
      obtain ⟨z2, hz2, hs2⟩ := hsame j2 x2 e2
      have := hs j1 j2 z1 z2 h12 (by omega) hz1 hz2
      omega
    · intro hf x hx
      rw [live_mem] at hx
      obtain ⟨j, hj, hx⟩ := hx
      obtain ⟨z0, hz0, hs0⟩ := hsame j x hx
      have := hf z0 (by rw [live_mem]; exact ⟨j, by omega, hz0⟩)
      rw [hmx]; omega
  | none =>
    rw [hfi] at hc'
    simp only [] at hc'
    have hne := findIdx_none _ _ hfi
    cases hp : insPos c.live n (c.nr - 1) with
    | none =>
      rw [hp] at hc'; simp only [Option.some.injEq] at hc'; subst hc'
      exact ⟨hs, fun hf => hf⟩
    | some i =>
      rw [hp] at hc'
      simp only [] at hc'
      obtain ⟨hi1, hi2, hi3⟩ := insPos_some _ _ _ _ hp
      obtain ⟨hlo, hhi⟩ := insPos_max _ _ _ _ hp
      rw [hll] at hi3
      -- the neighbours of the insertion point
      have hbelow : ∀ (j : Nat) (z : Ctr), j ≤ i - 1 → c.arr[j]? = some z → z.seqNr < n := by
        intro j z hj hz
        have hy : c.arr[i - 1]? = some (c.arr[i - 1]'(by omega)) := List.getElem?_eq_getElem (by omega)
        have hyn : (c.arr[i - 1]'(by omega)).seqNr < n := by
          rw [live_getD c (i - 1) (by omega)] at hlo
          simpa [List.getD_eq_getElem?_getD, hy] using hlo
        by_cases hji : j = i - 1
        · subst hji; rw [hy] at hz; injection hz with hz; subst hz; exact hyn
        · have := hs j (i - 1) z _ (by omega) (by omega) hz hy; omega
      have habove : ∀ (j : Nat) (z : Ctr), i ≤ j → j < c.nr → c.arr[j]? = some z → n < z.seqNr := by
        intro j z hj hjn hz
        have hy : c.arr[i]? = some (c.arr[i]'(by omega)) := List.getElem?_eq_getElem (by omega)
        have hge : n ≤ (c.arr[i]'(by omega)).seqNr := by
          by_cases hlast : i = c.nr - 1
          · have : mxOf c = (c.arr[i]'(by omega)).seqNr := by
              rw [mxOf_eq, ← hlast, hy]; rfl
            omega
          · have := hhi (i + 1) (by omega) (by omega) (by omega)
            rw [Nat.add_sub_cancel, live_getD c i (by omega)] at this
            simpa [List.getD_eq_getElem?_getD, hy] using this
        have hneq := hne (c.arr[i]'(by omega)) (by rw [live_mem]; exact ⟨i, by omega, hy⟩)
        by_cases hji : j = i
        · subst hji; rw [hy] at hz; injection hz with hz; subst hz; omega
        · have := hs i j _ z (by omega) hjn hy hz; omega
      by_cases hw : c.nr < c.w
      · rw [if_pos hw, if_pos (by omega)] at hc'
        simp only [Option.some.injEq] at hc'
        have hnr' : c'.nr = c.nr + 1 := by rw [← hc']
        have hmap : ∀ (j : Nat) (z : Ctr), j ≤ c.nr → c'.arr[j]? = some z →
            (j < i ∧ c.arr[j]? = some z) ∨ (j = i ∧ z.seqNr = n) ∨ (i < j ∧ c.arr[j - 1]? = some z) := by
          intro j z hj hz
          rw [← hc'] at hz
          simp only [List.getElem?_set] at hz
          by_cases hij : i = j
          · rw [if_pos hij, if_pos (by rw [copyWithin_length _ _ _ _ (by omega)]; omega)] at hz
            injection hz with hz; subst hz; right; left; exact ⟨hij.symm, rfl⟩
          · rw [if_neg hij, copyWithin_getElem? _ _ _ _ _ (by omega)] at hz
            by_cases h : i + 1 ≤ j
            · rw [if_pos (by omega)] at hz
              right; right; refine ⟨by omega, ?_⟩
              have : i + (j - (i + 1)) = j - 1 := by omega
              rw [this] at hz; exact hz
            · rw [if_neg (by omega)] at hz
              left; exact ⟨by omega, hz⟩
        constructor
        · intro j1 j2 x1 x2 h12 h2 e1 e2
          rw [hnr'] at h2
          rcases hmap j1 x1 (by omega) e1 with ⟨a1, b1⟩ | ⟨a1, b1⟩ | ⟨a1, b1⟩ <;>
          rcases hmap j2 x2 (by omega) e2 with ⟨a2, b2⟩ | ⟨a2, b2⟩ | ⟨a2, b2⟩
          · exact hs j1 j2 x1 x2 h12 (by omega) b1 b2
          · rw [b2]; exact hbelow j1 x1 (by omega) b1
          · exact hs j1 (j2 - 1) x1 x2 (by omega) (by omega) b1 b2
          · omega
          · omega
          · rw [b1]; exact habove (j2 - 1) x2 (by omega) (by omega) b2
          · omega
          · omega
          · exact hs (j1 - 1) (j2 - 1) x1 x2 (by omega) (by omega) b1 b2
        · intro hf x hx
          rw [live_mem] at hx
          obtain ⟨j, hj, hx⟩ := hx
          rw [hnr'] at hj
          rw [hmx]
          rcases hmap j x (by omega) hx with ⟨a, b⟩ | ⟨a, b⟩ | ⟨a, b⟩
          · exact hf x (by rw [live_mem]; exact ⟨j, by omega, b⟩)
          · rw [b]; exact hnew
          · exact hf x (by rw [live_mem]; exact ⟨j - 1, by omega, b⟩)
      · rw [if_neg hw, if_pos (by omega)] at hc'
        simp only [Option.some.injEq] at hc'
        have hnr' : c'.nr = c.nr := by rw [← hc']
        have hmap : ∀ (j : Nat) (z : Ctr), j < c.nr → c'.arr[j]? = some z →
            (j < i - 1 ∧ c.arr[j + 1]? = some z) ∨ (j = i - 1 ∧ z.seqNr = n) ∨ (i ≤ j ∧ c.arr[j]? = some z) := by
          intro j z hj hz
          rw [← hc'] at hz
          simp only [List.getElem?_set] at hz
          by_cases hij : i - 1 = j
          · rw [if_pos hij, if_pos (by rw [copyWithin_length _ _ _ _ (by omega)]; omega)] at hz
            injection hz with hz; subst hz; right; left; exact ⟨hij.symm, rfl⟩
          · rw [if_neg hij, copyWithin_getElem? _ _ _ _ _ (by omega)] at hz
            by_cases h : j < i - 1
            · rw [if_pos (by omega)] at hz
              left; refine ⟨h, ?_⟩
              have : 1 + (j - 0) = j + 1 := by omega
              rw [this] at hz; exact hz
            · rw [if_neg (by omega)] at hz
              right; right; exact ⟨by omega, hz⟩
        constructor
        · intro j1 j2 x1 x2 h12 h2 e1 e2
          rw [hnr'] at h2
          rcases hmap j1 x1 (by omega) e1 with ⟨a1, b1⟩ | ⟨a1, b1⟩ | ⟨a1, b1⟩ <;>
          rcases hmap j2 x2 (by omega) e2 with ⟨a2, b2⟩ | ⟨a2, b2⟩ | ⟨a2, b2⟩
          · exact hs (j1 + 1) (j2 + 1) x1 x2 (by omega) (by omega) b1 b2
          · rw [b2]; exact hbelow (j1 + 1) x1 (by omega) b1
          · exact hs (j1 + 1) j2 x1 x2 (by omega) (by omega) b1 b2
          · omega
          · omega
          · rw [b1]; exact habove j2 x2 (by omega) (by omega) b2
          · omega
          · omega
          · exact hs j1 j2 x1 x2 h12 (by omega) b1 b2
        · intro hf x hx
          rw [live_mem] at hx
          obtain ⟨j, hj, hx⟩ := hx
          rw [hnr'] at hj
          rw [hmx]
          rcases hmap j x hj hx with ⟨a, b⟩ | ⟨a, b⟩ | ⟨a, b⟩
          · exact hf x (by rw [live_mem]; exact ⟨j + 1, by omega, b⟩)
          · rw [b]; exact hnew
          · exact hf x (by rw [live_mem]; exact ⟨j, by omega, b⟩)

/-- **The counters stay strictly increasing**; they stay inside the window if they were, and an add above the newest
number brings them all back inside it. -/
theorem ctr_add_sorted (c : Ctrs) (w n : Nat) (hc : CW c w) (hw0 : 0 < w) (hs : CSorted c) :
    ∀ c', c.add n = some c' → CSorted c' ∧ ((Fresh c w ∨ c.nr = 0 ∨ mxOf c < n) → Fresh c' w) := by
  intro c' hc'
  have hcw := hc
  obtain ⟨hweq, hlen, hnr⟩ := hc
  unfold Ctrs.add at hc'
  by_cases h0 : c.nr = 0
  · rw [if_pos h0, if_pos (by omega)] at hc'
    simp only [Option.some.injEq] at hc'
    have hp : 0 < c.arr.length := by omega
    constructor
    · intro j1 j2 x1 x2 h12 h2 _ _
      rw [← hc'] at h2; simp at h2; omega
    · intro _ x hx
      rw [live_mem] at hx
      obtain ⟨j, hj, hx⟩ := hx
      rw [← hc'] at hj hx
      have : j = 0 := by simp at hj; omega
      subst this
      simp only [List.getElem?_set, hp, if_true] at hx
      injection hx with hx; subst hx
      have : mxOf c' = n := by rw [← hc', mxOf_eq]; simp [List.getElem?_set, hp]
      rw [this]; show n < n + w; omega
  · rw [if_neg h0, if_neg (by omega)] at hc'
    simp only [] at hc'
    by_cases h1 : n < c.minFromMax (c.arr.getD (c.nr - 1) default).seqNr
    · rw [if_pos h1] at hc'
      simp only [Option.some.injEq] at hc'; subst hc'
      refine ⟨hs, ?_⟩
      rintro (hf | hz | hlt)
      · exact hf
      · exact absurd hz h0
      · exfalso; unfold Ctrs.minFromMax at h1; unfold mxOf at hlt; split at h1 <;> omega
    · rw [if_neg h1] at hc'
      by_cases h2 : n > (c.arr.getD (c.nr - 1) default).seqNr
      · rw [if_pos h2] at hc'
        have := ctr_addAbove_sorted c w n hcw hw0 h0 h2 hs c' hc'
        exact ⟨this.1, fun _ => this.2⟩
      · rw [if_neg h2] at hc'
        have := ctr_addInside_sorted c w n hcw hw0 h0 (by unfold mxOf; omega) h1 hs c' hc'
        refine ⟨this.1, ?_⟩
        rintro (hf | hz | hlt)
        · exact this.2 hf
        · exact absurd hz h0
        · exfalso; unfold mxOf at hlt; omega

/-! ## the generator -/

def holdsB (b : Buf) (k : Nat) : Bool := b.live.any (·.seqNr = k)

theorem getItem_isSome (b : Buf) (k : Nat) : (b.getItem k).isSome = holdsB b k := by
  unfold Buf.getItem holdsB
  rw [Bool.eq_iff_iff, List.find?_isSome, List.any_eq_true]
  simp

/-- number of track buffers holding number `k` -/
def holders (bufs : List (String × Buf)) (k : Nat) : Nat := (bufs.filter (fun p => holdsB p.2 k)).length

structure GInv (g : Gen) : Prop where
  wpos : 0 < g.w
  wlt : g.w < U32
  cw : CW g.ctrs g.w
  nodup : (g.bufs.map (·.1)).Nodup
  bw : ∀ p ∈ g.bufs, BW p.2 g.w
  win : ∀ c ∈ g.ctrs.live, mxOf g.ctrs < c.seqNr + g.w → c.count ≤ holders g.bufs c.seqNr
  tr : g.started = true → g.tracks = g.bufs.length

theorem filter_map_ge {α} (l : List α) (f : α → α) (P : α → Bool) (h : ∀ p ∈ l, P p = true → P (f p) = true) :
    (l.filter P).length ≤ ((l.map f).filter P).length := by
  induction l with
  | nil => simp
  | cons a t ih =>
    have iht := ih (fun p hp => h p (by simp [hp]))
    simp only [List.map_cons, List.filter_cons]
    by_cases ha : P a = true
    · rw [if_pos ha, if_pos (h a (by simp) ha)]; simp only [List.length_cons]; omega
    · rw [if_neg ha]; split
      · simp only [List.length_cons]; omega
      · exact iht

theorem filter_map_succ {α} (l : List α) (f : α → α) (P : α → Bool) (h : ∀ p ∈ l, P p = true → P (f p) = true)
    (hex : ∃ p ∈ l, P p = false ∧ P (f p) = true) :
    (l.filter P).length + 1 ≤ ((l.map f).filter P).length := by
  induction l with
  | nil => obtain ⟨p, hp, _⟩ := hex; simp at hp
  | cons a t ih =>
    have hge := filter_map_ge t f P (fun p hp => h p (by simp [hp]))
    simp only [List.map_cons, List.filter_cons]
    obtain ⟨p, hp, hp1, hp2⟩ := hex
    rcases List.mem_cons.mp hp with rfl | hpt
    · rw [if_neg (by simp [hp1]), if_pos hp2]; simp only [List.length_cons]; omega
    · have iht := ih (fun p hp => h p (by simp [hp])) ⟨p, hpt, hp1, hp2⟩
      by_cases ha : P a = true
      · rw [if_pos ha, if_pos (h a (by simp) ha)]; simp only [List.length_cons]; omega
      · rw [if_neg ha]; split
        · simp only [List.length_cons]; omega
        · exact iht

theorem lookupBuf_none (bufs : List (String × Buf)) (name : String) :
    lookupBuf bufs name = none ↔ bufs.any (·.1 = name) = false := by
  unfold lookupBuf
  rw [Option.map_eq_none_iff, List.find?_eq_none]
  simp

theorem lookupBuf_some_mem (bufs : List (String × Buf)) (name : String) (b : Buf) (h : lookupBuf bufs name = some b) :
    (name, b) ∈ bufs := by
  unfold lookupBuf at h
  rw [Option.map_eq_some_iff] at h
  obtain ⟨p, hp, rfl⟩ := h
  have h1 := List.mem_of_find?_eq_some hp
  have h2 := List.find?_some hp
  simp at h2; subst h2; exact h1

/-- with distinct track names the buffer found for a name is the only one of that name -/
theorem lookupBuf_unique (bufs : List (String × Buf)) (name : String) (b : Buf)
    (hnd : (bufs.map (·.1)).Nodup) (h : lookupBuf bufs name = some b) : ∀ p ∈ bufs, p.1 = name → p.2 = b := by
  induction bufs with
  | nil => simp [lookupBuf] at h
  | cons q t ih =>
    simp only [List.map_cons, List.nodup_cons] at hnd
    intro p hp hpn
    by_cases hq : q.1 = name
    · have hb : q.2 = b := by simpa [lookupBuf, List.find?_cons, hq] using h
      rcases List.mem_cons.mp hp with rfl | hpt
      · exact hb
      · exfalso; apply hnd.1; rw [hq, ← hpn]; exact List.mem_map_of_mem hpt
    · have h' : lookupBuf t name = some b := by simpa [lookupBuf, List.find?_cons, hq] using h
      rcases List.mem_cons.mp hp with rfl | hpt
      · exact absurd hpn hq
      · exact ih hnd.2 h' p hpt hpn

theorem holders_pos (bufs : List (String × Buf)) (k : Nat) (p : String × Buf) (hp : p ∈ bufs) (h : holdsB p.2 k = true) :
    1 ≤ holders bufs k := by
  unfold holders
  have : p ∈ bufs.filter (fun p => holdsB p.2 k) := by simp [List.mem_filter, hp, h]
  exact List.length_pos_of_mem this

theorem mem_setBuf (bufs : List (String × Buf)) (name : String) (b : Buf) : (name, b) ∈ setBuf bufs name b := by
  unfold setBuf
  split
  · rename_i h
    rw [List.any_eq_true] at h
    obtain ⟨p, hp, hn⟩ := h
    rw [List.mem_map]
    exact ⟨p, hp, by simp at hn; simp [hn]⟩
  · simp

theorem setBuf_names (bufs : List (String × Buf)) (name : String) (b : Buf) :
    (setBuf bufs name b).map (·.1) = if bufs.any (·.1 = name) then bufs.map (·.1) else bufs.map (·.1) ++ [name] := by
  unfold setBuf
  split
  · rw [List.map_map]
    apply List.map_congr_left
    intro p _
    simp only [Function.comp]
    split
    · rename_i h; exact h.symm
    · rfl
  · simp

theorem setBuf_nodup (bufs : List (String × Buf)) (name : String) (b : Buf) (h : (bufs.map (·.1)).Nodup) :
    ((setBuf bufs name b).map (·.1)).Nodup := by
  rw [setBuf_names]
  split
  · exact h
  · rename_i hn
    rw [List.nodup_append]
    refine ⟨h, by simp, ?_⟩
    intro a ha b' hb'
    simp at hb'; subst hb'
    intro hab; subst hab
    apply hn
    rw [List.any_eq_true]
    rw [List.mem_map] at ha
    obtain ⟨p, hp, hpn⟩ := ha
    exact ⟨p, hp, by simp [hpn]⟩

theorem setBuf_length (bufs : List (String × Buf)) (name : String) (b : Buf) :
    (setBuf bufs name b).length = if bufs.any (·.1 = name) then bufs.length else bufs.length + 1 := by
  unfold setBuf; split <;> simp

theorem mem_setBuf_cases (bufs : List (String × Buf)) (name : String) (b : Buf) (p : String × Buf)
    (hp : p ∈ setBuf bufs name b) : p = (name, b) ∨ p ∈ bufs := by
  unfold setBuf at hp
  split at hp
  · rw [List.mem_map] at hp
    obtain ⟨q, hq, rfl⟩ := hp
    split
    · left; rfl
    · right; exact hq
  · rw [List.mem_append] at hp
    rcases hp with h | h
    · right; exact h
    · left; simpa using h

theorem holders_setBuf_ge (bufs : List (String × Buf)) (name : String) (b : Buf) (k : Nat)
    (h : ∀ p ∈ bufs, p.1 = name → holdsB p.2 k = true → holdsB b k = true) :
    holders bufs k ≤ holders (setBuf bufs name b) k := by
  unfold holders setBuf
  split
  · apply filter_map_ge
    intro p hp hh
    split
    · rename_i hn; exact h p hp hn hh
    · exact hh
  · rw [List.filter_append, List.length_append]; omega

theorem holders_setBuf_succ (bufs : List (String × Buf)) (name : String) (b : Buf) (k : Nat)
    (h : ∀ p ∈ bufs, p.1 = name → holdsB p.2 k = false) (hb : holdsB b k = true) :
    holders bufs k + 1 ≤ holders (setBuf bufs name b) k := by
  unfold holders setBuf
  split
  · rename_i hany
    rw [List.any_eq_true] at hany
    obtain ⟨q, hq, hqn⟩ := hany
    have hqn' : q.1 = name := by simpa using hqn
    apply filter_map_succ
    · intro p hp hh
      split
      · rename_i hn; rw [h p hp hn] at hh; cases hh
      · exact hh
    · exact ⟨q, hq, h q hq hqn', by rw [if_pos hqn']; exact hb⟩
  · rw [List.filter_append, List.length_append]
    simp [hb]

theorem bw_new (w : Nat) : BW (Buf.new w) w :=
  ⟨rfl, by simp [Buf.new], by simp [Buf.new], by simp [Buf.new, Buf.live, SortedI]⟩

theorem live_nonempty_nr (c : Ctrs) (x : Ctr) (h : x ∈ c.live) : c.nr ≠ 0 := by
  intro h0; simp [Ctrs.live, h0] at h

theorem holdsB_iff (b : Buf) (k : Nat) : holdsB b k = true ↔ ∃ x ∈ b.live, x.seqNr = k := by
  unfold holdsB; rw [List.any_eq_true]; simp

/-- the state after the buffer and counter updates of `addSegmentData` -/
theorem ginv_step (g : Gen) (name : String) (it : Item) (hg : GInv g) (b0 b1 : Buf) (c1 : Ctrs) (tracks : Nat)
    (hb0 : ∀ p ∈ g.bufs, p.1 = name → p.2 = b0) (hbe : ∀ x ∈ b0.live, x.seqNr < it.seqNr)
    (hadd : BufAdded b0 b1 g.w it) (hc : CtrAdded g.ctrs c1 g.w it.seqNr)
    (htr : g.started = true → tracks = (setBuf g.bufs name b1).length) :
    GInv { g with bufs := setBuf g.bufs name b1, ctrs := c1, tracks := tracks } := by
  obtain ⟨hbw1, ⟨d, hlive, hkeep⟩, _⟩ := hadd
  have hholds1 : holdsB b1 it.seqNr = true := by
    rw [holdsB_iff]; exact ⟨it, by rw [hlive]; simp, rfl⟩
  refine ⟨hg.wpos, hg.wlt, hc.cw, setBuf_nodup _ _ _ hg.nodup, ?_, ?_, htr⟩
  · intro p hp
    rcases mem_setBuf_cases _ _ _ _ hp with rfl | h
    · exact hbw1
    · exact hg.bw p h
  · intro x hx hwin
    show x.count ≤ holders (setBuf g.bufs name b1) x.seqNr
    have hwin' : mxOf c1 < x.seqNr + g.w := hwin
    rcases hc.mem x hx with hold | ⟨hxn, hx1⟩ | ⟨y, hy, hyn, hxn, hxc⟩
    · have hnr := live_nonempty_nr _ _ hold
      have h1 := hg.win x hold (by have := hc.mx_mono hnr; omega)
      refine Nat.le_trans h1 (holders_setBuf_ge _ _ _ _ ?_)
      intro p hp hpn hh
      rw [hb0 p hp hpn, holdsB_iff] at hh
      obtain ⟨z, hz, hzk⟩ := hh
      rw [holdsB_iff]
      refine ⟨z, ?_, hzk⟩
      rw [hlive, List.mem_append]; left
      exact hkeep z hz (by have := hc.mx_ge; omega)
    · rw [hx1, hxn]
      exact holders_pos _ _ (name, b1) (mem_setBuf _ _ _) hholds1
    · have hnr := live_nonempty_nr _ _ hy
      have h1 := hg.win y hy (by have := hc.mx_mono hnr; omega)
      rw [hxc, hxn]
      rw [hyn] at h1
      refine Nat.le_trans (Nat.add_le_add_right h1 1) (holders_setBuf_succ _ _ _ _ ?_ hholds1)
      intro p hp hpn
      rw [hb0 p hp hpn]
      cases hh : holdsB b0 it.seqNr with
      | false => rfl
      | true =>
        rw [holdsB_iff] at hh
        obtain ⟨z, hz, hzk⟩ := hh
        have := hbe z hz; omega

/-- the buffer `addSegmentData` works on: the track's buffer or a fresh one -/
theorem b0_facts (g : Gen) (name : String) (hg : GInv g) :
    BW ((lookupBuf g.bufs name).getD (Buf.new g.w)) g.w ∧
    (∀ p ∈ g.bufs, p.1 = name → p.2 = (lookupBuf g.bufs name).getD (Buf.new g.w)) ∧
    ((lookupBuf g.bufs name).isNone = !g.bufs.any (·.1 = name)) := by
  cases h : lookupBuf g.bufs name with
  | none =>
    have hany := (lookupBuf_none _ _).mp h
    refine ⟨bw_new _, ?_, by simp [hany]⟩
    intro p hp hpn
    exfalso
    have : g.bufs.any (·.1 = name) = true := by rw [List.any_eq_true]; exact ⟨p, hp, by simp [hpn]⟩
    rw [hany] at this; cases this
  | some b =>
    have hm := lookupBuf_some_mem _ _ _ h
    refine ⟨hg.bw _ hm, lookupBuf_unique _ _ _ hg.nodup h, ?_⟩
    have : g.bufs.any (·.1 = name) = true := by rw [List.any_eq_true]; exact ⟨_, hm, by simp⟩
    simp [this]

/-- **Every `addSegmentData` preserves the invariant and none can panic**, whatever track and number arrive. -/
theorem gen_add_inv (g : Gen) (name : String) (it : Item) (hg : GInv g) (hn : it.seqNr < U32) :
    match g.add name it with
    | .panic => False
    | .err g' => GInv g'
    | .ok g' _ => GInv g' := by
  unfold Gen.add
  by_cases hs : (g.shifted && !it.shifted) = true
  · rw [if_pos hs]; exact hg
  · rw [if_neg hs]
    simp only []
    obtain ⟨hbw0, huniq, hnew⟩ := b0_facts g name hg
    generalize hb0 : (lookupBuf g.bufs name).getD (Buf.new g.w) = b0 at *
    generalize htr : (if ((lookupBuf g.bufs name).isNone && g.started) = true then g.bufs.length + 1 else g.tracks) = tracks
    have htracks : ∀ b, g.started = true → tracks = (setBuf g.bufs name b).length := by
      intro b hst
      rw [setBuf_length, ← htr, hnew, hst]
      cases hany : g.bufs.any (·.1 = name) <;> simp [hg.tr hst]
    have hspec := buf_add_spec b0 g.w it hbw0 hg.wpos hg.wlt hn
    cases hadd : b0.add it with
    | panic => rw [hadd] at hspec; exact hspec
    | notIncreasing =>
      show GInv { g with bufs := setBuf g.bufs name b0, tracks := tracks }
      refine ⟨hg.wpos, hg.wlt, hg.cw, setBuf_nodup _ _ _ hg.nodup, ?_, ?_, htracks b0⟩
      · intro p hp
        rcases mem_setBuf_cases _ _ _ _ hp with rfl | h
        · exact hbw0
        · exact hg.bw p h
      · intro x hx hwin
        refine Nat.le_trans (hg.win x hx hwin) (holders_setBuf_ge _ _ _ _ ?_)
        intro p hp hpn hh
        rw [huniq p hp hpn] at hh; exact hh
    | ok b1 =>
      rw [hadd] at hspec
      simp only []
      have hcs := ctr_add_spec g.ctrs g.w it.seqNr hg.cw hg.wpos
      cases hca : g.ctrs.add it.seqNr with
      | none => rw [hca] at hcs; exact hcs
      | some c1 =>
        rw [hca] at hcs
        simp only []
        have hinv := ginv_step g name it hg b0 b1 c1 tracks huniq hspec.below hspec hcs (htracks b1)
        by_cases hst : g.started = true
        · rw [if_pos hst]
          have hnf : c1.newFullCounter tracks g.latest = some (newFullAux c1.live.reverse tracks g.latest) := by
            unfold Ctrs.newFullCounter
            rw [if_neg]; have := hcs.cw; rw [this.len]; have := this.nr; omega
          rw [hnf]; exact hinv
        · rw [if_neg hst]; exact hinv

/-! ## `fullRange` -/

/-- every number of the range has a live counter that counts at least `tracks` -/
def FRGood (L : List Ctr) (tracks : Nat) (s : FR) : Prop :=
  ∀ k, s.first ≤ k → k ≤ s.last → ∃ x ∈ L, x.seqNr = k ∧ tracks ≤ x.count

/-- loop invariant of `fullRange`; `j` is the index processed last -/
def FRI (L : List Ctr) (tracks : Nat) (s : FR) (j : Nat) : Prop :=
  s.last ≠ 0 → FRGood L tracks s ∧ (s.stop = false → (s.first : Int) = (s.last : Int) - ((s.lastIdx : Int) - (j : Int)) ∧ j ≤ s.lastIdx)

theorem frStep_inv (L : List Ctr) (tracks : Nat) (s : FR) (i : Nat) (c : Ctr) (hc : c ∈ L)
    (h : FRI L tracks s (i + 1)) : FRI L tracks (frStep tracks s (i, c)) i := by
  unfold frStep
  by_cases hstop : s.stop = true
  · rw [if_pos hstop]
    intro hl; exact ⟨(h hl).1, fun hf => by rw [hstop] at hf; cases hf⟩
  · rw [if_neg hstop]
    simp only []
    by_cases hcnt : c.count < tracks
    · rw [if_pos hcnt]
      by_cases hl0 : s.last = 0
      · rw [if_pos hl0]; intro hl; exact absurd hl0 hl
      · rw [if_neg hl0]
        intro hl; exact ⟨(h hl0).1, fun hf => by cases hf⟩
    · rw [if_neg hcnt]
      by_cases hl0 : s.last = 0
      · rw [if_pos hl0]
        rw [if_neg (by simp)]
        intro hl
        simp only at hl ⊢
        refine ⟨?_, fun _ => ⟨by simp, Nat.le_refl _⟩⟩
        intro k hk1 hk2
        simp only at hk1 hk2
        exact ⟨c, hc, by omega, by omega⟩
      · rw [if_neg hl0]
        have hs := h hl0
        have hns : s.stop = false := by cases hh : s.stop <;> simp_all
        obtain ⟨hgood, hrel⟩ := hs
        obtain ⟨hrel, hle⟩ := hrel hns
        by_cases hm : (c.seqNr : Int) ≠ (s.last : Int) - ((s.lastIdx : Int) - (i : Int))
        · rw [if_pos hm]
          intro _; exact ⟨hgood, fun hf => by cases hf⟩
        · rw [if_neg hm]
          have hm' : (c.seqNr : Int) = (s.last : Int) - ((s.lastIdx : Int) - (i : Int)) := by omega
          intro _
          refine ⟨?_, fun _ => ⟨hm', by show i ≤ s.lastIdx; omega⟩⟩
          intro k hk1 hk2
          simp only at hk1 hk2
          by_cases hk : k = c.seqNr
          · exact ⟨c, hc, hk.symm, by omega⟩
          · exact hgood k (by omega) hk2

theorem fr_fold (L : List Ctr) (tracks : Nat) (l : List (Nat × Ctr)) (j : Nat) (s : FR)
    (hl : ∀ p i c, l[p]? = some (i, c) → i + p + 1 = j ∧ c ∈ L) (h : FRI L tracks s j) :
    (l.foldl (frStep tracks) s).last ≠ 0 → FRGood L tracks (l.foldl (frStep tracks) s) := by
  induction l generalizing j s with
  | nil => intro hl0; exact (h hl0).1
  | cons a t ih =>
    obtain ⟨i, c⟩ := a
    have h0 := hl 0 i c (by simp)
    have hj : j = i + 1 := by omega
    subst hj
    simp only [List.foldl_cons]
    apply ih i
    · intro p i' c' hp
      have := hl (p + 1) i' c' (by simpa using hp)
      exact ⟨by omega, this.2⟩
    · exact frStep_inv L tracks s i c h0.2 h

/-- **`fullRange`** returns a range whose every number has a live counter counting at least `tracks` tracks. -/
theorem fullRange_spec (c : Ctrs) (tracks first last : Nat) (h : c.fullRange tracks = some (first, last)) (hl : last ≠ 0) :
    ∀ k, first ≤ k → k ≤ last → ∃ x ∈ c.live, x.seqNr = k ∧ tracks ≤ x.count := by
  unfold Ctrs.fullRange at h
  split at h
  · cases h
  · simp only [Option.some.injEq, Prod.mk.injEq] at h
    obtain ⟨hf, hla⟩ := h
    have := fr_fold c.live tracks ((List.range c.live.length).zip c.live).reverse c.live.length
      { first := 0, last := 0, lastIdx := 0, stop := false } ?_ (fun h => absurd rfl h) (by rw [hla]; exact hl)
    · unfold FRGood at this
      rw [hf, hla] at this
      exact this
    · intro p i x hp
      have hlen : ((List.range c.live.length).zip c.live).length = c.live.length := by simp
      by_cases hpl : p < ((List.range c.live.length).zip c.live).length
      · rw [List.getElem?_reverse hpl, List.getElem?_zip_eq_some] at hp
        obtain ⟨h1, h2⟩ := hp
        simp only at h1 h2
        rw [List.getElem?_range (by omega)] at h1
        injection h1 with h1
        exact ⟨by omega, List.mem_of_getElem? h2⟩
      · rw [List.getElem?_eq_none (by simp at hpl ⊢; omega)] at hp; cases hp

theorem filter_length_all {α} (l : List α) (P : α → Bool) (h : l.length ≤ (l.filter P).length) : ∀ x ∈ l, P x = true := by
  induction l with
  | nil => simp
  | cons a t ih =>
    have hle := List.length_filter_le P t
    simp only [List.filter_cons, List.length_cons] at h
    by_cases ha : P a = true
    · rw [if_pos ha] at h
      simp only [List.length_cons] at h
      intro x hx
      rcases List.mem_cons.mp hx with rfl | hx'
      · exact ha
      · exact ih (by omega) x hx'
    · rw [if_neg ha] at h; omega

/-- no buffer holds a number above the newest counted one -/
def TopB (g : Gen) : Prop := ∀ p ∈ g.bufs, ∀ z ∈ p.2.live, g.ctrs.nr ≠ 0 ∧ z.seqNr ≤ mxOf g.ctrs

/-- `GInv`, sorted counters, buffers below the newest counted number -/
structure GSorted (g : Gen) : Prop where
  inv : GInv g
  sorted : CSorted g.ctrs
  top : TopB g

/-- the full bookkeeping invariant: additionally all live counters are inside the window -/
structure GFresh (g : Gen) : Prop where
  base : GSorted g
  fresh : Fresh g.ctrs g.w

theorem gen_add_sorted (g : Gen) (name : String) (it : Item) (hg : GSorted g) (hn : it.seqNr < U32) :
    match g.add name it with
    | .panic => False
    | .err g' => GSorted g' ∧ (Fresh g.ctrs g.w → Fresh g'.ctrs g'.w)
    | .ok g' _ => GSorted g' ∧ (Fresh g.ctrs g.w → Fresh g'.ctrs g'.w) := by
  have hinv := gen_add_inv g name it hg.inv hn
  obtain ⟨hbw0, huniq, _⟩ := b0_facts g name hg.inv
  have hspec := buf_add_spec _ g.w it hbw0 hg.inv.wpos hg.inv.wlt hn
  unfold Gen.add at hinv ⊢
  by_cases hs : (g.shifted && !it.shifted) = true
  · rw [if_pos hs]; exact ⟨hg, fun h => h⟩
  · rw [if_neg hs] at hinv ⊢
    simp only [] at hinv ⊢
    cases hadd : ((lookupBuf g.bufs name).getD (Buf.new g.w)).add it with
    | panic => rw [hadd] at hinv; exact hinv
    | notIncreasing =>
      rw [hadd] at hinv
      refine ⟨⟨hinv, hg.sorted, ?_⟩, fun h => h⟩
      intro p hp z hz
      rcases mem_setBuf_cases _ _ _ _ hp with rfl | h
      · cases hl : lookupBuf g.bufs name with
        | none => rw [hl] at hz; simp [Buf.new, Buf.live] at hz
        | some b => rw [hl] at hz; exact hg.top _ (lookupBuf_some_mem _ _ _ hl) z hz
      · exact hg.top p h z hz
    | ok b1 =>
      rw [hadd] at hinv hspec
      simp only [] at hinv ⊢
      have hcs := ctr_add_spec g.ctrs g.w it.seqNr hg.inv.cw hg.inv.wpos
      cases hca : g.ctrs.add it.seqNr with
      | none => rw [hca] at hinv; exact hinv
      | some c1 =>
        rw [hca] at hinv hcs
        simp only [] at hinv ⊢
        have hsf := ctr_add_sorted g.ctrs g.w it.seqNr hg.inv.cw hg.inv.wpos hg.sorted c1 hca
        have htop : ∀ p ∈ setBuf g.bufs name b1, ∀ z ∈ p.2.live, c1.nr ≠ 0 ∧ z.seqNr ≤ mxOf c1 := by
          intro p hp z hz
          refine ⟨hcs.nrpos, ?_⟩
          have hold : ∀ q ∈ g.bufs, ∀ z ∈ q.2.live, z.seqNr ≤ mxOf c1 := by
            intro q hq z hz
            have := hg.top q hq z hz
            have := hcs.mx_mono this.1; omega
          rcases mem_setBuf_cases _ _ _ _ hp with rfl | h
          · obtain ⟨d, hlive, _⟩ := hspec.live
            rw [hlive, List.mem_append] at hz
            rcases hz with hz | hz
            · have hz' := List.mem_of_mem_drop hz
              cases hl : lookupBuf g.bufs name with
              | none => rw [hl] at hz'; simp [Buf.new, Buf.live] at hz'
              | some b => rw [hl] at hz'; exact hold _ (lookupBuf_some_mem _ _ _ hl) z hz'
            · simp at hz; subst hz; exact hcs.mx_ge
          · exact hold p h z hz
        by_cases hst : g.started = true
        · rw [if_pos hst] at hinv ⊢
          cases hnf : c1.newFullCounter (if ((lookupBuf g.bufs name).isNone && g.started) = true then g.bufs.length + 1 else g.tracks) g.latest with
          | none => rw [hnf] at hinv; exact hinv
          | some nn => rw [hnf] at hinv; exact ⟨⟨hinv, hsf.1, htop⟩, fun hf => hsf.2 (Or.inl hf)⟩
        · rw [if_neg hst] at hinv ⊢
          exact ⟨⟨hinv, hsf.1, htop⟩, fun hf => hsf.2 (Or.inl hf)⟩

theorem gen_add_fresh (g : Gen) (name : String) (it : Item) (hg : GFresh g) (hn : it.seqNr < U32) :
    match g.add name it with
    | .panic => False
    | .err g' => GFresh g'
    | .ok g' _ => GFresh g' := by
  have h := gen_add_sorted g name it hg.base hn
  cases ha : g.add name it with
  | panic => rw [ha] at h; exact h
  | err g' => rw [ha] at h; exact ⟨h.1, h.2 hg.fresh⟩
  | ok g' n => rw [ha] at h; exact ⟨h.1, h.2 hg.fresh⟩

/-! ## resize and start -/

theorem sorted_drop_keep (l : List Item) (d k top : Nat) (hs : SortedI l) (htop : ∀ z ∈ l, z.seqNr ≤ top)
    (hlen : top < k + (l.length - d)) : ∀ z ∈ l, z.seqNr = k → z ∈ l.drop d := by
  intro z hz hzk
  have hsplit : l = l.take d ++ l.drop d := (List.take_append_drop d l).symm
  rw [hsplit, List.mem_append] at hz
  rcases hz with hz | hz
  · exfalso
    unfold SortedI at hs
    rw [hsplit, List.pairwise_append] at hs
    have hlt := hs.2.2 z hz
    have := sorted_length_le (l.drop d) (k + 1) (top + 1) hs.2.1 (fun x hx => by
      have h1 : z.seqNr < x.seqNr := hlt x hx
      have h2 : x.seqNr ≤ top := htop x (List.mem_of_mem_drop hx)
      exact ⟨by omega, by omega⟩)
    have h5 : l.length - d ≤ top + 1 - (k + 1) := by simpa using this
    have h6 : z.seqNr ≤ top := htop z (List.mem_of_mem_take hz)
    omega
  · exact hz

/-- `segDataBuffer.resize`: keeps the newest `n` items -/
theorem buf_resize_spec (b : Buf) (w n : Nat) (hb : BW b w) :
    ∃ b', b.resize n = some b' ∧ BW b' n ∧ ∃ d, b'.live = b.live.drop d ∧ b.live.length - d = min b.nr n := by
  obtain ⟨hsize, hlen, hnr, hsorted⟩ := hb
  have hll : b.live.length = b.nr := by simp only [Buf.live, List.length_take]; omega
  unfold Buf.resize
  by_cases h1 : n = b.size
  · rw [if_pos h1]
    exact ⟨b, rfl, ⟨by omega, by omega, by omega, hsorted⟩, 0, by simp, by omega⟩
  · rw [if_neg h1]
    by_cases h2 : n < b.nr
    · rw [if_pos h2, if_neg (by omega)]
      refine ⟨_, rfl, ?_, b.nr - n, ?_, by omega⟩
      · have hlive : ((copyWithin b.items 0 (b.nr - n) b.items.length).take n).take n = b.live.drop (b.nr - n) := by
          rw [List.take_take, Nat.min_self, copyWithin_zero _ _ (by omega),
            List.take_append_of_le_length (by simp; omega)]
          unfold Buf.live
          rw [List.drop_take]
          congr 1; omega
        refine ⟨rfl, ?_, Nat.le_refl _, ?_⟩
        · simp only [List.length_take]; rw [copyWithin_length _ _ _ _ (by omega)]; omega
        · show SortedI (((copyWithin b.items 0 (b.nr - n) b.items.length).take n).take n)
          rw [hlive]
          exact List.Pairwise.sublist (List.drop_sublist _ _) hsorted
      · show ((copyWithin b.items 0 (b.nr - n) b.items.length).take n).take n = _
        rw [List.take_take, Nat.min_self, copyWithin_zero _ _ (by omega),
          List.take_append_of_le_length (by simp; omega)]
        unfold Buf.live
        rw [List.drop_take]
        congr 1; omega
    · rw [if_neg h2]
      have hlive : ((b.items.take n) ++ List.replicate (n - b.items.length) default).take b.nr = b.live := by
        rw [List.take_append_of_le_length (by simp; omega), List.take_take]
        unfold Buf.live
        congr 1; omega
      refine ⟨_, rfl, ⟨rfl, ?_, by show b.nr ≤ n; omega, ?_⟩, 0, by simp only [List.drop_zero]; exact hlive, by omega⟩
      · simp only [List.length_append, List.length_take, List.length_replicate]; omega
      · show SortedI (((b.items.take n) ++ List.replicate (n - b.items.length) default).take b.nr)
        rw [hlive]; exact hsorted

/-- `seqCounters.resize`: keeps the newest counters -/
theorem ctr_resize_spec (c : Ctrs) (w w' : Nat) (hc : CW c w) :
    ∃ c', c.resize w' = some c' ∧ CW c' w' ∧ ∃ d, d ≤ c.nr ∧ c'.nr = c.nr - d ∧ c.nr - d = min c.nr w' ∧
      ∀ j, j < c'.nr → c'.arr[j]? = c.arr[d + j]? := by
  obtain ⟨hweq, hlen, hnr⟩ := hc
  unfold Ctrs.resize
  by_cases h1 : w' > c.w
  · rw [if_pos h1]
    refine ⟨_, rfl, ⟨rfl, ?_, by show c.nr ≤ w'; omega⟩, 0, by omega, by simp, by omega, ?_⟩
    · simp only [List.length_append, List.length_take, List.length_replicate]; omega
    · intro j hj
      have hj' : j < c.nr := hj
      rw [List.getElem?_append_left (by simp; omega), List.getElem?_take, if_pos (by omega)]; simp
  · rw [if_neg h1]
    by_cases h2 : w' < c.w
    · rw [if_pos h2, if_neg (by omega)]
      by_cases h3 : c.nr > w'
      · rw [if_pos h3, if_neg (by omega)]
        refine ⟨_, rfl, ⟨rfl, ?_, Nat.le_refl _⟩, c.nr - w', by omega, by show w' = _; omega, by omega, ?_⟩
        · simp only [List.length_take]; rw [copyWithin_length _ _ _ _ (by omega)]; omega
        · intro j hj
          have hj' : j < w' := hj
          rw [List.getElem?_take, if_pos hj', copyWithin_getElem? _ _ _ _ _ (by omega), if_pos (by omega)]
          simp
      · rw [if_neg h3]
        refine ⟨_, rfl, ⟨rfl, ?_, by show c.nr ≤ w'; omega⟩, 0, by omega, by simp, by omega, ?_⟩
        · simp only [List.length_take]; omega
        · intro j hj
          have hj' : j < c.nr := hj
          rw [List.getElem?_take, if_pos (by omega)]; simp
    · rw [if_neg h2]
      have : w' = w := by omega
      subst this
      exact ⟨c, rfl, ⟨hweq, hlen, hnr⟩, 0, by omega, by simp, by omega, fun j _ => by simp⟩

theorem mapBufs_spec (f : Buf → Option Buf) (R : Buf → Buf → Prop) (bufs : List (String × Buf))
    (h : ∀ p ∈ bufs, ∃ b', f p.2 = some b' ∧ R p.2 b') :
    ∃ bufs', mapBufs f bufs = some bufs' ∧ bufs'.map (·.1) = bufs.map (·.1) ∧
      (∀ p' ∈ bufs', ∃ p ∈ bufs, R p.2 p'.2) ∧
      (∀ k, (∀ p ∈ bufs, ∀ b', R p.2 b' → holdsB p.2 k = true → holdsB b' k = true) → holders bufs k ≤ holders bufs' k) := by
  induction bufs with
  | nil => exact ⟨[], rfl, rfl, by simp, fun _ _ => Nat.le_refl _⟩
  | cons q t ih =>
    obtain ⟨name, b⟩ := q
    obtain ⟨b', hb', hR⟩ := h (name, b) (by simp)
    obtain ⟨t', ht', hnames, hmem, hhold⟩ := ih (fun p hp => h p (by simp [hp]))
    refine ⟨(name, b') :: t', ?_, by simp [hnames], ?_, ?_⟩
    · simp only [mapBufs]; simp only [] at hb'; rw [hb', ht']
    · intro p' hp'
      rcases List.mem_cons.mp hp' with rfl | hp'
      · exact ⟨(name, b), by simp, hR⟩
      · obtain ⟨p, hp, hr⟩ := hmem p' hp'
        exact ⟨p, by simp [hp], hr⟩
    · intro k hk
      have ht := hhold k (fun p hp => hk p (by simp [hp]))
      unfold holders at ht ⊢
      simp only [List.filter_cons]
      by_cases hb : holdsB b k = true
      · rw [if_pos hb, if_pos (hk (name, b) (by simp) b' hR hb)]
        simp only [List.length_cons]; omega
      · rw [if_neg hb]
        split
        · simp only [List.length_cons]; omega
        · exact ht

/-- **`start` (not shifted) keeps the invariant**, whatever window it resizes to; growing keeps all counters fresh. -/
theorem start_spec (g : Gen) (w : Nat) (hg : GFresh g) (hw0 : 0 < w) (hw : w < U32) :
    ∃ g', g.start w false = some g' ∧ GSorted g' ∧ g'.started = true ∧ g'.w = w ∧ (g.w ≤ w → Fresh g'.ctrs w) := by
  have hinv := hg.base.inv
  obtain ⟨c', hc', hcw', d, hd, hnr', hmin, hidx⟩ := ctr_resize_spec g.ctrs g.w w hinv.cw
  obtain ⟨bufs', hb', hnames, hmem, hhold⟩ := mapBufs_spec (·.resize w)
    (fun b b' => BW b' w ∧ ∃ d, b'.live = b.live.drop d ∧ b.live.length - d = min b.nr w) g.bufs
    (fun p hp => buf_resize_spec p.2 g.w w (hinv.bw p hp))
  have hmem_live : ∀ x ∈ c'.live, x ∈ g.ctrs.live := by
    intro x hx
    rw [live_mem] at hx ⊢
    obtain ⟨j, hj, hx⟩ := hx
    exact ⟨d + j, by omega, by rw [← hidx j hj]; exact hx⟩
  have hmx : c'.nr ≠ 0 → mxOf c' = mxOf g.ctrs := by
    intro h0
    rw [mxOf_eq, mxOf_eq, hidx (c'.nr - 1) (by omega)]
    congr 3; omega
  refine ⟨{ bufs := bufs', ctrs := c', latest := g.latest, w := w, tracks := bufs'.length, started := true, shifted := false }, ?_, ⟨?_, ?_, ?_⟩, rfl, rfl, ?_⟩
  · unfold Gen.start Gen.resize
    simp only [hb', hc']
    rfl
  · refine ⟨hw0, hw, hcw', by show (bufs'.map (·.1)).Nodup; rw [hnames]; exact hinv.nodup, ?_, ?_, fun _ => rfl⟩
    · intro p' hp'
      obtain ⟨p, _, hr⟩ := hmem p' hp'
      exact hr.1
    · intro x hx hwin
      have hxl := hmem_live x hx
      have h0 := live_nonempty_nr _ _ hx
      have hwin' : mxOf c' < x.seqNr + w := hwin
      rw [hmx h0] at hwin'
      have h1 := hinv.win x hxl (hg.fresh x hxl)
      refine Nat.le_trans h1 (hhold x.seqNr ?_)
      intro p hp b' hR hh
      obtain ⟨_, db, hlive, hlen⟩ := hR
      rw [holdsB_iff] at hh ⊢
      obtain ⟨z, hz, hzk⟩ := hh
      refine ⟨z, ?_, hzk⟩
      rw [hlive]
      have hbw := hinv.bw p hp
      have hll : p.2.live.length = p.2.nr := by
        simp only [Buf.live, List.length_take]; have := hbw.nr; have := hbw.len; omega
      by_cases hsmall : p.2.nr ≤ w
      · have hpos : 0 < p.2.live.length := List.length_pos_of_mem hz
        have hm : min p.2.nr w = p.2.nr := Nat.min_eq_left hsmall
        have : db = 0 := by rw [hm] at hlen; omega
        rw [this]; simpa using hz
      · have hlw : p.2.live.length - db = w := by rw [hlen]; exact Nat.min_eq_right (by omega)
        exact sorted_drop_keep p.2.live db x.seqNr (mxOf g.ctrs) hbw.sorted
          (fun z hz => (hg.base.top p hp z hz).2) (by rw [hlw]; exact hwin') z hz hzk
  · intro j1 j2 x1 x2 h12 h2 e1 e2
    have h2' : j2 < c'.nr := h2
    have e1' : c'.arr[j1]? = some x1 := e1
    have e2' : c'.arr[j2]? = some x2 := e2
    rw [hidx j1 (by omega)] at e1'
    rw [hidx j2 h2'] at e2'
    exact hg.base.sorted (d + j1) (d + j2) x1 x2 (by omega) (by omega) e1' e2'
  · intro p' hp' z hz
    obtain ⟨p, hp, _, db, hlive, _⟩ := hmem p' hp'
    rw [hlive] at hz
    have := hg.base.top p hp z (List.mem_of_mem_drop hz)
    have h0 : c'.nr ≠ 0 := by omega
    exact ⟨h0, by show z.seqNr ≤ mxOf c'; rw [hmx h0]; exact this.2⟩
  · intro hle x hx
    have hxl := hmem_live x hx
    have h0 := live_nonempty_nr _ _ hx
    show mxOf c' < x.seqNr + w
    rw [hmx h0]
    have := hg.fresh x hxl
    omega

end Recv
