import LivesimVerif.Model.Mpd
import LivesimVerif.Props.C01
/-! Helper lemmas for the live-MPD model (C02/C05/C06). Core Lean only. -/
namespace Core

/-- duration of output segment k -/
def segDur (r : Rep) (k : Nat) : Nat := (r.seg (k % r.N)).stop - (r.seg (k % r.N)).start

theorem E_eq_S_add (a : Asset) (r : Rep) (h : Contig r) (k : Nat) : E a r k = S a r k + segDur r k := by
  unfold E S segDur
  have := h.2.1 (k % r.N) (Nat.mod_lt _ h.1)
  omega

/-- the listed entries are exactly the output segments `first, first+1, …`: start `S`, duration of the source -/
theorem listFrom_spec (a : Asset) (r : Rep) (h : Contig r) (hc : Closes a r) (first count : Nat) :
    listFrom r first count (S a r first) = (List.range' first count).map (fun k => (S a r k, segDur r k)) := by
  induction count generalizing first with
  | zero => simp [listFrom]
  | succ c ih =>
    unfold listFrom
    simp only [List.range'_succ, List.map_cons]
    have hstep : S a r first + ((r.seg (first % r.N)).stop - (r.seg (first % r.N)).start) = S a r (first + 1) := by
      rw [c01_gap_free a r h hc first, E_eq_S_add a r h first]; rfl
    rw [hstep, ih (first + 1)]
    rfl

theorem listFrom_contiguous (r : Rep) (first count t : Nat) :
    ∀ i, i + 1 < (listFrom r first count t).length →
      ((listFrom r first count t).getD (i+1) (0,0)).1 =
        ((listFrom r first count t).getD i (0,0)).1 + ((listFrom r first count t).getD i (0,0)).2 := by
  induction count generalizing first t with
  | zero => intro i hi; simp [listFrom] at hi
  | succ c ih =>
    intro i hi
    unfold listFrom at hi ⊢
    cases i with
    | zero =>
      cases c with
      | zero => simp [listFrom] at hi
      | succ c' => simp [listFrom]
    | succ j =>
      simp only [List.getD_cons_succ]
      exact ih (first + 1) _ j (by simpa using hi)

end Core

namespace Core
/-! ## the live edge: "newest segment that has ended" -/

theorem finishedCount_le (l : List Seg) (t : Nat) : finishedCount l t ≤ l.length := by
  induction l with
  | nil => simp [finishedCount]
  | cons s rest ih => unfold finishedCount; split <;> simp <;> omega

theorem finishedCount_lt_ended (l : List Seg) (t i : Nat) (hi : i < finishedCount l t) :
    (l.getD i default).stop ≤ t := by
  induction l generalizing i with
  | nil => simp [finishedCount] at hi
  | cons s rest ih =>
    unfold finishedCount at hi
    split at hi
    · cases i with
      | zero => simpa
      | succ j => simpa using ih j (by omega)
    · omega

theorem finishedCount_next_not_ended (l : List Seg) (t : Nat) (h : finishedCount l t < l.length) :
    t < (l.getD (finishedCount l t) default).stop := by
  induction l with
  | nil => simp at h
  | cons s rest ih =>
    unfold finishedCount at h ⊢
    split
    · rename_i hs
      simp [hs] at h
      simpa using ih (by omega)
    · simp; omega

/-- Characterisation of the edge search (the `relIdx` / `wraps--` logic of `generateTimelineEntries`):
if `edgeIdx` returns `(w', i)` for an instant `rel` inside the loop `w`, then output segment `k = N·w' + i` has
ended at `w·D + rel` and segment `k+1` has not. -/
theorem edgeIdx_spec (a : Asset) (r : Rep) (h : Contig r) (hc : Closes a r) (w rel w' i : Nat)
    (hrel : rel < wrapDur a r) (he : edgeIdx r w rel = some (w', i)) :
    i < r.N ∧ E a r (r.N * w' + i) ≤ w * wrapDur a r + rel ∧ w * wrapDur a r + rel < E a r (r.N * w' + i + 1) := by
  unfold edgeIdx at he
  have hle := finishedCount_le r.segs rel
  have hN := h.1
  have hlast := contig_stop_le_dur a r h hc (r.N - 1) (by omega)
  generalize hD : wrapDur a r = D at *
  by_cases hc0 : finishedCount r.segs rel = 0
  · simp only [hc0, ↓reduceIte] at he
    by_cases hw : w = 0
    · simp [hw] at he
    · simp only [hw, ↓reduceIte] at he
      injection he with he
      injection he with h1 h2
      subst h1 h2
      obtain ⟨v, rfl⟩ : ∃ v, w = v + 1 := ⟨w - 1, by omega⟩
      have hnot := finishedCount_next_not_ended r.segs rel (by unfold Rep.N at hN; omega)
      rw [hc0] at hnot
      refine ⟨by omega, ?_, ?_⟩
      · rw [Nat.add_sub_cancel, E_decomp a r v (r.N - 1) (by omega), hD]
        -- last segment of the previous loop ends at D
        have : (r.seg (r.N - 1)).stop ≤ D := hlast.1
        rw [Nat.add_mul]; omega
      · rw [Nat.add_sub_cancel, show r.N * v + (r.N - 1) + 1 = r.N * (v + 1) + 0 by rw [Nat.mul_add]; omega,
          E_decomp a r (v+1) 0 hN, hD]
        have : rel < (r.seg 0).stop := hnot
        omega
  · simp only [hc0, ↓reduceIte] at he
    injection he with he
    injection he with h1 h2
    subst h1 h2
    have hi : finishedCount r.segs rel - 1 < r.N := by unfold Rep.N; omega
    have hend := finishedCount_lt_ended r.segs rel (finishedCount r.segs rel - 1) (by omega)
    refine ⟨hi, ?_, ?_⟩
    · rw [E_decomp a r w _ hi, hD]; unfold Rep.seg; omega
    · by_cases hfull : finishedCount r.segs rel = r.N
      · -- all segments of the loop have ended: impossible since rel < D = end of the last one
        have := finishedCount_lt_ended r.segs rel (r.N - 1) (by omega)
        have h2 : (r.seg (r.N - 1)).stop ≤ rel := this
        -- the last segment ends at D (Closes)
        have hd : r.dur = (r.seg (r.N - 1)).stop - (r.seg 0).start := by
          unfold Rep.dur
          have : r.segs.isEmpty = false := by
            cases hs : r.segs with
            | nil => simp [Rep.N, hs] at hN
            | cons _ _ => rfl
          simp [this]
        have : D = (r.seg (r.N - 1)).stop := by rw [← hD, hc.1, hd, hc.2]; omega
        omega
      · have hnot := finishedCount_next_not_ended r.segs rel (by have hNdef : r.N = r.segs.length := rfl; omega)
        rw [show r.N * w + (finishedCount r.segs rel - 1) + 1 = r.N * w + finishedCount r.segs rel by omega,
          E_decomp a r w _ (by have hNdef : r.N = r.segs.length := rfl; omega), hD]
        have : rel < (r.seg (finishedCount r.segs rel)).stop := hnot
        omega

end Core

namespace Core
/-! ## from ticks to the handler's exact comparison -/

theorem scaled_shift (now s ato T : Nat) (hs : s * 1000 ≤ now) :
    (now - s * 1000 + ato) * T + 1000 * (s * T) = now * T + ato * T := by
  have h1 : now - s * 1000 + ato + s * 1000 = now + ato := by omega
  have h2 : (now - s * 1000 + ato + s * 1000) * T = (now - s * 1000 + ato) * T + 1000 * (s * T) := by
    rw [Nat.add_mul _ (s * 1000) T, Nat.mul_right_comm s 1000 T, Nat.mul_comm (s * T) 1000]
  rw [← h2, h1, Nat.add_mul]

theorem notEarly_of (Ek s T now ato τ : Nat) (h1 : Ek ≤ τ) (h2 : 1000 * τ ≤ (now - s * 1000 + ato) * T)
    (hs : s * 1000 ≤ now) :
    ((Ek + s * T : Nat) : Int) * 1000 - (ato : Int) * T ≤ (now : Int) * T := by
  have key := scaled_shift now s ato T hs
  rw [← Int.natCast_mul ato T, ← Int.natCast_mul now T]
  generalize (now - s * 1000 + ato) * T = X at key h2
  generalize now * T = A at key ⊢
  generalize ato * T = B at key ⊢
  generalize s * T = P at key ⊢
  omega

theorem early_of (Ek1 s T now ato τ : Nat) (h1 : τ < Ek1) (h2 : (now - s * 1000 + ato) * T < 1000 * τ + 1000)
    (hs : s * 1000 ≤ now) :
    (now : Int) * T < ((Ek1 + s * T : Nat) : Int) * 1000 - (ato : Int) * T := by
  have key := scaled_shift now s ato T hs
  rw [← Int.natCast_mul ato T, ← Int.natCast_mul now T]
  generalize (now - s * 1000 + ato) * T = X at key h2
  generalize now * T = A at key ⊢
  generalize ato * T = B at key ⊢
  generalize s * T = P at key ⊢
  omega

end Core
