import LivesimVerif.Model.Mpd
import LivesimVerif.Props.C01
/-! Helper lemmas for the live-MPD model (C02/C05/C06). Core Lean only. -/
namespace Core

/-- duration of output segment k -/
def segDur (r : Rep) (k : Nat) : Nat := (r.seg (k % r.N)).stop - (r.seg (k % r.N)).start

theorem E_eq_S_add (a : Asset) (r : Rep) (h : Contig r) (k : Nat) : E a r k = S a r k + segDur r k := by
  unfold E S segDur
  have := h.2.1 (k % r.N) (Nat.mod_lt _ h.1)
  omega

/-- the listed entries are exactly the output segments `first, first+1, …`: start `S`, duration of the source -/
theorem listFrom_spec (a : Asset) (r : Rep) (h : Contig r) (hc : Closes a r) (first count : Nat) :
    listFrom r first count (S a r first) = (List.range' first count).map (fun k => (S a r k, segDur r k)) := by
  induction count generalizing first with
  | zero => simp [listFrom]
  | succ c ih =>
    unfold listFrom
    simp only [List.range'_succ, List.map_cons]
    have hstep : S a r first + ((r.seg (first % r.N)).stop - (r.seg (first % r.N)).start) = S a r (first + 1) := by
      rw [c01_gap_free a r h hc first, E_eq_S_add a r h first]; rfl
    rw [hstep, ih (first + 1)]
    rfl

theorem listFrom_contiguous (r : Rep) (first count t : Nat) :
    ∀ i, i + 1 < (listFrom r first count t).length →
      ((listFrom r first count t).getD (i+1) (0,0)).1 =
        ((listFrom r first count t).getD i (0,0)).1 + ((listFrom r first count t).getD i (0,0)).2 := by
  induction count generalizing first t with
  | zero => intro i hi; simp [listFrom] at hi
  | succ c ih =>
    intro i hi
    unfold listFrom at hi ⊢
    cases i with
    | zero =>
      cases c with
      | zero => simp [listFrom] at hi
      | succ c' => simp [listFrom]
    | succ j =>
      simp only [List.getD_cons_succ]
      exact ih (first + 1) _ j (by simpa using hi)

end Core

namespace Core
/-! ## the live edge: "newest segment that has ended" -/

theorem finishedCount_le (l : List Seg) (t : Nat) : finishedCount l t ≤ l.length := by
  induction l with
  | nil => simp [finishedCount]
  | cons s rest ih => unfold finishedCount; split <;> simp <;> omega

theorem finishedCount_lt_ended (l : List Seg) (t i : Nat) (hi : i < finishedCount l t) :
    (l.getD i default).stop ≤ t := by
  induction l generalizing i with
  | nil => simp [finishedCount] at hi
  | cons s rest ih =>
    unfold finishedCount at hi
    split at hi
    · cases i with
      | zero => simpa
      | succ j => simpa using ih j (by omega)
    · omega

theorem finishedCount_next_not_ended (l : List Seg) (t : Nat) (h : finishedCount l t < l.length) :
    t < (l.getD (finishedCount l t) default).stop := by
  induction l with
  | nil => simp at h
  | cons s rest ih =>
    unfold finishedCount at h ⊢
    split
    · rename_i hs
      simp [hs] at h
      simpa using ih (by omega)
    · simp; omega

/-- Characterisation of the edge search (the `relIdx` / `wraps--` logic of `generateTimelineEntries`):
if `edgeIdx` returns `(w', i)` for an instant `rel` inside the loop `w`, then output segment `k = N·w' + i` has
ended at `w·D + rel` and segment `k+1` has not. -/
theorem edgeIdx_spec (a : Asset) (r : Rep) (h : Contig r) (hc : Closes a r) (w rel w' i : Nat)
    (hrel : rel < wrapDur a r) (he : edgeIdx r w rel = some (w', i)) :
    i < r.N ∧ E a r (r.N * w' + i) ≤ w * wrapDur a r + rel ∧ w * wrapDur a r + rel < E a r (r.N * w' + i + 1) := by
  unfold edgeIdx at he
  have hle := finishedCount_le r.segs rel
  have hN := h.1
  have hlast := contig_stop_le_dur a r h hc (r.N - 1) (by omega)
  generalize hD : wrapDur a r = D at *
  by_cases hc0 : finishedCount r.segs rel = 0
  · simp only [hc0, ↓reduceIte] at he
    by_cases hw : w = 0
    · simp [hw] at he
    · simp only [hw, ↓reduceIte] at he
      injection he with he
      injection he with h1 h2
      subst h1 h2
      obtain ⟨v, rfl⟩ : ∃ v, w = v + 1 := ⟨w - 1, by omega⟩
      have hnot := finishedCount_next_not_ended r.segs rel (by unfold Rep.N at hN; omega)
      rw [hc0] at hnot
      refine ⟨by omega, ?_, ?_⟩
      · rw [Nat.add_sub_cancel, E_decomp a r v (r.N - 1) (by omega), hD]
        -- last segment of the previous loop ends at D
        have : (r.seg (r.N - 1)).stop ≤ D := hlast.1
        rw [Nat.add_mul]; omega
      · rw [Nat.add_sub_cancel, show r.N * v + (r.N - 1) + 1 = r.N * (v + 1) + 0 by rw [Nat.mul_add]; omega,
          E_decomp a r (v+1) 0 hN, hD]
        have : rel < (r.seg 0).stop := hnot
        omega
  · simp only [hc0, ↓reduceIte] at he
    injection he with he
    injection he with h1 h2
    subst h1 h2
    have hi : finishedCount r.segs rel - 1 < r.N := by unfold Rep.N; omega
    have hend := finishedCount_lt_ended r.segs rel (finishedCount r.segs rel - 1) (by omega)
    refine ⟨hi, ?_, ?_⟩
    · rw [E_decomp a r w _ hi, hD]; unfold Rep.seg; omega
    · by_cases hfull : finishedCount r.segs rel = r.N
      · -- all segments of the loop have ended: impossible since rel < D = end of the last one
        have := finishedCount_lt_ended r.segs rel (r.N - 1) (by omega)
        have h2 : (r.seg (r.N - 1)).stop ≤ rel := this
        -- the last segment ends at D (Closes)
        have hd : r.dur = (r.seg (r.N - 1)).stop - (r.seg 0).start := by
          unfold Rep.dur
          have : r.segs.isEmpty = false := by
            cases hs : r.segs with
            | nil => simp [Rep.N, hs] at hN
            | cons _ _ => rfl
          simp [this]
        have : D = (r.seg (r.N - 1)).stop := by rw [← hD, hc.1, hd, hc.2]; omega
        omega
      · have hnot := finishedCount_next_not_ended r.segs rel (by have hNdef : r.N = r.segs.length := rfl; omega)
        rw [show r.N * w + (finishedCount r.segs rel - 1) + 1 = r.N * w + finishedCount r.segs rel by omega,
          E_decomp a r w _ (by have hNdef : r.N = r.segs.length := rfl; omega), hD]
        have : rel < (r.seg (finishedCount r.segs rel)).stop := hnot
        omega

end Core

namespace Core
/-! ## from ticks to the handler's exact comparison -/

theorem scaled_shift (now s ato T : Nat) (hs : s * 1000 ≤ now) :
    (now - s * 1000 + ato) * T + 1000 * (s * T) = now * T + ato * T := by
  have h1 : now - s * 1000 + ato + s * 1000 = now + ato := by omega
  have h2 : (now - s * 1000 + ato + s * 1000) * T = (now - s * 1000 + ato) * T + 1000 * (s * T) := by
    rw [Nat.add_mul _ (s * 1000) T, Nat.mul_right_comm s 1000 T, Nat.mul_comm (s * T) 1000]
  rw [← h2, h1, Nat.add_mul]

theorem notEarly_of (Ek s T now ato τ : Nat) (h1 : Ek ≤ τ) (h2 : 1000 * τ ≤ (now - s * 1000 + ato) * T)
    (hs : s * 1000 ≤ now) :
    ((Ek + s * T : Nat) : Int) * 1000 - (ato : Int) * T ≤ (now : Int) * T := by
  have key := scaled_shift now s ato T hs
  rw [← Int.natCast_mul ato T, ← Int.natCast_mul now T]
  generalize (now - s * 1000 + ato) * T = X at key h2
  generalize now * T = A at key ⊢
  generalize ato * T = B at key ⊢
  generalize s * T = P at key ⊢
  omega

theorem early_of (Ek1 s T now ato τ : Nat) (h1 : τ < Ek1) (h2 : (now - s * 1000 + ato) * T < 1000 * τ + 1000)
    (hs : s * 1000 ≤ now) :
    (now : Int) * T < ((Ek1 + s * T : Nat) : Int) * 1000 - (ato : Int) * T := by
  have key := scaled_shift now s ato T hs
  rw [← Int.natCast_mul ato T, ← Int.natCast_mul now T]
  generalize (now - s * 1000 + ato) * T = X at key h2
  generalize now * T = A at key ⊢
  generalize ato * T = B at key ⊢
  generalize s * T = P at key ⊢
  omega


/-! ## monotone ends -/

theorem E_succ (a : Asset) (r : Rep) (h : Contig r) (hc : Closes a r) (k : Nat) :
    E a r (k + 1) = E a r k + segDur r (k + 1) := by
  rw [E_eq_S_add a r h (k+1), c01_gap_free a r h hc k]

theorem segDur_pos (r : Rep) (h : Contig r) (k : Nat) : 0 < segDur r k := by
  unfold segDur
  have := h.2.1 (k % r.N) (Nat.mod_lt _ h.1)
  omega

theorem E_strictMono (a : Asset) (r : Rep) (h : Contig r) (hc : Closes a r) (k k' : Nat) (hk : k < k') :
    E a r k < E a r k' := by
  induction k' with
  | zero => omega
  | succ n ih =>
    have hs := E_succ a r h hc n
    have hp := segDur_pos r h (n + 1)
    by_cases he : k = n
    · subst he; omega
    · have := ih (by omega); omega


theorem listFrom_length (r : Rep) (first count t : Nat) : (listFrom r first count t).length = count := by
  induction count generalizing first t with
  | zero => simp [listFrom]
  | succ c ih => simp [listFrom, ih]


/-- ticks elapsed (plus offset) at the instant `x` ms after stream start: the argument of the edge search after the
carry into the wrap count -/
theorem edge_instant (a : Asset) (r : Rep) (hadm : a.loopMS * r.T = 1000 * r.dur) (hc : Closes a r)
    (x atoMS : Nat) (hl : 0 < a.loopMS) (hD : 0 < r.dur) :
    let relNow := (x % a.loopMS + atoMS) * r.T / 1000
    (x / a.loopMS + relNow / r.dur) * wrapDur a r + relNow % r.dur = (x + atoMS) * r.T / 1000 := by
  intro relNow
  rw [hc.1]
  have e1 : (x / a.loopMS + relNow / r.dur) * r.dur + relNow % r.dur = x / a.loopMS * r.dur + relNow := by
    rw [Nat.add_mul]
    have := Nat.div_add_mod relNow r.dur
    rw [Nat.mul_comm] at this
    omega
  rw [e1]
  have hx := Nat.div_add_mod x a.loopMS
  have e2 : (x + atoMS) * r.T = 1000 * (x / a.loopMS * r.dur) + (x % a.loopMS + atoMS) * r.T := by
    have : 1000 * (x / a.loopMS * r.dur) = x / a.loopMS * (a.loopMS * r.T) := by
      rw [hadm, Nat.mul_left_comm]
    rw [this, ← Nat.mul_assoc, ← Nat.add_mul, Nat.mul_comm (x / a.loopMS) a.loopMS]
    congr 1; omega
  rw [e2, Nat.mul_add_div (by decide : 0 < 1000)]

theorem edge_instant' (a : Asset) (r : Rep) (hadm : a.loopMS * r.T = 1000 * r.dur) (hc : Closes a r)
    (x atoMS : Nat) (hl : 0 < a.loopMS) (hD : 0 < r.dur) :
    (x / a.loopMS + (x % a.loopMS + atoMS) * r.T / 1000 / r.dur) * wrapDur a r + (x % a.loopMS + atoMS) * r.T / 1000 % r.dur
      = (x + atoMS) * r.T / 1000 := edge_instant a r hadm hc x atoMS hl hD

/-! ## the last listed entry -/

theorem sub_div_mul_add (x l s n : Nat) (hx : x = n - s) (hs : s ≤ n) : n - (x / l * l + s) = x % l := by
  have := Nat.div_add_mod x l
  have hm : x / l * l = l * (x / l) := Nat.mul_comm _ _
  omega

theorem calcWrapTimes_now (a : Asset) (startS nowMS tsbdS : Nat) (hnow : startS * 1000 ≤ nowMS) :
    (calcWrapTimes a startS nowMS tsbdS).nowWraps = (nowMS - startS * 1000) / a.loopMS ∧
    (calcWrapTimes a startS nowMS tsbdS).nowRelMS = (nowMS - startS * 1000) % a.loopMS :=
  ⟨rfl, sub_div_mul_add (nowMS - startS * 1000) a.loopMS (startS * 1000) nowMS rfl hnow⟩

theorem calcWrapTimes_start (a : Asset) (startS nowMS tsbdS : Nat) :
    ∃ xs, xs ≤ nowMS - startS * 1000 ∧ nowMS ≤ xs + tsbdS * 1000 + startS * 1000 ∧
    (calcWrapTimes a startS nowMS tsbdS).startWraps = xs / a.loopMS ∧
    (calcWrapTimes a startS nowMS tsbdS).startRelMS = xs % a.loopMS :=
  ⟨max (nowMS - tsbdS * 1000) (startS * 1000) - startS * 1000, by omega, by omega, rfl,
    sub_div_mul_add _ a.loopMS (startS * 1000) (max (nowMS - tsbdS * 1000) (startS * 1000)) rfl (Nat.le_max_right _ _)⟩

/-- **What `generateTimelineEntries` lists last**: nothing when no segment has ended at the instant (less the offset),
otherwise the list is not empty and its last number is the `k` with `E k ≤ τ < E (k+1)`, `τ` the instant in ticks. -/
theorem genTimeline_last (a : Asset) (r : Rep) (h : Contig r) (hc : Closes a r)
    (hadm : a.loopMS * r.T = 1000 * r.dur) (hl : 0 < a.loopMS)
    (startS nowMS tsbdS atoMS : Nat) (hnow : startS * 1000 ≤ nowMS) :
    ((genTimeline r (calcWrapTimes a startS nowMS tsbdS) atoMS).startNr = -1 ∧
      (genTimeline r (calcWrapTimes a startS nowMS tsbdS) atoMS).entries = [] ∧
      (nowMS - startS * 1000 + atoMS) * r.T / 1000 < E a r 0) ∨
    (∃ k : Nat, (genTimeline r (calcWrapTimes a startS nowMS tsbdS) atoMS).startNr +
        ((genTimeline r (calcWrapTimes a startS nowMS tsbdS) atoMS).entries.length : Int) - 1 = (k : Int) ∧
      0 ≤ (genTimeline r (calcWrapTimes a startS nowMS tsbdS) atoMS).startNr ∧
      (genTimeline r (calcWrapTimes a startS nowMS tsbdS) atoMS).entries ≠ [] ∧
      E a r k ≤ (nowMS - startS * 1000 + atoMS) * r.T / 1000 ∧
      (nowMS - startS * 1000 + atoMS) * r.T / 1000 < E a r (k + 1)) := by
  have hb := contig_stop_le_dur a r h hc 0 h.1
  have hD : 0 < r.dur := by rw [← hc.1]; omega
  have hD0 : ¬ r.dur = 0 := by omega
  obtain ⟨hnw, hnr⟩ := calcWrapTimes_now a startS nowMS tsbdS hnow
  obtain ⟨xs, hxs, _, hsw, hsr⟩ := calcWrapTimes_start a startS nowMS tsbdS
  unfold genTimeline
  simp only [hD0, ↓reduceIte, hnw, hnr, hsw, hsr]
  generalize hx : nowMS - startS * 1000 = x at *
  have hmodn : (x % a.loopMS + atoMS) * r.T / 1000 % r.dur < wrapDur a r := by rw [hc.1]; exact Nat.mod_lt _ hD
  have hmods : (xs % a.loopMS + atoMS) * r.T / 1000 % r.dur < wrapDur a r := by rw [hc.1]; exact Nat.mod_lt _ hD
  have ein := edge_instant' a r hadm hc x atoMS hl hD
  have eis := edge_instant' a r hadm hc xs atoMS hl hD
  cases hen : edgeIdx r (x / a.loopMS + (x % a.loopMS + atoMS) * r.T / 1000 / r.dur) ((x % a.loopMS + atoMS) * r.T / 1000 % r.dur) with
  | none =>
    left
    refine ⟨rfl, rfl, ?_⟩
    unfold edgeIdx at hen
    by_cases hf : finishedCount r.segs ((x % a.loopMS + atoMS) * r.T / 1000 % r.dur) = 0
    · rw [if_pos hf] at hen
      by_cases hw : x / a.loopMS + (x % a.loopMS + atoMS) * r.T / 1000 / r.dur = 0
      · have hnot := finishedCount_next_not_ended r.segs ((x % a.loopMS + atoMS) * r.T / 1000 % r.dur)
          (by rw [hf]; have := h.1; unfold Rep.N at this; exact this)
        rw [hf] at hnot
        rw [hw, Nat.zero_mul, Nat.zero_add] at ein
        rw [← ein]
        have e0 := E_decomp a r 0 0 h.1
        simp only [Nat.mul_zero, Nat.zero_add, Nat.zero_mul] at e0
        rw [e0]
        exact hnot
      · rw [if_neg hw] at hen; cases hen
    · rw [if_neg hf] at hen; cases hen
  | some p =>
    obtain ⟨nw', ni⟩ := p
    right
    have spn := edgeIdx_spec a r h hc _ _ nw' ni hmodn hen
    rw [ein] at spn
    obtain ⟨hni, hE1, hE2⟩ := spn
    -- the start edge is not after the now edge
    have hstart : ((edgeIdx r (xs / a.loopMS + (xs % a.loopMS + atoMS) * r.T / 1000 / r.dur)
        ((xs % a.loopMS + atoMS) * r.T / 1000 % r.dur)).getD (0, 0)).1 * r.N +
        ((edgeIdx r (xs / a.loopMS + (xs % a.loopMS + atoMS) * r.T / 1000 / r.dur)
        ((xs % a.loopMS + atoMS) * r.T / 1000 % r.dur)).getD (0, 0)).2 ≤ nw' * r.N + ni := by
      cases hes : edgeIdx r (xs / a.loopMS + (xs % a.loopMS + atoMS) * r.T / 1000 / r.dur)
          ((xs % a.loopMS + atoMS) * r.T / 1000 % r.dur) with
      | none => simp
      | some q =>
        obtain ⟨sw', si⟩ := q
        have sps := edgeIdx_spec a r h hc _ _ sw' si hmods hes
        rw [eis] at sps
        have hmono : (xs + atoMS) * r.T / 1000 ≤ (x + atoMS) * r.T / 1000 :=
          Nat.div_le_div_right (Nat.mul_le_mul_right _ (by omega))
        have hlt : E a r (r.N * sw' + si) < E a r (r.N * nw' + ni + 1) := by omega
        simp only [Option.getD_some]
        rcases Nat.lt_or_ge (r.N * sw' + si) (r.N * nw' + ni + 1) with hh | hh
        · rw [Nat.mul_comm sw', Nat.mul_comm nw']; omega
        · exfalso
          rcases Nat.eq_or_lt_of_le hh with he | hlt'
          · rw [he] at hlt; omega
          · have := E_strictMono a r h hc _ _ hlt'; omega
    generalize ((edgeIdx r (xs / a.loopMS + (xs % a.loopMS + atoMS) * r.T / 1000 / r.dur)
        ((xs % a.loopMS + atoMS) * r.T / 1000 % r.dur)).getD (0, 0)) = se0 at hstart
    simp only []
    generalize hsn : se0.1 * r.N + se0.2 = startNr at hstart
    have hlen : (listFrom r startNr (nw' * r.N + ni + 1 - startNr) (r.dur * se0.1 + (r.seg se0.2).start)).length
        = nw' * r.N + ni + 1 - startNr := listFrom_length _ _ _ _
    have hne : (listFrom r startNr (nw' * r.N + ni + 1 - startNr) (r.dur * se0.1 + (r.seg se0.2).start)).isEmpty = false := by
      rw [List.isEmpty_eq_false_iff]; intro hnil; rw [hnil] at hlen; simp at hlen; omega
    simp only [hne, Bool.false_eq_true, ↓reduceIte]
    refine ⟨nw' * r.N + ni, ?_, by omega, ?_, ?_, ?_⟩
    · rw [hlen]; omega
    · intro hnil; rw [hnil] at hlen; simp at hlen; omega
    · rw [Nat.mul_comm nw']; exact hE1
    · rw [Nat.mul_comm nw']; exact hE2


/-- **What `generateTimelineEntries` lists first**: when anything is listed, the first number `s` is either 0 with
segment 0 not yet ended at the start of the window, or the newest segment that has ended there:
`E s ≤ τs < E (s+1)`, where `τs` is the window start (less the offset) in ticks, `xs` ms after the stream start with
`now − tsbd ≤ start + xs`. -/
theorem genTimeline_first (a : Asset) (r : Rep) (h : Contig r) (hc : Closes a r)
    (hadm : a.loopMS * r.T = 1000 * r.dur) (hl : 0 < a.loopMS)
    (startS nowMS tsbdS atoMS : Nat) (hnow : startS * 1000 ≤ nowMS)
    (hne : (genTimeline r (calcWrapTimes a startS nowMS tsbdS) atoMS).entries ≠ []) :
    ∃ (s xs : Nat), (genTimeline r (calcWrapTimes a startS nowMS tsbdS) atoMS).startNr = (s : Int) ∧
      nowMS ≤ xs + tsbdS * 1000 + startS * 1000 ∧
      (((xs + atoMS) * r.T / 1000 < E a r 0 ∧ s = 0) ∨
       (E a r s ≤ (xs + atoMS) * r.T / 1000 ∧ (xs + atoMS) * r.T / 1000 < E a r (s + 1))) := by
  have hb := contig_stop_le_dur a r h hc 0 h.1
  have hD : 0 < r.dur := by rw [← hc.1]; omega
  have hD0 : ¬ r.dur = 0 := by omega
  obtain ⟨hnw, hnr⟩ := calcWrapTimes_now a startS nowMS tsbdS hnow
  obtain ⟨xs, hxs, hxlo, hsw, hsr⟩ := calcWrapTimes_start a startS nowMS tsbdS
  unfold genTimeline at hne ⊢
  simp only [hD0, ↓reduceIte, hnw, hnr, hsw, hsr] at hne ⊢
  generalize hx : nowMS - startS * 1000 = x at *
  have hmods : (xs % a.loopMS + atoMS) * r.T / 1000 % r.dur < wrapDur a r := by rw [hc.1]; exact Nat.mod_lt _ hD
  have eis := edge_instant' a r hadm hc xs atoMS hl hD
  cases hen : edgeIdx r (x / a.loopMS + (x % a.loopMS + atoMS) * r.T / 1000 / r.dur) ((x % a.loopMS + atoMS) * r.T / 1000 % r.dur) with
  | none => rw [hen] at hne; exact absurd rfl hne
  | some p =>
    obtain ⟨nw', ni⟩ := p
    simp only []
    cases hes : edgeIdx r (xs / a.loopMS + (xs % a.loopMS + atoMS) * r.T / 1000 / r.dur)
        ((xs % a.loopMS + atoMS) * r.T / 1000 % r.dur) with
    | none =>
      refine ⟨0, xs, by simp, hxlo, Or.inl ⟨?_, rfl⟩⟩
      unfold edgeIdx at hes
      by_cases hf : finishedCount r.segs ((xs % a.loopMS + atoMS) * r.T / 1000 % r.dur) = 0
      · rw [if_pos hf] at hes
        by_cases hw : xs / a.loopMS + (xs % a.loopMS + atoMS) * r.T / 1000 / r.dur = 0
        · have hnot := finishedCount_next_not_ended r.segs ((xs % a.loopMS + atoMS) * r.T / 1000 % r.dur)
            (by rw [hf]; have := h.1; unfold Rep.N at this; exact this)
          rw [hf] at hnot
          rw [hw, Nat.zero_mul, Nat.zero_add] at eis
          rw [← eis]
          have e0 := E_decomp a r 0 0 h.1
          simp only [Nat.mul_zero, Nat.zero_add, Nat.zero_mul] at e0
          rw [e0]
          exact hnot
        · rw [if_neg hw] at hes; cases hes
      · rw [if_neg hf] at hes; cases hes
    | some q =>
      obtain ⟨sw', si⟩ := q
      have sps := edgeIdx_spec a r h hc _ _ sw' si hmods hes
      rw [eis] at sps
      refine ⟨sw' * r.N + si, xs, by simp, hxlo, Or.inr ⟨?_, ?_⟩⟩
      · rw [Nat.mul_comm sw']; exact sps.2.1
      · rw [Nat.mul_comm sw']; exact sps.2.2

end Core
