/-!
# Model of `pkg/scte35.CreateEmsgAhead`

All quantities are `Nat` in the media timescale `T`.  The candidate list is `offsets N` (seconds after the
full minute of `segStart`) followed by the next minute's first splice (`70`), first match wins.
-/
namespace Scte

/-- splice offsets in seconds after the full minute (documented schedule) -/
def offsets : Nat → List Nat
  | 1 => [10]
  | 2 => [10, 40]
  | 3 => [10, 36, 46]
  | _ => []

def validN (n : Nat) : Bool := n == 1 || n == 2 || n == 3

/-- ad duration in seconds -/
def adDurS (n : Nat) : Nat := if n = 1 then 20 else 10

/-- announce lead in seconds -/
def lead : Nat := 7

structure Ev where
  splice : Nat        -- emsg presentation_time (ticks)
  id : Nat            -- emsg id / splice_event_id
  dur : Nat           -- emsg event_duration (ticks)
  pts : Nat           -- splice_insert pts_time (90 kHz, mod 2^33)
  brk : Nat           -- break_duration (90 kHz)
  adj : Nat           -- pts_adjustment of the section (0: the section PTS follows the command's)
  deriving Repr, DecidableEq

def mkEv (splice T n : Nat) : Ev :=
  { splice := splice, id := (splice / T) % 4294967296, dur := (adDurS n * T) % 4294967296,
    pts := ((splice * 90000) % 18446744073709551616 / T) % 8589934592,   -- uint64 product, then mod 2^33
    brk := adDurS n * T * 90000 / T, adj := 0 }

/-- first candidate whose announce instant lies in (s, e] -/
def firstHit (s e T : Nat) : List Nat → Option Nat
  | [] => none
  | sit :: rest => if s < sit - lead * T ∧ sit - lead * T ≤ e then some sit else firstHit s e T rest

/-- candidate splice times for a segment starting at `s` (`minuteStart + off·T`, then next minute's first) -/
def candidates (s T n : Nat) : List Nat :=
  let minuteStart := s - s % (60 * T)
  (offsets n).map (fun o => minuteStart + o * T) ++ [minuteStart + 70 * T]

inductive Res | invalid | none | ev (e : Ev)
  deriving Repr, DecidableEq

def createEmsgAhead (s e T n : Nat) : Res :=
  if !validN n then .invalid else
  match firstHit s e T (candidates s T n) with
  | some sit => .ev (mkEv sit T n)
  | none => .none

/-! ## specification: the per-minute schedule -/

/-- announce instant of the event with offset `o` s of minute `m` (ticks) -/
def announce (T m o : Nat) : Nat := (60 * m + o - lead) * T

/-- splice instant of the event with offset `o` s of minute `m` (ticks) -/
def spliceAt (T m o : Nat) : Nat := (60 * m + o) * T

end Scte
