import LivesimVerif.Model.Mpd
/-!
# Model of audio re-segmentation (`audiosegmentation.go`, audio branch of `livesegment.go`)

`audioTimeFromRef` is in `Model/Mpd.lean`.  Here: `calcAudioSegRecipe`, `createAudioSeg` (which VoD frames make up
an output audio segment), `findRefSegMetaFromTime`.  A frame is identified by its global index in the VoD audio
(concatenation of the VoD audio segments); a padding frame repeats the last frame of a VoD segment.
`none` = run-time panic.
-/
namespace Core

structure Recipe where
  segNr : Nat
  start : Nat
  stop : Nat
  inStart : Nat
  inEnd : Nat
  inEndAfterWrap : Nat
  deriving Repr, DecidableEq

/-- `calcAudioSegRecipe` -/
def audioRecipe (refNr refStart refEnd refTotalDur refT : Nat) (r : Rep) : Recipe :=
  let fd := r.constSampleDur
  let aStart := audioTimeFromRef refStart refT fd r.T
  let aEnd := audioTimeFromRef refEnd refT fd r.T
  let wStart := audioTimeFromRef (refStart / refTotalDur * refTotalDur) refT fd r.T
  let wEnd := audioTimeFromRef (refEnd / refTotalDur * refTotalDur) refT fd r.T
  let inStart := aStart - wStart
  if wEnd > wStart then
    if aEnd < wEnd + fd then ⟨refNr, aStart, aEnd, inStart, aEnd - wStart, 0⟩
    else ⟨refNr, aStart, aEnd, inStart, wEnd - wStart, aEnd - wEnd⟩
  else ⟨refNr, aStart, aEnd, inStart, inStart + (aEnd - aStart), 0⟩

structure Itvl where
  seg : Nat
  startIdx : Nat
  endIdx : Nat
  fill : Nat
  deriving Repr, DecidableEq

/-- set the end index of the last interval -/
def setLastEnd (l : List Itvl) (e : Nat) : List Itvl :=
  match l.reverse with
  | [] => []
  | x :: rest => (({ x with endIdx := e }) :: rest).reverse

def setLastFill (l : List Itvl) (f : Nat) : List Itvl :=
  match l.reverse with
  | [] => []
  | x :: rest => (({ x with fill := f }) :: rest).reverse

def lastDur (l : List Itvl) (fd : Nat) : Nat :=
  match l.getLast? with
  | some x => (x.endIdx - x.startIdx) * fd
  | none => 0

structure Collect where
  itvls : List Itvl
  collected : Nat
  nextStart : Nat
  deriving Repr

/-- the first loop of `createAudioSeg` over VoD segments `i … lastIdx`; `none` = index panic
(`sampleItvls[len-1]` on an empty list) -/
def collectLoop (r : Rep) (rec : Recipe) (fd : Nat) : Nat → Nat → Collect → Option Collect
  | 0, _, c => some c
  | fuel+1, i, c =>
    if i ≥ r.N then some c else
    let s := r.seg i
    if s.stop ≤ rec.inStart then collectLoop r rec fd fuel (i+1) c else
    let c1 : Collect := if c.nextStart < s.stop ∧ c.itvls.isEmpty then
        { c with itvls := c.itvls ++ [⟨i, (c.nextStart - s.start) / fd, 0, 0⟩] } else c
    if c1.itvls.isEmpty then none else
    if rec.inEnd ≥ s.stop then
      let its := setLastEnd c1.itvls ((s.stop - s.start) / fd)
      let c2 : Collect := { itvls := its, collected := c1.collected + lastDur its fd, nextStart := s.stop }
      if c2.nextStart = rec.inEnd then some c2
      else if i < r.N - 1 then collectLoop r rec fd fuel (i+1) { c2 with itvls := c2.itvls ++ [⟨i+1, 0, 0, 0⟩] }
      else
        let fillTime := rec.inEnd - s.stop
        some { c2 with itvls := setLastFill c2.itvls (fillTime / fd), collected := c2.collected + fillTime }
    else
      -- (`fix:` commit) end index relative to the segment start
      let its := setLastEnd c1.itvls ((rec.inEnd - s.start) / fd)
      some { c1 with itvls := its, collected := c1.collected + lastDur its fd }

/-- the after-wrap loop -/
def afterWrapLoop (r : Rep) (after fd : Nat) : Nat → Nat → List Itvl → List Itvl
  | 0, _, l => l
  | fuel+1, i, l =>
    if i ≥ r.N then l else
    let s := r.seg i
    if after < s.stop then setLastEnd l ((after - s.start) / fd)
    else afterWrapLoop r after fd fuel (i+1) (setLastEnd l ((s.stop - s.start) / fd) ++ [⟨i+1, 0, 0, 0⟩])

inductive AudioSeg
  | ok (nr start : Nat) (frames : List Nat)
  | err                      -- HTTP 500 ("audioLeft != audioInEndAfterWrap")
  | panic
  deriving Repr, DecidableEq

/-- number of frames in VoD audio segment i, and global index of its first frame -/
def segFrames (r : Rep) (fd i : Nat) : Nat := ((r.seg i).stop - (r.seg i).start) / fd
def frameBase (r : Rep) (fd : Nat) : Nat → Nat
  | 0 => 0
  | i+1 => frameBase r fd i + segFrames r fd i

/-- frames of one interval; `none` = slice bounds / index panic -/
def itvlFrames (r : Rep) (fd : Nat) (x : Itvl) : Option (List Nat) :=
  if x.seg ≥ r.N then none else
  let n := segFrames r fd x.seg
  if x.startIdx > x.endIdx ∨ x.endIdx > n then none else
  if x.fill > 0 ∧ n = 0 then none else
  some ((List.range' (frameBase r fd x.seg + x.startIdx) (x.endIdx - x.startIdx)) ++
        List.replicate x.fill (frameBase r fd x.seg + n - 1))

/-- `createAudioSeg` -/
def createAudioSeg (r : Rep) (rec : Recipe) : AudioSeg :=
  let fd := r.constSampleDur
  if fd = 0 ∨ r.dur = 0 then .panic else
  let startNr0 := rec.inStart / r.dur
  if startNr0 ≥ r.N then .panic else
  -- step back while the segment starts after audioInStart (cannot go below 0: segs[0].start ≤ anything reached)
  let rec back (n : Nat) : Nat → Option Nat
    | 0 => some n
    | f+1 => if (r.seg n).start > rec.inStart then (if n = 0 then none else back (n-1) f) else some n
  match back startNr0 (r.N + 1) with
  | none => .panic
  | some startNr =>
  match collectLoop r rec fd (r.N + 1) startNr ⟨[], 0, rec.inStart⟩ with
  | none => .panic
  | some c =>
    let audioLeft := rec.stop - rec.start - c.collected
    if audioLeft ≠ rec.inEndAfterWrap then .err else
    let its := if rec.inEndAfterWrap > 0 then afterWrapLoop r rec.inEndAfterWrap fd (r.N + 1) 0 (c.itvls ++ [⟨0, 0, 0, 0⟩]) else c.itvls
    match its.mapM (itvlFrames r fd) with
    | none => .panic
    | some fs => .ok rec.segNr rec.start fs.flatten

/-- `findRefSegMetaFromTime` (with the `fix:` commit adding the stream start to the availability test) -/
def refByTime (a : Asset) (ref r : Rep) (cfg : Cfg) (t nowMS : Nat) : Lookup :=
  if r.constSampleDur = 0 then .status .internal else
  if t % r.constSampleDur ≠ 0 then .status .internal else
  if r.T = 0 ∨ ref.dur = 0 then .status .panic else
  let refTime := t * ref.T / r.T
  let wraps := refTime / ref.dur
  let after := refTime - wraps * ref.dur
  -- relNr := after / refTotDur = 0; the first loop leaves it at 0; the second walks forward to the first segment ending after `after`
  match (List.range ref.N).find? (fun i => (ref.seg i).stop > after) with
  | none => .status .panic         -- walks off the table
  | some i =>
    let s := ref.seg i
    let endT := wraps * ref.dur + s.stop
    if endT = 0 then .status .internal else
    match checkTime (endT + cfg.startS * ref.T) ref.T nowMS cfg.tsbdS cfg.ato with
    | .ok => .found { origIdx := i, origNr := s.nr, origTime := s.start,
                      newNr := ((i + wraps * ref.N) % 4294967296 + cfg.startNr % 4294967296) % 4294967296,
                      newTime := wraps * ref.dur + s.start, newDur := (s.stop - s.start) % 4294967296, T := ref.T }
    | st => .status st

/-- the reference-segment lookup of the audio branch of `createOutSeg` -/
def audioLookup (a : Asset) (ref r : Rep) (cfg : Cfg) (segId nowMS : Nat) : Lookup :=
  match cfg.mpdType with
  | .timelineTime => refByTime a ref r cfg segId nowMS
  | _ =>
    let nr := segId % 4294967296
    if nr < cfg.startNr % 4294967296 then .status .notFound else byNr a ref cfg nr nowMS   -- (`fix:` commit: 404 guard)

/-- the audio branch of `createOutSeg` -/
def audioSegment (a : Asset) (r : Rep) (cfg : Cfg) (segId nowMS : Nat) : AudioSeg ⊕ Status :=
  match a.ref? with
  | none => .inr .panic
  | some ref =>
    match audioLookup a ref r cfg segId nowMS with
    | .status s => .inr s
    | .found m =>
      if ref.dur = 0 ∨ ref.T = 0 then .inr .panic else
      .inl (createAudioSeg r (audioRecipe m.newNr m.newTime (m.newTime + m.newDur) ref.dur ref.T r))

end Core
