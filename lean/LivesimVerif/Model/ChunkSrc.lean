/-!
# Model of the chunked-transfer source of the CMAF-ingest sender (`cmaf-ingester.go: cmafSource.Write / Read`)

The HTTP response writer of livesim2's own segment handler (`Write`) and the body reader of the outgoing PUT request
(`Read`) meet in a fixed buffer of `cap` bytes.  `Write b` copies at most `cap` bytes per round into the buffer and
tells the reader how many (`nrBytesCh`); the reader hands them to the HTTP client in pieces of whatever size the client
asks for, and only when the round is used up lets the writer go on (`writeMoreCh`).  `-1` on `nrBytesCh` ends the body.

The two goroutines rendezvous on unbuffered channels, so the interleaving is determined by the reader: the model is a
sequential machine driven by `read k` (k = `len(p)` of the client's buffer).  Bytes are `Nat`s.

* `avail`  = `buf[offset:bufLevel]`, what is left of the current round
* `cur`    = what is left of the `Write` in progress (not yet copied to the buffer)
* `queue`  = the later `Write` calls (one per low-latency chunk)
-/
namespace ChunkSrc

structure Src where
  cap : Nat
  avail : List Nat
  cur : List Nat
  queue : List (List Nat)
  deriving Repr, DecidableEq

/-- everything the source still has to deliver, in order -/
def Src.stream (s : Src) : List Nat := s.avail ++ s.cur ++ s.queue.flatten

/-- the reader waits on `nrBytesCh`: the writer's next round (`none` = the `-1` that ends the body).
A `Write` whose data is used up returns; the next `Write` (if any) starts its first round — which for an empty slice is a
round of 0 bytes. -/
def Src.refill (s : Src) : Option Src :=
  match s.cur with
  | [] =>
    match s.queue with
    | [] => none
    | w :: q => some { s with avail := w.take s.cap, cur := w.drop s.cap, queue := q }
  | x :: c => some { s with avail := (x :: c).take s.cap, cur := (x :: c).drop s.cap }

/-- `Read(p)` with `len(p) = k`: `none` = `(0, io.EOF)` -/
def Src.read (s : Src) (k : Nat) : Src × Option (List Nat) :=
  if s.avail.isEmpty then
    match s.refill with
    | none => (s, none)
    | some s' => ({ s' with avail := s'.avail.drop k }, some (s'.avail.take k))
  else ({ s with avail := s.avail.drop k }, some (s.avail.take k))

/-- the body the HTTP client assembles from a sequence of reads (it stops at EOF) -/
def Src.body (s : Src) : List Nat → List Nat
  | [] => []
  | k :: ks =>
    match s.read k with
    | (_, none) => []
    | (s', some out) => out ++ s'.body ks

/-- number of reads after which EOF has been seen (used by the driver) -/
def Src.trace (s : Src) : List Nat → List (Option (List Nat))
  | [] => []
  | k :: ks =>
    match s.read k with
    | (s', none) => none :: s'.trace ks
    | (s', some out) => some out :: s'.trace ks

def start (cap : Nat) (writes : List (List Nat)) : Src := ⟨cap, [], [], writes⟩

end ChunkSrc
