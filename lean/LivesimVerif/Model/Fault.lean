import LivesimVerif.Model.Audio
/-!
# Model of the fault-injection parameters (`handler_livesim.go: calcStatusCode`, `configurl.go: LossItvls`)
-/
namespace Core

/-! ## traffic patterns -/

/-- loss states: 1 up, 2 down (404), 3 slow, 4 hang (0 = unknown) -/
abbrev LossItvl := Nat × Nat      -- (state, durS)

/-- `maxTimeS` (2^36): the bound on one interval's duration -/
def maxLossDur : Nat := 68719476736

/-- `CreateLossItvls` on the characters of a pattern like `u20d3u12`; `none` = rejected -/
def parseLossAux : List Char → Nat → Nat → List LossItvl → Option (List LossItvl)
  | [], st, dur, acc =>
    if st ≠ 0 then (if dur = 0 then none else some (acc ++ [(st, dur)])) else some acc
  | c :: rest, st, dur, acc =>
    let newSt : Option Nat := if c = 'u' then some 1 else if c = 'd' then some 2 else if c = 's' then some 3 else if c = 'h' then some 4 else none
    match newSt with
    | some n =>
      if st ≠ 0 then (if dur = 0 then none else parseLossAux rest n 0 (acc ++ [(st, dur)]))
      else parseLossAux rest n 0 acc
    | none =>
      if c.isDigit then
        (if dur * 10 + (c.toNat - '0'.toNat) > maxLossDur then none   -- `fix:` 2^36 bound (`maxTimeS`)
         else parseLossAux rest st (dur * 10 + (c.toNat - '0'.toNat)) acc)
      else none

/-- `CreateLossItvls` (with the `fix:` commit: an empty pattern is rejected) -/
def parseLoss (s : String) : Option (List LossItvl) :=
  match parseLossAux s.toList 0 0 [] with
  | some [] => none
  | r => r

def cycleDur (l : List LossItvl) : Nat := (l.map (·.2)).foldl (· + ·) 0

/-- the walk of `StateAt` over the intervals with the remaining offset -/
def stateIn : List LossItvl → Nat → Nat
  | [], _ => 0
  | (st, d) :: rest, x => if x < d then st else stateIn rest (x - d)

/-- `StateAt(nowS)`; `none` = division by zero -/
def stateAt (l : List LossItvl) (nowS : Nat) : Option Nat :=
  if cycleDur l = 0 then none else some (stateIn l (nowS % cycleDur l))

/-! ## status-code patterns -/

structure Pat where
  cycle : Nat
  rsq : Nat
  code : Nat
  rep : Option String
  deriving Repr

def strContains (s sub : String) : Bool := (s.splitOn sub).length > 1 || sub.isEmpty

def repInReps (id : String) (p : Pat) : Bool :=
  match p.rep with
  | none => true
  | some r => strContains id r

/-- `findSegMeta` + the representation the look-ups continue with -/
def findSegMeta (a : Asset) (r : Rep) (cfg : Cfg) (segId nowMS : Nat) : Lookup × Option Rep :=
  if r.kind = .audio then
    match a.ref? with
    | none => (.status .panic, none)
    | some ref =>
      match cfg.mpdType with
      | .timelineTime => (refByTime a ref r cfg segId nowMS, some ref)
      | _ =>
        let nr := segId % 4294967296
        if nr < cfg.startNr % 4294967296 then (.status .notFound, some ref) else (byNr a ref cfg nr nowMS, some ref)
  else (lookupVideo a r cfg segId nowMS, some r)

/-- `findLastSegNr`: newest ended segment (0-based) at `nowMS`, −2 when nothing has ended -/
def findLastSegNr (a : Asset) (cfg : Cfg) (nowMS : Nat) (r : Rep) : Int :=
  let se := genTimeline r (calcWrapTimes a cfg.startS nowMS 60) 0
  se.startNr + se.entries.length - 1

/-- `findSegStartTime` for the 0-based index `k` -/
def findSegStartTime (a : Asset) (r : Rep) (k : Nat) : Nat :=
  (k / r.N) * wrapDur a r + (r.seg (k - k / r.N * r.N)).start

inductive CodeRes
  | code (c : Nat)          -- configured status code
  | normal                  -- no pattern applies: serve normally
  | status (s : Status)     -- look-up failed
  deriving Repr, DecidableEq

/-- the first segment (0-based) of the cycle that contains `newTime`: the loop body of `calcStatusCode` up to
`firstNr` -/
def cycleFirst (a : Asset) (cfg : Cfg) (mrep : Rep) (cycle T newTime : Nat) : Nat :=
  let nrWraps := newTime / (cycle * T)
  let wrapStartS := nrWraps * cycle
  let firstNr0 : Int := if nrWraps > 0 then findLastSegNr a cfg ((wrapStartS + cfg.startS) * 1000) mrep + 1 else 0
  let f0 := firstNr0.toNat          -- (`fix:` commit) clamped at 0 when no segment has ended at the cycle start
  if findSegStartTime a mrep f0 < wrapStartS * T then f0 + 1 else f0

/-- the pattern loop of `calcStatusCode` -/
def codeGo (a : Asset) (r : Rep) (cfg : Cfg) (m : Meta) (mrep : Rep) : List Pat → CodeRes
  | [] => .normal
  | p :: rest =>
    if !repInReps r.id p then codeGo a r cfg m mrep rest else
    if p.cycle * m.T = 0 then .status .panic else
    let firstNr := cycleFirst a cfg mrep p.cycle m.T m.newTime
    -- newNr is the 32-bit request number; the index is relative to the configured startNumber
    if m.newNr < cfg.startNr + firstNr then .status .internal else
    if m.newNr - cfg.startNr - firstNr = p.rsq then .code p.code else codeGo a r cfg m mrep rest

/-- `calcStatusCode` (with the `fix:` commits) -/
def calcStatusCode (a : Asset) (r : Rep) (cfg : Cfg) (segId nowMS : Nat) (pats : List Pat) : CodeRes :=
  match findSegMeta a r cfg segId nowMS with
  | (.status s, _) => .status s
  | (.found _, none) => .status .panic
  | (.found m, some mrep) =>
    if mrep.N = 0 then .status .panic else codeGo a r cfg m mrep pats

end Core
