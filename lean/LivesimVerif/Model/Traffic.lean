import LivesimVerif.Model.Cfg
/-!
# Model of the BaseURL part of a segment request under traffic patterns
(`handler_livesim.go: extractPattern` and the traffic branch of `livesimHandlerFunc`; `configurl.go: baseURL`)

The MPD offers the BaseURLs `bu0/ … bu{n-1}/` (one per pattern).  A segment request carries the directory in front of the
representation part; `extractPattern` takes it off and returns the index, the handler answers 404 for an index that has
no pattern, and otherwise consults the pattern's state at the whole second of the request.
-/
namespace Traffic
open Core

/-- `baseURL(nr)`: the directory the MPD offers for pattern `nr` (without the trailing slash) -/
def baseURLDir (nr : Nat) : List Char := 'b' :: 'u' :: Nat.toDigits 10 nr

/-- `extractPattern(segmentPart)`; `segmentPart` starts with the slash after the asset path.  `none` = the index panic of
`parts[1]` on a part without any slash (cannot happen: the asset path is a proper prefix of the request path). -/
def extractPattern (p : List Char) : Option (Int × List Char) :=
  match p with
  | '/' :: rest =>
    let dir := rest.takeWhile (· ≠ '/')
    let tail := rest.dropWhile (· ≠ '/')          -- empty, or starts with the next slash
    match dir with
    | 'b' :: 'u' :: num =>
      match Cfg.atoiL num with
      | some nr => some (nr, tail)
      | none => some (-1, p)
    | _ => some (-1, p)
  | _ => none

inductive Decision
  | noSuchBaseURL            -- 404
  | state (s : Nat)          -- 1 up, 2 down (404), 3 slow, 4 hang
  | noPattern                -- no BaseURL directory (or a negative index): served as usual
  | crash                    -- StateAt divides by zero / parts[1] out of range
  deriving Repr, DecidableEq

/-- the traffic branch of the handler: decision and the segment part handed on -/
def route (pats : List (List LossItvl)) (p : List Char) (nowMS : Nat) : Decision × List Char :=
  match extractPattern p with
  | none => (.crash, p)
  | some (nr, p') =>
    if nr ≥ (pats.length : Int) then (.noSuchBaseURL, p')
    else if nr ≥ 0 then
      match stateAt (pats.getD nr.toNat []) (nowMS / 1000) with
      | some s => (.state s, p')
      | none => (.crash, p')
    else (.noPattern, p')

/-- HTTP status of a request whose remaining segment part addresses an available segment (slow = 200 after 2 s) -/
def Decision.code : Decision → Nat
  | .noSuchBaseURL => 404
  | .state 1 => 200
  | .state 2 => 404
  | .state 3 => 200
  | .state 4 => 503
  | .state _ => 500
  | .noPattern => 200
  | .crash => 0

end Traffic
