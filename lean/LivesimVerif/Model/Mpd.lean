import LivesimVerif.Model.Core
/-!
# Model of the live MPD (`livempd.go`, `asset.go: generateTimelineEntries*`)

The abstract MPD is the projection of the served document onto the fields that `LiveMPD` writes: type,
availabilityStartTime, publishTime, mediaPresentationDuration, and per Period / AdaptationSet the SegmentTemplate
(media kind, startNumber, timescale, duration, presentationTimeOffset, availabilityTimeOffset, SegmentTimeline).
Everything else is copied from the VoD MPD and does not depend on the instant.
-/
namespace Core

structure WrapTimes where
  startWraps : Nat
  startTimeMS : Nat
  startRelMS : Nat
  nowMS : Nat
  nowWraps : Nat
  nowRelMS : Nat
  deriving Repr, DecidableEq

/-- `calcWrapTimes` (`nowMS ≥ 1000·startS` is guaranteed by the handler's pre-check) -/
def calcWrapTimes (a : Asset) (startS nowMS tsbdS : Nat) : WrapTimes :=
  let startMS := startS * 1000
  let stMS := max (nowMS - tsbdS * 1000) startMS
  let sw := (stMS - startMS) / a.loopMS
  let nw := (nowMS - startMS) / a.loopMS
  { startWraps := sw, startTimeMS := stMS, startRelMS := stMS - (sw * a.loopMS + startMS),
    nowMS := nowMS, nowWraps := nw, nowRelMS := nowMS - (nw * a.loopMS + startMS) }

/-- number of leading segments that have ended at `t` (`findFirstFinishedSegIdx` + 1 on a sorted table) -/
def finishedCount : List Seg → Nat → Nat
  | [], _ => 0
  | s :: rest, t => if s.stop ≤ t then finishedCount rest t + 1 else 0

/-- the `(wraps, relIdx)` adjustment of `generateTimelineEntries`; `none` = "wraps went below zero" -/
def edgeIdx (r : Rep) (wraps rel : Nat) : Option (Nat × Nat) :=
  if finishedCount r.segs rel = 0 then
    (if wraps = 0 then none else some (wraps - 1, r.N - 1))
  else some (wraps, finishedCount r.segs rel - 1)

structure LastSeg where
  start : Nat
  dur : Nat
  nr : Int
  deriving Repr, DecidableEq

structure SegEntries where
  startNr : Int                      -- −1 when nothing is listed
  entries : List (Nat × Nat)         -- expanded (t, d)
  lsi : LastSeg
  T : Nat
  deriving Repr, DecidableEq

/-- durations of the segments `first, first+1, …` (count of them) -/
def listFrom (r : Rep) (first count t : Nat) : List (Nat × Nat) :=
  match count with
  | 0 => []
  | c+1 =>
    let d := (r.seg (first % r.N)).stop - (r.seg (first % r.N)).start
    (t, d) :: listFrom r (first + 1) c (t + d)

/-- `generateTimelineEntries` (atoMS finite) -/
def genTimeline (r : Rep) (wt : WrapTimes) (atoMS : Nat) : SegEntries :=
  -- (`fix:` commit) the offset is added in ms, one floor conversion to ticks
  let relStart := (wt.startRelMS + atoMS) * r.T / 1000
  let relNow := (wt.nowRelMS + atoMS) * r.T / 1000
  -- start edge: clamped to (0, 0) when it would go before the start
  -- (`fix:` commit) the offset may reach into the next loop: carry into the wrap count
  let carry (w rel : Nat) : Nat × Nat := if r.dur = 0 then (w, rel) else (w + rel / r.dur, rel % r.dur)
  let se := (edgeIdx r (carry wt.startWraps relStart).1 (carry wt.startWraps relStart).2).getD (0, 0)
  match edgeIdx r (carry wt.nowWraps relNow).1 (carry wt.nowWraps relNow).2 with
  | none => { startNr := -1, entries := [], lsi := ⟨0, 0, -1⟩, T := r.T }
  | some (nw, ni) =>
    let startNr := se.1 * r.N + se.2
    let nowNr := nw * r.N + ni
    let t0 := r.dur * se.1 + (r.seg se.2).start
    let es := listFrom r startNr (nowNr + 1 - startNr) t0
    -- when nowNr < startNr the Go loop still emits the first entry
    let es := if es.isEmpty then [(t0, (r.seg se.2).stop - (r.seg se.2).start)] else es
    let lastE := es.getLast?.getD (t0, 0)
    { startNr := startNr, entries := es,
      lsi := ⟨lastE.1, lastE.2, if nowNr < startNr then startNr else nowNr⟩, T := r.T }

/-- `calcAudioTimeFromRef` -/
def audioTimeFromRef (refTime refT frameDur audT : Nat) : Nat :=
  let t := (refTime * audT / refT) / frameDur * frameDur
  if t * refT < refTime * audT then t + frameDur else t

/-- boundaries → (t, d) list -/
def fromBounds : List Nat → List (Nat × Nat)
  | a :: b :: rest => (a, b - a) :: fromBounds (b :: rest)
  | _ => []

/-- `generateTimelineEntriesFromRef` -/
def genTimelineFromRef (refSE : SegEntries) (r : Rep) : SegEntries :=
  if refSE.startNr < 0 then { refSE with entries := [], T := r.T } else
  match refSE.entries with
  | [] => { refSE with entries := [], T := r.T }
  | (t0, _) :: _ =>
    let refBounds := t0 :: refSE.entries.map (fun e => e.1 + e.2)
    let b := refBounds.map (fun x => audioTimeFromRef x refSE.T r.sampleDur r.T)
    { refSE with entries := fromBounds b, T := r.T }

/-- what the VoD MPD says about an AdaptationSet (document order) -/
structure ASDef where
  kind : Kind
  rep : String              -- first Representation
  vodDur : Option Nat       -- SegmentTemplate@duration
  vodTs : Nat               -- SegmentTemplate@timescale (1 if absent)
  deriving Repr

structure ASOut where
  kind : Kind
  rep : String
  timeAddr : Bool                    -- media uses $Time$
  startNr : Option Nat
  ts : Nat
  dur : Option Nat
  tl : Option (List (Nat × Nat))
  pto : Option Nat := none           -- presentationTimeOffset (multi-period only)
  cont : Bool := false               -- period-continuity SupplementalProperty
  deriving Repr, DecidableEq

structure PeriodOut where
  id : Nat                            -- "P{id}"
  startS : Nat
  sets : List ASOut
  deriving Repr, DecidableEq

structure MpdOut where
  dynamic : Bool
  astS : Nat
  ptMS : Nat                          -- publishTime in ms
  durS : Option Nat                   -- mediaPresentationDuration (static only)
  periods : List PeriodOut
  deriving Repr, DecidableEq

inductive MpdRes | ok (m : MpdOut) | err | panic
  deriving Repr

/-- `round(x / T)` half away from zero -/
def roundDiv (x T : Nat) : Nat := (2 * x + T) / (2 * T)

/-- `lastSegAvailTimeS` in ms (`fix:` commit): first whole millisecond at which the last listed segment has ended,
minus ato, not before the start -/
def lastSegAvailMS (startS atoMS : Nat) (T : Nat) (lsi : LastSeg) : Nat :=
  if lsi.nr < 0 then startS * 1000
  else (((lsi.start + lsi.dur) * 1000 + T - 1) / T + startS * 1000) - atoMS |> max (startS * 1000)

/-- the instant (ms) at which the first listed entry `(t, d)` became the first one: its end passed the start of the
window, `end + tsbd − ato`; if that is still ahead of `nowMS` it has been first since the start of the stream -/
def firstChangeMS (startS atoMS tsbdMS nowMS T : Nat) (first : Nat × Nat) : Nat :=
  let t := ((first.1 + first.2) * 1000 + T - 1) / T + startS * 1000 + tsbdMS - atoMS
  if t ≤ nowMS then t else startS * 1000

/-- `calcPublishTimeMS` (`fix:` commit): the later of the two instants at which the timeline last changed -/
def publishMS (startS atoMS tsbdMS nowMS T : Nat) (startNr : Int) (lsi : LastSeg) (entries : List (Nat × Nat)) : Nat :=
  -- (`fix:` commit) the first segment of the stream never replaced another entry
  if startNr ≤ 0 then lastSegAvailMS startS atoMS T lsi else
  match entries.head? with
  | none => lastSegAvailMS startS atoMS T lsi
  | some f => max (lastSegAvailMS startS atoMS T lsi) (firstChangeMS startS atoMS tsbdMS nowMS T f)

/-- `adjustAdaptationSetForSegmentNumber`: duration / timescale when the VoD template has no duration -/
def numberTemplate (a : Asset) (d : ASDef) (r : Rep) : Option (Nat × Nat) :=
  match d.vodDur with
  | some dur => some (d.vodTs, dur)
  | none =>
    match d.kind with
    | .audio =>
      match a.ref? with
      | some ref => if ref.N = 0 ∨ ref.T = 0 then none else some (r.T, ref.dur * r.T / ref.N / ref.T)
      | none => none
    | _ => if r.N = 0 then none else some (r.T, r.dur / r.N)

/-- the AdaptationSets in the order `LiveMPD` walks them (video, audio, others) with their document index -/
def walkOrder (sets : List ASDef) : List (Nat × ASDef) :=
  let idx := (List.range sets.length).zip sets
  idx.filter (·.2.kind = .video) ++ idx.filter (·.2.kind = .audio) ++
    idx.filter (fun p => p.2.kind ≠ .video ∧ p.2.kind ≠ .audio)

structure MpdCfg where
  startS : Nat
  tsbdS : Nat
  startNr : Nat
  ato : Ato
  mpdType : MpdType
  stopS : Option Nat
  periodsPerHour : Option Nat := none
  continuous : Bool := false
  deriving Repr

/-- `ptLast`: availability of the last listed segment alone; `prevStartMS`: wall-clock start of the segment just before the first entry of the
reference timeline, if there is one (what `LiveMPD` needs again when it splits into periods) -/
inductive BodyRes | ok (outs : List ASOut) (pt : Nat) (ptLast : Nat) (prevStartMS : Option Nat) | err | panic
  deriving Repr

/-- the AdaptationSet loop of `LiveMPD` at the effective instant `endMS` (= min(now, stop)) -/
def liveMpdBody (a : Asset) (sets : List ASDef) (cfg : MpdCfg) (endMS : Nat) : BodyRes :=
  let wt := calcWrapTimes a cfg.startS endMS cfg.tsbdS
  match cfg.ato, cfg.mpdType with
  | .inf, .timelineTime => .err
  | .inf, .timelineNumber => .err
  | _, _ =>
  let atoMS := match cfg.ato with | .ms v => v | .inf => 0
  let order := walkOrder sets
  -- reference entries: first walked AdaptationSet
  let refSE : Option SegEntries := match order.head? with
    | some (_, d) => (a.rep? d.rep).map (fun r => genTimeline r wt atoMS)
    | none => none
  let one (pos : Nat) (d : ASDef) : Option (ASOut × SegEntries) :=
    match a.rep? d.rep with
    | none => none
    | some r =>
      let se := if pos = 0 then genTimeline r wt atoMS
                else match d.kind with
                  | .audio => (refSE.map (fun rs => genTimelineFromRef rs r)).getD (genTimeline r wt atoMS)
                  | _ => genTimeline r wt atoMS
      let ty := if d.kind = .image then MpdType.number else cfg.mpdType
      match ty with
      | .timelineTime => some ({ kind := d.kind, rep := d.rep, timeAddr := true, startNr := none, ts := se.T, dur := none, tl := some se.entries }, se)
      | .timelineNumber => some ({ kind := d.kind, rep := d.rep, timeAddr := false,
                                   startNr := if se.startNr ≥ 0 then some (se.startNr.toNat + cfg.startNr) else none,   -- (`fix:` commit: + snr)
                                   ts := se.T, dur := none, tl := some se.entries }, se)
      | .number =>
        match numberTemplate a d r with
        | none => none
        | some (ts, dur) => some ({ kind := d.kind, rep := d.rep, timeAddr := false, startNr := some cfg.startNr,
                                    ts := ts, dur := some dur, tl := none }, se)
  let walked := (List.range order.length).zip order |>.map (fun p => (p.2.1, one p.1 p.2.2))
  if walked.any (·.2.isNone) then .panic else
  let outs := (List.range sets.length).filterMap (fun i => (walked.find? (·.1 = i)).bind (·.2) |>.map (·.1))
  let pt : Nat := match cfg.mpdType with
    | .number => cfg.startS * 1000
    | _ => match walked.head? with
      | some (_, some (o, se)) =>
        if o.tl.isSome then publishMS cfg.startS atoMS (cfg.tsbdS * 1000) endMS se.T se.startNr se.lsi se.entries else cfg.startS * 1000
      | _ => cfg.startS * 1000
  let ptLast : Nat := match walked.head? with
    | some (_, some (_, se)) => lastSegAvailMS cfg.startS atoMS se.T se.lsi
    | _ => cfg.startS * 1000
  -- `prevEntryStartMS`: the start of the segment that the first entry of the reference timeline replaced
  let prevStart : Option Nat := match walked.head?, order.head? with
    | some (_, some (_, se)), some (_, d) =>
      match a.rep? d.rep, se.entries.head? with
      | some r, some f =>
        if r.N = 0 ∨ se.T = 0 ∨ se.startNr ≤ 0 then none else
        let ps := r.seg ((se.startNr.toNat - 1) % r.N)
        let prevDur := ps.stop - ps.start
        if f.1 < prevDur then none else some ((f.1 - prevDur) * 1000 / se.T + cfg.startS * 1000)
      | _, _ => none
    | _, _ => none
  .ok outs pt ptLast prevStart

/-- `reduceS` on the expanded timeline: the entries whose start lies in `[pStart, pEnd)` (ticks) and the number
of the first of them (`startNr` + entries before `pStart`) -/
def reduceS (entries : List (Nat × Nat)) (startNr pStart pEnd : Nat) : List (Nat × Nat) × Nat :=
  let kept := entries.filter (fun e => pStart ≤ e.1 ∧ e.1 < pEnd)
  -- an empty period that is not followed by a later entry keeps the incoming startNumber (the Go loop runs to the end)
  (kept, if kept.isEmpty ∧ ¬ entries.any (fun e => pEnd ≤ e.1) then startNr
         else startNr + (entries.filter (fun e => e.1 < pStart)).length)

inductive SplitRes | ok (ps : List PeriodOut) | err | panic
  deriving Repr

/-- `periodsStartAtSegmentStarts` (`fix:` commit): every multiple of the period duration is the start of a segment of the
looped representation; relative to the loop the period starts are the multiples of `gcd(period, loop)` -/
def periodsOnStarts (r : Rep) (pd : Nat) : Bool :=
  let per := pd * r.T
  if r.dur = 0 ∨ per = 0 ∨ r.N = 0 then false else
  let g := Nat.gcd per r.dur
  (List.range ((r.dur + g - 1) / g)).all fun k => r.segs.any (fun s => s.start = (r.seg 0).start + k * g)

/-- `splitPeriod` without the check of `periodsStartAtSegmentStarts` -/
def splitPeriodCore (a : Asset) (cfg : MpdCfg) (wt : WrapTimes) (sets : List ASOut) (pph : Nat) : SplitRes :=
  if pph = 0 then .panic else                      -- 3600 / 0
  let pd := 3600 / pph
  if a.segDurMS = 0 then .panic else
  if pd * 1000 % a.segDurMS ≠ 0 then .err else
  if pd = 0 then .panic else                       -- startTimeMS / (0·1000)
  -- (`fix:` commit) period numbers are counted from availabilityStartTime
  let startP := (wt.startTimeMS - cfg.startS * 1000) / (pd * 1000)
  let endP := (wt.nowMS - cfg.startS * 1000) / (pd * 1000)
  let ps := (List.range' startP (endP + 1 - startP)).map fun p =>
    let sets' := sets.map fun (o : ASOut) =>
      let pto := p * pd * o.ts
      match o.tl with
      | none =>
        -- $Number$ template: startNumber from the period start (the Go code divides by zero for dur = 0)
        { o with pto := some pto, startNr := some ((p * pd * o.ts / (o.dur.getD 1) + cfg.startNr) % 4294967296),   -- (`fix:` commit: + snr)
                 cont := cfg.continuous }
      | some tl =>
        let red := reduceS tl (o.startNr.getD 0) (p * pd * o.ts) ((p + 1) * pd * o.ts)
        { o with pto := some pto, tl := some red.1, cont := cfg.continuous,
                 startNr := if o.timeAddr then none else some (red.2 % 4294967296) }
    ({ id := p, startS := p * pd, sets := sets' } : PeriodOut)
  .ok ps

/-- the period starts fall on segment starts of the reference representation (no reference: nothing to compare) -/
def periodsAligned (a : Asset) (pph : Nat) : Bool :=
  match a.ref? with
  | some r => periodsOnStarts r (3600 / pph)
  | none => true

/-- `splitPeriod` applied to the single-period AdaptationSets.  (`fix:` commit) after the comparison with the average
segment duration, which cannot tell 2.002 s from 2 s when another track is a little shorter, the period starts must be
segment starts of the reference track. -/
def splitPeriod (a : Asset) (cfg : MpdCfg) (wt : WrapTimes) (sets : List ASOut) (pph : Nat) : SplitRes :=
  if pph ≠ 0 ∧ a.segDurMS ≠ 0 ∧ 3600 / pph * 1000 % a.segDurMS = 0 ∧ periodsAligned a pph = false then .err
  else splitPeriodCore a cfg wt sets pph

/-- `LiveMPD` -/
def liveMpd (a : Asset) (sets : List ASDef) (cfg : MpdCfg) (nowMS : Nat) : MpdRes :=
  if a.loopMS = 0 then .panic else
  let afterStop := match cfg.stopS with | some s => decide (s * 1000 < nowMS) | none => false
  let endMS := if afterStop then (cfg.stopS.getD 0) * 1000 else nowMS
  match liveMpdBody a sets cfg endMS with
  | .err => .err
  | .panic => .panic
  | .ok outs pt ptLast prevStart =>
    let fin (ps : List PeriodOut) (pt : Nat) : MpdRes :=
      if afterStop then
        .ok { dynamic := false, astS := cfg.startS, ptMS := pt, durS := some ((cfg.stopS.getD 0) - cfg.startS), periods := ps }
      else .ok { dynamic := true, astS := cfg.startS, ptMS := pt, durS := none, periods := ps }
    match cfg.periodsPerHour with
    | none => fin [{ id := 0, startS := 0, sets := outs }] pt
    | some pph =>
      if outs.any (fun o => o.tl.isNone ∧ o.dur = some 0) then .panic else
      match splitPeriod a cfg (calcWrapTimes a cfg.startS endMS cfg.tsbdS) outs pph with
      | .panic => .panic
      | .err => .err
      | .ok ps =>
        -- $Number$ MPDs: publishTime = start of the last period; (`fix:` commit) timeline MPDs: not before it, since a
        -- period is listed from its start on, before any of its segments is available
        let lastStartMS := cfg.startS * 1000 + (ps.getLast?.map (·.startS)).getD 0 * 1000
        let pt' := match cfg.mpdType with
          | .number => lastStartMS
          | _ => max pt lastStartMS
        -- (`fix:` commit) a period is removed when the time-shift window reaches the start of the next one: publishTime
        -- is not earlier than the latest removal
        let wt := calcWrapTimes a cfg.startS endMS cfg.tsbdS
        let pdMS := 3600 / pph * 1000
        let firstP := (wt.startTimeMS - cfg.startS * 1000) / pdMS
        let pt'' :=
          if firstP > 0 then
            let firstPStart := cfg.startS * 1000 + firstP * pdMS
            let removed := wt.nowMS - (wt.startTimeMS - firstPStart)
            -- the segment the first entry replaced belongs to a removed period: its leaving the window is no change here
            let p1 := match cfg.mpdType, prevStart with
              | .number, _ => pt'
              | _, some ps => if ps < firstPStart then max ptLast lastStartMS else pt'
              | _, none => pt'
            max p1 removed
          else pt'
        fin ps pt''

end Core
