/-!
# Model of the TTML timestamp shift (`livesegment.go: shiftStppTimes`, `shiftTTMLTimestamps`, `shiftTimestamp`)

The document is a list of characters.  `timeExp` = `\d\d+:\d\d:\d\d(\.\d\d\d)?` is matched leftmost-first, non-overlapping
(`FindAllStringIndex`); every match is replaced by `%02d:%02d:%02d.%03d` of its value plus the shift in milliseconds.
`strconv.Atoi` saturates at 2⁶³−1 (its error is ignored) and the sums are `uint64`: both are modelled (`atoi`, `wrap`).
Core Lean only.
-/
namespace Ttml

/-- (hours, minutes, seconds, milliseconds) written for an instant of `x` ms -/
def fields (x : Nat) : Nat × Nat × Nat × Nat := (x / 3600000, x % 3600000 / 60000, x % 60000 / 1000, x % 1000)

/-- value in ms of a parsed timestamp (what `shiftTimestamp` computes before adding) -/
def toMS (f : Nat × Nat × Nat × Nat) : Nat := f.1 * 3600000 + f.2.1 * 60000 + f.2.2.1 * 1000 + f.2.2.2

/-- `%0wd` -/
def pad (w n : Nat) : List Char :=
  let s := (toString n).toList
  List.replicate (w - s.length) '0' ++ s

def fmt (x : Nat) : List Char :=
  let f := fields x
  pad 2 f.1 ++ [':'] ++ pad 2 f.2.1 ++ [':'] ++ pad 2 f.2.2.1 ++ ['.'] ++ pad 3 f.2.2.2

def digitVal (c : Char) : Nat := c.toNat - '0'.toNat

def natOf (ds : List Char) : Nat := ds.foldl (fun acc c => acc * 10 + digitVal c) 0

/-- `strconv.Atoi` with the error ignored: saturates at `math.MaxInt64` -/
def atoi (ds : List Char) : Nat := min (natOf ds) 9223372036854775807

/-- `uint64` arithmetic -/
def wrap (x : Nat) : Nat := x % 18446744073709551616

/-- a match of `timeExp` at the head of `cs`: value in ms and the rest after the match -/
def matchAt (cs : List Char) : Option (Nat × List Char) :=
  let hs := cs.takeWhile Char.isDigit
  if hs.length < 2 then none else
  match cs.dropWhile Char.isDigit with
  | ':' :: m1 :: m2 :: ':' :: s1 :: s2 :: rest =>
    if m1.isDigit ∧ m2.isDigit ∧ s1.isDigit ∧ s2.isDigit then
      let base := (atoi hs, natOf [m1, m2], natOf [s1, s2])
      match rest with
      | '.' :: f1 :: f2 :: f3 :: rest' =>
        if f1.isDigit ∧ f2.isDigit ∧ f3.isDigit then some (toMS (base.1, base.2.1, base.2.2, natOf [f1, f2, f3]), rest')
        else some (toMS (base.1, base.2.1, base.2.2, 0), rest)
      | _ => some (toMS (base.1, base.2.1, base.2.2, 0), rest)
    else none
  | _ => none

/-- `shiftTTMLTimestamps` (fuel = length of the input) -/
def shiftAll (shift : Nat) : Nat → List Char → List Char
  | 0, cs => cs
  | _, [] => []
  | fuel+1, c :: cs =>
    match matchAt (c :: cs) with
    | some (v, rest) => fmt (wrap (wrap v + shift)) ++ shiftAll shift fuel rest
    | none => c :: shiftAll shift fuel cs

def shiftTTML (doc : String) (shift : Nat) : String := String.ofList (shiftAll shift doc.length doc.toList)

/-- `timeShiftMS := round(timeShift / timescale · 1000)` (half away from zero; exact for values below 2^53) -/
def stppShiftMS (timeShift T : Nat) : Nat := (2 * timeShift * 1000 + T) / (2 * T)

end Ttml
