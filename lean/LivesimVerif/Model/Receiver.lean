/-!
# Model of the ingest receiver's bookkeeping (`cmd/cmaf-ingest-receiver/app`)

`seqCounters`, `segDataBuffer` and `segmentTimelineGenerator` with Go slice semantics made explicit:
a slice is a `List` whose length is the Go `len`, together with the separate fill counter the Go code
keeps (`_nrCounters`, `_nrItems`).  Every indexing / slicing that Go bounds-checks is checked here and
yields `none` (= the run-time panic that would kill the channel goroutine).  Numbers are `Nat`; the
`uint32` subtraction `item.seqNr - size` in `segDataBuffer.add` is modelled with its wrap-around.
Core Lean only.
-/
namespace Recv

def U32 : Nat := 4294967296

/-- Go `copy(l[d:], l[s:e])` on one underlying array (memmove semantics); caller guarantees bounds -/
def copyWithin (l : List α) (d s e : Nat) : List α :=
  let src := (l.drop s).take (e - s)
  let n := min src.length (l.length - d)
  l.take d ++ src.take n ++ l.drop (d + n)

/-! ## seqCounters -/

structure Ctr where
  seqNr : Nat
  count : Nat
  deriving Repr, DecidableEq, Inhabited

structure Ctrs where
  arr : List Ctr        -- s.counters (length = Go len)
  nr : Nat              -- s._nrCounters
  w : Nat               -- s.windowSize
  deriving Repr

def Ctrs.new (w : Nat) : Ctrs := { arr := List.replicate w ⟨0, 0⟩, nr := 0, w := w }

/-- the live prefix `counters[:_nrCounters]` -/
def Ctrs.live (c : Ctrs) : List Ctr := c.arr.take c.nr

def Ctrs.minFromMax (c : Ctrs) (mx : Nat) : Nat := if mx < c.w then 0 else mx - c.w + 1

/-- number of live counters with seqNr < m (the `nrToDrop` loop) -/
def countBelow (l : List Ctr) (m : Nat) : Nat := (l.filter (·.seqNr < m)).length

/-- index of the live counter holding `n`, if any (first match, as the Go loop) -/
def findIdx (l : List Ctr) (n : Nat) : Option Nat :=
  match l with
  | [] => none
  | c :: t => if c.seqNr = n then some 0 else (findIdx t n).map (· + 1)

/-- the insertion position search `for i := nr-1; i >= 1; i--  if seqNr > counters[i-1].seqNr` :
largest `i ∈ [1, nr-1]` with `live[i-1].seqNr < n` -/
def insPos (l : List Ctr) (n : Nat) : Nat → Option Nat
  | 0 => none
  | i+1 => if i + 1 < l.length ∧ (l.getD i default).seqNr < n then some (i+1) else insPos l n i

/-- `seqCounters.add`, branch `seqNr > max`: drop the outdated counters (or make room), append -/
def Ctrs.addAbove (c : Ctrs) (n : Nat) : Option Ctrs :=
  let mn' := c.minFromMax n
  let cb := countBelow c.live mn'
  let drop := if cb = 0 ∧ c.nr = c.w then 1 else cb     -- (`fix:` commit: only make room when nothing is outdated)
  -- copy(s.counters, s.counters[nrToDrop:]) needs nrToDrop ≤ len; _nrCounters -= nrToDrop must not wrap
  if drop > c.arr.length ∨ drop > c.nr then none else
  let arr1 := if drop > 0 then copyWithin c.arr 0 drop c.arr.length else c.arr
  let nr1 := c.nr - drop
  if nr1 < arr1.length then some { c with arr := arr1.set nr1 ⟨n, 1⟩, nr := nr1 + 1 } else none

/-- `seqCounters.add`, branch `min ≤ seqNr ≤ max`: increment, or insert in order -/
def Ctrs.addInside (c : Ctrs) (n : Nat) : Option Ctrs :=
  match findIdx c.live n with
  | some i => some { c with arr := c.arr.set i ⟨n, (c.arr.getD i default).count + 1⟩ }
  | none =>
    match insPos c.live n (c.nr - 1) with
    | none => some c      -- below every live counter: not inserted
    | some i =>
      if c.nr < c.w then
        -- copy(counters[i+1:nr+1], counters[i:nr]); counters[i] = new; nr++
        if c.nr + 1 ≤ c.arr.length then
          some { c with arr := (copyWithin c.arr (i+1) i c.nr).set i ⟨n, 1⟩, nr := c.nr + 1 }
        else none
      else
        -- copy(counters[:i-1], counters[1:i]); counters[i-1] = new
        if i ≤ c.arr.length then
          some { c with arr := (copyWithin c.arr 0 1 i).set (i-1) ⟨n, 1⟩ }
        else none

/-- `seqCounters.add` (with the `fix:` commit for the in-window insert); `none` = index panic -/
def Ctrs.add (c : Ctrs) (n : Nat) : Option Ctrs :=
  if c.nr = 0 then
    if 0 < c.arr.length then some { c with arr := c.arr.set 0 ⟨n, 1⟩, nr := 1 } else none
  else if c.arr.length < c.nr then none   -- counters[_nrCounters-1] out of range
  else
    let mx := (c.arr.getD (c.nr - 1) default).seqNr
    let mn := c.minFromMax mx
    if n < mn then some c
    else if n > mx then c.addAbove n
    else c.addInside n

/-- `seqCounters.resize` (with the `fix:` commit for shrinking) -/
def Ctrs.resize (c : Ctrs) (w' : Nat) : Option Ctrs :=
  if w' > c.w then
    some { arr := c.arr.take w' ++ List.replicate (w' - c.arr.length) ⟨0, 0⟩, nr := c.nr, w := w' }
  else if w' < c.w then
    if w' > c.arr.length then none else
    if c.nr > w' then
      if c.nr > c.arr.length then none else
      some { arr := (copyWithin c.arr 0 (c.nr - w') c.nr).take w', nr := w', w := w' }
    else some { arr := c.arr.take w', nr := c.nr, w := w' }
  else some c

/-- `seqCounters.drop` -/
def Ctrs.drop (c : Ctrs) (n : Nat) : Option Ctrs :=
  if c.arr.length < c.nr then none else
  match findIdx c.live n with
  | none => some c
  | some i =>
    some { c with arr := if i + 1 < c.w then copyWithin c.arr i (i+1) c.arr.length else c.arr, nr := c.nr - 1 }

/-- `seqCounters.newFullCounter`: scan from the newest counter down -/
def newFullAux (l : List Ctr) (tracks mx : Nat) : Nat :=
  match l with   -- l = live counters, newest first
  | [] => 0
  | c :: t => if c.count = tracks ∧ c.seqNr > mx then c.seqNr
              else if c.seqNr ≤ mx then 0 else newFullAux t tracks mx

def Ctrs.newFullCounter (c : Ctrs) (tracks mx : Nat) : Option Nat :=
  if c.arr.length < c.nr then none else some (newFullAux c.live.reverse tracks mx)

/-- `seqCounters.fullRange`: the loop state is (first, last, lastIdx); scanning index i downwards -/
structure FR where
  first : Nat
  last : Nat
  lastIdx : Nat
  stop : Bool

def frStep (tracks : Nat) (s : FR) (ic : Nat × Ctr) : FR :=
  if s.stop then s else
  let (i, c) := ic
  if c.count < tracks then
    if s.last = 0 then s else { s with stop := true }
  else
    let s1 := if s.last = 0 then { s with last := c.seqNr, lastIdx := i } else s
    if (c.seqNr : Int) ≠ (s1.last : Int) - ((s1.lastIdx : Int) - (i : Int)) then { s1 with stop := true }
    else { s1 with first := c.seqNr }

def Ctrs.fullRange (c : Ctrs) (tracks : Nat) : Option (Nat × Nat) :=
  if c.arr.length < c.nr then none else
  let idx := (List.range c.live.length).zip c.live
  let r := idx.reverse.foldl (frStep tracks) { first := 0, last := 0, lastIdx := 0, stop := false }
  some (r.first, r.last)

/-! ## segDataBuffer -/

structure Item where
  seqNr : Nat
  dts : Nat
  dur : Nat
  shifted : Bool
  deriving Repr, DecidableEq, Inhabited

structure Buf where
  items : List Item    -- c.items (length = Go len)
  nr : Nat             -- c._nrItems
  size : Nat           -- c.size
  deriving Repr

def Buf.new (size : Nat) : Buf := { items := List.replicate size default, nr := 0, size := size }
def Buf.live (b : Buf) : List Item := b.items.take b.nr

inductive AddRes | ok (b : Buf) | notIncreasing | panic
  deriving Repr

/-- `segDataBuffer.add` -/
def Buf.add (b : Buf) (it : Item) : AddRes :=
  if b.nr = 0 then
    if 0 < b.items.length then .ok { b with items := b.items.set 0 it, nr := 1 } else .panic
  else if b.items.length < b.nr then .panic
  else
    let lastSeq := (b.items.getD (b.nr - 1) default).seqNr
    if it.seqNr ≤ lastSeq then .notIncreasing
    else if b.nr < b.size then
      if b.nr < b.items.length then .ok { b with items := b.items.set b.nr it, nr := b.nr + 1 } else .panic
    else
      if b.items.length < b.size then .panic else      -- the loop reads items[i] for i < size
      let thr := (it.seqNr + U32 - b.size % U32) % U32   -- uint32: item.seqNr - size
      let disc := ((b.items.take b.size).filter (·.seqNr ≤ thr)).length
      if disc = 0 then .panic      -- _nrItems -= (0 - 1) wraps to _nrItems + 1 and indexes out of range
      else
        let items1 := copyWithin b.items 0 disc b.items.length
        let nr1 := b.nr - (disc - 1)
        if nr1 = 0 ∨ nr1 > items1.length then .panic
        else .ok { b with items := items1.set (nr1 - 1) it, nr := nr1 }

def Buf.getItem (b : Buf) (n : Nat) : Option Item := b.live.reverse.find? (·.seqNr = n)

/-- `segDataBuffer.resize` (with the `fix:` commit that also updates `size` when shrinking) -/
def Buf.resize (b : Buf) (n : Nat) : Option Buf :=
  if n = b.size then some b
  else if n < b.nr then
    if b.nr > b.items.length then none else
    some { items := (copyWithin b.items 0 (b.nr - n) b.items.length).take n, nr := n, size := n }
  else some { items := (b.items.take n) ++ List.replicate (n - b.items.length) default, nr := b.nr, size := n }

def Buf.dropSeqNr (b : Buf) (n : Nat) : Option Buf :=
  if b.nr > b.items.length then none else
  match b.live.findIdx? (·.seqNr = n) with
  | none => some b
  | some i => some { b with items := copyWithin b.items i (i+1) b.items.length, nr := b.nr - 1 }

/-- `segDataBuffer.removeUnshifted`: drops the leading unshifted items, returns their numbers -/
def Buf.removeUnshifted (b : Buf) : Option (Buf × List Nat) :=
  if b.nr > b.items.length then none else
  let un := b.live.takeWhile (fun it => !it.shifted)
  if un.isEmpty then some (b, [])
  else some ({ b with items := copyWithin b.items 0 un.length b.items.length, nr := b.nr - un.length },
             un.map (·.seqNr))

/-! ## segmentTimelineGenerator -/

structure Gen where
  bufs : List (String × Buf)     -- segDataBuffers, in first-seen order (dumped sorted by name)
  ctrs : Ctrs
  latest : Nat
  w : Nat
  tracks : Nat                   -- _nrTracks
  started : Bool
  shifted : Bool
  deriving Repr

def Gen.new (w : Nat) : Gen :=
  { bufs := [], ctrs := Ctrs.new w, latest := 0, w := w, tracks := 0, started := false, shifted := false }

def lookupBuf (bufs : List (String × Buf)) (name : String) : Option Buf :=
  (bufs.find? (·.1 = name)).map (·.2)

def setBuf (bufs : List (String × Buf)) (name : String) (b : Buf) : List (String × Buf) :=
  if bufs.any (·.1 = name) then bufs.map (fun p => if p.1 = name then (name, b) else p)
  else bufs ++ [(name, b)]

inductive GenAdd
  | ok (g : Gen) (newSeqNr : Nat)
  | err (g : Gen)          -- "sequence number not increasing": state unchanged except a possibly new empty buffer
  | panic
  deriving Repr

/-- `addSegmentData` -/
def Gen.add (g : Gen) (name : String) (it : Item) : GenAdd :=
  if g.shifted && !it.shifted then .ok g 0 else
  let isNew := (lookupBuf g.bufs name).isNone
  let b0 := (lookupBuf g.bufs name).getD (Buf.new g.w)
  -- (`fix:` commit) a track whose buffer is created after start is counted from then on
  let tracks := if isNew && g.started then g.bufs.length + 1 else g.tracks
  match b0.add it with
  | .panic => .panic
  | .notIncreasing => .err { g with bufs := setBuf g.bufs name b0, tracks := tracks }
  | .ok b1 =>
    match g.ctrs.add it.seqNr with
    | none => .panic
    | some c1 =>
      let g1 := { g with bufs := setBuf g.bufs name b1, ctrs := c1, tracks := tracks }
      if g.started then
        match c1.newFullCounter tracks g.latest with
        | none => .panic
        | some n => .ok g1 n
      else .ok g1 0

def mapBufs (f : Buf → Option Buf) : List (String × Buf) → Option (List (String × Buf))
  | [] => some []
  | (n, b) :: t => match f b, mapBufs f t with
    | some b', some t' => some ((n, b') :: t')
    | _, _ => none

def Gen.resize (g : Gen) (w : Nat) : Option Gen :=
  match mapBufs (·.resize w) g.bufs, g.ctrs.resize w with
  | some bs, some c => some { g with bufs := bs, ctrs := c }
  | _, _ => none

def Gen.dropSeqNr (g : Gen) (n : Nat) : Option Gen :=
  match mapBufs (·.dropSeqNr n) g.bufs, g.ctrs.drop n with
  | some bs, some c => some { g with bufs := bs, ctrs := c }
  | _, _ => none

def dropAll (c : Ctrs) : List Nat → Option Ctrs
  | [] => some c
  | n :: t => match c.drop n with
    | some c' => dropAll c' t
    | none => none

/-- the `isShifted` loop of `start`: per buffer removeUnshifted, then drop those numbers from the counters -/
def startShift : List (String × Buf) → Ctrs → Option (List (String × Buf) × Ctrs)
  | [], c => some ([], c)
  | (n, b) :: t, c =>
    match b.removeUnshifted with
    | none => none
    | some (b', un) =>
      match dropAll c un with
      | none => none
      | some c' => match startShift t c' with
        | none => none
        | some (t', c'') => some ((n, b') :: t', c'')

/-- `start` -/
def Gen.start (g : Gen) (w : Nat) (isShifted : Bool) : Option Gen :=
  match ({ g with started := true, shifted := isShifted } : Gen).resize w with
  | none => none
  | some g1 =>
    let g2 := { g1 with w := w }
    if isShifted then
      match startShift g2.bufs g2.ctrs with
      | none => none
      | some (bs, c) => some { g2 with bufs := bs, ctrs := c, tracks := bs.length }
    else some { g2 with tracks := g2.bufs.length }

/-- expanded timeline for one AdaptationSet: `modifySegmentTemplate` on the first representation's buffer.
Returns `none` when a number of the range is missing ("no segment data for seqNr"). -/
def timelineFor (b : Buf) (first last : Nat) : Option (List Item) :=
  (List.range' first (last + 1 - first)).mapM b.getItem

/-- an `S` element of the SegmentTimeline -/
structure SElem where
  t : Option Nat
  d : Nat
  r : Nat
  deriving Repr, DecidableEq

/-- the S-list construction of `modifySegmentTemplate` (with the `fix:` commit: explicit @t at a
discontinuity); state = finished elements (oldest first), current element, implicit next time -/
def buildSAux : List Item → List SElem → SElem → Nat → List SElem
  | [], acc, cur, _ => acc ++ [cur]
  | it :: rest, acc, cur, nextT =>
    if it.dts ≠ nextT then buildSAux rest (acc ++ [cur]) ⟨some it.dts, it.dur, 0⟩ (it.dts + it.dur)
    else if it.dur = cur.d then buildSAux rest acc { cur with r := cur.r + 1 } (nextT + it.dur)
    else buildSAux rest (acc ++ [cur]) ⟨none, it.dur, 0⟩ (nextT + it.dur)

def buildS : List Item → List SElem
  | [] => []
  | it :: rest => buildSAux rest [] ⟨some it.dts, it.dur, 0⟩ (it.dts + it.dur)

/-- what a DASH client reads out of an S list: (start, duration) per segment -/
def expandOne (t d : Nat) : Nat → List (Nat × Nat)
  | 0 => [(t, d)]
  | k+1 => (t, d) :: expandOne (t + d) d k

def expandS : List SElem → Nat → List (Nat × Nat)
  | [], _ => []
  | s :: rest, t =>
    let t0 := s.t.getD t
    expandOne t0 s.d s.r ++ expandS rest (t0 + (s.r + 1) * s.d)

inductive MpdRes
  | ok (g : Gen) (first last : Nat) (tls : List (List Item))   -- written: range and per-AS items of the first rep
  | err (reason : String)                                       -- nothing written, state unchanged
  | panic
  deriving Repr

/-- `generateSegmentTimelineNrMPD` on the reference representation of each listed AdaptationSet -/
def Gen.mpdOn (g : Gen) (newSeqNr : Nat) (ass : List String) : MpdRes :=
  match g.ctrs.fullRange g.tracks with
  | none => .panic
  | some (first, last) =>
    if newSeqNr ≤ g.latest then .err "not-bigger"
    else if newSeqNr > last then .err "beyond-buffers"
    else
      let tls := ass.mapM (fun rep => (lookupBuf g.bufs rep).bind (fun b => timelineFor b first last))
      match tls with
      | none => .err "no-seg-data"
      | some tls => .ok { g with latest := last } first last tls

/-- a representation that has delivered media: it has a buffer with at least one item -/
def delivering (bufs : List (String × Buf)) (rep : String) : Bool :=
  match lookupBuf bufs rep with
  | some b => b.nr > 0
  | none => false

/-- (`fix:` commit) the Representations of an AdaptationSet that are written: those that have delivered media; an
AdaptationSet without any is left out, the first of the others is the reference for the timeline -/
def listedSets (bufs : List (String × Buf)) (ass : List (List String)) : List (List String) :=
  (ass.map (fun reps => reps.filter (delivering bufs))).filter (fun reps => !reps.isEmpty)

/-- `generateSegmentTimelineNrMPD` (`ass` = the representation ids of each AdaptationSet of the channel's MPD) -/
def Gen.mpd (g : Gen) (newSeqNr : Nat) (ass : List (List String)) : MpdRes :=
  g.mpdOn newSeqNr ((listedSets g.bufs ass).map (fun reps => reps.headD ""))

end Recv
