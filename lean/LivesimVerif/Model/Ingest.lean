import LivesimVerif.Model.Fault
/-!
# Model of the CMAF-ingest session loop in step mode (`cmaf-ingester.go: start`, `api.go`)

The loop's bookkeeping: the next segment number, the optional last number derived from the session duration, and whether
the loop is still running.  Events are the API calls `step` and `delete`.  (The HTTP uploads, the init segments and the
per-representation fan-out are runtime behaviour observed by the monitor.)
-/
namespace Ingest

structure Sess where
  next : Nat
  last : Option Nat      -- inclusive; none = no duration
  alive : Bool
  deriving Repr, DecidableEq

inductive Ev | step | del
  deriving Repr, DecidableEq

inductive Out
  | sent (nr : Nat) (isLast : Bool)
  | conflict            -- 409: the session has ended
  | deleted             -- 200
  deriving Repr, DecidableEq

/-- session start: `first` is the number right after the live edge, `n` the number of segments for the duration -/
def start (first : Nat) (n : Option Nat) : Sess :=
  match n with
  | none => ⟨first, none, true⟩
  | some 0 => ⟨first, some 0, false⟩          -- duration shorter than a segment: the loop returns at once
  | some (k + 1) => ⟨first, some (first + k), true⟩

def step (s : Sess) : Ev → Sess × Out
  | .del => ({ s with alive := false }, .deleted)
  | .step =>
    if !s.alive then (s, .conflict) else
    match s.last with
    | none => ({ s with next := s.next + 1 }, .sent s.next false)
    | some l =>
      -- after the segment numbered `l` the loop ends
      ({ s with next := s.next + 1, alive := decide (s.next + 1 ≤ l) }, .sent s.next (s.next == l))

def run (s : Sess) : List Ev → List Out
  | [] => []
  | e :: es => (step s e).2 :: run (step s e).1 es

/-- the segment numbers sent, in order -/
def sentNrs : List Out → List Nat
  | [] => []
  | .sent n _ :: t => n :: sentNrs t
  | _ :: t => sentNrs t

/-- `nextSegNr` at session start: index of the newest ended segment (−1 if none) + 1 + startNumber -/
def firstNr (a : Core.Asset) (cfg : Core.Cfg) (nowMS : Nat) (r : Core.Rep) : Nat :=
  let l := Core.findLastSegNr a cfg nowMS r
  (if l < -1 then 0 else (l + 1).toNat) + cfg.startNr

end Ingest
