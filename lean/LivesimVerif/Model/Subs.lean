/-!
# Model of the generated time subtitles (`timesubs.go`, `timesubs_wvtt.go`)

`calcCueItvls`, `msToTTMLTime` and the wvtt sample layout.  Times are `Nat` milliseconds on the UTC axis
(`utcStart = segStart + 1000·startTimeS`); the media-time shift `diff = segStart − utcStart` is applied by the
caller of the model (`toMedia`).  `none` = run-time panic (division by zero for `cueDur = 0`).
-/
namespace Subs

structure Cue where
  start : Nat      -- UTC ms
  stop : Nat       -- UTC ms
  utcS : Nat       -- the second that is shown
  deriving Repr, DecidableEq

/-- one loop iteration for loop value `v` -/
def cueOf (utcStart utcEnd cueDur v : Nat) : Option Cue :=
  let cueStart := v * 1000
  if cueStart = utcEnd then none else                 -- `break` (it can only be the last iteration)
  let st := max cueStart utcStart
  let en := min (cueStart + cueDur) utcEnd
  if en ≤ st then none else some ⟨st, en, v⟩          -- (`fix:` commit) cue that ended before the segment

/-- `calcCueItvls` on the UTC axis.  The loop variable starts at `utcStart / cueFullMS`, runs while
`≤ (utcStart+segDur) / cueFullMS` (both converted to seconds) and steps by `cueFullS`: for cue durations above one
second there is one cue every `cueFullS` seconds only (see C12 known finding). -/
def calcCueItvls (utcStart segDur cueDur : Nat) : Option (List Cue) :=
  let cueFullS := (cueDur + 999) / 1000               -- ceil(cueDur·0.001)
  if cueFullS = 0 then none else
  let cueFullMS := cueFullS * 1000
  let first := utcStart / cueFullMS * cueFullS          -- (`fix:` commit) multiples of the unit, in seconds
  let last := (utcStart + segDur) / cueFullMS * cueFullS
  let count := if last < first then 0 else (last - first) / cueFullS + 1
  some ((List.range' first count cueFullS).filterMap (cueOf utcStart (utcStart + segDur) cueDur))

/-- the specification for cue durations up to one second: one cue per UTC second whose display interval
`[1000s, 1000s+cueDur)` meets the segment `[u0, u0+d)`, clipped to the segment -/
def specCue (u0 uEnd cueDur s : Nat) : Option Cue :=
  if max (s * 1000) u0 < min (s * 1000 + cueDur) uEnd then
    some ⟨max (s * 1000) u0, min (s * 1000 + cueDur) uEnd, s⟩
  else none

def specCues (u0 d cueDur : Nat) : List Cue :=
  (List.range' (u0 / 1000) ((u0 + d) / 1000 - u0 / 1000 + 1)).filterMap (specCue u0 (u0 + d) cueDur)

/-- `msToTTMLTime` as (hours, minutes, seconds, ms) -/
def ttmlFields (ms : Nat) : Nat × Nat × Nat × Nat :=
  (ms / 3600000, ms % 3600000 / 60000, ms % 3600000 % 60000 / 1000, ms % 3600000 % 60000 % 1000)

/-- wvtt samples: (start, stop, cue shown or filler) -/
structure Sample where
  start : Nat
  stop : Nat
  cue : Option Nat
  deriving Repr, DecidableEq

/-- the sample loop of `createSubtitlesWvttMediaSegment` (media axis = UTC axis here) -/
def wvttAux : List Cue → Nat → List Sample
  | [], _ => []
  | c :: rest, currEnd =>
    (if c.start > currEnd then [⟨currEnd, c.start, none⟩] else []) ++ [⟨c.start, c.stop, some c.utcS⟩] ++ wvttAux rest c.stop

def lastEnd : List Cue → Nat → Nat
  | [], e => e
  | c :: rest, _ => lastEnd rest c.stop

def wvttSamples (cues : List Cue) (segStart segDur : Nat) : List Sample :=
  wvttAux cues segStart ++
    (if lastEnd cues segStart < segStart + segDur then [⟨lastEnd cues segStart, segStart + segDur, none⟩] else [])

/-- contiguous chain of samples from `a`, each of non-negative duration; returns the end -/
def chainEnd : List Sample → Nat → Option Nat
  | [], a => some a
  | s :: rest, a => if s.start = a ∧ s.start ≤ s.stop then chainEnd rest s.stop else none


end Subs
