/-!
# Model of `pkg/chunkparser` (`MP4ChunkParser.Parse` / `readUntil`)

Fuel-indexed state machine.  The `io.Reader` is a *schedule*: `sched` gives the maximal
number of bytes the k-th `Read` call returns (each at least 1), `eofWithData` says whether
the final bytes arrive together with `io.EOF` or `io.EOF` comes in a separate call,
`failRead` makes the k-th `Read` call (counted from 0) return a non-EOF error, `failCb`
makes the k-th callback return an error.

Mirrors the Go code statement group by statement group (DESIGN.md §3.6):
`readUntil`, `hdrStep` (size/type/nextBoxStart/flags), `flush` (callback + reset when an
mdat is complete), `deliverAll` (the two identical EOF branches).  Core Lean only.

(`fix:` commit 67349d7: the real `readUntil` asks the reader for at most 1 MiB beyond the bytes that have arrived, so that
the buffer is not sized by a declared box length.  That is a reader that delivers at most 1 MiB per call: by
`c18_sched_indep` the callbacks and the outcome do not depend on it; the cap itself is not modelled.)
-/
namespace CP

abbrev Byte := UInt8

/-- 2^32, kept behind a definition so that it never shows up as a literal in goals. -/
def U32 : Nat := 4294967296

structure Rd where
  rest : List Byte          -- bytes the reader has not yet returned
  sched : List Nat          -- max bytes for each future Read call (≥1); [] = unlimited
  eofWithData : Bool
  failRead : Option Nat     -- number of further successful Read calls before a failing one
  deriving Repr

/-- how many bytes the next Read returns (schedule-driven, 1 ≤ n ≤ cap when possible) -/
def Rd.n (r : Rd) (cap : Nat) : Nat := min (min (max (r.sched.headD cap) 1) cap) r.rest.length

inductive RdErr | none | eof | fail deriving Repr, DecidableEq

structure ReadRes where
  got : List Byte
  err : RdErr
  rd : Rd

def decr : Option Nat → Option Nat
  | some (k+1) => some k
  | o => o

/-- one `Read(p)` with `cap` free bytes -/
def Rd.read (r : Rd) (cap : Nat) : ReadRes :=
  if r.failRead = some 0 then { got := [], err := .fail, rd := r } else
  match r.rest with
  | [] => { got := [], err := .eof, rd := { r with failRead := decr r.failRead } }
  | _ :: _ =>
    { got := r.rest.take (r.n cap),
      err := if (r.rest.drop (r.n cap)).isEmpty && r.eofWithData then .eof else .none,
      rd := { r with rest := r.rest.drop (r.n cap), sched := r.sched.tail,
                     failRead := decr r.failRead } }

/-- a callback record: `cd.Start`, `cd.IsInitSegment`, `cd.Data` -/
structure Cb where
  start : Nat
  isInit : Bool
  data : List Byte
  deriving Repr, DecidableEq

structure St where
  content : List Byte       -- p.buf[:p.contentEnd]
  next : Nat                -- nextBoxStart (uint32)
  mdatEnd : Nat             -- uint32
  start : Nat               -- cd.Start (uint32)
  isInit : Bool             -- cd.IsInitSegment
  rd : Rd
  out : List Cb             -- callbacks made so far
  failCb : Option Nat       -- number of further successful callbacks before a failing one
  deriving Repr

inductive Res
  | done (cbs : List Cb)                 -- Parse returned nil
  | readErr (cbs : List Cb)              -- Parse returned the reader's (non-EOF) error
  | cbErr (cbs : List Cb)                -- Parse returned the callback's error (the failing call is the last of cbs)
  | badSize (cbs : List Cb)              -- Parse returned the "bad box size" error (fix for size < 8 / 32-bit wrap)
  | outOfFuel (st : St)
  deriving Repr

structure RU where
  st : St
  err : RdErr

/-- readUntil(target): returns the new state and the error (none / EOF / other) -/
def readUntil : Nat → St → Nat → RU
  | 0, st, _ => { st := st, err := .none }
  | fuel+1, st, target =>
    if st.content.length ≥ target then { st := st, err := .none } else
    let rr := st.rd.read (target - st.content.length)
    let st' := { st with content := st.content ++ rr.got, rd := rr.rd }
    if st'.content.length ≥ target then { st := st', err := .none }   -- target reached: error (EOF) deferred
    else if rr.err ≠ .none then { st := st', err := rr.err }
    else readUntil fuel st' target

def be32 (bs : List Byte) : Nat :=
  bs.foldl (fun acc b => acc * 256 + b.toNat) 0

def moovTag : List Byte := [109, 111, 111, 118]
def mdatTag : List Byte := [109, 100, 97, 116]

/-- the size field read at `next` -/
def hdrSize (st : St) : Nat := be32 (((st.content.drop st.next).take 8).take 4)
def hdrType (st : St) : List Byte := ((st.content.drop st.next).take 8).drop 4

/-- the guard added by the `fix:` commit: a size below the header size or one that makes the
32-bit `nextBoxStart` wrap is refused (before the fix both made `Parse` loop forever) -/
def sizeOk (st : St) : Bool := 8 ≤ hdrSize st && st.next + hdrSize st < U32

/-- box header step: read size/type at `next`, advance `next`, set flags -/
def hdrStep (st : St) : St :=
  { st with next := st.next + hdrSize st,
            isInit := st.isInit || hdrType st == moovTag,
            mdatEnd := if hdrType st == mdatTag then st.next + hdrSize st else st.mdatEnd }

/-- one callback invocation: records the call, then reports whether the callback failed -/
structure CbRes where
  st : St
  failed : Bool

def callBack (st : St) (data : List Byte) : CbRes :=
  { st := { st with out := st.out ++ [{ start := st.start, isInit := st.isInit, data := data }],
                    failCb := decr st.failCb },
    failed := st.failCb = some 0 }

/-- callback + buffer reset when an mdat has just been completed -/
def flush (st : St) : CbRes :=
  if st.mdatEnd = st.content.length then
    let c := callBack st (st.content.take st.mdatEnd)
    { st := { c.st with start := (st.start + st.mdatEnd) % U32,
                        content := st.content.drop st.mdatEnd,
                        next := st.next - st.mdatEnd, mdatEnd := 0 },
      failed := c.failed }
  else { st := st, failed := false }

/-- the EOF branch: deliver what is buffered (if anything) and return -/
def deliverAll (st : St) : Res :=
  if st.content.length > 0 then
    let c := callBack st st.content
    if c.failed then .cbErr c.st.out else .done c.st.out
  else .done st.out

def parse : Nat → St → Res
  | 0, st => .outOfFuel st
  | fuel+1, st =>
    let r1 := readUntil (st.rd.rest.length + 1) st (st.next + 8)
    match r1.err with
    | .fail => .readErr r1.st.out
    | .eof => deliverAll r1.st
    | .none =>
      if !sizeOk r1.st then .badSize r1.st.out else
      let st2 := hdrStep r1.st
      let r3 := readUntil (st2.rd.rest.length + 1) st2 st2.next
      if r3.err = .fail then .readErr r3.st.out else
      let f := flush r3.st
      if f.failed then .cbErr f.st.out else
      if r3.err = .eof then deliverAll f.st else parse fuel f.st

def init (input : List Byte) (sched : List Nat) (e : Bool) (failRead failCb : Option Nat) : St :=
  { content := [], next := 0, mdatEnd := 0, start := 0, isInit := false,
    rd := { rest := input, sched := sched, eofWithData := e, failRead := failRead },
    out := [], failCb := failCb }

/-- enough fuel for every input once sizes < 8 are refused: each round consumes ≥ 8 bytes -/
def fuelFor (input : List Byte) : Nat := input.length / 8 + 2

def run (input : List Byte) (sched : List Nat) (e : Bool) (failRead failCb : Option Nat) : Res :=
  parse (fuelFor input) (init input sched e failRead failCb)

def Res.cbs : Res → List Cb
  | .done c | .readErr c | .cbErr c | .badSize c => c
  | .outOfFuel st => st.out

/-- outcome class: 0 nil, 1 read error, 2 callback error, 3 bad box size, 4 out of fuel -/
def Res.kind : Res → Nat
  | .done _ => 0 | .readErr _ => 1 | .cbErr _ => 2 | .badSize _ => 3 | .outOfFuel _ => 4

def box (typ : List Byte) (payload : List Byte) : List Byte :=
  let n := payload.length + 8
  [ (n / 16777216 % 256).toUInt8, (n / 65536 % 256).toUInt8, (n / 256 % 256).toUInt8, (n % 256).toUInt8 ]
    ++ typ ++ payload

end CP
