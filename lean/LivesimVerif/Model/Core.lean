/-!
# Core model: looped VoD tables, URL configuration, segment lookup (`asset.go`, `configurl.go`,
`livesegment.go`)

Everything is `Nat` (media ticks, numbers, milliseconds).  The domain is the one the properties quantify
over: `startS ≥ 0`, `startNr ≥ 0`; negative / malformed parameters belong to C08.  The float comparisons of
`CheckTimeValidity` are modelled in exact rational arithmetic by cross-multiplication (DESIGN.md §3.2).
Go's bounds-checked indexing is explicit: a lookup that would panic yields `Status.panic`.
-/
namespace Core

structure Seg where
  start : Nat
  stop : Nat
  nr : Nat
  deriving Repr, DecidableEq, Inhabited

inductive Kind | video | audio | text | image
  deriving Repr, DecidableEq

structure Rep where
  id : String
  kind : Kind
  T : Nat                 -- MediaTimescale
  segs : List Seg
  constSampleDur : Nat    -- *ConstantSampleDuration (0 = nil or zero)
  sampleDur : Nat         -- sampleDur()
  preEnc : Bool
  stpp : Bool             -- Codecs has prefix "stpp"
  deriving Repr

def Rep.N (r : Rep) : Nat := r.segs.length
def Rep.seg (r : Rep) (i : Nat) : Seg := r.segs.getD i default
/-- `RepData.duration()` -/
def Rep.dur (r : Rep) : Nat := if r.segs.isEmpty then 0 else (r.seg (r.N - 1)).stop - (r.seg 0).start

structure Asset where
  name : String
  loopMS : Nat
  segDurMS : Nat
  refId : String
  reps : List Rep
  deriving Repr

def Asset.rep? (a : Asset) (id : String) : Option Rep := a.reps.find? (·.id = id)
def Asset.ref? (a : Asset) : Option Rep := a.rep? a.refId

/-- `wrapDur := a.LoopDurMS * rep.MediaTimescale / 1000` (with its floor) -/
def wrapDur (a : Asset) (r : Rep) : Nat := a.loopMS * r.T / 1000

inductive MpdType | number | timelineTime | timelineNumber
  deriving Repr, DecidableEq

/-- availabilityTimeOffset: a whole number of milliseconds, or infinite -/
inductive Ato | ms (v : Nat) | inf
  deriving Repr, DecidableEq

structure Cfg where
  startS : Nat
  tsbdS : Nat
  startNr : Nat
  ato : Ato
  mpdType : MpdType
  deriving Repr

def Cfg.default : Cfg := { startS := 0, tsbdS := 60, startNr := 0, ato := .ms 0, mpdType := .number }

/-- `timeShiftBufferDepthMarginS` -/
def marginS : Nat := 10

inductive Status
  | ok
  | tooEarly (ms : Nat)
  | gone
  | notFound
  | internal       -- any other error: HTTP 500
  | panic          -- run-time panic (index out of range, division by zero)
  deriving Repr, DecidableEq

/-- `CheckTimeValidity` in exact arithmetic.  `availNum / T` is the availability instant in seconds
(segment end + wrap + start), `nowMS` the request instant.  The remaining milliseconds of a too-early answer
are `round((avail − now)·1000)` (half away from zero). -/
def checkTime (availNum T nowMS tsbdS : Nat) (ato : Ato) : Status :=
  match ato with
  | .inf => .ok
  | .ms a =>
    -- everything scaled by 1000·T:  avail·1000·T = availNum·1000 − a·T ;  now·1000·T = nowMS·T
    let av : Int := (availNum : Int) * 1000 - (a : Int) * T
    let nw : Int := (nowMS : Int) * T
    if av > nw then .tooEarly (((2 * (av - nw) + T) / (2 * T)).toNat)
    else if av < nw - ((tsbdS + marginS : Nat) : Int) * 1000 * T then .gone
    else .ok

/-- the exact distance (scaled by 1000·T) to the *gone* boundary; 0 = exact tie, where the float code may
answer either way (DESIGN.md §3.2) -/
def goneSlack (availNum T nowMS tsbdS : Nat) (ato : Ato) : Option Int :=
  match ato with
  | .inf => none
  | .ms a => some (((availNum : Int) * 1000 - (a : Int) * T) - ((nowMS : Int) * T - ((tsbdS + marginS : Nat) : Int) * 1000 * T))

structure Meta where
  origIdx : Nat       -- index into rep.Segments
  origNr : Nat
  origTime : Nat
  newNr : Nat
  newTime : Nat
  newDur : Nat
  T : Nat
  deriving Repr, DecidableEq

inductive Lookup
  | found (m : Meta)
  | status (s : Status)
  deriving Repr, DecidableEq

/-- `findSegMetaFromNr` (caller has checked `nr ≥ startNr` where the code does) -/
def byNr (a : Asset) (r : Rep) (cfg : Cfg) (nr nowMS : Nat) : Lookup :=
  if r.N = 0 then .status .panic else           -- division by zero
  if nr < cfg.startNr then .status .panic else   -- negative index (only reachable where the 404 guard is missing)
  let k := nr - cfg.startNr
  let wraps := k / r.N
  let rel := k - wraps * r.N
  let wrapTime := wraps * wrapDur a r
  let s := r.seg rel
  let mediaRef := cfg.startS * r.T
  match checkTime (s.stop + wrapTime + mediaRef) r.T nowMS cfg.tsbdS cfg.ato with
  | .ok => .found { origIdx := rel, origNr := s.nr, origTime := s.start, newNr := nr % 4294967296,
                    newTime := wrapTime + s.start, newDur := (s.stop - s.start) % 4294967296, T := r.T }
  | st => .status st

/-- `findSegmentIndexFromTime`: first index whose start is ≥ t (`sort.Search` on a sorted table) -/
def idxFromTime (segs : List Seg) (t : Nat) : Nat :=
  match segs with
  | [] => 0
  | s :: rest => if s.start ≥ t then 0 else idxFromTime rest t + 1

/-- `findSegMetaFromTime` -/
def byTime (a : Asset) (r : Rep) (cfg : Cfg) (t nowMS : Nat) : Lookup :=
  let wd := wrapDur a r
  if wd = 0 then .status .panic else
  let wraps := t / wd
  let wrapTime := wraps * wd
  let after := t - wrapTime
  let idx := idxFromTime r.segs after
  if idx = r.N then .status .internal else     -- "no matching segment"
  let s := r.seg idx
  if s.start ≠ after then .status .internal else  -- "segment time mismatch"
  let mediaRef := cfg.startS * r.T
  match checkTime (s.stop + wrapTime + mediaRef) r.T nowMS cfg.tsbdS cfg.ato with
  | .ok => .found { origIdx := idx, origNr := s.nr, origTime := s.start,
                    newNr := (cfg.startNr + idx + wraps * r.N) % 4294967296,
                    newTime := t, newDur := (s.stop - s.start) % 4294967296, T := r.T }
  | st => .status st

/-- the dispatch of `createOutSeg` / `findSegMeta` for non-audio representations -/
def lookupVideo (a : Asset) (r : Rep) (cfg : Cfg) (segId nowMS : Nat) : Lookup :=
  let ty := if r.kind = .image then MpdType.number else cfg.mpdType
  match ty with
  | .timelineTime => byTime a r cfg segId nowMS
  | _ =>
    let nr := segId % 4294967296       -- `nr := uint32(segID)`
    if nr < cfg.startNr % 4294967296 then .status .notFound else byNr a r cfg nr nowMS

/-! ## the gap-free looped timeline (specification side) -/

/-- media start of output segment k (counted from availabilityStartTime) -/
def S (a : Asset) (r : Rep) (k : Nat) : Nat := (k / r.N) * wrapDur a r + (r.seg (k % r.N)).start
/-- its end -/
def E (a : Asset) (r : Rep) (k : Nat) : Nat := (k / r.N) * wrapDur a r + (r.seg (k % r.N)).stop

/-- contiguous table: every segment non-empty, each starts where the previous ends -/
def Contig (r : Rep) : Prop :=
  0 < r.N ∧ (∀ i, i < r.N → (r.seg i).start < (r.seg i).stop) ∧
  (∀ i, i + 1 < r.N → (r.seg i).stop = (r.seg (i+1)).start)

/-- the loop closes exactly: the wrap duration in ticks equals the table's duration and the table starts at 0 -/
def Closes (a : Asset) (r : Rep) : Prop := wrapDur a r = r.dur ∧ (r.seg 0).start = 0

end Core
