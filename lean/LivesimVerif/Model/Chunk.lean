/-!
# Model of low-latency chunking (`livesegment.go: chunkSegment`, pacing loop of `writeChunkedSegment`)

Samples are their durations (`List Nat`); a chunk is `(number of samples, dur field)`.  `chunkDur > 0`
(the `fix:` commit refuses other values before `chunkSegment` is called).
-/
namespace Chunk

structure Ch where
  n : Nat          -- samples in the chunk
  dur : Nat        -- chk.dur (media ticks): real duration for closed chunks, `chunkDur` for the tail chunk
  real : Nat       -- real media duration of the chunk (ghost, not in the Go struct)
  deriving Repr, DecidableEq

structure St where
  done : List Ch       -- closed chunks, oldest first
  curN : Nat           -- samples in the open chunk
  curDur : Nat         -- thisChunkDur
  total : Nat          -- totalDur
  nr : Nat             -- chunkNr
  deriving Repr

/-- one loop iteration -/
def stepSample (cd : Nat) (s : St) (d : Nat) : St :=
  let s1 := { s with curN := s.curN + 1, curDur := s.curDur + d, total := s.total + d }
  if s1.total ≥ cd * s1.nr then
    { s1 with done := s1.done ++ [⟨s1.curN, s1.curDur, s1.curDur⟩], curN := 0, curDur := 0, nr := s1.nr + 1 }
  else s1

/-- `chunkSegment` -/
def chunkSegment (durs : List Nat) (cd : Nat) : List Ch :=
  let s := durs.foldl (stepSample cd) { done := [], curN := 0, curDur := 0, total := 0, nr := 1 }
  if s.curDur > 0 then s.done ++ [⟨s.curN, cd, s.curDur⟩] else s.done

/-- pacing: for each chunk the instant (simulated ms) at which it is written.  `clk` are the successive readings of
`unixMS() − startUnixMS` (one per chunk that reaches the second test), `now` the request instant, `ends` the chunk
availability instants in ms.  A sleep of `d` ms returns after at least `d` ms (`slack` = oversleep per chunk). -/
def pace (now : Nat) : List Nat → List Nat → List Nat → List Nat
  | [], _, _ => []
  | e :: ends, clk, slack =>
    if e < now then now :: pace now ends clk slack                      -- already past: written at once
    else
      let c := clk.headD 0
      let upd := now + c
      if e < upd then upd :: pace now ends clk.tail slack               -- past after re-reading the clock
      else (upd + (e - upd) + slack.headD 0) :: pace now ends clk.tail slack.tail   -- sleep(e − upd), then write

/-- the chunk duration `writeChunkedSegment` derives from the advertised offset:
`(SegmentDurMS − int(ato·1000)) · timescale / 1000` (an offset of at least a segment is refused before) -/
def chunkDurTicks (segDurMS atoMS T : Nat) : Nat := (segDurMS - atoMS) * T / 1000

end Chunk
