/-!
# Model of the ClearKey key plumbing (`keys.go`, `handler_laurl.go`)

Key ids and keys are lists of 16 bytes (naturals below 256).  `kidFromString` hashes a fresh md5 state after
writing 16 zero bytes — its string argument only goes through `Sum`, which does not feed the hash — so its
result is the same for every string: the md5 of 16 zero bytes with the first three bytes replaced.  The md5 value
is a parameter of the model (the harness computes it with crypto/md5, not through livesim2).
-/
namespace Keys

def kidStart : List Nat := [0x28, 0x80, 0xfe]
def keyStart : List Nat := [0x28, 0x46, 0x3e]

/-- `kidFromString` -/
def kidFromString (md5zero : List Nat) (_s : String) : List Nat := kidStart ++ md5zero.drop 3

/-- `kidToKey`; `none` = panic -/
def kidToKey (kid : List Nat) : Option (List Nat) :=
  if kid.take 3 = kidStart then some (keyStart ++ kid.drop 3) else none

/-- `keyToKid`; `none` = panic -/
def keyToKid (key : List Nat) : Option (List Nat) :=
  if key.take 3 = keyStart then some (kidStart ++ key.drop 3) else none

/-! ## base64 -/

def alphabet : List Char := "ABCDEFGHIJKLMNOPQRSTUVWXYZabcdefghijklmnopqrstuvwxyz0123456789+/".toList

def encChar (n : Nat) : Char := alphabet.getD n 'A'

def decChar (c : Char) : Option Nat :=
  let i := alphabet.idxOf c
  if i < 64 then some i else none

/-- `base64.StdEncoding.EncodeToString` -/
def encode : List Nat → List Char
  | a :: b :: c :: t =>
    encChar (a / 4) :: encChar (a % 4 * 16 + b / 16) :: encChar (b % 16 * 4 + c / 64) :: encChar (c % 64) :: encode t
  | [a, b] => [encChar (a / 4), encChar (a % 4 * 16 + b / 16), encChar (b % 16 * 4), '=']
  | [a] => [encChar (a / 4), encChar (a % 4 * 16), '=', '=']
  | [] => []

/-- `base64.StdEncoding.DecodeString` (padding required, not strict about the unused low bits; the `\r`/`\n`
skipping of Go's decoder is not modelled) -/
def decode : List Char → Option (List Nat)
  | [] => some []
  | c1 :: c2 :: c3 :: c4 :: t =>
    if t = [] ∧ c4 = '=' then
      (if c3 = '=' then
        match decChar c1, decChar c2 with
        | some d1, some d2 => some [d1 * 4 + d2 / 16]
        | _, _ => none
       else
        match decChar c1, decChar c2, decChar c3 with
        | some d1, some d2, some d3 => some [d1 * 4 + d2 / 16, d2 % 16 * 16 + d3 / 4]
        | _, _, _ => none)
    else
      match decChar c1, decChar c2, decChar c3, decChar c4, decode t with
      | some d1, some d2, some d3, some d4, some r =>
        some ((d1 * 4 + d2 / 16) :: (d2 % 16 * 16 + d3 / 4) :: (d3 % 4 * 64 + d4) :: r)
      | _, _, _, _, _ => none
  | _ => none

def toUrl (c : Char) : Char := if c = '+' then '-' else if c = '/' then '_' else c
def fromUrl (c : Char) : Char := if c = '-' then '+' else if c = '_' then '/' else c

/-- `urlSafeBase64` / `PackBase64`: padding removed, `+` → `-`, `/` → `_` -/
def urlSafe (cs : List Char) : List Char := (cs.filter (· ≠ '=')).map toUrl

def pack (bs : List Nat) : List Char := urlSafe (encode bs)

/-- `unpackBase64` -/
def unpack (cs : List Char) : List Char :=
  let u := cs.map fromUrl
  u ++ List.replicate ((4 - u.length % 4) % 4) '='

/-- `id16FromBase64` -/
def id16FromBase64 (cs : List Char) : Option (List Nat) :=
  match decode cs with
  | some bs => if bs.length = 16 then some bs else none
  | none => none

/-! ## licence -/

inductive Lic where
  | bad                                   -- 400
  | key (k : List Char) (kid : List Char) -- the JSON fields "k" and "kid"
  deriving DecidableEq, Repr

/-- one key id of a licence request (`laURLHandlerFunc`, with the `fix:` commit rejecting foreign ids) -/
def licence (kidReq : List Char) : Lic :=
  let std := unpack kidReq
  match id16FromBase64 std with
  | none => .bad
  | some kid =>
    match kidToKey kid with
    | none => .bad
    | some key => .key (pack key) (urlSafe std)

end Keys
