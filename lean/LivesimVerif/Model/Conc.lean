/-!
# Protocol models of the ingest receiver's shared tables, over atomic steps

`getOrAdd` = `ChannelMgr.GetOrAddChannel`, `addTr` = `channel.addTrData`: each is one critical section in the code
(`Props/C19.lean: c19_atomic_sections`), so a concurrent execution is a sequence of these steps (a linearisation).
-/
namespace Conc

structure Tbl where
  objs : List (String × Nat)    -- name ↦ object id, newest first
  next : Nat                    -- ids handed out so far
  deriving Repr, DecidableEq

def Tbl.lookup (t : Tbl) (n : String) : Option Nat := (t.objs.find? (·.1 == n)).map (·.2)

/-- `GetOrAddChannel` -/
def getOrAdd (t : Tbl) (n : String) : Tbl × Nat :=
  match t.lookup n with
  | some id => (t, id)
  | none => ({ objs := (n, t.next) :: t.objs, next := t.next + 1 }, t.next)

/-- a schedule is the order in which the requests' atomic steps happen; the result of each request -/
def runSched (t : Tbl) : List String → Tbl × List (String × Nat)
  | [] => (t, [])
  | n :: ns =>
    let (t1, id) := getOrAdd t n
    let (t2, rs) := runSched t1 ns
    (t2, (n, id) :: rs)

structure Reg where
  tracks : List (String × Bool)   -- name, isVideo; in registration order
  master : Option String
  deriving Repr, DecidableEq

/-- `addTrData` as one atomic step: the master becomes the new track unless a video track is already registered -/
def addTr (r : Reg) (t : String × Bool) : Reg :=
  { tracks := r.tracks ++ [t], master := if r.tracks.any (·.2) then r.master else some t.1 }

def regAll (ts : List (String × Bool)) : Reg := ts.foldl addTr ⟨[], none⟩

end Conc
