/-!
# Model of the MPD patch generator's leaf-list diff (`pkg/patch/patch.go: addLeafListChanges`)

The `SegmentTimeline` children (`S` elements) are a list over an arbitrary element type `α`.  `leafOps` is the op
emission loop of `addLeafListChanges` for a given edit script (the output of `MyersDiff`); `applyOps` is RFC 5261
`remove` / `add pos="after"` / `add pos="prepend"` on the child list, in order.
State of the Go loop: `oldIdx = i`, `oldIdx + offset = j` (read positions in the old and in the new list).
-/
namespace Patch

inductive Edit
  | del (oldPos : Nat)
  | ins (oldPos newPos : Nat)
  deriving Repr, DecidableEq

inductive LOp (α : Type)
  | remove (k : Nat)              -- `remove sel=".../S[k+1]"`
  | addAfter (k : Nat) (x : α)    -- `add sel=".../S[k+1]" pos="after"`
  | prepend (x : α)               -- `add sel="..." pos="prepend"`
  deriving Repr, DecidableEq

/-- the emission loop; `none` = index panic on `newElems[d.NewPos]` -/
def leafOps {α : Type} (ys : List α) : List Edit → Nat → Nat → Option (List (LOp α))
  | [], _, _ => some []
  | .del p :: es, i, j =>
    if p < i then leafOps ys es i j            -- an op behind the read position is skipped silently
    else (leafOps ys es (p + 1) (j + (p - i))).map (fun r => .remove (j + (p - i)) :: r)
  | .ins p q :: es, i, j =>
    if p < i then leafOps ys es i j
    else
      match ys[q]? with
      | none => none
      | some y =>
        let j' := j + (p - i)
        (leafOps ys es p (j' + 1)).map (fun r => (if j' = 0 then .prepend y else .addAfter (j' - 1) y) :: r)

def removeAt {α : Type} (l : List α) (k : Nat) : Option (List α) :=
  if k < l.length then some (l.take k ++ l.drop (k + 1)) else none

def insertAt {α : Type} (l : List α) (k : Nat) (x : α) : Option (List α) :=
  if k ≤ l.length then some (l.take k ++ [x] ++ l.drop k) else none

def applyOp {α : Type} (l : List α) : LOp α → Option (List α)
  | .remove k => removeAt l k
  | .addAfter k x => if k < l.length then insertAt l (k + 1) x else none
  | .prepend x => some (x :: l)

def applyOps {α : Type} : List (LOp α) → List α → Option (List α)
  | [], l => some l
  | op :: rest, l => (applyOp l op).bind (applyOps rest)

/-- validity of an edit script relative to the read positions `(i, j)` (DESIGN.md, C11) -/
def Valid {α : Type} (xs ys : List α) : List Edit → Nat → Nat → Prop
  | [], i, j => xs.drop i = ys.drop j
  | .del p :: es, i, j =>
    i ≤ p ∧ p < xs.length ∧ (xs.drop i).take (p - i) = (ys.drop j).take (p - i) ∧ Valid xs ys es (p + 1) (j + (p - i))
  | .ins p q :: es, i, j =>
    i ≤ p ∧ p ≤ xs.length ∧ q = j + (p - i) ∧ q < ys.length ∧ (xs.drop i).take (p - i) = (ys.drop j).take (p - i) ∧
      Valid xs ys es p (q + 1)

/-- executable validity check (certificate evaluated by the driver on the real `MyersDiff` output) -/
def validB {α : Type} [DecidableEq α] (xs ys : List α) : List Edit → Nat → Nat → Bool
  | [], i, j => xs.drop i == ys.drop j
  | .del p :: es, i, j =>
    decide (i ≤ p) && decide (p < xs.length) && ((xs.drop i).take (p - i) == (ys.drop j).take (p - i)) &&
      validB xs ys es (p + 1) (j + (p - i))
  | .ins p q :: es, i, j =>
    decide (i ≤ p) && decide (p ≤ xs.length) && decide (q = j + (p - i)) && decide (q < ys.length) &&
      ((xs.drop i).take (p - i) == (ys.drop j).take (p - i)) && validB xs ys es p (q + 1)

end Patch
