/-!
# Model of asset admission (`asset.go: setReferenceRep`, `consolidateAsset`)

A representation is summarised by its content type, total duration (`Segments[last].EndTime - Segments[0].StartTime`)
in its media timescale, and the pre-encrypted flag.  `reps` is the list sorted by id (the order `setReferenceRep` walks).
-/
namespace Load

structure RepD where
  id : String
  kind : String
  dur : Nat
  ts : Nat
  preEnc : Bool
  deriving Repr, DecidableEq

/-- `setReferenceRep`: first video, else first audio, in id order -/
def pickRef (reps : List RepD) : Option RepD :=
  match reps.find? (·.kind = "video") with
  | some r => some r
  | none => reps.find? (·.kind = "audio")

def durMS (r : RepD) : Nat := 1000 * r.dur / r.ts

/-- the representations `consolidateAsset` compares with the reference: all but re-segmented audio
(`fix:` commit; before, only those of the reference's content type, and to within a millisecond) -/
def compared (ref r : RepD) : Bool := !(r.kind = "audio" && r.kind != ref.kind && !r.preEnc)

/-- `consolidateAsset`: loop duration in ms and the reference id; `none` = the asset is left out -/
def consolidate (reps : List RepD) : Option (Nat × String) :=
  match pickRef reps with
  | none => none
  | some ref =>
    let loop := durMS ref
    if loop * ref.ts ≠ 1000 * ref.dur then none
    else if reps.any (fun r => compared ref r && (durMS r != loop || durMS r * r.ts != 1000 * r.dur)) then none
    else some (loop, ref.id)

/-- the wrap offset the segment handlers use for a representation: `LoopDurMS * MediaTimescale / 1000` -/
def wrapDur (loop : Nat) (r : RepD) : Nat := loop * r.ts / 1000

end Load

/-! ## The segment table of a `$Number$` representation (`loadRep`, the loop "until we cannot find more files") -/
namespace Load

/-- what `readMP4Segment` reads from the files, in number order: `(tfdt, end of the last fragment)`; `loadRep` overwrites
the end time of every segment but the last with the start time of the next one -/
def loadByNumber : List (Nat × Nat) → List (Nat × Nat)
  | [] => []
  | [x] => [x]
  | (s, _) :: (s', e') :: rest => (s, s') :: loadByNumber ((s', e') :: rest)

/-- thumbnails (`readThumbSegment`): `n` tiles of the template's duration -/
def loadThumbs (n dur : Nat) : List (Nat × Nat) := (List.range n).map fun k => (k * dur, k * dur + dur)

/-- each segment starts where the previous one ends -/
def ContigTable : List (Nat × Nat) → Prop
  | [] => True
  | [_] => True
  | a :: b :: rest => a.2 = b.1 ∧ ContigTable (b :: rest)

end Load
