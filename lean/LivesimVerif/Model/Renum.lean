/-!
# Model of the renumbering of a "shifted" channel in the CMAF-ingest receiver
(`channel.go: run`, the start of the channel; `receiver.go: SegmentHandlerFunc`, the `shouldBeShifted` branch)

When the master track's first two segments have the same duration `dur`, the channel starts.  If the first segment's
number is not `time / dur`, or its time is no multiple of `dur`, the channel is *shifted*: from then on every upload is
stored under the number that its (shifted) time implies, and its decode time is rewritten, so that in the stored stream
`number = time / duration` holds again — which is what the `$Number$` timeline MPD of the receiver relies on.

Times of a track are in its own timescale `tsIn`; the master's values are in `mTS`.  `timeScaleOut = timeScaleIn` is
assumed (the default; resampling of timescales is not modelled).  All integers are non-negative here (`int64` in the
code; the shift is positive and times are `uint64` decode times).
-/
namespace Renum

structure Start where
  dur : Nat          -- masterSegDuration (mTS)
  mTS : Nat          -- masterTimescale
  seqShift : Int     -- masterSeqNrShift
  timeShift : Nat    -- masterTimeShift (0 = none)
  deriving Repr, DecidableEq

/-- the start of the channel from the master's first segment `(seq0, dts0)` and the common duration `dur` -/
def start (seq0 dts0 dur mTS : Nat) : Start :=
  let expected := dts0 / dur
  let s1 : Int := if expected ≠ seq0 then (expected : Int) - seq0 else 0
  let over := dts0 % dur
  if over ≠ 0 then ⟨dur, mTS, s1 + 1, dur - over⟩ else ⟨dur, mTS, s1, 0⟩

def Start.shifted (s : Start) : Bool := s.seqShift != 0 || s.timeShift != 0

/-- the shifted time of an upload with decode time `inTime` in timescale `tsIn` (in `tsIn` again) -/
def Start.outTime (s : Start) (inTime tsIn : Nat) : Nat :=
  if s.timeShift ≠ 0 then
    let t1 := (if s.mTS ≠ tsIn then inTime * s.mTS / tsIn else inTime) + s.timeShift
    t1 * tsIn / s.mTS
  else inTime

/-- the master's segment duration in the track's timescale -/
def Start.segDur (s : Start) (tsIn : Nat) : Nat := s.dur * tsIn / s.mTS

/-- the outgoing number (`uint32` arithmetic) and decode time of an upload on a shifted channel; `none` = division by
zero (`segDur = 0`: a track timescale so coarse that a master segment is less than a tick) -/
def Start.renumber (s : Start) (startNr inTime tsIn : Nat) : Option (Nat × Nat) :=
  let t := s.outTime inTime tsIn
  let sd := s.segDur tsIn
  if sd = 0 then none else
  some (((t + sd / 2) / sd % 4294967296 + 4294967296 - startNr % 4294967296) % 4294967296, t)

/-- what the handler stores an upload under: before the start (or on a channel that is not shifted) the incoming number
minus `startNr`, the time unchanged -/
def stored (s : Option Start) (startNr seqIn inTime tsIn : Nat) : Option (Nat × Nat) :=
  match s with
  | some st => if st.shifted then st.renumber startNr inTime tsIn
               else some ((seqIn % 4294967296 + 4294967296 - startNr % 4294967296) % 4294967296, inTime)
  | none => some ((seqIn % 4294967296 + 4294967296 - startNr % 4294967296) % 4294967296, inTime)

end Renum
