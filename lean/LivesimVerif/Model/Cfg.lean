import LivesimVerif.Model.Fault
import LivesimVerif.Gen.Consts
/-!
# Model of the URL configuration parser (`configurl.go: processURLCfg`, `verifyAndFillConfig`; `strconv.go`)

The URL is handled as the list of its path parts from index 2 on (`/livesim2/<part>/<part>/...`), each part already cut
at its first `_` (`Part`).  Splitting the raw path (`QueryUnescape`, `Split "/"`, `Cut "_"`) is driver glue
(`Driver/Cfg.lean`), validated by the `cfg` op.  All integers are Go `int` (64 bit): sums that can leave the range are
wrapped with `wrap64`.

Floats: only the decimal forms `d+[.d{0,3}]` with optional `-` are modelled, exactly, in thousandths; `inf`/`infinity`
and `nan` as Go's `ParseFloat` spells them.  Exponent, hex and longer fractions are outside the model (the generator of
the `cfg` op does not produce them); they yield `none` = "conversion error", which is what Go answers for everything
else that is not a number.
-/
namespace Cfg

def maxTimeS : Int := Gen.app_maxTimeS
def maxTsbd : Int := Gen.app_MAX_TIME_SHIFT_BUFFER_DEPTH_S

def wrap64 (x : Int) : Int := (x + 9223372036854775808) % 18446744073709551616 - 9223372036854775808

/-! ## strconv -/

def digitsVal : List Char → Nat → Option Nat
  | [], acc => some acc
  | c :: t, acc => if c.isDigit then digitsVal t (acc * 10 + (c.toNat - '0'.toNat)) else none

/-- `strconv.Atoi`: optional sign, at least one digit, digits only, inside int64 -/
def atoiL (cs : List Char) : Option Int :=
  let (neg, ds) : Bool × List Char := match cs with
    | '-' :: t => (true, t)
    | '+' :: t => (false, t)
    | _ => (false, cs)
  if ds = [] then none else
  match digitsVal ds 0 with
  | none => none
  | some n =>
    let v : Int := if neg then -(n : Int) else (n : Int)
    if v < -9223372036854775808 ∨ v > 9223372036854775807 then none else some v

def atoi (s : String) : Option Int := atoiL s.toList

/-- float values, finite ones in thousandths -/
inductive F where
  | fin (milli : Int)
  | pinf
  | ninf
  | nan
  deriving Repr, DecidableEq, Inhabited

def lower (cs : List Char) : List Char := cs.map Char.toLower

/-- `strconv.ParseFloat` on the modelled forms -/
def parseFloatL (cs : List Char) : Option F :=
  let (neg, signed, body) : Bool × Bool × List Char := match cs with
    | '-' :: t => (true, true, t)
    | '+' :: t => (false, true, t)
    | _ => (false, false, cs)
  let lb := lower body
  if lb = "inf".toList ∨ lb = "infinity".toList then some (if neg then .ninf else .pinf)
  else if lb = "nan".toList ∧ !signed then some .nan
  else
    let ip := body.takeWhile Char.isDigit
    let rest := body.dropWhile Char.isDigit
    if ip = [] then none else
    match rest with
    | [] => (digitsVal ip 0).map fun n => .fin ((if neg then -1 else 1) * (n : Int) * 1000)
    | '.' :: fr =>
      if fr.length > 3 ∨ !(fr.all Char.isDigit) then none else
      match digitsVal ip 0, digitsVal (fr ++ List.replicate (3 - fr.length) '0') 0 with
      | some n, some f => some (.fin ((if neg then -1 else 1) * ((n : Int) * 1000 + f)))
      | _, _ => none
    | _ => none

def parseFloat (s : String) : Option F := parseFloatL s.toList

/-! ## configuration -/

structure Code where
  cycle : Int
  rsq : Int
  code : Int
  reps : List String
  deriving Repr, Inhabited

structure C where
  start : Int := Gen.app_defaultAvailabilityStartTimeS
  stop : Option Int := none
  tsbd : Option Int := some Gen.app_defaultTimeShiftBufferDepthS
  mup : Option Int := none
  periods : Option Int := none
  snr : Option Int := some Gen.app_defaultStartNr
  ato : F := .fin 0
  ltgt : Option Int := none
  spd : Option Int := none
  chunk : Option F := none
  tsdur : Int := Gen.app_defaultTimeSubsDurMS
  tsreg : Int := 0
  scte : Option Int := none
  patch : Int := 0
  drm : String := ""
  init : Option Int := none
  peroff : Option Int := none
  xlink : Option Int := none
  etp : Option Int := none
  etpdur : Option Int := none
  toff : Option F := none
  addLoc : Bool := false
  tfdt32 : Bool := false
  contUpd : Bool := false
  insertAd : Bool := false
  contMP : Bool := false
  stl : Bool := false
  stlNr : Bool := false
  sidx : Bool := false
  stlLoss : Bool := false
  atc : Bool := Gen.app_defaultAvailabilityTimeComplete
  durs : List Int := []
  utc : List String := []
  stpp : List String := []
  wvtt : List String := []
  codes : List Code := []
  traffic : List (List Core.LossItvl) := []
  query : Option String := none
  deriving Inhabited

/-- `ms2S`: round to the nearest second (the float tie at exactly x.5 s is not modelled: see the generator) -/
def ms2S (ms : Int) : Int := (ms + 500) / 1000

def utcNames : List String :=
  [Gen.app_UtcTimingDirect, Gen.app_UtcTimingNtp, Gen.app_UtcTimingSntp, Gen.app_UtcTimingHttpXSDate,
   Gen.app_UtcTimingHttpXSDateMs, Gen.app_UtcTimingHttpISO, Gen.app_UtcTimingHttpISOMs, Gen.app_UtcTimingNone,
   Gen.app_UtcTimingHttpHead]

/-- `SplitUTCTimings` -/
def splitUTC (val : String) : Option (List String) :=
  let vals := val.splitOn "-"
  if vals.any (fun v => !(utcNames.contains v) ∧ v ≠ Gen.app_UtcTimingKeep) then none
  else if vals.contains Gen.app_UtcTimingKeep ∧ vals.length > 1 then none
  else some (vals.map fun v => if v = Gen.app_UtcTimingKeep then "" else v)

/-- one `{...}` group of `ParseSegStatusCodes`, before the range checks -/
def parseCodeRaw (part : String) : Option Code :=
  (part.splitOn ",").foldlM (init := (⟨0, 0, 0, []⟩ : Code)) fun c p =>
    match p.splitOn ":" with
    | [k, v] =>
      if k = "cycle" then (atoi v).map fun n => { c with cycle := n }
      else if k = "rsq" then (atoi v).map fun n => { c with rsq := n }
      else if k = "code" then (atoi v).map fun n => { c with code := n }
      else if k = "rep" then some (if v = "*" then c else { c with reps := v.splitOn "," })
      else none
    | _ => none

def codeOk (c : Code) : Bool :=
  decide (0 < c.cycle) && decide (c.cycle ≤ maxTimeS) && decide (0 ≤ c.rsq) && decide (400 ≤ c.code) && decide (c.code ≤ 599)

/-- `ParseSegStatusCodes` -/
def parseCodes (val : String) : Option (List Code) :=
  let t := (val.toList.filter (· ≠ ' '))
  if t.length < 4 then none else
  let inner := String.ofList ((t.drop 2).take (t.length - 4))
  match (inner.splitOn "},{").mapM parseCodeRaw with
  | none => none
  | some cs => if cs.all codeOk then some cs else none

/-- `CreateAllLossItvls` -/
def parseTraffic (val : String) : Option (List (List Core.LossItvl)) :=
  if val = "" then some [] else (val.splitOn ",").mapM Core.parseLoss

/-- `ParseQuery`: the raw query string -/
def parseQuery (val : String) : Option String :=
  ((val.splitOn ",").mapM fun (pair : String) =>
    match pair.splitOn "=" with
    | [k, v] => some (k ++ "=" ++ v)
    | [k] => some k
    | _ => none).map ("&".intercalate ·)

/-- a URL part cut at its first `_`; `none` = no underscore -/
abbrev Part := Option (String × String)

inductive Step where
  | cont (c : C)      -- a configuration parameter
  | content           -- the content part starts here
  | fail              -- conversion error (accumulated in `sc.err`), or `modulo`
  deriving Inhabited

/-- integer parameters (`sc.Atoi`, `sc.AtoiPtr`) and what they set -/
def intSetters (nowMS : Int) : List (String × (C → Int → C)) := [
  ("start", fun c n => { c with start := n }),
  ("ast", fun c n => { c with start := n }),
  ("stop", fun c n => { c with stop := some n }),
  ("startrel", fun c n => { c with start := wrap64 (n + ms2S nowMS), addLoc := true }),
  ("stoprel", fun c n => { c with stop := some (wrap64 (n + ms2S nowMS)), addLoc := true }),
  ("dur", fun c n => { c with durs := c.durs ++ [n] }),
  ("init", fun c n => { c with init := some n }),
  ("tsbd", fun c n => { c with tsbd := some n }),
  ("mup", fun c n => { c with mup := some n }),
  ("periods", fun c n => { c with periods := some n }),
  ("xlink", fun c n => { c with xlink := some n }),
  ("etp", fun c n => { c with etp := some n }),
  ("etpDuration", fun c n => { c with etpdur := some n }),
  ("peroff", fun c n => { c with peroff := some n }),
  ("scte35", fun c n => { c with scte := some n }),
  ("snr", fun c n => { c with snr := some n }),
  ("ltgt", fun c n => { c with ltgt := some n }),
  ("spd", fun c n => { c with spd := some n }),
  ("timesubsdur", fun c n => { c with tsdur := n }),
  ("timesubsreg", fun c n => { c with tsreg := n }),
  ("patch", fun c n => { c with patch := if n > 0 then n else c.patch })]

/-- parameters that only set a flag (the value is ignored) -/
def flagSetters : List (String × (C → C)) := [
  ("tfdt", fun c => { c with tfdt32 := true }),
  ("cont", fun c => { c with contUpd := true }),
  ("insertad", fun c => { c with insertAd := true }),
  ("continuous", fun c => { c with contMP := true }),
  ("segtimeline", fun c => { c with stl := true }),
  ("segtimelinenr", fun c => { c with stlNr := true }),
  ("sidx", fun c => { c with sidx := true }),
  ("segtimelineloss", fun c => { c with stlLoss := true })]

def intKeys : List String := (intSetters 0).map (·.1)
def flagKeys : List String := flagSetters.map (·.1)
def otherKeys : List String := ["timeoffset", "modulo", "utc", "ato", "chunkdur", "timesubsstpp", "timesubswvtt", "statuscode",
  "traffic", "drm", "eccp", "annexI"]

def knownKeys : List String := intKeys ++ flagKeys ++ otherKeys

/-- helper: an integer parameter -/
def withInt (val : String) (f : Int → C) : Step :=
  match atoi val with
  | none => .fail
  | some n => .cont (f n)

def setToff (c : C) (f : F) : C := { c with toff := some f }
def setAto (c : C) (f : F) : C := { c with ato := f }
def setChunk (c : C) (f : F) : C := { c with chunk := some f, atc := false }
def setUtc (c : C) (l : List String) : C := { c with utc := l }
def setStpp (c : C) (l : List String) : C := { c with stpp := l }
def setWvtt (c : C) (l : List String) : C := { c with wvtt := l }
def setCodes (c : C) (l : List Code) : C := { c with codes := l }
def setTraffic (c : C) (l : List (List Core.LossItvl)) : C := { c with traffic := l }
def setDrm (c : C) (s : String) : C := { c with drm := s }
def setQuery (c : C) (q : String) : C := { c with query := some q }

/-- the remaining parameters -/
def special (c : C) (key val : String) : Step :=
  if key = "timeoffset" then (match parseFloat val with | none => .fail | some f => .cont (setToff c f))
  else if key = "modulo" then .fail
  else if key = "utc" then (match splitUTC val with | none => .fail | some l => .cont (setUtc c l))
  else if key = "ato" then
    (if val = "inf" then .cont (setAto c .pinf)
     else match parseFloat val with | none => .fail | some f => .cont (setAto c f))
  else if key = "chunkdur" then
    (match parseFloat val with
     | none => .fail
     | some f =>
       match f with
       | .fin m => if m < 0 then .fail else .cont (setChunk c f)
       | .ninf => .fail
       | _ => .cont (setChunk c f))
  else if key = "timesubsstpp" then .cont (setStpp c (val.splitOn ","))
  else if key = "timesubswvtt" then .cont (setWvtt c (val.splitOn ","))
  else if key = "statuscode" then (match parseCodes val with | none => .fail | some l => .cont (setCodes c l))
  else if key = "traffic" then (match parseTraffic val with | none => .fail | some l => .cont (setTraffic c l))
  else if key = "drm" then .cont (setDrm c val)
  else if key = "eccp" then .cont (setDrm c ("eccp-" ++ val))
  else if key = "annexI" then (match parseQuery val with | none => .fail | some q => .cont (setQuery c q))
  else .content

/-- one iteration of `cfgLoop` -/
def step (nowMS : Int) (c : C) (p : Part) : Step :=
  match p with
  | none => .content
  | some (key, val) =>
    match (intSetters nowMS).find? (·.1 == key) with
    | some e => withInt val (e.2 c)
    | none =>
      match flagSetters.find? (·.1 == key) with
      | some e => .cont (e.2 c)
      | none => special c key val

inductive Res where
  | err
  | ok (c : C) (idx : Nat)
  deriving Inhabited

def timeOut (t : Int) : Bool := decide (t < -maxTimeS) || decide (t > maxTimeS)

def fOut (f : F) : Bool :=
  match f with
  | .fin m => decide (m < -maxTimeS * 1000) || decide (m > maxTimeS * 1000)
  | _ => true

/-- the checks of `verifyAndFillConfig`; `true` = accepted -/
def verifyB (nowMS : Int) (c : C) : Bool :=
  !(decide (nowMS < 0) || decide (nowMS > maxTimeS * 1000)) &&
  !timeOut c.start &&
  (match c.stop with | some s => !timeOut s && decide (c.start ≤ s) | none => true) &&   -- (`fix:` commit: stop ≥ start)
  (match c.toff with | some f => !fOut f | none => true) &&
  (match c.ato with | .pinf => true | .fin m => !fOut (.fin m) && decide (0 ≤ m) | _ => false) &&
  (match c.chunk with | some f => !fOut f | none => true) &&
  decide (0 < c.tsdur) &&
  !(c.stl && c.stlNr) &&
  (decide (0 ≤ c.tsreg) && decide (c.tsreg ≤ 1)) &&
  (match c.mup with | some m => decide (0 < m) | none => true) &&
  (match c.tsbd with | some t => decide (0 ≤ t) && decide (t ≤ maxTsbd) | none => true) &&
  (match c.periods with | some p => decide (1 ≤ p) && decide (p ≤ 3600) | none => true) &&
  !(c.contMP && c.periods.isNone) &&
  (match c.scte with | some n => decide (n = 1) || decide (n = 2) || decide (n = 3) | none => true)

def atoPos (f : F) : Bool :=
  match f with
  | .pinf => true
  | .fin m => decide (0 < m)
  | _ => false

/-- the "fill" part of `verifyAndFillConfig` -/
def fill (c : C) : C :=
  if atoPos c.ato ∧ c.ltgt.isNone then { c with ltgt := some Gen.app_defaultLatencyTargetMS } else c

/-- `cfgLoop` from part index `i` on -/
def run (nowMS : Int) : C → Nat → List Part → Res
  | _, _, [] => .err                                  -- "no content part"
  | c, i, p :: rest =>
    match step nowMS c p with
    | .fail => .err
    | .content => if verifyB nowMS c then .ok (fill c) i else .err
    | .cont c' => run nowMS c' (i + 1) rest

/-- `processURLCfg` on the parts after `/livesim2/` -/
def processParts (nowMS : Int) (parts : List Part) : Res := run nowMS {} 2 parts

end Cfg

namespace Cfg

/-- outcome of `cfgFromRequest` (handler_livesim.go) for a parsable path and `?nowMS=` -/
inductive Req where
  | status (code : Nat)
  | ok (nowMS : Int) (c : C) (idx : Nat)
  deriving Inhabited

/-- `cfgFromRequest`: parse, apply `timeoffset` to the instant, refuse instants before the start time.
`int(timeoffset*1000)` is taken as the exact number of thousandths (true for the decimal forms with at most three
fraction digits whose product is exact in binary: the generator uses multiples of 0.5). -/
def effNow (nowMS : Int) (c : C) : Int :=
  match c.toff with
  | some (.fin m) => wrap64 (nowMS + m)
  | _ => nowMS

def cfgFromRequest (nowMS : Int) (parts : List Part) : Req :=
  match processParts nowMS parts with
  | .err => .status 400
  | .ok c idx => if effNow nowMS c < c.start * 1000 then .status 425 else .ok (effNow nowMS c) c idx

end Cfg
