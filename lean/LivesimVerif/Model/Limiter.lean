/-!
# Model of `IPRequestLimiter` (`cmd/livesim2/app/ipreqlimit.go`)

`Inc`, `Count`, `EndTime` and the middleware decision, as total functions on a state
`{reset, counters}`.  Times are integers (ms); `map[string]int` is an association list keyed by the
address *string* exactly as in the Go code.  White-list blocks are IPv4 CIDR blocks
`(prefix, bits)`; an address string that is neither a dotted quad nor an IPv4-mapped IPv6 spelling is never white-listed
(`net.ParseIP` → nil → `Contains` false).
-/
namespace Lim

structure Block where
  net : Nat         -- 32-bit network address
  bits : Nat        -- prefix length 0..32
  deriving Repr, DecidableEq

/-- configuration; the address type `Ip` is abstract (the Go code keys its map by the address *string*);
`wl` is the white-list test (`whitelistV4` below for the real one) -/
structure Cfg (Ip : Type) where
  max : Int
  interval : Int
  wl : Ip → Bool

structure St (Ip : Type) where
  reset : Int
  counters : List (Ip × Nat)
  deriving Repr

section
variable {Ip : Type} [DecidableEq Ip]

def get (cs : List (Ip × Nat)) (ip : Ip) : Nat :=
  match cs with
  | [] => 0
  | (k, v) :: t => if k = ip then v else get t ip

def bump (cs : List (Ip × Nat)) (ip : Ip) : List (Ip × Nat) :=
  match cs with
  | [] => [(ip, 1)]
  | (k, v) :: t => if k = ip then (k, v + 1) :: t else (k, v) :: bump t ip

def whitelisted (cfg : Cfg Ip) (ip : Ip) : Bool := cfg.wl ip

structure Out where
  nr : Nat
  maxNr : Int
  ok : Bool
  deriving Repr, DecidableEq

/-- the reset branch of `Inc` -/
def roll (cfg : Cfg Ip) (s : St Ip) (now : Int) : St Ip :=
  if now - s.reset > cfg.interval then { reset := now, counters := [] } else s

/-- `Inc(now, ip)` -/
def inc (cfg : Cfg Ip) (s : St Ip) (now : Int) (ip : Ip) : St Ip × Out :=
  let s1 := roll cfg s now
  let cs := bump s1.counters ip
  let nr := get cs ip
  let wl := whitelisted cfg ip
  ({ s1 with counters := cs },
   { nr := nr, maxNr := if wl then -1 else cfg.max, ok := wl || decide ((nr : Int) ≤ cfg.max) })

/-- `Count(ip)` -/
def count (s : St Ip) (ip : Ip) : Nat := get s.counters ip

/-- `EndTime()` -/
def endTime (cfg : Cfg Ip) (s : St Ip) : Int := s.reset + cfg.interval

/-- the middleware: status passed to the client (0 = handed to `next`) and the header value -/
def middleware (cfg : Cfg Ip) (s : St Ip) (now : Int) (ip : Ip) : St Ip × Nat × String :=
  let r := inc cfg s now ip
  (r.1, if r.2.ok then 0 else 429, s!"{r.2.nr} (max {r.2.maxNr})")

/-- a whole request history -/
def runAll (cfg : Cfg Ip) : St Ip → List (Int × Ip) → List Out
  | _, [] => []
  | s, (now, ip) :: t => (inc cfg s now ip).2 :: runAll cfg (inc cfg s now ip).1 t

/-! ## the abstract specification: a log of the requests since the last reset -/

end

structure Spec (Ip : Type) where
  reset : Int
  hist : List Ip      -- requests since the last reset, newest first
  deriving Repr

section
variable {Ip : Type} [DecidableEq Ip]

def Spec.roll (cfg : Cfg Ip) (s : Spec Ip) (now : Int) : Spec Ip :=
  if now - s.reset > cfg.interval then { reset := now, hist := [] } else s

def Spec.inc (cfg : Cfg Ip) (s : Spec Ip) (now : Int) (ip : Ip) : Spec Ip × Out :=
  let s1 := s.roll cfg now
  let nr := s1.hist.count ip + 1
  let wl := whitelisted cfg ip
  ({ s1 with hist := ip :: s1.hist },
   { nr := nr, maxNr := if wl then -1 else cfg.max, ok := wl || decide ((nr : Int) ≤ cfg.max) })

def Spec.runAll (cfg : Cfg Ip) : Spec Ip → List (Int × Ip) → List Out
  | _, [] => []
  | s, (now, ip) :: t => (s.inc cfg now ip).2 :: Spec.runAll cfg (s.inc cfg now ip).1 t

end

/-! ## the real white-list test: IPv4 CIDR blocks over address strings (driver side) -/

/-- one decimal octet as `net.ParseIP` accepts it: 1–3 digits, no leading zero, ≤ 255 -/
def octet (s : String) : Option Nat :=
  let cs := s.toList
  if cs.isEmpty ∨ cs.length > 3 ∨ ¬ cs.all Char.isDigit ∨ (cs.length > 1 ∧ cs.head? = some '0') then none
  else
    let v := cs.foldl (fun a c => a * 10 + (c.toNat - '0'.toNat)) 0
    if v < 256 then some v else none

/-- dotted quad → 32-bit number (the only address syntax the model white-lists) -/
def parseV4 (s : String) : Option Nat :=
  match (s.splitOn ".").map octet with
  | [some a, some b, some c, some d] => some (((a * 256 + b) * 256 + c) * 256 + d)
  | _ => none

def Block.contains (b : Block) (a : Nat) : Bool :=
  a / 2 ^ (32 - b.bits) == b.net / 2 ^ (32 - b.bits)

def hexVal (c : Char) : Option Nat :=
  if c.isDigit then some (c.toNat - '0'.toNat)
  else if 'a' ≤ c ∧ c ≤ 'f' then some (c.toNat - 'a'.toNat + 10)
  else if 'A' ≤ c ∧ c ≤ 'F' then some (c.toNat - 'A'.toNat + 10)
  else none

/-- one group of an IPv6 address: 1–4 hex digits -/
def hexGroup (s : String) : Option Nat :=
  let cs := s.toList
  if cs.isEmpty ∨ cs.length > 4 then none
  else cs.foldl (fun acc c => match acc, hexVal c with | some a, some v => some (a * 16 + v) | _, _ => none) (some 0)

/-- the IPv4-mapped IPv6 spellings `::ffff:a.b.c.d` and `::ffff:hhhh:hhhh` (what dual-stack proxies put into
X-Forwarded-For): `net.ParseIP` yields an address whose `To4()` is the IPv4 address, so `IPNet.Contains` matches it
against IPv4 blocks.  Other IPv6 spellings of a mapped address are not modelled. -/
def parseMapped (s : String) : Option Nat :=
  let cs := s.toList
  if cs.length > 7 ∧ (String.ofList (cs.take 7)).toLower = "::ffff:" then
    let rest := String.ofList (cs.drop 7)
    match parseV4 rest with
    | some a => some a
    | none =>
      match (rest.splitOn ":").map hexGroup with
      | [some h1, some h2] => some (h1 * 65536 + h2)
      | _ => none
  else none

/-- `net.ParseIP` + loop over `cidrBlocks` with `Contains` -/
def whitelistV4 (blocks : List Block) (ip : String) : Bool :=
  match (parseV4 ip).orElse (fun _ => parseMapped ip) with
  | some a => blocks.any (·.contains a)
  | none => false

end Lim
