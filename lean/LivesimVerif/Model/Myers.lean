import LivesimVerif.Model.Patch
/-!
# Model of the linear-space Myers diff (`pkg/patch/myers.go: MyersDiff`, `diffInternal`, `pyMod`)

Statement by statement: the two `V` arrays `g` / `p` of length `Z = 2·min(N,M)+2`, the loops over `h`, `r ∈ {0,1}`
(forward / reverse), and the diagonals `k`, the snake loop, the overlap test, the three-way recursion.  Go `int` is
`Int` (no overflow: all values are bounded by the list lengths), `%` is `Int.tmod`.  Every bounds-checked access of the
two element lists (`e[...]`, `f[...]`, the slicings `e[0:x]`, `e[u:N]` …) yields `none` = run-time panic when it is out of
range; the final `panic("Should never hit this!")` is `none` too.  The recursion of `diffInternal` and the loops take a
fuel argument that the callers set to a bound of the iteration count; running out of fuel is reported as `none`.
The `V` arrays are only indexed through `pyMod _ Z`, which is in `[0, Z)` (`pyMod_range` in `Lemmas/Myers`).
-/
namespace Myers
open Patch (Edit)

/-- `pyMod`: `((x % y) + y) % y` with Go's truncated `%` -/
def pyMod (x y : Int) : Int := Int.tmod (Int.tmod x y + y) y

def getI (l : List Int) (i : Int) : Int := l.getD i.toNat 0
def setI (l : List Int) (i : Int) (v : Int) : List Int := l.set i.toNat v

/-- element access with Go's bounds check -/
def elemAt {α : Type} (l : List α) (i : Int) : Option α := if i < 0 then none else l[i.toNat]?

/-- the snake loop `for a < N && b < M && equals(e[(1-o)*N+m*a+(o-1)], f[(1-o)*M+m*b+(o-1)]) { a, b = a+1, b+1 }` -/
def snake {α : Type} [DecidableEq α] (e f : List α) (o m : Int) : Nat → Int → Int → Option (Int × Int)
  | 0, _, _ => none
  | fuel+1, a, b =>
    let N : Int := e.length
    let M : Int := f.length
    if a < N ∧ b < M then
      match elemAt e ((1-o)*N + m*a + (o-1)), elemAt f ((1-o)*M + m*b + (o-1)) with
      | some x, some y => if x = y then snake e f o m fuel (a+1) (b+1) else some (a, b)
      | _, _ => none
    else some (a, b)

/-- what the overlap test hands to the recursion: `D`, `(x, y)` and `(u, v)` -/
structure Hit where
  D : Int
  x : Int
  y : Int
  u : Int
  v : Int
  deriving Repr, DecidableEq

inductive KRes
  | hit (h : Hit)
  | cont (c : List Int)
  | panic
  deriving Repr

/-- the start of the snake on diagonal `k` -/
def startA (c : List Int) (h k Z : Int) : Int :=
  if k = -h ∨ (k ≠ h ∧ getI c (pyMod (k-1) Z) < getI c (pyMod (k+1) Z)) then getI c (pyMod (k+1) Z)
  else getI c (pyMod (k-1) Z) + 1

/-- body of the `k` loop -/
def kStep {α : Type} [DecidableEq α] (e f : List α) (h o m : Int) (c d : List Int) (k : Int) : KRes :=
  let N : Int := e.length
  let M : Int := f.length
  let L := N + M
  let Z := 2 * min N M + 2
  let w := N - M
  let a := startA c h k Z
  let b := a - k
  match snake e f o m (e.length + 1) a b with
  | none => .panic
  | some (a', b') =>
    let c' := setI c (pyMod k Z) a'
    let z := -(k - w)
    if pyMod L 2 = o ∧ z ≥ -(h-o) ∧ z ≤ h-o ∧ getI c' (pyMod k Z) + getI d (pyMod z Z) ≥ N then
      if o = 1 then .hit ⟨2*h-1, a, b, a', b'⟩ else .hit ⟨2*h, N - a', M - b', N - a, M - b⟩
    else .cont c'

/-- `for k := kMin; k < kMax; k += 2` -/
def kLoop {α : Type} [DecidableEq α] (e f : List α) (h o m : Int) (d : List Int) (kMax : Int) :
    Nat → Int → List Int → KRes
  | 0, _, _ => .panic
  | fuel+1, k, c =>
    if k < kMax then
      match kStep e f h o m c d k with
      | .cont c' => kLoop e f h o m d kMax fuel (k+2) c'
      | r => r
    else .cont c

inductive HRes
  | hit (h : Hit)
  | cont (g p : List Int)
  | panic
  deriving Repr

/-- body of the `h` loop: `r = 0` (forward, writes `g`) then `r = 1` (reverse, writes `p`) -/
def hStep {α : Type} [DecidableEq α] (e f : List α) (h : Int) (g p : List Int) : HRes :=
  let N : Int := e.length
  let M : Int := f.length
  let kMin := -(h - 2 * max 0 (h - M))
  let kMax := h - 2 * max 0 (h - N) + 1
  let fuel := (kMax - kMin).toNat + 1
  match kLoop e f h 1 1 p kMax fuel kMin g with
  | .hit r => .hit r
  | .panic => .panic
  | .cont g' =>
    match kLoop e f h 0 (-1) g' kMax fuel kMin p with
    | .hit r => .hit r
    | .panic => .panic
    | .cont p' => .cont g' p'

/-- `for h := 0; h < hMax; h++`; after the loop: `panic("Should never hit this!")` -/
def hLoop {α : Type} [DecidableEq α] (e f : List α) (hMax : Int) : Nat → Int → List Int → List Int → Option Hit
  | 0, _, _, _ => none
  | fuel+1, h, g, p =>
    if h < hMax then
      match hStep e f h g p with
      | .hit r => some r
      | .panic => none
      | .cont g' p' => hLoop e f hMax fuel (h+1) g' p'
    else none

/-- the search for the middle snake of two non-empty lists -/
def search {α : Type} [DecidableEq α] (e f : List α) : Option Hit :=
  let N : Int := e.length
  let M : Int := f.length
  let L := N + M
  let Z := 2 * min N M + 2
  let hMax := L / 2 + L % 2 + 1
  hLoop e f hMax (hMax.toNat + 1) 0 (List.replicate Z.toNat 0) (List.replicate Z.toNat 0)

/-- `for n := 0; n < N; n++ { res[n] = Op{OpDelete, i + n, -1, e[n]} }` -/
def dels (i : Nat) : Nat → List Edit
  | 0 => []
  | n+1 => .del i :: dels (i + 1) n

/-- `for n := 0; n < M; n++ { res[n] = Op{OpInsert, i, j + n, f[n]} }` -/
def inss (i j : Nat) : Nat → List Edit
  | 0 => []
  | n+1 => .ins i j :: inss i (j + 1) n

/-- `diffInternal(e, f, equals, i, j)` -/
def diff {α : Type} [DecidableEq α] : Nat → List α → List α → Nat → Nat → Option (List Edit)
  | 0, _, _, _, _ => none
  | fuel+1, e, f, i, j =>
    let N := e.length
    let M := f.length
    if N > 0 ∧ M > 0 then
      match search e f with
      | none => none
      | some r =>
        if r.D > 1 ∨ (r.x ≠ r.u ∧ r.y ≠ r.v) then
          -- e[0:x], f[0:y], e[u:N], f[v:M]
          if 0 ≤ r.x ∧ r.x ≤ N ∧ 0 ≤ r.y ∧ r.y ≤ M ∧ 0 ≤ r.u ∧ r.u ≤ N ∧ 0 ≤ r.v ∧ r.v ≤ M then
            match diff fuel (e.take r.x.toNat) (f.take r.y.toNat) i j,
                  diff fuel (e.drop r.u.toNat) (f.drop r.v.toNat) (i + r.u.toNat) (j + r.v.toNat) with
            | some s1, some s2 => some (s1 ++ s2)
            | _, _ => none
          else none
        else if M > N then diff fuel [] (f.drop N) (i + N) (j + N)
        else if M < N then diff fuel (e.drop M) [] (i + M) (j + M)
        else some []
    else if N > 0 then some (dels i N)
    else some (inss i j M)

/-- `MyersDiff(e, f, equals)` -/
def myers {α : Type} [DecidableEq α] (e f : List α) : Option (List Edit) :=
  diff (e.length + f.length + 2) e f 0 0

end Myers
