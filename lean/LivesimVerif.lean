import LivesimVerif.Model.ChunkParser
import LivesimVerif.Lemmas.ChunkParser
