package main

// Micro-translator (tie of the regenerated-model kind): selected pure integer functions of /repo are translated, statement
// by statement, into Lean definitions over `Int` (`Gen/Trans.lean`).  Theorems in `Lemmas/Trans.lean` state that each of
// them equals the hand-written model function the property theorems are about, on the domain the code uses it in.  A
// change of such a Go function changes the regenerated definition, and the equality has to be proved again.
//
// Supported subset: parameters and results of integer types (all mapped to `Int`: the functions are used far below the
// overflow bounds, which the equality theorems' hypotheses make explicit where needed), method receivers whose integer
// fields become leading parameters, `:=` `=` `+=` `-=` `++` `--`, `var x T`, `if` / `else` with or without `return`,
// `return` with one or two values (also bare, with named results), calls of other translated functions, integer
// conversions (identity), `+ - *`, `/` and `%` (Go truncates: `Int.tdiv` / `Int.tmod`), comparisons and `&& || !` in
// conditions.  Anything else is an error: the function is then reported and the run fails rather than emit a guess.

import (
	"fmt"
	"go/ast"
	"go/token"
	"sort"
	"strings"
)

// the functions to translate: package short name, receiver type ("" for a plain function), name
var transFuncs = []struct{ pkg, recv, name string }{
	{"app", "", "floorDiv"},
	{"app", "", "splitLoops"},
	{"app", "", "calcAudioTimeFromRef"},
	{"patch", "", "pyMod"},
	{"recv", "seqCounters", "minFromMax"},
}

var intConversions = map[string]bool{"int": true, "int64": true, "int32": true, "uint": true, "uint64": true, "uint32": true, "uint16": true, "uint8": true}

type trCtx struct {
	recvName string
	fields   []string // receiver fields used, in order of first use
	known    map[string]bool
	named    []string // named results
}

func (t *trCtx) expr(e ast.Expr) (string, error) {
	switch x := e.(type) {
	case *ast.BasicLit:
		if x.Kind != token.INT {
			return "", fmt.Errorf("literal %s", x.Value)
		}
		return "(" + x.Value + " : Int)", nil
	case *ast.Ident:
		return x.Name, nil
	case *ast.ParenExpr:
		s, err := t.expr(x.X)
		return "(" + s + ")", err
	case *ast.UnaryExpr:
		s, err := t.expr(x.X)
		if err != nil {
			return "", err
		}
		if x.Op == token.SUB {
			return "(-" + s + ")", nil
		}
		return "", fmt.Errorf("unary %s", x.Op)
	case *ast.SelectorExpr:
		if id, ok := x.X.(*ast.Ident); ok && id.Name == t.recvName && t.recvName != "" {
			f := t.recvName + "_" + x.Sel.Name
			seen := false
			for _, g := range t.fields {
				seen = seen || g == f
			}
			if !seen {
				t.fields = append(t.fields, f)
			}
			return f, nil
		}
		return "", fmt.Errorf("selector")
	case *ast.CallExpr:
		id, ok := x.Fun.(*ast.Ident)
		if !ok {
			return "", fmt.Errorf("call of a non-identifier")
		}
		if intConversions[id.Name] && len(x.Args) == 1 {
			return t.expr(x.Args[0])
		}
		if !t.known[id.Name] {
			return "", fmt.Errorf("call of %s, which is not translated", id.Name)
		}
		parts := []string{id.Name}
		for _, a := range x.Args {
			s, err := t.expr(a)
			if err != nil {
				return "", err
			}
			parts = append(parts, "("+s+")")
		}
		return "(" + strings.Join(parts, " ") + ")", nil
	case *ast.BinaryExpr:
		a, err := t.expr(x.X)
		if err != nil {
			return "", err
		}
		b, err := t.expr(x.Y)
		if err != nil {
			return "", err
		}
		switch x.Op {
		case token.ADD, token.SUB, token.MUL:
			return "(" + a + " " + x.Op.String() + " " + b + ")", nil
		case token.QUO:
			return "(Int.tdiv " + a + " " + b + ")", nil
		case token.REM:
			return "(Int.tmod " + a + " " + b + ")", nil
		}
		return "", fmt.Errorf("operator %s in a value", x.Op)
	}
	return "", fmt.Errorf("expression %T", e)
}

func (t *trCtx) cond(e ast.Expr) (string, error) {
	switch x := e.(type) {
	case *ast.ParenExpr:
		s, err := t.cond(x.X)
		return "(" + s + ")", err
	case *ast.UnaryExpr:
		if x.Op == token.NOT {
			s, err := t.cond(x.X)
			return "(¬ " + s + ")", err
		}
	case *ast.BinaryExpr:
		switch x.Op {
		case token.LAND, token.LOR:
			a, err := t.cond(x.X)
			if err != nil {
				return "", err
			}
			b, err := t.cond(x.Y)
			if err != nil {
				return "", err
			}
			op := " ∧ "
			if x.Op == token.LOR {
				op = " ∨ "
			}
			return "(" + a + op + b + ")", nil
		case token.LSS, token.LEQ, token.GTR, token.GEQ, token.EQL, token.NEQ:
			a, err := t.expr(x.X)
			if err != nil {
				return "", err
			}
			b, err := t.expr(x.Y)
			if err != nil {
				return "", err
			}
			op := map[token.Token]string{token.LSS: "<", token.LEQ: "≤", token.GTR: ">", token.GEQ: "≥", token.EQL: "=", token.NEQ: "≠"}[x.Op]
			return "(" + a + " " + op + " " + b + ")", nil
		}
	}
	return "", fmt.Errorf("condition %T", e)
}

func endsInReturn(stmts []ast.Stmt) bool {
	if len(stmts) == 0 {
		return false
	}
	switch s := stmts[len(stmts)-1].(type) {
	case *ast.ReturnStmt:
		return true
	case *ast.IfStmt:
		if s.Else == nil {
			return false
		}
		eb, ok := s.Else.(*ast.BlockStmt)
		return ok && endsInReturn(s.Body.List) && endsInReturn(eb.List)
	}
	return false
}

func assigned(stmts []ast.Stmt, into map[string]bool) {
	for _, s := range stmts {
		switch x := s.(type) {
		case *ast.AssignStmt:
			if x.Tok != token.DEFINE {
				for _, l := range x.Lhs {
					if id, ok := l.(*ast.Ident); ok {
						into[id.Name] = true
					}
				}
			}
		case *ast.IncDecStmt:
			if id, ok := x.X.(*ast.Ident); ok {
				into[id.Name] = true
			}
		case *ast.IfStmt:
			assigned(x.Body.List, into)
			if eb, ok := x.Else.(*ast.BlockStmt); ok {
				assigned(eb.List, into)
			}
		}
	}
}

// stmts translates a statement list; `fall` is the expression for falling off its end.
func (t *trCtx) stmts(list []ast.Stmt, fall string, ind string) (string, error) {
	if len(list) == 0 {
		return ind + fall, nil
	}
	rest := func() (string, error) { return t.stmts(list[1:], fall, ind) }
	switch s := list[0].(type) {
	case *ast.ReturnStmt:
		if len(s.Results) == 0 {
			return ind + "(" + strings.Join(t.named, ", ") + ")", nil
		}
		var vs []string
		for _, r := range s.Results {
			v, err := t.expr(r)
			if err != nil {
				return "", err
			}
			vs = append(vs, v)
		}
		if len(vs) == 1 {
			return ind + vs[0], nil
		}
		return ind + "(" + strings.Join(vs, ", ") + ")", nil
	case *ast.DeclStmt:
		gd, ok := s.Decl.(*ast.GenDecl)
		if !ok || gd.Tok != token.VAR {
			return "", fmt.Errorf("declaration")
		}
		out := ""
		for _, sp := range gd.Specs {
			vs := sp.(*ast.ValueSpec)
			for i, n := range vs.Names {
				v := "(0 : Int)"
				if i < len(vs.Values) {
					e, err := t.expr(vs.Values[i])
					if err != nil {
						return "", err
					}
					v = e
				}
				out += ind + "let " + n.Name + " := " + v + "\n"
			}
		}
		r, err := rest()
		return out + r, err
	case *ast.AssignStmt:
		if len(s.Lhs) != 1 || len(s.Rhs) != 1 {
			return "", fmt.Errorf("multiple assignment")
		}
		id, ok := s.Lhs[0].(*ast.Ident)
		if !ok {
			return "", fmt.Errorf("assignment to a non-variable")
		}
		v, err := t.expr(s.Rhs[0])
		if err != nil {
			return "", err
		}
		switch s.Tok {
		case token.DEFINE, token.ASSIGN:
		case token.ADD_ASSIGN:
			v = "(" + id.Name + " + " + v + ")"
		case token.SUB_ASSIGN:
			v = "(" + id.Name + " - " + v + ")"
		default:
			return "", fmt.Errorf("assignment operator %s", s.Tok)
		}
		r, err := rest()
		return ind + "let " + id.Name + " := " + v + "\n" + r, err
	case *ast.IncDecStmt:
		id, ok := s.X.(*ast.Ident)
		if !ok {
			return "", fmt.Errorf("++ on a non-variable")
		}
		op := " + "
		if s.Tok == token.DEC {
			op = " - "
		}
		r, err := rest()
		return ind + "let " + id.Name + " := " + id.Name + op + "1\n" + r, err
	case *ast.IfStmt:
		if s.Init != nil {
			return "", fmt.Errorf("if with an init statement")
		}
		c, err := t.cond(s.Cond)
		if err != nil {
			return "", err
		}
		var elseList []ast.Stmt
		if s.Else != nil {
			eb, ok := s.Else.(*ast.BlockStmt)
			if !ok {
				eb = &ast.BlockStmt{List: []ast.Stmt{s.Else.(ast.Stmt)}}
			}
			elseList = eb.List
		}
		thenRet, elseRet := endsInReturn(s.Body.List), endsInReturn(elseList)
		if thenRet || elseRet {
			// the branch that does not return continues with the rest of the list
			cont := list[1:]
			th, err := t.stmts(append(append([]ast.Stmt{}, s.Body.List...), condRest(thenRet, cont)...), fall, ind+"  ")
			if err != nil {
				return "", err
			}
			el, err := t.stmts(append(append([]ast.Stmt{}, elseList...), condRest(elseRet, cont)...), fall, ind+"  ")
			if err != nil {
				return "", err
			}
			return ind + "if " + c + " then\n" + th + "\n" + ind + "else\n" + el, nil
		}
		// neither branch returns: the variables they assign are merged
		vars := map[string]bool{}
		assigned(s.Body.List, vars)
		assigned(elseList, vars)
		var vl []string
		for v := range vars {
			vl = append(vl, v)
		}
		sort.Strings(vl)
		if len(vl) == 0 {
			return rest()
		}
		tuple := vl[0]
		if len(vl) > 1 {
			tuple = "(" + strings.Join(vl, ", ") + ")"
		}
		th, err := t.stmts(s.Body.List, tuple, ind+"    ")
		if err != nil {
			return "", err
		}
		el, err := t.stmts(elseList, tuple, ind+"    ")
		if err != nil {
			return "", err
		}
		r, err := rest()
		return ind + "let " + tuple + " :=\n" + ind + "  if " + c + " then\n" + th + "\n" + ind + "  else\n" + el + "\n" + r, err
	}
	return "", fmt.Errorf("statement %T", list[0])
}

func condRest(returns bool, cont []ast.Stmt) []ast.Stmt {
	if returns {
		return nil
	}
	return cont
}

func isIntType(e ast.Expr) bool {
	id, ok := e.(*ast.Ident)
	return ok && intConversions[id.Name]
}

func (g *gen) emitTrans() {
	var sb strings.Builder
	sb.WriteString(header)
	sb.WriteString("/-! Go functions translated statement by statement (extract/translate.go).  All integer types are `Int`; `/` and `%`\nare Go's truncated division (`Int.tdiv`, `Int.tmod`); receiver fields are leading parameters. -/\nnamespace Gen.Trans\n\n")
	known := map[string]bool{}
	for _, tf := range transFuncs {
		p := g.pkgs[tf.pkg]
		if p == nil {
			fmt.Fprintln(stderrW, "extract: translate: package", tf.pkg, "not loaded")
			failTrans = true
			continue
		}
		var fd *ast.FuncDecl
		for _, f := range p.Syntax {
			if strings.HasSuffix(g.fset.Position(f.Pos()).Filename, "_test.go") {
				continue
			}
			for _, d := range f.Decls {
				x, ok := d.(*ast.FuncDecl)
				if !ok || x.Name.Name != tf.name {
					continue
				}
				rt := ""
				if x.Recv != nil && len(x.Recv.List) == 1 {
					switch r := x.Recv.List[0].Type.(type) {
					case *ast.StarExpr:
						if id, ok := r.X.(*ast.Ident); ok {
							rt = id.Name
						}
					case *ast.Ident:
						rt = r.Name
					}
				}
				if rt == tf.recv {
					fd = x
				}
			}
		}
		if fd == nil || fd.Body == nil {
			fmt.Fprintf(stderrW, "extract: translate: function %s.%s not found\n", tf.pkg, tf.name)
			failTrans = true
			continue
		}
		t := &trCtx{known: known}
		if fd.Recv != nil && len(fd.Recv.List[0].Names) == 1 {
			t.recvName = fd.Recv.List[0].Names[0].Name
		}
		var params []string
		ok := true
		for _, f := range fd.Type.Params.List {
			if !isIntType(f.Type) {
				ok = false
			}
			for _, n := range f.Names {
				params = append(params, n.Name)
			}
		}
		nres := 0
		if fd.Type.Results != nil {
			for _, f := range fd.Type.Results.List {
				if !isIntType(f.Type) {
					ok = false
				}
				if len(f.Names) == 0 {
					nres++
				}
				for _, n := range f.Names {
					t.named = append(t.named, n.Name)
					nres++
				}
			}
		}
		if !ok || nres < 1 || nres > 2 {
			fmt.Fprintf(stderrW, "extract: translate: %s.%s: signature outside the supported subset\n", tf.pkg, tf.name)
			failTrans = true
			continue
		}
		pre := ""
		for _, n := range t.named {
			pre += "  let " + n + " := (0 : Int)\n"
		}
		fall := "(0 : Int)" // falling off the end cannot happen in compiled Go with results
		if len(t.named) > 0 {
			fall = "(" + strings.Join(t.named, ", ") + ")"
		}
		body, err := t.stmts(fd.Body.List, fall, "  ")
		if err != nil {
			fmt.Fprintf(stderrW, "extract: translate: %s.%s: %v is outside the supported subset\n", tf.pkg, tf.name, err)
			failTrans = true
			continue
		}
		all := append(append([]string{}, t.fields...), params...)
		resT := "Int"
		if nres == 2 {
			resT = "Int × Int"
		}
		pos := g.fset.Position(fd.Pos())
		fmt.Fprintf(&sb, "/-- `%s` (%s) -/\ndef %s (%s : Int) : %s :=\n%s%s\n\n", tf.name, relPath(pos.Filename), tf.name, strings.Join(all, " "), resT, pre, body)
		known[tf.name] = true
	}
	sb.WriteString("end Gen.Trans\n")
	g.files["Trans.lean"] = sb.String()
}

func relPath(p string) string {
	if i := strings.Index(p, "/cmd/"); i >= 0 {
		return p[i+1:]
	}
	if i := strings.Index(p, "/pkg/"); i >= 0 {
		return p[i+1:]
	}
	return p
}
