package main

// emitTables regenerates facts about the representation-metadata cache (C15): the fields of RepData and Segment with
// their JSON persistence, and the RepData fields assigned by the functions that run after a cache load
// (addRegExpAndInit, readInit, addEncryption).

import (
	"fmt"
	"go/ast"
	"go/types"
	"reflect"
	"sort"
	"strings"
)

func (g *gen) emitTables() {
	p := g.pkgs["app"]
	var sb strings.Builder
	sb.WriteString(header)
	sb.WriteString("namespace Gen\n\n")
	if p == nil {
		sb.WriteString("end Gen\n")
		g.files["Tables.lean"] = sb.String()
		return
	}
	structFields := func(name string) [][3]string { // field, json tag name ("-" = not persisted, "" = default), exported
		obj := p.Types.Scope().Lookup(name)
		if obj == nil {
			return nil
		}
		st, ok := obj.Type().Underlying().(*types.Struct)
		if !ok {
			return nil
		}
		var out [][3]string
		for i := 0; i < st.NumFields(); i++ {
			f := st.Field(i)
			tag := reflect.StructTag(st.Tag(i)).Get("json")
			tagName := strings.Split(tag, ",")[0]
			exp := "0"
			if f.Exported() {
				exp = "1"
			}
			out = append(out, [3]string{f.Name(), tagName, exp})
		}
		return out
	}
	for _, sn := range []string{"RepData", "Segment"} {
		fmt.Fprintf(&sb, "/-- fields of `%s`: name, json name (\"-\" = excluded), exported -/\ndef fields_%s : List (String × String × Bool) := [\n", sn, sn)
		fs := structFields(sn)
		for i, f := range fs {
			sep := ","
			if i == len(fs)-1 {
				sep = ""
			}
			fmt.Fprintf(&sb, "  (%s, %s, %v)%s\n", leanStr(f[0]), leanStr(f[1]), f[2] == "1", sep)
		}
		sb.WriteString("]\n\n")
	}
	// fields of the receiver assigned in the rebuild functions
	rebuild := map[string]bool{"addRegExpAndInit": true, "readInit": true, "addEncryption": true}
	assigned := map[string]bool{}
	for _, f := range p.Syntax {
		for _, d := range f.Decls {
			fd, ok := d.(*ast.FuncDecl)
			if !ok || fd.Body == nil || fd.Recv == nil || !rebuild[fd.Name.Name] || len(fd.Recv.List) == 0 || len(fd.Recv.List[0].Names) == 0 {
				continue
			}
			recv := fd.Recv.List[0].Names[0].Name
			ast.Inspect(fd.Body, func(n ast.Node) bool {
				as, ok := n.(*ast.AssignStmt)
				if !ok {
					return true
				}
				for _, l := range as.Lhs {
					if se, ok := l.(*ast.SelectorExpr); ok {
						if id, ok := se.X.(*ast.Ident); ok && id.Name == recv {
							assigned[se.Sel.Name] = true
						}
					}
				}
				return true
			})
		}
	}
	var names []string
	for n := range assigned {
		names = append(names, n)
	}
	sort.Strings(names)
	sb.WriteString("/-- `RepData` fields assigned by addRegExpAndInit / readInit / addEncryption (run after a cache load) -/\ndef rebuilt_RepData : List String := [")
	for i, n := range names {
		if i > 0 {
			sb.WriteString(", ")
		}
		sb.WriteString(leanStr(n))
	}
	sb.WriteString("]\n\n")
	// functions that mention fields which are not persisted (a reader outside the scan path would make a cache-loaded server differ)
	users := map[string]bool{}
	for _, f := range p.Syntax {
		if strings.HasSuffix(g.fset.Position(f.Pos()).Filename, "_test.go") || strings.HasSuffix(g.fset.Position(f.Pos()).Filename, "verif_export.go") {
			continue
		}
		for _, d := range f.Decls {
			fd, ok := d.(*ast.FuncDecl)
			if !ok || fd.Body == nil {
				continue
			}
			ast.Inspect(fd.Body, func(n ast.Node) bool {
				if se, ok := n.(*ast.SelectorExpr); ok && se.Sel.Name == "CommonSampleDur" {
					users[fd.Name.Name] = true
				}
				if kv, ok := n.(*ast.KeyValueExpr); ok {
					if id, ok := kv.Key.(*ast.Ident); ok && id.Name == "CommonSampleDur" {
						users[fd.Name.Name] = true
					}
				}
				return true
			})
		}
	}
	var un []string
	for n := range users {
		un = append(un, n)
	}
	sort.Strings(un)
	sb.WriteString("/-- functions that mention `Segment.CommonSampleDur` (not persisted) -/\ndef users_CommonSampleDur : List String := [")
	for i, n := range un {
		if i > 0 {
			sb.WriteString(", ")
		}
		sb.WriteString(leanStr(n))
	}
	sb.WriteString("]\n\nend Gen\n")
	g.files["Tables.lean"] = sb.String()
}
