// Command extract regenerates lean/LivesimVerif/Gen/*.lean from /repo's current working tree (tie L1 of
// DESIGN.md §1.2).  It pattern-matches the typed AST (go/packages); it has no semantics of its own beyond
// what is written in each emitter.  Every file in the output directory is re-derived on every run: files whose
// content is unchanged are left untouched (so lake's cache stays valid), stale files are deleted.
package main

import (
	"flag"
	"fmt"
	"go/ast"
	"go/constant"
	"go/token"
	"go/types"
	"os"
	"path/filepath"
	"sort"
	"strings"

	"golang.org/x/tools/go/packages"
)

var pkgShort = map[string]string{
	"github.com/Dash-Industry-Forum/livesim2/cmd/livesim2/app":            "app",
	"github.com/Dash-Industry-Forum/livesim2/cmd/cmaf-ingest-receiver/app": "recv",
	"github.com/Dash-Industry-Forum/livesim2/pkg/chunkparser":             "chunkparser",
	"github.com/Dash-Industry-Forum/livesim2/pkg/patch":                   "patch",
	"github.com/Dash-Industry-Forum/livesim2/pkg/scte35":                  "scte35",
	"github.com/Dash-Industry-Forum/livesim2/pkg/cmaf":                    "cmaf",
	"github.com/Dash-Industry-Forum/livesim2/pkg/drm":                     "drm",
}

type gen struct {
	fset  *token.FileSet
	pkgs  map[string]*packages.Package // by short name
	files map[string]string            // output file -> content
}

func main() {
	repo := flag.String("repo", "/repo", "repository root")
	out := flag.String("out", "", "output directory (lean/LivesimVerif/Gen)")
	flag.Parse()
	cfg := &packages.Config{
		Mode: packages.NeedName | packages.NeedSyntax | packages.NeedTypes | packages.NeedTypesInfo |
			packages.NeedFiles | packages.NeedImports | packages.NeedDeps,
		Dir:        *repo,
		BuildFlags: []string{"-tags=verif"},
	}
	pkgs, err := packages.Load(cfg, "./cmd/livesim2/app", "./cmd/cmaf-ingest-receiver/app", "./pkg/...")
	if err != nil {
		fmt.Fprintln(os.Stderr, "extract: load:", err)
		os.Exit(1)
	}
	g := &gen{pkgs: map[string]*packages.Package{}, files: map[string]string{}}
	for _, p := range pkgs {
		if len(p.Errors) > 0 {
			fmt.Fprintln(os.Stderr, "extract: package errors in", p.PkgPath, p.Errors[0])
			os.Exit(1)
		}
		if s, ok := pkgShort[p.PkgPath]; ok {
			g.pkgs[s] = p
			g.fset = p.Fset
		}
	}
	g.emitConsts()
	g.emitAccess()
	g.emitSites()
	g.emitTables()
	g.emitTrans()
	if failTrans {
		os.Exit(1)
	}

	// write-if-changed, delete stale
	must(os.MkdirAll(*out, 0o755))
	changed := 0
	for name, content := range g.files {
		p := filepath.Join(*out, name)
		old, err := os.ReadFile(p)
		if err != nil || string(old) != content {
			must(os.WriteFile(p, []byte(content), 0o644))
			changed++
		}
	}
	ents, _ := os.ReadDir(*out)
	for _, e := range ents {
		if _, ok := g.files[e.Name()]; !ok {
			os.Remove(filepath.Join(*out, e.Name()))
			changed++
		}
	}
	fmt.Printf("extract: %d Gen files (%d changed)\n", len(g.files), changed)
}

var (
	stderrW   = os.Stderr
	failTrans bool
)

func must(err error) {
	if err != nil {
		fmt.Fprintln(os.Stderr, "extract:", err)
		os.Exit(1)
	}
}

const header = "/- REGENERATED from /repo on every run by /verif/extract — do not edit. -/\n"

func leanStr(s string) string {
	var sb strings.Builder
	sb.WriteByte('"')
	for _, r := range s {
		switch {
		case r == '"':
			sb.WriteString("\\\"")
		case r == '\\':
			sb.WriteString("\\\\")
		case r == '\n':
			sb.WriteString("\\n")
		case r == '\t':
			sb.WriteString("\\t")
		case r < 32 || r == 127:
			fmt.Fprintf(&sb, "\\x%02x", r)
		default:
			sb.WriteRune(r)
		}
	}
	sb.WriteByte('"')
	return sb.String()
}

func sortedKeys[V any](m map[string]V) []string {
	ks := make([]string, 0, len(m))
	for k := range m {
		ks = append(ks, k)
	}
	sort.Strings(ks)
	return ks
}

// emitConsts dumps every package-level integer / string / bool constant of the anchored packages.
func (g *gen) emitConsts() {
	var sb strings.Builder
	sb.WriteString(header)
	sb.WriteString("namespace Gen\n\n")
	for _, short := range sortedKeys(g.pkgs) {
		p := g.pkgs[short]
		scope := p.Types.Scope()
		for _, name := range scope.Names() {
			c, ok := scope.Lookup(name).(*types.Const)
			if !ok {
				continue
			}
			if strings.HasSuffix(g.fset.Position(c.Pos()).Filename, "_test.go") {
				continue
			}
			id := short + "_" + name
			switch c.Val().Kind() {
			case constant.Int:
				fmt.Fprintf(&sb, "def %s : Int := %s\n", id, c.Val().ExactString())
			case constant.String:
				fmt.Fprintf(&sb, "def %s : String := %s\n", id, leanStr(constant.StringVal(c.Val())))
			case constant.Bool:
				fmt.Fprintf(&sb, "def %s : Bool := %v\n", id, constant.BoolVal(c.Val()))
			case constant.Float:
				// exact rational when representable: num/den
				r := constant.ToFloat(c.Val())
				n, d := constant.Num(r), constant.Denom(r)
				if n.Kind() == constant.Int && d.Kind() == constant.Int {
					fmt.Fprintf(&sb, "def %s_num : Int := %s\ndef %s_den : Int := %s\n", id, n.ExactString(), id, d.ExactString())
				}
			}
		}
	}
	sb.WriteString("\nend Gen\n")
	g.files["Consts.lean"] = sb.String()
}

// position helper: file:line relative to the repo
func (g *gen) pos(p token.Pos) string {
	ps := g.fset.Position(p)
	return fmt.Sprintf("%s:%d", filepath.Base(ps.Filename), ps.Line)
}

var _ = ast.Inspect
