package main

// emitSites regenerates the inventory of places where a handler can die of a runtime error (C08):
//   - every integer division / remainder whose divisor is not a compile-time constant,
//   - every explicit panic(...),
//   - per function, the number of index, slice, explicit pointer-dereference and type-assertion (single-value) expressions.
// Each division and panic site carries a stable id (FNV-1a of package|function|expression text|occurrence number) so
// that the hand-written discharge table in Props/C08.lean is keyed independently of line numbers.

import (
	"bytes"
	"fmt"
	"go/ast"
	"go/printer"
	"go/token"
	"go/types"
	"hash/fnv"
	"sort"
	"strings"
)

type divSite struct {
	id               uint32
	pkg, fn, expr, y string
	pos              string
}

func siteID(parts ...string) uint32 {
	h := fnv.New32a()
	h.Write([]byte(strings.Join(parts, "|")))
	return h.Sum32()
}

func (g *gen) exprText(e ast.Node) string {
	var buf bytes.Buffer
	_ = printer.Fprint(&buf, g.fset, e)
	return strings.Join(strings.Fields(buf.String()), " ")
}

var sitePkgs = []string{"app", "recv", "chunkparser", "patch", "scte35"}

func (g *gen) emitSites() {
	var divs, panics []divSite
	type cnt struct{ idx, slice, star, assert int }
	counts := map[string]*cnt{}
	for _, short := range sitePkgs {
		p := g.pkgs[short]
		if p == nil {
			continue
		}
		for _, f := range p.Syntax {
			fname := g.fset.Position(f.Pos()).Filename
			if strings.HasSuffix(fname, "_test.go") || strings.HasSuffix(fname, "verif_export.go") {
				continue
			}
			for _, d := range f.Decls {
				fd, ok := d.(*ast.FuncDecl)
				if !ok || fd.Body == nil {
					continue
				}
				fn := fd.Name.Name
				if fd.Recv != nil && len(fd.Recv.List) > 0 {
					fn = strings.TrimPrefix(g.exprText(fd.Recv.List[0].Type), "*") + "." + fn
				}
				key := short + "|" + fn
				if counts[key] == nil {
					counts[key] = &cnt{}
				}
				c := counts[key]
				occ := map[string]int{}
				isInt := func(e ast.Expr) bool {
					t := p.TypesInfo.TypeOf(e)
					if t == nil {
						return false
					}
					b, ok := t.Underlying().(*types.Basic)
					return ok && b.Info()&types.IsInteger != 0
				}
				addDiv := func(whole ast.Node, y ast.Expr, pos token.Pos) {
					if tv, ok := p.TypesInfo.Types[y]; ok && tv.Value != nil {
						return // constant divisor (the compiler rejects a constant zero)
					}
					if !isInt(y) {
						return
					}
					txt := g.exprText(whole)
					occ[txt]++
					divs = append(divs, divSite{id: siteID(short, fn, txt, fmt.Sprint(occ[txt])), pkg: short, fn: fn, expr: txt, y: g.exprText(y), pos: g.pos(pos)})
				}
				ast.Inspect(fd.Body, func(n ast.Node) bool {
					switch x := n.(type) {
					case *ast.BinaryExpr:
						if x.Op == token.QUO || x.Op == token.REM {
							addDiv(x, x.Y, x.OpPos)
						}
					case *ast.AssignStmt:
						if (x.Tok == token.QUO_ASSIGN || x.Tok == token.REM_ASSIGN) && len(x.Rhs) == 1 {
							addDiv(x, x.Rhs[0], x.TokPos)
						}
					case *ast.CallExpr:
						if id, ok := x.Fun.(*ast.Ident); ok && id.Name == "panic" {
							if _, isBuiltin := p.TypesInfo.Uses[id].(*types.Builtin); isBuiltin {
								txt := g.exprText(x)
								occ[txt]++
								panics = append(panics, divSite{id: siteID(short, fn, txt, fmt.Sprint(occ[txt])), pkg: short, fn: fn, expr: txt, pos: g.pos(x.Pos())})
							}
						}
					case *ast.IndexExpr:
						if t := p.TypesInfo.TypeOf(x.X); t != nil {
							switch t.Underlying().(type) {
							case *types.Slice, *types.Array, *types.Basic, *types.Pointer:
								c.idx++
							}
						}
					case *ast.SliceExpr:
						c.slice++
					case *ast.StarExpr:
						if tv, ok := p.TypesInfo.Types[x]; ok && tv.IsValue() {
							c.star++
						}
					case *ast.TypeAssertExpr:
						c.assert++ // (two-value and switch forms are counted too; they cannot panic)
					}
					return true
				})
			}
		}
	}
	key := func(d divSite) string { return fmt.Sprintf("%s|%s|%s|%010d", d.pkg, d.fn, d.expr, d.id) }
	sort.Slice(divs, func(i, j int) bool { return key(divs[i]) < key(divs[j]) })
	sort.Slice(panics, func(i, j int) bool { return key(panics[i]) < key(panics[j]) })
	var sb strings.Builder
	sb.WriteString(header)
	sb.WriteString("namespace Gen\n\n")
	sb.WriteString("/-- id, package, function, whole expression, divisor (positions are informative only: see SitesPos). -/\n")
	sb.WriteString("def divSites : List (Nat × String × String × String × String) := [\n")
	for i, d := range divs {
		sep := ","
		if i == len(divs)-1 {
			sep = ""
		}
		fmt.Fprintf(&sb, "  (%d, %s, %s, %s, %s)%s\n", d.id, leanStr(d.pkg), leanStr(d.fn), leanStr(d.expr), leanStr(d.y), sep)
	}
	sb.WriteString("]\n\ndef divSiteIds : List Nat := [")
	for i, d := range divs {
		if i > 0 {
			sb.WriteString(", ")
		}
		fmt.Fprintf(&sb, "%d", d.id)
	}
	sb.WriteString("]\n\ndef panicSites : List (Nat × String × String × String) := [\n")
	for i, d := range panics {
		sep := ","
		if i == len(panics)-1 {
			sep = ""
		}
		fmt.Fprintf(&sb, "  (%d, %s, %s, %s)%s\n", d.id, leanStr(d.pkg), leanStr(d.fn), leanStr(d.expr), sep)
	}
	sb.WriteString("]\n\ndef panicSiteIds : List Nat := [")
	for i, d := range panics {
		if i > 0 {
			sb.WriteString(", ")
		}
		fmt.Fprintf(&sb, "%d", d.id)
	}
	sb.WriteString("]\n\n/-- per function: package|function id, number of index, slice, explicit dereference and type-assertion expressions. -/\n")
	sb.WriteString("def accessCounts : List (Nat × Nat × Nat × Nat × Nat) := [\n")
	keys := make([]string, 0, len(counts))
	for k, c := range counts {
		if c.idx+c.slice+c.star+c.assert > 0 {
			keys = append(keys, k)
		}
	}
	sort.Strings(keys)
	for i, k := range keys {
		c := counts[k]
		sep := ","
		if i == len(keys)-1 {
			sep = ""
		}
		fmt.Fprintf(&sb, "  (%d, %d, %d, %d, %d)%s -- %s\n", siteID(k), c.idx, c.slice, c.star, c.assert, sep, k)
	}
	sb.WriteString("]\n\nend Gen\n")
	g.files["Sites.lean"] = sb.String()
	// informative positions (not imported by any proof)
	var sp strings.Builder
	sp.WriteString(header)
	sp.WriteString("/-\n")
	for _, d := range divs {
		fmt.Fprintf(&sp, "div   %10d %s %s.%s: %s\n", d.id, d.pos, d.pkg, d.fn, d.expr)
	}
	for _, d := range panics {
		fmt.Fprintf(&sp, "panic %10d %s %s.%s: %s\n", d.id, d.pos, d.pkg, d.fn, d.expr)
	}
	sp.WriteString("-/\n")
	g.files["SitesPos.lean"] = sp.String()
}
