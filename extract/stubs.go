package main

func (g *gen) emitTables() {}
