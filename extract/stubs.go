package main

func (g *gen) emitSites()  {}
func (g *gen) emitTables() {}
