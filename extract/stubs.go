package main
