package main

// emitAccess regenerates the lock discipline facts (C07, C19, C20): for every struct of the anchored packages that is
// shared between goroutines (listed in sharedStructs), every access to one of its fields in non-test code, with
//   - the function, whether it is a write, and
//   - the lock mode of the struct's own mutex at that point (none / R / W) and the index of the critical section.
// The analysis is syntactic and intra-procedural: statements are walked in source order, `x.mu.Lock()` / `RLock()`
// open a section for the mutex expression `x.mu`, `Unlock()` / `RUnlock()` close it, `defer x.mu.Unlock()` keeps it
// open to the end of the function.  A helper documented as "called with the lock held" is listed in lockedCallees.
// What the facts mean for the properties is decided by theorems over these tables (Props/C19.lean, C07.lean, C20.lean).

import (
	"fmt"
	"go/ast"
	"go/token"
	"go/types"
	"sort"
	"strings"
)

// struct name -> name of its mutex field ("" = the struct has no mutex)
var sharedStructs = map[string]map[string]string{
	"recv": {"ChannelMgr": "mu", "channel": "mu", "Receiver": "mu"},
	"app":  {"IPRequestLimiter": "mux", "cmafIngesterMgr": "mu", "cmafIngester": "mu", "assetMgr": "", "asset": "", "RepData": "", "repEncData": "", "Server": ""},
}

// helpers that are only called with the write lock of their receiver's mutex held: their accesses count as write-locked,
// and every call site is recorded as an access of the pseudo field "call:<function>" so that a theorem can demand that
// the calls are inside a write-locked section
var lockedCallees = map[string]bool{
	"recv.ChannelMgr.addChannel": true,
}

// fields guarded by another mutex of their struct than the default one
var fieldMutex = map[string]string{
	"recv.channel.mpd":       "mpdMu",
	"recv.channel.startTime": "mpdMu",
}

type accessRec struct {
	pkg, strct, field, fn string
	write                 bool
	mode                  string // "none" | "R" | "W"
	section               int
	pos                   string
}

func (g *gen) emitAccess() {
	var recs []accessRec
	type secCount struct{ r, w int }
	sections := map[string]*secCount{} // pkg|func|mutexStruct
	for _, short := range []string{"recv", "app"} {
		p := g.pkgs[short]
		if p == nil {
			continue
		}
		shared := sharedStructs[short]
		structOf := func(t types.Type) string {
			for {
				if pt, ok := t.(*types.Pointer); ok {
					t = pt.Elem()
					continue
				}
				break
			}
			if n, ok := t.(*types.Named); ok {
				if _, isShared := shared[n.Obj().Name()]; isShared && n.Obj().Pkg() == p.Types {
					return n.Obj().Name()
				}
			}
			return ""
		}
		for _, f := range p.Syntax {
			fname := g.fset.Position(f.Pos()).Filename
			if strings.HasSuffix(fname, "_test.go") || strings.HasSuffix(fname, "verif_export.go") {
				continue
			}
			for _, d := range f.Decls {
				fd, ok := d.(*ast.FuncDecl)
				if !ok || fd.Body == nil {
					continue
				}
				fn := fd.Name.Name
				if fd.Recv != nil && len(fd.Recv.List) > 0 {
					fn = strings.TrimPrefix(g.exprText(fd.Recv.List[0].Type), "*") + "." + fn
				}
				held := map[string]string{} // mutex expression text -> "R" | "W"
				secIdx := map[string]int{}
				writes := map[ast.Expr]bool{}
				markWrite := func(e ast.Expr) {
					for {
						switch x := e.(type) {
						case *ast.IndexExpr:
							e = x.X
							continue
						case *ast.ParenExpr:
							e = x.X
							continue
						case *ast.StarExpr:
							e = x.X
							continue
						}
						break
					}
					writes[e] = true
				}
				// first pass: which selector expressions are written
				ast.Inspect(fd.Body, func(n ast.Node) bool {
					switch x := n.(type) {
					case *ast.AssignStmt:
						for _, l := range x.Lhs {
							markWrite(l)
						}
					case *ast.IncDecStmt:
						markWrite(x.X)
					case *ast.CallExpr:
						if id, ok := x.Fun.(*ast.Ident); ok && id.Name == "delete" && len(x.Args) > 0 {
							markWrite(x.Args[0])
						}
					}
					return true
				})
				// second pass in source order
				var walk func(n ast.Node)
				visitExpr := func(e ast.Node) {
					ast.Inspect(e, func(n ast.Node) bool {
						if _, isFunc := n.(*ast.FuncLit); isFunc {
							// closures (e.g. the upload callback) run in the same goroutine: walk them in place
							return true
						}
						if call, ok := n.(*ast.CallExpr); ok {
							if cse, ok := call.Fun.(*ast.SelectorExpr); ok {
								if csel := p.TypesInfo.Selections[cse]; csel != nil && csel.Kind() == types.MethodVal {
									sn := structOf(csel.Recv())
									if sn != "" && lockedCallees[short+"."+sn+"."+cse.Sel.Name] {
										mode, sec := "none", 0
										key := g.exprText(cse.X) + "." + shared[sn]
										if m, ok := held[key]; ok {
											mode, sec = m, secIdx[key]
										}
										recs = append(recs, accessRec{pkg: short, strct: sn, field: "call:" + cse.Sel.Name, fn: fn, write: true, mode: mode, section: sec, pos: g.pos(call.Pos())})
									}
								}
							}
						}
						se, ok := n.(*ast.SelectorExpr)
						if !ok {
							return true
						}
						sel := p.TypesInfo.Selections[se]
						if sel == nil || sel.Kind() != types.FieldVal {
							return true
						}
						sn := structOf(sel.Recv())
						if sn == "" {
							return true
						}
						mfield := shared[sn]
						if fm, ok := fieldMutex[short+"."+sn+"."+se.Sel.Name]; ok {
							mfield = fm
						}
						if t := p.TypesInfo.TypeOf(se); t != nil && (strings.HasSuffix(t.String(), "sync.Mutex") || strings.HasSuffix(t.String(), "sync.RWMutex")) {
							return true // a mutex itself
						}
						mode, sec := "none", 0
						if lockedCallees[short+"."+fn] {
							mode, sec = "W", 1
						} else if mfield != "" {
							key := g.exprText(se.X) + "." + mfield
							if m, ok := held[key]; ok {
								mode, sec = m, secIdx[key]
							}
						}
						recs = append(recs, accessRec{pkg: short, strct: sn, field: se.Sel.Name, fn: fn, write: writes[ast.Expr(se)], mode: mode, section: sec, pos: g.pos(se.Pos())})
						return true
					})
				}
				lockCall := func(call *ast.CallExpr) (mutex, op string, ok bool) {
					se, ok2 := call.Fun.(*ast.SelectorExpr)
					if !ok2 {
						return "", "", false
					}
					switch se.Sel.Name {
					case "Lock", "RLock", "Unlock", "RUnlock":
						t := p.TypesInfo.TypeOf(se.X)
						if t == nil {
							return "", "", false
						}
						ts := t.String()
						if strings.HasSuffix(ts, "sync.Mutex") || strings.HasSuffix(ts, "sync.RWMutex") {
							return g.exprText(se.X), se.Sel.Name, true
						}
					}
					return "", "", false
				}
				walk = func(n ast.Node) {
					switch x := n.(type) {
					case nil:
						return
					case *ast.BlockStmt:
						for _, s := range x.List {
							walk(s)
						}
					case *ast.ExprStmt:
						if call, ok := x.X.(*ast.CallExpr); ok {
							if mu, op, ok := lockCall(call); ok {
								sk := short + "|" + fn + "|" + mu
								if sections[sk] == nil {
									sections[sk] = &secCount{}
								}
								switch op {
								case "Lock":
									held[mu] = "W"
									secIdx[mu]++
									sections[sk].w++
								case "RLock":
									held[mu] = "R"
									secIdx[mu]++
									sections[sk].r++
								default:
									delete(held, mu)
								}
								return
							}
						}
						visitExpr(x)
					case *ast.DeferStmt:
						if _, _, ok := lockCall(x.Call); ok {
							return // unlock at function end: the section stays open
						}
						visitExpr(x.Call)
					case *ast.IfStmt:
						walk(x.Init)
						visitExpr(x.Cond)
						walk(x.Body)
						walk(x.Else)
					case *ast.ForStmt:
						walk(x.Init)
						if x.Cond != nil {
							visitExpr(x.Cond)
						}
						walk(x.Post)
						walk(x.Body)
					case *ast.RangeStmt:
						visitExpr(x.X)
						walk(x.Body)
					case *ast.SwitchStmt:
						walk(x.Init)
						if x.Tag != nil {
							visitExpr(x.Tag)
						}
						walk(x.Body)
					case *ast.TypeSwitchStmt:
						walk(x.Init)
						walk(x.Assign)
						walk(x.Body)
					case *ast.SelectStmt:
						walk(x.Body)
					case *ast.CaseClause:
						for _, e := range x.List {
							visitExpr(e)
						}
						for _, s := range x.Body {
							walk(s)
						}
					case *ast.CommClause:
						walk(x.Comm)
						for _, s := range x.Body {
							walk(s)
						}
					case *ast.LabeledStmt:
						walk(x.Stmt)
					case *ast.GoStmt:
						visitExpr(x.Call)
					default:
						// assignments, returns, declarations, sends, inc/dec, ... : expressions in source order;
						// function literals inside are walked as statements so that their lock calls are seen
						handled := false
						ast.Inspect(n, func(m ast.Node) bool {
							if fl, ok := m.(*ast.FuncLit); ok {
								handled = true
								walk(fl.Body)
								return false
							}
							return true
						})
						if !handled {
							visitExpr(n)
						} else {
							// visit the non-closure parts
							ast.Inspect(n, func(m ast.Node) bool {
								if _, ok := m.(*ast.FuncLit); ok {
									return false
								}
								if se, ok := m.(*ast.SelectorExpr); ok {
									visitExpr(se)
									return false
								}
								return true
							})
						}
					}
				}
				walk(fd.Body)
			}
		}
	}
	sort.Slice(recs, func(i, j int) bool {
		a, b := recs[i], recs[j]
		ka := fmt.Sprintf("%s|%s|%s|%s|%v|%s|%03d|%s", a.pkg, a.strct, a.field, a.fn, a.write, a.mode, a.section, a.pos)
		kb := fmt.Sprintf("%s|%s|%s|%s|%v|%s|%03d|%s", b.pkg, b.strct, b.field, b.fn, b.write, b.mode, b.section, b.pos)
		return ka < kb
	})
	// collapse identical (ignoring position) records
	type key struct {
		pkg, strct, field, fn, mode string
		write                     bool
		section                   int
	}
	seen := map[key]bool{}
	var sb strings.Builder
	sb.WriteString(header)
	sb.WriteString("namespace Gen\n\n/-- package, struct, field, function, isWrite, lock mode of the struct's own mutex (\"none\", \"R\", \"W\"), critical-section index -/\n")
	sb.WriteString("def accesses : List (String × String × String × String × Bool × String × Nat) := [\n")
	first := true
	for _, r := range recs {
		k := key{r.pkg, r.strct, r.field, r.fn, r.mode, r.write, r.section}
		if seen[k] {
			continue
		}
		seen[k] = true
		if !first {
			sb.WriteString(",\n")
		}
		first = false
		fmt.Fprintf(&sb, "  (%s, %s, %s, %s, %v, %s, %d)", leanStr(r.pkg), leanStr(r.strct), leanStr(r.field), leanStr(r.fn), r.write, leanStr(r.mode), r.section)
	}
	sb.WriteString("\n]\n\n/-- package|function|mutex expression: number of read-locked and write-locked critical sections -/\n")
	sb.WriteString("def lockSections : List (String × Nat × Nat) := [\n")
	var sk []string
	for k := range sections {
		sk = append(sk, k)
	}
	sort.Strings(sk)
	for i, k := range sk {
		sep := ","
		if i == len(sk)-1 {
			sep = ""
		}
		fmt.Fprintf(&sb, "  (%s, %d, %d)%s\n", leanStr(k), sections[k].r, sections[k].w, sep)
	}
	sb.WriteString("]\n\n")
	// package-level variables: who mentions them, and whether as the target of an assignment
	type gref struct {
		pkg, name, typ, fn string
		write             bool
	}
	var grefs []gref
	gseen := map[string]bool{}
	for _, short := range []string{"app", "recv", "patch", "scte35", "chunkparser", "drm", "cmaf"} {
		p := g.pkgs[short]
		if p == nil {
			continue
		}
		for _, f := range p.Syntax {
			fname := g.fset.Position(f.Pos()).Filename
			if strings.HasSuffix(fname, "_test.go") || strings.HasSuffix(fname, "verif_export.go") {
				continue
			}
			for _, d := range f.Decls {
				fd, ok := d.(*ast.FuncDecl)
				if !ok || fd.Body == nil {
					continue
				}
				fn := fd.Name.Name
				if fd.Recv != nil && len(fd.Recv.List) > 0 {
					fn = strings.TrimPrefix(g.exprText(fd.Recv.List[0].Type), "*") + "." + fn
				}
				written := map[*ast.Ident]bool{}
				ast.Inspect(fd.Body, func(n ast.Node) bool {
					mark := func(e ast.Expr) {
						for {
							switch x := e.(type) {
							case *ast.IndexExpr:
								e = x.X
								continue
							case *ast.SelectorExpr:
								e = x.X
								continue
							case *ast.StarExpr:
								e = x.X
								continue
							case *ast.ParenExpr:
								e = x.X
								continue
							}
							break
						}
						if id, ok := e.(*ast.Ident); ok {
							written[id] = true
						}
					}
					switch x := n.(type) {
					case *ast.AssignStmt:
						for _, l := range x.Lhs {
							mark(l)
						}
					case *ast.IncDecStmt:
						mark(x.X)
					}
					return true
				})
				ast.Inspect(fd.Body, func(n ast.Node) bool {
					id, ok := n.(*ast.Ident)
					if !ok {
						return true
					}
					v, ok := p.TypesInfo.Uses[id].(*types.Var)
					if !ok || v.Pkg() != p.Types || v.Parent() != p.Types.Scope() {
						return true
					}
					k := fmt.Sprintf("%s|%s|%s|%v", short, v.Name(), fn, written[id])
					if !gseen[k] {
						gseen[k] = true
						grefs = append(grefs, gref{short, v.Name(), types.TypeString(v.Type(), func(*types.Package) string { return "" }), fn, written[id]})
					}
					return true
				})
			}
		}
	}
	sort.Slice(grefs, func(i, j int) bool {
		a, b := grefs[i], grefs[j]
		return fmt.Sprint(a.pkg, a.name, a.fn, a.write) < fmt.Sprint(b.pkg, b.name, b.fn, b.write)
	})
	sb.WriteString("/-- package-level variables: package, name, type, function that mentions it, as assignment target -/\n")
	sb.WriteString("def globalRefs : List (String × String × String × String × Bool) := [\n")
	for i, r := range grefs {
		sep := ","
		if i == len(grefs)-1 {
			sep = ""
		}
		fmt.Fprintf(&sb, "  (%s, %s, %s, %s, %v)%s\n", leanStr(r.pkg), leanStr(r.name), leanStr(r.typ), leanStr(r.fn), r.write, sep)
	}
	sb.WriteString("]\n\nend Gen\n")
	g.files["Access.lean"] = sb.String()
	_ = token.NoPos
}
