package main

func (g *gen) emitAccess() {}
