#!/usr/bin/env python3
import json,collections,sys
d0=sys.argv[1]
k=collections.Counter()
ex={}
for l in open(d0+'/monitor.jsonl'):
    d=json.loads(l)
    key=(d['kind'],d['what'])
    k[key]+=1
    ex.setdefault(key,[]).append(d['ops'][0])
for key,n in k.items():
    print(n,key)
    for e in ex[key][:int(sys.argv[2]) if len(sys.argv)>2 else 8]: print('    ',e[:220])
print(json.load(open(d0+'/stats.json')))
