#!/usr/bin/env python3
"""seed_confirm.py <worktree> <seed-id> <property> "<needs>"

Confirms a seeded defect produced by a sub-agent in a scratch worktree, independently of the agent's report:
  1. existing suite (demo file moved aside) passes with the change,
  2. the demo test fails with the change,
  3. the demo test passes without the change,
then stores patch.diff + demo + meta.json under /verif/seeded/<seed-id>/, applies the patch to /repo, runs
./check <property> (quick), records whether it was caught, undoes the patch, and removes the worktree.
"""
import sys, os, subprocess, json, shutil, glob, re

wt, sid, prop, needs = sys.argv[1], sys.argv[2], sys.argv[3], sys.argv[4]
extra_props = sys.argv[5:]  # further properties whose checks should also be run
env = dict(os.environ, GOFLAGS="-mod=mod", GOPROXY="off", GOSUMDB="off", GOTOOLCHAIN="local")

def sh(cmd, cwd=wt, check=False):
    p = subprocess.run(cmd, cwd=cwd, env=env, shell=True, capture_output=True, text=True)
    if check and p.returncode != 0:
        print(p.stdout[-2000:], p.stderr[-2000:])
        sys.exit("failed: " + cmd)
    return p

st = sh("git status --porcelain").stdout.splitlines()
demos = [l[3:] for l in st if l.startswith("??") and l.endswith("_test.go")]
changed = [l[3:] for l in st if l[:2].strip() == "M"]
if not demos or not changed:
    sys.exit("expected untracked demo test(s) and modified source; got %r" % st)
if any(c.endswith("_test.go") for c in changed):
    sys.exit("existing test modified: %r" % changed)
patch = sh("git diff -- " + " ".join(changed), check=True).stdout
# find the demo test names
names = []
for d in demos:
    names += re.findall(r"^func (Test\w+)\(", open(os.path.join(wt, d)).read(), flags=re.M)
pkgs = sorted({"./" + os.path.dirname(d) for d in demos})
runre = "^(" + "|".join(names) + ")$"

# 1. existing suite with the change, demo aside
for d in demos:
    os.rename(os.path.join(wt, d), os.path.join(wt, d) + ".aside")
p1 = sh("go build ./... && go test -vet=off -count=1 ./...")
for d in demos:
    os.rename(os.path.join(wt, d) + ".aside", os.path.join(wt, d))
suite_ok = p1.returncode == 0
# 2. demo with change
p2 = sh("go test -vet=off -count=1 -run '%s' %s" % (runre, " ".join(pkgs)))
demo_fails = p2.returncode != 0 and "FAIL" in (p2.stdout + p2.stderr)
# 3. demo without change
# (no `git stash`: the stash is shared between worktrees of one repository)
open(wt + ".own.patch", "w").write(patch)
sh("git checkout -- " + " ".join(changed), check=True)
p3 = sh("go test -vet=off -count=1 -run '%s' %s" % (runre, " ".join(pkgs)))
sh("git apply " + wt + ".own.patch", check=True)
demo_passes_without = p3.returncode == 0
print("suite_ok=%s demo_fails_with=%s demo_passes_without=%s" % (suite_ok, demo_fails, demo_passes_without))
if not (suite_ok and demo_fails and demo_passes_without):
    print(p1.stdout[-1500:], p2.stdout[-800:], p3.stdout[-800:])
    sys.exit("NOT CONFIRMED")

out = os.path.join("/verif/seeded", sid)
os.makedirs(out, exist_ok=True)
open(os.path.join(out, "patch.diff"), "w").write(patch)
for d in demos:
    shutil.copy(os.path.join(wt, d), os.path.join(out, os.path.basename(d) + ".txt"))

# run our checks against it
results = {}
ap = subprocess.run(["git", "-C", "/repo", "apply", os.path.join(out, "patch.diff")], capture_output=True, text=True)
if ap.returncode != 0:
    print("patch does not apply to /repo:", ap.stderr)
    results["apply"] = "failed: " + ap.stderr[-200:]
else:
    try:
        for pr in [prop] + extra_props:
            if not os.path.exists("/verif/lean/LivesimVerif/Props/%s.lean" % pr):
                results[pr] = "no check yet"
                continue
            c = subprocess.run(["./check", pr, "--tier", "quick"], cwd="/verif", capture_output=True, text=True, env=dict(os.environ, VERIF_EVIDENCE_DIR="/verif/.work/seed-evidence"))
            vio = [l for l in c.stdout.splitlines() if l.startswith("VIOLATION")]
            results[pr] = {"exit": c.returncode, "violation_lines": vio[:3], "summary": c.stdout.strip().splitlines()[-1:] }
            print(pr, "exit", c.returncode, vio[:1])
    finally:
        subprocess.run(["git", "-C", "/repo", "checkout", "--", "."])
meta = {
    "id": sid, "property": prop, "files": changed, "demo": [os.path.basename(d) + ".txt" for d in demos],
    "demo_tests": names, "demo_dir": [os.path.dirname(d) for d in demos],
    "needs_to_manifest": needs,
    "confirmed": {"existing_suite_passes_with_change": suite_ok, "demo_fails_with_change": demo_fails,
                  "demo_passes_without_change": demo_passes_without,
                  "how": "tools/seed_confirm.py in a scratch worktree (go build ./... && go test -vet=off -count=1 ./... with demo aside; go test -run demo with/without the change)"},
    "checks_run": results,
}
json.dump(meta, open(os.path.join(out, "meta.json"), "w"), indent=1)
subprocess.run(["git", "-C", "/repo", "worktree", "remove", "--force", wt])
print("stored", out)
