#!/usr/bin/env python3
"""seed_recheck.py [seed-id ...]  — re-applies each stored seeded patch to /repo, runs the checks of its property
(plus any listed in meta['also_check']) in the quick tier, records the outcome in meta.json, and undoes the patch."""
import sys, os, json, subprocess, glob
ids = sys.argv[1:] or sorted(os.path.basename(d) for d in glob.glob('/verif/seeded/*') if os.path.isdir(d))
for sid in ids:
    d = '/verif/seeded/' + sid
    mp = d + '/meta.json'
    meta = json.load(open(mp)) if os.path.exists(mp) else {"id": sid}
    patch = d + ('/patch_head.diff' if os.path.exists(d + '/patch_head.diff') else '/patch.diff')
    prop = meta.get('property') or sid.split('-')[0][:3]
    props = [prop] + meta.get('also_check', [])
    ap = subprocess.run(['git', '-C', '/repo', 'apply', patch], capture_output=True, text=True)
    if ap.returncode != 0:
        print(sid, 'patch does not apply:', ap.stderr.strip()[:200]); meta.setdefault('checks_run', {})['apply'] = 'failed'
        json.dump(meta, open(mp, 'w'), indent=1); continue
    res = {}
    try:
        for pr in props:
            if not os.path.exists('/verif/lean/LivesimVerif/Props/%s.lean' % pr):
                res[pr] = 'no check yet'; continue
            c = subprocess.run(['./check', pr, '--tier', 'quick'], cwd='/verif', capture_output=True, text=True, env=dict(os.environ, VERIF_EVIDENCE_DIR='/verif/.work/seed-evidence'))
            vio = [l for l in c.stdout.splitlines() if l.startswith('VIOLATION')]
            res[pr] = {'exit': c.returncode, 'violation_lines': vio[:3], 'summary': c.stdout.strip().splitlines()[-1:]}
    finally:
        subprocess.run(['git', '-C', '/repo', 'checkout', '--', '.'])
    meta['checks_run'] = res
    meta.setdefault('property', prop)
    json.dump(meta, open(mp, 'w'), indent=1)
    print(sid, {k: (v['exit'] if isinstance(v, dict) else v) for k, v in res.items()})
