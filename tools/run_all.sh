#!/bin/sh
# Runs every registered quick check on the current /repo tree (must be clean of seeded patches) and reports.
cd "$(dirname "$0")/.."
if [ -n "$(git -C /repo status --porcelain)" ]; then echo "/repo has uncommitted changes"; exit 2; fi
for id in $(python3 -c "import json;print(' '.join(c['property_id'] for c in json.load(open('MANIFEST.json'))['checks']))"); do
  ./check $id --tier ${1:-quick} | tail -1
done
