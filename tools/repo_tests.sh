#!/bin/bash
# Runs the repository's own test suite (guard off) and prints a pass/fail count.
export GOFLAGS=-mod=mod GOPROXY=off GOSUMDB=off GOTOOLCHAIN=local
cd /repo && go test -vet=off -count=1 -timeout 25m ./... 2>&1 | tail -${1:-15}
