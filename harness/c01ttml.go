package main

// C01, TTML clause: embedded timestamps of stpp segments move by the same offset as the decode time.

import (
	"fmt"
	"os"
	"regexp"
	"strconv"
	"strings"

	"github.com/Eyevinn/mp4ff/bits"
	"github.com/Eyevinn/mp4ff/mp4"
)

var ttmlTsRe = regexp.MustCompile(`(\d\d+):(\d\d):(\d\d)(\.\d\d\d)?`)

func ttmlTimesMS(data []byte) []int64 {
	var out []int64
	if i := strings.Index(string(data), "</tt>"); i >= 0 {
		data = data[:i] // embedded images (subsamples) follow the TTML document
	}
	for _, m := range ttmlTsRe.FindAllSubmatch(data, -1) {
		h, _ := strconv.ParseInt(string(m[1]), 10, 64)
		mi, _ := strconv.ParseInt(string(m[2]), 10, 64)
		s, _ := strconv.ParseInt(string(m[3]), 10, 64)
		ms := int64(0)
		if len(m[4]) > 0 {
			ms, _ = strconv.ParseInt(string(m[4][1:]), 10, 64)
		}
		out = append(out, ((h*60+mi)*60+s)*1000+ms)
	}
	return out
}

func firstSampleData(b []byte) ([]byte, uint64, error) {
	f, err := mp4.DecodeFileSR(bits.NewFixedSliceReader(b))
	if err != nil {
		return nil, 0, err
	}
	if len(f.Segments) == 0 || len(f.Segments[0].Fragments) == 0 {
		return nil, 0, fmt.Errorf("no fragment")
	}
	fr := f.Segments[0].Fragments[0]
	fss, err := fr.GetFullSamples(nil)
	if err != nil || len(fss) == 0 {
		return nil, 0, fmt.Errorf("no samples")
	}
	return fss[0].Data, fr.Moof.Traf.Tfdt.BaseMediaDecodeTime(), nil
}

func c01Ttml(c *Ctx) {
	for ai := range vAssets {
		a := &vAssets[ai]
		for ri := range a.Reps {
			rep := &a.Reps[ri]
			if !strings.HasPrefix(rep.Codecs, "stpp") || len(rep.Segments) == 0 {
				continue
			}
			n := len(rep.Segments)
			T := int64(rep.MediaTimescale)
			for _, k := range []int{0, 1, n - 1, n, n + 1, 3*n + 2, 7 * n, 1000*n + 1, 219000000 / maxInt(1, a.LoopDurMS/1000) * n} {
				for _, mode := range []string{"n", "tlt"} {
					cf := mkCfg(0, 60, 0, 0, mode)
					e := expectSeg(a, rep, k, 0)
					av, _ := availMS(e, int(T), 0, 0)
					url := segURL(a, cf.s, rep.ID, segIDFor(rep, e, mode), strconv.FormatInt(av+10, 10))
					res := doLive("GET", url)
					c.Count("ttml-requests")
					if res.code != 200 {
						c.Violate("ttml-not-served", fmt.Sprintf("stpp segment k=%d: status %d", k, res.code), []string{"# GET " + url}, nil)
						continue
					}
					newData, newTfdt, err := firstSampleData(res.body)
					vod, err2 := os.ReadFile(vodRoot() + "/" + a.AssetPath + "/" + mediaPath(rep, rep.Segments[k%n]))
					if err != nil || err2 != nil {
						continue
					}
					oldData, oldTfdt, err := firstSampleData(vod)
					if err != nil {
						continue
					}
					nt, ot := ttmlTimesMS(newData), ttmlTimesMS(oldData)
					if len(nt) != len(ot) {
						c.Violate("ttml-timestamps", fmt.Sprintf("k=%d: %d timestamps, VoD has %d", k, len(nt), len(ot)), []string{"# GET " + url}, nil)
						continue
					}
					shift := int64(newTfdt - oldTfdt)
					wantMS := (2*shift*1000 + T) / (2 * T) // round(shift*1000/T)
					for i := range nt {
						if nt[i]-ot[i] != wantMS {
							c.Violate("ttml-shift", fmt.Sprintf("k=%d (%s): TTML timestamp %d moved by %d ms, decode time moved by %d ticks = %d ms", k, mode, i, nt[i]-ot[i], shift, wantMS),
								[]string{"# GET " + url}, nil)
							break
						}
					}
				}
			}
		}
	}
}
