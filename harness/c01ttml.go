package main

// C01, TTML clause: embedded timestamps of stpp segments move by the same offset as the decode time.

import (
	"fmt"
	"os"
	"regexp"
	"strconv"
	"strings"

	"github.com/Eyevinn/mp4ff/bits"
	"github.com/Eyevinn/mp4ff/mp4"

	app "github.com/Dash-Industry-Forum/livesim2/cmd/livesim2/app"
)

var ttmlTsRe = regexp.MustCompile(`(\d\d+):(\d\d):(\d\d)(\.\d\d\d)?`)

func ttmlTimesMS(data []byte) []int64 {
	var out []int64
	if i := strings.Index(string(data), "</tt>"); i >= 0 {
		data = data[:i] // embedded images (subsamples) follow the TTML document
	}
	for _, m := range ttmlTsRe.FindAllSubmatch(data, -1) {
		h, _ := strconv.ParseInt(string(m[1]), 10, 64)
		mi, _ := strconv.ParseInt(string(m[2]), 10, 64)
		s, _ := strconv.ParseInt(string(m[3]), 10, 64)
		ms := int64(0)
		if len(m[4]) > 0 {
			ms, _ = strconv.ParseInt(string(m[4][1:]), 10, 64)
		}
		out = append(out, ((h*60+mi)*60+s)*1000+ms)
	}
	return out
}

func firstSampleData(b []byte) ([]byte, uint64, error) {
	f, err := mp4.DecodeFileSR(bits.NewFixedSliceReader(b))
	if err != nil {
		return nil, 0, err
	}
	if len(f.Segments) == 0 || len(f.Segments[0].Fragments) == 0 {
		return nil, 0, fmt.Errorf("no fragment")
	}
	fr := f.Segments[0].Fragments[0]
	fss, err := fr.GetFullSamples(nil)
	if err != nil || len(fss) == 0 {
		return nil, 0, fmt.Errorf("no samples")
	}
	return fss[0].Data, fr.Moof.Traf.Tfdt.BaseMediaDecodeTime(), nil
}

func c01Ttml(c *Ctx) {
	for ai := range vAssets {
		a := &vAssets[ai]
		for ri := range a.Reps {
			rep := &a.Reps[ri]
			if !strings.HasPrefix(rep.Codecs, "stpp") || len(rep.Segments) == 0 {
				continue
			}
			n := len(rep.Segments)
			T := int64(rep.MediaTimescale)
			for _, k := range []int{0, 1, n - 1, n, n + 1, 3*n + 2, 7 * n, 1000*n + 1, 219000000 / maxInt(1, a.LoopDurMS/1000) * n} {
				for _, mode := range []string{"n", "tlt"} {
					cf := mkCfg(0, 60, 0, 0, mode)
					e := expectSeg(a, rep, k, 0)
					av, _ := availMS(e, int(T), 0, 0)
					url := segURL(a, cf.s, rep.ID, segIDFor(rep, e, mode), strconv.FormatInt(av+10, 10))
					res := doLive("GET", url)
					c.Count("ttml-requests")
					if res.code != 200 {
						c.Violate("ttml-not-served", fmt.Sprintf("stpp segment k=%d: status %d", k, res.code), []string{"# GET " + url}, nil)
						continue
					}
					newData, newTfdt, err := firstSampleData(res.body)
					vod, err2 := os.ReadFile(vodRoot() + "/" + a.AssetPath + "/" + mediaPath(rep, rep.Segments[k%n]))
					if err != nil || err2 != nil {
						continue
					}
					oldData, oldTfdt, err := firstSampleData(vod)
					if err != nil {
						continue
					}
					nt, ot := ttmlTimesMS(newData), ttmlTimesMS(oldData)
					if len(nt) != len(ot) {
						c.Violate("ttml-timestamps", fmt.Sprintf("k=%d: %d timestamps, VoD has %d", k, len(nt), len(ot)), []string{"# GET " + url}, nil)
						continue
					}
					shift := int64(newTfdt - oldTfdt)
					wantMS := (2*shift*1000 + T) / (2 * T) // round(shift*1000/T)
					for i := range nt {
						if nt[i]-ot[i] != wantMS {
							c.Violate("ttml-shift", fmt.Sprintf("k=%d (%s): TTML timestamp %d moved by %d ms, decode time moved by %d ticks = %d ms", k, mode, i, nt[i]-ot[i], shift, wantMS),
								[]string{"# GET " + url}, nil)
							break
						}
					}
				}
			}
		}
	}
}

// ---- ops tying Model/Ttml.lean: `ttml <doc> <shiftMS>` (spaces written as _), `tshift <timeShift> <timescale>` ----

func execTtml(a []string) string {
	if len(a) != 2 {
		return "bad-op"
	}
	sh, err := strconv.ParseUint(a[1], 10, 63)
	if err != nil {
		return "bad-op"
	}
	out, err := app.VerifShiftTTML(a[0], sh)
	if err != nil {
		return "err"
	}
	return "ok " + out
}

func execTshift(a []string) string {
	if len(a) != 2 {
		return "bad-op"
	}
	ts, e1 := strconv.ParseUint(a[0], 10, 63)
	T, e2 := strconv.ParseUint(a[1], 10, 32)
	if e1 != nil || e2 != nil || T == 0 {
		return "bad-op"
	}
	return fmt.Sprintf("ms=%d", app.VerifStppShiftMS(ts, uint32(T)))
}

func init() {
	opExec["ttml"] = execTtml
	opExec["tshift"] = execTshift
}

// genTtmlOps: documents assembled from timestamp-like fragments (well-formed, long hours, no fraction, minutes and
// seconds above 59, runs of digits and colons that almost match) and plain text; shifts from 0 to years.
func genTtmlOps(c *Ctx) {
	r := c.Rng
	frag := func() string {
		switch r.Intn(12) {
		case 0:
			return fmt.Sprintf("%02d:%02d:%02d.%03d", r.Intn(100), r.Intn(60), r.Intn(60), r.Intn(1000))
		case 1:
			return fmt.Sprintf("%02d:%02d:%02d", r.Intn(30), r.Intn(60), r.Intn(60))
		case 2:
			return fmt.Sprintf("%d:%02d:%02d.%03d", 100+r.Intn(500000), r.Intn(100), r.Intn(100), r.Intn(1000))
		case 3:
			return fmt.Sprintf("%d:%02d:%02d", r.Intn(10), r.Intn(60), r.Intn(60)) // one hour digit: only a suffix can match
		case 4:
			return fmt.Sprintf("%02d:%02d:%d", r.Intn(100), r.Intn(60), r.Intn(1000)) // seconds of 1-3 digits
		case 5:
			return fmt.Sprintf("%02d:%02d:%02d.%d", r.Intn(100), r.Intn(60), r.Intn(60), r.Intn(100000)) // fraction of 1-5 digits
		case 6:
			return fmt.Sprintf("%02d:%02d:%02d:%02d.%03d", r.Intn(100), r.Intn(60), r.Intn(60), r.Intn(60), r.Intn(1000))
		case 7:
			return r.PickS("<p_begin=\"", "\"_end=\"", "\">", "</p>", "<tt>", "12", ":", ".", "1:2:3", "99:", ":07:", "00:00")
		case 8:
			return strconv.Itoa(r.Intn(1000000))
		case 9:
			return r.PickS("_", "a", "é", "xml:id=\"s1\"", "::", "..", "-")
		default:
			return fmt.Sprintf("begin=\"%02d:%02d:%02d.%03d\"_end=\"%02d:%02d:%02d.%03d\"", r.Intn(24), r.Intn(60), r.Intn(60), r.Intn(1000), r.Intn(24), r.Intn(60), r.Intn(60), r.Intn(1000))
		}
	}
	for i := 0; i < c.N(300, 3000); i++ {
		var sb strings.Builder
		for k := r.Range(1, 8); k > 0; k-- {
			sb.WriteString(frag())
		}
		sh := uint64(r.Pick(0, 1, 999, 1000, 8000, 59999, 3599999, 3600000, 86400000, 1790000000000, r.Intn(1<<40)))
		c.Emit(fmt.Sprintf("ttml %s %d", sb.String(), sh), true)
	}
	for i := 0; i < c.N(200, 2000); i++ {
		T := r.Pick(1000, 90000, 48000, 25, 30000, 12800, 10000000, 1+r.Intn(100000))
		ts := uint64(r.Pick(0, 1, T/2, T, 8*T, 8008*T/1000, r.Intn(1<<30), r.Intn(1<<40)))
		if r.Intn(3) == 0 {
			ts = uint64(r.Intn(1<<20)) * uint64(T) / 1000 * uint64(r.Pick(1, 2, 8, 24)) // multiples of a loop
		}
		c.Emit(fmt.Sprintf("tshift %d %d", ts, T), true)
	}
}
