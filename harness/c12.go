package main

// C12: generated time subtitles — op `cue <segStartMS> <segDurMS> <startTimeS> <cueDurMS>` (through the verif export
// of calcCueItvls) and handler-level monitors on served stpp / wvtt segments and on the subtitle AdaptationSet.

import (
	"fmt"
	"regexp"
	"strconv"
	"strings"
	"time"

	"github.com/Dash-Industry-Forum/livesim2/cmd/livesim2/app"
	"github.com/Eyevinn/mp4ff/bits"
	"github.com/Eyevinn/mp4ff/mp4"
)

func execCue(a []string) string {
	if len(a) != 4 {
		return "bad-op"
	}
	var v [4]int
	for i := range a {
		x, err := strconv.Atoi(a[i])
		if err != nil || x < 0 {
			return "bad-op"
		}
		v[i] = x
	}
	its := app.VerifCalcCueItvls(v[0], v[1], v[0]+v[2]*1000, v[3])
	parts := make([]string, len(its))
	for i, c := range its {
		parts[i] = fmt.Sprintf("(%d,%d,%d)", c[0], c[1], c[2])
	}
	return "[" + strings.Join(parts, ",") + "]"
}

func init() {
	opExec["cue"] = execCue
	generators["C12"] = genC12
}

type cueT struct{ start, end, utcS int }

// wantCues is the property read literally: one cue per UTC second whose display interval meets the segment, starting
// at that second (or the segment start), lasting cueDur clipped to the segment and to the next cue.
func wantCues(segStart, segDur, startS, cueDur int) []cueT {
	u0 := segStart + startS*1000
	uEnd := u0 + segDur
	var out []cueT
	for s := u0 / 1000; s*1000 < uEnd; s++ {
		st := maxInt(s*1000, u0)
		en := s*1000 + cueDur
		if en > (s+1)*1000 {
			en = (s + 1) * 1000
		}
		if en > uEnd {
			en = uEnd
		}
		if en <= st {
			continue
		}
		out = append(out, cueT{st - startS*1000, en - startS*1000, s})
	}
	return out
}

var cueOutRe = regexp.MustCompile(`\((-?\d+),(-?\d+),(-?\d+)\)`)

func parseCues(out string) []cueT {
	var cs []cueT
	for _, m := range cueOutRe.FindAllStringSubmatch(out, -1) {
		a, _ := strconv.Atoi(m[1])
		b, _ := strconv.Atoi(m[2])
		c, _ := strconv.Atoi(m[3])
		cs = append(cs, cueT{a, b, c})
	}
	return cs
}

func sameCues(a, b []cueT) bool {
	if len(a) != len(b) {
		return false
	}
	for i := range a {
		if a[i] != b[i] {
			return false
		}
	}
	return true
}

var ttmlCueRe = regexp.MustCompile(`begin="([0-9:.]+)" end="([0-9:.]+)"[^>]*>(?:<span[^>]*>)?([^<]*)`)

func tsToMS(ts string) int {
	m := ttmlTsRe.FindStringSubmatch(ts)
	if m == nil {
		return -1
	}
	h, _ := strconv.Atoi(m[1])
	mi, _ := strconv.Atoi(m[2])
	s, _ := strconv.Atoi(m[3])
	ms := 0
	if len(m[4]) > 0 {
		ms, _ = strconv.Atoi(m[4][1:])
	}
	return ((h*60+mi)*60+s)*1000 + ms
}

func genC12(c *Ctx) {
	r := c.Rng
	durs := []int{1, 250, 800, 900, 999, 1000, 1001, 1500, 2000, 3500}
	for i := 0; i < c.N(2500, 60000); i++ {
		segDur := r.Pick(960, 1000, 1920, 2000, 2002, 3840, 6000, 8000, 12000, 100)
		startS := r.Pick(0, 0, 61, 1600000000, 7)
		k := r.Pick(0, 1, 2, 3, 49, 1000, r.Intn(100000))
		segStart := k * segDur
		if r.Intn(5) == 0 {
			segStart += r.Intn(1000) // segment grid off the millisecond multiples
		}
		cueDur := durs[r.Intn(len(durs))]
		if r.Intn(6) == 0 {
			// the segment starts exactly where (or a millisecond around where) the cue of the running second ends
			segStart = segStart/1000*1000 + cueDur%1000 + r.Pick(0, 0, 0, 1, 999)
		}
		line := fmt.Sprintf("cue %d %d %d %d", segStart, segDur, startS, cueDur)
		out := c.Emit(line, true)
		if strings.HasPrefix(out, "PANIC") {
			c.Violate("cue-panic", "calcCueItvls panics", []string{line}, out)
			continue
		}
		got := parseCues(out)
		want := wantCues(segStart, segDur, startS, cueDur)
		if !sameCues(got, want) {
			kind := "cue-intervals"
			if cueDur > 1000 {
				kind = "cue-long"
			}
			c.Violate(kind, fmt.Sprintf("segment [%d,%d) start=%ds cueDur=%d: cues %v, the property requires %v", segStart, segStart+segDur, startS, cueDur, got, want),
				[]string{line}, nil)
		}
	}
	// zero cue duration (division by zero before the config check)
	c.Emit("cue 0 2000 0 0", true)
	c12Handler(c)
}

// c12Handler fetches generated subtitle segments through the real handler and checks number / decode time / duration
// against the reference video segment, the cue list against the property, the text, and the wvtt sample tiling.
// c12Mpd: "the subtitle AdaptationSet in the MPD mirrors the video timeline in milliseconds": for every asset and MPD
// type the generated stpp / wvtt AdaptationSets carry timescale 1000, the video's startNumber, and the video's
// duration / timeline entries converted to milliseconds.
func c12Mpd(c *Ctx) {
	for ai := range vAssets {
		a := &vAssets[ai]
		ref := refRepOf(a)
		if ref == nil || ref.ContentType != "video" || len(a.MPDs) == 0 {
			continue
		}
		for _, cf := range []cfgVar{mkCfg(0, 60, 0, 0, "n"), mkCfg(61, 30, 5, 0, "n"), mkCfg(0, 30, 0, 0, "tlt"), mkCfg(61, 60, 3, 0, "tln")} {
			cfgS := strings.TrimPrefix(cf.s+",timesubsstpp=en,timesubswvtt=sv", "-,")
			nows := []int64{int64(cf.startS)*1000 + int64(a.LoopDurMS)*3 + 1700, int64(cf.startS)*1000 + 1790000000000%int64(a.LoopDurMS) + 100*int64(a.LoopDurMS) + 333}
			// instants at which the first listed segment starts at a whole millisecond that the float product t * (1000/T)
			// misses from below (timescales like 12288): where mirroring by truncation instead of rounding shows
			if T := uint64(ref.MediaTimescale); cf.mode != "n" && T > 0 {
				found := 0
				for k := 1; k < 6000 && found < 3; k++ {
					e := expectSeg(a, ref, k, 0)
					if e.start*1000%T != 0 {
						continue
					}
					x := float64(e.start) * (1000 / float64(T))
					if uint64(x) != e.start*1000/T {
						nows = append(nows, int64(cf.startS)*1000+int64(e.end*1000/T)+int64(cf.tsbd)*1000+1)
						found++
						c.Count("subs-mpd-float-edge-instants")
					}
				}
			}
			for _, now := range nows {
				url := mpdURL(a.AssetPath, cfgS, a.MPDs[0], strconv.FormatInt(now, 10))
				res := doLive("GET", url)
				m, err := parseMPD(res.body)
				if res.code != 200 || err != nil || len(m.Periods) != 1 {
					continue
				}
				rp := []string{"# GET " + url}
				var vst *xSegTemplate
				for i := range m.Periods[0].Sets {
					as := &m.Periods[0].Sets[i]
					if asContentType(as) == "video" && as.SegmentTemplate != nil && len(as.Representations) > 0 && as.Representations[0].ID == ref.ID {
						vst = as.SegmentTemplate
					}
				}
				if vst == nil || vst.Timescale == nil && vst.Duration != nil && false {
					continue
				}
				vts := uint64(1)
				if vst.Timescale != nil {
					vts = *vst.Timescale
				}
				toMS := func(x uint64) (uint64, bool) { return x * 1000 / vts, x*1000%vts == 0 }
				for i := range m.Periods[0].Sets {
					as := &m.Periods[0].Sets[i]
					if len(as.Representations) == 0 || as.SegmentTemplate == nil {
						continue
					}
					id := as.Representations[0].ID
					if !strings.HasPrefix(id, "timestpp-") && !strings.HasPrefix(id, "timewvtt-") {
						continue
					}
					st := as.SegmentTemplate
					c.Count("subs-mpd-sets")
					if st.Timescale == nil || *st.Timescale != 1000 {
						c.Violate("subs-mpd", id+": subtitle SegmentTemplate@timescale is not 1000", rp, nil)
						continue
					}
					if (st.StartNumber == nil) != (vst.StartNumber == nil) || (st.StartNumber != nil && *st.StartNumber != *vst.StartNumber) {
						c.Violate("subs-mpd", id+": startNumber differs from the video AdaptationSet", rp, nil)
						continue
					}
					if (st.Duration == nil) != (vst.Duration == nil) {
						c.Violate("subs-mpd", id+": @duration present in one of video / subtitle templates only", rp, nil)
						continue
					}
					if vst.Duration != nil {
						want, exact := toMS(*vst.Duration)
						if *st.Duration != want && (exact || *st.Duration != want+1) {
							c.Violate("subs-mpd", fmt.Sprintf("%s: @duration %d ms, the video segment duration is %d/%d s = %d ms", id, *st.Duration, *vst.Duration, vts, want), rp, nil)
						}
						continue
					}
					vtl, stl := expandTL(vst), expandTL(st)
					if len(vtl) != len(stl) {
						c.Violate("subs-mpd", fmt.Sprintf("%s: %d timeline entries, the video has %d", id, len(stl), len(vtl)), rp, nil)
						continue
					}
					for j := range vtl {
						wt, e1 := toMS(vtl[j][0])
						wd, e2 := toMS(vtl[j][1])
						if (e1 && stl[j][0] != wt) || (e1 && e2 && stl[j][1] != wd) || stl[j][0]+1 < wt || stl[j][0] > wt+1 {
							c.Violate("subs-mpd", fmt.Sprintf("%s entry %d: (t=%d,d=%d) ms, video entry (t=%d,d=%d)/%d is (%d,%d) ms", id, j, stl[j][0], stl[j][1], vtl[j][0], vtl[j][1], vts, wt, wd), rp, nil)
							break
						}
					}
				}
			}
		}
	}
}

func c12Handler(c *Ctx) {
	getServer()
	c12Mpd(c)
	r := c.Rng
	for ai := range vAssets {
		a := &vAssets[ai]
		var ref *app.VerifRep
		for i := range a.Reps {
			if a.Reps[i].ID == a.RefRep {
				ref = &a.Reps[i]
			}
		}
		if ref == nil || ref.ContentType != "video" {
			continue
		}
		n := len(ref.Segments)
		for it := 0; it < c.N(6, 40); it++ {
			kind := r.PickS("stpp", "wvtt")
			lang := r.PickS("en", "sv", "zz", "pt-BR", "zh-Hans") // (languages with subtags: the id has further hyphens)
			cueDur := r.Pick(900, 250, 1000, 500)
			longCue := r.Intn(4) == 0
			if longCue {
				// cue durations above 1 s (known finding F-C12-2: one cue every ceil(dur/1000) s): the served segments are
				// held against the cue list of the tied core (`calcCueItvls`, op `cue`), not against the property
				cueDur = r.Pick(1500, 1800, 2500, 3000, 1001)
			}
			startS := r.Pick(0, 61, 1600000000)
			mode := r.PickS("n", "tlt", "tln")
			reg := r.Intn(2)
			k := r.Pick(0, 1, n-1, n, 2*n+1, 50*n+3)
			e := expectSeg(a, ref, k, 0)
			av, _ := availMS(e, ref.MediaTimescale, startS, 0)
			T := int64(ref.MediaTimescale)
			wantT := (2*int64(e.start)*1000 + T) / (2 * T)
			wantD := (2*int64(e.end-e.start)*1000 + T) / (2 * T)
			id := strconv.Itoa(e.nr)
			if mode == "tlt" {
				id = strconv.FormatInt(wantT, 10)
			}
			var parts []string
			if startS != 0 {
				parts = append(parts, fmt.Sprintf("start_%d", startS))
			}
			switch mode {
			case "tlt":
				parts = append(parts, "segtimeline_1")
			case "tln":
				parts = append(parts, "segtimelinenr_1")
			}
			parts = append(parts, fmt.Sprintf("timesubs%s_%s", kind, lang), fmt.Sprintf("timesubsdur_%d", cueDur), fmt.Sprintf("timesubsreg_%d", reg))
			url := fmt.Sprintf("/livesim2/%s/%s/time%s-%s/%s.m4s?nowMS=%d", strings.Join(parts, "/"), a.AssetPath, kind, lang, id, av+5)
			res := doLive("GET", url)
			c.Count("handler." + kind)
			rep := []string{"# GET " + url}
			if res.panicked != "" || res.code != 200 {
				if mode == "tlt" && (int64(e.start)*1000)%T != 0 {
					c.Count("handler.tlt-nonintegral-ms-skipped") // subtitle $Time$ in ms cannot address a video segment that is off the ms grid
					continue
				}
				c.Violate("subs-not-served", fmt.Sprintf("%s segment k=%d: status %d %s", kind, k, res.code, res.panicked), rep, nil)
				continue
			}
			f, err := mp4.DecodeFileSR(bits.NewFixedSliceReader(res.body))
			if err != nil || len(f.Segments) != 1 || len(f.Segments[0].Fragments) != 1 {
				c.Violate("subs-unparsable", "generated subtitle segment does not parse", rep, nil)
				continue
			}
			frag := f.Segments[0].Fragments[0]
			fss, _ := frag.GetFullSamples(nil)
			tfdt := int64(frag.Moof.Traf.Tfdt.BaseMediaDecodeTime())
			tot := int64(0)
			for _, s := range fss {
				tot += int64(s.Dur)
			}
			if int(frag.Moof.Mfhd.SequenceNumber) != e.nr || tfdt != wantT || tot != wantD {
				c.Violate("subs-meta", fmt.Sprintf("%s k=%d: nr=%d tfdt=%d dur=%d, reference video segment gives nr=%d t=%d ms d=%d ms", kind, k,
					frag.Moof.Mfhd.SequenceNumber, tfdt, tot, e.nr, wantT, wantD), rep, nil)
				continue
			}
			want := wantCues(int(wantT), int(wantD), startS, cueDur)
			if longCue {
				want = nil
				for _, ci := range app.VerifCalcCueItvls(int(wantT), int(wantD), int(wantT)+startS*1000, cueDur) {
					want = append(want, cueT{ci[0], ci[1], ci[2]})
				}
				c.Count("handler.long-cue")
			}
			var got []cueT
			var texts []string
			if kind == "stpp" {
				if len(fss) != 1 {
					c.Violate("subs-stpp-samples", "stpp segment must have one sample", rep, nil)
					continue
				}
				for _, m := range ttmlCueRe.FindAllStringSubmatch(string(fss[0].Data), -1) {
					got = append(got, cueT{tsToMS(m[1]), tsToMS(m[2]), -1})
				}
				for _, m := range regexp.MustCompile(`(\d{4}-\d\d-\d\dT\d\d:\d\d:\d\dZ)<br/>(\S+) # (\d+)`).FindAllStringSubmatch(string(fss[0].Data), -1) {
					texts = append(texts, m[1]+"|"+m[2]+"|"+m[3])
				}
			} else {
				t := tfdt
				for _, s := range fss {
					if s.DecodeTime != uint64(t) {
						c.Violate("wvtt-tiling", fmt.Sprintf("wvtt sample at %d, previous ended at %d", s.DecodeTime, t), rep, nil)
					}
					if m := regexp.MustCompile(`(\d{4}-\d\d-\d\dT\d\d:\d\d:\d\dZ)\n(\S+) # (\d+)`).FindSubmatch(s.Data); m != nil {
						got = append(got, cueT{int(t), int(t) + int(s.Dur), -1})
						texts = append(texts, string(m[1])+"|"+string(m[2])+"|"+string(m[3]))
					}
					t += int64(s.Dur)
				}
			}
			if len(got) != len(want) || len(texts) != len(want) {
				c.Violate("subs-cues", fmt.Sprintf("%s k=%d start=%d cueDur=%d: %d cues (%v), want %v", kind, k, startS, cueDur, len(got), got, want), rep, nil)
				continue
			}
			for i := range want {
				wt := time.Unix(int64(want[i].utcS), 0).UTC().Format(time.RFC3339) + "|" + lang + "|" + strconv.Itoa(e.nr)
				if got[i].start != want[i].start || got[i].end != want[i].end || texts[i] != wt {
					c.Violate("subs-cues", fmt.Sprintf("%s k=%d cue %d: (%d,%d,%q), want (%d,%d,%q)", kind, k, i, got[i].start, got[i].end, texts[i], want[i].start, want[i].end, wt), rep, nil)
					break
				}
			}
		}
	}
}
