package main

// C06: splitting into periods preserves the timeline and the segment identities.

import (
	"bytes"
	"fmt"
	"github.com/Dash-Industry-Forum/livesim2/cmd/livesim2/app"
	"sort"
	"strconv"
	"strings"
)

func init() { generators["C06"] = genC06 }

func withPeriods(cs string, pph int, cont bool) string {
	add := fmt.Sprintf("periods=%d", pph)
	if cont {
		add += ",continuous=1"
	}
	if cs == "-" {
		return add
	}
	return cs + "," + add
}

// periodStartsAligned: for every k, k * pd seconds taken modulo the loop duration of the reference representation is the
// start of one of its segments (checked over one full cycle of k).
func periodStartsAligned(a *app.VerifAsset, pd int) bool {
	ref := refRepOf(a)
	if ref == nil || len(ref.Segments) == 0 {
		return true
	}
	T := int64(ref.MediaTimescale)
	first := int64(ref.Segments[0].StartTime)
	L := int64(ref.Segments[len(ref.Segments)-1].EndTime) - first
	if L <= 0 {
		return false
	}
	starts := map[int64]bool{}
	for _, sg := range ref.Segments {
		starts[int64(sg.StartTime)-first] = true
	}
	per := int64(pd) * T
	cycle := L / gcd64(per, L)
	if cycle > int64(len(ref.Segments)) {
		return false // more distinct period starts per loop than there are segment starts
	}
	for k := int64(0); k < cycle; k++ {
		if !starts[(k*per)%L] {
			return false
		}
	}
	return true
}

func genC06(c *Ctx) {
	c.emitAssetDefs()
	c.emitMpdDefs()
	r := c.Rng
	pphs := []int{60, 30, 120, 12, 3600, 100, 7, 1}
	for ai := range vAssets {
		a := &vAssets[ai]
		ref := refRepOf(a)
		if ref == nil {
			continue
		}
		for ni, name := range a.MPDs {
			if !c.Thorough() && ni > 0 && !strings.Contains(name, "thumb") {
				continue // (the thumbnail AdaptationSet is numbered in every MPD type: always included)
			}
			for _, mode := range []string{"n", "tlt", "tln"} {
				for it := 0; it < c.N(3, 12); it++ {
					pph := pphs[r.Intn(len(pphs))]
					if it == 0 {
						pph = 60
					}
					pd := 3600 / pph
					cf := mkCfg(r.Pick(0, 0, 61, 3000), r.Pick(60, 30, 10, 300), r.Pick(0, 0, 5), r.Pick(0, 0, 500), mode)
					cont := r.Intn(3) == 0
					cs := withPeriods(cf.s, pph, cont)
					// instants: period boundaries +-1 ms, boundary + segment duration, coincidences with the loop wrap, random
					var nows []int64
					base := int64(r.Pick(1, 2, 17, 1790000000/pd)) * int64(pd) * 1000 // stream start, and around 2026
					for _, d := range []int64{-1, 0, 1, int64(a.SegmentDurMS) - 1, int64(a.SegmentDurMS), int64(a.SegmentDurMS) + 1, int64(cf.tsbd) * 1000, int64(cf.tsbd)*1000 + 1} {
						nows = append(nows, base+d)
					}
					lcm := int64(pd) * 1000 / gcd64(int64(pd)*1000, int64(a.LoopDurMS)) * int64(a.LoopDurMS)
					nows = append(nows, lcm, lcm+1, lcm+int64(cf.tsbd)*1000, base+int64(r.Intn(pd*1000+1)), base+int64(r.Intn(3*pd*1000+1)))
					for _, now := range nows {
						if now < 0 {
							continue
						}
						now += int64(cf.startS) * 1000
						line := fmt.Sprintf("mpd %s %s %s %d", a.AssetPath, cs, name, now)
						out := c.Emit(line, true)
						// the property's own statement, on the reference track's segment table: every period start (every multiple
						// of the period duration, in every loop) is the start of a segment
						aligned := periodStartsAligned(a, pd)
						compatible := aligned && pd*1000%a.SegmentDurMS == 0
						switch {
						case strings.HasPrefix(out, "PANIC"):
							c.Violate("periods-panic", "multi-period MPD request panics", []string{line}, nil)
						case !aligned:
							if strings.HasPrefix(out, "dynamic") {
								c.Violate("incompatible-period-accepted", fmt.Sprintf("period duration %d s: the periods do not start at segment boundaries of the reference track (nominal segment duration %d ms) but the MPD was served", pd, a.SegmentDurMS), []string{line}, nil)
							}
						case !compatible:
							// aligned, but not a multiple of the nominal (average) segment duration: livesim2 may refuse it
						case !strings.HasPrefix(out, "dynamic"):
							c.Violate("periods-not-served", "multi-period MPD request fails: "+out, []string{line}, nil)
						default:
							c06Monitor(c, a.AssetPath, name, cf, cs, pd, cont, now, line)
						}
					}
				}
			}
		}
	}
	// out-of-range periods-per-hour must be refused, not crash
	for _, pph := range []int{0, 3601, 100000} {
		line := fmt.Sprintf("mpd testpic_2s periods=%d Manifest.mpd 3600000", pph)
		out := c.Emit(line, true)
		if strings.HasPrefix(out, "PANIC") {
			c.Violate("periods-range-panic", fmt.Sprintf("periods_%d panics instead of being rejected", pph), []string{line}, nil)
		}
	}
}

func gcd64(a, b int64) int64 {
	for b != 0 {
		a, b = b, a%b
	}
	return a
}

type listedSeg struct {
	t, d, nr int64
}

func listed(as *xAS) []listedSeg {
	st := as.SegmentTemplate
	if st == nil || st.Timeline == nil {
		return nil
	}
	sn := int64(-1)
	if st.StartNumber != nil {
		sn = int64(*st.StartNumber)
	}
	var out []listedSeg
	for j, e := range expandTL(st) {
		nr := int64(-1)
		if sn >= 0 {
			nr = sn + int64(j)
		}
		out = append(out, listedSeg{int64(e[0]), int64(e[1]), nr})
	}
	return out
}

func c06Monitor(c *Ctx, asset, name string, cf cfgVar, cs string, pd int, cont bool, now int64, line string) {
	nowS := strconv.FormatInt(now, 10)
	single := doLive("GET", mpdURL(asset, cf.s, name, nowS))
	multi := doLive("GET", mpdURL(asset, cs, name, nowS))
	ms, err1 := parseMPD(single.body)
	mm, err2 := parseMPD(multi.body)
	if err1 != nil || err2 != nil || len(ms.Periods) != 1 || len(mm.Periods) == 0 {
		return
	}
	c.Count("multi-compared")
	rp := []string{line}
	// tiling
	var firstStart int64 = -1
	for i := range mm.Periods {
		p := &mm.Periods[i]
		st, _ := durToMS(p.Start)
		m := periodIDRe.FindStringSubmatch(p.ID)
		if m == nil {
			c.Violate("period-id", "period id "+p.ID, rp, nil)
			return
		}
		k, _ := strconv.ParseInt(m[1], 10, 64)
		if st != k*int64(pd)*1000 {
			c.Violate("period-tiling", fmt.Sprintf("period %s starts at %d ms, want k*periodDuration = %d", p.ID, st, k*int64(pd)*1000), rp, nil)
			return
		}
		if i == 0 {
			firstStart = st
		} else {
			prev, _ := durToMS(mm.Periods[i-1].Start)
			if st != prev+int64(pd)*1000 {
				c.Violate("period-tiling", "periods are not consecutive", rp, nil)
				return
			}
		}
	}
	// the periods cover the window: none starts in the future, and the first one is the one that contains the start of the
	// time-shift window (periods are counted from availabilityStartTime)
	{
		astMS, _ := dateToMS(mm.AST)
		lastStart, _ := durToMS(mm.Periods[len(mm.Periods)-1].Start)
		if lastStart > now-astMS {
			c.Violate("period-in-future", fmt.Sprintf("the last period starts at %d ms, %d ms after the request instant", lastStart, lastStart-(now-astMS)), rp, nil)
			return
		}
		winStart := now - astMS - int64(cf.tsbd)*1000
		if winStart < 0 {
			winStart = 0
		}
		if want := winStart / (int64(pd) * 1000) * int64(pd) * 1000; firstStart > want {
			c.Violate("period-window-start", fmt.Sprintf("the time-shift window starts at %d ms, in the period starting at %d ms, but the first Period starts at %d ms", winStart, want, firstStart), rp, nil)
			return
		}
	}
	for ai := range ms.Periods[0].Sets {
		sas := &ms.Periods[0].Sets[ai]
		ct := asContentType(sas)
		sst := sas.SegmentTemplate
		if sst == nil {
			continue
		}
		ts := int64(1)
		if sst.Timescale != nil {
			ts = int64(*sst.Timescale)
		}
		// continuity + pto in every period
		for pi := range mm.Periods {
			p := &mm.Periods[pi]
			if ai >= len(p.Sets) || p.Sets[ai].SegmentTemplate == nil {
				c.Violate("period-as-missing", "AdaptationSet missing in period "+p.ID, rp, nil)
				return
			}
			pas := &p.Sets[ai]
			pst, _ := durToMS(p.Start)
			pts := ts
			if pas.SegmentTemplate.Timescale != nil {
				pts = int64(*pas.SegmentTemplate.Timescale)
			}
			if pas.SegmentTemplate.PTO == nil || int64(*pas.SegmentTemplate.PTO)*1000 != pst*pts {
				c.Violate("period-pto", fmt.Sprintf("%s in %s: presentationTimeOffset does not equal Period@start", ct, p.ID), rp, nil)
				return
			}
			has := false
			for _, d := range pas.Supplemental {
				if d.SchemeIdUri == "urn:mpeg:dash:period-continuity:2015" {
					has = true
				}
			}
			if has != cont {
				c.Violate("period-continuity", fmt.Sprintf("%s in %s: continuity signalled=%v requested=%v", ct, p.ID, has, cont), rp, nil)
				return
			}
		}
		if sst.Timeline == nil {
			// $Number$ templates: the number derived at the period start must address the segment starting there
			for pi := range mm.Periods {
				p := &mm.Periods[pi]
				pas := &p.Sets[ai]
				pst, _ := durToMS(p.Start)
				if pas.SegmentTemplate.Duration == nil || pas.SegmentTemplate.StartNumber == nil || ct == "image" && false {
					continue
				}
				d := int64(*pas.SegmentTemplate.Duration)
				want := pst*ts/(d*1000) + int64(cf.startNr)
				if int64(*pas.SegmentTemplate.StartNumber) != want {
					c.Violate("period-startnumber", fmt.Sprintf("%s in %s: startNumber %d, segment starting at the period start has number %d", ct, p.ID, *pas.SegmentTemplate.StartNumber, want), rp, nil)
					return
				}
			}
			continue
		}
		// SegmentTimeline: partition of the single-period list
		want := map[int64]listedSeg{}
		for _, s := range listed(sas) {
			if s.t*1000 >= firstStart*ts {
				want[s.t] = s
			}
		}
		seen := map[int64]int{}
		for pi := range mm.Periods {
			p := &mm.Periods[pi]
			pst, _ := durToMS(p.Start)
			for _, s := range listed(&p.Sets[ai]) {
				seen[s.t]++
				w, ok := want[s.t]
				switch {
				case !ok:
					c.Violate("period-extra-segment", fmt.Sprintf("%s: segment t=%d listed in %s is not in the single-period MPD", ct, s.t, p.ID), rp, nil)
					return
				case w.d != s.d || w.nr != s.nr:
					c.Violate("period-identity", fmt.Sprintf("%s: segment t=%d is (d=%d,nr=%d) in %s but (d=%d,nr=%d) in the single-period MPD", ct, s.t, s.d, s.nr, p.ID, w.d, w.nr), rp, nil)
					return
				case s.t*1000 < pst*ts || s.t*1000 >= (pst+int64(pd)*1000)*ts:
					c.Violate("period-wrong-period", fmt.Sprintf("%s: segment t=%d listed in %s whose interval does not contain its start", ct, s.t, p.ID), rp, nil)
					return
				}
			}
		}
		var missing []int64
		for t := range want {
			if seen[t] != 1 {
				missing = append(missing, t)
			}
		}
		if len(missing) > 0 {
			sort.Slice(missing, func(i, j int) bool { return missing[i] < missing[j] })
			c.Violate("period-partition", fmt.Sprintf("%s: segment(s) t=%v of the single-period MPD appear %d times in the periods", ct, missing, seen[missing[0]]), rp, nil)
			return
		}
		// same bytes through the period-relative URL (sample: last listed)
		ls := listed(sas)
		if len(ls) > 0 && len(sas.Representations) > 0 && c.Rng.Intn(4) == 0 {
			l := ls[len(ls)-1]
			u1 := "/livesim2/" + cfgToURL(cf.s) + asset + "/" + fillTemplate(sst.Media, sas.Representations[0].ID, l.nr, l.t) + "?nowMS=" + nowS
			u2 := "/livesim2/" + cfgToURL(cs) + asset + "/" + fillTemplate(sst.Media, sas.Representations[0].ID, l.nr, l.t) + "?nowMS=" + nowS
			r1, r2 := doLive("GET", u1), doLive("GET", u2)
			c.Count("same-bytes-compared")
			if r1.code != r2.code || !bytes.Equal(r1.body, r2.body) {
				c.Violate("period-bytes", fmt.Sprintf("%s: the segment URL inside the period answers differently (%d vs %d)", ct, r2.code, r1.code), []string{line, "# GET " + u2}, nil)
			}
		}
	}
}
