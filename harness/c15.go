package main

// C15: the representation-metadata cache never changes what is served.
// Op `cons` (consolidateAsset vs. the Lean model); monitors on server instances started by scanning, by writing the
// metadata files, and from those files (intact, partially missing, truncated, corrupt).

import (
	"bytes"
	"compress/gzip"
	"context"
	"crypto/sha256"
	"encoding/hex"
	"encoding/json"
	"fmt"
	"net/http/httptest"
	"os"
	"path/filepath"
	"reflect"
	"sort"
	"strconv"
	"strings"

	"github.com/Dash-Industry-Forum/livesim2/cmd/livesim2/app"
)

func init() {
	generators["C15"] = genC15
	opExec["cons"] = execCons
	opExec["loadtab"] = func(a []string) string {
		if len(a) != 3 {
			return "bad-op"
		}
		va := findVAsset(a[0])
		if va == nil {
			return "bad-op"
		}
		for i := range va.Reps {
			if va.Reps[i].ID == a[1] {
				var parts []string
				for _, sg := range va.Reps[i].Segments {
					parts = append(parts, fmt.Sprintf("%d:%d", sg.StartTime, sg.EndTime))
				}
				return strings.Join(parts, ",")
			}
		}
		return "bad-op"
	}
}

// cons <id:type:dur:ts:pre> ...
func execCons(a []string) string {
	var reps []app.VerifRepDur
	for _, s := range a {
		f := strings.Split(s, ":")
		if len(f) != 5 {
			return "bad-op"
		}
		d, e1 := strconv.ParseUint(f[2], 10, 64)
		ts, e2 := strconv.Atoi(f[3])
		if e1 != nil || e2 != nil || ts <= 0 {
			return "bad-op"
		}
		reps = append(reps, app.VerifRepDur{ID: f[0], ContentType: f[1], Dur: d, Timescale: ts, PreEncrypted: f[4] == "1"})
	}
	loop, ref, err := app.VerifConsolidate(reps)
	if err != nil {
		return "err"
	}
	return fmt.Sprintf("ok loop=%d ref=%s", loop, ref)
}

type srvInst struct {
	s      *app.Server
	assets []app.VerifAsset
	err    error
}

func startServer(vodRoot, repDataRoot string, write bool) (inst srvInst) {
	defer func() {
		if r := recover(); r != nil {
			inst.err = fmt.Errorf("PANIC at start-up: %v", r)
		}
	}()
	cfg := app.DefaultConfig
	cfg.VodRoot = vodRoot
	cfg.RepDataRoot = repDataRoot
	cfg.WriteRepData = write
	cfg.TimeoutS = 0
	cfg.LogLevel = "ERROR"
	s, err := app.SetupServer(context.Background(), &cfg)
	if err != nil {
		return srvInst{err: err}
	}
	return srvInst{s: s, assets: s.VerifAssets()}
}

func getFrom(s *app.Server, url string) string {
	req := httptest.NewRequest("GET", url, nil)
	res := serveGuarded(s.LiveRouter, req)
	if res.panic != "" {
		return "PANIC " + res.panic
	}
	if res.spin {
		return "SPIN"
	}
	h := sha256.Sum256([]byte(res.fullBody))
	return fmt.Sprintf("%d %d %s", res.code, len(res.fullBody), hex.EncodeToString(h[:8]))
}

// probeURLs lists requests that cover every MPD and every representation of the given assets.
func probeURLs(assets []app.VerifAsset, r *Rng, dense bool) []string {
	var urls []string
	for ai := range assets {
		a := &assets[ai]
		ref := refRepOf(a)
		if ref == nil {
			continue
		}
		n := len(ref.Segments)
		now := int64(a.LoopDurMS)*3 + 1700
		for _, m := range a.MPDs {
			for _, cfg := range []string{"", "segtimeline_1/", "segtimelinenr_1/", "timesubsstpp_en/", "periods_60/"} {
				urls = append(urls, fmt.Sprintf("/livesim2/%s%s/%s?nowMS=%d", cfg, a.AssetPath, m, now))
			}
		}
		ks := []int{0, n - 1, n, 2*n + 1}
		if dense {
			ks = nil
			for k := 0; k <= 2*n+1; k++ {
				ks = append(ks, k)
			}
		}
		for ri := range a.Reps {
			rp := &a.Reps[ri]
			urls = append(urls, fmt.Sprintf("/livesim2/%s/%s?nowMS=%d", a.AssetPath, rp.InitURI, now))
			if (rp.ContentType == "video" || rp.ContentType == "audio") && !rp.PreEncrypted {
				// on-the-fly encryption is prepared when the representation is loaded: scanned and cache-loaded alike
				e := expectSeg(a, ref, n, 0)
				av, _ := availMS(e, ref.MediaTimescale, 0, 0)
				id := strconv.Itoa(e.nr)
				media := strings.NewReplacer("$Number$", id, "$Time$", id).Replace(rp.MediaURI)
				for _, drm := range []string{"eccp_cenc/", "eccp_cbcs/"} {
					urls = append(urls, fmt.Sprintf("/livesim2/%s%s/%s?nowMS=%d", drm, a.AssetPath, rp.InitURI, now),
						fmt.Sprintf("/livesim2/%s%s/%s?nowMS=%d", drm, a.AssetPath, media, av+int64(a.SegmentDurMS)))
				}
			}
			for _, k := range ks {
				e := expectSeg(a, ref, k, 0)
				av, _ := availMS(e, ref.MediaTimescale, 0, 0)
				for _, mode := range []string{"n", "tlt"} {
					id := strconv.Itoa(e.nr)
					cf := ""
					if mode == "tlt" {
						cf = "segtimeline_1/"
						switch {
						case rp.ContentType == "image":
							continue
						case rp.ContentType == "audio" && rp.ConstSampleDur > 0 && !rp.PreEncrypted:
							id = strconv.FormatUint(ceilFrame(e.start, uint64(ref.MediaTimescale), uint64(rp.ConstSampleDur), uint64(rp.MediaTimescale)), 10)
						case len(rp.Segments) == n:
							id = strconv.FormatUint(expectSeg(a, rp, k, 0).start, 10)
						default:
							continue
						}
					}
					media := strings.NewReplacer("$Number$", id, "$Time$", id).Replace(rp.MediaURI)
					urls = append(urls, fmt.Sprintf("/livesim2/%s%s/%s?nowMS=%d", cf, a.AssetPath, media, av+int64(a.SegmentDurMS)))
				}
			}
		}
	}
	return urls
}

func dirDigest(root string) map[string]string {
	out := map[string]string{}
	_ = filepath.Walk(root, func(p string, info os.FileInfo, err error) error {
		if err != nil || info.IsDir() {
			return nil
		}
		b, _ := os.ReadFile(p)
		h := sha256.Sum256(b)
		rel, _ := filepath.Rel(root, p)
		out[rel] = hex.EncodeToString(h[:8])
		return nil
	})
	return out
}

func mustJSON(v any) []byte {
	b, err := json.Marshal(v)
	must(err)
	return b
}

func assetNames(as []app.VerifAsset) []string {
	var n []string
	for _, a := range as {
		n = append(n, a.AssetPath)
	}
	sort.Strings(n)
	return n
}

func findAsset(as []app.VerifAsset, name string) *app.VerifAsset {
	for i := range as {
		if as[i].AssetPath == name {
			return &as[i]
		}
	}
	return nil
}

func genC15(c *Ctx) {
	r := c.Rng
	// ---- op loadtab: the loaded table of every $Number$ representation against what the files themselves say ----
	getServer()
	for ai := range vAssets {
		a := &vAssets[ai]
		for ri := range a.Reps {
			rp := &a.Reps[ri]
			if rp.ContentType == "image" || !strings.Contains(rp.MediaURI, "$Number$") || len(rp.Segments) == 0 {
				continue
			}
			var raw []string
			ok := true
			for _, sg := range rp.Segments {
				def := uint32(0)
				if tx := vodFiles(a, rp).trex; tx != nil {
					def = tx.DefaultSampleDuration
				}
				t, d, err := storedTimesDef(vodRoot()+"/"+a.AssetPath+"/"+mediaPath(rp, sg), def)
				if err != nil {
					ok = false
					break
				}
				raw = append(raw, fmt.Sprintf("%d:%d", t, t+d))
			}
			if !ok {
				c.Count("loadtab-unreadable")
				continue
			}
			line := fmt.Sprintf("loadtab %s %s %s", a.AssetPath, rp.ID, strings.Join(raw, ","))
			out := c.Emit(line, len(raw) > 1)
			// the property on this table: contiguous
			segs := strings.Split(out, ",")
			for i := 1; i < len(segs); i++ {
				p, q := strings.Split(segs[i-1], ":"), strings.Split(segs[i], ":")
				if len(p) != 2 || len(q) != 2 || p[1] != q[0] {
					c.Violate("table-not-contiguous", fmt.Sprintf("%s/%s: segment %d ends at %s, segment %d starts at %s", a.AssetPath, rp.ID, i-1, p[len(p)-1], i, q[0]), []string{line}, nil)
					break
				}
			}
		}
	}
	// ---- op cons ----
	kinds := []string{"video", "audio", "text", "image"}
	for i := 0; i < c.N(1500, 20000); i++ {
		n := r.Range(1, 4)
		ts0 := r.Pick(1000, 90000, 48000, 12800, 30000, 25, 15360, 10000000, 3)
		base := r.Pick(8, 2, 1, 60, 3600) * ts0
		switch r.Intn(5) {
		case 0:
			base += r.Range(1, 50) // not a whole number of ms for most timescales
		case 1:
			base = base * 1001 / 1000
		}
		var parts []string
		for j := 0; j < n; j++ {
			kd := kinds[r.Intn(len(kinds))]
			if j == 0 && r.Intn(3) != 0 {
				kd = "video"
			}
			ts := ts0
			if r.Intn(3) == 0 {
				ts = r.Pick(1000, 90000, 48000, 44100, 600)
			}
			dur := base * ts / ts0
			switch r.Intn(6) {
			case 0:
				dur += r.Range(1, 60)
			case 1:
				if dur > 100 {
					dur -= r.Range(1, 60)
				}
			case 2:
				dur += ts
			}
			if dur < 1 {
				dur = 1
			}
			id := fmt.Sprintf("%c%d", "VvAaTt"[r.Intn(6)], r.Intn(4))
			dup := false
			for _, p := range parts {
				if strings.HasPrefix(p, id+":") {
					dup = true
				}
			}
			if dup {
				continue
			}
			parts = append(parts, fmt.Sprintf("%s:%s:%d:%d:%d", id, kd, dur, ts, b2i(r.Intn(8) == 0)))
		}
		if len(parts) == 0 {
			continue
		}
		line := "cons " + strings.Join(parts, " ")
		out := c.Emit(line, len(parts) > 1)
		// the property on this input, stated independently: an admitted asset has a loop of whole milliseconds, and every
		// representation that is looped as it is (all but re-segmented, i.e. clear non-reference audio) lasts exactly that
		if strings.HasPrefix(out, "ok loop=") {
			var loop int
			var ref string
			fmt.Sscanf(out, "ok loop=%d ref=%s", &loop, &ref)
			refKind := ""
			for _, p := range parts {
				f := strings.Split(p, ":")
				if f[0] == ref {
					refKind = f[1]
				}
			}
			for _, p := range parts {
				f := strings.Split(p, ":")
				d, _ := strconv.ParseUint(f[2], 10, 64)
				ts, _ := strconv.ParseUint(f[3], 10, 64)
				resegmented := f[1] == "audio" && refKind != "audio" && f[4] != "1"
				if !resegmented && d*1000 != uint64(loop)*ts {
					c.Violate("admitted-with-other-duration", fmt.Sprintf("asset admitted with a loop of %d ms although representation %s (%s, looped as it is) lasts %d/%d s", loop, f[0], f[1], d, ts), []string{line}, nil)
					break
				}
			}
		}
	}
	c15Servers(c)
}

func c15Servers(c *Ctx) {
	r := c.Rng
	work := filepath.Join(c.OutDir, "c15")
	_ = os.RemoveAll(work)
	defer os.RemoveAll(work)
	vod := filepath.Join(work, "vod")
	must(os.MkdirAll(vod, 0o755))
	for _, a := range []string{"testpic_2s", "testpic_8s", "testpic_alt_seg_dur_stl"} {
		if _, err := os.Stat(filepath.Join(bundledRoot(), a)); err == nil {
			must(copyTree(filepath.Join(bundledRoot(), a), filepath.Join(vod, a)))
		}
	}
	for _, L := range genLayouts {
		if L.name == "gen_alt" || L.name == "gen_irreg" || L.name == "gen_one" || L.name == "gen_192" || L.name == "gen_gap" || L.name == "gen_nr0" || L.name == "gen_nr7" {
			must(genAsset(vod, L))
		}
	}
	// assets that must be left out: loop duration not a whole number of milliseconds
	must(genAsset(vod, genLayout{name: "bad_fracms", videoT: 90000, frameDur: 3601, videoSegs: []int{360100, 360100}, audioCodec: "aac", audioSegs: []int{188, 188}}))
	// a text track one segment shorter than the video loop: its segments would be served at the wrong media time after the first loop
	must(genAsset(vod, genLayout{name: "bad_textshort", videoT: 15360, frameDur: 512, videoSegs: []int{15360, 15360, 15360, 15360}, audioCodec: "aac", audioSegs: []int{47, 47, 47, 47}, stpp: true, textShort: 1}))
	viol := func(kind, what, op string, detail any) { c.Violate(kind, what, []string{"# " + op}, detail) }

	scan := startServer(vod, "", false)
	if scan.err != nil {
		viol("start", "scanning server does not start: "+scan.err.Error(), "start scan", nil)
		return
	}
	c.Count("servers")
	if a := findAsset(scan.assets, "bad_fracms"); a != nil {
		viol("admitted", fmt.Sprintf("asset whose loop is %d/90000 s (not a whole number of ms) is served with LoopDurMS=%d", 720200, a.LoopDurMS), "asset bad_fracms", nil)
	}
	if a := findAsset(scan.assets, "bad_textshort"); a != nil {
		// what it is served with: text segment number 4 (the first of the second text loop) against video segment number 4
		v := getBody(scan.s, "/livesim2/bad_textshort/V1/3.m4s?nowMS=20000")
		t := getBody(scan.s, "/livesim2/bad_textshort/T1/3.m4s?nowMS=20000")
		viol("admitted", fmt.Sprintf("asset whose text representation lasts 3 s in a 4 s video loop is served; segment number 3: video starts at %s, text at %s", tfdtOf(v, 15360), tfdtOf(t, 1000)), "asset bad_textshort", nil)
	}
	// contiguity of every loaded segment table
	for _, a := range scan.assets {
		for _, rp := range a.Reps {
			for i := 1; i < len(rp.Segments); i++ {
				if rp.Segments[i].StartTime != rp.Segments[i-1].EndTime {
					viol("not-contiguous", fmt.Sprintf("%s %s: segment %d starts at %d, the previous one ends at %d", a.AssetPath, rp.ID, i, rp.Segments[i].StartTime, rp.Segments[i-1].EndTime), "asset "+a.AssetPath, nil)
					break
				}
			}
			c.Count("tables-checked")
		}
	}
	urls := probeURLs(scan.assets, r, c.Thorough())
	want := map[string]string{}
	for _, u := range urls {
		want[u] = getFrom(scan.s, u)
	}
	c.Stats["probe-urls"] = len(urls)
	compare := func(tag string, inst srvInst, mustHaveAll bool) {
		c.Count("servers")
		if inst.err != nil {
			viol("start", tag+": server does not start: "+inst.err.Error(), "start "+tag, nil)
			return
		}
		// every asset is either absent or identical
		for _, a := range inst.assets {
			sa := findAsset(scan.assets, a.AssetPath)
			if sa == nil {
				viol("extra-asset", tag+": asset "+a.AssetPath+" is served although the scanning server leaves it out", "start "+tag, nil)
				continue
			}
			if js, _ := json.Marshal(*sa); !bytes.Equal(js, mustJSON(a)) {
				viol("table-differs", fmt.Sprintf("%s: loaded tables of %s differ from the scanned ones", tag, a.AssetPath), "start "+tag, map[string]any{"scan": sa, "got": a})
			}
		}
		if mustHaveAll && fmt.Sprint(assetNames(inst.assets)) != fmt.Sprint(assetNames(scan.assets)) {
			viol("asset-list", fmt.Sprintf("%s: assets %v, scanning gives %v", tag, assetNames(inst.assets), assetNames(scan.assets)), "start "+tag, nil)
		}
		n := 0
		for _, u := range urls {
			served := false
			for _, a := range inst.assets {
				if strings.Contains(u, "/"+a.AssetPath+"/") {
					served = true
				}
			}
			if !served {
				continue
			}
			if got := getFrom(inst.s, u); got != want[u] {
				viol("response-differs", fmt.Sprintf("%s: %s instead of %s", tag, got, want[u]), "GET "+u, nil)
			}
			n++
		}
		c.Stats["responses-compared"] += n
	}
	// write, then load
	cache := filepath.Join(work, "repdata")
	w1 := startServer(vod, cache, true)
	compare("write", w1, true)
	d1 := dirDigest(cache)
	if len(d1) == 0 {
		viol("no-cache", "write mode produced no metadata files", "start write", nil)
		return
	}
	w2 := startServer(vod, cache, true)
	compare("write-again", w2, true)
	if d2 := dirDigest(cache); !reflect.DeepEqual(d1, d2) {
		viol("not-idempotent", "writing the metadata files a second time changes them", "start write-again", map[string]any{"first": d1, "second": d2})
	}
	ld := startServer(vod, cache, false)
	compare("load", ld, true)
	// load once more after loading (loading must not modify the files)
	if d3 := dirDigest(cache); !reflect.DeepEqual(d1, d3) {
		viol("load-writes", "loading from the metadata files modifies them", "start load", nil)
	}
	// shared root: metadata inside the VoD tree
	shared := filepath.Join(work, "vodshared")
	must(copyTree(vod, shared))
	compare("shared-write", startServer(shared, shared, true), true)
	compare("shared-load", startServer(shared, shared, false), true)
	// ---- a damaged VoD tree: a representation that cannot be loaded must take its MPDs out of service, not leave them half-served ----
	dv := filepath.Join(work, "vod-damaged")
	must(os.MkdirAll(dv, 0o755))
	for _, a := range []string{"testpic_2s", "gen_one"} {
		if _, err := os.Stat(filepath.Join(vod, a)); err == nil {
			must(copyTree(filepath.Join(vod, a), filepath.Join(dv, a)))
		}
	}
	// the audio AdaptationSet of the generated MPDs comes after the video one: the video representation is already loaded
	_ = os.WriteFile(filepath.Join(dv, "gen_one", "A1", "1.m4s"), []byte("\x00\x00\x00\x10moofxxxxxxxx"), 0o644)
	if di := startServer(dv, "", false); di.err != nil {
		viol("start", "server on a VoD tree with one unreadable segment does not start: "+di.err.Error(), "start vod-damaged", nil)
	} else {
		c.Count("servers")
		for _, a := range di.assets {
			if sa := findAsset(scan.assets, a.AssetPath); sa != nil && len(a.Reps) != len(sa.Reps) {
				viol("partial-asset", fmt.Sprintf("vod-damaged: asset %s is served with %d of %d representations (MPDs %v still offered)", a.AssetPath, len(a.Reps), len(sa.Reps), a.MPDs), "start vod-damaged", nil)
			}
			for _, m := range a.MPDs {
				u := fmt.Sprintf("/livesim2/%s/%s?nowMS=%d", a.AssetPath, m, a.LoopDurMS*3+1700)
				got := getFrom(di.s, u)
				if strings.HasPrefix(got, "PANIC") {
					viol("partial-asset", "MPD of an asset with an unloadable representation is offered and crashes: "+got, "GET "+u, nil)
				}
				if strings.HasPrefix(got, "200") && want[u] != "" && got != want[u] {
					viol("response-differs", "vod-damaged: "+got+" instead of "+want[u], "GET "+u, nil)
				}
			}
		}
	}
	// ---- damaged caches ----
	var files []string
	for f := range d1 {
		files = append(files, f)
	}
	sort.Strings(files)
	type damage struct {
		name string
		do   func(path string) error
	}
	gz := func(b []byte) []byte {
		var buf bytes.Buffer
		w := gzip.NewWriter(&buf)
		_, _ = w.Write(b)
		_ = w.Close()
		return buf.Bytes()
	}
	gunz := func(p string) []byte {
		fh, err := os.Open(p)
		if err != nil {
			return nil
		}
		defer fh.Close()
		zr, err := gzip.NewReader(fh)
		if err != nil {
			return nil
		}
		var buf bytes.Buffer
		_, _ = buf.ReadFrom(zr)
		return buf.Bytes()
	}
	damages := []damage{
		{"missing", func(p string) error { return os.Remove(p) }},
		{"empty", func(p string) error { return os.WriteFile(p, nil, 0o644) }},
		{"truncated", func(p string) error {
			b, _ := os.ReadFile(p)
			return os.WriteFile(p, b[:len(b)/2], 0o644)
		}},
		{"flipped", func(p string) error {
			b, _ := os.ReadFile(p)
			b[len(b)/2] ^= 0x40
			return os.WriteFile(p, b, 0o644)
		}},
		{"not-json", func(p string) error { return os.WriteFile(p, gz([]byte("{not json")), 0o644) }},
		{"json-truncated", func(p string) error { j := gunz(p); return os.WriteFile(p, gz(j[:len(j)*2/3]), 0o644) }},
		{"json-empty-object", func(p string) error { return os.WriteFile(p, gz([]byte("{}")), 0o644) }},
		{"json-no-segments", func(p string) error {
			j := gunz(p)
			i := bytes.Index(j, []byte(`"segments":[`))
			k := bytes.Index(j[i:], []byte("]"))
			return os.WriteFile(p, gz(append(append(append([]byte(nil), j[:i]...), []byte(`"segments":[`)...), j[i+k:]...)), 0o644)
		}},
		{"json-null", func(p string) error { return os.WriteFile(p, gz([]byte("null")), 0o644) }},
		// a well-formed file that belongs to another representation (of the same asset / of another asset)
		{"other-rep-same-asset", nil},
		{"other-rep-other-asset", nil},
	}
	nCases := c.N(11, 66)
	for i := 0; i < nCases; i++ {
		dmg := damages[i%len(damages)]
		f := files[r.Intn(len(files))]
		dc := filepath.Join(work, fmt.Sprintf("damaged-%d", i))
		must(copyTree(cache, dc))
		if dmg.do == nil {
			var cands []string
			for _, g := range files {
				same := filepath.Dir(g) == filepath.Dir(f)
				// a file of another asset under the same representation id is a well-formed cache of that id: nothing in the
				// file format tells it from the asset's own, and it is neither truncated nor corrupt, so it is no fault case
				if g != f && same == (dmg.name == "other-rep-same-asset") && filepath.Base(g) != filepath.Base(f) {
					cands = append(cands, g)
				}
			}
			if len(cands) == 0 {
				os.RemoveAll(dc)
				continue
			}
			g := cands[r.Intn(len(cands))]
			b, err := os.ReadFile(filepath.Join(dc, g))
			if err != nil || os.WriteFile(filepath.Join(dc, f), b, 0o644) != nil {
				os.RemoveAll(dc)
				continue
			}
			dmg.name += "(" + g + ")"
		} else if err := dmg.do(filepath.Join(dc, f)); err != nil {
			continue
		}
		tag := fmt.Sprintf("cache %s %s", dmg.name, f)
		inst := startServer(vod, dc, false)
		compare(tag, inst, false)
		// the asset must not be served with representations missing
		if inst.err == nil {
			for _, a := range inst.assets {
				sa := findAsset(scan.assets, a.AssetPath)
				if sa != nil && len(a.Reps) != len(sa.Reps) {
					viol("partial-asset", fmt.Sprintf("%s: asset %s is served with %d of %d representations", tag, a.AssetPath, len(a.Reps), len(sa.Reps)), "start "+tag, nil)
				}
			}
		}
		os.RemoveAll(dc)
	}
	c15BitFlips(c, work)
}

// c15BitFlips: single-bit damage anywhere in a metadata file (a small VoD tree, many positions): the file is either
// rejected — the segments are read instead — or gives the scanned tables; the server never dies at start-up.
func c15BitFlips(c *Ctx, work string) {
	r := c.Rng
	vod := filepath.Join(work, "vod-small")
	must(copyTree(filepath.Join(bundledRoot(), "testpic_2s"), filepath.Join(vod, "testpic_2s")))
	scan := startServer(vod, "", false)
	if scan.err != nil {
		return
	}
	cache := filepath.Join(work, "repdata-small")
	if w := startServer(vod, cache, true); w.err != nil {
		return
	}
	var files []string
	_ = filepath.Walk(cache, func(p string, info os.FileInfo, err error) error {
		if err == nil && !info.IsDir() && strings.HasSuffix(p, ".gz") {
			files = append(files, p)
		}
		return nil
	})
	sort.Strings(files)
	if len(files) == 0 {
		return
	}
	want := mustJSON(scan.assets)
	for i := 0; i < c.N(400, 3000); i++ {
		f := files[r.Intn(len(files))]
		orig, err := os.ReadFile(f)
		if err != nil || len(orig) == 0 {
			continue
		}
		bit := r.Intn(len(orig) * 8)
		dmg := append([]byte(nil), orig...)
		dmg[bit/8] ^= 1 << uint(bit%8)
		_ = os.WriteFile(f, dmg, 0o644)
		inst := startServer(vod, cache, false)
		_ = os.WriteFile(f, orig, 0o644)
		c.Count("bit-flip-starts")
		rel, _ := filepath.Rel(cache, f)
		tag := fmt.Sprintf("# start from metadata with bit %d of %s flipped", bit, rel)
		switch {
		case inst.err != nil:
			c.Violate("start", "server does not start: "+inst.err.Error(), []string{tag}, nil)
			return
		case !bytes.Equal(mustJSON(inst.assets), want):
			c.Violate("table-differs", "a metadata file with one flipped bit is accepted and gives tables that differ from the scanned ones", []string{tag},
				map[string]any{"scan": scan.assets, "got": inst.assets})
			return
		}
	}
}

func getBody(s *app.Server, url string) []byte {
	req := httptest.NewRequest("GET", url, nil)
	res := serveGuarded(s.LiveRouter, req)
	if res.code != 200 {
		return nil
	}
	return []byte(res.fullBody)
}

// tfdtOf returns the decode time of the first fragment in seconds (or "-" when the body is no media segment).
func tfdtOf(b []byte, ts int) string {
	if b == nil {
		return "-"
	}
	si := parseMediaSegment(b, nil)
	if si.err != nil || len(si.tfdts) == 0 {
		return "-"
	}
	return fmt.Sprintf("%.3f s", float64(si.tfdts[0])/float64(ts))
}
