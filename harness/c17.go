package main

// C17: ingest receiver bookkeeping — ops `ctr`, `buf`, `gen` (through the verif exports of the receiver package).

import (
	"bufio"
	"bytes"
	"context"
	"encoding/json"
	"fmt"
	"github.com/Eyevinn/mp4ff/mp4"
	"io"
	"log/slog"
	"net/http"
	"net/http/httptest"
	"os"
	"os/exec"
	"path/filepath"
	"regexp"
	"sort"
	"strconv"
	"strings"
	"sync"
	"time"

	recv "github.com/Dash-Industry-Forum/livesim2/cmd/cmaf-ingest-receiver/app"
)

func u32s(s string) ([]uint32, bool) {
	var out []uint32
	for _, p := range strings.Split(s, ":") {
		v, err := strconv.ParseUint(p, 10, 32)
		if err != nil {
			return nil, false
		}
		out = append(out, uint32(v))
	}
	return out, true
}

// runSeq applies ops until one panics; mirrors Driver.runOps.
func runSeq(ops string, step func(op string) string) string {
	if ops == "-" {
		return ""
	}
	var outs []string
	for _, op := range strings.Split(ops, ",") {
		o, panicked := func() (o string, p bool) {
			defer func() {
				if r := recover(); r != nil {
					o, p = "PANIC", true
				}
			}()
			return step(op), false
		}()
		outs = append(outs, o)
		if panicked {
			break
		}
	}
	return strings.Join(outs, ";")
}

func execCtr(a []string) string {
	if len(a) != 2 {
		return "bad-op"
	}
	w, err := strconv.ParseUint(a[0], 10, 32)
	if err != nil {
		return "bad-op"
	}
	c := recv.NewVerifCounters(uint32(w))
	return runSeq(a[1], func(op string) string {
		v, ok := u32s(op[1:])
		switch {
		case op[0] == 'a' && ok && len(v) == 1:
			c.Add(v[0])
		case op[0] == 'r' && ok && len(v) == 1:
			c.Resize(v[0])
		case op[0] == 'd' && ok && len(v) == 1:
			c.Drop(v[0])
		case op[0] == 'f' && ok && len(v) == 2:
			return fmt.Sprintf("full=%d", c.NewFullCounter(v[0], v[1]))
		case op[0] == 'g' && ok && len(v) == 1:
			f, l := c.FullRange(v[0])
			return fmt.Sprintf("range=%d..%d", f, l)
		default:
			return "bad-op"
		}
		return c.Dump()
	})
}

func execBuf(a []string) string {
	if len(a) != 2 {
		return "bad-op"
	}
	w, err := strconv.ParseUint(a[0], 10, 32)
	if err != nil {
		return "bad-op"
	}
	b := recv.NewVerifBuf(uint32(w))
	return runSeq(a[1], func(op string) string {
		v, ok := u32s(op[1:])
		switch {
		case op[0] == 'a' && ok && len(v) == 4:
			if err := b.Add(v[0], uint64(v[1]), v[2], v[3] == 1); err != nil {
				return "err"
			}
		case op[0] == 'g' && ok && len(v) == 1:
			dts, dur, found := b.GetItem(v[0])
			if !found {
				return "item=-"
			}
			return fmt.Sprintf("item=(%d,%d,%d)", v[0], dts, dur)
		case op[0] == 'r' && ok && len(v) == 1:
			b.Resize(v[0])
		case op[0] == 'd' && ok && len(v) == 1:
			b.DropSeqNr(v[0])
		case op[0] == 'u':
			un := b.RemoveUnshifted()
			parts := make([]string, len(un))
			for i, x := range un {
				parts[i] = strconv.Itoa(int(x))
			}
			return "un=[" + strings.Join(parts, ", ") + "] " + b.Dump()
		default:
			return "bad-op"
		}
		return b.Dump()
	})
}

var genDirCounter int

func newGenDir() string {
	genDirCounter++
	d := filepath.Join(workDir(), "c17", strconv.Itoa(os.Getpid()), strconv.Itoa(genDirCounter))
	_ = os.MkdirAll(d, 0o755)
	return d
}

func workDir() string {
	if d := os.Getenv("VERIF_WORK"); d != "" {
		return d
	}
	return "/verif/.work"
}

type genRun struct {
	g   *recv.VerifGen
	dir string
}

func parseAss(s string) [][]string {
	var out [][]string
	for _, a := range strings.Split(s, "|") {
		out = append(out, strings.Split(a, "+"))
	}
	return out
}

// genMPDOut runs the real MPD generation and reports what was written, as the model prints it.
func (gr *genRun) mpd(n uint32) string {
	before := gr.g.Latest()
	err := gr.g.GenMPD(n)
	if err != nil {
		switch {
		case strings.Contains(err.Error(), "is not bigger than latestSeqNr"):
			return "mpderr=not-bigger"
		case strings.Contains(err.Error(), "is bigger than highest buffer number"):
			return "mpderr=beyond-buffers"
		case strings.Contains(err.Error(), "no segment data"):
			return "mpderr=no-seg-data"
		}
		return "mpderr=" + strings.ReplaceAll(err.Error(), " ", "_")
	}
	_ = before
	txt, rerr := gr.g.ReadMPD()
	if rerr != nil {
		return "mpd-unreadable"
	}
	// range = startNumber .. latest
	first := "?"
	if m := regexp.MustCompile(`^sn=(\d+)[@:]`).FindStringSubmatch(txt); m != nil {
		first = m[1]
	}
	return fmt.Sprintf("mpd=%s..%d %s", first, gr.g.Latest(), txt)
}

func execGen(a []string) string {
	if len(a) != 3 {
		return "bad-op"
	}
	w, err := strconv.ParseUint(a[0], 10, 32)
	if err != nil {
		return "bad-op"
	}
	dir := newGenDir()
	defer os.RemoveAll(dir)
	gr := &genRun{g: recv.NewVerifGen(dir, uint32(w), parseAss(a[1])), dir: dir}
	return runSeq(a[2], func(op string) string { return gr.step(op) })
}

func boolLower(b bool) string {
	if b {
		return "true"
	}
	return "false"
}

func (gr *genRun) step(op string) string {
	switch op[0] {
	case 'a':
		f := strings.Split(op[1:], ":")
		if len(f) != 5 {
			return "bad-op"
		}
		n, e1 := strconv.ParseUint(f[1], 10, 32)
		dts, e2 := strconv.ParseUint(f[2], 10, 64)
		dur, e3 := strconv.ParseUint(f[3], 10, 32)
		if e1 != nil || e2 != nil || e3 != nil {
			return "bad-op"
		}
		newNr, err := gr.g.Add(f[0], uint32(n), dts, uint32(dur), f[4] == "1")
		if err != nil {
			return "err " + gr.g.Dump()
		}
		if newNr != 0 {
			return fmt.Sprintf("new=%d %s %s", newNr, gr.mpd(newNr), gr.g.Dump())
		}
		return "new=0 " + gr.g.Dump()
	case 's':
		v, ok := u32s(op[1:])
		if !ok || len(v) != 2 {
			return "bad-op"
		}
		gr.g.Start(v[0], v[1] == 1)
		return gr.g.Dump()
	case 'd':
		v, ok := u32s(op[1:])
		if !ok || len(v) != 1 {
			return "bad-op"
		}
		gr.g.DropSeqNr(v[0])
		return gr.g.Dump()
	case 'm':
		v, ok := u32s(op[1:])
		if !ok || len(v) != 1 {
			return "bad-op"
		}
		return gr.mpd(v[0])
	}
	return "bad-op"
}

func init() {
	opExec["ctr"] = execCtr
	opExec["buf"] = execBuf
	opExec["gen"] = execGen
	generators["C17"] = genC17
}

func genC17(c *Ctx) {
	r := c.Rng
	// ---- unit level: seqCounters ----
	for i := 0; i < c.N(600, 20000); i++ {
		w := r.Range(1, 6)
		base := r.Pick(0, 1, 5, 100)
		var ops []string
		n := r.Range(1, 25)
		cur := base
		for k := 0; k < n; k++ {
			switch r.Intn(14) {
			case 0:
				ops = append(ops, fmt.Sprintf("r%d", r.Range(1, 7)))
			case 1:
				ops = append(ops, fmt.Sprintf("d%d", base+r.Intn(cur-base+2)))
			case 2:
				ops = append(ops, fmt.Sprintf("f%d:%d", r.Range(1, 3), base+r.Intn(cur-base+2)))
			case 3:
				ops = append(ops, fmt.Sprintf("g%d", r.Range(1, 3)))
			case 4: // jump ahead, possibly beyond the window
				cur += r.Range(2, 9)
				ops = append(ops, fmt.Sprintf("a%d", cur))
			case 5, 6: // late number inside / below the window
				back := r.Intn(7)
				v := cur - back
				if v < 0 {
					v = 0
				}
				ops = append(ops, fmt.Sprintf("a%d", v))
			default:
				if r.Intn(3) > 0 {
					cur++
				}
				ops = append(ops, fmt.Sprintf("a%d", cur))
			}
		}
		line := fmt.Sprintf("ctr %d %s", w, strings.Join(ops, ","))
		out := c.Emit(line, n >= 4)
		if strings.Contains(out, "PANIC") {
			c.Violate("ctr-panic", "seqCounters operation sequence panics (index/slice out of range)", []string{line}, out)
		} else {
			c17CtrMonitor(c, line, out)
		}
	}
	// ---- unit level: segDataBuffer ----
	for i := 0; i < c.N(500, 15000); i++ {
		w := r.Range(1, 6)
		var ops []string
		cur := r.Pick(0, 1, 7, 50)
		n := r.Range(1, 20)
		for k := 0; k < n; k++ {
			switch r.Intn(12) {
			case 0:
				ops = append(ops, fmt.Sprintf("r%d", r.Range(1, 7)))
			case 1:
				ops = append(ops, fmt.Sprintf("d%d", cur-r.Intn(4)+1))
			case 2:
				ops = append(ops, fmt.Sprintf("g%d", maxInt(0, cur-r.Intn(5))))
			case 3:
				ops = append(ops, "u")
			case 4:
				v := maxInt(0, cur-r.Intn(3))
				ops = append(ops, fmt.Sprintf("a%d:%d:%d:%d", v, v*10, 10, r.Intn(2)))
			default:
				cur += r.Pick(1, 1, 1, 2, 5, 9)
				ops = append(ops, fmt.Sprintf("a%d:%d:%d:%d", cur, cur*10, r.Pick(10, 10, 10, 9), r.Intn(2)))
			}
		}
		line := fmt.Sprintf("buf %d %s", w, strings.Join(ops, ","))
		out := c.Emit(line, n >= 4)
		if strings.Contains(out, "PANIC") {
			c.Violate("buf-panic", "segDataBuffer operation sequence panics (index out of range)", []string{line}, out)
		}
	}
	// ---- generator level: realistic channel histories ----
	for i := 0; i < c.N(500, 15000); i++ {
		line, realistic := c17GenCase(r)
		out := c.Emit(line, true)
		if realistic {
			c17GenMonitor(c, line, out)
		}
	}
	genRenum(c)
	c17Storage(c)
}

// c17Storage: the whole receiver (upload handler, storage, channel goroutine, MPD writer) on real segments: after a run of
// uploads every track directory holds at most the window implied by timeShiftBufferDepth, every number the written
// timeline MPD lists is a stored file of every track, and the stored files are what was uploaded.  Channels whose
// sequence numbers and decode times are on the segment grid, and channels that the receiver renumbers ("shifted":
// numbers unrelated to time, decode times off the grid).
func c17Storage(c *Ctx) {
	n := c.N(6, 40)
	from := 0
	for from < n {
		cmd := exec.Command(os.Args[0], "c17child", strconv.FormatUint(c.Rng.s, 10), strconv.Itoa(from), strconv.Itoa(n))
		var se strings.Builder
		cmd.Stderr = &se
		out, _ := cmd.Output()
		begun, done, tag := -1, from-1, ""
		for _, ln := range strings.Split(string(out), "\n") {
			switch {
			case strings.HasPrefix(ln, "B "):
				f := strings.SplitN(ln, " ", 3)
				begun, _ = strconv.Atoi(f[1])
				if len(f) > 2 {
					tag = f[2]
				}
			case strings.HasPrefix(ln, "T "):
				tag = ln[2:]
			case strings.HasPrefix(ln, "E "):
				done, _ = strconv.Atoi(ln[2:])
			case strings.HasPrefix(ln, "C "):
				c.Count(ln[2:])
			case strings.HasPrefix(ln, "V "):
				var v Violation
				if json.Unmarshal([]byte(ln[2:]), &v) == nil {
					c.Violate(v.Kind, v.What, v.Ops, nil)
				}
			}
		}
		if done >= n-1 {
			break
		}
		// the child died: the channel goroutine (or an upload handler) crashed the whole process in the run it had begun
		why := "process exit"
		for _, ln := range strings.Split(se.String(), "\n") {
			if strings.HasPrefix(ln, "fatal error:") || strings.HasPrefix(ln, "panic:") {
				why = strings.TrimSpace(ln)
				break
			}
		}
		if begun < 0 {
			begun = from
		}
		c.Violate("receiver-fatal", "the whole receiver process dies ("+why+")", []string{tag}, nil)
		from = begun + 1
	}
}

// c17Child runs the receiver-level iterations from..n-1 and reports on stdout (B begin, T tag, C counter, V violation, E end).
func c17Child(args []string) {
	if len(args) != 3 {
		os.Exit(2)
	}
	seed, _ := strconv.ParseUint(args[0], 10, 64)
	from, _ := strconv.Atoi(args[1])
	n, _ := strconv.Atoi(args[2])
	w := bufio.NewWriter(os.Stdout)
	slog.SetDefault(slog.New(slog.NewTextHandler(io.Discard, nil)))
	vInit, e1 := readAsset("testpic_2s/V300/init.mp4")
	aInit, e2 := readAsset("testpic_2s/A48/init.mp4")
	if e1 != nil || e2 != nil {
		os.Exit(3)
	}
	viol := func(kind, what string, ops []string, _ any) {
		b, _ := json.Marshal(Violation{Kind: kind, What: what, Ops: ops})
		fmt.Fprintf(w, "V %s\n", b)
		w.Flush()
	}
	count := func(name string) { fmt.Fprintf(w, "C %s\n", name) }
	for it := from; it < n; it++ {
		r := &Rng{s: seed*1000003 + uint64(it)*7919 + 77}
		fmt.Fprintf(w, "B %d\n", it)
		w.Flush()
		c17StorageRun(r, it, vInit, aInit, viol, count, func(tag string) { fmt.Fprintf(w, "T %s\n", tag); w.Flush() })
		fmt.Fprintf(w, "E %d\n", it)
		w.Flush()
	}
}

// c17Restart: a receiver restarted on a storage that already holds the channel (init_org files), with credentials
// configured: the first request for every track carries wrong credentials and is refused, which must leave no trace —
// the following proper uploads are accepted and stored, the tracks being registered from the stored init segments.
func c17Restart(r *Rng, vInit, aInit []byte, viol func(kind, what string, ops []string, _ any), count func(string), setTag func(string)) {
	dir, err := os.MkdirTemp(workDir(), "c17restart")
	if err != nil {
		return
	}
	defer os.RemoveAll(dir)
	cfg := &recv.Config{DefaultUser: "user", DefaultPswd: "secret", Channels: []recv.ChannelConfig{}}
	type trk struct {
		name, ext string
		init      []byte
		src       string
		ts        uint64
	}
	tracks := []trk{{"v0", ".cmfv", vInit, "testpic_2s/V300/%d.m4s", 90000}, {"a0", ".cmfa", aInit, "testpic_2s/A48/%d.m4s", 48000}}
	seq0 := uint32(r.Pick(1, 101))
	tag := fmt.Sprintf("# receiver restart with credentials: 2 tracks from %d, wrong credentials on the first request of every track after the restart", seq0)
	setTag(tag)
	put := func(h http.Handler, path string, body []byte, pswd string) int {
		req := httptest.NewRequest("PUT", path, bytes.NewReader(body))
		req.SetBasicAuth("user", pswd)
		rec := httptest.NewRecorder()
		func() {
			defer func() { _ = recover() }()
			h.ServeHTTP(rec, req)
		}()
		return rec.Code
	}
	seg := func(t trk, k int) []byte {
		b, err := readAsset(fmt.Sprintf(t.src, k%4+1))
		if err != nil {
			return nil
		}
		f, err := mp4.DecodeFile(bytes.NewReader(b))
		if err != nil {
			return nil
		}
		fr := f.Segments[0].Fragments[0]
		fr.Moof.Mfhd.SequenceNumber = seq0 + uint32(k)
		dt := (uint64(seq0) + uint64(k)) * 2 * t.ts
		if t.ts == 48000 {
			dt = dt / 1024 * 1024
		}
		fr.Moof.Traf.Tfdt.SetBaseMediaDecodeTime(dt)
		var buf bytes.Buffer
		_ = f.Segments[0].Encode(&buf)
		return buf.Bytes()
	}
	ctx1, cancel1 := context.WithCancel(context.Background())
	h1, err := recv.VerifNewRouter(ctx1, dir, 30, 0, cfg, false)
	if err != nil {
		cancel1()
		return
	}
	for _, t := range tracks {
		put(h1, "/upload/ch/"+t.name+"/init"+t.ext, t.init, "secret")
	}
	for k := 0; k < 3; k++ {
		for _, t := range tracks {
			put(h1, fmt.Sprintf("/upload/ch/%s/%d%s", t.name, seq0+uint32(k), t.ext), seg(t, k), "secret")
		}
	}
	time.Sleep(50 * time.Millisecond)
	cancel1()
	ctx2, cancel2 := context.WithCancel(context.Background())
	defer cancel2()
	h2, err := recv.VerifNewRouter(ctx2, dir, 30, 0, cfg, false)
	if err != nil {
		return
	}
	count("receiver-restart-runs")
	twin := r.Intn(4) != 0 || os.Getenv("VERIF_TWIN") != ""
	if twin {
		count("receiver-restart-runs.twin-sources")
	}
	defer func() {
		// every track is in the channel's MPD once
		waitFor(2*time.Second, func() bool { _, err := os.Stat(filepath.Join(dir, "ch", "manifest.mpd")); return err == nil })
		if mb, err := os.ReadFile(filepath.Join(dir, "ch", "manifest.mpd")); err == nil {
			if os.Getenv("VERIF_TWIN") == "dump" {
				fmt.Fprintf(os.Stderr, "%s\n", mb)
			}
			if m, err := parseMPD(mb); err == nil && len(m.Periods) > 0 {
				seen := map[string]int{}
				for i := range m.Periods[0].Sets {
					for _, rp := range m.Periods[0].Sets[i].Representations {
						seen[rp.ID]++
					}
				}
				for id, n := range seen {
					if n != 1 {
						viol("restart-registration", fmt.Sprintf("after the restart the channel's MPD has %d Representations with id %s", n, id), []string{tag}, nil)
					}
				}
			}
		}
	}()
	for k := 3; k < 6; k++ {
		for _, t := range tracks {
			path := fmt.Sprintf("/upload/ch/%s/%d%s", t.name, seq0+uint32(k), t.ext)
			if k == 3 {
				if code := put(h2, path, seg(t, k), "wrong"); code != 401 {
					viol("restart-auth", fmt.Sprintf("PUT %s with wrong credentials answered %d", path, code), []string{tag}, nil)
					return
				}
			}
			if k == 3 && twin {
				// two redundant sources send the track's first segment after the restart at the same moment: the track is
				// registered (from its stored init segment) once
				var wg sync.WaitGroup
				codes := make([]int, 4)
				body := seg(t, k)
				gate := make(chan struct{})
				for i := range codes {
					wg.Add(1)
					go func(i int) { defer wg.Done(); <-gate; codes[i] = put(h2, path, body, "secret") }(i)
				}
				close(gate)
				wg.Wait()
				anyOK := false
				for _, cd := range codes {
					anyOK = anyOK || cd == 200
				}
				if !anyOK {
					viol("restart-upload", fmt.Sprintf("PUT %s sent by several sources at the same moment with the right credentials answered %v", path, codes), []string{tag}, nil)
					return
				}
			} else if code := put(h2, path, seg(t, k), "secret"); code != 200 {
				viol("restart-upload", fmt.Sprintf("PUT %s with the right credentials answered %d after a refused request for the same track", path, code), []string{tag}, nil)
				return
			}
			if _, err := os.Stat(filepath.Join(dir, "ch", t.name, fmt.Sprintf("%d%s", seq0+uint32(k), t.ext))); err != nil {
				viol("restart-upload", fmt.Sprintf("PUT %s was answered 200 but the segment is not stored", path), []string{tag}, nil)
				return
			}
		}
	}
}

func c17StorageRun(r *Rng, it int, vInit, aInit []byte, viol func(kind, what string, ops []string, _ any), count func(string), setTag func(string)) {
	if it%6 == 5 {
		c17Restart(r, vInit, aInit, viol, count, setTag)
		return
	}
	if it%6 == 4 {
		c17Bundled(r, viol, count, setTag)
		return
	}
	if it%6 == 3 {
		// an upload in flight when a renumbered channel (old and new numbers overlapping) starts; then further rounds,
		// the MPD compared with the stored files after each
		tag := "# receiver run: upload opened before the start of a renumbered channel, body delivered after it"
		setTag(tag)
		count("receiver-slow-body-runs")
		for rep := 0; rep < 4; rep++ {
			d, err := os.MkdirTemp(workDir(), "c17slow")
			if err != nil {
				break
			}
			what := c19SlowBody(r, d, true)
			os.RemoveAll(d)
			if what != "" {
				viol("slow-upload", what, []string{tag}, nil)
				break
			}
		}
		return
	}
	shifted := it%2 == 1
	tsbd := uint64(r.Pick(4, 6, 10, 5, 7)) // also depths that are not a multiple of the 2 s segments
	nSegs := r.Range(8, 16)
	seq0 := uint32(r.Pick(1, 5, 95, 101, 995, 5000))
	if it < 6 && !shifted {
		// the first unshifted runs always cross a power of ten (file names of different lengths in one directory)
		seq0, nSegs = uint32(5+90*(it/2%2)), 14
	}
	off := uint64(0)
	inSeq0 := seq0
	if shifted {
		off = uint64(r.Pick(9000, 45000, 90000)) // decode times 0.1 .. 1 s after a segment boundary (90 kHz)
		// (also incoming numbers next to the numbers the times imply: the old and the new numbering overlap)
		inSeq0 = uint32(r.Pick(8090, 300, 77, int(seq0)+1, int(seq0)+2, int(seq0)+3, int(seq0)+7))
	}
	type trk struct {
		name, ext string
		init      []byte
		src       string
		ts        uint64
	}
	tracks := []trk{{"v0", ".cmfv", vInit, "testpic_2s/V300/%d.m4s", 90000}, {"a0", ".cmfa", aInit, "testpic_2s/A48/%d.m4s", 48000}}
	if r.Intn(2) == 0 {
		tracks = append(tracks, trk{"v1", ".cmfv", vInit, "testpic_2s/V300/%d.m4s", 90000})
	}
	dir, err := os.MkdirTemp(workDir(), "c17store")
	if err != nil {
		return
	}
	ctx, cancel := context.WithCancel(context.Background())
	h, err := recv.VerifNewRouter(ctx, dir, tsbd, 0, nil, false)
	if err != nil {
		cancel()
		os.RemoveAll(dir)
		return
	}
	tag := fmt.Sprintf("# receiver run: %d tracks, %d segments from %d, tsbd=%d s, shifted=%v (offset %d ticks, incoming numbers from %d)", len(tracks), nSegs, seq0, tsbd, shifted, off, inSeq0)
	bad := false
	put := func(path string, body []byte) {
		code, p := c19Put(h, c19Upload{path, body})
		if p != "" || code >= 500 {
			viol("receiver-upload", fmt.Sprintf("PUT %s: %d %s", path, code, p), []string{tag, "# PUT " + path}, nil)
			bad = true
		}
	}
	for _, t := range tracks {
		put("/upload/ch/"+t.name+"/init"+t.ext, t.init)
	}
	// a late track: registered (init) from the start, its media only from lateFrom on — after the master has started
	lateTrack, lateFrom := -1, 0
	lateReported := false
	lateStarted := false
	if len(tracks) > 1 && r.Intn(2) == 0 {
		lateTrack, lateFrom = 1+r.Intn(len(tracks)-1), r.Range(2, 5)
		tag += fmt.Sprintf(" late track %s from segment %d", tracks[lateTrack].name, lateFrom)
		count("receiver-storage-runs.late-track")
	}
	// an outage: one round that no track delivers (the numbers go on afterwards)
	gapAt := -1
	if r.Intn(3) == 0 {
		gapAt = r.Range(3, 6)
		tag += fmt.Sprintf(" no segment %d", gapAt)
		count("receiver-storage-runs.gap")
	}
	setTag(tag)
	for k := 0; k < nSegs && !bad; k++ {
		if k == gapAt {
			continue
		}
		// at every moment the published MPD lists stored files only: checked after every single upload (an upload deletes the
		// file that leaves the window before the next MPD is written) unless the MPD on disk is more than one round behind
		checkListed := func(moment string) {
			if bad || k < 3 {
				return
			}
			lateName, lateFirst := "", 0
			if lateTrack >= 0 {
				lateName, lateFirst = tracks[lateTrack].name, int(seq0)+lateFrom+1
			}
			lf := lateFirst
			if !lateStarted {
				lf = 1 << 40
			}
			what, rep, nr := c17ListedStored(dir, int(seq0)+k-2, shifted, lateName, lf)
			switch {
			case what == "":
			case rep == lateName && lateName != "" && (nr < lateFirst || !lateStarted):
				if !lateReported {
					viol("listed-late-track", fmt.Sprintf("%s: %s (the track registered with its init segment and sent its first media segment later)", moment, what), []string{tag}, nil)
					lateReported = true
				}
			default:
				viol("listed-not-stored", fmt.Sprintf("%s: %s", moment, what), []string{tag}, nil)
				bad = true
			}
			count("receiver-mpd-checked")
		}
		for ti, t := range tracks {
			if ti == lateTrack && k < lateFrom {
				continue
			}
			b, err := readAsset(fmt.Sprintf(t.src, k%4+1))
			if err != nil {
				continue
			}
			f, err := mp4.DecodeFile(bytes.NewReader(b))
			if err != nil {
				continue
			}
			fr := f.Segments[0].Fragments[0]
			fr.Moof.Mfhd.SequenceNumber = inSeq0 + uint32(k)
			dt := (uint64(seq0)+uint64(k))*2*t.ts + off*t.ts/90000
			if t.ts == 48000 {
				dt = dt / 1024 * 1024
			}
			fr.Moof.Traf.Tfdt.SetBaseMediaDecodeTime(dt)
			var buf bytes.Buffer
			_ = f.Segments[0].Encode(&buf)
			put(fmt.Sprintf("/upload/ch/%s/%d%s", t.name, inSeq0+uint32(k), t.ext), buf.Bytes())
			if ti == lateTrack {
				lateStarted = true
			}
			time.Sleep(3 * time.Millisecond)
			checkListed(fmt.Sprintf("after the upload of %s/%d", t.name, inSeq0+uint32(k)))
		}
		time.Sleep(15 * time.Millisecond)
		checkListed(fmt.Sprintf("after round %d", k))
	}
	time.Sleep(80 * time.Millisecond) // the channel goroutine writes the MPD
	if gapAt < 0 {
		// (on a loaded machine it may take longer: wait until the MPD has caught up with the last round, at most 3 s)
		waitFor(3*time.Second, func() bool {
			mb, err := os.ReadFile(filepath.Join(dir, "ch", "manifest_timeline_nr.mpd"))
			if err != nil {
				return false
			}
			m, err := parseMPD(mb)
			if err != nil || len(m.Periods) != 1 {
				return false
			}
			for i := range m.Periods[0].Sets {
				st := m.Periods[0].Sets[i].SegmentTemplate
				if st == nil || st.StartNumber == nil || int(*st.StartNumber)+len(expandTL(st))-1 < int(seq0)+nSegs-1 {
					return false
				}
			}
			return true
		})
	}
	count("receiver-storage-runs")
	if shifted {
		count("receiver-storage-runs.shifted")
	}
	if !bad {
		maxBuf := int(tsbd*90000/180000) + 2 // maxNrBufSegs = tsbd * timescale / segment duration + 2
		stored := map[string]map[int]bool{}
		for _, t := range tracks {
			stored[t.name] = map[int]bool{}
			ents, _ := os.ReadDir(filepath.Join(dir, "ch", t.name))
			for _, e := range ents {
				if m := regexp.MustCompile(`^(\d+)\.cmf[avt]$`).FindStringSubmatch(e.Name()); m != nil {
					n, _ := strconv.Atoi(m[1])
					stored[t.name][n] = true
				}
			}
			// numbers in the range of the incoming numbering of a shifted channel: stored before the shift was known
			var leftover, window []int
			for n := range stored[t.name] {
				// (when the incoming numbers overlap the numbers the times imply, a stored number says nothing about the
				// numbering it was stored under: everything counts as window then)
				overlap := int(inSeq0) < int(seq0)+nSegs+2 && int(inSeq0)+nSegs > int(seq0)
				if shifted && !overlap && n >= int(inSeq0) && n < int(inSeq0)+nSegs {
					leftover = append(leftover, n)
				} else {
					window = append(window, n)
				}
			}
			sort.Ints(leftover)
			sort.Ints(window)
			if len(window) > 0 && window[0]+maxBuf <= window[len(window)-1] {
				viol("storage-outside-window", fmt.Sprintf("track %s still stores number %d, more than the window of %d numbers behind the newest stored number %d (stored: %v)", t.name, window[0], maxBuf, window[len(window)-1], window), []string{tag}, nil)
				break
			}
			if len(window)+len(leftover) > maxBuf {
				viol("storage-window", fmt.Sprintf("track %s keeps %d media segments %v %v, the window implied by timeShiftBufferDepth=%d s is %d", t.name, len(window)+len(leftover), leftover, window, tsbd, maxBuf), []string{tag}, nil)
				break
			}
			// a file stored under its incoming number has to leave at the pace of the others: once maxBuf later uploads arrived
			if len(leftover) > 0 && leftover[0] <= int(inSeq0)+nSegs-1-maxBuf {
				viol("storage-unshifted-leftover", fmt.Sprintf("track %s still stores %v, uploaded before the channel turned out to be shifted: listed by no MPD and never deleted (window %v)", t.name, leftover, window), []string{tag}, nil)
				break
			}
			if len(stored[t.name]) == 0 {
				viol("storage-empty", "track "+t.name+" has no stored segment after the run", []string{tag}, nil)
			}
		}
		if what := c17MpdMatchesStored(filepath.Join(dir, "ch")); what != "" && !strings.Contains(what, "not stored") {
			viol("listed-times-stored", "after the run: "+what, []string{tag}, nil)
		}
		if mb, err := os.ReadFile(filepath.Join(dir, "ch", "manifest_timeline_nr.mpd")); err == nil {
			if m, err := parseMPD(mb); err == nil && len(m.Periods) == 1 {
				for i := range m.Periods[0].Sets {
					as := &m.Periods[0].Sets[i]
					if as.SegmentTemplate == nil || as.SegmentTemplate.StartNumber == nil {
						continue
					}
					sn := int(*as.SegmentTemplate.StartNumber)
					cnt := len(expandTL(as.SegmentTemplate))
					// the MPD keeps up: without an outage every track has delivered every round, so the last round is listed (a
					// renumbered channel counts from the shifted time: the same number or one more) and the window is filled
					if gapAt < 0 {
						wantCnt := int(tsbd)/2 + 1
						if nSegs-3 < wantCnt {
							wantCnt = nSegs - 3
						}
						if last := sn + cnt - 1; last < int(seq0)+nSegs-1 || (lateTrack < 0 && cnt < wantCnt) {
							viol("mpd-stale", fmt.Sprintf("after the run the timeline MPD lists %d..%d for %s, every track has delivered up to %d and the window holds %d segments", sn, last, as.Representations[0].ID, int(seq0)+nSegs-1, wantCnt), []string{tag}, nil)
							break
						}
					}
					for _, rp := range as.Representations {
						for n := sn; n < sn+cnt; n++ {
							if st, ok := stored[rp.ID]; ok && !st[n] {
								viol("listed-not-stored", fmt.Sprintf("the timeline MPD lists number %d for %s but no such file is stored (stored: %d files)", n, rp.ID, len(st)), []string{tag}, nil)
								n = sn + cnt
							}
						}
					}
					count("receiver-mpd-sets-checked")
				}
			}
		}
	}
	cancel()
	os.RemoveAll(dir)
}

func maxInt(a, b int) int {
	if a > b {
		return a
	}
	return b
}

var ctrDumpRe = regexp.MustCompile(`nr=(\d+) w=(\d+) len=(\d+) \[([^\]]*)\]`)
var pairRe = regexp.MustCompile(`\((\d+),(\d+)\)`)

// c17CtrMonitor: after every op the live counters are strictly increasing, at most windowSize of them,
// and every count is at most the number of add(seqNr) calls made so far for that number.
func c17CtrMonitor(c *Ctx, line, out string) {
	f := strings.Fields(line)
	ops := strings.Split(f[2], ",")
	outs := strings.Split(out, ";")
	adds := map[int]int{}
	for i, o := range outs {
		if i >= len(ops) {
			break
		}
		if ops[i][0] == 'a' {
			v, _ := strconv.Atoi(ops[i][1:])
			adds[v]++
		}
		m := ctrDumpRe.FindStringSubmatch(o)
		if m == nil {
			continue
		}
		nr, _ := strconv.Atoi(m[1])
		w, _ := strconv.Atoi(m[2])
		ln, _ := strconv.Atoi(m[3])
		if nr > w || ln != w {
			c.Violate("ctr-bounds", fmt.Sprintf("after op %d (%s): nr=%d w=%d len=%d", i, ops[i], nr, w, ln), []string{line}, o)
			return
		}
		prev := -1
		for _, p := range pairRe.FindAllStringSubmatch(m[4], -1) {
			s, _ := strconv.Atoi(p[1])
			cnt, _ := strconv.Atoi(p[2])
			if s <= prev {
				c.Violate("ctr-order", fmt.Sprintf("after op %d (%s): counters not strictly increasing", i, ops[i]), []string{line}, o)
				return
			}
			if cnt > adds[s] || cnt == 0 {
				c.Violate("ctr-count", fmt.Sprintf("after op %d (%s): counter of %d is %d but it was added %d times", i, ops[i], s, cnt, adds[s]), []string{line}, o)
				return
			}
			prev = s
		}
	}
}

// c17GenCase builds one channel history: tracks uploading rounds of segments in some interleaving, with the
// channel's start-up (two consecutive equal-duration master segments, then start(window)) done as the channel does.
func c17GenCase(r *Rng) (string, bool) {
	nAS := r.Range(1, 3)
	var ass [][]string
	var tracks []string
	for a := 0; a < nAS; a++ {
		k := r.Range(1, 2)
		var reps []string
		for j := 0; j < k; j++ {
			name := fmt.Sprintf("%c%d", 'p'+a, j)
			reps = append(reps, name)
			tracks = append(tracks, name)
		}
		ass = append(ass, reps)
	}
	master := tracks[0]
	base := r.Pick(1, 1, 5, 100, 1000)
	dur := r.Pick(2, 10, 96)
	rounds := r.Range(3, 14)
	window := r.Range(2, 9) // maxNrBufSegs-1 after start
	late := -1              // index of a track that joins late
	if len(tracks) > 1 && r.Intn(4) == 0 {
		late = 1 + r.Intn(len(tracks)-1)
	}
	lateFrom := r.Range(2, rounds)
	jumpAt := -1
	if r.Intn(8) == 0 {
		jumpAt = r.Range(3, rounds)
	}
	jump := r.Range(2, 14)
	type ev struct {
		tr  string
		n   int
		dts int
		d   int
	}
	var evs []ev
	off := 0
	for rd := 0; rd < rounds; rd++ {
		if rd == jumpAt {
			off += jump // all tracks jump ahead together (encoder restart / outage)
		}
		n := base + rd + off
		// timestamps do not always continue exactly: an occasional rewound (overlap) or advanced (gap) decode time
		shift := 0
		if rd > 0 && r.Intn(8) == 0 {
			shift = r.Pick(-3, -1, 2, 5)
		}
		var round []ev
		for ti, t := range tracks {
			if ti == late && rd < lateFrom {
				continue
			}
			if r.Intn(12) == 0 && rd > 2 && t != master {
				continue // missing segment
			}
			d := dur
			if r.Intn(15) == 0 {
				d = dur - 1 // a different duration
			}
			dts := n*dur + shift
			if rd > 0 && r.Intn(25) == 0 {
				dts += r.Pick(-2, -1, 1) // this track alone
			}
			round = append(round, ev{t, n, dts, d})
			if r.Intn(20) == 0 {
				round = append(round, ev{t, n, dts, d}) // duplicate upload
			}
		}
		// shuffle the round
		for i := len(round) - 1; i > 0; i-- {
			j := r.Intn(i + 1)
			round[i], round[j] = round[j], round[i]
		}
		evs = append(evs, round...)
	}
	// let some tracks lag: move an event 1..k positions later (bounded reordering across rounds)
	for k := 0; k < len(evs)/4; k++ {
		i := r.Intn(len(evs))
		j := i + r.Range(1, 2*len(tracks))
		if j >= len(evs) {
			j = len(evs) - 1
		}
		if r.Intn(2) == 0 {
			e := evs[i]
			copy(evs[i:j], evs[i+1:j+1])
			evs[j] = e
		}
	}
	var ops []string
	started := false
	var masterSeen []ev
	for _, e := range evs {
		ops = append(ops, fmt.Sprintf("a%s:%d:%d:%d:0", e.tr, e.n, e.dts, e.d))
		if !started && e.tr == master {
			// the channel's start-up detection on the master buffer
			if len(masterSeen) == 0 || e.n > masterSeen[len(masterSeen)-1].n {
				masterSeen = append(masterSeen, e)
			}
			if len(masterSeen) >= 2 {
				a, b := masterSeen[0], masterSeen[1]
				if b.n != a.n+1 || b.d != a.d {
					ops = append(ops, fmt.Sprintf("d%d", a.n))
					masterSeen = masterSeen[1:]
				} else {
					ops = append(ops, fmt.Sprintf("s%d:0", window))
					started = true
				}
			}
		}
	}
	var asStr []string
	for _, a := range ass {
		asStr = append(asStr, strings.Join(a, "+"))
	}
	return fmt.Sprintf("gen 8 %s %s", strings.Join(asStr, "|"), strings.Join(ops, ",")), true
}

var mpdOutRe = regexp.MustCompile(`mpd=(\d+)\.\.(\d+) (\S+)`)
var addOpRe = regexp.MustCompile(`^a([^:]+):(\d+):(\d+):(\d+):`)

// c17GenMonitor evaluates the property on what the implementation wrote: listed range contiguous and complete
// for every track, times/durations equal to the uploaded segments', latest never decreasing, no panic.
func c17GenMonitor(c *Ctx, line, out string) {
	f := strings.Fields(line)
	ass := parseAss(f[2])
	ops := strings.Split(f[3], ",")
	outs := strings.Split(out, ";")
	type seg struct{ dts, dur int }
	uploaded := map[string]map[int]seg{}
	latest := 0
	for i, o := range outs {
		if i >= len(ops) {
			break
		}
		if o == "PANIC" {
			c.Violate("gen-panic", fmt.Sprintf("op %d (%s) panics in the channel goroutine's code path", i, ops[i]), []string{line}, nil)
			return
		}
		if m := addOpRe.FindStringSubmatch(ops[i]); m != nil {
			n, _ := strconv.Atoi(m[2])
			dts, _ := strconv.Atoi(m[3])
			dur, _ := strconv.Atoi(m[4])
			if uploaded[m[1]] == nil {
				uploaded[m[1]] = map[int]seg{}
			}
			if _, dup := uploaded[m[1]][n]; !dup {
				uploaded[m[1]][n] = seg{dts, dur}
			}
		}
		m := mpdOutRe.FindStringSubmatch(o)
		if m == nil {
			continue
		}
		first, _ := strconv.Atoi(m[1])
		last, _ := strconv.Atoi(m[2])
		if last < latest {
			c.Violate("latest-decreases", fmt.Sprintf("op %d: newest listed number went from %d to %d", i, latest, last), []string{line}, o)
			return
		}
		latest = last
		perAS := strings.Split(m[3], "|")
		for ai, txt := range perAS {
			hm := regexp.MustCompile(`^sn=(\d+)@([^:]*):`).FindStringSubmatch(txt)
			if hm == nil {
				c.Violate("listed-range", fmt.Sprintf("op %d: AdaptationSet %d of the written MPD has no start number / representations", i, ai), []string{line}, o)
				return
			}
			reps := strings.Split(hm[2], "+")
			tds := pairRe.FindAllStringSubmatch(txt, -1)
			if len(tds) != last-first+1 || hm[1] != strconv.Itoa(first) {
				c.Violate("listed-range", fmt.Sprintf("op %d: AdaptationSet %d lists %d entries from its startNumber %s, range is %d..%d", i, ai, len(tds), hm[1], first, last), []string{line}, o)
				return
			}
			for k, td := range tds {
				n := first + k
				t, _ := strconv.Atoi(td[1])
				d, _ := strconv.Atoi(td[2])
				// every Representation the MPD writes for this AdaptationSet has the listed number
				for ri, rep := range reps {
					s, ok := uploaded[rep][n]
					if !ok {
						c.Violate("listed-incomplete", fmt.Sprintf("op %d: MPD lists number %d for representation %s, which has no uploaded segment %d", i, n, rep, n), []string{line}, o)
						return
					}
					if ri == 0 && (s.dts != t || s.dur != d) {
						c.Violate("listed-times", fmt.Sprintf("op %d: number %d listed as (t=%d,d=%d), stored segment of %s has (%d,%d)", i, n, t, d, rep, s.dts, s.dur), []string{line}, o)
						return
					}
				}
			}
		}
		_ = ass
	}
	_ = sort.Ints
}

// c17ListedStored reads the timeline MPD on disk and the track directories: every listed number of every representation
// must be a stored file.  minLast: skip when the MPD is older than that (the writer is asynchronous).
func c17ListedStored(dir string, minLast int, shifted bool, lateName string, lateFirst int) (what, rep string, nr int) {
	mb, err := os.ReadFile(filepath.Join(dir, "ch", "manifest_timeline_nr.mpd"))
	if err != nil {
		return "", "", 0
	}
	m, err := parseMPD(mb)
	if err != nil || len(m.Periods) != 1 {
		return "", "", 0
	}
	lateWhat, lateNr := "", 0
	for i := range m.Periods[0].Sets {
		as := &m.Periods[0].Sets[i]
		if as.SegmentTemplate == nil || as.SegmentTemplate.StartNumber == nil {
			continue
		}
		sn := int(*as.SegmentTemplate.StartNumber)
		cnt := len(expandTL(as.SegmentTemplate))
		if !shifted && sn+cnt-1 < minLast {
			return "", "", 0
		}
		for _, rp := range as.Representations {
			ents, err := os.ReadDir(filepath.Join(dir, "ch", rp.ID))
			if err != nil {
				continue
			}
			have := map[int]bool{}
			for _, e := range ents {
				if mm := regexp.MustCompile(`^(\d+)\.cmf[avt]$`).FindStringSubmatch(e.Name()); mm != nil {
					n, _ := strconv.Atoi(mm[1])
					have[n] = true
				}
			}
			for n := sn; n < sn+cnt; n++ {
				if !have[n] {
					w := fmt.Sprintf("the timeline MPD lists %d..%d for %s but %d is not stored", sn, sn+cnt-1, rp.ID, n)
					if rp.ID == lateName && n < lateFirst {
						if lateWhat == "" {
							lateWhat, lateNr = w, n
						}
						continue
					}
					return w, rp.ID, n
				}
			}
		}
	}
	if lateWhat != "" {
		return lateWhat, lateName, lateNr
	}
	return "", "", 0
}
