package main

// C09: low-latency chunked delivery — op `chunk <chunkDur> <newTime> <d,d,...>` (verif export of chunkSegment) and
// handler-level monitors: same media as the whole segment, styp first, never early (real pacing, short segments).

import (
	"bytes"
	"context"
	"fmt"
	"net/http"
	"net/http/httptest"
	"strconv"
	"strings"
	"sync"
	"time"

	"github.com/Dash-Industry-Forum/livesim2/cmd/livesim2/app"
	"github.com/Eyevinn/mp4ff/bits"
	"github.com/Eyevinn/mp4ff/mp4"
)

func init() {
	opExec["chunk"] = execChunk
	generators["C09"] = genC09
}

func execChunk(a []string) string {
	if len(a) != 3 {
		return "bad-op"
	}
	cd, e1 := strconv.Atoi(a[0])
	t0, e2 := strconv.ParseUint(a[1], 10, 64)
	if e1 != nil || e2 != nil {
		return "bad-op"
	}
	var durs []uint32
	for _, d := range parseIntList(a[2]) {
		durs = append(durs, uint32(d))
	}
	s := getServer()
	chunks, err := s.VerifChunkSegment("testpic_2s", "V300", durs, cd, t0, 7)
	if err != nil {
		return "err"
	}
	parts := make([]string, len(chunks))
	for i, c := range chunks {
		parts[i] = fmt.Sprintf("(%d,%d,%d,%d)", c.NrSamples, c.FirstDecode, c.Dur, b2i(c.HasStyp))
	}
	return "[" + strings.Join(parts, ",") + "]"
}

type sampleRec struct {
	t     uint64
	dur   uint32
	flags uint32
	data  []byte
}

func samplesOf(body []byte, trex *mp4.TrexBox) ([]sampleRec, bool, []uint32, error) {
	f, err := mp4.DecodeFileSR(bits.NewFixedSliceReader(body))
	if err != nil {
		return nil, false, nil, err
	}
	var out []sampleRec
	var seqs []uint32
	stypFirst := len(f.Segments) > 0 && f.Segments[0].Styp != nil
	for _, seg := range f.Segments {
		for _, fr := range seg.Fragments {
			seqs = append(seqs, fr.Moof.Mfhd.SequenceNumber)
			fss, err := fr.GetFullSamples(trex)
			if err != nil {
				return nil, false, nil, err
			}
			for _, s := range fss {
				out = append(out, sampleRec{s.DecodeTime, s.Dur, s.Flags, append([]byte(nil), s.Data...)})
			}
		}
	}
	return out, stypFirst, seqs, nil
}

// chunkSpans: media time covered by every chunk (moof) of a response, and the longest sample.
func chunkSpans(body []byte, trex *mp4.TrexBox) ([]uint64, uint32, error) {
	f, err := mp4.DecodeFileSR(bits.NewFixedSliceReader(body))
	if err != nil {
		return nil, 0, err
	}
	var spans []uint64
	var maxSamp uint32
	for _, seg := range f.Segments {
		for _, fr := range seg.Fragments {
			fss, err := fr.GetFullSamples(trex)
			if err != nil {
				return nil, 0, err
			}
			var sp uint64
			for _, s := range fss {
				sp += uint64(s.Dur)
				if s.Dur > maxSamp {
					maxSamp = s.Dur
				}
			}
			spans = append(spans, sp)
		}
	}
	return spans, maxSamp, nil
}

// timedRecorder timestamps every Flush.
type timedRecorder struct {
	*httptest.ResponseRecorder
	mu      sync.Mutex
	start   time.Time
	flushes []struct {
		at  time.Duration
		len int
	}
}

func (t *timedRecorder) Flush() {
	t.mu.Lock()
	t.flushes = append(t.flushes, struct {
		at  time.Duration
		len int
	}{time.Since(t.start), t.Body.Len()})
	t.mu.Unlock()
}

func genC09(c *Ctx) {
	c.emitAssetDefs()
	r := c.Rng
	// ---- pure splitting ----
	for i := 0; i < c.N(3000, 60000); i++ {
		n := r.Range(1, 70)
		base := r.Pick(1024, 3600, 1001, 512, 1, 100)
		var ds []string
		tot := 0
		for k := 0; k < n; k++ {
			d := base
			if r.Intn(10) == 0 {
				d = base * r.Range(1, 4) // variable sample durations
			}
			ds = append(ds, strconv.Itoa(d))
			tot += d
		}
		cd := r.Pick(base, base*2, base*3-1, base*5/2, tot/4+1, tot/16+1, tot-base, tot, tot+5, 1)
		if cd <= 0 {
			cd = 1
		}
		line := fmt.Sprintf("chunk %d %d %s", cd, r.Pick(0, 900000, 161100000900000), strings.Join(ds, ","))
		out := c.Emit(line, n > 2)
		if strings.HasPrefix(out, "PANIC") || out == "err" {
			c.Violate("chunk-panic", "chunkSegment fails: "+out, []string{line}, nil)
			continue
		}
		// monitor: partition, contiguous decode times, styp only first, span bound
		cs := cueOutRe4(out)
		cnt, maxD := 0, 0
		for _, d := range ds {
			v, _ := strconv.Atoi(d)
			if v > maxD {
				maxD = v
			}
		}
		for j, ch := range cs {
			if ch[0] == 0 {
				c.Violate("chunk-empty", fmt.Sprintf("chunk %d is empty", j), []string{line}, out)
			}
			span := 0
			for k := cnt; k < cnt+ch[0] && k < len(ds); k++ {
				v, _ := strconv.Atoi(ds[k])
				span += v
			}
			if span >= cd+maxD {
				c.Violate("chunk-span", fmt.Sprintf("chunk %d spans %d >= chunkDur %d + one sample %d", j, span, cd, maxD), []string{line}, out)
			}
			if (ch[3] == 1) != (j == 0) {
				c.Violate("chunk-styp", "styp not exactly on the first chunk", []string{line}, out)
			}
			cnt += ch[0]
		}
		if cnt != n {
			c.Violate("chunk-partition", fmt.Sprintf("chunks hold %d samples, segment has %d", cnt, n), []string{line}, out)
		}
	}
	c.Emit("chunk 0 0 1024,1024", true)
	// ---- handler level: same media as whole-segment delivery (request after the segment end: no pacing) ----
	for ai := range vAssets {
		a := &vAssets[ai]
		for ri := range a.Reps {
			rep := &a.Reps[ri]
			if rep.ContentType != "video" && rep.ContentType != "audio" {
				continue
			}
			ref := refRepOf(a)
			if ref == nil || rep.PreEncrypted {
				continue
			}
			if rep.ContentType == "video" {
				ref = rep // a video representation is numbered by its own segments (it may have fewer per loop than the reference)
			}
			n := len(ref.Segments)
			for _, k := range []int{0, n - 1, n, 3*n + 1} {
				atoMS := a.SegmentDurMS * r.Pick(1, 2, 3) / 4
				if atoMS%125 != 0 {
					atoMS = atoMS / 125 * 125
				}
				if r.Intn(3) == 0 { // offsets that are not whole seconds, below and above one second
					atoMS = r.Pick(250, 500, 750, 1250, 1500, 2500, a.SegmentDurMS-250)
				}
				if atoMS <= 0 || atoMS >= a.SegmentDurMS {
					continue
				}
				e := expectSeg(a, ref, k, 0)
				av, _ := availMS(e, ref.MediaTimescale, 0, 0)
				now := av + int64(a.SegmentDurMS) + 100 // after the end of the pacing schedule (the tail chunk is paced with chunkDur)
				segID := strconv.Itoa(e.nr)
				whole := doLive("GET", segURL(a, "-", rep.ID, segID, strconv.FormatInt(now, 10)))
				// the chunk duration parameter: below what the offset leaves, between that and the segment duration, above it
				left := a.SegmentDurMS - atoMS
				cd := r.PickS("0.25", "0.25", fmt.Sprintf("%.3f", float64(left)/1000+0.25), fmt.Sprintf("%.3f", float64(left+a.SegmentDurMS)/2000),
					fmt.Sprintf("%.3f", float64(a.SegmentDurMS)/1000-0.1), fmt.Sprintf("%d", a.SegmentDurMS/1000+1), "1000")
				cfg := fmt.Sprintf("ato=%d,chunkdur=%s", atoMS, cd)
				chunked := doLive("GET", segURL(a, cfg, rep.ID, segID, strconv.FormatInt(now, 10)))
				c.Count("ll-compared")
				rp := []string{"# GET " + segURL(a, cfg, rep.ID, segID, strconv.FormatInt(now, 10))}
				if whole.code != 200 || chunked.code != 200 || chunked.panicked != "" {
					c.Violate("ll-not-served", fmt.Sprintf("whole=%d chunked=%d %s", whole.code, chunked.code, chunked.panicked), rp, nil)
					continue
				}
				trex := vodFiles(a, rep).trex
				ws, _, _, e1 := samplesOf(whole.body, trex)
				csamp, stypFirst, seqs, e2 := samplesOf(chunked.body, trex)
				if e1 != nil || e2 != nil {
					c.Violate("ll-unparsable", "chunked response does not parse", rp, nil)
					continue
				}
				if len(ws) != len(csamp) {
					c.Violate("ll-same-media", fmt.Sprintf("chunked body has %d samples, whole segment %d", len(csamp), len(ws)), rp, nil)
					continue
				}
				for i := range ws {
					if ws[i].t != csamp[i].t || ws[i].dur != csamp[i].dur || ws[i].flags != csamp[i].flags || !bytes.Equal(ws[i].data, csamp[i].data) {
						c.Violate("ll-same-media", fmt.Sprintf("sample %d differs (t %d/%d dur %d/%d)", i, ws[i].t, csamp[i].t, ws[i].dur, csamp[i].dur), rp, nil)
						break
					}
				}
				if !stypFirst && bytes.Contains(whole.body[:32], []byte("styp")) {
					c.Violate("ll-styp", "first chunk does not carry the segment type box", rp, nil)
				}
				for _, s := range seqs {
					if int(s) != e.nr {
						c.Violate("ll-seq", "chunk with another sequence number", rp, nil)
						break
					}
				}
				// no chunk spans more than segment duration minus the advertised offset, up to one sample
				if spans, maxSamp, err := chunkSpans(chunked.body, trex); err == nil {
					// (the duration of the segment that was asked for, not the asset's nominal one: on an asset with
					// varying segment durations the advertised offset leaves less of a short segment)
					// (its duration is read from the segment served in whole-segment mode: the sum of its sample durations)
					segTicks := uint64(0)
					for _, x := range ws {
						segTicks += uint64(x.dur)
					}
					atoTicks := uint64(atoMS) * uint64(rep.MediaTimescale) / 1000
					segDurMS := int(segTicks * 1000 / uint64(rep.MediaTimescale))
					limit := uint64(maxSamp) // a segment not longer than the offset is available from its start: one sample per chunk
					if segTicks > atoTicks {
						limit = segTicks - atoTicks + uint64(maxSamp)
					}
					for ci, sp := range spans {
						if sp > limit {
							c.Violate("ll-chunk-span", fmt.Sprintf("chunk %d of %d spans %d ticks, segment duration minus offset (%d ms) plus one sample allows %d", ci, len(spans), sp, segDurMS-atoMS, limit), rp, nil)
							break
						}
					}
					c.Count("ll-chunk-spans-checked")
				}
				// before the advertised availability time: too early
				early := doLive("GET", segURL(a, cfg, rep.ID, segID, strconv.FormatInt(av-int64(atoMS)-2, 10)))
				if av-int64(atoMS)-2 >= 0 && early.code != 425 {
					c.Violate("ll-too-early", fmt.Sprintf("request before the advertised availability time answered %d", early.code), rp, nil)
				}
			}
		}
	}
	c09Drm(c)
	c09Pacing(c)
}

func cueOutRe4(out string) [][4]int {
	var res [][4]int
	for _, m := range chunkOutRe.FindAllStringSubmatch(out, -1) {
		var v [4]int
		for i := 0; i < 4; i++ {
			v[i], _ = strconv.Atoi(m[i+1])
		}
		res = append(res, v)
	}
	return res
}

// c09Pacing: real-time delivery of short segments; every flush must come at or after the end of the media written so far.
func c09Pacing(c *Ctx) {
	s := getServer()
	type job struct {
		asset, rep string
		k, atoMS   int
		delayMS    int // request this long after the advertised availability time
		startS     int // availabilityStartTime (start_ in the URL)
	}
	var jobs []job
	for _, as := range []string{"gen_short", "gen_192", "testpic_2s"} {
		a := findVAsset(as)
		if a == nil {
			continue
		}
		for _, rep := range []string{"V1", "A1", "V300", "A48"} {
			found := false
			for i := range a.Reps {
				if a.Reps[i].ID == rep {
					found = true
				}
			}
			if !found {
				continue
			}
			for i := 0; i < c.N(1, 6); i++ {
				jobs = append(jobs, job{as, rep, 5 + c.Rng.Intn(40), a.SegmentDurMS * c.Rng.Pick(2, 3) / 4 / 125 * 125, c.Rng.Pick(0, 1, 100, 400), 0})
				// the same with a start time: media time zero is at availabilityStartTime for every representation's timescale
				jobs = append(jobs, job{as, rep, 5 + c.Rng.Intn(40), a.SegmentDurMS * c.Rng.Pick(2, 3) / 4 / 125 * 125, c.Rng.Pick(0, 1, 100), c.Rng.Pick(7, 100, 1000)})
			}
			// chunks of about one sample (not a whole number of milliseconds: 21.33 ms AAC frames, 33.3 ms pictures), asked
			// for 300 ms before the segment ends: many release instants, where rounding must not add up
			if a.SegmentDurMS > 400 {
				ato := a.SegmentDurMS - c.Rng.Pick(22, 34, 45)
				jobs = append(jobs, job{as, rep, 5 + c.Rng.Intn(40), ato, ato - 300, 0})
			}
		}
	}
	var wg sync.WaitGroup
	var mu sync.Mutex
	for _, j := range jobs {
		wg.Add(1)
		go func(j job) {
			defer wg.Done()
			a := findVAsset(j.asset)
			ref := refRepOf(a)
			if j.atoMS <= 0 {
				return
			}
			e := expectSeg(a, ref, j.k, 0)
			av, _ := availMS(e, ref.MediaTimescale, j.startS, 0)
			now := av - int64(j.atoMS) + int64(j.delayMS)
			cfg := fmt.Sprintf("ato=%d,chunkdur=0.25", j.atoMS)
			if j.startS != 0 {
				cfg += fmt.Sprintf(",start=%d", j.startS)
			}
			url := segURL(a, cfg, j.rep, strconv.Itoa(e.nr), strconv.FormatInt(now, 10))
			rec := &timedRecorder{ResponseRecorder: httptest.NewRecorder(), start: time.Now()}
			// the whole segment has ended atoMS - delayMS after the request: a response that is still being paced 2 s after
			// that is late (the request is cancelled then)
			ctx, cancel := context.WithTimeout(context.Background(), time.Duration(j.atoMS-j.delayMS+2000)*time.Millisecond)
			req := httptest.NewRequest("GET", url, nil).WithContext(ctx)
			func() {
				defer func() { _ = recover() }()
				s.LiveRouter.ServeHTTP(rec, req)
			}()
			timedOut := ctx.Err() != nil
			cancel()
			mu.Lock()
			defer mu.Unlock()
			c.Count("paced-requests")
			if timedOut {
				c.Violate("ll-late", fmt.Sprintf("the response is still not complete 2 s after the segment has ended (request at the advertised availability time + %d ms)", j.delayMS), []string{"# GET " + url}, nil)
				return
			}
			if rec.Code != 200 {
				c.Violate("ll-paced-status", fmt.Sprintf("request at the advertised availability time + %d ms answered %d", j.delayMS, rec.Code), []string{"# GET " + url}, nil)
				return
			}
			var rp *app.VerifRep
			for i := range a.Reps {
				if a.Reps[i].ID == j.rep {
					rp = &a.Reps[i]
				}
			}
			trex := vodFiles(a, rp).trex
			T := int64(rp.MediaTimescale)
			for fi, fl := range rec.flushes {
				body := rec.Body.Bytes()[:fl.len]
				ss, _, _, err := samplesOf(body, trex)
				if err != nil || len(ss) == 0 {
					continue
				}
				last := ss[len(ss)-1]
				endMS := int64(last.t+uint64(last.dur))*1000/T + int64(j.startS)*1000 // floor, as the server computes it
				simNow := now + fl.at.Milliseconds()
				if simNow+1 < endMS { // 1 ms tolerance for the timestamp taken after the write
					c.Violate("ll-early", fmt.Sprintf("flush %d at simulated %d ms delivers media ending at %d ms (%d ms early)", fi, simNow, endMS, endMS-simNow), []string{"# GET " + url}, nil)
					return
				}
			}
			if len(rec.flushes) > 0 && j.delayMS == 0 && rec.flushes[0].at > 1500*time.Millisecond {
				c.Violate("ll-first-chunk-late", fmt.Sprintf("first chunk written %v after a request at the advertised availability time", rec.flushes[0].at), []string{"# GET " + url}, nil)
			}
		}(j)
	}
	wg.Wait()
	_ = http.StatusOK
}

var chunkOutRe = regexpMust(`\((\d+),(\d+),(\d+),(\d+)\)`)
