package main

// C16: the CMAF-ingest sender emits a complete, ordered and faithful stream.
// Op `sess <asset> <cfg> <nowMS> <dur|-> <events>` runs a real ingest session in step mode against a scripted receiver
// (events: s = step, d = delete) and prints what arrived for the reference representation after each event.
// Monitors check every representation of every session.

import (
	"bytes"
	"encoding/json"
	"fmt"
	"io"
	"net/http"
	"net/http/httptest"
	"os"
	"regexp"
	"sort"
	"strconv"
	"strings"
	"sync"
	"time"

	"github.com/Dash-Industry-Forum/livesim2/cmd/livesim2/app"
	"github.com/Eyevinn/mp4ff/bits"
	"github.com/Eyevinn/mp4ff/mp4"
)

func init() {
	generators["C16"] = genC16
	opExec["sess"] = func(a []string) string {
		out, _ := runSess(a, nil)
		return out
	}
}

type recvReq struct {
	seq     int
	method  string
	path    string
	ctype   string
	ingest  string
	user    string
	pass    string
	hasAuth bool
	chunked bool
	readErr bool // the body ended with an error (the sender gave up in the middle)
	body    []byte
}

type scriptedReceiver struct {
	mu         sync.Mutex
	reqs       []recvReq
	srv        *httptest.Server
	failNth    map[int]int // request sequence number -> status to answer
	early      map[int]int // request sequence number -> status to answer before the body has been read
	delay      time.Duration
	nEarly     int
	earlyPaths []string
	// slowOnce: the first request whose path matches is answered this late (a receiver that stalls once)
	slowOnceRe  *regexp.Regexp
	slowOnceDur time.Duration
	slowDone    bool
}

func newScriptedReceiver() *scriptedReceiver {
	sr := &scriptedReceiver{failNth: map[int]int{}, early: map[int]int{}}
	sr.srv = httptest.NewServer(http.HandlerFunc(func(w http.ResponseWriter, r *http.Request) {
		sr.mu.Lock()
		ec := sr.early[len(sr.reqs)+sr.nEarly]
		if ec != 0 {
			sr.nEarly++
			sr.earlyPaths = append(sr.earlyPaths, r.URL.Path)
		}
		sr.mu.Unlock()
		if ec != 0 {
			w.WriteHeader(ec) // refused before the body has been read
			return
		}
		b, rerr := io.ReadAll(r.Body)
		if sr.delay > 0 {
			time.Sleep(sr.delay)
		}
		sr.mu.Lock()
		stall := sr.slowOnceRe != nil && !sr.slowDone && sr.slowOnceRe.MatchString(r.URL.Path)
		if stall {
			sr.slowDone = true
		}
		sr.mu.Unlock()
		if stall {
			time.Sleep(sr.slowOnceDur)
		}
		u, p, ok := r.BasicAuth()
		sr.mu.Lock()
		seq := len(sr.reqs)
		sr.reqs = append(sr.reqs, recvReq{seq: seq, method: r.Method, path: r.URL.Path, ctype: r.Header.Get("Content-Type"), ingest: r.Header.Get("DASH-IF-Ingest"),
			user: u, pass: p, hasAuth: ok, chunked: len(r.TransferEncoding) > 0 && r.TransferEncoding[0] == "chunked", body: b, readErr: rerr != nil})
		code := sr.failNth[seq]
		sr.mu.Unlock()
		if code != 0 {
			w.WriteHeader(code)
			return
		}
		w.WriteHeader(200)
	}))
	return sr
}

func (sr *scriptedReceiver) snapshot() []recvReq {
	sr.mu.Lock()
	defer sr.mu.Unlock()
	return append([]recvReq(nil), sr.reqs...)
}

func apiCall(s *app.Server, method, path string, body any) (int, map[string]any, bool) {
	var rd io.Reader
	if body != nil {
		b, _ := json.Marshal(body)
		rd = bytes.NewReader(b)
	}
	req := httptest.NewRequest(method, path, rd)
	req.Header.Set("Content-Type", "application/json")
	res := serveGuarded(s.Router, req)
	if res.spin {
		return 0, nil, true
	}
	var m map[string]any
	_ = json.Unmarshal([]byte(res.fullBody), &m)
	return res.code, m, false
}

var sessPathRe = regexp.MustCompile(`/([^/]+)/(\d+|init)(\.cmf[vatm])$`)

// waitFor polls until cond holds or the deadline passes.
func waitFor(d time.Duration, cond func() bool) bool {
	end := time.Now().Add(d)
	for time.Now().Before(end) {
		if cond() {
			return true
		}
		time.Sleep(2 * time.Millisecond)
	}
	return cond()
}

type sessResult struct {
	reqs     []recvReq
	perEvent [][]recvReq // requests that arrived during each event
	initReqs []recvReq
	dest     string
	hung     string
}

// runSess: a = asset, cfg (comma separated URL parts or "-"), nowMS, dur|-, events
func runSess(a []string, tweak func(sr *scriptedReceiver, setup map[string]any)) (string, *sessResult) {
	return runSessWait(a, 1500*time.Millisecond, tweak)
}

// runSessWait: wait is how long the uploads of the init phase and of one step are waited for
func runSessWait(a []string, wait time.Duration, tweak func(sr *scriptedReceiver, setup map[string]any)) (string, *sessResult) {
	if len(a) != 5 {
		return "bad-op", nil
	}
	va := findVAsset(a[0])
	if va == nil || len(va.MPDs) == 0 {
		return "bad-op", nil
	}
	nowMS, err := strconv.Atoi(a[2])
	if err != nil {
		return "bad-op", nil
	}
	s := getServer()
	sr := newScriptedReceiver()
	defer sr.srv.Close()
	cfgPart := ""
	if a[1] != "-" {
		cfgPart = strings.ReplaceAll(strings.ReplaceAll(a[1], ",", "/"), ";", ",") + "/" // ';' stands for a comma inside a value
	}
	mpd := "Manifest.mpd"
	found := false
	for _, m := range va.MPDs {
		if m == mpd {
			found = true
		}
	}
	if !found {
		mpd = va.MPDs[0]
	}
	setup := map[string]any{"destRoot": sr.srv.URL + "/up", "destName": "ch", "livesimURL": "/livesim2/" + cfgPart + va.AssetPath + "/" + mpd, "testNowMS": nowMS}
	if a[3] != "-" {
		d, err := strconv.Atoi(a[3])
		if err != nil {
			return "bad-op", nil
		}
		setup["duration"] = d
	}
	if tweak != nil {
		tweak(sr, setup)
	}
	code, resp, hung := apiCall(s, "POST", "/api/cmaf-ingests", setup)
	if hung {
		return "HANG create", &sessResult{hung: "create"}
	}
	if code >= 300 {
		if os.Getenv("VERIF_LOG") != "" {
			fmt.Fprintf(os.Stderr, "create %d: %v\n", code, resp)
		}
		return fmt.Sprintf("create=%d", code), nil
	}
	id, _ := resp["id"].(string)
	ref := refRepOf(va)
	nReps := 0
	res := &sessResult{dest: "/up/ch"}
	// wait for the init segments (one per representation in the MPD: count settles)
	last := -1
	waitFor(wait, func() bool {
		n := len(sr.snapshot())
		if n > 0 && n == last && (wait <= 1500*time.Millisecond || n >= 2) {
			return true
		}
		last = n
		time.Sleep(30 * time.Millisecond)
		return false
	})
	res.initReqs = sr.snapshot()
	nReps = len(res.initReqs)
	var outs []string
	first := ""
	for _, ev := range a[4] {
		before := len(sr.snapshot())
		switch ev {
		case 's':
			code, _, hung := apiCall(s, "GET", "/api/cmaf-ingests/"+id+"/step", nil)
			if hung {
				res.hung = "step"
				outs = append(outs, "s:HANG")
				res.reqs = sr.snapshot()
				return strings.Join(outs, " "), res
			}
			if code >= 300 {
				outs = append(outs, fmt.Sprintf("s:%d", code))
				res.perEvent = append(res.perEvent, nil)
				continue
			}
			// one segment per representation is expected: wait for them (or for the stream to settle)
			waitFor(wait, func() bool { return len(sr.snapshot()) >= before+nReps })
			time.Sleep(5 * time.Millisecond)
		case 'd':
			code, _, hung := apiCall(s, "DELETE", "/api/cmaf-ingests/"+id, nil)
			if hung {
				res.hung = "delete"
				outs = append(outs, "d:HANG")
				res.reqs = sr.snapshot()
				return strings.Join(outs, " "), res
			}
			outs = append(outs, fmt.Sprintf("d:%d", code))
			time.Sleep(10 * time.Millisecond)
			res.perEvent = append(res.perEvent, nil)
			continue
		default:
			return "bad-op", nil
		}
		all := sr.snapshot()
		got := all[before:]
		res.perEvent = append(res.perEvent, got)
		// what arrived for the reference representation
		var nrs []string
		for _, q := range got {
			m := sessPathRe.FindStringSubmatch(q.path)
			if m == nil || ref == nil || m[1] != ref.ID {
				continue
			}
			mark := ""
			// the marker may also come from the VoD source (a source segment that carries the lmsg brand keeps it in every
			// loop): only a marker the session added is printed
			if isLmsg(q.body) && a[3] != "-" && !vodSegHasLmsg(s, va, ref, q.body) {
				mark = "L"
			}
			nrs = append(nrs, m[2]+mark)
			if first == "" {
				first = m[2]
			}
		}
		outs = append(outs, "s:["+strings.Join(nrs, ",")+"]")
	}
	// stop the session so that it does not linger
	apiCall(s, "DELETE", "/api/cmaf-ingests/"+id, nil)
	res.reqs = sr.snapshot()
	return strings.Join(outs, " "), res
}

var vodLmsgCache = map[string]bool{}

// vodSegHasLmsg: does the VoD segment this upload was made from carry the lmsg brand itself?  The source index follows
// from the decode time (tfdt mod loop duration); the source segment is fetched from livesim2 in its first loop.
func vodSegHasLmsg(s *app.Server, va *app.VerifAsset, ref *app.VerifRep, body []byte) bool {
	if ref == nil || len(ref.Segments) == 0 {
		return false
	}
	f, err := mp4.DecodeFileSR(bits.NewFixedSliceReader(body))
	if err != nil || len(f.Segments) == 0 || len(f.Segments[0].Fragments) == 0 {
		return false
	}
	tfdt := f.Segments[0].Fragments[0].Moof.Traf.Tfdt.BaseMediaDecodeTime()
	n := len(ref.Segments)
	loop := ref.Segments[n-1].EndTime - ref.Segments[0].StartTime
	if loop == 0 {
		return false
	}
	rel := tfdt%loop + ref.Segments[0].StartTime
	idx := -1
	for i, sg := range ref.Segments {
		if sg.StartTime == rel {
			idx = i
		}
	}
	if idx < 0 {
		return false
	}
	return vodIdxHasLmsg(s, va, ref, idx)
}

func vodIdxHasLmsg(s *app.Server, va *app.VerifAsset, ref *app.VerifRep, idx int) bool {
	key := va.AssetPath + "|" + ref.ID + "|" + strconv.Itoa(idx)
	if v, ok := vodLmsgCache[key]; ok {
		return v
	}
	e := expectSeg(va, ref, idx, 0)
	av, _ := availMS(e, ref.MediaTimescale, 0, 0)
	id := strconv.Itoa(e.nr)
	media := strings.NewReplacer("$Number$", id, "$Time$", id).Replace(ref.MediaURI)
	gr := serveGuarded(s.LiveRouter, httptest.NewRequest("GET", fmt.Sprintf("/livesim2/%s/%s?nowMS=%d", va.AssetPath, media, av+1), nil))
	v := gr.code == 200 && isLmsg([]byte(gr.fullBody))
	vodLmsgCache[key] = v
	return v
}

func assetHasSourceLmsg(s *app.Server, va *app.VerifAsset) bool {
	ref := refRepOf(va)
	if ref == nil {
		return false
	}
	for i := range ref.Segments {
		if vodIdxHasLmsg(s, va, ref, i) {
			return true
		}
	}
	return false
}

func isLmsg(seg []byte) bool {
	f, err := mp4.DecodeFileSR(bits.NewFixedSliceReader(seg))
	if err != nil || len(f.Segments) == 0 || f.Segments[0].Styp == nil {
		return false
	}
	for _, b := range f.Segments[0].Styp.CompatibleBrands() {
		if b == "lmsg" {
			return true
		}
	}
	return false
}

func genC16(c *Ctx) {
	c.emitAssetDefs()
	r := c.Rng
	s := getServer()
	var assets []*app.VerifAsset
	for i := range vAssets {
		a := &vAssets[i]
		ref := refRepOf(a)
		if ref == nil || ref.ContentType != "video" || strings.HasPrefix(a.AssetPath, "WAVE") {
			continue
		}
		assets = append(assets, a)
	}
	cfgs := []string{"-", "segtimeline_1", "segtimelinenr_1", "start_60", "snr_5", "tsbd_10", "timesubsstpp_en", "segtimeline_1,timesubsstpp_en", "start_7,segtimelinenr_1",
		"segtimeline_1,ato_1.5", "segtimeline_1,ato_0.5", "ato_1.5", "segtimelinenr_1,ato_1"}
	nSess := c.N(40, 300)
	for i := 0; i < nSess; i++ {
		a := assets[r.Intn(len(assets))]
		cf := cfgs[r.Intn(len(cfgs))]
		if i%6 == 5 {
			// (bundled assets: their video segments are larger than the 32 KiB pieces the HTTP client reads)
			if b := findVAsset(r.PickS("testpic_2s", "testpic_6s", "testpic_8s", "bbb_hevc_ac3_8s")); b != nil {
				a = b
			}
		}
		if i%6 == 5 && a.SegmentDurMS%1000 == 0 {
			// chunked transfer (low-latency mode of the sender) without availability offset: every segment is one chunk,
			// large ones are read from the sender in several pieces
			cf = r.PickS("chunkdur_", "segtimeline_1,chunkdur_") + strconv.Itoa(a.SegmentDurMS/1000)
			c.Count("session.chunked")
		}
		startS := 0
		if strings.Contains(cf, "start_60") {
			startS = 60
		}
		if strings.Contains(cf, "start_7") {
			startS = 7
		}
		now := startS*1000 + r.Pick(0, 1, a.SegmentDurMS-1, a.SegmentDurMS, a.SegmentDurMS+1, a.LoopDurMS-1, a.LoopDurMS, a.LoopDurMS+a.SegmentDurMS/2, 3*a.LoopDurMS+17, 1790000000000%a.LoopDurMS+100*a.LoopDurMS)
		dur := "-"
		if r.Intn(2) == 0 {
			dur = strconv.Itoa(r.Pick(0, 1, a.SegmentDurMS/1000, 2*a.SegmentDurMS/1000, 3*a.SegmentDurMS/1000+1, 10))
		}
		if dur != "-" && assetHasSourceLmsg(s, a) {
			// a source segment that carries the lmsg brand itself: the marker printed by the op would be ambiguous when it
			// is also the last one of the session; such assets run without a duration here (the monitor covers them)
			dur = "-"
			c.Count("session.source-lmsg-no-duration")
		}
		var ev strings.Builder
		for k := r.Range(1, 7); k > 0; k-- {
			if r.Intn(9) == 0 {
				ev.WriteByte('d')
			} else {
				ev.WriteByte('s')
			}
		}
		args := []string{a.AssetPath, cf, strconv.Itoa(now), dur, ev.String()}
		line := "sess " + strings.Join(args, " ")
		out, res := runSess(args, nil)
		c.EmitOut(line, out, true)
		c16Check(c, s, a, cf, now, dur, line, out, res)
	}
	// systematic corner: sessions created right at / before the end of the first segment with a duration of exactly
	// one or two segments (the last number to send is then 0 or 1), more steps than segments
	for ai, a := range assets {
		if !c.Thorough() && ai >= 2 {
			break
		}
		for _, cf := range []string{"-", "segtimeline_1", "start_7,segtimelinenr_1"} {
			startS := 0
			if strings.Contains(cf, "start_7") {
				startS = 7
			}
			for _, off := range []int{0, 1, a.SegmentDurMS - 1, a.SegmentDurMS} {
				for _, nseg := range []int{1, 2} {
					if a.SegmentDurMS%1000 != 0 {
						continue
					}
					args := []string{a.AssetPath, cf, strconv.Itoa(startS*1000 + off), strconv.Itoa(nseg * a.SegmentDurMS / 1000), "ssss"}
					line := "sess " + strings.Join(args, " ")
					out, res := runSess(args, nil)
					c.EmitOut(line, out, true)
					c16Check(c, s, a, cf, startS*1000+off, args[3], line, out, res)
					c.Count("session.first-segment-corner")
				}
			}
		}
	}
	// generated subtitles in $Time$ sessions on assets whose segment boundaries are no whole seconds (the subtitle track
	// runs at 1000 ticks per second: its addresses are the video times converted, not truncated)
	for i := range vAssets {
		a := &vAssets[i]
		ref := refRepOf(a)
		if ref == nil || ref.ContentType != "video" || a.SegmentDurMS%1000 == 0 || len(a.MPDs) == 0 {
			continue
		}
		for _, cf := range []string{"segtimeline_1,timesubsstpp_en", "segtimeline_1,timesubswvtt_en", "timesubsstpp_en"} {
			if !c.Thorough() && cf != "segtimeline_1,timesubsstpp_en" && i%2 == 0 {
				continue
			}
			now := r.Pick(a.LoopDurMS+1, 3*a.LoopDurMS+17, 5*a.SegmentDurMS)
			args := []string{a.AssetPath, cf, strconv.Itoa(now), "-", "sss"}
			line := "sess " + strings.Join(args, " ")
			out, res := runSess(args, nil)
			c.EmitOut(line, out, true)
			c16Check(c, s, a, cf, now, "-", line, out, res)
			c.Count("session.fractional-timesubs")
		}
	}
	genCsrc(c)
	c16ChunkedFailures(c, s)
	c16StepRaces(c, s)
	c16LongUploads(c, s)
	c16RealTime(c, s)
	for i := 0; i < c.N(3, 12); i++ {
		a := assets[r.Intn(len(assets))]
		c16EarlyDelete(c, s, a, r.Pick(a.LoopDurMS+1, 3*a.LoopDurMS+17))
	}
	// receivers that answer with errors or slowly, credentials, Streams() URLs (monitors only)
	for i := 0; i < c.N(12, 60); i++ {
		a := assets[r.Intn(len(assets))]
		cf := r.PickS("-", "segtimeline_1")
		now := r.Pick(a.LoopDurMS+1, 3*a.LoopDurMS+17)
		mode := i % 4
		args := []string{a.AssetPath, cf, strconv.Itoa(now), "-", "ssss"}
		line := "sess " + strings.Join(args, " ") + fmt.Sprintf(" # mode=%d", mode)
		_, res := runSess(args, func(sr *scriptedReceiver, setup map[string]any) {
			switch mode {
			case 0:
				setup["user"], setup["password"] = "u1", "p1"
			case 1:
				setup["streamsURLs"] = true
			case 2:
				sr.delay = 30 * time.Millisecond
			case 3:
				sr.failNth[r.Range(4, 9)] = 503
			}
		})
		c.Count(fmt.Sprintf("special-session.mode%d", mode))
		if res == nil {
			continue
		}
		if res.hung != "" {
			c.Violate("hang", "API call does not return: "+res.hung, []string{line}, nil)
			continue
		}
		for _, q := range res.reqs {
			if mode == 0 && (!q.hasAuth || q.user != "u1" || q.pass != "p1") {
				c.Violate("credentials", fmt.Sprintf("upload %s without the configured credentials", q.path), []string{line}, nil)
				break
			}
			if mode == 1 && !strings.Contains(q.path, "Streams(") {
				c.Violate("streams-url", fmt.Sprintf("upload to %s although Streams() URLs are configured", q.path), []string{line}, nil)
				break
			}
		}
		if mode == 2 || mode == 3 {
			// no duplicate, no reordering per representation
			c16Order(c, res, line, mode == 3)
		}
	}
}

// c16ChunkedFailures: chunked-transfer sessions (low-latency mode of the sender) in which an upload cannot be completed:
// a representation that livesim2 cannot generate in low-latency mode (generated subtitles), a receiver that answers an
// upload with an error after it has read the body, one that refuses it before it has read the body, and one that has
// gone away.  Such an upload is lost, but the session must go on: no step hangs, the process survives, every other
// representation / later number still arrives in order, and DELETE ends the session.
func c16ChunkedFailures(c *Ctx, s *app.Server) {
	type sc struct {
		asset, cf, name string
		tweak           func(sr *scriptedReceiver, setup map[string]any)
	}
	scs := []sc{
		{"testpic_2s", "ato_1,chunkdur_1,timesubsstpp_en", "ungenerated-rep", nil},
		{"testpic_2s", "chunkdur_2", "late-503", func(sr *scriptedReceiver, _ map[string]any) { sr.failNth[3] = 503 }},
		{"testpic_2s", "ato_1,chunkdur_0.5", "late-404", func(sr *scriptedReceiver, _ map[string]any) { sr.failNth[2] = 404 }},
		{"testpic_2s", "chunkdur_2", "early-503", func(sr *scriptedReceiver, _ map[string]any) { sr.early[3] = 503 }},
		{"testpic_8s", "segtimeline_1,chunkdur_8", "early-401", func(sr *scriptedReceiver, _ map[string]any) { sr.early[2] = 401; sr.early[4] = 401 }},
	}
	for _, x := range scs {
		a := findVAsset(x.asset)
		if a == nil || os.Getenv("VERIF_SKIP_SCENARIO") == x.name {
			continue
		}
		now := 3*a.LoopDurMS + 300
		args := []string{a.AssetPath, x.cf, strconv.Itoa(now), "-", "ssssd"}
		line := "sess " + strings.Join(args, " ") + " # chunked-failure=" + x.name
		out, res := runSess(args, x.tweak)
		c.Count("chunked-failure." + x.name)
		if res == nil {
			c.Violate("chunked-failure", "session could not be created: "+out, []string{line}, nil)
			continue
		}
		if res.hung != "" {
			c.Violate("hang", fmt.Sprintf("chunked session (%s): API call does not return: %s (%s)", x.name, res.hung, out), []string{line}, nil)
			continue
		}
		c16Order(c, res, line, true)
		// per representation: the numbers that arrived; at most the refused uploads are missing
		got := map[string][]int{}
		for _, q := range res.reqs {
			m := sessPathRe.FindStringSubmatch(q.path)
			if m == nil || m[2] == "init" {
				continue
			}
			n, _ := strconv.Atoi(m[2])
			got[m[1]] = append(got[m[1]], n)
		}
		nMedia := 0
		for _, l := range got {
			nMedia += len(l)
		}
		// 4 steps, 2 media representations (video, audio): 8 uploads, of which the scenario loses at most 2
		if nMedia < 6 {
			c.Violate("chunked-failure", fmt.Sprintf("chunked session (%s): only %d media uploads arrived in 4 steps (%v): the session did not go on after the failed upload; events: %s", x.name, nMedia, got, out), []string{line}, nil)
		}
	}
}

// c16EarlyDelete: a session deleted while it is still uploading its init segments must not go on.
func c16EarlyDelete(c *Ctx, s *app.Server, a *app.VerifAsset, now int) {
	sr := newScriptedReceiver()
	defer sr.srv.Close()
	sr.delay = 40 * time.Millisecond
	mpd := a.MPDs[0]
	for _, m := range a.MPDs {
		if m == "Manifest.mpd" {
			mpd = m
		}
	}
	line := fmt.Sprintf("# POST /api/cmaf-ingests %s/%s testNowMS=%d; DELETE at once; step; step", a.AssetPath, mpd, now)
	code, resp, hung := apiCall(s, "POST", "/api/cmaf-ingests", map[string]any{"destRoot": sr.srv.URL + "/up", "destName": "ch", "livesimURL": "/livesim2/" + a.AssetPath + "/" + mpd, "testNowMS": now})
	if hung || code >= 300 {
		return
	}
	id, _ := resp["id"].(string)
	c.Count("early-delete-sessions")
	if _, _, hung := apiCall(s, "DELETE", "/api/cmaf-ingests/"+id, nil); hung {
		c.Violate("hang", "DELETE does not return", []string{line}, nil)
		return
	}
	time.Sleep(400 * time.Millisecond)
	for i := 0; i < 2; i++ {
		if _, _, hung := apiCall(s, "GET", "/api/cmaf-ingests/"+id+"/step", nil); hung {
			c.Violate("hang", "step after DELETE does not return", []string{line}, nil)
			return
		}
		time.Sleep(300 * time.Millisecond)
	}
	for _, q := range sr.snapshot() {
		if m := sessPathRe.FindStringSubmatch(q.path); m != nil && m[2] != "init" {
			c.Violate("after-delete", fmt.Sprintf("media segment %s is uploaded although the session was deleted while sending its init segments", q.path), []string{line}, nil)
			break
		}
	}
	apiCall(s, "DELETE", "/api/cmaf-ingests/"+id, nil)
}

// c16Order: per representation the segment numbers (or times) increase strictly.
func c16Order(c *Ctx, res *sessResult, line string, gapsAllowed bool) {
	last := map[string]int{}
	for _, q := range res.reqs {
		m := sessPathRe.FindStringSubmatch(q.path)
		if m == nil || m[2] == "init" {
			continue
		}
		n, _ := strconv.Atoi(m[2])
		if l, ok := last[m[1]]; ok && n <= l {
			c.Violate("order", fmt.Sprintf("representation %s: %d arrives after %d", m[1], n, l), []string{line}, nil)
		}
		last[m[1]] = n
	}
}

var sessOutRe = regexp.MustCompile(`s:\[([^\]]*)\]`)

func c16Check(c *Ctx, s *app.Server, a *app.VerifAsset, cf string, now int, dur, line, out string, res *sessResult) {
	if res == nil {
		c.Violate("session", "session could not be created: "+out, []string{line}, nil)
		return
	}
	if res.hung != "" {
		c.Violate("hang", "API call does not return: "+res.hung+" ("+out+")", []string{line}, nil)
		return
	}
	ref := refRepOf(a)
	T := int64(ref.MediaTimescale)
	startS, startNr := 0, 0
	timeAddr := false
	for _, p := range strings.Split(cf, ",") {
		switch {
		case strings.HasPrefix(p, "start_"):
			startS, _ = strconv.Atoi(p[6:])
		case strings.HasPrefix(p, "snr_"):
			startNr, _ = strconv.Atoi(p[4:])
		case p == "segtimeline_1":
			timeAddr = true
		}
	}
	// the live edge: number of reference segments that have ended at `now`
	k0 := 0
	for {
		e := expectSeg(a, ref, k0, 0)
		if int64(e.end)*1000 > int64(now-startS*1000)*T {
			break
		}
		k0++
	}
	// init first, per representation
	seen := map[string]bool{}
	for _, q := range res.reqs {
		m := sessPathRe.FindStringSubmatch(q.path)
		if m == nil {
			c.Violate("path", "upload to unexpected path "+q.path, []string{line}, nil)
			continue
		}
		if m[2] == "init" {
			seen[m[1]] = true
		} else if !seen[m[1]] {
			c.Violate("init-first", fmt.Sprintf("representation %s: media segment %s arrives before the init segment", m[1], m[2]), []string{line}, nil)
		}
		if q.method != "PUT" && q.method != "POST" {
			c.Violate("method", q.method+" "+q.path, []string{line}, nil)
		}
		wantExt := map[string]string{"video/mp4": ".cmfv", "audio/mp4": ".cmfa", "application/mp4": ".cmft"}[q.ctype]
		if wantExt == "" || (m[3] != wantExt && !(q.ctype == "application/mp4" && m[3] == ".cmfm")) {
			c.Violate("extension", fmt.Sprintf("%s uploaded with Content-Type %q", q.path, q.ctype), []string{line}, nil)
		}
		if q.ingest == "" {
			c.Violate("ingest-header", q.path+" without DASH-IF-Ingest header", []string{line}, nil)
		}
	}
	// per step: exactly one segment per representation, consecutive from the live edge, body as served
	nReps := len(res.initReqs)
	step := 0
	stopped := false
	sent := 0
	limit := -1
	if dur != "-" {
		d, _ := strconv.Atoi(dur)
		limit = d * 1000 / a.SegmentDurMS
	}
	evs := line[strings.LastIndex(line, " ")+1:]
	for i, got := range res.perEvent {
		if i >= len(evs) {
			break
		}
		if evs[i] == 'd' {
			stopped = true
			continue
		}
		if stopped {
			if len(got) != 0 {
				c.Violate("after-delete", fmt.Sprintf("%d uploads after the session was deleted", len(got)), []string{line}, nil)
			}
			continue
		}
		if limit >= 0 && sent >= limit {
			if len(got) != 0 {
				c.Violate("duration", fmt.Sprintf("duration %s s = %d segments of %d ms, but segment %d is sent", dur, limit, a.SegmentDurMS, sent+1), []string{line}, map[string]any{"out": out})
			}
			continue
		}
		k := k0 + step
		step++
		sent++
		perRep := map[string]int{}
		for _, q := range got {
			m := sessPathRe.FindStringSubmatch(q.path)
			if m == nil || m[2] == "init" {
				continue
			}
			perRep[m[1]]++
			c.Count("media-uploads")
			// expected identity
			var rp *app.VerifRep
			for ri := range a.Reps {
				if a.Reps[ri].ID == m[1] {
					rp = &a.Reps[ri]
				}
			}
			e := expectSeg(a, ref, k, startNr)
			id := strconv.Itoa(e.nr)
			if timeAddr {
				switch {
				case rp == nil: // generated subtitles: ms
					id = strconv.FormatInt(int64(e.start)*1000/T, 10)
				case rp.ContentType == "audio" && rp.ConstSampleDur > 0:
					id = strconv.FormatUint(ceilFrame(e.start, uint64(T), uint64(rp.ConstSampleDur), uint64(rp.MediaTimescale)), 10)
				default:
					id = strconv.FormatUint(expectSeg(a, rp, k, startNr).start, 10)
				}
			}
			if m[2] != id {
				c.Violate("numbering", fmt.Sprintf("step %d: representation %s receives segment %s, the segment after the live edge is %s", step, m[1], m[2], id), []string{line}, map[string]any{"out": out})
				continue
			}
			// the same segment from livesim2 itself
			av, _ := availMS(expectSeg(a, ref, k, 0), int(T), startS, 0)
			media := m[1] + "/" + id + ".m4s"
			if rp != nil {
				media = strings.NewReplacer("$Number$", id, "$Time$", id).Replace(rp.MediaURI)
			}
			cfgURL := ""
			if cf != "-" {
				cfgURL = strings.ReplaceAll(cf, ",", "/") + "/"
			}
			u := fmt.Sprintf("/livesim2/%s%s/%s?nowMS=%d", cfgURL, a.AssetPath, media, av)
			gr := serveGuarded(s.LiveRouter, httptest.NewRequest("GET", u, nil))
			if gr.code != 200 {
				c.Violate("not-served", fmt.Sprintf("uploaded segment %s is answered %d by livesim2 itself at its availability time", q.path, gr.code), []string{line, "# GET " + u}, nil)
			} else if gr.fullBody != string(q.body) {
				if !(limit >= 0 && sent == limit && isLmsg(q.body)) { // the last segment carries the lmsg brand
					c.Violate("body-differs", fmt.Sprintf("uploaded %s (%d bytes) differs from what livesim2 serves for it (%d bytes)", q.path, len(q.body), len(gr.fullBody)), []string{line, "# GET " + u}, nil)
				}
			}
			if limit >= 0 && sent == limit && !isLmsg(q.body) {
				c.Violate("lmsg", fmt.Sprintf("the last segment of the session (%s) is not marked as last", q.path), []string{line}, nil)
			}
			if (limit < 0 || sent < limit) && isLmsg(q.body) && !isLmsg([]byte(gr.fullBody)) {
				c.Violate("lmsg-early", fmt.Sprintf("segment %s is marked as last", q.path), []string{line}, nil)
			}
		}
		var reps []string
		for rID, n := range perRep {
			if n != 1 {
				reps = append(reps, fmt.Sprintf("%s:%d", rID, n))
			}
		}
		sort.Strings(reps)
		if len(perRep) != nReps || len(reps) > 0 {
			c.Violate("step-count", fmt.Sprintf("step %d delivers to %d of %d representations (%v)", step, len(perRep), nReps, reps), []string{line}, map[string]any{"out": out})
		}
	}
}

// c16RealTime: a session on the wall clock (no test instant) with $Time$ addresses against a receiver that stalls once for
// longer than two segment durations: the sender catches up afterwards — and still delivers every segment once, in order.
// c16StepRaces: a step request that arrives while the session goroutine is busy and the session then ends without
// taking it — the only segment of a one-segment session is still being uploaded to a slow receiver; the init uploads
// are refused after a delay — is answered (409 or 200), it does not wait forever.
func c16StepRaces(c *Ctx, s *app.Server) {
	a := findVAsset("testpic_2s")
	if a == nil {
		return
	}
	for _, sc := range []string{"last-segment-in-flight", "init-refused-late"} {
		sr := newScriptedReceiver()
		setup := map[string]any{"destRoot": sr.srv.URL + "/race", "destName": "ch", "livesimURL": "/livesim2/" + a.AssetPath + "/Manifest.mpd", "testNowMS": 3*a.LoopDurMS + 300}
		line := "# POST /api/cmaf-ingests testpic_2s, scenario " + sc + ": a second step while the session is about to end"
		if sc == "last-segment-in-flight" {
			setup["duration"] = a.SegmentDurMS / 1000
			sr.slowOnceRe = regexp.MustCompile(`/V300/\d+\.cmfv$`)
			sr.slowOnceDur = 700 * time.Millisecond
		} else {
			sr.delay = 300 * time.Millisecond
			sr.failNth[0], sr.failNth[1] = 503, 503
		}
		code, resp, hung := apiCall(s, "POST", "/api/cmaf-ingests", setup)
		if hung || code >= 300 {
			sr.srv.Close()
			continue
		}
		id, _ := resp["id"].(string)
		c.Count("step-race." + sc)
		hungStep := false
		if sc == "last-segment-in-flight" {
			waitFor(1500*time.Millisecond, func() bool { return len(sr.snapshot()) >= 2 })
			first := make(chan bool, 1)
			go func() { _, _, h := apiCall(s, "GET", "/api/cmaf-ingests/"+id+"/step", nil); first <- h }()
			time.Sleep(150 * time.Millisecond)
			_, _, h2 := apiCall(s, "GET", "/api/cmaf-ingests/"+id+"/step", nil)
			hungStep = h2 || <-first
		} else {
			_, _, hungStep = apiCall(s, "GET", "/api/cmaf-ingests/"+id+"/step", nil)
		}
		if hungStep {
			c.Violate("hang", "a step request that races with the end of the session ("+sc+") does not return", []string{line}, nil)
		} else {
			apiCall(s, "DELETE", "/api/cmaf-ingests/"+id, nil)
		}
		sr.srv.Close()
	}
}

// c16LongUploads (thorough tier, ~25 s of wall clock): uploads that take longer than a few seconds are still complete.
// (1) the receiver answers the first init segment only after 5.6 s: the session goes on and the steps deliver;
// (2) a chunked low-latency session whose segments are written over more than 6 s (ato_6/chunkdur_2 on 8 s segments):
// every representation receives its segment whole (no body cut off in the middle) and the next step delivers the next.
func c16LongUploads(c *Ctx, s *app.Server) {
	if !c.Thorough() {
		return
	}
	if a := findVAsset("testpic_2s"); a != nil {
		args := []string{a.AssetPath, "-", strconv.Itoa(3*a.LoopDurMS + 300), "-", "ss"}
		line := "sess " + strings.Join(args, " ") + " # receiver answers the first init after 5.6 s"
		out, res := runSessWait(args, 8*time.Second, func(sr *scriptedReceiver, _ map[string]any) {
			sr.slowOnceRe = regexp.MustCompile(`init\.cmf[va]$`)
			sr.slowOnceDur = 5600 * time.Millisecond
		})
		c.Count("long-upload.slow-init")
		if res == nil || res.hung != "" || strings.Count(out, "s:[") != 2 || strings.Contains(out, "s:[]") {
			c.Violate("long-upload", "a receiver that answers the first init segment after 5.6 s: the session does not deliver its steps: "+out, []string{line}, nil)
		}
	}
	if a := findVAsset("testpic_8s"); a != nil {
		now := 10*a.SegmentDurMS + 100
		args := []string{a.AssetPath, "ato_6,chunkdur_2", strconv.Itoa(now), "-", "s"}
		line := "sess " + strings.Join(args, " ") + " # chunked upload lasting > 6 s"
		out, res := runSessWait(args, 14*time.Second, nil)
		c.Count("long-upload.chunked")
		if res == nil || res.hung != "" {
			c.Violate("long-upload", "chunked session with uploads lasting more than 6 s: "+out, []string{line}, nil)
			return
		}
		media := 0
		for _, q := range res.reqs {
			m := sessPathRe.FindStringSubmatch(q.path)
			if m == nil || m[2] == "init" {
				continue
			}
			media++
			if q.readErr || !bytes.Contains(q.body, []byte("mdat")) {
				c.Violate("long-upload", fmt.Sprintf("chunked upload %s: the body was cut off (%d bytes, read error %v)", q.path, len(q.body), q.readErr), []string{line}, nil)
			}
		}
		if media < 2 {
			c.Violate("long-upload", fmt.Sprintf("chunked session with 8 s segments and ato_6: %d media uploads arrived for one step (%s)", media, out), []string{line}, nil)
		}
	}
}

func c16RealTime(c *Ctx, s *app.Server) {
	a := findVAsset("testpic_2s")
	if a == nil {
		return
	}
	sr := newScriptedReceiver()
	defer sr.srv.Close()
	sr.slowOnceRe = regexp.MustCompile(`/V300/\d+\.cmfv$`)
	sr.slowOnceDur = 4500 * time.Millisecond
	line := "# POST /api/cmaf-ingests /livesim2/segtimeline_1/testpic_2s/Manifest.mpd (wall clock); the receiver answers the first V300 segment after 4.5 s; 9 s later DELETE"
	code, resp, hung := apiCall(s, "POST", "/api/cmaf-ingests", map[string]any{"destRoot": sr.srv.URL + "/rt", "destName": "ch", "livesimURL": "/livesim2/segtimeline_1/testpic_2s/Manifest.mpd"})
	if hung || code >= 300 {
		return
	}
	id, _ := resp["id"].(string)
	time.Sleep(9 * time.Second)
	apiCall(s, "DELETE", "/api/cmaf-ingests/"+id, nil)
	time.Sleep(100 * time.Millisecond)
	c.Count("realtime-sessions")
	per := map[string][]int64{}
	for _, q := range sr.snapshot() {
		m := sessPathRe.FindStringSubmatch(q.path)
		if m == nil || m[2] == "init" {
			continue
		}
		t, _ := strconv.ParseInt(m[2], 10, 64)
		per[m[1]] = append(per[m[1]], t)
	}
	for rep, ts := range per {
		c.Count("realtime-uploads")
		step := int64(180000) // V300: 2 s at 90 kHz
		tol := int64(0)
		if rep != "V300" {
			step, tol = 96000, 1100 // A48: 2 s at 48 kHz, cut at AAC frames
		}
		for i := 1; i < len(ts); i++ {
			if d := ts[i] - ts[i-1]; d < step-tol || d > step+tol {
				c.Violate("realtime-order", fmt.Sprintf("representation %s received the segments %v: after %d comes %d (a step of %d, one segment is %d)", rep, ts, ts[i-1], ts[i], d, step), []string{line}, nil)
				break
			}
		}
	}
	if len(per["V300"]) < 2 {
		c.Count("realtime-too-few-uploads")
	}
}
