module verif/harness

go 1.23.0

require github.com/Dash-Industry-Forum/livesim2 v0.0.0

replace github.com/Dash-Industry-Forum/livesim2 => /repo
