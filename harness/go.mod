module verif/harness

go 1.23.0

require (
	github.com/Dash-Industry-Forum/livesim2 v0.0.0
	github.com/Eyevinn/mp4ff v0.47.0
	github.com/beevik/etree v1.5.0
)

require (
	github.com/Comcast/gots/v2 v2.2.1 // indirect
	github.com/Eyevinn/dash-mpd v0.12.0 // indirect
	github.com/barkimedes/go-deepcopy v0.0.0-20220514131651-17c30cfc62df // indirect
	github.com/beorn7/perks v1.0.1 // indirect
	github.com/caddyserver/certmagic v0.22.0 // indirect
	github.com/caddyserver/zerossl v0.1.3 // indirect
	github.com/cespare/xxhash/v2 v2.3.0 // indirect
	github.com/danielgtaylor/huma/v2 v2.31.0 // indirect
	github.com/dusted-go/logging v1.3.0 // indirect
	github.com/fatih/structs v1.1.0 // indirect
	github.com/fsnotify/fsnotify v1.8.0 // indirect
	github.com/go-chi/chi/v5 v5.2.1 // indirect
	github.com/klauspost/compress v1.18.0 // indirect
	github.com/klauspost/cpuid/v2 v2.2.10 // indirect
	github.com/knadh/koanf v1.5.0 // indirect
	github.com/libdns/libdns v0.2.3 // indirect
	github.com/mholt/acmez/v3 v3.1.0 // indirect
	github.com/miekg/dns v1.1.63 // indirect
	github.com/mitchellh/copystructure v1.2.0 // indirect
	github.com/mitchellh/mapstructure v1.5.0 // indirect
	github.com/mitchellh/reflectwalk v1.0.2 // indirect
	github.com/munnerz/goautoneg v0.0.0-20191010083416-a7dc8b61c822 // indirect
	github.com/prometheus/client_golang v1.21.1 // indirect
	github.com/prometheus/client_model v0.6.1 // indirect
	github.com/prometheus/common v0.63.0 // indirect
	github.com/prometheus/procfs v0.15.1 // indirect
	github.com/spf13/pflag v1.0.6 // indirect
	github.com/zeebo/blake3 v0.2.4 // indirect
	go.uber.org/multierr v1.11.0 // indirect
	go.uber.org/zap v1.27.0 // indirect
	go.uber.org/zap/exp v0.3.0 // indirect
	golang.org/x/crypto v0.36.0 // indirect
	golang.org/x/net v0.37.0 // indirect
	golang.org/x/sys v0.31.0 // indirect
	golang.org/x/text v0.23.0 // indirect
	google.golang.org/protobuf v1.36.5 // indirect
)

replace github.com/Dash-Industry-Forum/livesim2 => /repo
