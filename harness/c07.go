package main

// C07: livesim2 responses are a pure function of (URL, time) and race-free.
// Ops: seg / cfg / req lines whose model output is a pure function; each line is emitted twice, with other requests
// and ingest API calls in between.  Monitors: the same request set on a fresh server, on the long-running server in
// another order with noise in between, and concurrently; a child built with the race detector repeats the concurrent
// part.

import (
	"context"
	"crypto/sha256"
	"encoding/hex"
	"encoding/json"
	"fmt"
	"github.com/Dash-Industry-Forum/livesim2/pkg/drm"
	"io"
	"log/slog"
	"net/http"
	"net/http/httptest"
	"os"
	"os/exec"
	"path/filepath"
	"sort"
	"strconv"
	"strings"
	"sync"
	"time"

	"github.com/Dash-Industry-Forum/livesim2/cmd/livesim2/app"
)

func init() { generators["C07"] = genC07 }

func respKey(res fuzzRes) string {
	if res.panic != "" {
		return "PANIC " + res.panic
	}
	if res.spin {
		return "SPIN"
	}
	h := sha256.Sum256([]byte(res.fullBody))
	return fmt.Sprintf("%d %d %s", res.code, len(res.fullBody), hex.EncodeToString(h[:8]))
}

func serveURL(s *app.Server, u string) string {
	h := s.LiveRouter
	if !strings.HasPrefix(u, "/livesim2/") {
		h = s.Router
	}
	return respKey(serveGuarded(h, httptest.NewRequest("GET", u, nil)))
}

// c07URLs: MPD, init, media (video, re-segmented audio, text, thumbnails), generated subtitles, DRM, chunked, patch,
// urlgen and assets pages, error answers.
func c07URLs(assets []app.VerifAsset, r *Rng, per int) []string {
	var urls []string
	for ai := range assets {
		a := &assets[ai]
		ref := refRepOf(a)
		if ref == nil || ref.ContentType != "video" || strings.HasPrefix(a.AssetPath, "WAVE") || len(a.MPDs) == 0 {
			continue
		}
		n := len(ref.Segments)
		T := ref.MediaTimescale
		mpd := a.MPDs[0]
		now := int64(a.LoopDurMS)*3 + 1700
		for _, cf := range []string{"", "segtimeline_1/", "segtimelinenr_1/", "periods_60/", "timesubsstpp_en,sv/", "timesubswvtt_en/", "patch_60/segtimeline_1/", "eccp_cenc/", "ato_1/chunkdur_0.5/", "scte35_2/", "start_7/snr_3/", "utc_head/", "utc_direct-ntp/", "startrel_-20/"} {
			urls = append(urls, fmt.Sprintf("/livesim2/%s%s/%s?nowMS=%d", cf, a.AssetPath, mpd, now))
		}
		urls = append(urls, fmt.Sprintf("/patch/livesim2/patch_60/segtimeline_1/%s/%s?publishTime=%s&nowMS=%d", a.AssetPath, strings.Replace(mpd, ".mpd", ".mpp", 1),
			time.UnixMilli(now-int64(a.SegmentDurMS)*2).UTC().Format("2006-01-02T15:04:05Z"), now))
		for j := 0; j < per; j++ {
			k := r.Pick(0, n-1, n, 2*n+1, r.Intn(3*n))
			e := expectSeg(a, ref, k, 0)
			av, _ := availMS(e, T, 0, 0)
			q := fmt.Sprintf("?nowMS=%d", av+int64(a.SegmentDurMS)+int64(r.Intn(500)))
			for ri := range a.Reps {
				rp := &a.Reps[ri]
				id := strconv.Itoa(e.nr)
				media := strings.NewReplacer("$Number$", id, "$Time$", id).Replace(rp.MediaURI)
				urls = append(urls, "/livesim2/"+a.AssetPath+"/"+media+q, "/livesim2/"+a.AssetPath+"/"+rp.InitURI+q)
				if rp.ContentType == "video" || rp.ContentType == "audio" {
					urls = append(urls, "/livesim2/eccp_cbcs/"+a.AssetPath+"/"+media+q, "/livesim2/eccp_cbcs/"+a.AssetPath+"/"+rp.InitURI+q,
						"/livesim2/eccp_cenc/"+a.AssetPath+"/"+media+q, "/livesim2/eccp_cenc/"+a.AssetPath+"/"+rp.InitURI+q)
					if a.SegmentDurMS > 1000 {
						urls = append(urls, "/livesim2/eccp_cenc/ato_1/chunkdur_0.5/"+a.AssetPath+"/"+media+q)
					}
					if a.SegmentDurMS > 1000 {
						urls = append(urls, "/livesim2/ato_1/chunkdur_0.5/"+a.AssetPath+"/"+media+q)
					}
					if rp.ContentType == "video" {
						urls = append(urls, "/livesim2/scte35_3/"+a.AssetPath+"/"+media+q)
					}
				}
			}
			urls = append(urls, fmt.Sprintf("/livesim2/timesubsstpp_en,sv/%s/timestpp-sv/%d.m4s%s", a.AssetPath, e.nr, q),
				fmt.Sprintf("/livesim2/timesubswvtt_en/%s/timewvtt-en/%d.m4s%s", a.AssetPath, e.nr, q))
		}
		urls = append(urls, "/livesim2/timesubsstpp_en,sv/"+a.AssetPath+"/timestpp-sv/init.mp4?nowMS=100000", "/livesim2/timesubswvtt_en/"+a.AssetPath+"/timewvtt-en/init.mp4?nowMS=100000",
			"/livesim2/"+a.AssetPath+"/nosuch/1.m4s?nowMS=100000", "/livesim2/tsbd_x/"+a.AssetPath+"/"+mpd+"?nowMS=100000")
		urls = append(urls, "/urlgen/create?asset="+a.AssetPath+"&mpd="+mpd+"&stl=tlt&tsbd=30", "/urlgen/mpds?asset="+a.AssetPath)
	}
	// the audio-only asset (the reference representation is an audio one)
	for ai := range assets {
		if assets[ai].AssetPath == "gen_audioonly" {
			for _, u := range []string{"tsbd_300/gen_audioonly/Manifest.mpd", "tsbd_300/gen_audioonly/A2/10.m4s", "tsbd_300/gen_audioonly/A8/10.m4s", "segtimeline_1/gen_audioonly/Manifest.mpd",
				"gen_audioonly/A8/20.m4s", "gen_audioonly/A2/45.m4s", "segtimelinenr_1/gen_audioonly/Manifest.mpd"} {
				urls = append(urls, "/livesim2/"+u+"?nowMS=100000")
			}
		}
	}
	urls = append(urls, "/assets", "/urlgen/", "/vod/testpic_2s/Manifest.mpd")
	return urls
}

// c07HostNoise: requests that name the server differently (Host header): what a later request gets must not depend on them
func c07HostNoise(s *app.Server) {
	for _, hst := range []string{"noise.example:8888", "127.0.0.1:9999", "[::1]:8888"} {
		for _, u := range []string{"/livesim2/testpic_2s/Manifest.mpd?nowMS=90000", "/livesim2/utc_head/testpic_2s/Manifest.mpd?nowMS=90000", "/livesim2/eccp_cenc/testpic_2s/Manifest.mpd?nowMS=90000"} {
			req := httptest.NewRequest("GET", u, nil)
			req.Host = hst
			serveGuarded(s.LiveRouter, req)
		}
	}
}

// c07Noise: requests that must not influence later answers: ingest sessions (incl. generated subtitles), errors, pages.
func c07Noise(s *app.Server, r *Rng, assets []app.VerifAsset) {
	sr := newScriptedReceiver()
	defer sr.srv.Close()
	for i := 0; i < 3; i++ {
		a := &assets[r.Intn(len(assets))]
		if len(a.MPDs) == 0 || refRepOf(a) == nil || refRepOf(a).ContentType != "video" || strings.HasPrefix(a.AssetPath, "WAVE") {
			continue
		}
		cf := r.PickS("timesubsstpp_sv,en/", "timesubswvtt_en/", "segtimeline_1/timesubsstpp_en/", "")
		code, resp, hung := apiCall(s, "POST", "/api/cmaf-ingests", map[string]any{"destRoot": sr.srv.URL + "/n", "destName": fmt.Sprint(i),
			"livesimURL": "/livesim2/" + cf + a.AssetPath + "/" + a.MPDs[0], "testNowMS": a.LoopDurMS*2 + 17})
		if hung || code >= 300 {
			continue
		}
		id, _ := resp["id"].(string)
		time.Sleep(60 * time.Millisecond)
		for k := 0; k < 2; k++ {
			apiCall(s, "GET", "/api/cmaf-ingests/"+id+"/step", nil)
			time.Sleep(30 * time.Millisecond)
		}
		apiCall(s, "GET", "/api/cmaf-ingests/"+id, nil)
		apiCall(s, "DELETE", "/api/cmaf-ingests/"+id, nil)
	}
	c07HostNoise(s)
	for _, u := range []string{"/livesim2/annexI_a/testpic_2s/Manifest.mpd?nowMS=1000", "/livesim2/eccp_foo/testpic_2s/V300/init.mp4?nowMS=1000", "/livesim2/periods_7/testpic_2s/Manifest.mpd?nowMS=100000",
		"/livesim2/statuscode_[{cycle:30,rsq:0,code:404}]/testpic_2s/V300/15.m4s?nowMS=40000", "/livesim2/traffic_u2d2/testpic_2s/bu0/V300/15.m4s?nowMS=40000"} {
		serveURL(s, u)
	}
}

func genC07(c *Ctx) {
	c.emitAssetDefs()
	r := c.Rng
	s := getServer()
	// ---- ops: the same line twice, with noise in between (the model's answer cannot change) ----
	var lines []string
	for ai := range vAssets {
		a := &vAssets[ai]
		ref := refRepOf(a)
		if ref == nil || ref.ContentType != "video" {
			continue
		}
		n := len(ref.Segments)
		for j := 0; j < c.N(6, 40); j++ {
			cf := []cfgVar{mkCfg(0, 60, 0, 0, "n"), mkCfg(0, 60, 0, 0, "tlt"), mkCfg(61, 30, 3, 0, "tln")}[r.Intn(3)]
			k := r.Intn(3*n + 1)
			e := expectSeg(a, ref, k, cf.startNr)
			av, _ := availMS(e, ref.MediaTimescale, cf.startS, 0)
			now := av + int64(r.Pick(-1, 0, 1, 500, 61000, 200000))
			id := strconv.Itoa(e.nr)
			if cf.mode == "tlt" {
				id = strconv.FormatUint(e.start, 10)
			}
			lines = append(lines, fmt.Sprintf("seg %s %s %s %s %d", a.AssetPath, cf.s, ref.ID, id, now))
		}
	}
	for _, u := range []string{"tsbd_30/ato_1.5/testpic_2s/Manifest.mpd", "start_100/testpic_2s/Manifest.mpd", "periods_3601/x.mpd", "statuscode_[{cycle:30,rsq:0,code:404}]/traffic_u3d2/a.mpd", "timeoffset_-0.5/start_100/a.mpd"} {
		lines = append(lines, "cfg /livesim2/"+u+" 100300", "req /livesim2/"+u+" 100300")
	}
	for pass := 0; pass < 2; pass++ {
		order := append([]string(nil), lines...)
		for i := range order {
			j := r.Intn(i + 1)
			order[i], order[j] = order[j], order[i]
		}
		for _, l := range order {
			c.Emit(l, true)
		}
		if pass == 0 {
			c07Noise(s, r, vAssets)
		}
	}
	// ---- monitors ----
	urls := c07URLs(vAssets, r, c.N(2, 6))
	c.Stats["urls"] = len(urls)
	base := map[string]string{}
	viol := func(kind, what, u string) { c.Violate(kind, what, []string{"# GET " + u}, nil) }
	for _, u := range urls {
		base[u] = serveURL(s, u)
		if strings.HasPrefix(base[u], "PANIC") || base[u] == "SPIN" {
			viol("crash", "request dies: "+base[u], u)
		}
	}
	check := func(tag string, srv *app.Server, us []string) {
		for _, u := range us {
			if got := serveURL(srv, u); got != base[u] {
				viol("history", fmt.Sprintf("%s: %s instead of %s as answered first", tag, got, base[u]), u)
			}
			c.Count("responses-compared")
		}
	}
	shuffled := func() []string {
		us := append([]string(nil), urls...)
		for i := range us {
			j := r.Intn(i + 1)
			us[i], us[j] = us[j], us[i]
		}
		return us
	}
	// same server, other order, after noise (ingest sessions, errors)
	c07Noise(s, r, vAssets)
	check("same server after other requests and ingest sessions", s, shuffled())
	// fresh instance
	fresh := startServer(vodRoot(), "", false)
	if fresh.err != nil {
		c.Violate("start", "fresh server: "+fresh.err.Error(), []string{"# start"}, nil)
	} else {
		check("fresh server instance", fresh.s, shuffled())
	}
	// a fresh instance whose very first requests came under another Host name
	if fresh2 := startServer(vodRoot(), "", false); fresh2.err == nil {
		c07HostNoise(fresh2.s)
		check("fresh server instance after requests under other Host names", fresh2.s, shuffled())
	}
	// cache-loaded instance: one instance scans and writes the representation metadata, the next one starts from it
	if cdir, err := os.MkdirTemp(workDir(), "c07cache"); err == nil {
		w := startServer(vodRoot(), cdir, true)
		if w.err != nil {
			c.Violate("start", "cache-writing server: "+w.err.Error(), []string{"# start"}, nil)
		} else {
			check("cache-writing server instance", w.s, shuffled())
			cl := startServer(vodRoot(), cdir, false)
			if cl.err != nil {
				c.Violate("start", "cache-loaded server: "+cl.err.Error(), []string{"# start"}, nil)
			} else {
				check("cache-loaded server instance", cl.s, shuffled())
			}
		}
		_ = os.RemoveAll(cdir)
	}
	// DRM-configured instances (two CPIX packages with the same scheme): one instance is asked package by package, a
	// second, fresh one in the opposite order; every answer must be the same
	c07Drm(c, viol)
	// concurrently on the long-running server, with ingest sessions running
	var wg sync.WaitGroup
	var mu sync.Mutex
	type bad struct{ u, got string }
	var bads []bad
	stop := make(chan struct{})
	go func() {
		for {
			select {
			case <-stop:
				return
			default:
				c07Noise(s, &Rng{s: 99}, vAssets)
			}
		}
	}()
	for g := 0; g < 8; g++ {
		us := shuffled()
		wg.Add(1)
		go func(us []string) {
			defer wg.Done()
			for _, u := range us {
				if got := serveURL(s, u); got != base[u] {
					mu.Lock()
					bads = append(bads, bad{u, got})
					mu.Unlock()
				}
			}
		}(us)
	}
	wg.Wait()
	close(stop)
	c.Stats["responses-compared"] += 8 * len(urls)
	for _, b := range bads {
		viol("concurrent", fmt.Sprintf("served concurrently: %s instead of %s", b.got, base[b.u]), b.u)
	}
	// the same under the race detector
	if rb := os.Getenv("VERIF_RACE_BIN"); rb != "" {
		cmd := exec.Command(rb, "c07child", fmt.Sprint(c.Seed), fmt.Sprint(c.N(1, 3)))
		cmd.Env = append(os.Environ(), "GORACE=halt_on_error=0", "VERIF_VODROOT="+vodRoot())
		var se strings.Builder
		cmd.Stderr = &se
		out, err := cmd.Output()
		c.Count("race-child-runs")
		for key, rep := range raceReports(se.String()) {
			c.Violate("race", "data race between "+key, []string{fmt.Sprintf("# c07 race child seed=%d", c.Seed)}, map[string]any{"report": rep})
		}
		if err != nil && !strings.Contains(se.String(), "WARNING: DATA RACE") {
			why := "exit"
			for _, ln := range strings.Split(se.String(), "\n") {
				if strings.HasPrefix(ln, "fatal error:") || strings.HasPrefix(ln, "panic:") {
					why = strings.TrimSpace(ln)
					break
				}
			}
			c.Violate("fatal", "the server process dies under concurrent requests ("+why+")", []string{fmt.Sprintf("# c07 race child seed=%d", c.Seed)}, nil)
		}
		var st map[string]int
		if json.Unmarshal(out, &st) == nil {
			c.Stats["race-child-requests"] = st["requests"]
			if st["mismatches"] > 0 {
				c.Violate("concurrent", fmt.Sprintf("race child: %d answers differ from the first answer", st["mismatches"]), []string{"# c07 race child"}, nil)
			}
		}
	}
}

// c07Child: the concurrent part in its own process (run from the -race build).
func c07Child(args []string) {
	if len(args) != 2 {
		os.Exit(2)
	}
	var seed, rounds int
	fmt.Sscan(args[0], &seed)
	fmt.Sscan(args[1], &rounds)
	slog.SetDefault(slog.New(slog.NewTextHandler(io.Discard, nil)))
	r := &Rng{s: uint64(seed) + 7}
	inst := startServer(vodRoot(), "", false)
	must(inst.err)
	s := inst.s
	var small []app.VerifAsset
	for _, a := range inst.assets {
		if a.AssetPath == "testpic_2s" || a.AssetPath == "gen_irreg" || a.AssetPath == "gen_short" {
			small = append(small, a)
		}
	}
	urls := c07URLs(small, r, 2)
	base := map[string]string{}
	for _, u := range urls {
		base[u] = serveURL(s, u)
	}
	mism, reqs := 0, 0
	var mu sync.Mutex
	for round := 0; round < rounds; round++ {
		var wg sync.WaitGroup
		stop := make(chan struct{})
		done := make(chan struct{})
		go func() {
			defer close(done)
			for {
				select {
				case <-stop:
					return
				default:
					c07Noise(s, &Rng{s: uint64(round)}, small)
				}
			}
		}()
		for g := 0; g < 6; g++ {
			us := append([]string(nil), urls...)
			sort.Slice(us, func(i, j int) bool { return (i*7+g)%13 < (j*5+g)%11 })
			wg.Add(1)
			go func(us []string) {
				defer wg.Done()
				for _, u := range us {
					got := serveURL(s, u)
					mu.Lock()
					reqs++
					if got != base[u] {
						mism++
					}
					mu.Unlock()
				}
			}(us)
		}
		wg.Wait()
		close(stop)
		<-done
	}
	b, _ := json.Marshal(map[string]int{"requests": reqs, "mismatches": mism})
	os.Stdout.Write(b)
	_ = context.Background
	_ = http.StatusOK
}

func startDrmServer() (*app.Server, error) {
	dc, err := drm.ReadDrmConfig(filepath.Join(repoRoot(), "pkg/drm/testdata/drm_config_test.json"))
	if err != nil {
		return nil, err
	}
	cfg := app.DefaultConfig
	cfg.VodRoot = bundledRoot()
	cfg.RepDataRoot = ""
	cfg.TimeoutS = 0
	cfg.LogLevel = "ERROR"
	cfg.DrmCfg = dc
	return app.SetupServer(context.Background(), &cfg)
}

func c07Drm(c *Ctx, viol func(kind, what, u string)) {
	a, errA := startDrmServer()
	b, errB := startDrmServer()
	if errA != nil || errB != nil {
		c.Violate("start", fmt.Sprintf("DRM-configured server: %v %v", errA, errB), []string{"# start"}, nil)
		return
	}
	var urls []string
	for _, pkg := range []string{"EZDRM-1-key-cbcs-test", "EZDRM-2-keys-cbcs-test"} {
		for _, rep := range []string{"V300", "A48"} {
			urls = append(urls, "/livesim2/drm_"+pkg+"/testpic_2s/"+rep+"/init.mp4?nowMS=610000",
				"/livesim2/drm_"+pkg+"/testpic_2s/"+rep+"/300.m4s?nowMS=610000")
		}
		urls = append(urls, "/livesim2/drm_"+pkg+"/testpic_2s/Manifest.mpd?nowMS=610000")
	}
	first := map[string]string{}
	for _, u := range urls {
		first[u] = serveURL(a, u)
	}
	for i := len(urls) - 1; i >= 0; i-- {
		u := urls[i]
		if got := serveURL(b, u); got != first[u] {
			viol("history", fmt.Sprintf("DRM packages asked in the opposite order on a fresh instance: %s instead of %s", got, first[u]), u)
		}
		c.Count("responses-compared")
	}
	for _, u := range urls { // and again on the first instance
		if got := serveURL(a, u); got != first[u] {
			viol("history", fmt.Sprintf("asked again: %s instead of %s as answered first", got, first[u]), u)
		}
		c.Count("responses-compared")
	}
}
