package main

// C20 at the interval rollover with a counter log file configured: the Inc that finds the interval elapsed writes the
// counters to the log and restarts them.  Requests that arrive while that write is in progress (a slow disk: here a
// FIFO whose reader shows up late, and a plain file) belong to the new interval exactly once.

import (
	"fmt"
	"io"
	"os"
	"path/filepath"
	"sort"
	"sync"
	"syscall"
	"time"

	"github.com/Dash-Industry-Forum/livesim2/cmd/livesim2/app"
)

func c20Rollover(c *Ctx) {
	dir, err := os.MkdirTemp(c.OutDir, "c20log")
	if err != nil {
		return
	}
	defer os.RemoveAll(dir)
	rounds := c.N(6, 40)
	for rd := 0; rd < rounds; rd++ {
		slow := rd%2 == 0
		g := c.Rng.Range(2, 8)
		max := c.Rng.Range(1, g+1)
		logPath := filepath.Join(dir, fmt.Sprintf("log%d", rd))
		stop := make(chan struct{})
		var rdWG sync.WaitGroup
		if slow {
			if err := syscall.Mkfifo(logPath, 0o600); err != nil {
				continue
			}
			rdWG.Add(1)
			go func() { // the "disk": accepts the write 80 ms late
				defer rdWG.Done()
				time.Sleep(80 * time.Millisecond)
				for {
					fh, err := os.OpenFile(logPath, os.O_RDONLY|syscall.O_NONBLOCK, 0)
					if err == nil {
						_, _ = io.Copy(io.Discard, fh)
						fh.Close()
					}
					select {
					case <-stop:
						return
					case <-time.After(5 * time.Millisecond):
					}
				}
			}()
		}
		il, err := app.NewIPRequestLimiter(max, time.Second, limStart, "", logPath)
		if err != nil {
			close(stop)
			rdWG.Wait()
			continue
		}
		ip := "203.0.113.7"
		for k := 0; k < max+1; k++ { // first interval: sequential, one over the quota
			il.Inc(limStart.Add(time.Duration(k)*time.Millisecond), ip)
		}
		nrs := make([]int, g)
		oks := make([]bool, g)
		var wg sync.WaitGroup
		for i := 0; i < g; i++ {
			wg.Add(1)
			go func(i int) {
				defer wg.Done()
				if i > 0 {
					time.Sleep(time.Duration(5*i) * time.Millisecond) // arrive while the first one is writing
				}
				nrs[i], _, oks[i] = il.Inc(limStart.Add(time.Second+time.Duration(10+i)*time.Millisecond), ip)
			}(i)
		}
		done := make(chan struct{})
		go func() { wg.Wait(); close(done) }()
		hung := false
		select {
		case <-done:
		case <-time.After(5 * time.Second):
			hung = true
		}
		close(stop)
		if hung {
			c.Violate("rollover-hang", "Inc does not return at the interval rollover with a log file", []string{fmt.Sprintf("# rollover g=%d max=%d slow=%v", g, max, slow)}, nil)
			return
		}
		rdWG.Wait()
		c.Count("rollover-rounds")
		sorted := append([]int(nil), nrs...)
		sort.Ints(sorted)
		okSeq, np := true, 0
		for i, v := range sorted {
			if v != i+1 {
				okSeq = false
			}
			if oks[i] {
				np++
			}
		}
		want := max
		if want > g {
			want = g
		}
		if !okSeq || np != want {
			c.Violate("rollover", fmt.Sprintf("%d requests right after the interval ended (log file configured, slow=%v): counts %v, %d passed, quota %d", g, slow, sorted, np, max),
				[]string{fmt.Sprintf("# rollover g=%d max=%d slow=%v", g, max, slow)}, nil)
			return
		}
	}
}
