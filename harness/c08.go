package main

// C08: no request can crash a handler or make it spin — op `cfg <url-path>` (URL configuration parser vs. the Lean
// model) and a request fuzzer over all endpoints of the livesim2 server and the ingest receiver (monitor).

import (
	"bufio"
	"bytes"
	"context"
	"encoding/hex"
	"encoding/json"
	"fmt"
	"io"
	"log/slog"
	"net/http"
	"net/http/httptest"
	"os"
	"os/exec"
	"path/filepath"
	"regexp"
	"runtime"
	"runtime/debug"
	"sort"
	"strconv"
	"strings"
	"syscall"
	"time"

	"github.com/Eyevinn/mp4ff/mp4"

	recv "github.com/Dash-Industry-Forum/livesim2/cmd/cmaf-ingest-receiver/app"
	"github.com/Dash-Industry-Forum/livesim2/cmd/livesim2/app"
)

func init() {
	generators["C08"] = genC08
	opExec["cfg"] = execCfg
	opExec["req"] = func(a []string) string {
		if len(a) != 2 {
			return "bad-op"
		}
		n, err := strconv.Atoi(a[1])
		if err != nil {
			return "bad-op"
		}
		return app.VerifCfgFromRequest(a[0], n)
	}
}

func execCfg(a []string) string {
	if len(a) != 2 {
		return "bad-op"
	}
	n, err := strconv.Atoi(a[1])
	if err != nil {
		return "bad-op"
	}
	return app.VerifProcessURLCfg(a[0], n)
}

type fuzzRes struct {
	code     int
	fullBody string
	body     string
	panic    string
	spin     bool
}

// serveGuarded runs a handler under recover and a deadline. A panic inside chi's Recoverer shows as 500 with an empty body.
func serveGuarded(h http.Handler, req *http.Request) fuzzRes {
	done := make(chan fuzzRes, 1)
	go func() {
		rec := httptest.NewRecorder()
		defer func() {
			if r := recover(); r != nil {
				if os.Getenv("VERIF_C08_STACK") != "" {
					fmt.Fprintf(os.Stderr, "PANIC %s %s: %v\n%s\n", req.Method, req.URL, r, debug.Stack())
				}
				done <- fuzzRes{panic: panicKind(r)}
			}
		}()
		h.ServeHTTP(rec, req)
		noteContentLength(req.Method, req.URL.String(), rec)
		full := rec.Body.String()
		b := full
		if len(b) > 200 {
			b = b[:200]
		}
		done <- fuzzRes{code: rec.Code, body: b, fullBody: full}
	}()
	select {
	case r := <-done:
		if r.code == 500 && strings.TrimSpace(r.body) == "" && r.panic == "" {
			r.panic = "recovered-by-middleware"
		}
		return r
	case <-time.After(4 * time.Second):
		if os.Getenv("VERIF_C08_STACK") != "" {
			buf := make([]byte, 1<<20)
			n := runtime.Stack(buf, true)
			fmt.Fprintf(os.Stderr, "SPIN %s %s\n%s\n", req.Method, req.URL, buf[:n])
		}
		return fuzzRes{spin: true}
	}
}

var badValues = []string{"", "0", "-1", "1", "2147483648", "9223372036854775807", "18446744073709551616", "1e9", "0.0001", "inf",
	"nan", "-inf", "1e300", "-1e300", "1e-300", "-5", "-0.5", "x", "1_2", ",", "[{}]", "-900", "3601", "%00", "a=b", "a"}

var urlKeys = []string{"start", "ast", "stop", "startrel", "stoprel", "dur", "timeoffset", "init", "tsbd", "mup", "tfdt", "cont", "periods",
	"xlink", "etp", "etpDuration", "insertad", "continuous", "segtimeline", "segtimelinenr", "peroff", "scte35", "utc", "snr", "ato", "ltgt",
	"spd", "sidx", "segtimelineloss", "chunkdur", "timesubsstpp", "timesubswvtt", "timesubsdur", "timesubsreg", "statuscode", "traffic",
	"drm", "eccp", "patch", "annexI", "modulo"}

func genC08(c *Ctx) {
	s := getServer()
	r := c.Rng
	nReq := 0
	report := func(kind, what, method, url string, body string) {
		op := fmt.Sprintf("# %s %s", method, url)
		if body != "" {
			op += " body=" + body
		}
		c.Violate(kind, what, []string{op}, nil)
	}
	try := func(h http.Handler, hname, method, url string, body string, hdr map[string]string) fuzzRes {
		var rd io.Reader
		if body != "" {
			rd = strings.NewReader(body)
		}
		req := httptest.NewRequest(method, url, rd)
		for k, v := range hdr {
			req.Header.Set(k, v)
		}
		res := serveGuarded(h, req)
		nReq++
		c.Count("req." + hname)
		switch {
		case res.spin:
			report("spin", hname+": request does not terminate", method, url, body)
		case res.panic != "":
			report("panic", hname+": handler dies of a runtime error ("+res.panic+")", method, url, body)
		}
		c.Count(fmt.Sprintf("status.%d", res.code/100*100))
		if hname == "livesim" && res.code >= 500 && res.panic == "" && !strings.Contains(res.body, "triggered code") && !strings.Contains(res.body, "Hang") {
			// every request of the fuzzer is a GET on loaded assets: malformed / out-of-range parameters are 4xx, unknown things 404
			report("5xx", fmt.Sprintf("livesim: a request with malformed, out-of-range or unknown parameters is answered %d %q instead of 4xx", res.code, strings.TrimSpace(res.body)), method, url, body)
		}
		if res.code >= 500 && res.panic == "" && os.Getenv("VERIF_C08_5XX") != "" {
			fmt.Fprintf(os.Stderr, "5XX %d %s %s => %q\n", res.code, method, url, res.body)
		}
		return res
	}
	tails := []string{"testpic_2s/Manifest.mpd", "testpic_2s/V300/49.m4s", "testpic_2s/A48/49.m4s", "testpic_2s/V300/init.mp4",
		"testpic_2s/thumbs/49.jpg", "testpic_2s/timestpp-en/49.m4s", "testpic_2s/timewvtt-en/init.mp4", "gen_irreg/Manifest.mpd", "gen_one/A1/5.m4s",
		"testpic_2s/Manifest_thumbs.mpd", "testpic_2s/imsc1_txt_sv/49.m4s"}
	// corpus: the requests of past findings run first
	for _, u := range []string{
		"/livesim2/start_%00/testpic_2s/Manifest.mpd?nowMS=100300",
		"/livesim2/stoprel_x/testpic_2s/V300/49.m4s?nowMS=100300",
		"/livesim2/annexI_a/testpic_2s/Manifest.mpd?nowMS=100300",
		"/livesim2/drm_X/testpic_2s/V300/49.m4s?nowMS=100300", "/livesim2/eccp_foo/testpic_2s/V300/init.mp4?nowMS=100300", "/livesim2/eccp_foo/testpic_2s/A48/49.m4s?nowMS=100300",
		"/livesim2/eccp_cenc/timesubsstpp_en/testpic_2s/imsc1_txt_sv/49.m4s?nowMS=100300",
		"/livesim2/chunkdur_1/testpic_2s/thumbs/49.jpg?nowMS=100300",
		"/livesim2/segtimeline_1/testpic_2s/V300/49.m4s?nowMS=100300", "/livesim2/testpic_2s/V300/99999999999999999999.m4s?nowMS=100300", "/livesim2/segtimeline_1/testpic_2s/A48/4.m4s?nowMS=100300",
		"/livesim2/ato_-5/segtimeline_1/testpic_2s/Manifest.mpd?nowMS=100300", "/livesim2/ato_nan/segtimeline_1/testpic_2s/Manifest.mpd?nowMS=100300",
		"/livesim2/stoprel_9223372036854775807/timesubswvtt_1/testpic_2s/Manifest_thumbs.mpd?nowMS=0", "/livesim2/segtimeline_1/testpic_2s/Manifest.mpd?nowMS=9223372036854775807",
		"/livesim2/timesubsdur_0/timesubsstpp_en/testpic_2s/timestpp-en/49.m4s?nowMS=100300",
		"/livesim2/segtimeline_1/timesubsstpp_en/gen_irreg/Manifest.mpd?nowMS=100300",
		"/livesim2/snr_100/timesubsstpp_en/testpic_2s/timestpp-en/49.m4s?nowMS=100300", "/livesim2/snr_2147483648/timesubswvtt_en/testpic_2s/timewvtt-en/49.m4s?nowMS=100300",
		"/livesim2/periods_3600/testpic_2s/Manifest.mpd?nowMS=100300", "/livesim2/periods_7/segtimeline_1/testpic_2s/Manifest.mpd?nowMS=100300", "/livesim2/ato_inf/segtimeline_1/testpic_2s/Manifest.mpd?nowMS=100300",
		"/livesim2/traffic_u9223372036854775808u9223372036854775808/testpic_2s/bu0/V300/49.m4s?nowMS=100300",
		"/livesim2/statuscode_[{cycle:1152921504606846976,rsq:0,code:404}]/testpic_2s/V300/49.m4s?nowMS=100300",
	} {
		try(s.LiveRouter, "livesim", "GET", u, "", nil)
	}
	// BaseURL directories that the MPD never offers (signed, out of range, not a number) with traffic patterns configured
	for _, tr := range []string{"u20d10", "u20d10,d10u20", "d5,u5,s1u9"} {
		for _, bu := range []string{"bu-1", "bu-2", "bu-17", "bu+1", "bu-0", "bu2", "bu3", "bu99", "bu9223372036854775807", "bu9223372036854775808", "bu-9223372036854775808", "bux", "bu", "bu1.5", "bu%201"} {
			try(s.LiveRouter, "livesim", "GET", fmt.Sprintf("/livesim2/traffic_%s/testpic_2s/%s/V300/49.m4s?nowMS=100300", tr, bu), "", nil)
			try(s.LiveRouter, "livesim", "GET", fmt.Sprintf("/livesim2/traffic_%s/testpic_2s/%s/Manifest.mpd?nowMS=100300", tr, bu), "", nil)
		}
	}
	// low-latency mode with an availability offset around the segment duration (exactly equal: no chunk duration is left)
	for _, as := range [][2]string{{"testpic_2s", "2"}, {"testpic_8s", "8"}, {"testpic_6s", "6"}} {
		for _, ato := range []string{as[1], as[1] + ".000", as[1] + ".001", "1.999", "7.999", "5.9999", "0", "-0", "0.0001"} {
			for _, tail := range []string{"V300/49.m4s", "A48/49.m4s", "V300/12.m4s", "Manifest.mpd"} {
				try(s.LiveRouter, "livesim", "GET", fmt.Sprintf("/livesim2/chunkdur_1/ato_%s/%s/%s?nowMS=100300", ato, as[0], tail), "", nil)
				try(s.LiveRouter, "livesim", "GET", fmt.Sprintf("/livesim2/ato_%s/chunkdur_0.25/%s/%s?nowMS=100300", ato, as[0], tail), "", nil)
			}
		}
	}
	// the patch endpoint with paths that are no patch documents (segments whole and chunked, init, thumbnails, MPD, nothing)
	for _, feat := range []string{"", "chunkdur_0.5/ato_1/", "patch_60/segtimeline_1/", "eccp_cenc/", "timesubsstpp_en/", "periods_60/"} {
		for _, tail := range []string{"V300/40.m4s", "A48/40.m4s", "V300/init.mp4", "thumbs/40.jpg", "timestpp-en/40.m4s", "Manifest.mpd", "Manifest.mpp", "Manifest", "", "V300/40.mpp", "x.mpp/V300/40.m4s"} {
			for _, q := range []string{"?publishTime=1970-01-01T00:01:30Z", "?publishTime=1970-01-01T00:01:30Z&nowMS=100300", ""} {
				try(s.Router, "router", "GET", "/patch/livesim2/"+feat+"testpic_2s/"+tail+q, "", nil)
			}
		}
	}
	// parameters that move the instant or the stream's time span x parameters that switch a feature on x kinds of request
	shifters := []string{"timeoffset_-200", "timeoffset_-99.5", "timeoffset_1000", "start_101", "start_100", "startrel_10", "startrel_-10", "stop_50", "stop_0", "stoprel_-1000", "stoprel_0",
		"start_-10", "timeoffset_-100.3", "start_100/timeoffset_-0.5"}
	features := []string{"", "periods_60", "periods_60/continuous_1", "segtimeline_1", "segtimelinenr_1", "timesubsstpp_en", "scte35_2", "patch_60/segtimeline_1", "statuscode_[{cycle:30,rsq:0,code:404}]",
		"chunkdur_0.5/ato_1", "ato_1.5", "tsbd_0", "tsbd_172800", "snr_7", "mup_2/spd_4", "traffic_u3d2", "eccp_cenc", "periods_60/segtimeline_1", "periods_1800/segtimelinenr_1", "ato_inf"}
	kinds := []string{"testpic_2s/Manifest.mpd", "testpic_2s/V300/49.m4s", "testpic_2s/A48/49.m4s", "testpic_2s/V300/98000.m4s", "testpic_2s/V300/init.mp4", "testpic_2s/thumbs/49.jpg", "gen_irreg/Manifest.mpd",
		"timesubsstpp_en/testpic_2s/timestpp-en/49.m4s"}
	for _, sh := range shifters {
		for _, ft := range features {
			for _, kd := range kinds {
				if !c.Thorough() && r.Intn(4) != 0 && sh != "timeoffset_-200" {
					continue
				}
				u := "/livesim2/" + sh + "/"
				if ft != "" {
					u += ft + "/"
				}
				u += kd + "?nowMS=100000"
				try(s.LiveRouter, "livesim", "GET", u, "", nil)
			}
		}
	}
	// single bad values for every key
	for _, k := range urlKeys {
		for _, v := range badValues {
			if !c.Thorough() && r.Intn(3) != 0 {
				continue
			}
			tail := tails[r.Intn(len(tails))]
			extra := ""
			if strings.Contains(tail, "times") {
				extra = "timesubsstpp_en/timesubswvtt_en/"
			}
			url := fmt.Sprintf("/livesim2/%s_%s/%s%s?nowMS=100300", k, v, extra, tail)
			res := try(s.LiveRouter, "livesim", "GET", url, "", nil)
			if res.code >= 500 && res.panic == "" && !res.spin {
				c.Count("livesim.5xx")
			}
		}
	}
	// pairwise
	for i := 0; i < c.N(1500, 12000); i++ {
		k1, k2 := urlKeys[r.Intn(len(urlKeys))], urlKeys[r.Intn(len(urlKeys))]
		good := map[string][]string{"start": {"61"}, "tsbd": {"30"}, "periods": {"60"}, "snr": {"5"}, "ato": {"1.5", "2", "inf"}, "chunkdur": {"0.25", "1"},
			"scte35": {"2"}, "segtimeline": {"1"}, "segtimelinenr": {"1"}, "statuscode": {"[{cycle:30,rsq:0,code:404}]"}, "traffic": {"u10", "u5d5,d3"},
			"eccp": {"cenc", "cbcs", "foo"}, "drm": {"EZDRM"}, "patch": {"60"}, "timesubsstpp": {"en,sv"}, "timesubsdur": {"900", "1500"}, "stop": {"200"},
			"annexI": {"a=1,b=2"}, "utc": {"head-ntp", "keep"}, "ltgt": {"2000"}, "mup": {"2"}}
		pick := func(k string) string {
			if g, ok := good[k]; ok && r.Intn(2) == 0 {
				return g[r.Intn(len(g))]
			}
			return badValues[r.Intn(len(badValues))]
		}
		tail := tails[r.Intn(len(tails))]
		if r.Intn(4) == 0 { // segment-name shapes
			tail = "testpic_2s/" + r.PickS("V300/0.m4s", "V300/4294967301.m4s", "V300/9223372036854775807.m4s", "V300/99999999999999999999.m4s", "A48/0.m4s",
				"A48/4.m4s", "bu-1/V300/49.m4s", "bu99/V300/49.m4s", "bu0/V300/49.m4s", "nosuch/1.m4s", "V300/49.jpg", "timestpp-zz/49.m4s", "V300/-1.m4s", "V300/.m4s",
				"thumbs/0.jpg", "V300/49.cmfv", "Manifest.mpd/x.m4s", "")
		}
		url := fmt.Sprintf("/livesim2/%s_%s/%s_%s/%s?nowMS=%d", k1, pick(k1), k2, pick(k2), tail, r.Pick(100300, 10300, 0, 1790000000000, 100300, 9223372036854775807, 68719476736000, -1))
		try(s.LiveRouter, "livesim", "GET", url, "", nil)
	}
	// other endpoints of the main router
	for _, u := range []string{"/", "/assets", "/vod", "/config", "/version", "/healthz", "/reqcount", "/metrics", "/urlgen/", "/urlgen/mpds?asset=testpic_2s",
		"/urlgen/mpds?asset=nosuch", "/urlgen/drms?asset=testpic_2s", "/urlgen/drms?asset=nosuch", "/urlgen/create?asset=testpic_2s&mpd=Manifest.mpd",
		"/urlgen/create?tsbd=x", "/urlgen/create?ltgt=x", "/urlgen/create?patch-ttl=x", "/urlgen/create?asset=testpic_2s&tsbd=-1&ato=inf&chunkdur=x&stl=nr&periods=x&snr=x",
		"/urlgen/create?asset=testpic_2s&mpd=Manifest.mpd&drm=eccp-cenc&scte35=4&statuscode=zz&traffic=,&timesubsdur=0&annexI=a", "/urlgen/nosuch",
		"/patch/livesim2/patch_60/segtimeline_1/testpic_2s/Manifest.mpp", "/patch/livesim2/patch_60/segtimeline_1/testpic_2s/Manifest.mpp?publishTime=x",
		"/patch/livesim2/patch_60/segtimeline_1/testpic_2s/Manifest.mpp?publishTime=2026-01-01T00:00:00Z&nowMS=x", "/patch/x", "/patch/livesim2/testpic_2s/Manifest.mpp?publishTime=2026-01-01T00:00:00Z",
		"/vod/testpic_2s/Manifest.mpd", "/vod/../../etc/passwd", "/vod/testpic_2s/V300/1.m4s", "/static/time.txt", "/static/nosuch", "/livesim/x", "/dash/vod/x", "/favicon.ico",
		"/api/cmaf-ingests", "/api/cmaf-ingests/0", "/api/cmaf-ingests/x", "/api/cmaf-ingests/18446744073709551616", "/api/nosuch"} {
		try(s.Router, "router", "GET", u, "", nil)
	}
	// licence endpoint (POST)
	for _, b := range []string{``, `x`, `{}`, `{"kids":[],"type":"temporary"}`, `{"kids":["AAAAAAAAAAAAAAAAAAAAAA"],"type":"temporary"}`, `{"kids":["x"],"type":"temporary"}`,
		`{"kids":["KID_short"],"type":1}`, `{"kids":[null]}`, `[]`, `{"kids":["` + strings.Repeat("A", 5000) + `"]}`} {
		try(s.Router, "laurl", "POST", "/livesim2/eccp_cenc/testpic_2s/eccp.json", b, map[string]string{"Content-Type": "application/json"})
		try(s.Router, "laurl", "POST", "/eccp.json", b, nil)
	}
	// ingest API
	for _, u := range [][3]string{{"POST", "/api/cmaf-ingests", `{}`}, {"POST", "/api/cmaf-ingests", `x`}, {"POST", "/api/cmaf-ingests", `{"livesimURL":"x","destRoot":"x","destName":"x"}`},
		{"GET", "/api/cmaf-ingests/99/step", ""}, {"DELETE", "/api/cmaf-ingests/99", ""}, {"DELETE", "/api/cmaf-ingests/x", ""}, {"GET", "/api/cmaf-ingests/-1/step", ""}} {
		try(s.Router, "api", u[0], u[1], u[2], map[string]string{"Content-Type": "application/json"})
	}
	nReq += c08Receiver(c)
	nReq += c08Ingest(c)
	nReq += c08Limited(c)
	c16StepRaces(c, getServer()) // API requests racing with the end of an ingest session must return
	// ---- cfg op: URL configuration parser vs. the Lean model ----
	intVals := []string{"0", "1", "-1", "2", "3", "4", "60", "900", "3600", "3601", "172800", "172801", "68719476736", "68719476737", "-68719476737",
		"9223372036854775807", "9223372036854775808", "-9223372036854775808", "-9223372036854775809", "007", "-0", "x", "", "1.5", "1e3", "0x10", "1_0", "--1", "-", " 1", "1 "}
	floatVals := []string{"0", "1", "0.5", "1.5", "2", "2.25", "0.001", "1.999", "10", "-1", "-0.5", "inf", "Inf", "INF", "infinity", "-inf", "nan", "NaN", "x", "", "1.5.5", ".", "-", "68719476736", "68719476736.001", "68719476737"}
	keyVals := map[string][]string{
		"utc": {"direct", "ntp-sntp", "head", "keep", "keep-ntp", "bad", "", "ntp-", "httpxsdate-httpiso-httpxsdatems-httpisoms-none"},
		"statuscode": {"[{cycle:30,rsq:0,code:404}]", "[{cycle:0,rsq:0,code:404}]", "[{cycle:3,rsq:-1,code:404}]", "[{cycle:3,rsq:1,code:200}]", "[{x}]", "[{cycle:30,rsq:0,code:404,rep:V300}]",
			"[{cycle:30,rsq:0,code:404},{cycle:5,rsq:1,code:599,rep:*}]", "[{cycle:68719476737,rsq:0,code:404}]", "[{cycle:68719476736,rsq:0,code:400}]", "[{}]", "[]", "x", "", "[{cycle:30}]", "[{code:404}]",
			"[++]", "++++", "[+{+]", "{+++", "[{+}]", "[+{cycle:30,+rsq:0,code:404}+]", "[{cycle:30,rsq:0,code:404}+]", "[]++", // '+' is a blank after QueryUnescape
			"[{cycle:30,rsq:0,code:404,rep:}]", "[{cycle:30,rsq:0,code:404,zz:1}]", "{{cycle:30,rsq:0,code:404}}", "[{cycle:1:2,rsq:0,code:404}]", "[{cycle:x,rsq:0,code:404}]", "[{cycle:5,cycle:7,rsq:0,code:404}]"},
		"traffic":      {"u10", "u10,d5", ",", "u0", "u10d", "d1u1s1h1", "x", "", "u68719476736", "u68719476737", "u9223372036854775808u9223372036854775808", "10u3", "u1,,u2", "U1"},
		"annexI":       {"a=1", "a", "a=1=2", "a=1,b=2", "", "a=,b", "=", ","},
		"timesubsstpp": {"en", "en,sv", "", ","},
		"timesubswvtt": {"en", "en,sv", ""},
		"drm":          {"EZDRM", "", "x_y"},
		"eccp":         {"cenc", "cbcs", "foo", ""},
	}
	intKeys := []string{"start", "ast", "stop", "startrel", "stoprel", "dur", "init", "tsbd", "mup", "periods", "xlink", "etp", "etpDuration", "peroff", "scte35", "snr", "ltgt", "spd",
		"timesubsdur", "timesubsreg", "patch"}
	floatKeys := []string{"timeoffset", "ato", "chunkdur"}
	flagKeys := []string{"tfdt", "cont", "insertad", "continuous", "segtimeline", "segtimelinenr", "sidx", "segtimelineloss", "modulo", "nosuchkey"}
	var allKeys []string
	allKeys = append(allKeys, intKeys...)
	allKeys = append(allKeys, floatKeys...)
	allKeys = append(allKeys, flagKeys...)
	for k := range keyVals {
		allKeys = append(allKeys, k)
	}
	sort.Strings(allKeys)
	valFor := func(key string) string {
		if vs, ok := keyVals[key]; ok {
			return vs[r.Intn(len(vs))]
		}
		for _, k := range floatKeys {
			if k == key {
				return floatVals[r.Intn(len(floatVals))]
			}
		}
		for _, k := range flagKeys {
			if k == key {
				return r.PickS("1", "0", "", "x")
			}
		}
		if r.Intn(3) == 0 {
			return r.PickS("0", "1", "2", "30", "60", "100")
		}
		return intVals[r.Intn(len(intVals))]
	}
	emitCfg := func(parts []string, now int) {
		url := "/livesim2/" + strings.Join(parts, "/")
		if strings.ContainsAny(url, " %") {
			url = strings.NewReplacer(" ", "", "%", "").Replace(url) // the line protocol is space separated; '+' stands for a blank (QueryUnescape), '%' escapes are not generated
		}
		c.Emit("cfg "+url+" "+strconv.Itoa(now), len(parts) > 1)
	}
	tailsCfg := []string{"testpic_2s/Manifest.mpd", "asset/x.mpd", "novalue", "a_b/Manifest.mpd", "testpic_2s/V300/1.m4s"}
	// every key with every value of its domain, alone
	for _, key := range allKeys {
		var vs []string
		switch {
		case keyVals[key] != nil:
			vs = keyVals[key]
		case key == "timeoffset" || key == "ato" || key == "chunkdur":
			vs = floatVals
		default:
			vs = intVals
		}
		for _, v := range vs {
			emitCfg([]string{key + "_" + v, tailsCfg[0]}, 100300)
		}
	}
	// no content part, empty parts, parts without underscore first
	for _, ps := range [][]string{{}, {""}, {"tsbd_30"}, {"tsbd_30", ""}, {"", "tsbd_30", "x"}, {"x", "tsbd_y"}, {"tsbd_30", "tsbd_y"}, {"segtimeline_1", "segtimelinenr_1", "a.mpd"}, {"continuous_1", "a.mpd"},
		{"continuous_1", "periods_60", "a.mpd"}, {"ato_1", "a.mpd"}, {"ato_1", "ltgt_7", "a.mpd"}, {"ato_0", "a.mpd"}, {"chunkdur_1", "a.mpd"}, {"startrel_5", "a.mpd"}, {"stoprel_5", "a.mpd"},
		{"startrel_9223372036854775807", "a.mpd"}, {"stoprel_-9223372036854775808", "a.mpd"}} {
		for _, now := range []int{100300, 0, -1, 68719476736000, 68719476736001, 1790000000250} {
			emitCfg(ps, now)
		}
	}
	// cfgFromRequest: the instant after timeoffset against the start time
	for _, to := range []string{"", "timeoffset_0", "timeoffset_-200", "timeoffset_200", "timeoffset_-0.5", "timeoffset_1.5", "timeoffset_-100", "timeoffset_-100.5", "timeoffset_x", "timeoffset_inf", "timeoffset_68719476736", "timeoffset_-68719476736"} {
		for _, st := range []string{"", "start_0", "start_100", "start_101", "start_-5", "startrel_0", "startrel_5", "startrel_-5", "start_68719476736"} {
			for _, now := range []int{100000, 100499, 0, 99999, 68719476736000} {
				var ps []string
				for _, x := range []string{to, st} {
					if x != "" {
						ps = append(ps, x)
					}
				}
				ps = append(ps, "testpic_2s/Manifest.mpd")
				c.Emit(fmt.Sprintf("req /livesim2/%s %d", strings.Join(ps, "/"), now), len(ps) > 1)
			}
		}
	}
	// random combinations
	for i := 0; i < c.N(2500, 40000); i++ {
		var parts []string
		for k := r.Range(1, 4); k > 0; k-- {
			key := allKeys[r.Intn(len(allKeys))]
			parts = append(parts, key+"_"+valFor(key))
		}
		parts = append(parts, tailsCfg[r.Intn(len(tailsCfg))])
		emitCfg(parts, r.Pick(100300, 0, 1790000000250, 100300, 100300))
	}
	c.Stats["fuzz-requests"] = nReq
}

// mp4 box tree (containers only as deep as the handlers look)
type boxNode struct {
	off, size int
	typ       string
	parents   []int // offsets of enclosing boxes
}

var containerBoxes = map[string]bool{"moov": true, "trak": true, "mdia": true, "minf": true, "stbl": true, "mvex": true, "moof": true, "traf": true}

func boxTree(b []byte, base int, end int, parents []int, out *[]boxNode) {
	off := base
	for off+8 <= end {
		size := int(uint32(b[off])<<24 | uint32(b[off+1])<<16 | uint32(b[off+2])<<8 | uint32(b[off+3]))
		typ := string(b[off+4 : off+8])
		if size < 8 || off+size > end {
			return
		}
		*out = append(*out, boxNode{off, size, typ, append([]int(nil), parents...)})
		if containerBoxes[typ] {
			boxTree(b, off+8, off+size, append(append([]int(nil), parents...), off), out)
		}
		off += size
	}
}

func putU32(b []byte, off int, v uint32) {
	b[off], b[off+1], b[off+2], b[off+3] = byte(v>>24), byte(v>>16), byte(v>>8), byte(v)
}
func getU32(b []byte, off int) uint32 {
	return uint32(b[off])<<24 | uint32(b[off+1])<<16 | uint32(b[off+2])<<8 | uint32(b[off+3])
}

type mutant struct {
	label string
	data  []byte
}

// mutateMP4 returns structure-aware mutations of an MP4 byte string: every box removed (with the enclosing sizes
// adjusted), renamed, emptied, truncated at and inside every box, and size fields set to boundary values.
func mutateMP4(src []byte, r *Rng, all bool) []mutant {
	var nodes []boxNode
	boxTree(src, 0, len(src), nil, &nodes)
	var out []mutant
	add := func(label string, b []byte) { out = append(out, mutant{label, b}) }
	for _, n := range nodes {
		if !all && r.Intn(3) != 0 {
			continue
		}
		id := fmt.Sprintf("%s@%d", n.typ, n.off)
		// remove
		m := append(append([]byte(nil), src[:n.off]...), src[n.off+n.size:]...)
		for _, p := range n.parents {
			putU32(m, p, getU32(m, p)-uint32(n.size))
		}
		add("remove:"+id, m)
		// rename
		m = append([]byte(nil), src...)
		copy(m[n.off+4:], "free")
		add("rename:"+id, m)
		// keep only the header (children / payload gone)
		if n.size > 8 {
			m = append(append([]byte(nil), src[:n.off+8]...), src[n.off+n.size:]...)
			putU32(m, n.off, 8)
			for _, p := range n.parents {
				putU32(m, p, getU32(m, p)-uint32(n.size-8))
			}
			add("empty:"+id, m)
		}
		// truncations
		add("trunc0:"+id, append([]byte(nil), src[:n.off]...))
		add("trunc4:"+id, append([]byte(nil), src[:n.off+4]...))
		add("trunc8:"+id, append([]byte(nil), src[:n.off+8]...))
		if n.size > 12 {
			k := 8 + r.Intn(n.size-8)
			add(fmt.Sprintf("trunc%d:%s", k, id), append([]byte(nil), src[:n.off+k]...))
		}
		// size field
		for _, v := range []uint32{0, 1, 7, uint32(n.size - 1), uint32(n.size + 1), uint32(n.size + 100000)} {
			m = append([]byte(nil), src...)
			putU32(m, n.off, v)
			add(fmt.Sprintf("size%d:%s", v, id), m)
		}
		// payload bytes zeroed / set (versions, flags, counts)
		if n.size > 8 && !containerBoxes[n.typ] {
			m = append([]byte(nil), src...)
			for i := n.off + 8; i < n.off+n.size && i < n.off+40; i++ {
				m[i] = 0
			}
			add("zero:"+id, m)
			m = append([]byte(nil), src...)
			for i := n.off + 8; i < n.off+n.size && i < n.off+40; i++ {
				m[i] = 0xff
			}
			add("ff:"+id, m)
			m = append([]byte(nil), src...)
			k := 8 + r.Intn(n.size-8)
			bit := r.Intn(8)
			m[n.off+k] ^= byte(1 << bit)
			add(fmt.Sprintf("flip%d.%d:%s", k, bit, id), m)
		}
	}
	return out
}

// recvCase is one upload handed to the isolated child process.
type recvCase struct {
	H      string            `json:"h"`
	Method string            `json:"m"`
	Path   string            `json:"p"`
	Body   []byte            `json:"b"`
	Hdr    map[string]string `json:"hdr,omitempty"`
	Label  string            `json:"l,omitempty"`
}

// c08Receiver fuzzes the CMAF-ingest receiver's upload handler. The uploads run in a child process under an
// address-space limit, because a fatal error (out of memory, concurrent map write) cannot be recovered in-process.
func c08Receiver(c *Ctx) int {
	r := c.Rng
	initB, _ := readAsset("testpic_2s/V300/init.mp4")
	seg1, _ := readAsset("testpic_2s/V300/1.m4s")
	ainit, _ := readAsset("testpic_2s/A48/init.mp4")
	aseg1, _ := readAsset("testpic_2s/A48/1.m4s")
	var cases []recvCase
	add := func(h, m, p string, b []byte, hdr map[string]string, label string) {
		cases = append(cases, recvCase{h, m, p, b, hdr, label})
	}
	cat := func(a ...[]byte) []byte {
		var o []byte
		for _, x := range a {
			o = append(o, x...)
		}
		return o
	}
	bodies := [][]byte{nil, []byte("x"), initB, seg1, cat(initB, seg1), seg1[:40], initB[:30],
		[]byte("\x00\x00\x00\x00free"), []byte("\x00\x00\x00\x08moov"), []byte("\x00\x00\x00\x07mdatxxx"),
		[]byte("\x00\x10\x00\x00mdat" + strings.Repeat("x", 16)), // declared size far beyond the body (4 GiB sizes only allocate slowly: see C18)
		cat(initB, []byte("\x00\x00\x00\x10moof"+strings.Repeat("\x00", 8)+"\x00\x00\x00\x08mdat"))}
	paths := []string{"/upload/ch1/V300/init.cmfv", "/upload/ch1/V300/1.cmfv", "/upload/ch1/V300/Streams(video.cmfv)", "/upload/ch1/Streams(V300.cmfv)", "/upload/ch1/manifest.mpd",
		"/upload/ch1/V300/x.cmfv", "/upload/", "/upload/ch1", "/upload/ch1/V300/1.txt", "/upload/a/b/c/d/e/1.cmfa", "/upload/ch1/V300/99999999999999999999.cmfv", "/other/x",
		"/upload/ch1/V300/init.cmfv/", "/upload//V300/1.cmfv", "/upload/ch1//1.cmfv", "/upload/../x/V300/1.cmfv", "/upload/ch1/Streams(.cmfv)", "/upload/ch1/Streams()", "/upload/ch1/T1/1.cmft", "/upload/ch1/T1/1.cmfm"}
	for _, p := range paths {
		for bi, b := range bodies {
			for _, m := range []string{"PUT", "POST", "DELETE"} {
				add("receiver", m, p, b, nil, fmt.Sprintf("body%d", bi))
			}
		}
	}
	for _, cl := range []string{"x", "-1", "0", "5", "99999999", "1e3", "4611686018427387904", "68719476736", "9223372036854775807", "-9223372036854775808"} { // header lies
		add("receiver", "PUT", "/upload/chh/V300/1.cmfv", seg1, map[string]string{"Content-Length": cl}, "content-length="+cl)
	}
	// orderings: media before init, init twice, audio init on a video track, media of another track
	for i, seq := range [][]recvCase{
		{{Path: "/upload/o1/V300/1.cmfv", Body: seg1}, {Path: "/upload/o1/V300/init.cmfv", Body: initB}, {Path: "/upload/o1/V300/1.cmfv", Body: seg1}},
		{{Path: "/upload/o2/V300/init.cmfv", Body: initB}, {Path: "/upload/o2/V300/init.cmfv", Body: initB}, {Path: "/upload/o2/V300/1.cmfv", Body: seg1}, {Path: "/upload/o2/V300/1.cmfv", Body: seg1}},
		{{Path: "/upload/o3/V300/init.cmfv", Body: ainit}, {Path: "/upload/o3/V300/1.cmfv", Body: seg1}},
		{{Path: "/upload/o4/A48/init.cmfa", Body: ainit}, {Path: "/upload/o4/A48/1.cmfa", Body: seg1}, {Path: "/upload/o4/A48/2.cmfa", Body: aseg1}},
		{{Path: "/upload/o5/V300/init.cmfv", Body: initB}, {Path: "/upload/o5/V300/1.cmfv", Body: cat(seg1, seg1)}, {Path: "/upload/o5/V300/2.cmfv", Body: seg1[:len(seg1)/2]}},
	} {
		for j, st := range seq {
			add("receiver-seq", "PUT", st.Path, st.Body, nil, fmt.Sprintf("seq%d.%d", i, j))
		}
	}
	// structure-aware mutations of init and media segments (each init on its own channel so that one bad init does not mask the next)
	for n, m := range mutateMP4(initB, r, c.Thorough()) {
		ch := fmt.Sprintf("/upload/mi%d/V300/", n)
		add("receiver-init-mut", "PUT", ch+"init.cmfv", m.data, nil, m.label)
		add("receiver-init-mut", "PUT", ch+"1.cmfv", seg1, nil, "after:"+m.label)
	}
	add("receiver", "PUT", "/upload/mm/V300/init.cmfv", initB, nil, "init")
	add("receiver", "PUT", "/upload/mm/A48/init.cmfa", ainit, nil, "init")
	for _, m := range mutateMP4(seg1, r, c.Thorough()) {
		add("receiver-media-mut", "PUT", "/upload/mm/V300/1.cmfv", m.data, nil, m.label)
	}
	for _, m := range mutateMP4(aseg1, r, c.Thorough()) {
		add("receiver-media-mut", "PUT", "/upload/mm/A48/1.cmfa", m.data, nil, m.label)
	}
	// semantic mutations (decoded, changed, re-encoded): sequences of segments with degenerate timing
	for name, edit := range semEdits {
		ch := "/upload/sem-" + name + "/V300/"
		ini := initB
		if ib := editInit(initB, name); ib != nil {
			ini = ib
		}
		add("receiver-sem", "PUT", ch+"init.cmfv", ini, nil, name+":init")
		for k := uint32(1); k <= 4; k++ {
			if b := editSeg(seg1, k, edit); b != nil {
				add("receiver-sem", "PUT", fmt.Sprintf("%s%d.cmfv", ch, k), b, nil, fmt.Sprintf("%s:seg%d", name, k))
			}
		}
	}
	// decoded-edited-re-encoded init segments: sample entries without their configuration boxes
	for _, name := range initEditNames {
		vb := editInitBoxes(initB, name)
		ab := editInitBoxes(ainit, name)
		if vb != nil {
			ch := "/upload/ie-" + name + "/V300/"
			add("receiver-init-edit", "PUT", ch+"init.cmfv", vb, nil, name+":vinit")
			add("receiver-init-edit", "PUT", ch+"1.cmfv", seg1, nil, name+":vseg1")
		}
		if ab != nil {
			ch := "/upload/ie-" + name + "/A48/"
			add("receiver-init-edit", "PUT", ch+"init.cmfa", ab, nil, name+":ainit")
			add("receiver-init-edit", "PUT", ch+"1.cmfa", aseg1, nil, name+":aseg1")
		}
	}
	// the same degenerate segments on a non-master (audio) track that arrives before the video track
	for name, edit := range semEdits {
		ch := "/upload/sa-" + name + "/"
		ini := ainit
		if ib := editInit(ainit, name); ib != nil {
			ini = ib
		}
		add("receiver-sem-audio", "PUT", ch+"A48/init.cmfa", ini, nil, name+":ainit")
		for k := uint32(1); k <= 2; k++ {
			if b := editSeg(aseg1, k, edit); b != nil {
				add("receiver-sem-audio", "PUT", fmt.Sprintf("%sA48/%d.cmfa", ch, k), b, nil, fmt.Sprintf("%s:aseg%d", name, k))
			}
		}
		add("receiver-sem-audio", "PUT", ch+"V300/init.cmfv", initB, nil, name+":vinit")
		for k := uint32(1); k <= 3; k++ {
			if b := editSeg(seg1, k, semEdits["plain"]); b != nil {
				add("receiver-sem-audio", "PUT", fmt.Sprintf("%sV300/%d.cmfv", ch, k), b, nil, fmt.Sprintf("%s:vseg%d", name, k))
			}
		}
	}
	// a well-formed segment whose media-data box is larger than the parser's growth step (1 MiB): the bytes do arrive
	if bigInit, e1 := readAsset("WAVE/vectors/cfhd_sets/14.985_29.97_59.94/t1/2022-10-17/1/init.mp4"); e1 == nil {
		if bigSeg, e2 := readAsset("WAVE/vectors/cfhd_sets/14.985_29.97_59.94/t1/2022-10-17/1/180180.m4s"); e2 == nil && len(bigSeg) > 1<<20 {
			add("receiver", "PUT", "/upload/big/V1/init.cmfv", bigInit, nil, "init")
			add("receiver-big", "PUT", "/upload/big/V1/3.cmfv", bigSeg, nil, fmt.Sprintf("well-formed-%d-bytes", len(bigSeg)))
		}
	}
	add("receiver-alive", "PUT", "/upload/mm/V300/2.cmfv", seg1, nil, "well-formed-after-all")

	// run in the child
	dir := filepath.Join(c.OutDir, "recv")
	_ = os.RemoveAll(dir)
	_ = os.MkdirAll(dir, 0o755)
	defer os.RemoveAll(dir)
	runCases := func(cases []recvCase, file string) {
		cf := filepath.Join(dir, file)
		f, err := os.Create(cf)
		must(err)
		enc := json.NewEncoder(f)
		for _, cs := range cases {
			must(enc.Encode(cs))
		}
		f.Close()
		stack := ""
		report := func(cs recvCase, kind, what string) {
			c.Violate(kind, what, []string{fmt.Sprintf("# %s %s mut=%s", cs.Method, cs.Path, cs.Label)}, map[string]any{"body_hex": hex.EncodeToString(cs.Body), "headers": cs.Hdr, "stack": stack})
			stack = ""
		}
		from := 0
		for from < len(cases) {
			cmd := exec.Command(os.Args[0], "c08child", cf, strconv.Itoa(from), filepath.Join(dir, "storage"))
			var se strings.Builder
			cmd.Stderr = &se
			out, _ := cmd.Output()
			last := from - 1
			begun := -1
			for _, ln := range strings.Split(string(out), "\n") {
				fs := strings.Fields(ln)
				if len(fs) >= 2 && fs[0] == "B" {
					begun, _ = strconv.Atoi(fs[1])
				}
				if len(fs) >= 5 && fs[0] == "R" {
					i, _ := strconv.Atoi(fs[1])
					code, _ := strconv.Atoi(fs[2])
					last = i
					cs := cases[i]
					c.Count("req." + cs.H)
					c.Count(fmt.Sprintf("status.%d", code/100*100))
					switch {
					case fs[4] == "1":
						report(cs, "spin", cs.H+": request does not terminate within 4 s")
					case fs[3] != "-":
						report(cs, "panic", cs.H+": handler dies of a runtime error ("+fs[3]+")")
					case cs.H == "receiver-alive" && code != 200:
						report(cs, "receiver-stuck", fmt.Sprintf("after the malformed uploads a well-formed segment is answered %d", code))
					}
				}
			}
			if last == len(cases)-1 {
				break
			}
			// the child died: the case it had begun is the one that killed the process
			crash := last + 1
			if begun > last {
				crash = begun
			}
			why := "process exit"
			for _, ln := range strings.Split(se.String(), "\n") {
				if strings.HasPrefix(ln, "fatal error:") || strings.HasPrefix(ln, "panic:") {
					why = strings.TrimSpace(ln)
					break
				}
			}
			var fr []string
			for _, ln := range strings.Split(se.String(), "\n") {
				if strings.Contains(ln, "/repo/") && len(fr) < 6 {
					fr = append(fr, strings.TrimSpace(ln))
				}
			}
			stack = strings.Join(fr, " <- ")
			report(cases[crash], "fatal", cases[crash].H+": the whole receiver process dies ("+why+")")
			from = crash + 1
		}
	}
	runCases(cases, "cases.jsonl")
	// restart: a new receiver process on the storage the uploads above have left (stored init segments are decoded
	// again when a track is first touched), one well-formed segment per track that was ever addressed
	seen := map[string]bool{}
	var again []recvCase
	for _, cs := range cases {
		m := trackPathRe.FindStringSubmatch(cs.Path)
		if m == nil || seen[m[1]] || cs.Method != "PUT" {
			continue
		}
		seen[m[1]] = true
		if !c.Thorough() && strings.HasPrefix(m[1], "/upload/mi") && len(seen)%5 != 0 {
			continue // quick tier: a fifth of the byte-mutated inits (the edited ones all run)
		}
		body, ext := seg1, ".cmfv"
		if strings.Contains(m[1], "A48") {
			body, ext = aseg1, ".cmfa"
		}
		again = append(again, recvCase{"receiver-restart", "PUT", m[1] + "/7" + ext, body, nil, "restart-after:" + cs.Label})
	}
	runCases(again, "cases2.jsonl")
	cases = append(cases, again...)
	return len(cases)
}

var trackPathRe = regexp.MustCompile(`^(/upload/[-A-Za-z0-9_]+/[-A-Za-z0-9_]+)/[^/]+\.cmf[va]$`)

// c08Limited: a server with the request limiter switched on (quota, one-second interval, counter log file): requests
// within the first interval, beyond the quota, and after the interval has ended (the counters are written to the log and
// restart) all terminate with a deliberate status.
func c08Limited(c *Ctx) int {
	dir, err := os.MkdirTemp(c.OutDir, "c08lim")
	if err != nil {
		return 0
	}
	defer os.RemoveAll(dir)
	cfg := app.DefaultConfig
	cfg.VodRoot = vodRoot()
	cfg.RepDataRoot = ""
	cfg.TimeoutS = 0
	cfg.LogLevel = "ERROR"
	cfg.MaxRequests = 4
	cfg.ReqLimitInt = 1
	cfg.ReqLimitLog = filepath.Join(dir, "reqlimit.log")
	s, err := app.SetupServer(context.Background(), &cfg)
	if err != nil {
		c.Count("limited-server-setup-failed")
		return 0
	}
	n := 0
	urls := []string{"/livesim2/testpic_2s/Manifest.mpd?nowMS=100300", "/livesim2/testpic_2s/V300/init.mp4?nowMS=100300", "/livesim2/tsbd_x/testpic_2s/Manifest.mpd", "/livesim2/nosuch/Manifest.mpd",
		"/livesim2/testpic_2s/V300/49.m4s?nowMS=100300", "/reqcount", "/vod/testpic_2s/Manifest.mpd"}
	for round := 0; round < 3; round++ {
		for _, u := range urls {
			req := httptest.NewRequest("GET", u, nil)
			req.RemoteAddr = "203.0.113.9:4711"
			res := serveGuarded(s.Router, req)
			n++
			c.Count("req.limited")
			line := []string{fmt.Sprintf("# limited-server round=%d GET %s", round, u)}
			switch {
			case res.spin:
				c.Violate("spin", fmt.Sprintf("server with request limiter and counter log, interval %d: the request does not terminate within 4 s", round), line, nil)
				return n
			case res.panic != "":
				c.Violate("panic", "server with request limiter: handler dies of a runtime error ("+res.panic+")", line, nil)
			case res.code != 200 && res.code != 400 && res.code != 404 && res.code != 429:
				c.Violate("5xx", fmt.Sprintf("server with request limiter: status %d", res.code), line, nil)
			}
		}
		time.Sleep(1050 * time.Millisecond) // the interval ends
	}
	// a client address the limiter cannot read: refused with 4xx and a message, not answered 200
	for _, ra := range []string{"[fe80::1%eth0]:1234", "garbage", ""} {
		req := httptest.NewRequest("GET", urls[0], nil)
		req.RemoteAddr = ra
		res := serveGuarded(s.Router, req)
		n++
		c.Count("req.limited-bad-address")
		if res.spin || res.panic != "" || res.code < 400 || res.code >= 500 {
			c.Violate("5xx", fmt.Sprintf("server with request limiter, unreadable client address %q: answered %d %s (a refusal must be a 4xx)", ra, res.code, res.panic),
				[]string{fmt.Sprintf("# limited-server RemoteAddr=%q GET %s", ra, urls[0])}, nil)
		}
	}
	return n
}

// ---- ingest sessions through the API (child process: a crash of a session goroutine ends the whole process) ----

type ingestJob struct {
	Asset, Cfg, Mode, Events string
	Now                      int
}

// c08Ingest: POST /api/cmaf-ingests + step + DELETE for a product of URL configurations (whole-segment and chunked
// low-latency transfer, generated subtitles, SCTE-35, DRM, periods, start numbers) and receiver behaviours (accepts,
// answers an upload with an error after / before reading the body, cannot be reached).  Every API call must return
// within its deadline and the process must survive.
func c08Ingest(c *Ctx) int {
	r := c.Rng
	var jobs []ingestJob
	for _, mt := range []string{"", "segtimeline_1", "segtimelinenr_1"} {
		for _, ll := range []string{"", "ato_1,chunkdur_1", "chunkdur_2", "ato_1.5,chunkdur_0.5"} {
			for _, ex := range []string{"", "timesubsstpp_en", "timesubswvtt_en,sv", "scte35_1", "eccp_cenc", "periods_60", "snr_5", "tsbd_4", "start_90", "ltgt_2500", "statuscode_[{cycle:4;rsq:0;code:404}]", "traffic_u3d2", "scte35_2"} {
				var parts []string
				for _, x := range []string{mt, ll, ex} {
					if x != "" {
						parts = append(parts, x)
					}
				}
				cf := "-"
				if len(parts) > 0 {
					cf = strings.Join(parts, ",")
				}
				mode := r.PickS("ok", "late503", "early401", "unreachable")
				jobs = append(jobs, ingestJob{"testpic_2s", cf, mode, r.PickS("ss", "sss", "sds"), 100300})
			}
		}
	}
	if !c.Thorough() {
		// a fixed part (the combinations that have failed before) plus a sample
		keep := []ingestJob{{"testpic_2s", "ato_1,chunkdur_1,timesubsstpp_en", "ok", "ss", 100300}, {"testpic_2s", "chunkdur_2", "late503", "sss", 100300},
			{"testpic_2s", "segtimeline_1,ato_1,chunkdur_1", "early401", "sss", 100300}, {"testpic_2s", "chunkdur_2", "unreachable", "ss", 100300},
			{"testpic_2s", "statuscode_[{cycle:4;rsq:0;code:404}]", "ok", "sss", 10000}, {"testpic_2s", "chunkdur_2,statuscode_[{cycle:4;rsq:0;code:503}]", "ok", "sss", 10000}}
		for i := 0; i < 8; i++ {
			keep = append(keep, jobs[r.Intn(len(jobs))])
		}
		jobs = keep
	}
	dir := filepath.Join(c.OutDir, "ingest")
	_ = os.RemoveAll(dir)
	_ = os.MkdirAll(dir, 0o755)
	defer os.RemoveAll(dir)
	jf := filepath.Join(dir, "jobs.jsonl")
	f, err := os.Create(jf)
	must(err)
	enc := json.NewEncoder(f)
	for _, j := range jobs {
		must(enc.Encode(j))
	}
	f.Close()
	line := func(j ingestJob) string {
		return fmt.Sprintf("# ingest-api asset=%s cfg=%s receiver=%s events=%s nowMS=%d", j.Asset, j.Cfg, j.Mode, j.Events, j.Now)
	}
	from := 0
	for from < len(jobs) {
		cmd := exec.Command(os.Args[0], "c08ingest", jf, strconv.Itoa(from))
		var se strings.Builder
		cmd.Stderr = &se
		out, _ := cmd.Output()
		last, begun := from-1, -1
		for _, ln := range strings.Split(string(out), "\n") {
			fs := strings.Fields(ln)
			if len(fs) >= 2 && fs[0] == "B" {
				begun, _ = strconv.Atoi(fs[1])
			}
			if len(fs) >= 3 && fs[0] == "R" {
				i, _ := strconv.Atoi(fs[1])
				last = i
				c.Count("req.ingest-api." + jobs[i].Mode)
				if strings.HasPrefix(fs[2], "HANG") {
					c.Violate("spin", "ingest API call does not return ("+fs[2]+")", []string{line(jobs[i])}, nil)
				}
			}
		}
		if last == len(jobs)-1 {
			break
		}
		crash := last + 1
		if begun > last {
			crash = begun
		}
		why := "process exit"
		for _, ln := range strings.Split(se.String(), "\n") {
			if strings.HasPrefix(ln, "fatal error:") || strings.HasPrefix(ln, "panic:") {
				why = strings.TrimSpace(ln)
				break
			}
		}
		var fr []string
		for _, ln := range strings.Split(se.String(), "\n") {
			if strings.Contains(ln, "/repo/") && len(fr) < 6 {
				fr = append(fr, strings.TrimSpace(ln))
			}
		}
		c.Violate("fatal", "ingest session: the whole livesim2 process dies ("+why+")", []string{line(jobs[crash])}, map[string]any{"stack": strings.Join(fr, " <- ")})
		from = crash + 1
	}
	return len(jobs)
}

func c08IngestChild(args []string) {
	if len(args) != 2 {
		os.Exit(2)
	}
	data, err := os.ReadFile(args[0])
	must(err)
	from, _ := strconv.Atoi(args[1])
	slog.SetDefault(slog.New(slog.NewTextHandler(io.Discard, nil)))
	w := bufio.NewWriter(os.Stdout)
	for i, ln := range strings.Split(strings.TrimSpace(string(data)), "\n") {
		if i < from {
			continue
		}
		var j ingestJob
		must(json.Unmarshal([]byte(ln), &j))
		fmt.Fprintf(w, "B %d\n", i)
		w.Flush()
		out, res := runSess([]string{j.Asset, j.Cfg, strconv.Itoa(j.Now), "-", j.Events}, func(sr *scriptedReceiver, setup map[string]any) {
			switch j.Mode {
			case "late503":
				sr.failNth[3] = 503
			case "early401":
				sr.early[2] = 401
				sr.early[5] = 401
			case "unreachable":
				setup["destRoot"] = "http://127.0.0.1:1/up"
			}
		})
		st := "ok"
		if res != nil && res.hung != "" {
			st = "HANG:" + res.hung
		} else if strings.Contains(out, "HANG") {
			st = "HANG:" + strings.ReplaceAll(out, " ", "_")
		}
		fmt.Fprintf(w, "R %d %s\n", i, st)
		w.Flush()
		time.Sleep(20 * time.Millisecond) // let the session goroutines of the deleted session run into whatever they run into
	}
}

// c08Child runs the upload cases from index `from` on an in-process receiver under an address-space limit.
func c08Child(args []string) {
	if len(args) != 3 {
		os.Exit(2)
	}
	lim := uint64(6 << 30)
	_ = syscall.Setrlimit(syscall.RLIMIT_AS, &syscall.Rlimit{Cur: lim, Max: lim})
	data, err := os.ReadFile(args[0])
	must(err)
	from, _ := strconv.Atoi(args[1])
	_ = os.MkdirAll(args[2], 0o755)
	slog.SetDefault(slog.New(slog.NewTextHandler(io.Discard, nil)))
	h, err := newReceiverHandler(context.Background(), args[2])
	must(err)
	w := bufio.NewWriter(os.Stdout)
	for i, ln := range strings.Split(strings.TrimSpace(string(data)), "\n") {
		if i < from {
			continue
		}
		var cs recvCase
		must(json.Unmarshal([]byte(ln), &cs))
		fmt.Fprintf(w, "B %d\n", i)
		w.Flush()
		var rd io.Reader
		if cs.Body != nil {
			rd = strings.NewReader(string(cs.Body))
		}
		req := httptest.NewRequest(cs.Method, cs.Path, rd)
		for k, v := range cs.Hdr {
			req.Header.Set(k, v)
		}
		res := serveGuarded(h, req)
		p := res.panic
		if p == "" {
			p = "-"
		}
		fmt.Fprintf(w, "R %d %d %s %d\n", i, res.code, p, b2i(res.spin))
		w.Flush()
	}
}

func newReceiverHandler(ctx context.Context, dir string) (http.Handler, error) {
	return recv.VerifNewRouter(ctx, dir, 30, 0, nil, false)
}

// semEdits change a decoded media segment number k (sequence number and decode time follow k unless the edit says otherwise).
var semEdits = map[string]func(k uint32, f *mp4.Fragment){
	"plain":   func(k uint32, f *mp4.Fragment) {},
	"zerodur": func(k uint32, f *mp4.Fragment) { setDurs(f, 0) },
	"onetick": func(k uint32, f *mp4.Fragment) { setDurs(f, 1) },
	"hugedur": func(k uint32, f *mp4.Fragment) { setDurs(f, 0xffffffff) },
	"seq0":    func(k uint32, f *mp4.Fragment) { f.Moof.Mfhd.SequenceNumber = 0 },
	"seqmax":  func(k uint32, f *mp4.Fragment) { f.Moof.Mfhd.SequenceNumber = 0xffffffff - 2 + k },
	"seqdown": func(k uint32, f *mp4.Fragment) { f.Moof.Mfhd.SequenceNumber = 100 - k },
	"tfdtmax": func(k uint32, f *mp4.Fragment) {
		f.Moof.Traf.Tfdt.SetBaseMediaDecodeTime(0xffffffffffffffff - uint64(k))
	},
	"tfdtsame": func(k uint32, f *mp4.Fragment) { f.Moof.Traf.Tfdt.SetBaseMediaDecodeTime(7) },
	"tfdtodd":  func(k uint32, f *mp4.Fragment) { f.Moof.Traf.Tfdt.SetBaseMediaDecodeTime(uint64(k)*180000 + 12345) },
	"nosamples": func(k uint32, f *mp4.Fragment) {
		f.Moof.Traf.Trun.Samples = nil
	},
	"ts0": func(k uint32, f *mp4.Fragment) {},
}

func setDurs(f *mp4.Fragment, d uint32) {
	tr := f.Moof.Traf.Trun
	for i := range tr.Samples {
		tr.Samples[i].Dur = d
	}
	f.Moof.Traf.Tfhd.DefaultSampleDuration = d
}

func editSeg(src []byte, k uint32, edit func(k uint32, f *mp4.Fragment)) (out []byte) {
	defer func() {
		if r := recover(); r != nil {
			out = nil
		}
	}()
	f, err := mp4.DecodeFile(bytes.NewReader(src))
	if err != nil || len(f.Segments) == 0 || len(f.Segments[0].Fragments) == 0 {
		return nil
	}
	fr := f.Segments[0].Fragments[0]
	fr.Moof.Mfhd.SequenceNumber = k
	fr.Moof.Traf.Tfdt.SetBaseMediaDecodeTime(uint64(k) * 180000)
	edit(k, fr)
	var buf bytes.Buffer
	if err := f.Segments[0].Encode(&buf); err != nil {
		return nil
	}
	return buf.Bytes()
}

// editInit returns a changed init segment for the edits that concern it.
var initEditNames = []string{"noavcc", "nosps", "nopps", "noesds", "nostsdentry", "nomdhd-lang", "notrex"}

// editInitBoxes removes a configuration box (or its content) from a decoded init segment and re-encodes it.
func editInitBoxes(src []byte, name string) (out []byte) {
	defer func() {
		if r := recover(); r != nil {
			out = nil
		}
	}()
	f, err := mp4.DecodeFile(bytes.NewReader(src))
	if err != nil || f.Init == nil {
		return nil
	}
	stsd := f.Init.Moov.Trak.Mdia.Minf.Stbl.Stsd
	dropChild := func(children []mp4.Box, typ string) []mp4.Box {
		var o []mp4.Box
		for _, c := range children {
			if c.Type() != typ {
				o = append(o, c)
			}
		}
		return o
	}
	switch name {
	case "noavcc":
		if stsd.AvcX == nil {
			return nil
		}
		stsd.AvcX.AvcC = nil
		stsd.AvcX.Children = dropChild(stsd.AvcX.Children, "avcC")
	case "nosps":
		if stsd.AvcX == nil || stsd.AvcX.AvcC == nil {
			return nil
		}
		stsd.AvcX.AvcC.SPSnalus = nil
	case "nopps":
		if stsd.AvcX == nil || stsd.AvcX.AvcC == nil {
			return nil
		}
		stsd.AvcX.AvcC.PPSnalus = nil
	case "noesds":
		if stsd.Mp4a == nil {
			return nil
		}
		stsd.Mp4a.Esds = nil
		stsd.Mp4a.Children = dropChild(stsd.Mp4a.Children, "esds")
	case "nostsdentry":
		stsd.Children = nil
		stsd.AvcX, stsd.Mp4a = nil, nil
		stsd.SampleCount = 0
	case "nomdhd-lang":
		f.Init.Moov.Trak.Mdia.Mdhd.Language = 0
	case "notrex":
		f.Init.Moov.Mvex.Trex = nil
		f.Init.Moov.Mvex.Children = dropChild(f.Init.Moov.Mvex.Children, "trex")
	default:
		return nil
	}
	var buf bytes.Buffer
	if err := f.Init.Encode(&buf); err != nil {
		return nil
	}
	return buf.Bytes()
}

func editInit(src []byte, name string) (out []byte) {
	if name != "ts0" {
		return nil
	}
	defer func() {
		if r := recover(); r != nil {
			out = nil
		}
	}()
	f, err := mp4.DecodeFile(bytes.NewReader(src))
	if err != nil || f.Init == nil {
		return nil
	}
	f.Init.Moov.Trak.Mdia.Mdhd.Timescale = 0
	var buf bytes.Buffer
	if err := f.Init.Encode(&buf); err != nil {
		return nil
	}
	return buf.Bytes()
}
