package main

// The `mpd` op: fetch a live MPD through the real handler, parse it with the harness' own XML structs (not dash-mpd)
// and print the fields LiveMPD writes.  `mpddef` lines tell the model what the VoD MPD says per AdaptationSet.

import (
	"encoding/xml"
	"fmt"
	"os"
	"regexp"
	"strconv"
	"strings"
	"time"
)

type xS struct {
	T *uint64 `xml:"t,attr"`
	D uint64  `xml:"d,attr"`
	R int     `xml:"r,attr"`
}

type xSegTemplate struct {
	Media       string  `xml:"media,attr"`
	StartNumber *uint64 `xml:"startNumber,attr"`
	Timescale   *uint64 `xml:"timescale,attr"`
	Duration    *uint64 `xml:"duration,attr"`
	PTO         *uint64 `xml:"presentationTimeOffset,attr"`
	ATO         string  `xml:"availabilityTimeOffset,attr"`
	Timeline    *struct {
		S []xS `xml:"S"`
	} `xml:"SegmentTimeline"`
}

type xDescriptor struct {
	SchemeIdUri string `xml:"schemeIdUri,attr"`
	Value       string `xml:"value,attr"`
}

type xAS struct {
	ContentType     string        `xml:"contentType,attr"`
	MimeType        string        `xml:"mimeType,attr"`
	Codecs          string        `xml:"codecs,attr"`
	Lang            string        `xml:"lang,attr"`
	SegmentTemplate *xSegTemplate `xml:"SegmentTemplate"`
	Representations []struct {
		ID       string `xml:"id,attr"`
		Codecs   string `xml:"codecs,attr"`
		MimeType string `xml:"mimeType,attr"`
	} `xml:"Representation"`
	Inband       []xDescriptor `xml:"InbandEventStream"`
	Supplemental []xDescriptor `xml:"SupplementalProperty"`
	ContentProt  []xDescriptor `xml:"ContentProtection"`
}

type xPeriod struct {
	ID       string   `xml:"id,attr"`
	Start    string   `xml:"start,attr"`
	BaseURLs []string `xml:"BaseURL"`
	Sets     []xAS    `xml:"AdaptationSet"`
}

type xMPD struct {
	Type        string    `xml:"type,attr"`
	AST         string    `xml:"availabilityStartTime,attr"`
	PublishTime string    `xml:"publishTime,attr"`
	MPDur       string    `xml:"mediaPresentationDuration,attr"`
	TSBD        string    `xml:"timeShiftBufferDepth,attr"`
	MUP         string    `xml:"minimumUpdatePeriod,attr"`
	Periods     []xPeriod `xml:"Period"`
	PatchLoc    []struct {
		TTL   string `xml:"ttl,attr"`
		Value string `xml:",chardata"`
	} `xml:"PatchLocation"`
}

func parseMPD(b []byte) (*xMPD, error) {
	var m xMPD
	if err := xml.Unmarshal(b, &m); err != nil {
		return nil, err
	}
	return &m, nil
}

func asContentType(as *xAS) string {
	if as.ContentType != "" {
		return as.ContentType
	}
	switch as.MimeType {
	case "video/mp4":
		return "video"
	case "audio/mp4":
		return "audio"
	case "application/mp4":
		return "text"
	}
	guess := func(c string) string {
		switch {
		case strings.HasPrefix(c, "avc"), strings.HasPrefix(c, "hev"), strings.HasPrefix(c, "hvc"):
			return "video"
		case strings.HasPrefix(c, "mp4a"), strings.HasPrefix(c, "ac-3"), strings.HasPrefix(c, "ec-3"):
			return "audio"
		case strings.HasPrefix(c, "stpp"), strings.HasPrefix(c, "wvtt"):
			return "text"
		}
		return ""
	}
	if g := guess(as.Codecs); g != "" {
		return g
	}
	for _, r := range as.Representations {
		switch r.MimeType {
		case "video/mp4":
			return "video"
		case "audio/mp4":
			return "audio"
		case "application/mp4":
			return "text"
		}
		if g := guess(r.Codecs); g != "" {
			return g
		}
	}
	return ""
}

var durRe = regexp.MustCompile(`^PT(?:(\d+)H)?(?:(\d+)M)?(?:([\d.]+)S)?$`)

// durToMS parses the xs:duration forms the server writes.
func durToMS(s string) (int64, bool) {
	m := durRe.FindStringSubmatch(s)
	if m == nil {
		return 0, false
	}
	var ms float64
	if m[1] != "" {
		h, _ := strconv.ParseFloat(m[1], 64)
		ms += h * 3600000
	}
	if m[2] != "" {
		mi, _ := strconv.ParseFloat(m[2], 64)
		ms += mi * 60000
	}
	if m[3] != "" {
		sec, _ := strconv.ParseFloat(m[3], 64)
		ms += sec * 1000
	}
	return int64(ms + 0.5), true
}

func dateToMS(s string) (int64, bool) {
	t, err := time.Parse(time.RFC3339Nano, s)
	if err != nil {
		return 0, false
	}
	return t.UnixMilli(), true
}

func expandTL(st *xSegTemplate) [][2]uint64 {
	var out [][2]uint64
	if st.Timeline == nil {
		return nil
	}
	t := uint64(0)
	for _, s := range st.Timeline.S {
		if s.T != nil {
			t = *s.T
		}
		for k := 0; k <= s.R; k++ {
			out = append(out, [2]uint64{t, s.D})
			t += s.D
		}
	}
	return out
}

func asLine(as *xAS) string {
	st := as.SegmentTemplate
	rep := "?"
	if len(as.Representations) > 0 {
		rep = as.Representations[0].ID
	}
	if st == nil {
		return asContentType(as) + ":" + rep + " no-template"
	}
	addr := "nr"
	if strings.Contains(st.Media, "$Time$") {
		addr = "time"
	}
	sn, ts, dur, tl, pto := "-", "1", "-", "-", "-"
	if st.StartNumber != nil {
		sn = strconv.FormatUint(*st.StartNumber, 10)
	}
	if st.Timescale != nil {
		ts = strconv.FormatUint(*st.Timescale, 10)
	}
	if st.Duration != nil {
		dur = strconv.FormatUint(*st.Duration, 10)
	}
	if st.PTO != nil {
		pto = strconv.FormatUint(*st.PTO, 10)
	}
	if st.Timeline != nil {
		var sb strings.Builder
		sb.WriteByte('[')
		for _, e := range expandTL(st) {
			fmt.Fprintf(&sb, "(%d,%d)", e[0], e[1])
		}
		sb.WriteByte(']')
		tl = sb.String()
	}
	cont := 0
	for _, d := range as.Supplemental {
		if d.SchemeIdUri == "urn:mpeg:dash:period-continuity:2015" {
			cont = 1
		}
	}
	return fmt.Sprintf("%s:%s %s sn=%s ts=%s dur=%s pto=%s cont=%d tl=%s", asContentType(as), rep, addr, sn, ts, dur, pto, cont, tl)
}

var periodIDRe = regexp.MustCompile(`^P(\d+)$`)

func mpdLine(m *xMPD) string {
	ast, _ := dateToMS(m.AST)
	pt, _ := dateToMS(m.PublishTime)
	mpdur := "-"
	if m.MPDur != "" {
		if ms, ok := durToMS(m.MPDur); ok {
			mpdur = strconv.FormatInt(ms/1000, 10)
		}
	}
	var ps []string
	for pi := range m.Periods {
		p := &m.Periods[pi]
		var parts []string
		for i := range p.Sets {
			if strings.HasPrefix(firstRepID(&p.Sets[i]), "timestpp-") || strings.HasPrefix(firstRepID(&p.Sets[i]), "timewvtt-") {
				continue // generated subtitles are checked by C12
			}
			parts = append(parts, asLine(&p.Sets[i]))
		}
		id := p.ID
		if mm := periodIDRe.FindStringSubmatch(p.ID); mm != nil {
			id = "P" + mm[1]
		}
		startMS, _ := durToMS(p.Start)
		ps = append(ps, fmt.Sprintf("%s@%d: %s", id, startMS/1000, strings.Join(parts, " | ")))
	}
	return fmt.Sprintf("%s ast=%d pt=%d mpdur=%s || %s", m.Type, ast/1000, pt, mpdur, strings.Join(ps, " || "))
}

func firstRepID(as *xAS) string {
	if len(as.Representations) > 0 {
		return as.Representations[0].ID
	}
	return ""
}

func mpdURL(asset, cfg, name, nowMS string) string {
	return "/livesim2/" + cfgToURL(cfg) + asset + "/" + name + "?nowMS=" + nowMS
}

func execMpd(a []string) string {
	if len(a) != 4 {
		return "bad-op"
	}
	res := doLive("GET", mpdURL(a[0], a[1], a[2], a[3]))
	if res.panicked != "" {
		return "PANIC"
	}
	if res.code == 425 {
		return "425 pre-start"
	}
	if res.code != 200 {
		return strconv.Itoa(res.code)
	}
	m, err := parseMPD(res.body)
	if err != nil {
		return "200 unparsable"
	}
	return mpdLine(m)
}

// emitMpdDefs tells the model, per asset MPD, what the VoD MPD's AdaptationSets look like.
func (c *Ctx) emitMpdDefs() {
	getServer()
	for _, a := range vAssets {
		for _, name := range a.MPDs {
			b, err := os.ReadFile(vodRoot() + "/" + a.AssetPath + "/" + name)
			if err != nil {
				continue
			}
			m, err := parseMPD(b)
			if err != nil || len(m.Periods) == 0 {
				continue
			}
			var sets []string
			for i := range m.Periods[0].Sets {
				as := &m.Periods[0].Sets[i]
				rep := "?"
				if len(as.Representations) > 0 {
					rep = as.Representations[0].ID
				}
				dur, ts := "-", "1"
				if as.SegmentTemplate != nil {
					if as.SegmentTemplate.Duration != nil {
						dur = strconv.FormatUint(*as.SegmentTemplate.Duration, 10)
					}
					if as.SegmentTemplate.Timescale != nil {
						ts = strconv.FormatUint(*as.SegmentTemplate.Timescale, 10)
					}
				}
				sets = append(sets, fmt.Sprintf("%s:%s:%s:%s", asContentType(as), rep, dur, ts))
			}
			c.EmitOut(fmt.Sprintf("mpddef %s %s %s", a.AssetPath, name, strings.Join(sets, ";")), "ok", false)
		}
	}
}

func init() {
	opExec["mpddef"] = func([]string) string { return "ok" }
	opExec["mpd"] = execMpd
}
