package main

// C16, chunked transfer: op `csrc <cap> <w1,w2,..|-> <k1,k2,..>` drives the real cmafSource (Write from one goroutine,
// Read from this one, as sendMediaSegment / the HTTP client do) with a buffer of cap bytes; byte i of the stream is
// i % 251.  Output: one item per Read up to and including the first EOF (hex, `-` for no bytes, `E` for EOF).

import (
	"encoding/hex"
	"fmt"
	"strconv"
	"strings"

	"github.com/Dash-Industry-Forum/livesim2/cmd/livesim2/app"
)

func init() { opExec["csrc"] = execCsrc }

func natList(s string) ([]int, bool) {
	if s == "-" {
		return nil, true
	}
	var out []int
	for _, p := range strings.Split(s, ",") {
		n, err := strconv.Atoi(p)
		if err != nil || n < 0 {
			return nil, false
		}
		out = append(out, n)
	}
	return out, true
}

func execCsrc(a []string) string {
	if len(a) != 3 {
		return "bad-op"
	}
	bufCap, err := strconv.Atoi(a[0])
	ws, ok1 := natList(a[1])
	ks, ok2 := natList(a[2])
	if err != nil || bufCap <= 0 || !ok1 || !ok2 {
		return "bad-op"
	}
	var writes [][]byte
	i := 0
	for _, l := range ws {
		w := make([]byte, l)
		for j := range w {
			w[j] = byte(i % 251)
			i++
		}
		writes = append(writes, w)
	}
	outs, eof, hung := app.VerifChunkSrc(bufCap, writes, ks)
	var items []string
	for _, o := range outs {
		if len(o) == 0 {
			items = append(items, "-")
		} else {
			items = append(items, hex.EncodeToString(o))
		}
	}
	if eof {
		items = append(items, "E")
	}
	if hung {
		items = append(items, "HANG")
	}
	return strings.Join(items, " ")
}

func genCsrc(c *Ctx) {
	r := c.Rng
	for i := 0; i < c.N(300, 4000); i++ {
		bufCap := r.Pick(1, 2, 3, 4, 5, 7, 8, 16, 64)
		var ws []string
		total := 0
		for k := r.Range(0, 5); k > 0; k-- {
			l := r.Pick(0, 1, bufCap-1, bufCap, bufCap+1, 2*bufCap+3, r.Intn(40), 3*bufCap)
			if total+l > 200 {
				l = 1
			}
			total += l
			ws = append(ws, strconv.Itoa(l))
		}
		var ks []string
		need := total + len(ws) + 2
		for got := 0; got < need && len(ks) < 260; {
			k := r.Pick(1, 1, 2, 3, bufCap, bufCap+1, 5*bufCap, r.Range(1, 9))
			if r.Intn(15) == 0 {
				k = 0
			}
			ks = append(ks, strconv.Itoa(k))
			if k > 0 {
				got++
			}
			if r.Intn(40) == 0 {
				break // the client gives up early
			}
		}
		wl := "-"
		if len(ws) > 0 {
			wl = strings.Join(ws, ",")
		}
		if len(ks) == 0 {
			ks = []string{"1"}
		}
		out := c.Emit(fmt.Sprintf("csrc %d %s %s", bufCap, wl, strings.Join(ks, ",")), total > bufCap)
		if strings.HasSuffix(out, "HANG") {
			c.Violate("chunk-source-hang", "the chunked-transfer source does not deliver", []string{fmt.Sprintf("csrc %d %s %s", bufCap, wl, strings.Join(ks, ","))}, nil)
		}
		c.Count("csrc-ops")
	}
}
