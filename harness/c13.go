package main

// C13: SCTE-35 — op `scte <segStart> <segEnd> <T> <N>` through the exported scte35.CreateEmsgAhead;
// the splice_info_section is decoded by the harness' own bit reader (CRC-32/MPEG-2 recomputed).

import (
	"fmt"
	"strconv"

	"github.com/Dash-Industry-Forum/livesim2/pkg/scte35"
)

type bitReader struct {
	b   []byte
	pos int
	err bool
}

func (r *bitReader) bits(n int) uint64 {
	var v uint64
	for i := 0; i < n; i++ {
		byteIdx := r.pos >> 3
		if byteIdx >= len(r.b) {
			r.err = true
			return 0
		}
		bit := (r.b[byteIdx] >> (7 - uint(r.pos&7))) & 1
		v = v<<1 | uint64(bit)
		r.pos++
	}
	return v
}

type spliceInfo struct {
	tableID       uint64
	sectionLen    int
	ptsAdjust     uint64
	tier          uint64
	cmdType       uint64
	eventID       uint64
	cancel        bool
	outOfNetwork  bool
	programSplice bool
	hasDuration   bool
	immediate     bool
	timeSpecified bool
	ptsTime       uint64
	autoReturn    bool
	breakDur      uint64
	crcOK         bool
	lenOK         bool
}

func crc32mpeg2(b []byte) uint32 {
	crc := uint32(0xffffffff)
	for _, x := range b {
		crc ^= uint32(x) << 24
		for i := 0; i < 8; i++ {
			if crc&0x80000000 != 0 {
				crc = crc<<1 ^ 0x04c11db7
			} else {
				crc <<= 1
			}
		}
	}
	return crc
}

func decodeSpliceInfo(b []byte) (spliceInfo, bool) {
	var s spliceInfo
	r := &bitReader{b: b}
	s.tableID = r.bits(8)
	r.bits(4)
	s.sectionLen = int(r.bits(12))
	r.bits(8) // protocol_version
	r.bits(7) // encrypted_packet + encryption_algorithm
	s.ptsAdjust = r.bits(33)
	r.bits(8) // cw_index
	s.tier = r.bits(12)
	r.bits(12) // splice_command_length
	s.cmdType = r.bits(8)
	if s.cmdType != 5 {
		return s, false
	}
	s.eventID = r.bits(32)
	s.cancel = r.bits(1) == 1
	r.bits(7)
	if !s.cancel {
		s.outOfNetwork = r.bits(1) == 1
		s.programSplice = r.bits(1) == 1
		s.hasDuration = r.bits(1) == 1
		s.immediate = r.bits(1) == 1
		r.bits(4)
		if s.programSplice && !s.immediate {
			s.timeSpecified = r.bits(1) == 1
			if s.timeSpecified {
				r.bits(6)
				s.ptsTime = r.bits(33)
			} else {
				r.bits(7)
			}
		}
		if s.hasDuration {
			s.autoReturn = r.bits(1) == 1
			r.bits(6)
			s.breakDur = r.bits(33)
		}
		r.bits(16 + 8 + 8)
	}
	s.lenOK = s.sectionLen+3 == len(b)
	s.crcOK = len(b) >= 4 && crc32mpeg2(b) == 0
	return s, !r.err
}

func execScte(a []string) string {
	if len(a) != 4 {
		return "bad-op"
	}
	var v [4]uint64
	for i := range a {
		x, err := strconv.ParseUint(a[i], 10, 64)
		if err != nil {
			return "bad-op"
		}
		v[i] = x
	}
	if v[2] == 0 {
		return "bad-op"
	}
	emsg, err := scte35.CreateEmsgAhead(v[0], v[1], v[2], int(v[3]))
	if err != nil {
		return "invalid"
	}
	if emsg == nil {
		return "none"
	}
	si, ok := decodeSpliceInfo(emsg.MessageData)
	if !ok {
		return "undecodable-section"
	}
	return fmt.Sprintf("ev splice=%d id=%d dur=%d pts=%d brk=%d adj=%d", emsg.PresentationTime, emsg.ID, emsg.EventDuration, si.ptsTime, si.breakDur, si.ptsAdjust)
}

func init() {
	opExec["scte"] = execScte
	generators["C13"] = genC13
}

var scteOffsets = map[int][]uint64{1: {10}, 2: {10, 40}, 3: {10, 36, 46}}

func genC13(c *Ctx) {
	r := c.Rng
	type layout struct {
		T    uint64
		durs []uint64 // segment durations in ticks, cycled
	}
	layouts := []layout{
		{90000, []uint64{180000}}, {90000, []uint64{720000}}, {15360, []uint64{122880}}, {12288, []uint64{98304}},
		{1000, []uint64{1920}}, {30000, []uint64{60060}}, {48000, []uint64{96256, 95232}}, {90000, []uint64{720000, 360000}},
		{1000, []uint64{10000}}, {1000, []uint64{1000}}, {25, []uint64{48, 52}}, {90000, []uint64{900000}},
		{24000, []uint64{48048}}, {1000, []uint64{3500, 6400, 100}},
	}
	starts := []uint64{0, 3540, 95400 - 120, 1759276800 /* 2025 */, 4102444800 - 600 /* 2100 */, 26*3600 + 1700 /* PTS wrap at 26.5 h */}
	nLay := len(layouts)
	minutes := c.N(3, 40)
	for li := 0; li < nLay; li++ {
		L := layouts[li]
		for _, st := range starts {
			for N := 1; N <= 3; N++ {
				// tile [startS, startS + minutes*60 s] with the layout, starting at a random phase
				phase := uint64(r.Intn(int(L.durs[0])))
				t := st*L.T - minU(st*L.T, phase)
				end := (st + uint64(minutes)*60) * L.T
				carried := map[uint64]int{} // splice time -> how many segments carry it
				var firstOps []string
				k := 0
				for t < end {
					d := L.durs[k%len(L.durs)]
					k++
					line := fmt.Sprintf("scte %d %d %d %d", t, t+d, L.T, N)
					out := c.Emit(line, true)
					if len(firstOps) < 3 {
						firstOps = append(firstOps, line)
					}
					// monitor on the implementation's emsg
					emsg, err := scte35.CreateEmsgAhead(t, t+d, L.T, N)
					if err != nil {
						c.Violate("valid-n-rejected", "valid N rejected", []string{line}, nil)
					} else if emsg != nil {
						carried[emsg.PresentationTime]++
						si, ok := decodeSpliceInfo(emsg.MessageData)
						ad := uint64(10)
						if N == 1 {
							ad = 20
						}
						wantPts := emsg.PresentationTime * 90000 / L.T % (1 << 33)
						switch {
						case !ok || si.tableID != 0xfc || !si.lenOK:
							c.Violate("section-malformed", "splice_info_section does not decode / wrong length", []string{line}, out)
						case !si.crcOK:
							c.Violate("section-crc", "CRC-32 of the splice_info_section is wrong", []string{line}, out)
						case si.ptsTime != wantPts || uint64(emsg.ID) != (emsg.PresentationTime/L.T)%(1<<32) || si.eventID != uint64(emsg.ID):
							c.Violate("fields-pts-id", fmt.Sprintf("pts_time %d / ids (%d,%d) inconsistent with presentation time %d (want pts %d)", si.ptsTime, emsg.ID, si.eventID, emsg.PresentationTime, wantPts), []string{line}, out)
						case si.breakDur != ad*90000 || uint64(emsg.EventDuration) != ad*L.T || !si.hasDuration || !si.autoReturn:
							c.Violate("fields-duration", fmt.Sprintf("break duration %d / event duration %d, want %d s", si.breakDur, emsg.EventDuration, ad), []string{line}, out)
						case !si.outOfNetwork || si.immediate || !si.timeSpecified || si.cancel:
							c.Violate("fields-flags", "splice_insert flags are not out-of-network / timed", []string{line}, out)
						case (si.ptsTime+si.ptsAdjust)%(1<<33) != wantPts:
							c.Violate("pts-adjustment", fmt.Sprintf("pts_time %d + pts_adjustment %d = %d mod 2^33, but the splice is at %d", si.ptsTime, si.ptsAdjust, (si.ptsTime+si.ptsAdjust)%(1<<33), wantPts), []string{line}, out)
						}
						// the carrying segment contains the announce instant
						ann := emsg.PresentationTime - 7*L.T
						if !(t < ann && ann <= t+d) {
							c.Violate("carried-outside", fmt.Sprintf("segment (%d,%d] carries splice %d whose announce instant %d is outside", t, t+d, emsg.PresentationTime, ann), []string{line}, out)
						}
					}
					t += d
				}
				// every scheduled event whose announce instant was covered is carried exactly once
				tile0 := st*L.T - minU(st*L.T, phase)
				for m := st / 60; m <= st/60+uint64(minutes)+1; m++ {
					for _, off := range scteOffsets[N] {
						sp := (60*m + off) * L.T
						ann := sp - 7*L.T
						if ann <= tile0 || ann > t {
							continue
						}
						if carried[sp] != 1 {
							c.Violate("per-minute-count", fmt.Sprintf("event at %d s (minute %d, N=%d, T=%d, seg durs %v) carried by %d segments", 60*m+off, m, N, L.T, L.durs, carried[sp]),
								firstOps, map[string]any{"tileStart": tile0, "phase": phase})
						}
						delete(carried, sp)
					}
				}
				for sp, n := range carried {
					if sp-7*L.T > tile0 {
						c.Violate("unscheduled-event", fmt.Sprintf("splice at tick %d (T=%d, N=%d) is not on the schedule, carried %d times", sp, L.T, N, n), firstOps, nil)
					}
				}
			}
		}
	}
	c13Handler(c)
	// invalid N and degenerate arguments
	for _, n := range []int{0, 4, 5, 60} {
		c.Emit(fmt.Sprintf("scte 0 180000 90000 %d", n), true)
	}
}

func minU(a, b uint64) uint64 {
	if a < b {
		return a
	}
	return b
}
