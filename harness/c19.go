package main

// C19: the ingest receiver tolerates concurrent uploads.
// The scenarios run in a child process (`harness c19child`), so that fatal errors of the Go runtime ("concurrent map
// writes") are observed; the same child built with -race reports data races.  Each round uploads the init segments and
// then the media segments of T tracks x C channels concurrently through the real handler and compares what is stored
// (files and timeline MPD) with a sequential run of the same uploads.

import (
	"bufio"
	"bytes"
	"context"
	"crypto/sha256"
	"encoding/hex"
	"encoding/json"
	"fmt"
	"io"
	"log/slog"
	"net/http"
	"net/http/httptest"
	"os"
	"os/exec"
	"path/filepath"
	"regexp"
	"runtime"
	"sort"
	"strconv"
	"strings"
	"sync"
	"syscall"
	"time"

	recv "github.com/Dash-Industry-Forum/livesim2/cmd/cmaf-ingest-receiver/app"
	"github.com/Eyevinn/mp4ff/mp4"
)

func init() {
	generators["C19"] = genC19
	opExec["chan"] = func(a []string) string {
		dir := filepath.Join(workDir(), fmt.Sprintf("c19seq-%d", os.Getpid()))
		defer os.RemoveAll(dir)
		ctx, cancel := context.WithCancel(context.Background())
		defer cancel()
		ids := recv.VerifGetOrAddSeq(ctx, dir, a)
		parts := make([]string, len(ids))
		for i, id := range ids {
			parts[i] = fmt.Sprint(id)
		}
		return strings.Join(parts, ",")
	}
	opExec["tracks"] = func(a []string) string {
		var ts [][2]string
		for _, s := range a {
			f := strings.Split(s, ":")
			if len(f) != 2 {
				return "bad-op"
			}
			ts = append(ts, [2]string{f[0], f[1]})
		}
		names, master := recv.VerifAddTracks(ts)
		if master == "" {
			master = "-"
		}
		return fmt.Sprintf("names=[%s] master=%s", strings.Join(names, ","), master)
	}
}

type c19Track struct {
	name string
	ext  string
	init []byte
	segs [][]byte
}

// c19Tracks builds T tracks from the bundled testpic_2s video / audio (retitled copies: the receiver only looks at
// the path for the track name), with aligned sequence numbers and times.
func c19Tracks(nTracks, nSegs int) []c19Track {
	vInit, _ := readAsset("testpic_2s/V300/init.mp4")
	aInit, _ := readAsset("testpic_2s/A48/init.mp4")
	var out []c19Track
	for t := 0; t < nTracks; t++ {
		video := t%2 == 0
		tr := c19Track{name: fmt.Sprintf("v%d", t), ext: ".cmfv", init: vInit}
		src := "testpic_2s/V300/%d.m4s"
		ts := uint64(90000)
		if !video {
			tr = c19Track{name: fmt.Sprintf("a%d", t), ext: ".cmfa", init: aInit}
			src = "testpic_2s/A48/%d.m4s"
			ts = 48000
		}
		for k := 1; k <= nSegs; k++ {
			b, err := readAsset(fmt.Sprintf(src, k))
			if err != nil {
				break
			}
			// sequence number and decode time on the 2 s grid of the receiver (seqNr = time / duration)
			f, err := mp4.DecodeFile(bytes.NewReader(b))
			if err != nil {
				break
			}
			fr := f.Segments[0].Fragments[0]
			fr.Moof.Mfhd.SequenceNumber = uint32(100 + k)
			if video {
				fr.Moof.Traf.Tfdt.SetBaseMediaDecodeTime(uint64(100+k) * 2 * ts)
			} else {
				fr.Moof.Traf.Tfdt.SetBaseMediaDecodeTime(uint64(100+k) * 2 * ts / 1024 * 1024)
			}
			var buf bytes.Buffer
			_ = f.Segments[0].Encode(&buf)
			tr.segs = append(tr.segs, buf.Bytes())
		}
		out = append(out, tr)
	}
	return out
}

type c19Upload struct {
	path string
	body []byte
}

func c19Put(h http.Handler, u c19Upload) (int, string) {
	req := httptest.NewRequest("PUT", u.path, bytes.NewReader(u.body))
	rec := httptest.NewRecorder()
	var pan string
	func() {
		defer func() {
			if r := recover(); r != nil {
				pan = fmt.Sprint(r)
			}
		}()
		h.ServeHTTP(rec, req)
	}()
	return rec.Code, pan
}

// storedDigest lists the stored files of a storage directory (name -> hash), leaving out the *_org copies' timestamps.
var lastMPDText = map[string]string{}

func storedDigest(dir string) map[string]string {
	out := map[string]string{}
	_ = filepath.Walk(dir, func(p string, info os.FileInfo, err error) error {
		if err != nil || info.IsDir() {
			return nil
		}
		b, _ := os.ReadFile(p)
		rel, _ := filepath.Rel(dir, p)
		if strings.HasSuffix(rel, ".mpd") {
			b = []byte(canonMPD(b))
			lastMPDText[dir+"|"+rel] = string(b)
		}
		h := sha256.Sum256(b)
		out[rel] = hex.EncodeToString(h[:6])
		return nil
	})
	return out
}

type c19Round struct {
	Round     int               `json:"round"`
	Channels  int               `json:"channels"`
	Tracks    int               `json:"tracks"`
	Statuses  map[string]int    `json:"statuses"`
	Panics    []string          `json:"panics,omitempty"`
	Conc      map[string]string `json:"conc"`
	Seq       map[string]string `json:"seq"`
	Differs   []string          `json:"differs,omitempty"`
	NrObjects int               `json:"nr_channel_objects"`
	Sample    [2]string         `json:"sample,omitempty"`
	Master    string            `json:"master,omitempty"`
	Slow      string            `json:"slow,omitempty"`
}

// c19Child: rounds of concurrent uploads; one JSON line per round on stdout.
func c19Child(args []string) {
	if len(args) != 3 {
		os.Exit(2)
	}
	var seed, rounds int
	fmt.Sscan(args[0], &seed)
	fmt.Sscan(args[1], &rounds)
	work := args[2]
	slog.SetDefault(slog.New(slog.NewTextHandler(io.Discard, nil)))
	r := &Rng{s: uint64(seed)*2654435761 + 12345}
	w := bufio.NewWriter(os.Stdout)
	for round := 0; round < rounds; round++ {
		nCh := r.Range(1, 3)
		nTr := r.Range(2, 8)
		tracks := c19Tracks(nTr, 4)
		run := func(tag string, concurrent bool) (map[string]string, map[string]int, []string, int) {
			dir := filepath.Join(work, fmt.Sprintf("r%d-%s", round, tag))
			_ = os.RemoveAll(dir)
			_ = os.MkdirAll(dir, 0o755)
			ctx, cancel := context.WithCancel(context.Background())
			defer cancel()
			h, err := recv.VerifNewRouter(ctx, dir, 30, 0, nil, false)
			must(err)
			statuses := map[string]int{}
			var pans []string
			var mu sync.Mutex
			send := func(ups []c19Upload) {
				if !concurrent {
					for _, u := range ups {
						code, p := c19Put(h, u)
						statuses[fmt.Sprint(code)]++
						if p != "" {
							pans = append(pans, p)
						}
					}
					return
				}
				var wg sync.WaitGroup
				start := make(chan struct{})
				for _, u := range ups {
					wg.Add(1)
					go func(u c19Upload) {
						defer wg.Done()
						<-start
						code, p := c19Put(h, u)
						mu.Lock()
						statuses[fmt.Sprint(code)]++
						if p != "" {
							pans = append(pans, p)
						}
						mu.Unlock()
					}(u)
				}
				close(start)
				wg.Wait()
			}
			// phase 1: all init segments (first uploads of every track of every channel) at once
			var inits []c19Upload
			for c := 0; c < nCh; c++ {
				for _, tr := range tracks {
					inits = append(inits, c19Upload{fmt.Sprintf("/upload/ch%d/%s/init%s", c, tr.name, tr.ext), tr.init})
				}
			}
			send(inits)
			// phase 2..: segment k of every track at once (per-track order preserved, as the sender does)
			for k := 0; k < 4; k++ {
				var ups []c19Upload
				for c := 0; c < nCh; c++ {
					for _, tr := range tracks {
						if k < len(tr.segs) {
							ups = append(ups, c19Upload{fmt.Sprintf("/upload/ch%d/%s/%d%s", c, tr.name, 101+k, tr.ext), tr.segs[k]})
						}
					}
				}
				send(ups)
				time.Sleep(15 * time.Millisecond) // let the channel goroutines write the MPD
			}
			time.Sleep(40 * time.Millisecond)
			// (on a loaded machine the channel goroutines may lag: wait until the storage has been stable for 60 ms, at most 3 s)
			{
				prev := fmt.Sprint(storedDigest(dir))
				waitFor(3*time.Second, func() bool {
					time.Sleep(60 * time.Millisecond)
					cur := fmt.Sprint(storedDigest(dir))
					same := cur == prev
					prev = cur
					return same
				})
			}
			// every channel object has its own goroutine (channel.run) until the context is cancelled
			buf := make([]byte, 4<<20)
			n := runtime.Stack(buf, true)
			nObj := strings.Count(string(buf[:n]), "app.(*channel).run(")
			return storedDigest(dir), statuses, pans, nObj
		}
		conc, st, pans, nObj := run("conc", true)
		time.Sleep(20 * time.Millisecond) // let the cancelled channel goroutines of the previous run exit
		seq, _, _, _ := run("seq", false)
		rr := c19Round{Round: round, Channels: nCh, Tracks: nTr, Statuses: st, Panics: pans, Conc: conc, Seq: seq, NrObjects: nObj}
		var keys []string
		for k := range seq {
			keys = append(keys, k)
		}
		for k := range conc {
			if _, ok := seq[k]; !ok {
				keys = append(keys, k)
			}
		}
		sort.Strings(keys)
		for _, k := range keys {
			if conc[k] != seq[k] {
				rr.Differs = append(rr.Differs, k)
				if rr.Sample[0] == "" && strings.HasSuffix(k, ".mpd") {
					rr.Sample = [2]string{lastMPDText[filepath.Join(work, fmt.Sprintf("r%d-conc", round))+"|"+k], lastMPDText[filepath.Join(work, fmt.Sprintf("r%d-seq", round))+"|"+k]}
				}
			}
		}
		lastMPDText = map[string]string{}
		// registration stress: an audio track first, then the other init segments at once, many times on fresh receivers
		for mini := 0; mini < 40 && len(rr.Master) == 0; mini++ {
			dir := filepath.Join(work, fmt.Sprintf("r%d-m%d", round, mini))
			_ = os.MkdirAll(dir, 0o755)
			ctx, cancel := context.WithCancel(context.Background())
			h, inspect, err := recv.VerifNewRouterInspect(ctx, dir, 30)
			must(err)
			var audioFirst *c19Track
			for i := range tracks {
				if tracks[i].ext == ".cmfa" {
					audioFirst = &tracks[i]
					break
				}
			}
			if audioFirst != nil {
				c19Put(h, c19Upload{"/upload/m/" + audioFirst.name + "/init" + audioFirst.ext, audioFirst.init})
			}
			var wg sync.WaitGroup
			start := make(chan struct{})
			for i := range tracks {
				if &tracks[i] == audioFirst {
					continue
				}
				wg.Add(1)
				go func(tr c19Track) {
					defer wg.Done()
					<-start
					c19Put(h, c19Upload{"/upload/m/" + tr.name + "/init" + tr.ext, tr.init})
				}(tracks[i])
			}
			close(start)
			wg.Wait()
			trs, master := inspect("m")
			hasVideo, masterIsVideo := false, false
			for _, t := range trs {
				if strings.HasSuffix(t, ":video") {
					hasVideo = true
					if strings.TrimSuffix(t, ":video") == master {
						masterIsVideo = true
					}
				}
			}
			if len(trs) != len(tracks) {
				rr.Master = fmt.Sprintf("%d of %d tracks registered: %v", len(trs), len(tracks), trs)
			} else if hasVideo && !masterIsVideo {
				rr.Master = fmt.Sprintf("master track is %q although video tracks are registered (%v): no sequential order gives this", master, trs)
			}
			cancel()
			os.RemoveAll(dir)
		}
		rr.Slow = c19SlowBody(r, filepath.Join(work, fmt.Sprintf("r%d-slow", round)), false)
		if rr.Slow == "" && round%4 == 0 {
			rr.Slow = c19SlowManifest(filepath.Join(work, fmt.Sprintf("r%d-slowmpd", round)))
		}
		if rr.Slow == "" && round%4 == 1 {
			rr.Slow = c19ResentInit(filepath.Join(work, fmt.Sprintf("r%d-reinit", round)))
		}
		if rr.Slow == "" {
			rr.Slow = c19SlowBody(r, filepath.Join(work, fmt.Sprintf("r%d-slow2", round)), true)
		}
		b, _ := json.Marshal(rr)
		w.Write(b)
		w.WriteByte('\n')
		w.Flush()
		os.RemoveAll(filepath.Join(work, fmt.Sprintf("r%d-conc", round)))
		os.RemoveAll(filepath.Join(work, fmt.Sprintf("r%d-seq", round)))
	}
}

var raceFrameRe = regexp.MustCompile(`(?m)^\s+(/repo/\S+):(\d+)`)
var raceAccessRe = regexp.MustCompile(`(?ms)^(?:Previous )?(?:[Rr]ead|[Ww]rite) at \S+ by [^\n]*\n((?:  [^\n]*\n)+)`)
var raceFnRe = regexp.MustCompile(`(?m)^  (\S+)\(\)\n\s+(/repo/\S+):(\d+)`)

// raceReports splits the race detector's output into reports and names each by the first /repo function of its two
// accesses (function names without package path; line numbers only in the detail).
func raceReports(stderr string) map[string]string {
	out := map[string]string{}
	for _, rep := range strings.Split(stderr, "==================") {
		if !strings.Contains(rep, "WARNING: DATA RACE") {
			continue
		}
		var fns []string
		for _, acc := range raceAccessRe.FindAllStringSubmatch(rep, -1) {
			if m := raceFnRe.FindStringSubmatch(acc[1]); m != nil {
				fn := m[1][strings.LastIndex(m[1], "/")+1:]
				fns = append(fns, fn)
			}
		}
		sort.Strings(fns)
		key := strings.Join(fns, " <-> ")
		if _, ok := out[key]; !ok {
			if len(rep) > 3000 {
				rep = rep[:3000]
			}
			out[key] = rep
		}
	}
	return out
}

// canonMPD makes two MPDs comparable that differ only by the order in which tracks were registered: AdaptationSet ids
// dropped, Representations sorted inside their AdaptationSet, AdaptationSets sorted.
func canonMPD(b []byte) string {
	s := string(b)
	// bandwidth is estimated from the segments buffered when the segment duration is established: it depends on the
	// arrival order also in sequential runs
	s = regexp.MustCompile(`publishTime="[^"]*"|availabilityStartTime="[^"]*"| bandwidth="\d+"`).ReplaceAllString(s, "")
	asRe := regexp.MustCompile(`(?s)<AdaptationSet[^>]*>.*?</AdaptationSet>`)
	sets := asRe.FindAllString(s, -1)
	if len(sets) == 0 {
		return s
	}
	repRe := regexp.MustCompile(`(?s)<Representation[^>]*?(?:/>|>.*?</Representation>)`)
	for i, as := range sets {
		as = regexp.MustCompile(`(<AdaptationSet[^>]*?) id="\d+"`).ReplaceAllString(as, "$1")
		reps := repRe.FindAllString(as, -1)
		sorted := append([]string(nil), reps...)
		sort.Strings(sorted)
		j := 0
		as = repRe.ReplaceAllStringFunc(as, func(string) string { j++; return sorted[j-1] })
		sets[i] = as
	}
	sort.Strings(sets)
	k := 0
	return asRe.ReplaceAllStringFunc(s, func(string) string { k++; return sets[k-1] })
}

func genC19(c *Ctx) {
	work := filepath.Join(c.OutDir, "c19")
	_ = os.RemoveAll(work)
	_ = os.MkdirAll(work, 0o755)
	defer os.RemoveAll(work)
	// ops: the atomic steps of the protocol models in every order (linearisations) through the real functions
	r := c.Rng
	slog.SetDefault(slog.New(slog.NewTextHandler(io.Discard, nil)))
	// a refused request (wrong credentials) has no effect on what the following uploads of the track find: receiver
	// restarted on an existing storage, first request of every track refused (scenario shared with C17)
	if vInit, e1 := readAsset("testpic_2s/V300/init.mp4"); e1 == nil {
		if aInit, e2 := readAsset("testpic_2s/A48/init.mp4"); e2 == nil {
			for i := 0; i < c.N(2, 10); i++ {
				c17Restart(r, vInit, aInit, func(kind, what string, ops []string, _ any) { c.Violate(kind, what, ops, nil) }, c.Count, func(string) {})
			}
		}
	}
	for i := 0; i < c.N(150, 1500); i++ {
		n := r.Range(1, 10)
		var names []string
		for j := 0; j < n; j++ {
			names = append(names, fmt.Sprintf("ch%d", r.Intn(4)))
		}
		c.Emit("chan "+strings.Join(names, " "), n > 1)
	}
	kinds := []string{"video", "audio", "text"}
	for i := 0; i < c.N(300, 3000); i++ {
		n := r.Range(1, 8)
		perm := []int{0, 1, 2, 3, 4, 5, 6, 7}
		for j := range perm {
			k := r.Intn(j + 1)
			perm[j], perm[k] = perm[k], perm[j]
		}
		var ts []string
		for j := 0; j < n; j++ {
			kd := kinds[r.Intn(3)]
			if r.Intn(3) == 0 {
				kd = "audio"
			}
			ts = append(ts, fmt.Sprintf("t%d:%s", perm[j], kd))
		}
		c.Emit("tracks "+strings.Join(ts, " "), n > 1)
	}
	bins := []struct {
		path string
		race bool
	}{{os.Args[0], false}}
	if rb := os.Getenv("VERIF_RACE_BIN"); rb != "" {
		if _, err := os.Stat(rb); err == nil {
			bins = append(bins, struct {
				path string
				race bool
			}{rb, true})
		}
	}
	for _, bin := range bins {
		rounds := c.N(12, 120)
		if bin.race {
			rounds = c.N(6, 40)
		}
		done := 0
		for attempt := 0; done < rounds && attempt < 6; attempt++ {
			cmd := exec.Command(bin.path, "c19child", fmt.Sprint(c.Seed+int64(attempt)*977), fmt.Sprint(rounds-done), work)
			cmd.Env = append(os.Environ(), "GORACE=halt_on_error=0")
			var se strings.Builder
			cmd.Stderr = &se
			out, err := cmd.Output()
			n := 0
			for _, ln := range strings.Split(strings.TrimSpace(string(out)), "\n") {
				if ln == "" {
					continue
				}
				var rr c19Round
				if json.Unmarshal([]byte(ln), &rr) != nil {
					continue
				}
				n++
				c.Count("rounds")
				op := fmt.Sprintf("# c19 round seed=%d attempt=%d round=%d channels=%d tracks=%d race=%v", c.Seed, attempt, rr.Round, rr.Channels, rr.Tracks, bin.race)
				for _, p := range rr.Panics {
					c.Violate("panic", "upload handler panics under concurrent uploads: "+p, []string{op}, nil)
				}
				if rr.NrObjects != rr.Channels {
					c.Violate("channel-objects", fmt.Sprintf("%d channel objects were created for %d channel names", rr.NrObjects, rr.Channels), []string{op}, nil)
				}
				for k, v := range rr.Statuses {
					if k != "200" {
						c.Violate("upload-status", fmt.Sprintf("%d concurrent uploads answered %s (all answered 200 sequentially)", v, k), []string{op}, nil)
					}
				}
				if rr.Slow != "" {
					c.Violate("slow-upload", rr.Slow, []string{op + " # upload opened before the channel start, body delivered after it"}, nil)
				}
				if rr.Master != "" {
					c.Violate("registration", rr.Master, []string{op}, nil)
				}
				if len(rr.Differs) > 0 {
					c.Violate("stored-differs", fmt.Sprintf("stored files after concurrent uploads differ from the sequential run: %v", rr.Differs), []string{op}, map[string]any{"conc": rr.Conc, "seq": rr.Seq})
				}
			}
			done += n
			if err != nil {
				why := "exit"
				for _, ln := range strings.Split(se.String(), "\n") {
					if strings.HasPrefix(ln, "fatal error:") || strings.HasPrefix(ln, "panic:") {
						why = strings.TrimSpace(ln)
						break
					}
				}
				if !(bin.race && why == "exit") {
					var fr []string
					for _, m := range raceFrameRe.FindAllStringSubmatch(se.String(), 8) {
						fr = append(fr, filepath.Base(m[1])+":"+m[2])
					}
					c.Violate("fatal", "the receiver process dies under concurrent uploads ("+why+")", []string{fmt.Sprintf("# c19 round seed=%d attempt=%d round=%d race=%v", c.Seed, attempt, n, bin.race)}, map[string]any{"frames": fr})
					done++ // the round that died
				}
			}
			if bin.race {
				for key, rep := range raceReports(se.String()) {
					c.Violate("race", "data race between "+key, []string{fmt.Sprintf("# c19 race seed=%d", c.Seed)}, map[string]any{"report": rep})
				}
			}
			if err == nil {
				break
			}
		}
	}
}

// gatedBody is a request body whose first Read blocks until it is released; entered is closed when the handler asks
// for the first byte.
type gatedBody struct {
	r       *bytes.Reader
	entered chan struct{}
	release chan struct{}
	once    sync.Once
}

func (g *gatedBody) Read(p []byte) (int, error) {
	g.once.Do(func() {
		close(g.entered)
		<-g.release
	})
	return g.r.Read(p)
}

// c19SlowBody: an upload that is opened before the channel starts and delivers its data afterwards (a sender with
// chunked transfer opens the request before the segment exists).  The channel is a renumbered one (incoming numbers and
// times do not follow time / duration), so its start changes how uploads are numbered: in either sequential order of
// "audio segment 1" and "video segment 1" the audio upload is accepted and stored.
// c19ResentInit: a sender that restarts sends the init segment of its tracks again (before and after the channel has
// started): every track is registered once — Representation ids are unique in manifest.mpd and in the timeline MPD.
func c19ResentInit(dir string) string {
	_ = os.MkdirAll(dir, 0o755)
	defer os.RemoveAll(dir)
	ctx, cancel := context.WithCancel(context.Background())
	defer cancel()
	h, err := recv.VerifNewRouter(ctx, dir, 30, 0, nil, false)
	if err != nil {
		return ""
	}
	vInit, e1 := readAsset("testpic_2s/V300/init.mp4")
	aInit, e2 := readAsset("testpic_2s/A48/init.mp4")
	if e1 != nil || e2 != nil {
		return ""
	}
	put := func(path string, body []byte) string {
		if code, p := c19Put(h, c19Upload{path, body}); code >= 300 || p != "" {
			return fmt.Sprintf("PUT %s answered %d %s", path, code, p)
		}
		return ""
	}
	seq := []string{"vi", "vi", "ai", "1", "2", "ai", "3", "vi", "4", "5"}
	for _, st := range seq {
		var w string
		switch st {
		case "vi":
			w = put("/upload/ri/v0/init.cmfv", vInit)
		case "ai":
			w = put("/upload/ri/a0/init.cmfa", aInit)
		default:
			k, _ := strconv.Atoi(st)
			vb, _ := readAsset(fmt.Sprintf("testpic_2s/V300/%d.m4s", (k-1)%4+1))
			ab, _ := readAsset(fmt.Sprintf("testpic_2s/A48/%d.m4s", (k-1)%4+1))
			if k > 4 {
				break // (the bundled segments carry numbers 1..4)
			}
			if w = put(fmt.Sprintf("/upload/ri/v0/%d.cmfv", k), vb); w == "" {
				w = put(fmt.Sprintf("/upload/ri/a0/%d.cmfa", k), ab)
			}
			time.Sleep(25 * time.Millisecond)
		}
		if w != "" {
			return "init segments sent again by a restarted sender: " + w
		}
	}
	time.Sleep(80 * time.Millisecond)
	for _, f := range []string{"manifest.mpd", "manifest_timeline_nr.mpd"} {
		b, err := os.ReadFile(filepath.Join(dir, "ri", f))
		if err != nil {
			continue
		}
		for _, id := range []string{"v0", "a0"} {
			if n := bytes.Count(b, []byte(`<Representation id="`+id+`"`)); n > 1 {
				return fmt.Sprintf("%s lists Representation %s %d times after its init segment was sent again (a restarted sender): the track is registered more than once", f, id, n)
			}
		}
	}
	return ""
}

// c19SlowManifest: a track registers (first init upload) while the channel goroutine is writing manifest.mpd at the
// start of the channel — the disk is slow: manifest.mpd is a FIFO whose reader shows up late.  In every sequential order
// of these uploads the track is in the MPDs; it must be so here, too.
func c19SlowManifest(dir string) string {
	_ = os.MkdirAll(filepath.Join(dir, "s"), 0o755)
	defer os.RemoveAll(dir)
	fifo := filepath.Join(dir, "s", "manifest.mpd")
	if err := syscall.Mkfifo(fifo, 0o600); err != nil {
		return ""
	}
	// (a FIFO opened for reading and writing never blocks in open; it is filled up, so that the write blocks)
	// (raw descriptor: through os.File a write to a full pipe would wait in the runtime poller instead of returning EAGAIN)
	full, err := syscall.Open(fifo, syscall.O_RDWR|syscall.O_NONBLOCK, 0)
	if err != nil {
		return ""
	}
	defer syscall.Close(full)
	junk := make([]byte, 4096)
	for {
		if _, err := syscall.Write(full, junk); err != nil {
			break
		}
	}
	ctx, cancel := context.WithCancel(context.Background())
	defer cancel()
	h, err := recv.VerifNewRouter(ctx, dir, 30, 0, nil, false)
	if err != nil {
		return ""
	}
	vInit, e1 := readAsset("testpic_2s/V300/init.mp4")
	aInit, e2 := readAsset("testpic_2s/A48/init.mp4")
	if e1 != nil || e2 != nil {
		return ""
	}
	seg := func(src string, ts uint64, k int) []byte {
		b, err := readAsset(fmt.Sprintf(src, k%4+1))
		if err != nil {
			return nil
		}
		f, err := mp4.DecodeFile(bytes.NewReader(b))
		if err != nil {
			return nil
		}
		fr := f.Segments[0].Fragments[0]
		fr.Moof.Mfhd.SequenceNumber = uint32(100 + k)
		dt := uint64(100+k) * 2 * ts
		if ts == 48000 {
			dt = dt / 1024 * 1024
		}
		fr.Moof.Traf.Tfdt.SetBaseMediaDecodeTime(dt)
		var buf bytes.Buffer
		_ = f.Segments[0].Encode(&buf)
		return buf.Bytes()
	}
	stop := make(chan struct{})
	var drained sync.WaitGroup
	drain := func() { // the "disk": accepts the write late
		defer drained.Done()
		buf := make([]byte, 65536)
		for {
			_, _ = syscall.Read(full, buf) // non-blocking: empties whatever is in the pipe
			select {
			case <-stop:
				return
			case <-time.After(2 * time.Millisecond):
			}
		}
	}
	defer func() { close(stop); drained.Wait() }()
	for _, u := range []c19Upload{{"/upload/s/v0/init.cmfv", vInit}, {"/upload/s/v0/100.cmfv", seg("testpic_2s/V300/%d.m4s", 90000, 0)},
		{"/upload/s/v0/101.cmfv", seg("testpic_2s/V300/%d.m4s", 90000, 1)}} {
		if code, p := c19Put(h, u); code >= 300 || p != "" {
			return ""
		}
	}
	time.Sleep(60 * time.Millisecond) // the channel goroutine has started the channel and waits for the disk
	// (the uploads may have to wait for the MPD lock that the writer holds: they run beside the late disk)
	audioRes := make(chan string, 1)
	go func() {
		for _, u := range []c19Upload{{"/upload/s/a0/init.cmfa", aInit}, {"/upload/s/a0/101.cmfa", seg("testpic_2s/A48/%d.m4s", 48000, 1)}} {
			if code, p := c19Put(h, u); code >= 300 || p != "" {
				audioRes <- fmt.Sprintf("PUT %s while manifest.mpd is being written is answered %d %s", u.path, code, p)
				return
			}
		}
		audioRes <- ""
	}()
	time.Sleep(60 * time.Millisecond)
	drained.Add(1)
	go drain()
	select {
	case w := <-audioRes:
		if w != "" {
			return w
		}
	case <-time.After(3 * time.Second):
		return "the uploads of a track that registers while manifest.mpd is being written do not return after the write has completed"
	}
	time.Sleep(80 * time.Millisecond)
	for k := 2; k < 7; k++ {
		for _, u := range []c19Upload{{fmt.Sprintf("/upload/s/v0/%d.cmfv", 100+k), seg("testpic_2s/V300/%d.m4s", 90000, k)},
			{fmt.Sprintf("/upload/s/a0/%d.cmfa", 100+k), seg("testpic_2s/A48/%d.m4s", 48000, k)}} {
			if code, p := c19Put(h, u); code >= 500 || p != "" {
				return fmt.Sprintf("PUT %s answered %d %s", u.path, code, p)
			}
			time.Sleep(10 * time.Millisecond)
		}
	}
	time.Sleep(80 * time.Millisecond)
	mb, err := os.ReadFile(filepath.Join(dir, "s", "manifest_timeline_nr.mpd"))
	if err != nil {
		return "no timeline MPD after a video and an audio track have delivered six rounds (the audio track registered while manifest.mpd was being written)"
	}
	for _, id := range []string{`id="v0"`, `id="a0"`} {
		if !bytes.Contains(mb, []byte(id)) {
			return fmt.Sprintf("the timeline MPD has no Representation %s: the track registered while manifest.mpd was being written at the channel start, its uploads were answered 2xx and are stored, but it is in no MPD (in every sequential order of the same uploads it is)", id)
		}
	}
	return c17MpdMatchesStored(filepath.Join(dir, "s"))
}

func c19SlowBody(r *Rng, dir string, overlap bool) string {
	_ = os.MkdirAll(dir, 0o755)
	defer os.RemoveAll(dir)
	ctx, cancel := context.WithCancel(context.Background())
	defer cancel()
	h, err := recv.VerifNewRouter(ctx, dir, 30, 0, nil, false)
	if err != nil {
		return ""
	}
	vInit, e1 := readAsset("testpic_2s/V300/init.mp4")
	aInit, e2 := readAsset("testpic_2s/A48/init.mp4")
	if e1 != nil || e2 != nil {
		return ""
	}
	shifted := r.Intn(4) != 0 || overlap
	seq0, inSeq0, off := uint64(r.Pick(1, 101, 5000)), uint32(0), uint64(0)
	inSeq0 = uint32(seq0)
	if shifted {
		off = uint64(r.Pick(9000, 45000, 90000, 0, 0))
		// (also incoming numbers next to the numbers the times imply, as an encoder counting from 1 produces)
		inSeq0 = uint32(r.Pick(8090, 300, 77, int(seq0)+1, int(seq0)+1, int(seq0)+2))
		if overlap {
			inSeq0 = uint32(int(seq0) + r.Pick(1, 1, 2))
		}
	}
	seg := func(src string, ts uint64, k int) []byte {
		b, err := readAsset(fmt.Sprintf(src, k%4+1))
		if err != nil {
			return nil
		}
		f, err := mp4.DecodeFile(bytes.NewReader(b))
		if err != nil {
			return nil
		}
		fr := f.Segments[0].Fragments[0]
		fr.Moof.Mfhd.SequenceNumber = inSeq0 + uint32(k)
		dt := (seq0+uint64(k))*2*ts + off*ts/90000
		if ts == 48000 {
			dt = dt / 1024 * 1024
		}
		fr.Moof.Traf.Tfdt.SetBaseMediaDecodeTime(dt)
		var buf bytes.Buffer
		_ = f.Segments[0].Encode(&buf)
		return buf.Bytes()
	}
	what := fmt.Sprintf("channel with segments from %d (incoming numbers from %d, time offset %d ticks): ", seq0, inSeq0, off)
	for _, u := range []c19Upload{{"/upload/s/v0/init.cmfv", vInit}, {"/upload/s/a0/init.cmfa", aInit},
		{fmt.Sprintf("/upload/s/v0/%d.cmfv", inSeq0), seg("testpic_2s/V300/%d.m4s", 90000, 0)}, {fmt.Sprintf("/upload/s/a0/%d.cmfa", inSeq0), seg("testpic_2s/A48/%d.m4s", 48000, 0)}} {
		if code, p := c19Put(h, u); code >= 300 || p != "" {
			return ""
		}
	}
	gb := &gatedBody{r: bytes.NewReader(seg("testpic_2s/A48/%d.m4s", 48000, 1)), entered: make(chan struct{}), release: make(chan struct{})}
	type res struct {
		code int
		pan  string
	}
	done := make(chan res, 1)
	go func() {
		req := httptest.NewRequest("PUT", fmt.Sprintf("/upload/s/a0/%d.cmfa", inSeq0+1), gb)
		req.ContentLength = -1
		rec := httptest.NewRecorder()
		var pan string
		func() {
			defer func() {
				if r := recover(); r != nil {
					pan = fmt.Sprint(r)
				}
			}()
			h.ServeHTTP(rec, req)
		}()
		done <- res{rec.Code, pan}
	}()
	select {
	case <-gb.entered:
	case rr := <-done:
		return fmt.Sprintf("%sthe audio upload returned %d before its body was read", what, rr.code)
	case <-time.After(2 * time.Second):
		close(gb.release)
		return ""
	}
	code, p := c19Put(h, c19Upload{fmt.Sprintf("/upload/s/v0/%d.cmfv", inSeq0+1), seg("testpic_2s/V300/%d.m4s", 90000, 1)})
	time.Sleep(30 * time.Millisecond) // the channel goroutine processes the master's second segment: the channel starts
	close(gb.release)
	var ar res
	select {
	case ar = <-done:
	case <-time.After(3 * time.Second):
		return what + "the audio upload whose body arrives after the channel start does not return"
	}
	if code >= 300 || p != "" {
		return fmt.Sprintf("%svideo segment 1 answered %d %s", what, code, p)
	}
	if ar.code >= 300 || ar.pan != "" {
		return fmt.Sprintf("%saudio segment 1, opened before the master's second segment and delivered after it, is answered %d %s (in both sequential orders it is accepted)", what, ar.code, ar.pan)
	}
	ents, _ := os.ReadDir(filepath.Join(dir, "s", "a0"))
	n := 0
	for _, e := range ents {
		if regexp.MustCompile(`^\d+\.cmfa$`).MatchString(e.Name()) {
			n++
		}
	}
	if n != 2 {
		return fmt.Sprintf("%sboth audio uploads were answered 2xx but %d audio segments are stored", what, n)
	}
	// the channel goes on: what the timeline MPD lists afterwards is what is stored
	for k := 2; k < 5; k++ {
		for _, u := range []c19Upload{{fmt.Sprintf("/upload/s/v0/%d.cmfv", inSeq0+uint32(k)), seg("testpic_2s/V300/%d.m4s", 90000, k)},
			{fmt.Sprintf("/upload/s/a0/%d.cmfa", inSeq0+uint32(k)), seg("testpic_2s/A48/%d.m4s", 48000, k)}} {
			if code, p := c19Put(h, u); code >= 500 || p != "" {
				return fmt.Sprintf("%sPUT %s answered %d %s", what, u.path, code, p)
			}
			time.Sleep(10 * time.Millisecond)
		}
		time.Sleep(30 * time.Millisecond)
		if w := c17MpdMatchesStored(filepath.Join(dir, "s")); w != "" {
			return fmt.Sprintf("%safter round %d: %s", what, k, w)
		}
	}
	return ""
}
