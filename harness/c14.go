package main

// C14: fault-injection parameters — ops `loss <pattern> <nowS>` and `stat <asset> <cfg> <rep> <segId> <now> <patterns>`.

import (
	"bytes"
	"fmt"
	"strconv"
	"strings"

	"github.com/Dash-Industry-Forum/livesim2/cmd/livesim2/app"
)

func init() {
	opExec["loss"] = execLoss
	opExec["stat"] = execStat
	generators["C14"] = genC14
}

func execLoss(a []string) string {
	if len(a) != 2 {
		return "bad-op"
	}
	n, err := strconv.Atoi(a[1])
	if err != nil {
		return "bad-op"
	}
	p := a[0]
	if p == "-" {
		p = ""
	}
	st, err := app.VerifStateAt(p, n)
	if err != nil {
		return "err"
	}
	return fmt.Sprintf("state=%d", st)
}

func patsToURL(p string) string {
	var parts []string
	for _, t := range strings.Split(p, "|") {
		f := strings.Split(t, ":")
		if len(f) != 4 {
			return "bad"
		}
		s := fmt.Sprintf("{cycle:%s,rsq:%s,code:%s", f[0], f[1], f[2])
		if f[3] != "*" {
			s += ",rep:" + f[3]
		}
		parts = append(parts, s+"}")
	}
	return "statuscode_[" + strings.Join(parts, ",") + "]/"
}

func statURL(va *app.VerifAsset, cfg, repID, segID, nowMS, pats string) string {
	u := segURL(va, cfg, repID, segID, nowMS)
	return strings.Replace(u, "/livesim2/", "/livesim2/"+patsToURL(pats), 1)
}

func execStat(a []string) string {
	if len(a) != 6 {
		return "bad-op"
	}
	va := findVAsset(a[0])
	if va == nil {
		return "bad-op"
	}
	res := doLive("GET", statURL(va, a[1], a[2], a[3], a[4], a[5]))
	if res.panicked != "" {
		return "PANIC"
	}
	if bytes.Contains(res.body, []byte("triggered code")) {
		return "T" + strconv.Itoa(res.code)
	}
	return strconv.Itoa(res.code)
}

// wantState is the property for traffic patterns: cyclic from the epoch.
func wantState(pattern string, nowS int) int {
	type iv struct{ st, d int }
	var ivs []iv
	st, d := 0, 0
	flush := func() {
		if st != 0 {
			ivs = append(ivs, iv{st, d})
		}
	}
	for _, c := range pattern {
		switch c {
		case 'u', 'd', 's', 'h':
			flush()
			st = map[rune]int{'u': 1, 'd': 2, 's': 3, 'h': 4}[c]
			d = 0
		default:
			d = d*10 + int(c-'0')
		}
	}
	flush()
	cyc := 0
	for _, i := range ivs {
		cyc += i.d
	}
	x := nowS % cyc
	for _, i := range ivs {
		if x < i.d {
			return i.st
		}
		x -= i.d
	}
	return 0
}

// c14Others: requests that no pattern can mean — generated subtitle segments, init segments, the MPD — are answered
// exactly as without the statuscode parameter, whatever the patterns say.
func c14Others(c *Ctx) {
	for _, asset := range []string{"testpic_2s", "testpic_8s"} {
		a := findVAsset(asset)
		if a == nil {
			continue
		}
		for _, pat := range []string{"[{cycle:30,rsq:0,code:404,rep:V300}]", "[{cycle:10,rsq:1,code:503}]", "[{cycle:4,rsq:0,code:410,rep:*}]"} {
			for _, k := range []int{5, 6, 15, 16, 30, 31} {
				now := (k+2)*a.SegmentDurMS + 300
				for _, tail := range []string{
					fmt.Sprintf("timesubsstpp_en,sv/%s/timestpp-en/%d.m4s", a.AssetPath, k), fmt.Sprintf("timesubswvtt_en/%s/timewvtt-en/%d.m4s", a.AssetPath, k),
					fmt.Sprintf("timesubsstpp_en/%s/timestpp-en/init.mp4", a.AssetPath), fmt.Sprintf("%s/V300/init.mp4", a.AssetPath), fmt.Sprintf("%s/Manifest.mpd", a.AssetPath)} {
					plain := doLive("GET", fmt.Sprintf("/livesim2/%s?nowMS=%d", tail, now))
					with := doLive("GET", fmt.Sprintf("/livesim2/statuscode_%s/%s?nowMS=%d", pat, tail, now))
					c.Count("statuscode-others")
					if with.code != plain.code || with.panicked != "" {
						c.Violate("other-request-changed", fmt.Sprintf("statuscode_%s changes the answer to a request no pattern applies to: %d %s instead of %d", pat, with.code, with.panicked, plain.code),
							[]string{fmt.Sprintf("# GET /livesim2/statuscode_%s/%s?nowMS=%d", pat, tail, now)}, nil)
					}
				}
			}
		}
	}
}

func genC14(c *Ctx) {
	c14Others(c)
	c.emitAssetDefs()
	r := c.Rng
	// ---- traffic patterns: all patterns over {u,d,s,h} x durations up to length 4 (sampled in quick), all seconds of 3 cycles
	letters := "udsh"
	durs := []string{"1", "2", "3", "10", "07"}
	for i := 0; i < c.N(300, 4000); i++ {
		n := r.Range(1, 4)
		var sb strings.Builder
		for k := 0; k < n; k++ {
			sb.WriteByte(letters[r.Intn(4)])
			sb.WriteString(durs[r.Intn(len(durs))])
		}
		pat := sb.String()
		valid := true
		switch r.Intn(12) {
		case 0:
			pat += "u" // trailing state without duration
			valid = false
		case 1:
			pat = strings.Replace(pat, "1", "0", 1)
			valid = !strings.Contains(pat, "u0") && !strings.Contains(pat, "d0") && !strings.Contains(pat, "s0") && !strings.Contains(pat, "h0")
			if !valid || strings.Contains(pat, "0") {
				valid = false
				pat = "u0" + pat
			}
		case 2:
			pat = "x" + pat
			valid = false
		case 3:
			pat = "-"
			valid = false
		}
		cyc := 0
		if valid {
			for s := 0; s < 3; s++ {
				cyc += 0
			}
		}
		for _, now := range []int{0, 1, r.Intn(40), r.Intn(40), 1790000000 + r.Intn(60)} {
			line := fmt.Sprintf("loss %s %d", pat, now)
			out := c.Emit(line, valid)
			if strings.HasPrefix(out, "PANIC") {
				c.Violate("loss-panic", "StateAt panics", []string{line}, out)
				continue
			}
			if valid {
				want := fmt.Sprintf("state=%d", wantState(pat, now))
				if out != want {
					c.Violate("loss-state", fmt.Sprintf("pattern %s at second %d: %s, the cyclic schedule gives %s", pat, now, out, want), []string{line}, nil)
				}
			} else if out != "err" {
				c.Violate("loss-parse", fmt.Sprintf("invalid pattern %q accepted: %s", pat, out), []string{line}, nil)
			}
		}
		_ = cyc
	}
	// ---- status-code patterns: sweep all segments over >= 4 cycles
	for ai := range vAssets {
		a := &vAssets[ai]
		ref := refRepOf(a)
		if ref == nil || ref.ContentType != "video" {
			continue
		}
		var reps []*app.VerifRep
		for i := range a.Reps {
			rp := &a.Reps[i]
			if rp.ContentType == "video" || (rp.ContentType == "audio" && !rp.PreEncrypted && rp.ConstSampleDur > 0) {
				reps = append(reps, rp)
			}
		}
		n := len(ref.Segments)
		for it := 0; it < c.N(3, 16); it++ {
			cycle := r.Pick(30, 7, 10, 45, 1, 12)
			rsq := r.Pick(0, 1, 2, 3)
			code := r.Pick(404, 410, 503, 599, 400)
			startS := r.Pick(0, 0, 10, 61)
			snr := r.Pick(0, 0, 5)
			mode := r.PickS("n", "tlt", "tln")
			rep := reps[r.Intn(len(reps))]
			filt := r.PickS("*", "*", rep.ID, "nomatch", rep.ID[:1])
			pats := fmt.Sprintf("%d:%d:%d:%s", cycle, rsq, code, filt)
			type patT struct {
				cycle, rsq, code int
				filt             string
			}
			pl := []patT{{cycle, rsq, code, filt}}
			if r.Intn(3) == 0 {
				c2, r2, k2 := r.Pick(5, 20, 60), r.Pick(0, 2, 7), r.Pick(404, 500)
				pats += fmt.Sprintf("|%d:%d:%d:*", c2, r2, k2)
				pl = append(pl, patT{c2, r2, k2, "*"})
			}
			cf := mkCfg(startS, 60, snr, 0, mode)
			T := uint64(ref.MediaTimescale)
			// sweep k over 4 cycles from stream start, and 2 cycles around 2026
			kmax := int(int64(4*cycle)*1000/int64(a.LoopDurMS)+1)*n + n
			var ks []int
			for k := 0; k <= kmax && k < c.N(80, 400); k++ {
				ks = append(ks, k)
			}
			k0 := int(int64(1790000000000) / int64(a.LoopDurMS) * int64(n))
			for d := 0; d < c.N(20, 80); d++ {
				ks = append(ks, k0+d)
			}
			for _, k := range ks {
				e := expectSeg(a, ref, k, snr)
				av, _ := availMS(e, int(T), startS, 0)
				now := av + 10
				id := strconv.Itoa(e.nr)
				if mode == "tlt" {
					if rep.ContentType == "audio" {
						id = strconv.FormatUint(ceilFrame(e.start, T, uint64(rep.ConstSampleDur), uint64(rep.MediaTimescale)), 10)
					} else {
						er := expectSeg(a, rep, k, snr)
						id = strconv.FormatUint(er.start, 10)
					}
				}
				line := fmt.Sprintf("stat %s %s %s %s %d %s", a.AssetPath, cf.s, rep.ID, id, now, pats)
				out := c.Emit(line, true)
				if out == "PANIC" {
					c.Violate("stat-panic", "status-code request panics", []string{line}, nil)
					continue
				}
				// the property: rank of the segment among those starting in its cycle (cycles counted from stream start)
				want := "200"
				for _, p := range pl {
					if p.filt != "*" && !strings.Contains(rep.ID, p.filt) {
						continue
					}
					cyc := e.start / (uint64(p.cycle) * T)
					rank := 0
					for j := k - 1; j >= 0; j-- {
						ej := expectSeg(a, ref, j, snr)
						if ej.start/(uint64(p.cycle)*T) != cyc {
							break
						}
						rank++
					}
					if rank == p.rsq {
						want = "T" + strconv.Itoa(p.code)
						break
					}
				}
				if out != want {
					c.Violate("stat-schedule", fmt.Sprintf("k=%d (starts at %d ticks): got %s, the schedule gives %s", k, e.start, out, want), []string{line}, nil)
				}
			}
		}
	}
	// ---- op tdec: the BaseURL directory selects the pattern (model: extractPattern + the traffic branch of the handler)
	for _, tr := range []string{"u20d10,d10u20", "u3,d3,u2d1,d1u2,u5,d5,u1d1,d2u1,u4,d4,d3u3,u2,d7u2", "d5", "u1d1,d1u1,u2d2"} {
		np := strings.Count(tr, ",") + 1
		var dirs []string
		for j := 0; j < np+2; j++ {
			dirs = append(dirs, fmt.Sprintf("bu%d", j))
		}
		dirs = append(dirs, "bu-1", "bu-2", "bu-17", "bu+1", "bu+0", "bu00", "bu007", "bu012", "bux", "bu", "bu1x", "bu1.0", "bu99", "bu9223372036854775807", "bu9223372036854775808",
			"bu-9223372036854775808", "bv1", "b", "BU1")
		for _, d := range dirs {
			for i := 0; i < c.N(3, 12); i++ {
				line := fmt.Sprintf("tdec %s %s %d", tr, d, 100000+r.Intn(40)*1000+r.Pick(0, 300, 999))
				out := c.Emit(line, true)
				if strings.HasPrefix(out, "PANIC") {
					c.Violate("traffic-panic", "segment request through directory "+d+" with traffic patterns panics", []string{line}, nil)
				}
			}
		}
	}
	// BaseURL elements and out-of-range BaseURL index
	// (more than ten patterns: BaseURL indices with two digits)
	for _, tr := range []string{"u10", "u20d3u12", "u5,d5", "u1,d2,s3", "u3,d3,u2d1,d1u2,u5,d5,u1d1,d2u1,u4,d4,d3u3,u2,d7u2",
		"u10,u10,u10,u10,u10,u10,u10,u10,u10,u10,d10u10"} {
		np := strings.Count(tr, ",") + 1
		res := doLive("GET", "/livesim2/traffic_"+tr+"/testpic_2s/Manifest.mpd?nowMS=100000")
		m, err := parseMPD(res.body)
		c.Count("traffic-mpd")
		if err != nil || len(m.Periods) == 0 || len(m.Periods[0].BaseURLs) != np {
			c.Violate("baseurl-count", fmt.Sprintf("traffic_%s: MPD does not offer one BaseURL per pattern", tr), []string{"# GET traffic_" + tr}, nil)
			continue
		}
		for j, b := range m.Periods[0].BaseURLs {
			if b != fmt.Sprintf("bu%d/", j) {
				c.Violate("baseurl-name", "BaseURL "+b, []string{"# GET traffic_" + tr}, nil)
			}
		}
		for _, bu := range []int{np, np + 4} {
			u := fmt.Sprintf("/livesim2/traffic_%s/testpic_2s/bu%d/V300/49.m4s?nowMS=100300", tr, bu)
			rr := doLive("GET", u)
			if rr.panicked != "" || rr.code != 404 {
				c.Violate("baseurl-index", fmt.Sprintf("BaseURL index %d of %d patterns: %d %s", bu, np, rr.code, rr.panicked), []string{"# GET " + u}, nil)
			}
		}
		// state through the handler for up/down (slow/hang sleep for seconds: thorough only)
		// every second of the window and both halves of it: the state is that of the *whole* second of the request instant
		for sec := 0; sec < 30; sec++ {
			for j := 0; j < np; j++ {
				for _, off := range []int{0, 300, 499, 500, 999} {
					if off != 300 && sec%3 != 0 && !c.Thorough() && off != 500 && off != 999 {
						continue
					}
					pat := strings.Split(tr, ",")[j]
					st := wantState(pat, 100+sec)
					if st >= 3 && (!c.Thorough() || off != 300) {
						continue
					}
					nowMS := (100+sec)*1000 + off
					k := (nowMS - 2999) / 2000
					u := fmt.Sprintf("/livesim2/traffic_%s/testpic_2s/bu%d/V300/%d.m4s?nowMS=%d", tr, j, k, nowMS)
					rr := doLive("GET", u)
					want := map[int]int{1: 200, 2: 404, 3: 200, 4: 503}[st]
					if rr.code != want {
						c.Violate("traffic-handler", fmt.Sprintf("pattern %s second %d: status %d, want %d", pat, 100+sec, rr.code, want), []string{"# GET " + u}, nil)
					}
					c.Count("traffic-handler-requests")
				}
			}
		}
	}
}

func init() {
	opExec["tdec"] = func(a []string) string {
		if len(a) != 3 {
			return "bad-op"
		}
		nowMS, err := strconv.Atoi(a[2])
		if err != nil || nowMS < 3000 {
			return "bad-op"
		}
		k := (nowMS - 2999) / 2000
		rr := doLive("GET", fmt.Sprintf("/livesim2/traffic_%s/testpic_2s/%s/V300/%d.m4s?nowMS=%d", a[0], a[1], k, nowMS))
		if rr.panicked != "" {
			return "PANIC " + rr.panicked
		}
		return strconv.Itoa(rr.code)
	}
}
